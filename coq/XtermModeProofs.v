(* XtermModeProofs.v -- C12: lemmas about the mode shadow, teardown / pause / resume and
   the controls against the VT's mode state; the history theorems.

   Plan: the VT is observed through a [view] (the modes of the property's list, blink, shape,
   keypad, rendition); every token the mode operations write acts on the view by a simple
   function.  [CInv] relates the driver's shadow, the bookkeeping (last value set) and the
   view, per phase (running / paused / stopped); [MInv] adds the term.c layer and the pen.
   One lemma per operation shows that the model's step passes the checker and preserves
   [MInv]; the history theorems follow by induction.

   Replies of the terminal to the start-up queries ([OReport], [ODecscusr]) may be read anywhere in
   a history.  [CInv] says why a late reply does no harm: once a control has been set its
   "initialised" flag is up and the reply is ignored (section 2b).  [history_nokp] /
   [history_full_partial] hold of every history, replies included; the "accepted to the end"
   theorems come in two forms: for histories of calls ([wf_hist]) and for histories with truthful
   replies ([wf_hist_r], which tracks whether the blink / shape control has been set).

   The three facts about the pen path (TermPenSpec.v) are section hypotheses. *)
From Coq Require Import ZArith List Bool Lia.
From Tickit Require Import Csi VT TermPenDefs TermPenSpec XtermDefs XtermModeSpec Gen_SgrOnOff.
Import ListNotations.
Local Open Scope Z_scope.

(* teardown always ends by resetting the rendition *)
Lemma teardown_ends_with_sgr0 : forall d, exists ts, xt_teardown d = ts ++ [csi_0 109].
Proof.
  intro d. unfold xt_teardown.
  eexists. rewrite !app_assoc. reflexivity.
Qed.

(* the three facts about the pen path, proved in TermPenProofs.v: premises of every theorem
   that leaves this section and needs them *)
Section WithPenFacts.
  Hypothesis chpen_core : chpen_core_stmt.
  Hypothesis nondefault_enc : nondefault_enc_stmt.
  Hypothesis term_pen : term_pen_stmt.

(* ==== 1. the view of the VT and the tokens' action on it *)
Record view := mkView { w_alt : bool; w_cv : bool; w_blink : bool; w_mouse : Z; w_sgrm : bool;
                        w_kp : bool; w_shape : Z; w_sgr : attrs }.
Definition view_of (v : vt) : view :=
  mkView (md_alt (v_md v)) (md_curvis (v_md v)) (md_blink (v_md v)) (md_mouse (v_md v))
         (md_sgrmouse (v_md v)) (md_keypad (v_md v)) (md_shape (v_md v)) (v_sgr v).
Definition vw_alt (w : view) (b : bool) := mkView b (w_cv w) (w_blink w) (w_mouse w) (w_sgrm w) (w_kp w) (w_shape w) (w_sgr w).
Definition vw_cv (w : view) (b : bool) := mkView (w_alt w) b (w_blink w) (w_mouse w) (w_sgrm w) (w_kp w) (w_shape w) (w_sgr w).
Definition vw_blink (w : view) (b : bool) := mkView (w_alt w) (w_cv w) b (w_mouse w) (w_sgrm w) (w_kp w) (w_shape w) (w_sgr w).
Definition vw_mouse (w : view) (z : Z) := mkView (w_alt w) (w_cv w) (w_blink w) z (w_sgrm w) (w_kp w) (w_shape w) (w_sgr w).
Definition vw_sgrm (w : view) (b : bool) := mkView (w_alt w) (w_cv w) (w_blink w) (w_mouse w) b (w_kp w) (w_shape w) (w_sgr w).
Definition vw_kp (w : view) (b : bool) := mkView (w_alt w) (w_cv w) (w_blink w) (w_mouse w) (w_sgrm w) b (w_shape w) (w_sgr w).
Definition vw_shape (w : view) (z : Z) := mkView (w_alt w) (w_cv w) (w_blink w) (w_mouse w) (w_sgrm w) (w_kp w) z (w_sgr w).
Definition vw_sgr (w : view) (a : attrs) := mkView (w_alt w) (w_cv w) (w_blink w) (w_mouse w) (w_sgrm w) (w_kp w) (w_shape w) a.

Definition view_dec (w : view) (n : Z) (on : bool) : view :=
  if n =? 1049 then vw_alt w on
  else if n =? 25 then vw_cv w on
  else if n =? 12 then vw_blink w on
  else if (n =? 1000) || (n =? 1002) || (n =? 1003) then vw_mouse w (if on then n else 0)
  else if n =? 1006 then vw_sgrm w on
  else w.

Lemma vt_run_nil : forall v, vt_run [] v = v. Proof. reflexivity. Qed.
Lemma vt_run_cons : forall a l v, vt_run (a :: l) v = vt_run l (vt_step v a). Proof. reflexivity. Qed.
Lemma vt_run_app : forall a b v, vt_run (a ++ b) v = vt_run b (vt_run a v).
Proof. intros a b v. unfold vt_run. apply fold_left_app. Qed.

Lemma view_vt_decmode : forall v n on, view_of (vt_decmode v n on) = view_dec (view_of v) n on.
Proof.
  intros v n on. unfold vt_decmode, view_dec.
  destruct (n =? 1049) eqn:E1.
  { destruct (md_alt (v_md v)) eqn:Ea; destruct on; unfold view_of, vw_alt; cbn; rewrite ?Ea; reflexivity. }
  destruct (n =? 25) eqn:E2. { reflexivity. }
  destruct (n =? 12) eqn:E3. { reflexivity. }
  destruct (n =? 7) eqn:E4.
  { apply Z.eqb_eq in E4. subst n. reflexivity. }
  destruct (n =? 69) eqn:E5.
  { apply Z.eqb_eq in E5. subst n. destruct on; reflexivity. }
  destruct ((n =? 1000) || (n =? 1002) || (n =? 1003)) eqn:E6. { reflexivity. }
  destruct (n =? 1006) eqn:E7; reflexivity.
Qed.

Lemma view_vt_dec : forall v n on, view_of (vt_step v (dec_mode n on)) = view_dec (view_of v) n on.
Proof.
  intros v n on. rewrite <- view_vt_decmode. destruct on; reflexivity.
Qed.
Lemma view_vt_kp : forall v fin, fin = 61 \/ fin = 62 ->
  view_of (vt_step v (TEsc [] fin)) = vw_kp (view_of v) (fin =? 61).
Proof. intros v fin [H|H]; subst fin; reflexivity. Qed.
Lemma view_vt_sgr0 : forall v, view_of (vt_step v (csi_0 109)) = vw_sgr (view_of v) default_attrs.
Proof. reflexivity. Qed.
Lemma view_vt_shape : forall v k, view_of (vt_step v (TCsi None [[Some k]] [32] 113)) = vw_shape (view_of v) k.
Proof. reflexivity. Qed.
Lemma view_vt_clear : forall v, view_of (vt_step v (csi_n 2 74)) = view_of v.
Proof. reflexivity. Qed.

(* ==== 2. shadow / bookkeeping / view invariant and the controls *)
Definition b2z (b : bool) : Z := if b then 1 else 0.
Definition init_ms : mstate := mkMs false true 0 false false.

Definition shadow_ok (kp : bool) (l : lastset) (m : xmode) : Prop :=
  (match l CtlAltscreen with Some x => x = b2z (m_altscreen m) | None => m_altscreen m = false end) /\
  (match l CtlCursorvis with Some x => x = b2z (m_cursorvis m) | None => m_cursorvis m = true end) /\
  (match l CtlMouse with Some x => x = m_mouse m | None => m_mouse m = 0 end) /\
  (match l CtlCursorblink with Some x => x = b2z (m_cursorblink m) | None => True end) /\
  (match l CtlCursorshape with Some x => x = m_cursorshape m | None => True end) /\
  (kp = true -> l CtlKeypadApp = None \/ l CtlKeypadApp = Some 0) /\
  l CtlColors = None /\ l CtlCapRgb8 = None /\ 0 <= m_mouse m <= 3 /\ m_keypad m = false.

Inductive phase := Run | Paused | Stopped.
Definition vt_rel (ph : phase) (m : xmode) (w : view) : Prop :=
  match ph with
  | Run => w_alt w = m_altscreen m /\ w_cv w = m_cursorvis m /\
           w_mouse w = mode_for_mouse (m_mouse m) /\ w_sgrm w = nz (m_mouse m)
  | Paused => (w_alt w = m_altscreen m \/ w_alt w = false) /\ (w_cv w = m_cursorvis m \/ w_cv w = true) /\
              (w_mouse w = mode_for_mouse (m_mouse m) \/ w_mouse w = 0) /\
              (w_sgrm w = nz (m_mouse m) \/ w_sgrm w = false)
  | Stopped => w_alt w = false /\ w_cv w = true /\ w_mouse w = 0 /\ w_sgrm w = false
  end.

(* [cshape] = the checker compares the cursor shape: only sound when the driver writes DECSCUSR, so
   it implies the capability (which a late DECRQSS reply may also switch on in mid-history).
   The last four fields are about the start-up replies (stale once the control has been set):
   a control that has been set has its "initialised" flag up, so a later reply is ignored; the blink
   shadow is 0 until the flag goes up (new() zeroes it and only setctl / a reply change it) *)
Record CInv (kp cshape : bool) (ph : phase) (d : xdrv) (l : lastset) (w : view) : Prop := mkCInv {
  ci_cshape : cshape = true -> cap_cursorshape (x_caps d) = true;
  ci_shadow : shadow_ok kp l (x_mode d);
  ci_vt : vt_rel ph (x_mode d) w;
  ci_kp : kp = true -> w_kp w = false;
  ci_blink : i_cursorblink (x_init d) = true -> w_blink w = m_cursorblink (x_mode d);
  ci_shape : i_cursorshape (x_init d) = true -> cshape = true -> (w_shape w + 1) / 2 = m_cursorshape (x_mode d);
  ci_blink0 : i_cursorblink (x_init d) = false -> m_cursorblink (x_mode d) = false;
  ci_cvset : l CtlCursorvis <> None -> i_cursorvis (x_init d) = true;
  ci_blinkset : l CtlCursorblink <> None -> i_cursorblink (x_init d) = true;
  ci_shapeset : l CtlCursorshape <> None -> i_cursorshape (x_init d) = true
}.

Definition extra_okb (cshape : bool) (c : ctl) (x : Z) (w : view) : bool :=
  match c with
  | CtlCursorblink => Bool.eqb (w_blink w) (negb (x =? 0))
  | CtlCursorshape => negb cshape || ((w_shape w + 1) / 2 =? x)
  | _ => true
  end.

Definition set_concl (kp cshape : bool) (ph : phase) (d : xdrv) (l : lastset) (v : vt) (c : ctl) (x : Z) : Prop :=
  exists d' ts, xt_setctl d c x = (d', ts, true) /\ x_caps d' = x_caps d /\
    CInv kp cshape ph d' (ls_set l c (ctl_norm c x)) (view_of (vt_run ts v)) /\
    w_sgr (view_of (vt_run ts v)) = w_sgr (view_of v) /\
    extra_okb cshape c x (view_of (vt_run ts v)) = true /\
    (* frame: only the blink / shape control changes the terminal's blink / shape *)
    (c <> CtlCursorblink -> w_blink (view_of (vt_run ts v)) = w_blink (view_of v)) /\
    (c <> CtlCursorshape -> w_shape (view_of (vt_run ts v)) = w_shape (view_of v)).

Ltac frame_goal := first [ intros _; reflexivity | intros Hn; exfalso; apply Hn; reflexivity ].

Ltac projs :=
  cbn [x_mode x_caps x_init m_altscreen m_cursorvis m_cursorblink m_cursorshape m_mouse m_keypad
       i_cursorvis i_cursorblink i_cursorshape i_slrm fst snd] in *.

Lemma bool_range : forall x, (x =? 0) || (x =? 1) = true -> x = 0 \/ x = 1.
Proof. intros x H. apply orb_true_iff in H. destruct H as [H|H]; apply Z.eqb_eq in H; auto. Qed.


Lemma view_dec_1049 : forall w on, view_dec w 1049 on = vw_alt w on. Proof. reflexivity. Qed.
Lemma view_dec_25 : forall w on, view_dec w 25 on = vw_cv w on. Proof. reflexivity. Qed.
Lemma view_dec_12 : forall w on, view_dec w 12 on = vw_blink w on. Proof. reflexivity. Qed.
Lemma view_dec_1006 : forall w on, view_dec w 1006 on = vw_sgrm w on. Proof. reflexivity. Qed.
Lemma view_dec_mouse : forall w k on, 1 <= k <= 3 ->
  view_dec w (mode_for_mouse k) on = vw_mouse w (if on then mode_for_mouse k else 0).
Proof.
  intros w k on Hk. assert (Hc : k = 1 \/ k = 2 \/ k = 3) by lia.
  destruct Hc as [Hc|[Hc|Hc]]; subst k; reflexivity.
Qed.
Lemma mfm_0 : mode_for_mouse 0 = 0. Proof. reflexivity. Qed.

Ltac vprojs :=
  cbn [vw_alt vw_cv vw_blink vw_mouse vw_sgrm vw_kp vw_shape vw_sgr
       w_alt w_cv w_blink w_mouse w_sgrm w_kp w_shape w_sgr] in *.
Ltac open_inv Hinv :=
  let Hcs := fresh "Hcs" in let Hsh := fresh "Hsh" in let Hvt := fresh "Hvt" in
  let Hkp := fresh "Hkp" in let Hbl := fresh "Hbl" in let Hshp := fresh "Hshp" in
  let Hbl0 := fresh "Hbl0" in let Hcvs := fresh "Hcvs" in let Hbls := fresh "Hbls" in let Hshs := fresh "Hshs" in
  destruct Hinv as [Hcs Hsh Hvt Hkp Hbl Hshp Hbl0 Hcvs Hbls Hshs];
  destruct Hsh as (Sa & Scv & Sm & Sb & Ss & Sk & Sco & Srgb & Smr & Skp).
Ltac absview v :=
  let w := fresh "w" in let Ew := fresh "Ew" in
  remember (view_of v) as w eqn:Ew; clear Ew;
  destruct w as [wa wcv wb wm wsm wk wsh wsg]; vprojs.
Ltac shadow_goal :=
  unfold shadow_ok, ls_set; cbn [ctl_eqb ctl_index Nat.eqb ctl_norm ctl_is_bool]; projs.

Ltac flag_goal :=
  unfold ls_set; cbn [ctl_eqb ctl_index Nat.eqb]; projs;
  first [ assumption | intros _; reflexivity | intros Hflag; discriminate Hflag ].
Ltac clear_imps := repeat match goal with H : _ -> _ |- _ => clear H end.
Ltac cinv_side ph :=
  lazymatch goal with
  | |- shadow_ok _ _ _ => try solve [shadow_goal; repeat split; try assumption; try reflexivity; lia]
  | |- vt_rel _ _ _ =>
      try solve [destruct ph; [ | | congruence]; clear_imps; cbn [vt_rel] in *; projs; vprojs; intuition congruence]
  | |- _ => try solve [assumption | flag_goal]
  end.

Lemma set_alt_ok : forall kp cshape ph d l v x, ph <> Stopped ->
  CInv kp cshape ph d l (view_of v) -> x = 0 \/ x = 1 -> set_concl kp cshape ph d l v CtlAltscreen x.
Proof.
  intros kp cshape ph d l v x Hph Hinv Hx. open_inv Hinv.
  destruct d as [caps m ini]. destruct m as [ma mcv mb msh mm mk]. projs.
  unfold set_concl, xt_setctl. projs.
  destruct ma; destruct Hx as [Hx|Hx]; subst x; cbn [nz Z.eqb negb Bool.eqb].
  all: eexists; eexists; split; [reflexivity|]; split; [reflexivity|].
  all: rewrite ?vt_run_cons, ?vt_run_nil, ?view_vt_dec, ?view_dec_1049.
  all: absview v; split; [|split; [reflexivity|split; [reflexivity|split; frame_goal]]].
  all: unfold with_mode; constructor; projs; cinv_side ph.
Qed.

Lemma set_cv_ok : forall kp cshape ph d l v x, ph <> Stopped ->
  CInv kp cshape ph d l (view_of v) -> x = 0 \/ x = 1 -> set_concl kp cshape ph d l v CtlCursorvis x.
Proof.
  intros kp cshape ph d l v x Hph Hinv Hx. open_inv Hinv.
  destruct d as [caps m ini]. destruct m as [ma mcv mb msh mm mk]. projs.
  unfold set_concl, xt_setctl. cbv zeta. projs.
  destruct mcv; destruct Hx as [Hx|Hx]; subst x; cbn [nz Z.eqb negb Bool.eqb].
  all: eexists; eexists; split; [reflexivity|]; split; [reflexivity|].
  all: rewrite ?vt_run_cons, ?vt_run_nil, ?view_vt_dec, ?view_dec_25.
  all: absview v; split; [|split; [reflexivity|split; [reflexivity|split; frame_goal]]].
  all: unfold with_mode, with_init; constructor; projs; cinv_side ph.
Qed.

Lemma set_blink_ok : forall kp cshape ph d l v x, ph <> Stopped ->
  CInv kp cshape ph d l (view_of v) -> x = 0 \/ x = 1 -> set_concl kp cshape ph d l v CtlCursorblink x.
Proof.
  intros kp cshape ph d l v x Hph Hinv Hx. open_inv Hinv.
  destruct d as [caps m ini]. destruct m as [ma mcv mb msh mm mk]. destruct ini as [icv ibl ish isl]. projs.
  unfold set_concl, xt_setctl. projs.
  destruct ibl;
  destruct mb; destruct Hx as [Hx|Hx]; subst x; cbn [nz Z.eqb negb Bool.eqb andb].
  all: eexists; eexists; split; [reflexivity|]; split; [reflexivity|].
  all: rewrite ?vt_run_cons, ?vt_run_nil, ?view_vt_dec, ?view_dec_12.
  all: absview v; split; [|split; [reflexivity|split; [|split; frame_goal]]].
  all: try (unfold with_mode, with_init; constructor; projs; cinv_side ph).
  all: try (cbn [extra_okb w_blink Z.eqb negb]; try rewrite (Hbl eq_refl); reflexivity).
Qed.

Lemma set_mouse_ok : forall kp cshape ph d l v x, ph <> Stopped ->
  CInv kp cshape ph d l (view_of v) -> 0 <= x <= 3 -> set_concl kp cshape ph d l v CtlMouse x.
Proof.
  intros kp cshape ph d l v x Hph Hinv Hx. open_inv Hinv.
  destruct d as [caps m ini]. destruct m as [ma mcv mb msh mm mk]. projs.
  unfold set_concl, xt_setctl. projs.
  destruct (mm =? x) eqn:Emx.
  - apply Z.eqb_eq in Emx. subst x.
    eexists; eexists; split; [reflexivity|]; split; [reflexivity|].
    rewrite vt_run_nil. absview v. split; [|split; [reflexivity|split; [reflexivity|split; frame_goal]]].
    constructor; projs; cinv_side ph.
  - apply Z.eqb_neq in Emx.
    assert (Hmod : x mod 4 = x) by (apply Z.mod_small; lia).
    rewrite Hmod.
    destruct (x =? 0) eqn:Ex0.
    + apply Z.eqb_eq in Ex0. subst x.
      eexists; eexists; split; [reflexivity|]; split; [reflexivity|].
      unfold mouse_tokens. rewrite !vt_run_cons, vt_run_nil, !view_vt_dec, view_dec_1006, view_dec_mouse by lia.
      absview v. split; [|split; [reflexivity|split; [reflexivity|split; frame_goal]]].
      unfold with_mode; constructor; projs; cinv_side ph.
    + apply Z.eqb_neq in Ex0.
      eexists; eexists; split; [reflexivity|]; split; [reflexivity|].
      unfold mouse_tokens. rewrite !vt_run_cons, vt_run_nil, !view_vt_dec, view_dec_1006, view_dec_mouse by lia.
      absview v. split; [|split; [reflexivity|split; [reflexivity|split; frame_goal]]].
      assert (Hnz : nz x = true) by (unfold nz; apply Z.eqb_neq in Ex0; rewrite Ex0; reflexivity).
      unfold with_mode; constructor; projs; cinv_side ph.
Qed.

Lemma shape_div : forall x (b : bool), 1 <= x <= 3 -> (x * 2 + (if b then -1 else 0) + 1) / 2 = x.
Proof.
  intros x b Hx. assert (Hc : x = 1 \/ x = 2 \/ x = 3) by lia.
  destruct Hc as [Hc|[Hc|Hc]]; subst x; destruct b; reflexivity.
Qed.

Lemma set_shape_ok : forall kp cshape ph d l v x, ph <> Stopped ->
  CInv kp cshape ph d l (view_of v) -> 1 <= x <= 3 -> set_concl kp cshape ph d l v CtlCursorshape x.
Proof.
  intros kp cshape ph d l v x Hph Hinv Hx. open_inv Hinv.
  destruct d as [caps m ini]. destruct m as [ma mcv mb msh mm mk]. destruct ini as [icv ibl ish isl]. projs.
  unfold set_concl, xt_setctl. projs.
  assert (Hmod : x mod 4 = x) by (apply Z.mod_small; lia).
  rewrite Hmod.
  destruct (ish && (msh =? x)) eqn:Ecur.
  - apply andb_true_iff in Ecur. destruct Ecur as [Ei Emx]. apply Z.eqb_eq in Emx. subst x. subst ish.
    eexists; eexists; split; [reflexivity|]; split; [reflexivity|].
    rewrite vt_run_nil. absview v.
    split; [|split; [reflexivity|split; [|split; frame_goal]]].
    + constructor; projs; cinv_side ph.
    + cbn [extra_okb w_shape]. destruct cshape; [|reflexivity].
      rewrite (Hshp eq_refl eq_refl), Z.eqb_refl. reflexivity.
  - destruct (cap_cursorshape caps) eqn:Ecap.
    + eexists; eexists; split; [reflexivity|]; split; [reflexivity|].
      rewrite vt_run_cons, vt_run_nil, view_vt_shape.
      absview v. split; [|split; [reflexivity|split; [|split; frame_goal]]].
      * unfold with_mode, with_init; constructor; projs; cinv_side ph.
        { intros _. exact Ecap. }
        intros _ _. vprojs. apply shape_div; exact Hx.
      * cbn [extra_okb]; vprojs. rewrite shape_div by exact Hx. rewrite Z.eqb_refl. apply orb_true_r.
    + assert (Hcsf : cshape = false).
      { destruct cshape; [|reflexivity]. specialize (Hcs eq_refl). discriminate Hcs. }
      subst cshape.
      eexists; eexists; split; [reflexivity|]; split; [reflexivity|].
      rewrite vt_run_nil.
      absview v. split; [|split; [reflexivity|split; [|split; frame_goal]]].
      * unfold with_mode, with_init; constructor; projs; cinv_side ph.
        intros _ Hf. discriminate Hf.
      * reflexivity.
Qed.

Lemma set_keypad_ok : forall kp cshape ph d l v x, ph <> Stopped ->
  CInv kp cshape ph d l (view_of v) -> x = 0 \/ x = 1 -> (kp = true -> x = 0) ->
  set_concl kp cshape ph d l v CtlKeypadApp x.
Proof.
  intros kp cshape ph d l v x Hph Hinv Hx Hk. open_inv Hinv.
  destruct d as [caps m ini]. destruct m as [ma mcv mb msh mm mk]. projs. subst mk.
  unfold set_concl, xt_setctl. projs.
  destruct Hx as [Hx|Hx]; subst x; cbn [nz Z.eqb negb Bool.eqb].
  - eexists; eexists; split; [reflexivity|]; split; [reflexivity|].
    rewrite vt_run_nil. absview v. split; [|split; [reflexivity|split; [reflexivity|split; frame_goal]]].
    constructor; projs; try assumption.
    shadow_goal; repeat split; try assumption; try reflexivity; try lia. intros _. right. reflexivity.
  - eexists; eexists; split; [reflexivity|]; split; [reflexivity|].
    rewrite vt_run_cons, vt_run_nil, view_vt_kp by (left; reflexivity).
    absview v. split; [|split; [reflexivity|split; [reflexivity|split; frame_goal]]].
    constructor; projs; cinv_side ph.
    all: try (intros Hkt; specialize (Hk Hkt); discriminate Hk).
    shadow_goal; repeat split; try assumption; try reflexivity; try lia.
    intros Hkt. specialize (Hk Hkt). discriminate Hk.
Qed.

(* a boolean control only looks at the truthiness of its argument *)
Definition bnorm (x : Z) : Z := if x =? 0 then 0 else 1.
Lemma bnorm_range : forall x, bnorm x = 0 \/ bnorm x = 1.
Proof. intros x. unfold bnorm. destruct (x =? 0); auto. Qed.
Lemma nz_bnorm : forall x, nz (bnorm x) = nz x.
Proof. intros x. unfold nz, bnorm. destruct (x =? 0) eqn:E; reflexivity. Qed.
Lemma bnorm_idem : forall x, bnorm (bnorm x) = bnorm x.
Proof. intros x. unfold bnorm. destruct (x =? 0); reflexivity. Qed.
Lemma bnorm_zero : forall x, (bnorm x =? 0) = (x =? 0).
Proof. intros x. unfold bnorm. destruct (x =? 0) eqn:E; reflexivity. Qed.

Lemma set_concl_bnorm : forall kp cshape ph d l v c x, ctl_is_bool c = true ->
  set_concl kp cshape ph d l v c (bnorm x) -> set_concl kp cshape ph d l v c x.
Proof.
  intros kp cshape ph d l v c x Hb H. unfold set_concl in *.
  assert (Hset : xt_setctl d c (bnorm x) = xt_setctl d c x).
  { destruct c; try discriminate Hb; unfold xt_setctl; rewrite ?nz_bnorm; reflexivity. }
  assert (Hnorm : ctl_norm c (bnorm x) = ctl_norm c x).
  { unfold ctl_norm. rewrite Hb. fold (bnorm (bnorm x)). fold (bnorm x). apply bnorm_idem. }
  assert (Hex : forall w, extra_okb cshape c (bnorm x) w = extra_okb cshape c x w).
  { intros w. destruct c; try discriminate Hb; cbn [extra_okb]; rewrite ?bnorm_zero; reflexivity. }
  rewrite Hset, Hnorm in H. destruct H as (d' & ts & H1 & H2 & H4 & H5 & H6 & H7).
  exists d', ts. rewrite Hex in H6. exact (conj H1 (conj H2 (conj H4 (conj H5 (conj H6 H7))))).
Qed.

Lemma setctl_ok : forall kp cshape ph d l v c x, ph <> Stopped ->
  CInv kp cshape ph d l (view_of v) -> ctl_in_rangeb c x = true ->
  (kp = true -> c = CtlKeypadApp -> x = 0) -> set_concl kp cshape ph d l v c x.
Proof.
  intros kp cshape ph d l v c x Hph Hinv Hr Hk.
  destruct c; cbn [ctl_in_rangeb] in Hr; try discriminate Hr.
  - apply set_concl_bnorm; [reflexivity|]. apply set_alt_ok; auto using bnorm_range.
  - apply set_concl_bnorm; [reflexivity|]. apply set_cv_ok; auto using bnorm_range.
  - apply set_mouse_ok; auto. apply andb_true_iff in Hr. destruct Hr as [H1 H2].
    apply Z.leb_le in H1. apply Z.leb_le in H2. lia.
  - apply set_concl_bnorm; [reflexivity|]. apply set_blink_ok; auto using bnorm_range.
  - apply set_shape_ok; auto. apply andb_true_iff in Hr. destruct Hr as [H1 H2].
    apply Z.leb_le in H1. apply Z.leb_le in H2. lia.
  - apply set_concl_bnorm; [reflexivity|]. apply set_keypad_ok; auto using bnorm_range.
    intros Hkp. specialize (Hk Hkp eq_refl). subst x. reflexivity.
Qed.

(* ==== 2b. the replies to the start-up queries (DECRPM, DECRQSS for DECSCUSR), read at any time *)
Lemma modereport_caps : forall d mode value,
  cap_colon (x_caps (xt_on_modereport d mode value)) = cap_colon (x_caps d) /\
  cap_rgb8 (x_caps (xt_on_modereport d mode value)) = cap_rgb8 (x_caps d) /\
  cap_cursorshape (x_caps (xt_on_modereport d mode value)) = cap_cursorshape (x_caps d).
Proof.
  intros d mode value. unfold xt_on_modereport.
  destruct (mode =? 12) eqn:E12; [repeat split|].
  destruct (mode =? 25) eqn:E25; [repeat split|].
  destruct (mode =? 69) eqn:E69; repeat split.
Qed.
Lemma decscusr_caps : forall d value,
  cap_colon (x_caps (xt_on_decscusr d value)) = cap_colon (x_caps d) /\
  cap_rgb8 (x_caps (xt_on_decscusr d value)) = cap_rgb8 (x_caps d).
Proof. intros d value. split; reflexivity. Qed.

(* a DECRPM reply: mode 25 needs no premise at all (before the control is set the shadow is 1 and a
   reply can only say 1; afterwards it is stale); mode 12 must tell the terminal's blink state while
   the application has not set the control; mode 69 and the others do not touch the mode shadow *)
Ltac reply_side :=
  first [ assumption
        | solve [unfold shadow_ok; projs;
                 repeat match goal with E : ?l ?c = None |- context [?l ?c] => rewrite E end;
                 repeat split; first [assumption | lia]]
        | solve [intros _; first [reflexivity | assumption]]
        | solve [intros Hf; discriminate Hf]
        | idtac ].

Lemma report_cinv : forall kp cshape ph d l w mode value,
  CInv kp cshape ph d l w ->
  (mode = 12 -> l CtlCursorblink = None ->
     (value = 1 /\ w_blink w = true) \/ (value <> 1 /\ w_blink w = false)) ->
  CInv kp cshape ph (xt_on_modereport d mode value) l w.
Proof.
  intros kp cshape ph d l w mode value Hinv Htrue. open_inv Hinv.
  destruct d as [caps m ini]. destruct m as [ma mcv mb msh mm mk]. destruct ini as [icv ibl ish isl]. projs.
  unfold xt_on_modereport. projs.
  destruct (mode =? 12) eqn:E12.
  { apply Z.eqb_eq in E12. specialize (Htrue E12).
    destruct ibl.
    - rewrite andb_false_r.
      unfold with_mode, with_init; constructor; projs; reply_side.
    - specialize (Hbl0 eq_refl). subst mb. rewrite andb_true_r.
      destruct (l CtlCursorblink) as [xb|] eqn:El.
      { assert (Hne : Some xb <> None) by discriminate. specialize (Hbls Hne). discriminate Hbls. }
      destruct (Htrue eq_refl) as [[Hv Hw]|[Hv Hw]].
      + subst value. cbn [Z.eqb].
        unfold with_mode, with_init; constructor; projs; reply_side.
      + apply Z.eqb_neq in Hv. rewrite Hv.
        unfold with_mode, with_init; constructor; projs; reply_side. }
  destruct (mode =? 25) eqn:E25.
  { assert (Hcv : (if (value =? 1) && negb icv then true else mcv) = mcv).
    { destruct icv; [rewrite andb_false_r; reflexivity|].
      destruct (l CtlCursorvis) as [xc|] eqn:El.
      - assert (Hne : Some xc <> None) by discriminate. specialize (Hcvs Hne). discriminate Hcvs.
      - subst mcv. destruct ((value =? 1) && negb false); reflexivity. }
    rewrite Hcv.
    unfold with_mode, with_init; constructor; projs; reply_side. }
  destruct (mode =? 69) eqn:E69.
  { unfold with_caps, with_init; constructor; projs; reply_side. }
  constructor; projs; reply_side.
Qed.

Lemma shape_of_reply : forall value, 0 <= value <= 6 -> ((value + 1) / 2) mod 4 = (value + 1) / 2.
Proof.
  intros value Hv.
  assert (Hc : value = 0 \/ value = 1 \/ value = 2 \/ value = 3 \/ value = 4 \/ value = 5 \/ value = 6) by lia.
  destruct Hc as [Hc|[Hc|[Hc|[Hc|[Hc|[Hc|Hc]]]]]]; subst value; reflexivity.
Qed.

(* the DECRQSS reply for DECSCUSR: in 0..6, and the terminal's shape while the application has not
   set the control.  It switches the capability on, possibly in mid-history *)
Lemma decscusr_cinv : forall kp cshape ph d l w value,
  CInv kp cshape ph d l w -> 0 <= value <= 6 ->
  (l CtlCursorshape = None -> w_shape w = value) ->
  CInv kp cshape ph (xt_on_decscusr d value) l w.
Proof.
  intros kp cshape ph d l w value Hinv Hv Htrue. open_inv Hinv.
  destruct d as [caps m ini]. destruct m as [ma mcv mb msh mm mk]. destruct ini as [icv ibl ish isl]. projs.
  unfold xt_on_decscusr. projs.
  destruct ish.
  - unfold with_mode, with_caps, with_init; constructor; projs; reply_side.
  - destruct (l CtlCursorshape) as [xs|] eqn:El.
    { assert (Hne : Some xs <> None) by discriminate. specialize (Hshs Hne). discriminate Hshs. }
    specialize (Htrue eq_refl).
    unfold with_mode, with_caps, with_init; constructor; projs; reply_side.
    intros _ _. rewrite Htrue. symmetry. apply shape_of_reply. exact Hv.
Qed.

(* ==== 3. teardown (= pause = stop) and resume on the view *)
Lemma vt_rel_run_paused : forall m w, vt_rel Run m w -> vt_rel Paused m w.
Proof. intros m w H. cbn [vt_rel] in *. intuition. Qed.
Lemma vt_rel_stopped_paused : forall m w, vt_rel Stopped m w -> vt_rel Paused m w.
Proof. intros m w H. cbn [vt_rel] in *. intuition. Qed.
Lemma vt_rel_weaken : forall ph m w, vt_rel ph m w -> vt_rel Paused m w.
Proof.
  intros ph m w H. destruct ph; [apply vt_rel_run_paused | | apply vt_rel_stopped_paused]; exact H.
Qed.

Lemma nz_true : forall x, nz x = true -> x <> 0.
Proof. intros x H. unfold nz in H. apply negb_true_iff in H. apply Z.eqb_neq in H. exact H. Qed.
Lemma nz_false : forall x, nz x = false -> x = 0.
Proof. intros x H. unfold nz in H. apply negb_false_iff in H. apply Z.eqb_eq in H. exact H. Qed.

Ltac run_tokens :=
  repeat (rewrite vt_run_cons || rewrite vt_run_nil);
  repeat (rewrite view_vt_dec || rewrite view_vt_sgr0);
  repeat (rewrite view_dec_1049 || rewrite view_dec_25 || rewrite view_dec_1006).

Definition same_rest (w' w : view) : Prop :=
  w_kp w' = w_kp w /\ w_blink w' = w_blink w /\ w_shape w' = w_shape w.

Lemma teardown_view : forall d v,
  vt_rel Paused (x_mode d) (view_of v) -> 0 <= m_mouse (x_mode d) <= 3 -> m_keypad (x_mode d) = false ->
  vt_rel Stopped (x_mode d) (view_of (vt_run (xt_teardown d) v)) /\
  w_sgr (view_of (vt_run (xt_teardown d) v)) = default_attrs /\
  same_rest (view_of (vt_run (xt_teardown d) v)) (view_of v).
Proof.
  intros d v Hvt Hmr Hk.
  destruct d as [caps m ini]. destruct m as [ma mcv mb msh mm mk]. projs. subst mk.
  unfold xt_teardown, same_rest. projs. rewrite !vt_run_app. unfold mouse_tokens.
  destruct (nz mm) eqn:Enz.
  - apply nz_true in Enz.
    destruct mcv; destruct ma; cbn [negb]; run_tokens; rewrite view_dec_mouse by lia.
    all: absview v; cbn [vt_rel] in *; projs; vprojs; intuition congruence.
  - apply nz_false in Enz. subst mm.
    destruct mcv; destruct ma; cbn [negb]; run_tokens.
    all: absview v; cbn [vt_rel] in *; projs; vprojs; rewrite mfm_0 in Hvt; change (nz 0) with false in Hvt;
      intuition congruence.
Qed.

Lemma resume_view : forall d v,
  vt_rel Paused (x_mode d) (view_of v) -> 0 <= m_mouse (x_mode d) <= 3 -> m_keypad (x_mode d) = false ->
  vt_rel Run (x_mode d) (view_of (vt_run (xt_resume d) v)) /\
  w_sgr (view_of (vt_run (xt_resume d) v)) = w_sgr (view_of v) /\
  same_rest (view_of (vt_run (xt_resume d) v)) (view_of v).
Proof.
  intros d v Hvt Hmr Hk.
  destruct d as [caps m ini]. destruct m as [ma mcv mb msh mm mk]. projs. subst mk.
  unfold xt_resume, same_rest. projs. rewrite !vt_run_app. unfold mouse_tokens.
  destruct (nz mm) eqn:Enz.
  - pose proof (nz_true _ Enz) as Hne.
    destruct mcv; destruct ma; cbn [negb]; run_tokens; rewrite view_dec_mouse by lia.
    all: absview v; cbn [vt_rel] in *; projs; vprojs; intuition congruence.
  - apply nz_false in Enz. subst mm.
    destruct mcv; destruct ma; cbn [negb]; run_tokens.
    all: absview v; cbn [vt_rel] in *; projs; vprojs; rewrite mfm_0 in *; change (nz 0) with false in *;
      intuition congruence.
Qed.

(* ==== 4. the checkers' booleans; transfers of the invariant *)
(* ---- boolean checkers: the directions needed *)
Lemma colour_eqb_refl : forall c, colour_eqb c c = true.
Proof. intros c. destruct c; cbn [colour_eqb]; rewrite ?Z.eqb_refl; reflexivity. Qed.
Lemma attrs_eqb_refl : forall a, attrs_eqb a a = true.
Proof.
  intros a. unfold attrs_eqb. rewrite !colour_eqb_refl, !Z.eqb_refl, !Bool.eqb_reflx. reflexivity.
Qed.
Lemma vval_eqb_refl : forall x, vval_eqb x x = true.
Proof. intros x. destruct x; cbn [vval_eqb]; [apply colour_eqb_refl | apply Bool.eqb_reflx | apply Z.eqb_refl]. Qed.

Lemma all_attrs_complete : forall a, In a all_attrs.
Proof. intros a. unfold all_attrs. destruct a; cbn [In]; tauto. Qed.

Lemma sgr_matches_b : forall colon rgb8 p s, sgr_matches colon rgb8 p s -> sgr_matchesb colon rgb8 p s = true.
Proof.
  intros colon rgb8 p s [Hm Hf]. unfold sgr_matchesb. rewrite Hf. rewrite andb_true_r.
  apply forallb_forall. intros a _. unfold attr_matchesb. rewrite Hm. apply vval_eqb_refl.
Qed.
Lemma sgr_matches_ext : forall colon rgb8 p q s, (forall a, p a = q a) ->
  sgr_matches colon rgb8 p s -> sgr_matches colon rgb8 q s.
Proof.
  intros colon rgb8 p q s Hpq [Hm Hf]. split; [|exact Hf]. intros a. rewrite <- Hpq. apply Hm.
Qed.

Lemma aval_in_range_b : forall a v, aval_in_range a v -> aval_in_rangeb a v = true.
Proof.
  intros a v H. unfold aval_in_range in H. unfold aval_in_rangeb.
  destruct (attr_type a) eqn:Ety; destruct v as [b|n|i sec]; try contradiction; try reflexivity.
  - destruct a; try contradiction.
    + apply andb_true_iff. split; apply Z.leb_le; lia.
    + apply andb_true_iff. split; apply Z.leb_le; lia.
    + destruct H as [H|[H|H]]; subst n; reflexivity.
  - destruct H as [Hi Hs]. apply andb_true_iff. split.
    + apply andb_true_iff. split; apply Z.leb_le; lia.
    + destruct sec as [c|]; [|reflexivity].
      destruct Hs as (Hr & Hg & Hb).
      repeat (apply andb_true_iff; split); apply Z.leb_le; lia.
Qed.
Lemma pen_in_range_b : forall p, pen_in_range p -> pen_in_rangeb p = true.
Proof.
  intros p H. unfold pen_in_rangeb. apply forallb_forall. intros a _.
  destruct (p a) as [v|] eqn:Ea; [|reflexivity]. apply aval_in_range_b. apply H. exact Ea.
Qed.

(* the converse: the boolean tests are sound *)
Lemma aval_in_rangeb_sound : forall a v, aval_in_rangeb a v = true -> aval_in_range a v.
Proof.
  intros a v H. unfold aval_in_rangeb in H. unfold aval_in_range.
  destruct (attr_type a) eqn:Ety; destruct v as [b|n|i sec]; try discriminate H; try exact I.
  - destruct a; try discriminate H.
    + apply andb_true_iff in H. destruct H as [H1 H2]. apply Z.leb_le in H1. apply Z.leb_le in H2. lia.
    + apply andb_true_iff in H. destruct H as [H1 H2]. apply Z.leb_le in H1. apply Z.leb_le in H2. lia.
    + apply orb_true_iff in H. destruct H as [H|H].
      * apply orb_true_iff in H. destruct H as [H|H]; apply Z.eqb_eq in H; auto.
      * apply Z.eqb_eq in H. auto.
  - apply andb_true_iff in H. destruct H as [Hi Hs].
    apply andb_true_iff in Hi. destruct Hi as [Hi1 Hi2]. apply Z.leb_le in Hi1. apply Z.leb_le in Hi2.
    split; [lia|].
    destruct sec as [c|]; [|exact I].
    apply andb_true_iff in Hs. destruct Hs as [Hs Hb2]. apply andb_true_iff in Hs. destruct Hs as [Hs Hb1].
    apply andb_true_iff in Hs. destruct Hs as [Hs Hg2]. apply andb_true_iff in Hs. destruct Hs as [Hs Hg1].
    apply andb_true_iff in Hs. destruct Hs as [Hr1 Hr2].
    apply Z.leb_le in Hr1. apply Z.leb_le in Hr2. apply Z.leb_le in Hg1. apply Z.leb_le in Hg2.
    apply Z.leb_le in Hb1. apply Z.leb_le in Hb2. lia.
Qed.
Lemma pen_in_rangeb_sound : forall p, pen_in_rangeb p = true -> pen_in_range p.
Proof.
  intros p H a v Ha. unfold pen_in_rangeb in H.
  pose proof (proj1 (forallb_forall _ _) H a (all_attrs_complete a)) as Hb.
  cbv beta in Hb. rewrite Ha in Hb. apply aval_in_rangeb_sound. exact Hb.
Qed.

(* ---- mode comparison *)
Definition ms_of_view (w : view) : mstate := mkMs (w_alt w) (w_cv w) (w_mouse w) (w_sgrm w) (w_kp w).
Lemma ms_of_vt_view : forall v, ms_of_vt v = ms_of_view (view_of v).
Proof. reflexivity. Qed.
Definition ms_eq (kp : bool) : mstate -> mstate -> bool := if kp then ms_eqb else ms_eqb_nokp.
Lemma ms_eq_intro : forall kp a b,
  ms_alt a = ms_alt b -> ms_curvis a = ms_curvis b -> ms_mouse a = ms_mouse b ->
  ms_sgrmouse a = ms_sgrmouse b -> (kp = true -> ms_keypad a = ms_keypad b) -> ms_eq kp a b = true.
Proof.
  intros kp a b H1 H2 H3 H4 H5. unfold ms_eq.
  destruct kp; unfold ms_eqb, ms_eqb_nokp; rewrite H1, H2, H3, H4, ?(H5 eq_refl);
    rewrite !Bool.eqb_reflx, Z.eqb_refl; reflexivity.
Qed.
Lemma ms_eq_refl : forall kp a, ms_eq kp a a = true.
Proof. intros kp a. apply ms_eq_intro; reflexivity. Qed.

Lemma negb_b2z : forall b, negb (b2z b =? 0) = b.
Proof. intros b. destruct b; reflexivity. Qed.

Lemma logical_of_shadow : forall kp l m, shadow_ok kp l m ->
  ms_alt (logical_ms init_ms l) = m_altscreen m /\
  ms_curvis (logical_ms init_ms l) = m_cursorvis m /\
  ms_mouse (logical_ms init_ms l) = mode_for_mouse (m_mouse m) /\
  ms_sgrmouse (logical_ms init_ms l) = nz (m_mouse m) /\
  (kp = true -> ms_keypad (logical_ms init_ms l) = false).
Proof.
  intros kp l m H. destruct H as (Sa & Scv & Sm & Sb & Ss & Sk & Sco & Srgb & Smr & Skp).
  unfold logical_ms. cbn [ms_alt ms_curvis ms_mouse ms_sgrmouse ms_keypad init_ms].
  repeat split.
  - destruct (l CtlAltscreen) as [x|]; [subst x; apply negb_b2z | symmetry; exact Sa].
  - destruct (l CtlCursorvis) as [x|]; [subst x; apply negb_b2z | symmetry; exact Scv].
  - destruct (l CtlMouse) as [x|]; [subst x; reflexivity | rewrite Sm; reflexivity].
  - destruct (l CtlMouse) as [x|]; [subst x; reflexivity | rewrite Sm; reflexivity].
  - intros Hk. destruct (Sk Hk) as [E|E]; rewrite E; reflexivity.
Qed.

Lemma modes_check : forall kp cshape d l w, CInv kp cshape Run d l w ->
  ms_eq kp (ms_of_view w) (logical_ms init_ms l) = true.
Proof.
  intros kp cshape d l w H. destruct H as [Hcs Hsh Hvt Hkp Hbl Hshp Hbl0 Hcvs Hbls Hshs].
  destruct (logical_of_shadow _ _ _ Hsh) as (L1 & L2 & L3 & L4 & L5).
  cbn [vt_rel] in Hvt. destruct Hvt as (V1 & V2 & V3 & V4).
  apply ms_eq_intro; cbn [ms_of_view ms_alt ms_curvis ms_mouse ms_sgrmouse ms_keypad]; try congruence.
  intros Hk. rewrite (Hkp Hk), (L5 Hk). reflexivity.
Qed.
Lemma init_check : forall kp m w, vt_rel Stopped m w -> (kp = true -> w_kp w = false) ->
  ms_eq kp (ms_of_view w) init_ms = true.
Proof.
  intros kp m w Hvt Hkp. cbn [vt_rel] in Hvt. destruct Hvt as (V1 & V2 & V3 & V4).
  apply ms_eq_intro; cbn [ms_of_view init_ms ms_alt ms_curvis ms_mouse ms_sgrmouse ms_keypad]; auto.
Qed.

Lemma get_check : forall kp l d c, shadow_ok kp l (x_mode d) ->
  match l c, xt_getctl d c with
  | Some x, Some y => if negb kp && ctl_eqb c CtlKeypadApp then true else x =? y
  | None, _ => true
  | Some _, None => false
  end = true.
Proof.
  intros kp l d c H. destruct H as (Sa & Scv & Sm & Sb & Ss & Sk & Sco & Srgb & Smr & Skp).
  destruct c; cbn [xt_getctl ctl_eqb ctl_index Nat.eqb andb]; rewrite ?andb_false_r.
  - destruct (l CtlAltscreen) as [x|]; [subst x; apply Z.eqb_refl | reflexivity].
  - destruct (l CtlCursorvis) as [x|]; [subst x; apply Z.eqb_refl | reflexivity].
  - destruct (l CtlMouse) as [x|]; [subst x; apply Z.eqb_refl | reflexivity].
  - destruct (l CtlCursorblink) as [x|]; [subst x; apply Z.eqb_refl | reflexivity].
  - destruct (l CtlCursorshape) as [x|]; [subst x; apply Z.eqb_refl | reflexivity].
  - rewrite Skp. destruct kp; cbn [negb andb].
    + destruct (Sk eq_refl) as [E|E]; rewrite E; reflexivity.
    + destruct (l CtlKeypadApp); reflexivity.
  - rewrite Sco. reflexivity.
  - rewrite Srgb. reflexivity.
Qed.

(* ---- CInv transfers *)
Lemma CInv_transfer : forall kp cshape ph ph' d l w w',
  CInv kp cshape ph d l w -> vt_rel ph' (x_mode d) w' -> same_rest w' w -> CInv kp cshape ph' d l w'.
Proof.
  intros kp cshape ph ph' d l w w' H Hvt (R1 & R2 & R3). destruct H as [Hcs Hsh Hvt0 Hkp Hbl Hshp Hbl0 Hcvs Hbls Hshs].
  constructor; try assumption.
  - rewrite R1. exact Hkp.
  - rewrite R2. exact Hbl.
  - rewrite R3. exact Hshp.
Qed.
Lemma vt_rel_vw_sgr : forall ph m w a, vt_rel ph m w -> vt_rel ph m (vw_sgr w a).
Proof. intros ph m w a H. destruct ph; exact H. Qed.
Lemma CInv_vw_sgr : forall kp cshape ph d l w a, CInv kp cshape ph d l w -> CInv kp cshape ph d l (vw_sgr w a).
Proof.
  intros kp cshape ph d l w a H. eapply CInv_transfer; [exact H | apply vt_rel_vw_sgr; apply (ci_vt _ _ _ _ _ _ H) |].
  unfold same_rest. auto.
Qed.
Lemma view_set_sgr : forall v v', v' = set_sgr v (v_sgr v') -> view_of v' = vw_sgr (view_of v) (v_sgr v').
Proof. intros v v' H. rewrite H at 1. reflexivity. Qed.

(* ==== 5. the pen path *)
Lemma rgb_eq_dec : forall x y : rgb, {x = y} + {x <> y}.
Proof. decide equality; apply Z.eq_dec. Qed.
Lemma aval_eq_dec : forall x y : aval, {x = y} + {x <> y}.
Proof.
  decide equality; try apply Z.eq_dec; try apply bool_dec.
  decide equality. apply rgb_eq_dec.
Qed.
Lemma optaval_eq_dec : forall x y : option aval, {x = y} + {x <> y}.
Proof. decide equality. apply aval_eq_dec. Qed.

Definition sgr_weak (colon rgb8 : bool) (tp : pen) (sg : attrs) : Prop :=
  forall a, vt_attr sg a = (match tp a with Some x => enc colon rgb8 a x | None => vt_attr default_attrs a end)
            \/ vt_attr sg a = vt_attr default_attrs a.
Definition sgr_rel (ph : phase) (colon rgb8 : bool) (tp : pen) (sg : attrs) : Prop :=
  match ph with
  | Run => sgr_matches colon rgb8 tp sg
  | Paused => sgr_weak colon rgb8 tp sg
  | Stopped => sg = default_attrs
  end.
Lemma sgr_weak_default : forall colon rgb8 tp, sgr_weak colon rgb8 tp default_attrs.
Proof. intros colon rgb8 tp a. right. reflexivity. Qed.
Lemma sgr_rel_weak : forall ph colon rgb8 tp sg, sgr_rel ph colon rgb8 tp sg -> sgr_weak colon rgb8 tp sg.
Proof.
  intros ph colon rgb8 tp sg H. destruct ph; cbn [sgr_rel] in H.
  - intros a. left. apply H.
  - exact H.
  - subst sg. apply sgr_weak_default.
Qed.

(* the logical pen never loses an attribute *)
Lemma cache_none : forall l a, cache_of 256 l a = None -> l a = None.
Proof. intros l a H. unfold cache_of in H. destruct (l a); [discriminate H | reflexivity]. Qed.


  Lemma pen_step_ok : forall colon rgb8 (is_set : bool) l tp p v,
    pen_in_range l -> pen_in_range p -> (forall a, tp a = cache_of 256 l a) -> a_faint (v_sgr v) = false ->
    exists tp' ts,
      (if is_set then do_setpen else do_chpen) chpen_params_capacity colon rgb8 (mkTp tp xterm_colors) p
        = Some (mkTp tp' xterm_colors, ts) /\
      pen_in_range (if is_set then logical_set l p else logical_ch l p) /\ pen_in_range tp' /\
      (forall a, tp' a = cache_of 256 (if is_set then logical_set l p else logical_ch l p) a) /\
      vt_run ts v = set_sgr v (v_sgr (vt_run ts v)) /\ a_faint (v_sgr (vt_run ts v)) = false /\
      (sgr_matches colon rgb8 tp (v_sgr v) -> sgr_matches colon rgb8 tp' (v_sgr (vt_run ts v))) /\
      (sgr_weak colon rgb8 tp (v_sgr v) -> sgr_weak colon rgb8 tp' (v_sgr (vt_run ts v))).
  Proof.
    intros colon rgb8 is_set l tp p v Hl Hp Hc Hf.
    assert (H256 : 0 <= 256) by lia.
    destruct (term_pen 256 is_set l tp p H256 Hl Hp Hc)
      as (tp' & delta & Hterm & Hl' & Htp' & Hd & Hcache & Hsub & Hchg & _).
    destruct (chpen_core colon rgb8 delta tp' v Hd Hf) as (ts & Hx & Hrest).
    cbv zeta in Hrest. destruct Hrest as (Hset & Hf' & _ & Hcase).
    exists tp', ts.
    (* an attribute left out of the delta keeps its cached value *)
    assert (Hkeep : forall a, delta a = None -> tp' a = tp a).
    { intros a Hda. destruct (optaval_eq_dec (tp' a) (tp a)) as [E|E]; [exact E|].
      pose proof (Hchg a E) as Hd2. rewrite Hda in Hd2. symmetry in Hd2.
      rewrite Hcache in Hd2. apply cache_none in Hd2.
      destruct is_set.
      - unfold logical_set in Hd2. discriminate Hd2.
      - unfold logical_ch in Hd2. destruct (p a) eqn:Epa; [discriminate Hd2|].
        exfalso. apply E. rewrite Hcache. unfold cache_of, logical_ch.
        rewrite Epa, Hc. unfold cache_of. rewrite Hd2. reflexivity. }
    split.
    { destruct is_set; unfold do_setpen, do_chpen; cbn [tp_colors tp_pen]; unfold xterm_colors;
        rewrite Hterm, Hx; reflexivity. }
    split; [exact Hl'|]. split; [exact Htp'|]. split; [exact Hcache|].
    split; [exact Hset|]. split; [exact Hf'|].
    destruct (is_nondefault tp' || pen_emptyb delta) eqn:Ecase.
    - split.
      + intros [Hm _]. split; [|exact Hf']. intros a. rewrite Hcase.
        destruct (delta a) as [x|] eqn:Eda.
        * destruct (Hsub a) as [E|E]; [congruence|]. rewrite <- E, Eda. reflexivity.
        * rewrite (Hkeep a Eda). apply Hm.
      + intros Hw a. rewrite Hcase.
        destruct (delta a) as [x|] eqn:Eda.
        * left. destruct (Hsub a) as [E|E]; [congruence|]. rewrite <- E, Eda. reflexivity.
        * rewrite (Hkeep a Eda). apply Hw.
    - apply orb_false_iff in Ecase. destruct Ecase as [End _].
      assert (Hdef : sgr_matches colon rgb8 tp' default_attrs).
      { split; [|reflexivity]. intros a. destruct (tp' a) as [x|] eqn:Ea; [|reflexivity].
        symmetry. exact (nondefault_enc colon rgb8 tp' a x Htp' End Ea). }
      rewrite Hcase. split; intros _; [exact Hdef|apply sgr_weak_default].
  Qed.

  Lemma resume_pen_ok : forall colon rgb8 tp v,
    pen_in_range tp -> a_faint (v_sgr v) = false -> sgr_weak colon rgb8 tp (v_sgr v) ->
    exists ts,
      (if is_nondefault tp
       then xterm_chpen chpen_params_capacity colon rgb8 tp tp
       else Some []) = Some ts /\
      vt_run ts v = set_sgr v (v_sgr (vt_run ts v)) /\ a_faint (v_sgr (vt_run ts v)) = false /\
      sgr_matches colon rgb8 tp (v_sgr (vt_run ts v)).
  Proof.
    intros colon rgb8 tp v Hr Hf Hw.
    destruct (is_nondefault tp) eqn:End.
    - destruct (chpen_core colon rgb8 tp tp v Hr Hf) as (ts & Hx & Hrest).
      cbv zeta in Hrest. destruct Hrest as (Hset & Hf' & _ & Hcase).
      rewrite End in Hcase. cbn [orb] in Hcase.
      exists ts. split; [exact Hx|]. split; [exact Hset|]. split; [exact Hf'|].
      split; [|exact Hf']. intros a. rewrite Hcase.
      destruct (tp a) as [x|] eqn:Ea; [reflexivity|].
      destruct (Hw a) as [E|E]; [rewrite Ea in E|]; exact E.
    - exists []. split; [reflexivity|]. rewrite vt_run_nil.
      split; [destruct v; reflexivity|]. split; [exact Hf|].
      split; [|exact Hf]. intros a.
      destruct (Hw a) as [E|E]; [exact E|]. rewrite E.
      destruct (tp a) as [x|] eqn:Ea; [|reflexivity].
      symmetry. exact (nondefault_enc colon rgb8 tp a x Hr End Ea).
  Qed.

(* ==== 6. the invariant of a history; the checker operation by operation *)
Definition phase_of (s : ostate) : phase :=
  if os_stopped s then Stopped else if os_paused s then Paused else Run.

Record MInv (kp colon rgb8 cshape : bool) (t : term) (s : ostate) : Prop := mkMInv {
  mi_colon : cap_colon (x_caps (t_drv t)) = colon;
  mi_rgb8 : cap_rgb8 (x_caps (t_drv t)) = rgb8;
  mi_started : t_started t = negb (os_stopped s);
  mi_core : CInv kp cshape (phase_of s) (t_drv t) (os_last s) (view_of (os_vt s));
  mi_pen_l : pen_in_range (os_pen s);
  mi_pen_t : pen_in_range (t_pen t);
  mi_cache : forall a, t_pen t a = cache_of 256 (os_pen s) a;
  mi_faint : a_faint (v_sgr (os_vt s)) = false;
  mi_sgr : sgr_rel (phase_of s) colon rgb8 (t_pen t) (v_sgr (os_vt s))
}.

Definition is_stop (o : mop) : bool := match o with OTeardown | ODestroy => true | _ => false end.
(* a reply of the terminal to a start-up query (input, not a call of the application) *)
Definition is_report (o : mop) : bool := match o with OReport _ _ | ODecscusr _ => true | _ => false end.
(* the arguments are in range, as far as the operation alone tells (whether a REPLY is in range --
   truthful -- depends on the state: the checker decides it, see [report_truthful]) *)
Definition op_in_range (o : mop) : Prop :=
  match o with
  | OSet c x => ctl_in_rangeb c x = true
  | OSetpen p | OChpen p => pen_in_range p
  | _ => True
  end.
Definition op_pen_ok (o : mop) : Prop :=
  match o with OSetpen p | OChpen p => pen_in_range p | _ => True end.
Lemma op_in_range_b : forall o, op_in_range o -> op_in_rangeb o = true.
Proof.
  intros o H. destruct o as [c x|c|p|p| | | | |alt|mode value|value]; cbn [op_in_range op_in_rangeb] in *;
    try reflexivity; try exact H; apply pen_in_range_b; exact H.
Qed.
Lemma op_in_rangeb_sound : forall o, op_in_rangeb o = true -> op_in_range o.
Proof.
  intros o H. destruct o as [c x|c|p|p| | | | |alt|mode value|value]; cbn [op_in_range op_in_rangeb] in *;
    try exact I; try exact H; apply pen_in_rangeb_sound; exact H.
Qed.
Lemma op_in_range_pen_ok : forall o, op_in_range o -> op_pen_ok o.
Proof. intros o H. destruct o; exact H || exact I. Qed.
Definition op_kp_on (o : mop) : bool :=
  match o with OSet CtlKeypadApp v => negb (v =? 0) | OSetup _ => true | _ => false end.
Lemma sets_keypad_on_eq : forall ops, sets_keypad_on ops = existsb op_kp_on ops.
Proof. reflexivity. Qed.
Definition stop_guard (s : ostate) (o : mop) : bool :=
  os_stopped s && negb (match o with ODestroy | OGet _ => true | _ => false end).

Definition setup_last (alt : bool) (l : lastset) : lastset :=
  fold_left (fun l cv => ls_set l (fst cv) (ctl_norm (fst cv) (snd cv))) (setup_controls alt) l.
(* does the operation set control [c]?  the bookkeeping after an (accepted) operation *)
Definition op_sets (c : ctl) (o : mop) : bool := match o with OSet c' _ => ctl_eqb c' c | _ => false end.
Definition last_after (o : mop) (l : lastset) : lastset :=
  match o with OSet c x => ls_set l c (ctl_norm c x) | OSetup alt => setup_last alt l | _ => l end.
(* frame: only setting the blink / shape control changes the terminal's blink / shape *)
Definition frame_ok (o : mop) (v v' : vt) : Prop :=
  (op_sets CtlCursorblink o = false -> md_blink (v_md v') = md_blink (v_md v)) /\
  (op_sets CtlCursorshape o = false -> md_shape (v_md v') = md_shape (v_md v)).
Lemma frame_ok_refl : forall o v, frame_ok o v v.
Proof. intros o v. split; intros _; reflexivity. Qed.
Lemma frame_ok_rest : forall o v v', same_rest (view_of v') (view_of v) -> frame_ok o v v'.
Proof. intros o v v' (_ & R2 & R3). split; intros _; [exact R2 | exact R3]. Qed.

Definition step_concl (kp colon rgb8 cshape : bool) (t : term) (s : ostate) (o : mop) : Prop :=
  exists t' ts value, mode_step t o = Some (t', ts, value) /\
   ((check_op_v kp colon rgb8 cshape init_ms s o (vt_run ts (os_vt s)) (is_nil ts) value = (None, 0%nat)
     /\ (~ op_in_range o \/ is_report o = true))
    \/ exists s' n,
         check_op_v kp colon rgb8 cshape init_ms s o (vt_run ts (os_vt s)) (is_nil ts) value = (Some s', n) /\
         MInv kp colon rgb8 cshape t' s' /\ os_vt s' = vt_run ts (os_vt s) /\
         os_stopped s' = os_stopped s || is_stop o /\
         os_last s' = last_after o (os_last s) /\ frame_ok o (os_vt s) (os_vt s')).

(* ---- the checker, operation by operation, over the view *)
Lemma check_set_eq : forall kp colon rgb8 cshape s c x v' sil,
  ctl_in_rangeb c x = true ->
  check_op_v kp colon rgb8 cshape init_ms s (OSet c x) v' sil (Some 1) =
    if (os_paused s || ms_eq kp (ms_of_view (view_of v'))
                             (logical_ms init_ms (ls_set (os_last s) c (ctl_norm c x)))) &&
       (os_paused s || extra_okb cshape c x (view_of v')) &&
       attrs_eqb (w_sgr (view_of v')) (v_sgr (os_vt s))
    then (Some (mkOs v' (ls_set (os_last s) c (ctl_norm c x)) (os_pen s) (os_paused s) (os_stopped s)), 0%nat)
    else (None, 1%nat).
Proof.
  intros kp colon rgb8 cshape s c x v' sil Hr. unfold check_op_v. rewrite Hr. destruct c; reflexivity.
Qed.
Lemma check_get_eq : forall kp colon rgb8 cshape s c v' sil value,
  check_op_v kp colon rgb8 cshape init_ms s (OGet c) v' sil value =
    if (match os_last s c, value with
        | Some x, Some y => if negb kp && ctl_eqb c CtlKeypadApp then true else x =? y
        | None, _ => true
        | Some _, None => false
        end) && sil then (Some s, 0%nat) else (None, 2%nat).
Proof. reflexivity. Qed.
Lemma check_pen_eq : forall kp colon rgb8 cshape s (is_set : bool) p v' sil value,
  pen_in_rangeb p = true ->
  check_op_v kp colon rgb8 cshape init_ms s (if is_set then OSetpen p else OChpen p) v' sil value =
    if (os_paused s || sgr_matchesb colon rgb8
                         (cache_of 256 (if is_set then logical_set (os_pen s) p else logical_ch (os_pen s) p))
                         (w_sgr (view_of v'))) &&
       ms_eq kp (ms_of_view (view_of v')) (ms_of_view (view_of (os_vt s)))
    then (Some (mkOs v' (os_last s) (if is_set then logical_set (os_pen s) p else logical_ch (os_pen s) p)
                     (os_paused s) (os_stopped s)), 0%nat)
    else (None, 3%nat).
Proof.
  intros kp colon rgb8 cshape s is_set p v' sil value Hr. destruct is_set; unfold check_op_v; rewrite Hr; reflexivity.
Qed.
Lemma check_pause_eq : forall kp colon rgb8 cshape s v' sil value,
  check_op_v kp colon rgb8 cshape init_ms s OPause v' sil value =
    if ms_eq kp (ms_of_view (view_of v')) init_ms && attrs_eqb (w_sgr (view_of v')) default_attrs
    then (Some (mkOs v' (os_last s) (os_pen s) true (os_stopped s)), 0%nat) else (None, 4%nat).
Proof. reflexivity. Qed.
Lemma check_resume_eq : forall kp colon rgb8 cshape s v' sil value,
  check_op_v kp colon rgb8 cshape init_ms s OResume v' sil value =
    if ms_eq kp (ms_of_view (view_of v')) (logical_ms init_ms (os_last s)) &&
       sgr_matchesb colon rgb8 (cache_of 256 (os_pen s)) (w_sgr (view_of v'))
    then (Some (mkOs v' (os_last s) (os_pen s) false (os_stopped s)), 0%nat) else (None, 5%nat).
Proof. reflexivity. Qed.
Lemma check_stop_eq : forall kp colon rgb8 cshape s o v' sil value, o = OTeardown \/ o = ODestroy ->
  check_op_v kp colon rgb8 cshape init_ms s o v' sil value =
    if ms_eq kp (ms_of_view (view_of v')) init_ms && attrs_eqb (w_sgr (view_of v')) default_attrs
    then (Some (mkOs v' (os_last s) (os_pen s) (os_paused s) true), 0%nat) else (None, 6%nat).
Proof. intros kp colon rgb8 cshape s o v' sil value [H|H]; subst o; reflexivity. Qed.
Lemma check_setup_eq : forall kp colon rgb8 cshape s alt v' sil value,
  check_op_v kp colon rgb8 cshape init_ms s (OSetup alt) v' sil value =
    if (os_paused s || ms_eq kp (ms_of_view (view_of v')) (logical_ms init_ms (setup_last alt (os_last s)))) &&
       attrs_eqb (w_sgr (view_of v')) (v_sgr (os_vt s))
    then (Some (mkOs v' (setup_last alt (os_last s)) (os_pen s) (os_paused s) (os_stopped s)), 0%nat)
    else (None, 7%nat).
Proof. reflexivity. Qed.

(* the checker's reading of a reply: is it truthful (in range), given the bookkeeping and the VT? *)
Definition report_truthful (s : ostate) (mode value : Z) : bool :=
  if mode =? 25 then value =? 1
  else if mode =? 12 then
    match os_last s CtlCursorblink with
    | Some _ => (value =? 1) || (value =? 2)
    | None => ((value =? 1) && md_blink (v_md (os_vt s))) || ((value =? 2) && negb (md_blink (v_md (os_vt s))))
    end
  else true.
Definition decscusr_truthful (s : ostate) (value : Z) : bool :=
  (0 <=? value) && (value <=? 6) &&
  match os_last s CtlCursorshape with
  | Some _ => true
  | None => md_shape (v_md (os_vt s)) =? value
  end.
Lemma check_report_eq : forall kp colon rgb8 cshape s mode value v' sil val,
  check_op_v kp colon rgb8 cshape init_ms s (OReport mode value) v' sil val =
    if negb (report_truthful s mode value) then (None, 0%nat)
    else if sil then (Some s, 0%nat) else (None, 8%nat).
Proof. reflexivity. Qed.
Lemma check_decscusr_eq : forall kp colon rgb8 cshape s value v' sil val,
  check_op_v kp colon rgb8 cshape init_ms s (ODecscusr value) v' sil val =
    if negb (decscusr_truthful s value) then (None, 0%nat)
    else if sil then (Some s, 0%nat) else (None, 8%nat).
Proof. reflexivity. Qed.

Lemma phase_not_stopped : forall s, os_stopped s = false -> phase_of s <> Stopped.
Proof. intros s H. unfold phase_of. rewrite H. destruct (os_paused s); discriminate. Qed.

Lemma step_set : forall kp colon rgb8 cshape t s c x,
  MInv kp colon rgb8 cshape t s -> os_stopped s = false -> (kp = true -> op_kp_on (OSet c x) = false) ->
  step_concl kp colon rgb8 cshape t s (OSet c x).
Proof.
  intros kp colon rgb8 cshape t s c x Hinv Hns Hk.
  destruct Hinv as [Hco Hrg Hst Hcore Hpl Hpt Hca Hfa Hsg].
  unfold step_concl. cbn [mode_step].
  destruct (ctl_in_rangeb c x) eqn:Hr.
  2:{ destruct (xt_setctl (t_drv t) c x) as [[d' ts] ret].
      eexists; eexists; eexists. split; [reflexivity|]. left. split.
      - unfold check_op_v. rewrite Hr. reflexivity.
      - left. cbn [op_in_range]. rewrite Hr. discriminate. }
  pose proof (phase_not_stopped s Hns) as Hph.
  assert (Hk' : kp = true -> c = CtlKeypadApp -> x = 0).
  { intros Hkt Hc. subst c. specialize (Hk Hkt). cbn [op_kp_on] in Hk.
    apply negb_false_iff in Hk. apply Z.eqb_eq in Hk. exact Hk. }
  destruct (setctl_ok _ _ _ _ _ _ _ _ Hph Hcore Hr Hk') as (d' & ts & Hset & Hcaps & Hcore' & Hsgr & Hextra & Hfb & Hfs).
  rewrite Hset. exists (term_with_drv t d'), ts, (Some 1). split; [reflexivity|]. right.
  rewrite check_set_eq by exact Hr.
  assert (Hm : os_paused s || ms_eq kp (ms_of_view (view_of (vt_run ts (os_vt s))))
                 (logical_ms init_ms (ls_set (os_last s) c (ctl_norm c x))) = true).
  { destruct (os_paused s) eqn:Ep; [reflexivity|]. cbn [orb].
    unfold phase_of in Hcore'. rewrite Hns, Ep in Hcore'. eapply modes_check. exact Hcore'. }
  rewrite Hm, Hextra, orb_true_r, Hsgr. change (w_sgr (view_of (os_vt s))) with (v_sgr (os_vt s)).
  rewrite attrs_eqb_refl. cbn [andb].
  eexists; eexists. split; [reflexivity|]. split; [|split; [reflexivity|]].
  - constructor; cbn [term_with_drv t_drv t_started t_pen os_vt os_last os_pen os_paused os_stopped].
    + rewrite Hcaps. exact Hco.
    + rewrite Hcaps. exact Hrg.
    + exact Hst.
    + exact Hcore'.
    + exact Hpl.
    + exact Hpt.
    + exact Hca.
    + change (a_faint (w_sgr (view_of (vt_run ts (os_vt s)))) = false). rewrite Hsgr. exact Hfa.
    + change (v_sgr (vt_run ts (os_vt s))) with (w_sgr (view_of (vt_run ts (os_vt s)))). rewrite Hsgr. exact Hsg.
  - cbn [os_stopped is_stop os_last os_vt last_after]. rewrite orb_false_r.
    split; [reflexivity|]. split; [reflexivity|].
    split; cbn [op_sets]; intros Hc.
    + apply Hfb. intros He. subst c. discriminate Hc.
    + apply Hfs. intros He. subst c. discriminate Hc.
Qed.

Lemma step_get : forall kp colon rgb8 cshape t s c,
  MInv kp colon rgb8 cshape t s -> step_concl kp colon rgb8 cshape t s (OGet c).
Proof.
  intros kp colon rgb8 cshape t s c Hinv.
  unfold step_concl. cbn [mode_step].
  exists t, [], (xt_getctl (t_drv t) c). split; [reflexivity|]. right.
  rewrite check_get_eq. rewrite (get_check kp (os_last s) (t_drv t) c (ci_shadow _ _ _ _ _ _ (mi_core _ _ _ _ _ _ Hinv))).
  cbn [is_nil andb]. exists s, 0%nat. split; [reflexivity|]. split; [exact Hinv|].
  split; [reflexivity|]. cbn [is_stop]. rewrite orb_false_r.
  split; [reflexivity|]. split; [reflexivity|]. apply frame_ok_refl.
Qed.

(* ---- a reply is read: nothing is written, nothing the application asked for changes *)
Lemma MInv_with_drv : forall kp colon rgb8 cshape t s d',
  MInv kp colon rgb8 cshape t s ->
  cap_colon (x_caps d') = cap_colon (x_caps (t_drv t)) -> cap_rgb8 (x_caps d') = cap_rgb8 (x_caps (t_drv t)) ->
  CInv kp cshape (phase_of s) d' (os_last s) (view_of (os_vt s)) ->
  MInv kp colon rgb8 cshape (term_with_drv t d') s.
Proof.
  intros kp colon rgb8 cshape t s d' Hinv Hc1 Hc2 Hcore'.
  destruct Hinv as [Hco Hrg Hst Hcore Hpl Hpt Hca Hfa Hsg].
  constructor; cbn [term_with_drv t_drv t_started t_pen]; try assumption.
  - rewrite Hc1. exact Hco.
  - rewrite Hc2. exact Hrg.
Qed.

Lemma step_report : forall kp colon rgb8 cshape t s mode value,
  MInv kp colon rgb8 cshape t s -> step_concl kp colon rgb8 cshape t s (OReport mode value).
Proof.
  intros kp colon rgb8 cshape t s mode value Hinv.
  unfold step_concl. cbn [mode_step].
  eexists; eexists; eexists. split; [reflexivity|].
  rewrite check_report_eq. cbn [is_nil].
  destruct (report_truthful s mode value) eqn:Etr; cbn [negb].
  2:{ left. split; [reflexivity|]. right. reflexivity. }
  right. exists s, 0%nat. split; [reflexivity|]. split; [|split; [reflexivity|]].
  - destruct (modereport_caps (t_drv t) mode value) as (Hc1 & Hc2 & _).
    apply MInv_with_drv; [exact Hinv | exact Hc1 | exact Hc2 |].
    apply report_cinv; [exact (mi_core _ _ _ _ _ _ Hinv)|].
    intros Hm Hl. subst mode. unfold report_truthful in Etr. cbn [Z.eqb] in Etr. rewrite Hl in Etr.
    change (w_blink (view_of (os_vt s))) with (md_blink (v_md (os_vt s))).
    destruct (md_blink (v_md (os_vt s))); cbn [negb] in Etr;
      rewrite ?andb_true_r, ?andb_false_r, ?orb_false_r in Etr; cbn [orb] in Etr.
    + left. apply Z.eqb_eq in Etr. split; [exact Etr|reflexivity].
    + right. apply Z.eqb_eq in Etr. split; [lia|reflexivity].
  - cbn [is_stop]. rewrite orb_false_r. split; [reflexivity|]. split; [reflexivity|]. apply frame_ok_refl.
Qed.

Lemma step_decscusr : forall kp colon rgb8 cshape t s value,
  MInv kp colon rgb8 cshape t s -> step_concl kp colon rgb8 cshape t s (ODecscusr value).
Proof.
  intros kp colon rgb8 cshape t s value Hinv.
  unfold step_concl. cbn [mode_step].
  eexists; eexists; eexists. split; [reflexivity|].
  rewrite check_decscusr_eq. cbn [is_nil].
  destruct (decscusr_truthful s value) eqn:Etr; cbn [negb].
  2:{ left. split; [reflexivity|]. right. reflexivity. }
  right. exists s, 0%nat. split; [reflexivity|]. split; [|split; [reflexivity|]].
  - destruct (decscusr_caps (t_drv t) value) as (Hc1 & Hc2).
    unfold decscusr_truthful in Etr. apply andb_true_iff in Etr. destruct Etr as [Hrng Hsh].
    apply andb_true_iff in Hrng. destruct Hrng as [H0 H6]. apply Z.leb_le in H0. apply Z.leb_le in H6.
    apply MInv_with_drv; [exact Hinv | exact Hc1 | exact Hc2 |].
    apply decscusr_cinv; [exact (mi_core _ _ _ _ _ _ Hinv) | lia |].
    intros Hl. rewrite Hl in Hsh. apply Z.eqb_eq in Hsh. exact Hsh.
  - cbn [is_stop]. rewrite orb_false_r. split; [reflexivity|]. split; [reflexivity|]. apply frame_ok_refl.
Qed.

(* ==== 7. pause, teardown, destruction, setupterm *)
Lemma teardown_facts : forall kp colon rgb8 cshape t s,
  MInv kp colon rgb8 cshape t s -> os_stopped s = false ->
  ms_eq kp (ms_of_view (view_of (vt_run (xt_teardown (t_drv t)) (os_vt s)))) init_ms = true /\
  v_sgr (vt_run (xt_teardown (t_drv t)) (os_vt s)) = default_attrs /\
  (forall ph', ph' = Paused \/ ph' = Stopped ->
     CInv kp cshape ph' (t_drv t) (os_last s) (view_of (vt_run (xt_teardown (t_drv t)) (os_vt s)))) /\
  same_rest (view_of (vt_run (xt_teardown (t_drv t)) (os_vt s))) (view_of (os_vt s)).
Proof.
  intros kp colon rgb8 cshape t s Hinv Hns.
  destruct Hinv as [Hco Hrg Hst Hcore Hpl Hpt Hca Hfa Hsg].
  pose proof (ci_shadow _ _ _ _ _ _ Hcore) as Hsh.
  destruct Hsh as (Sa & Scv & Sm & Sb & Ss & Sk & Sco & Srgb & Smr & Skp).
  pose proof (vt_rel_weaken _ _ _ (ci_vt _ _ _ _ _ _ Hcore)) as Hweak.
  destruct (teardown_view (t_drv t) (os_vt s) Hweak Smr Skp) as (Hst' & Hsg' & Hrest).
  split; [|split; [|split; [|exact Hrest]]].
  - apply (init_check kp (x_mode (t_drv t))); [exact Hst'|].
    intros Hk. destruct Hrest as (R1 & _). rewrite R1. exact (ci_kp _ _ _ _ _ _ Hcore Hk).
  - exact Hsg'.
  - intros ph' [Hp|Hp]; subst ph'.
    + eapply CInv_transfer; [exact Hcore | apply vt_rel_stopped_paused; exact Hst' | exact Hrest].
    + eapply CInv_transfer; [exact Hcore | exact Hst' | exact Hrest].
Qed.

Lemma step_pause : forall kp colon rgb8 cshape t s,
  MInv kp colon rgb8 cshape t s -> os_stopped s = false -> step_concl kp colon rgb8 cshape t s OPause.
Proof.
  intros kp colon rgb8 cshape t s Hinv Hns.
  destruct (teardown_facts _ _ _ _ _ _ Hinv Hns) as (Hms & Hsgr & Hci & Hrest).
  destruct Hinv as [Hco Hrg Hst Hcore Hpl Hpt Hca Hfa Hsg].
  unfold step_concl. cbn [mode_step]. unfold term_pause.
  eexists; eexists; eexists. split; [reflexivity|]. right.
  rewrite check_pause_eq, Hms. change (w_sgr (view_of ?v)) with (v_sgr v). rewrite Hsgr, attrs_eqb_refl.
  cbn [andb]. eexists; eexists. split; [reflexivity|]. split; [|split; [reflexivity|]].
  - constructor; cbn [os_vt os_last os_pen os_paused os_stopped]; try assumption.
    + unfold phase_of; cbn [os_paused os_stopped]. rewrite Hns. apply Hci. left. reflexivity.
    + rewrite Hsgr. reflexivity.
    + unfold phase_of; cbn [os_paused os_stopped]. rewrite Hns. cbn [sgr_rel]. rewrite Hsgr. apply sgr_weak_default.
  - cbn [os_stopped is_stop os_last os_vt last_after]. rewrite orb_false_r.
    split; [reflexivity|]. split; [reflexivity|]. apply frame_ok_rest. exact Hrest.
Qed.

Lemma step_teardown : forall kp colon rgb8 cshape t s,
  MInv kp colon rgb8 cshape t s -> os_stopped s = false -> step_concl kp colon rgb8 cshape t s OTeardown.
Proof.
  intros kp colon rgb8 cshape t s Hinv Hns.
  destruct (teardown_facts _ _ _ _ _ _ Hinv Hns) as (Hms & Hsgr & Hci & Hrest).
  destruct Hinv as [Hco Hrg Hst Hcore Hpl Hpt Hca Hfa Hsg].
  unfold step_concl. cbn [mode_step]. unfold term_teardown. rewrite Hst, Hns. cbn [negb].
  eexists; eexists; eexists. split; [reflexivity|]. right.
  rewrite check_stop_eq by (left; reflexivity). rewrite Hms.
  change (w_sgr (view_of ?v)) with (v_sgr v). rewrite Hsgr, attrs_eqb_refl.
  cbn [andb]. eexists; eexists. split; [reflexivity|]. split; [|split; [reflexivity|]].
  - constructor; cbn [t_drv t_started t_pen os_vt os_last os_pen os_paused os_stopped]; try assumption.
    + reflexivity.
    + apply Hci. right. reflexivity.
    + rewrite Hsgr. reflexivity.
  - cbn [os_stopped is_stop os_last os_vt last_after]. rewrite orb_true_r.
    split; [reflexivity|]. split; [reflexivity|]. apply frame_ok_rest. exact Hrest.
Qed.

Lemma step_destroy : forall kp colon rgb8 cshape t s,
  MInv kp colon rgb8 cshape t s -> step_concl kp colon rgb8 cshape t s ODestroy.
Proof.
  intros kp colon rgb8 cshape t s Hinv.
  destruct (os_stopped s) eqn:Hns.
  - destruct Hinv as [Hco Hrg Hst Hcore Hpl Hpt Hca Hfa Hsg].
    unfold step_concl. cbn [mode_step]. unfold term_destroy, term_teardown. rewrite Hst, Hns. cbn [negb fst snd].
    eexists; eexists; eexists. split; [reflexivity|]. right.
    rewrite vt_run_nil. rewrite check_stop_eq by (right; reflexivity).
    unfold phase_of in Hcore, Hsg. rewrite Hns in Hcore, Hsg. cbn [sgr_rel] in Hsg.
    rewrite (init_check kp _ _ (ci_vt _ _ _ _ _ _ Hcore) (ci_kp _ _ _ _ _ _ Hcore)).
    change (w_sgr (view_of ?v)) with (v_sgr v). rewrite Hsg, attrs_eqb_refl.
    cbn [andb]. eexists; eexists. split; [reflexivity|]. split; [|split; [reflexivity|]].
    + constructor; unfold phase_of; cbn [os_vt os_last os_pen os_paused os_stopped sgr_rel]; try assumption.
      rewrite Hns in Hst. exact Hst.
    + cbn [os_stopped is_stop os_last os_vt last_after].
      split; [reflexivity|]. split; [reflexivity|]. apply frame_ok_refl.
  - destruct (teardown_facts _ _ _ _ _ _ Hinv Hns) as (Hms & Hsgr & Hci & Hrest).
    destruct Hinv as [Hco Hrg Hst Hcore Hpl Hpt Hca Hfa Hsg].
    unfold step_concl. cbn [mode_step]. unfold term_destroy, term_teardown. rewrite Hst, Hns. cbn [negb fst snd].
    eexists; eexists; eexists. split; [reflexivity|]. right.
    rewrite check_stop_eq by (right; reflexivity). rewrite Hms.
    change (w_sgr (view_of ?v)) with (v_sgr v). rewrite Hsgr, attrs_eqb_refl.
    cbn [andb]. eexists; eexists. split; [reflexivity|]. split; [|split; [reflexivity|]].
    + constructor; cbn [t_drv t_started t_pen os_vt os_last os_pen os_paused os_stopped]; try assumption.
      * reflexivity.
      * apply Hci. right. reflexivity.
      * rewrite Hsgr. reflexivity.
    + cbn [os_stopped is_stop os_last os_vt last_after].
      split; [reflexivity|]. split; [reflexivity|]. apply frame_ok_rest. exact Hrest.
Qed.

(* ---- setupterm's settings *)
Lemma setup_ok : forall cshape ph cvs d l v, ph <> Stopped ->
  CInv false cshape ph d l (view_of v) ->
  Forall (fun cv => ctl_in_rangeb (fst cv) (snd cv) = true /\
                    fst cv <> CtlCursorblink /\ fst cv <> CtlCursorshape) cvs ->
  exists d' ts, setup_run d cvs = (d', ts) /\ x_caps d' = x_caps d /\
    CInv false cshape ph d'
         (fold_left (fun l cv => ls_set l (fst cv) (ctl_norm (fst cv) (snd cv))) cvs l)
         (view_of (vt_run ts v)) /\
    w_sgr (view_of (vt_run ts v)) = w_sgr (view_of v) /\
    w_blink (view_of (vt_run ts v)) = w_blink (view_of v) /\
    w_shape (view_of (vt_run ts v)) = w_shape (view_of v).
Proof.
  intros cshape ph cvs. induction cvs as [|[c x] r IH]; intros d l v Hph Hinv Hall.
  - exists d, []. cbn [setup_run fold_left]. rewrite vt_run_nil.
    split; [reflexivity|]. split; [reflexivity|]. split; [exact Hinv|]. split; [reflexivity|]. split; reflexivity.
  - inversion Hall as [|cv r' Hr Hall']; subst. cbn [fst snd] in Hr. destruct Hr as (Hr & Hnb & Hns).
    assert (Hk : false = true -> c = CtlKeypadApp -> x = 0) by discriminate.
    destruct (setctl_ok _ _ _ _ _ _ _ _ Hph Hinv Hr Hk) as (d1 & ts1 & Hset & Hcaps & Hcore1 & Hsgr1 & _ & Hfb1 & Hfs1).
    destruct (IH d1 _ (vt_run ts1 v) Hph Hcore1 Hall') as (d2 & ts2 & Hrun & Hcaps2 & Hcore2 & Hsgr2 & Hfb2 & Hfs2).
    exists d2, (ts1 ++ ts2). cbn [setup_run fold_left fst snd]. rewrite Hset, Hrun.
    rewrite vt_run_app. split; [reflexivity|]. split; [congruence|].
    split; [exact Hcore2|]. split; [congruence|].
    split; [rewrite Hfb2; exact (Hfb1 Hnb) | rewrite Hfs2; exact (Hfs1 Hns)].
Qed.
Lemma setup_controls_in_range : forall alt,
  Forall (fun cv => ctl_in_rangeb (fst cv) (snd cv) = true /\
                    fst cv <> CtlCursorblink /\ fst cv <> CtlCursorshape) (setup_controls alt).
Proof.
  intros alt. destruct alt; unfold setup_controls; cbn [app];
    repeat constructor; cbn [fst]; discriminate.
Qed.

Lemma step_setup : forall kp colon rgb8 cshape t s alt,
  MInv kp colon rgb8 cshape t s -> os_stopped s = false -> kp = false ->
  step_concl kp colon rgb8 cshape t s (OSetup alt).
Proof.
  intros kp colon rgb8 cshape t s alt Hinv Hns Hk. subst kp.
  destruct Hinv as [Hco Hrg Hst Hcore Hpl Hpt Hca Hfa Hsg].
  pose proof (phase_not_stopped s Hns) as Hph.
  destruct (setup_ok _ _ _ _ _ _ Hph Hcore (setup_controls_in_range alt))
    as (d' & ts & Hrun & Hcaps & Hcore' & Hsgr & Hfb & Hfs).
  unfold step_concl. cbn [mode_step]. rewrite Hrun.
  eexists; eexists; eexists. split; [reflexivity|]. right.
  rewrite check_setup_eq.
  assert (Hview : view_of (vt_run (ts ++ xt_clear) (os_vt s)) = view_of (vt_run ts (os_vt s))).
  { rewrite vt_run_app. unfold xt_clear. rewrite vt_run_cons, vt_run_nil. apply view_vt_clear. }
  rewrite Hview.
  assert (Hm : os_paused s || ms_eq false (ms_of_view (view_of (vt_run ts (os_vt s))))
                 (logical_ms init_ms (setup_last alt (os_last s))) = true).
  { destruct (os_paused s) eqn:Ep; [reflexivity|]. cbn [orb].
    unfold phase_of in Hcore'. rewrite Hns, Ep in Hcore'. eapply modes_check. exact Hcore'. }
  rewrite Hm, Hsgr. change (w_sgr (view_of (os_vt s))) with (v_sgr (os_vt s)).
  rewrite attrs_eqb_refl. cbn [andb].
  eexists; eexists. split; [reflexivity|]. split; [|split; [reflexivity|]].
  - constructor; cbn [term_with_drv t_drv t_started t_pen os_vt os_last os_pen os_paused os_stopped].
    + rewrite Hcaps. exact Hco.
    + rewrite Hcaps. exact Hrg.
    + exact Hst.
    + unfold phase_of; cbn [os_paused os_stopped]. fold (phase_of s). rewrite Hview. exact Hcore'.
    + exact Hpl.
    + exact Hpt.
    + exact Hca.
    + change (a_faint (w_sgr (view_of (vt_run (ts ++ xt_clear) (os_vt s)))) = false). rewrite Hview, Hsgr. exact Hfa.
    + unfold phase_of; cbn [os_paused os_stopped]. fold (phase_of s).
      change (v_sgr (vt_run (ts ++ xt_clear) (os_vt s))) with (w_sgr (view_of (vt_run (ts ++ xt_clear) (os_vt s)))).
      rewrite Hview, Hsgr. exact Hsg.
  - cbn [os_stopped is_stop os_last os_vt last_after]. rewrite orb_false_r.
    split; [reflexivity|]. split; [reflexivity|].
    split; intros _.
    + change (w_blink (view_of (vt_run (ts ++ xt_clear) (os_vt s))) = w_blink (view_of (os_vt s))).
      rewrite Hview. exact Hfb.
    + change (w_shape (view_of (vt_run (ts ++ xt_clear) (os_vt s))) = w_shape (view_of (os_vt s))).
      rewrite Hview. exact Hfs.
Qed.

(* ==== 8. pens, resume; every step; histories *)

  Lemma step_pen : forall kp colon rgb8 cshape t s (is_set : bool) p,
    MInv kp colon rgb8 cshape t s -> os_stopped s = false -> pen_in_range p ->
    step_concl kp colon rgb8 cshape t s (if is_set then OSetpen p else OChpen p).
  Proof.
    intros kp colon rgb8 cshape t s is_set p Hinv Hns Hp.
    destruct Hinv as [Hco Hrg Hst Hcore Hpl Hpt Hca Hfa Hsg]. subst colon rgb8.
    destruct (pen_step_ok
                (cap_colon (x_caps (t_drv t))) (cap_rgb8 (x_caps (t_drv t))) is_set
                (os_pen s) (t_pen t) p (os_vt s) Hpl Hp Hca Hfa)
      as (tp' & ts & Hdo & Hl' & Htp' & Hcache & Hset & Hf' & Hm & Hw).
    assert (Hstep : mode_step t (if is_set then OSetpen p else OChpen p) = Some (term_with_pen t tp', ts, None)).
    { revert Hdo. destruct is_set; intros Hdo; cbn [mode_step]; rewrite Hdo; reflexivity. }
    unfold step_concl. rewrite Hstep. eexists; eexists; eexists. split; [reflexivity|]. right.
    rewrite check_pen_eq by (apply pen_in_range_b; exact Hp).
    pose proof (view_set_sgr _ _ Hset) as Hview.
    assert (Hms : ms_of_view (view_of (vt_run ts (os_vt s))) = ms_of_view (view_of (os_vt s))).
    { rewrite Hview. reflexivity. }
    rewrite Hms, ms_eq_refl, andb_true_r.
    change (w_sgr (view_of (vt_run ts (os_vt s)))) with (v_sgr (vt_run ts (os_vt s))).
    assert (Hb : os_paused s ||
                 sgr_matchesb (cap_colon (x_caps (t_drv t))) (cap_rgb8 (x_caps (t_drv t)))
                   (cache_of 256 (if is_set then logical_set (os_pen s) p else logical_ch (os_pen s) p))
                   (v_sgr (vt_run ts (os_vt s))) = true).
    { destruct (os_paused s) eqn:Ep; [reflexivity|]. cbn [orb].
      unfold phase_of in Hsg. rewrite Hns, Ep in Hsg. cbn [sgr_rel] in Hsg.
      apply sgr_matches_b. eapply sgr_matches_ext; [exact Hcache|]. apply Hm. exact Hsg. }
    rewrite Hb. eexists; eexists. split; [reflexivity|]. split; [|split; [reflexivity|]].
    - constructor; cbn [term_with_pen t_drv t_started t_pen os_vt os_last os_pen os_paused os_stopped];
        try assumption; try reflexivity.
      + unfold phase_of; cbn [os_paused os_stopped]. fold (phase_of s). rewrite Hview. apply CInv_vw_sgr. exact Hcore.
      + unfold phase_of in *; cbn [os_paused os_stopped]. rewrite Hns in *.
        destruct (os_paused s); cbn [sgr_rel] in *; [apply Hw | apply Hm]; exact Hsg.
    - cbn [os_stopped os_last os_vt].
      assert (Hfr : forall o, frame_ok o (os_vt s) (vt_run ts (os_vt s))).
      { intros o. apply frame_ok_rest. rewrite Hview. unfold same_rest. auto. }
      destruct is_set; cbn [is_stop last_after]; rewrite orb_false_r;
        (split; [reflexivity|]; split; [reflexivity|]; apply Hfr).
  Qed.

  Lemma step_resume : forall kp colon rgb8 cshape t s,
    MInv kp colon rgb8 cshape t s -> os_stopped s = false -> step_concl kp colon rgb8 cshape t s OResume.
  Proof.
    intros kp colon rgb8 cshape t s Hinv Hns.
    destruct Hinv as [Hco Hrg Hst Hcore Hpl Hpt Hca Hfa Hsg]. subst colon rgb8.
    pose proof (ci_shadow _ _ _ _ _ _ Hcore) as Hsh.
    destruct Hsh as (Sa & Scv & Sm & Sb & Ss & Sk & Sco & Srgb & Smr & Skp).
    pose proof (vt_rel_weaken _ _ _ (ci_vt _ _ _ _ _ _ Hcore)) as Hweak.
    destruct (resume_view (t_drv t) (os_vt s) Hweak Smr Skp) as (Hrun & Hsg1 & Hrest1).
    change (w_sgr (view_of ?v)) with (v_sgr v) in Hsg1.
    pose proof (sgr_rel_weak _ _ _ _ _ Hsg) as Hw. rewrite <- Hsg1 in Hw.
    assert (Hf1 : a_faint (v_sgr (vt_run (xt_resume (t_drv t)) (os_vt s))) = false) by (rewrite Hsg1; exact Hfa).
    destruct (resume_pen_ok _ _ (t_pen t) _ Hpt Hf1 Hw) as (ts2 & Hx & Hset & Hf' & Hmatch).
    assert (Hres : term_resume t = Some (xt_resume (t_drv t) ++ ts2)).
    { unfold term_resume. revert Hx. destruct (is_nondefault (t_pen t)); intros Hx.
      - rewrite Hx. reflexivity.
      - injection Hx as Hx. subst ts2. rewrite app_nil_r. reflexivity. }
    unfold step_concl. cbn [mode_step]. rewrite Hres.
    eexists; eexists; eexists. split; [reflexivity|]. right.
    rewrite check_resume_eq. rewrite vt_run_app.
    pose proof (view_set_sgr _ _ Hset) as Hview.
    assert (Hcore' : CInv kp cshape Run (t_drv t) (os_last s)
                       (view_of (vt_run ts2 (vt_run (xt_resume (t_drv t)) (os_vt s))))).
    { rewrite Hview. apply CInv_vw_sgr. eapply CInv_transfer; [exact Hcore | exact Hrun | exact Hrest1]. }
    rewrite (modes_check _ _ _ _ _ Hcore').
    change (w_sgr (view_of ?v)) with (v_sgr v).
    rewrite (sgr_matches_b _ _ _ _ (sgr_matches_ext _ _ _ _ _ Hca Hmatch)). cbn [andb].
    eexists; eexists. split; [reflexivity|]. split; [|split; [reflexivity|]].
    - constructor; cbn [t_drv t_started t_pen os_vt os_last os_pen os_paused os_stopped];
        try assumption; try reflexivity.
      + unfold phase_of; cbn [os_paused os_stopped]. rewrite Hns. exact Hcore'.
      + unfold phase_of; cbn [os_paused os_stopped]. rewrite Hns. exact Hmatch.
    - cbn [os_stopped is_stop os_last os_vt last_after]. rewrite orb_false_r.
      split; [reflexivity|]. split; [reflexivity|].
      apply frame_ok_rest. rewrite Hview. destruct Hrest1 as (R1 & R2 & R3). unfold same_rest. auto.
  Qed.

  Lemma step_ok : forall kp colon rgb8 cshape t s o,
    MInv kp colon rgb8 cshape t s -> op_pen_ok o -> (kp = true -> op_kp_on o = false) ->
    stop_guard s o = false -> step_concl kp colon rgb8 cshape t s o.
  Proof.
    intros kp colon rgb8 cshape t s o Hinv Hp Hk Hg.
    unfold stop_guard in Hg.
    destruct o as [c x|c|p|p| | | | |alt|mode value|value]; cbn [negb] in Hg; rewrite ?andb_true_r in Hg.
    - apply step_set; assumption.
    - apply step_get; assumption.
    - apply (step_pen kp colon rgb8 cshape t s true p); assumption.
    - apply (step_pen kp colon rgb8 cshape t s false p); assumption.
    - apply step_pause; assumption.
    - apply step_resume; assumption.
    - apply step_teardown; assumption.
    - apply step_destroy; assumption.
    - apply step_setup; try assumption.
      destruct kp; [|reflexivity]. specialize (Hk eq_refl). discriminate Hk.
    - apply step_report; assumption.
    - apply step_decscusr; assumption.
  Qed.

  Lemma hist_inv : forall kp colon rgb8 cshape ops t s n,
    MInv kp colon rgb8 cshape t s -> (kp = true -> existsb op_kp_on ops = false) ->
    forall i w, hist_check kp colon rgb8 cshape init_ms n t s ops <> MBadAt i w.
  Proof.
    intros kp colon rgb8 cshape ops. induction ops as [|o r IH]; intros t s n Hinv Hk i w.
    - cbn [hist_check]. discriminate.
    - cbn [hist_check].
      change (os_stopped s && negb (match o with ODestroy | OGet _ => true | _ => false end)) with (stop_guard s o).
      destruct (stop_guard s o) eqn:Hg; [discriminate|].
      destruct (op_in_rangeb o) eqn:Hr; cbn [negb]; [|discriminate].
      pose proof (op_in_range_pen_ok o (op_in_rangeb_sound o Hr)) as Hp.
      assert (Hk1 : kp = true -> op_kp_on o = false).
      { intros Hkt. specialize (Hk Hkt). cbn [existsb] in Hk. apply orb_false_iff in Hk. apply Hk. }
      assert (Hk2 : kp = true -> existsb op_kp_on r = false).
      { intros Hkt. specialize (Hk Hkt). cbn [existsb] in Hk. apply orb_false_iff in Hk. apply Hk. }
      destruct (step_ok _ _ _ _ _ _ _ Hinv Hp Hk1 Hg) as (t' & ts & value & Hstep & [[Hc _]|(s' & n' & Hc & Hinv' & _)]).
      + rewrite Hstep, Hc. discriminate.
      + rewrite Hstep, Hc. apply IH; assumption.
  Qed.

(* ==== 9. start states and the theorems *)
Definition start_ok (colon rgb8 cshape : bool) (t : term) (s : ostate) : Prop :=
  t_started t = true /\
  cap_colon (x_caps (t_drv t)) = colon /\ cap_rgb8 (x_caps (t_drv t)) = rgb8 /\
  cap_cursorshape (x_caps (t_drv t)) = cshape /\
  m_altscreen (x_mode (t_drv t)) = false /\ m_cursorvis (x_mode (t_drv t)) = true /\
  m_mouse (x_mode (t_drv t)) = 0 /\ m_keypad (x_mode (t_drv t)) = false /\
  (i_cursorblink (x_init (t_drv t)) = true ->
     md_blink (v_md (os_vt s)) = m_cursorblink (x_mode (t_drv t))) /\
  (i_cursorblink (x_init (t_drv t)) = false -> m_cursorblink (x_mode (t_drv t)) = false) /\
  (i_cursorshape (x_init (t_drv t)) = true ->
     cap_cursorshape (x_caps (t_drv t)) = true /\
     (md_shape (v_md (os_vt s)) + 1) / 2 = m_cursorshape (x_mode (t_drv t))) /\
  (forall a, t_pen t a = None) /\ (forall a, os_pen s a = None) /\ (forall c, os_last s c = None) /\
  os_paused s = false /\ os_stopped s = false /\
  ms_of_vt (os_vt s) = init_ms /\ v_sgr (os_vt s) = default_attrs.

Definition fresh_term : term := mkTerm xdrv_new true empty_pen 25 80.
Definition fresh_ostate : ostate := mkOs (vt_init 25 80) (fun _ => None) empty_pen false false.
Example fresh_start_ok : start_ok false false false fresh_term fresh_ostate.
Proof.
  unfold start_ok, fresh_term, fresh_ostate. cbn.
  repeat split; try reflexivity; try discriminate.
Qed.

(* a driver whose probes were answered: cursor blinking, steady block cursor (DECSCUSR 2) *)
Definition probed_term : term :=
  mkTerm (xt_on_decscusr (xt_on_modereport (xt_on_modereport xdrv_new 12 1) 25 1) 2) true empty_pen 25 80.
Definition probed_ostate : ostate :=
  mkOs (vt_run [dec_mode 12 true; TCsi None [[Some 2]] [32] 113] (vt_init 25 80))
       (fun _ => None) empty_pen false false.
Example probed_start_ok : start_ok false false true probed_term probed_ostate.
Proof.
  unfold start_ok, probed_term, probed_ostate. cbn.
  repeat split; try reflexivity; try discriminate.
Qed.

Lemma start_inv : forall kp colon rgb8 cshape t s,
  start_ok colon rgb8 cshape t s -> MInv kp colon rgb8 cshape t s.
Proof.
  intros kp colon rgb8 cshape t s H.
  destruct H as (Hst & Hco & Hrg & Hcs & Ma & Mcv & Mm & Mk & Hbl & Hbl0 & Hshp & Htp & Hop & Hl & Hpa & Hns & Hms & Hsg).
  unfold ms_of_vt, init_ms in Hms. injection Hms as V1 V2 V3 V4 V5.
  constructor.
  - exact Hco.
  - exact Hrg.
  - rewrite Hst, Hns. reflexivity.
  - unfold phase_of. rewrite Hns, Hpa. constructor.
    + intros Hc. rewrite Hcs. exact Hc.
    + unfold shadow_ok. rewrite !Hl, Ma, Mcv, Mm, Mk. repeat split; auto; lia.
    + cbn [vt_rel view_of w_alt w_cv w_mouse w_sgrm]. rewrite Ma, Mcv, Mm. auto.
    + intros _. exact V5.
    + exact Hbl.
    + intros Hi _. destruct (Hshp Hi) as [H1 H2]. exact H2.
    + exact Hbl0.
    + intros Hne. rewrite Hl in Hne. contradiction Hne. reflexivity.
    + intros Hne. rewrite Hl in Hne. contradiction Hne. reflexivity.
    + intros Hne. rewrite Hl in Hne. contradiction Hne. reflexivity.
  - intros a v Ha. rewrite Hop in Ha. discriminate Ha.
  - intros a v Ha. rewrite Htp in Ha. discriminate Ha.
  - intros a. rewrite Htp. unfold cache_of. rewrite Hop. reflexivity.
  - rewrite Hsg. reflexivity.
  - unfold phase_of. rewrite Hns, Hpa. cbn [sgr_rel]. rewrite Hsg. split; [|reflexivity].
    intros a. rewrite Htp. reflexivity.
Qed.

(* ---- well-sequenced in-range histories of CALLS (no replies of the terminal among them: whether
   a reply is in range depends on the state, see [wf_hist_r] below for histories with replies) *)
Fixpoint wf_hist (stopped : bool) (ops : list mop) : Prop :=
  match ops with
  | [] => True
  | o :: r => op_in_range o /\ is_report o = false /\
              (stopped = true -> match o with ODestroy | OGet _ => True | _ => False end) /\
              wf_hist (stopped || is_stop o) r
  end.


  Theorem history_nokp : forall colon rgb8 cshape ops t s,
    start_ok colon rgb8 cshape t s ->
    forall i w, hist_check false colon rgb8 cshape init_ms 0 t s ops <> MBadAt i w.
  Proof.
    intros colon rgb8 cshape ops t s Hstart.
    apply hist_inv; [apply start_inv; exact Hstart | discriminate].
  Qed.

  Theorem history_full_partial : forall colon rgb8 cshape ops t s,
    start_ok colon rgb8 cshape t s -> sets_keypad_on ops = false ->
    forall i w, hist_check true colon rgb8 cshape init_ms 0 t s ops <> MBadAt i w.
  Proof.
    intros colon rgb8 cshape ops t s Hstart Hk.
    apply hist_inv; [apply start_inv; exact Hstart |].
    intros _. exact Hk.
  Qed.

  (* the toplevel on a terminal that answers the start-up probes: any replies [pre] (any subset of
     the queries, any values) are read before setupterm, and replies may also be read at any later
     point -- [ops] is ANY list of operations, so this is an instance of [history_nokp]; in
     particular a reply "cursor visible" read after setupterm has hidden the cursor is stale: the
     shadow stays 0, getctl reads 0, teardown writes CSI ?25h (the checker sees all three) *)
  Theorem toplevel_reports_nokp : forall colon rgb8 cshape alt pre ops t s,
    start_ok colon rgb8 cshape t s -> Forall (fun o => is_report o = true) pre ->
    forall i w, hist_check false colon rgb8 cshape init_ms 0 t s (pre ++ OSetup alt :: ops) <> MBadAt i w.
  Proof.
    intros colon rgb8 cshape alt pre ops t s Hstart _.
    apply history_nokp. exact Hstart.
  Qed.

  (* ---- well-sequenced in-range histories WITH replies of the terminal, truthful ones: [blink0] /
     [shape0] = the terminal's blink state / cursor shape at the start (what the start-up queries
     find); [bset] / [sset] = the application has set the blink / shape control since (then a reply
     is stale and only has to be well-formed).  A reply to DECRQM 25 says "visible" (power-on state) *)
  Definition reply_ok (blink0 : bool) (shape0 : Z) (bset sset : bool) (o : mop) : Prop :=
    match o with
    | OReport mode value =>
        (mode = 25 -> value = 1) /\
        (mode = 12 -> if bset then value = 1 \/ value = 2 else value = (if blink0 then 1 else 2))
    | ODecscusr value => 0 <= value <= 6 /\ (sset = false -> value = shape0)
    | _ => True
    end.
  Fixpoint wf_hist_r (blink0 : bool) (shape0 : Z) (bset sset stopped : bool) (ops : list mop) : Prop :=
    match ops with
    | [] => True
    | o :: r => op_in_range o /\ reply_ok blink0 shape0 bset sset o /\
                (stopped = true -> match o with ODestroy | OGet _ => True | _ => False end) /\
                wf_hist_r blink0 shape0 (bset || op_sets CtlCursorblink o) (sset || op_sets CtlCursorshape o)
                          (stopped || is_stop o) r
    end.
  Lemma wf_hist_wf_r : forall blink0 shape0 ops bset sset stopped,
    wf_hist stopped ops -> wf_hist_r blink0 shape0 bset sset stopped ops.
  Proof.
    intros blink0 shape0 ops. induction ops as [|o r IH]; intros bset sset stopped Hwf; [exact I|].
    cbn [wf_hist] in Hwf. destruct Hwf as (Hr & Hnrep & Hseq & Hwf').
    cbn [wf_hist_r]. split; [exact Hr|]. split; [|split; [exact Hseq|apply IH; exact Hwf']].
    destruct o; try exact I; discriminate Hnrep.
  Qed.

  (* what the walk knows about the blink / shape bookkeeping and the terminal *)
  Definition RInv (blink0 : bool) (shape0 : Z) (bset sset : bool) (s : ostate) : Prop :=
    (bset = true -> os_last s CtlCursorblink <> None) /\
    (os_last s CtlCursorblink = None -> md_blink (v_md (os_vt s)) = blink0) /\
    (sset = true -> os_last s CtlCursorshape <> None) /\
    (os_last s CtlCursorshape = None -> md_shape (v_md (os_vt s)) = shape0).

  Lemma fold_ls_none : forall (cvs : list (ctl * Z)) l c,
    fold_left (fun l cv => ls_set l (fst cv) (ctl_norm (fst cv) (snd cv))) cvs l c = None -> l c = None.
  Proof.
    induction cvs as [|cv r IH]; intros l c H; [exact H|].
    cbn [fold_left] in H. apply IH in H. unfold ls_set in H.
    destruct (ctl_eqb (fst cv) c); [discriminate H|exact H].
  Qed.
  Lemma last_after_none : forall o l c, last_after o l c = None -> op_sets c o = false /\ l c = None.
  Proof.
    intros o l c H. destruct o; cbn [last_after op_sets] in *; try (split; [reflexivity|exact H]).
    - unfold ls_set in H. destruct (ctl_eqb c0 c); [discriminate H|]. split; [reflexivity|exact H].
    - unfold setup_last in H. apply fold_ls_none in H. split; [reflexivity|exact H].
  Qed.
  Lemma last_after_set : forall o l c, op_sets c o = true -> last_after o l c <> None.
  Proof.
    intros o l c H. destruct o; cbn [op_sets] in H; try discriminate H.
    cbn [last_after]. unfold ls_set. rewrite H. discriminate.
  Qed.

  Lemma RInv_step : forall blink0 shape0 bset sset s s' o,
    RInv blink0 shape0 bset sset s ->
    os_last s' = last_after o (os_last s) -> frame_ok o (os_vt s) (os_vt s') ->
    RInv blink0 shape0 (bset || op_sets CtlCursorblink o) (sset || op_sets CtlCursorshape o) s'.
  Proof.
    intros blink0 shape0 bset sset s s' o (B1 & B2 & S1 & S2) Hl (Fb & Fs).
    unfold RInv. rewrite Hl. repeat split.
    - intros Hb Hnone. destruct (last_after_none _ _ _ Hnone) as [Hn1 Hn2].
      rewrite Hn1, orb_false_r in Hb. exact (B1 Hb Hn2).
    - intros Hnone. destruct (last_after_none _ _ _ Hnone) as [Hn1 Hn2].
      rewrite (Fb Hn1). exact (B2 Hn2).
    - intros Hb Hnone. destruct (last_after_none _ _ _ Hnone) as [Hn1 Hn2].
      rewrite Hn1, orb_false_r in Hb. exact (S1 Hb Hn2).
    - intros Hnone. destruct (last_after_none _ _ _ Hnone) as [Hn1 Hn2].
      rewrite (Fs Hn1). exact (S2 Hn2).
  Qed.

  Lemma reply_truthful_report : forall blink0 shape0 bset sset s mode value,
    RInv blink0 shape0 bset sset s -> reply_ok blink0 shape0 bset sset (OReport mode value) ->
    report_truthful s mode value = true.
  Proof.
    intros blink0 shape0 bset sset s mode value (B1 & B2 & _ & _) [H25 H12].
    unfold report_truthful.
    destruct (mode =? 25) eqn:E25.
    { apply Z.eqb_eq in E25. rewrite (H25 E25). reflexivity. }
    destruct (mode =? 12) eqn:E12; [|reflexivity].
    apply Z.eqb_eq in E12. specialize (H12 E12).
    destruct (os_last s CtlCursorblink) as [xb|] eqn:El.
    - destruct bset.
      + destruct H12 as [Hv|Hv]; subst value; reflexivity.
      + subst value. destruct blink0; reflexivity.
    - destruct bset; [exfalso; exact (B1 eq_refl eq_refl)|].
      rewrite (B2 eq_refl). subst value. destruct blink0; reflexivity.
  Qed.
  Lemma reply_truthful_decscusr : forall blink0 shape0 bset sset s value,
    RInv blink0 shape0 bset sset s -> reply_ok blink0 shape0 bset sset (ODecscusr value) ->
    decscusr_truthful s value = true.
  Proof.
    intros blink0 shape0 bset sset s value (_ & _ & S1 & S2) [Hrng Hsh].
    unfold decscusr_truthful.
    assert (H0 : (0 <=? value) = true) by (apply Z.leb_le; lia).
    assert (H6 : (value <=? 6) = true) by (apply Z.leb_le; lia).
    rewrite H0, H6. cbn [andb].
    destruct (os_last s CtlCursorshape) as [xs|] eqn:El; [reflexivity|].
    destruct sset; [exfalso; exact (S1 eq_refl eq_refl)|].
    rewrite (S2 eq_refl), (Hsh eq_refl). apply Z.eqb_refl.
  Qed.

  Lemma run_inv_r : forall kp colon rgb8 cshape blink0 shape0 ops t s bset sset,
    MInv kp colon rgb8 cshape t s -> RInv blink0 shape0 bset sset s ->
    wf_hist_r blink0 shape0 bset sset (os_stopped s) ops -> (kp = true -> existsb op_kp_on ops = false) ->
    exists t' ts s', mode_run t ops = Some (t', ts) /\ MInv kp colon rgb8 cshape t' s' /\
      os_vt s' = vt_run ts (os_vt s) /\ os_stopped s' = os_stopped s || existsb is_stop ops /\
      forall n, hist_check kp colon rgb8 cshape init_ms n t s ops = MOk (n + length ops).
  Proof.
    intros kp colon rgb8 cshape blink0 shape0 ops.
    induction ops as [|o r IH]; intros t s bset sset Hinv Hrinv Hwf Hk.
    - exists t, [], s. cbn [mode_run existsb hist_check length]. rewrite vt_run_nil, orb_false_r.
      split; [reflexivity|]. split; [exact Hinv|]. split; [reflexivity|]. split; [reflexivity|].
      intros n. rewrite Nat.add_0_r. reflexivity.
    - cbn [wf_hist_r] in Hwf. destruct Hwf as (Hr & Hrep_ok & Hseq & Hwf').
      assert (Hg : stop_guard s o = false).
      { unfold stop_guard. destruct (os_stopped s) eqn:Es; [|reflexivity].
        specialize (Hseq eq_refl). destruct o; try contradiction; reflexivity. }
      pose proof (op_in_range_pen_ok o Hr) as Hp.
      pose proof (op_in_range_b o Hr) as Hrb.
      assert (Hk1 : kp = true -> op_kp_on o = false).
      { intros Hkt. specialize (Hk Hkt). cbn [existsb] in Hk. apply orb_false_iff in Hk. apply Hk. }
      assert (Hk2 : kp = true -> existsb op_kp_on r = false).
      { intros Hkt. specialize (Hk Hkt). cbn [existsb] in Hk. apply orb_false_iff in Hk. apply Hk. }
      destruct (step_ok _ _ _ _ _ _ _ Hinv Hp Hk1 Hg)
        as (t1 & ts1 & value & Hstep &
            [[Hc0 [Hno|Hrep]]|(s1 & n1 & Hc & Hinv1 & Hvt1 & Hst1 & Hlast1 & Hframe1)]).
      + contradiction.
      + (* a truthful reply is not out of range *)
        exfalso. destruct o; try discriminate Hrep.
        * rewrite check_report_eq, (reply_truthful_report _ _ _ _ _ _ _ Hrinv Hrep_ok) in Hc0.
          cbn [negb] in Hc0. destruct (is_nil ts1); discriminate Hc0.
        * rewrite check_decscusr_eq, (reply_truthful_decscusr _ _ _ _ _ _ Hrinv Hrep_ok) in Hc0.
          cbn [negb] in Hc0. destruct (is_nil ts1); discriminate Hc0.
      + rewrite <- Hst1 in Hwf'.
        pose proof (RInv_step _ _ _ _ _ _ _ Hrinv Hlast1 Hframe1) as Hrinv1.
        destruct (IH t1 s1 _ _ Hinv1 Hrinv1 Hwf' Hk2) as (t2 & ts2 & s2 & Hrun & Hinv2 & Hvt2 & Hst2 & Hchk).
        exists t2, (ts1 ++ ts2), s2. cbn [mode_run]. rewrite Hstep, Hrun.
        split; [reflexivity|]. split; [exact Hinv2|].
        split; [rewrite vt_run_app, <- Hvt1; exact Hvt2|].
        split; [rewrite Hst2, Hst1; cbn [existsb]; symmetry; apply orb_assoc|].
        intros n. cbn [hist_check length].
        change (os_stopped s && negb (match o with ODestroy | OGet _ => true | _ => false end)) with (stop_guard s o).
        rewrite Hg, Hrb. cbn [negb]. rewrite Hstep, Hc, Hchk. f_equal. lia.
  Qed.

  Lemma RInv_start : forall s, RInv (md_blink (v_md (os_vt s))) (md_shape (v_md (os_vt s))) false false s.
  Proof. intros s. unfold RInv. repeat split; try discriminate; intros _; reflexivity. Qed.

  Lemma run_inv : forall kp colon rgb8 cshape ops t s,
    MInv kp colon rgb8 cshape t s -> wf_hist (os_stopped s) ops -> (kp = true -> existsb op_kp_on ops = false) ->
    exists t' ts s', mode_run t ops = Some (t', ts) /\ MInv kp colon rgb8 cshape t' s' /\
      os_vt s' = vt_run ts (os_vt s) /\ os_stopped s' = os_stopped s || existsb is_stop ops /\
      forall n, hist_check kp colon rgb8 cshape init_ms n t s ops = MOk (n + length ops).
  Proof.
    intros kp colon rgb8 cshape ops t s Hinv Hwf Hk.
    apply (run_inv_r kp colon rgb8 cshape _ _ ops t s false false Hinv (RInv_start s)); [|exact Hk].
    apply wf_hist_wf_r. exact Hwf.
  Qed.

  (* well-sequenced in-range histories are accepted in full: the checker never escapes
     through "out of range" on them, so the theorems above are not vacuous *)
  Theorem history_accepted_nokp : forall colon rgb8 cshape ops t s,
    start_ok colon rgb8 cshape t s -> wf_hist false ops ->
    hist_check false colon rgb8 cshape init_ms 0 t s ops = MOk (length ops).
  Proof.
    intros colon rgb8 cshape ops t s Hstart Hwf.
    pose proof (start_inv false _ _ _ _ _ Hstart) as Hinv.
    assert (Hns : os_stopped s = false) by apply Hstart.
    rewrite <- Hns in Hwf.
    assert (Hk : false = true -> existsb op_kp_on ops = false) by discriminate.
    destruct (run_inv _ _ _ _ _ _ _ Hinv Hwf Hk) as (t' & ts & s' & _ & _ & _ & _ & Hchk).
    exact (Hchk 0%nat).
  Qed.
  Theorem history_accepted_full_partial : forall colon rgb8 cshape ops t s,
    start_ok colon rgb8 cshape t s -> wf_hist false ops -> sets_keypad_on ops = false ->
    hist_check true colon rgb8 cshape init_ms 0 t s ops = MOk (length ops).
  Proof.
    intros colon rgb8 cshape ops t s Hstart Hwf Hkp.
    pose proof (start_inv true _ _ _ _ _ Hstart) as Hinv.
    assert (Hns : os_stopped s = false) by apply Hstart.
    rewrite <- Hns in Hwf.
    assert (Hk : true = true -> existsb op_kp_on ops = false) by (intros _; exact Hkp).
    destruct (run_inv _ _ _ _ _ _ _ Hinv Hwf Hk) as (t' & ts & s' & _ & _ & _ & _ & Hchk).
    exact (Hchk 0%nat).
  Qed.

  (* a well-sequenced in-range history that contains a teardown or a destruction leaves the
     terminal in its initial modes (keypad aside) and the default rendition *)
  Theorem balanced_nokp : forall colon rgb8 cshape ops t s,
    start_ok colon rgb8 cshape t s -> wf_hist false ops -> existsb is_stop ops = true ->
    exists t' ts, mode_run t ops = Some (t', ts) /\
      ms_eqb_nokp (ms_of_vt (vt_run ts (os_vt s))) init_ms = true /\
      v_sgr (vt_run ts (os_vt s)) = default_attrs.
  Proof.
    intros colon rgb8 cshape ops t s Hstart Hwf Hstop.
    pose proof (start_inv false _ _ _ _ _ Hstart) as Hinv.
    assert (Hns : os_stopped s = false) by apply Hstart.
    rewrite <- Hns in Hwf.
    assert (Hk : false = true -> existsb op_kp_on ops = false) by discriminate.
    destruct (run_inv _ _ _ _ _ _ _ Hinv Hwf Hk) as (t' & ts & s' & Hrun & Hinv' & Hvt & Hst & _).
    exists t', ts. split; [exact Hrun|].
    rewrite Hstop, orb_true_r in Hst.
    destruct Hinv' as [Hco Hrg Hstd Hcore Hpl Hpt Hca Hfa Hsg].
    unfold phase_of in Hcore, Hsg. rewrite Hst in Hcore, Hsg. cbn [sgr_rel] in Hsg.
    rewrite <- Hvt. split; [|exact Hsg].
    apply (init_check false _ _ (ci_vt _ _ _ _ _ _ Hcore)). discriminate.
  Qed.

  Definition app_op_ok (o : mop) : Prop := op_in_range o /\ is_stop o = false /\ is_report o = false.

  Lemma wf_hist_app : forall app tail, Forall app_op_ok app -> wf_hist false tail -> wf_hist false (app ++ tail).
  Proof.
    intros app tail Hall Ht. induction Hall as [|o r (Hr & Hs & Hn) Hall IH]; [exact Ht|].
    cbn [app wf_hist]. split; [exact Hr|]. split; [exact Hn|]. split; [discriminate|]. rewrite Hs. exact IH.
  Qed.

  Theorem toplevel_balanced_nokp : forall colon rgb8 cshape alt app t s,
    start_ok colon rgb8 cshape t s -> Forall app_op_ok app ->
    exists t' ts, mode_run t (toplevel_ops alt app) = Some (t', ts) /\
      ms_eqb_nokp (ms_of_vt (vt_run ts (os_vt s))) init_ms = true /\
      v_sgr (vt_run ts (os_vt s)) = default_attrs.
  Proof.
    intros colon rgb8 cshape alt app t s Hstart Happ.
    apply (balanced_nokp colon rgb8 cshape); [exact Hstart | |].
    - unfold toplevel_ops. cbn [wf_hist op_in_range is_stop is_report orb]. split; [exact I|]. split; [reflexivity|].
      split; [discriminate|].
      apply wf_hist_app; [exact Happ|]. cbn [wf_hist op_in_range is_stop is_report orb].
      repeat split; try discriminate; auto.
    - unfold toplevel_ops. cbn [existsb is_stop orb]. rewrite existsb_app. cbn [existsb is_stop orb].
      apply orb_true_r.
  Qed.

  (* ---- the same for histories with (truthful) replies of the terminal anywhere in them *)
  Theorem history_reports_accepted_nokp : forall colon rgb8 cshape ops t s,
    start_ok colon rgb8 cshape t s ->
    wf_hist_r (md_blink (v_md (os_vt s))) (md_shape (v_md (os_vt s))) false false false ops ->
    hist_check false colon rgb8 cshape init_ms 0 t s ops = MOk (length ops).
  Proof.
    intros colon rgb8 cshape ops t s Hstart Hwf.
    pose proof (start_inv false _ _ _ _ _ Hstart) as Hinv.
    assert (Hns : os_stopped s = false) by apply Hstart.
    assert (Hwf2 : wf_hist_r (md_blink (v_md (os_vt s))) (md_shape (v_md (os_vt s))) false false (os_stopped s) ops)
      by (rewrite Hns; exact Hwf).
    assert (Hk : false = true -> existsb op_kp_on ops = false) by discriminate.
    destruct (run_inv_r _ _ _ _ _ _ _ _ _ _ _ Hinv (RInv_start s) Hwf2 Hk) as (t' & ts & s' & _ & _ & _ & _ & Hchk).
    exact (Hchk 0%nat).
  Qed.
  Theorem history_reports_accepted_full_partial : forall colon rgb8 cshape ops t s,
    start_ok colon rgb8 cshape t s ->
    wf_hist_r (md_blink (v_md (os_vt s))) (md_shape (v_md (os_vt s))) false false false ops ->
    sets_keypad_on ops = false ->
    hist_check true colon rgb8 cshape init_ms 0 t s ops = MOk (length ops).
  Proof.
    intros colon rgb8 cshape ops t s Hstart Hwf Hkp.
    pose proof (start_inv true _ _ _ _ _ Hstart) as Hinv.
    assert (Hns : os_stopped s = false) by apply Hstart.
    assert (Hwf2 : wf_hist_r (md_blink (v_md (os_vt s))) (md_shape (v_md (os_vt s))) false false (os_stopped s) ops)
      by (rewrite Hns; exact Hwf).
    assert (Hk : true = true -> existsb op_kp_on ops = false) by (intros _; exact Hkp).
    destruct (run_inv_r _ _ _ _ _ _ _ _ _ _ _ Hinv (RInv_start s) Hwf2 Hk) as (t' & ts & s' & _ & _ & _ & _ & Hchk).
    exact (Hchk 0%nat).
  Qed.

  Theorem balanced_reports_nokp : forall colon rgb8 cshape ops t s,
    start_ok colon rgb8 cshape t s ->
    wf_hist_r (md_blink (v_md (os_vt s))) (md_shape (v_md (os_vt s))) false false false ops ->
    existsb is_stop ops = true ->
    exists t' ts, mode_run t ops = Some (t', ts) /\
      ms_eqb_nokp (ms_of_vt (vt_run ts (os_vt s))) init_ms = true /\
      v_sgr (vt_run ts (os_vt s)) = default_attrs.
  Proof.
    intros colon rgb8 cshape ops t s Hstart Hwf Hstop.
    pose proof (start_inv false _ _ _ _ _ Hstart) as Hinv.
    assert (Hns : os_stopped s = false) by apply Hstart.
    assert (Hwf2 : wf_hist_r (md_blink (v_md (os_vt s))) (md_shape (v_md (os_vt s))) false false (os_stopped s) ops)
      by (rewrite Hns; exact Hwf).
    assert (Hk : false = true -> existsb op_kp_on ops = false) by discriminate.
    destruct (run_inv_r _ _ _ _ _ _ _ _ _ _ _ Hinv (RInv_start s) Hwf2 Hk)
      as (t' & ts & s' & Hrun & Hinv' & Hvt & Hst & _).
    exists t', ts. split; [exact Hrun|].
    rewrite Hstop, orb_true_r in Hst.
    destruct Hinv' as [Hco Hrg Hstd Hcore Hpl Hpt Hca Hfa Hsg].
    unfold phase_of in Hcore, Hsg. rewrite Hst in Hcore, Hsg. cbn [sgr_rel] in Hsg.
    rewrite <- Hvt. split; [|exact Hsg].
    apply (init_check false _ _ (ci_vt _ _ _ _ _ _ Hcore)). discriminate.
  Qed.

  (* the toplevel on a terminal that answers the probes: replies [pre], setupterm, the application's
     calls with further replies among them, tickit_destroy -- when the replies are truthful the run
     goes through and leaves the terminal in its initial modes with the default rendition *)
  Theorem toplevel_reports_balanced_nokp : forall colon rgb8 cshape alt pre app t s,
    start_ok colon rgb8 cshape t s ->
    wf_hist_r (md_blink (v_md (os_vt s))) (md_shape (v_md (os_vt s))) false false false
              (pre ++ toplevel_ops alt app) ->
    exists t' ts, mode_run t (pre ++ toplevel_ops alt app) = Some (t', ts) /\
      ms_eqb_nokp (ms_of_vt (vt_run ts (os_vt s))) init_ms = true /\
      v_sgr (vt_run ts (os_vt s)) = default_attrs.
  Proof.
    intros colon rgb8 cshape alt pre app t s Hstart Hwf.
    apply (balanced_reports_nokp colon rgb8 cshape); [exact Hstart | exact Hwf |].
    unfold toplevel_ops. rewrite existsb_app. cbn [existsb is_stop orb]. rewrite existsb_app.
    cbn [existsb is_stop orb]. rewrite !orb_true_r. reflexivity.
  Qed.

End WithPenFacts.

(* ---- the full property is false: the application keypad is never switched off *)
Theorem history_refuted : exists ops t s, start_ok false false false t s /\
  exists i w, hist_check true false false false init_ms 0 t s ops = MBadAt i w.
Proof.
  exists [OSet CtlKeypadApp 1; OTeardown], fresh_term, fresh_ostate.
  split; [exact fresh_start_ok|]. exists 1%nat, 6%nat. vm_compute. reflexivity.
Qed.
Theorem getctl_refuted : exists ops t s, start_ok false false false t s /\
  exists i w, hist_check true false false false init_ms 0 t s ops = MBadAt i w.
Proof.
  exists [OSet CtlKeypadApp 1; OGet CtlKeypadApp], fresh_term, fresh_ostate.
  split; [exact fresh_start_ok|]. exists 1%nat, 2%nat. vm_compute. reflexivity.
Qed.

(* why [hist_check] tests the ranges before it runs the model: the model faults (a palette
   index beyond the table in convert_colour) on an out-of-range pen; the walk answers "out of
   range" there, as the oracle does on the implementation's bytes *)
Definition out_of_range_pen : pen := fun a => match a with AFg => Some (VCol 300 None) | _ => None end.
Example out_of_range_pen_model_faults : mode_step fresh_term (OSetpen out_of_range_pen) = None.
Proof. vm_compute. reflexivity. Qed.
Example out_of_range_pen_faults :
  hist_check false false false false init_ms 0 fresh_term fresh_ostate [OSetpen out_of_range_pen] = MOutOfRange 0.
Proof. vm_compute. reflexivity. Qed.
(* an out-of-range operation later in a history: the prefix is checked, then "out of range" *)
Example out_of_range_pen_later :
  hist_check false false false false init_ms 0 fresh_term fresh_ostate
    [OSet CtlCursorvis 0; OChpen out_of_range_pen; OTeardown] = MOutOfRange 1.
Proof. vm_compute. reflexivity. Qed.

(* a concrete history through setupterm, a pen, a pause / resume cycle and teardown *)
Definition sample_history : list mop :=
  [OSetup true;
   OSetpen (fun a => match a with ABold => Some (VBool true) | AFg => Some (VCol 3 None) | _ => None end);
   OPause; OResume; OTeardown].
Example sample_history_ok :
  hist_check false false false false init_ms 0 fresh_term fresh_ostate sample_history = MOk 5.
Proof. vm_compute. reflexivity. Qed.
(* ... and with the keypad compared it fails at the pause (setupterm switched it on) *)
Example sample_history_keypad :
  hist_check true false false false init_ms 0 fresh_term fresh_ostate sample_history = MBadAt 2 4.
Proof. vm_compute. reflexivity. Qed.

(* ---- the terminal answers the start-up probes late: setupterm hides the cursor, THEN the replies
   "cursor visible" (DECRPM 25 ; 1), "not blinking" (DECRPM 12 ; 2) and DECSCUSR 0 are read.  They
   are stale / truthful, the checker accepts them (in range, silent), getctl reads 0 for the cursor
   visibility, pause / resume and teardown are judged against "cursor hidden": all eight pass *)
Definition late_replies_history : list mop :=
  [OSetup true; OReport 25 1; OReport 12 2; ODecscusr 0; OGet CtlCursorvis; OPause; OResume; OTeardown].
Example late_replies_ok :
  hist_check false false false false init_ms 0 fresh_term fresh_ostate late_replies_history = MOk 8.
Proof. vm_compute. reflexivity. Qed.
(* what is judged there: after the stale reply the shadow still says "hidden", and teardown switches
   the cursor back on *)
Example late_replies_shadow :
  match mode_run fresh_term [OSetup true; OReport 25 1] with
  | Some (t', _) => xt_getctl (t_drv t') CtlCursorvis = Some 0 /\ In (dec_mode 25 true) (xt_teardown (t_drv t'))
  | None => False
  end.
Proof. vm_compute. split; [reflexivity|]. right. right. left. reflexivity. Qed.
(* replies before setupterm, the usual order *)
Example early_replies_ok :
  hist_check false false false false init_ms 0 fresh_term fresh_ostate
    [OReport 69 2; OReport 25 1; OReport 12 2; ODecscusr 0; OSetup true; OSet CtlCursorblink 1;
     OSet CtlCursorshape 2; OGet CtlCursorshape; OPause; OResume; OTeardown; ODestroy] = MOk 12.
Proof. vm_compute. reflexivity. Qed.
(* an untruthful reply is out of range, not a failure *)
Example untruthful_reply_out_of_range :
  hist_check false false false false init_ms 0 fresh_term fresh_ostate [OSetup true; OReport 12 1] = MOutOfRange 1.
Proof. vm_compute. reflexivity. Qed.

(* why [start_ok] asks for a zero blink shadow while the blink flag is down (new() zeroes both, and
   the shadow changes only together with the flag going up): from a state with the flag down and the
   shadow up, the truthful reply "not blinking" raises the flag and leaves the shadow at 1, and the
   next setctl(CURSORBLINK, 1) is taken for redundant *)
Definition odd_blink_term : term :=
  mkTerm (mkDrv (mkCaps false false false false) (mkMode false true true 0 0 false) (mkInit false false false false))
         true empty_pen 25 80.
Example odd_blink_start_fails :
  hist_check false false false false init_ms 0 odd_blink_term fresh_ostate
    [OReport 12 2; OSet CtlCursorblink 1] = MBadAt 1 1.
Proof. vm_compute. reflexivity. Qed.

(* the two histories above are well-sequenced with truthful replies ([wf_hist_r]): the premises of
   [history_reports_accepted_nokp] are satisfiable by histories with replies before and after the
   controls are set *)
Example late_replies_wf : wf_hist_r false 0 false false false late_replies_history.
Proof.
  unfold late_replies_history. cbn [wf_hist_r op_in_range reply_ok op_sets is_stop orb ctl_eqb ctl_index Nat.eqb].
  repeat split; try discriminate; try lia; auto.
Qed.
