(* XtermModeProofs.v -- C12: lemmas about the mode shadow, teardown / pause / resume and
   the controls against the VT's mode state. *)
From Coq Require Import ZArith List Bool Lia.
From Tickit Require Import Csi VT TermPenDefs TermPenSpec XtermDefs XtermModeSpec.
Import ListNotations.
Local Open Scope Z_scope.

(* teardown always ends by resetting the rendition *)
Lemma teardown_ends_with_sgr0 : forall d, exists ts, xt_teardown d = ts ++ [csi_0 109].
Proof.
  intro d. unfold xt_teardown.
  eexists. rewrite !app_assoc. reflexivity.
Qed.
