(* LifeLemmas.v -- a small program logic for the state-and-fault monad of LifeDefs.v
   (partial correctness + freedom from faults; running out of fuel satisfies every triple),
   and the basic facts about heaps, child chains and the restack queue. *)
From Coq Require Import ZArith List Bool PArith FMapPositive Lia.
From Tickit Require Import LifeDefs.
Import ListNotations.
Local Open Scope Z_scope.

Definition findw (h : heap) (a : positive) : option wcell := PM.find a (wins h).
Definition findq (h : heap) (a : positive) : option qcell := PM.find a (reqs h).

(* ---- triples ------------------------------------------------------------------------- *)
Definition hoare {A} (P : heap -> Prop) (m : M A) (Q : A -> heap -> Prop) : Prop :=
  forall h, P h -> match m h with Ok a h' => Q a h' | Fault _ _ => False | NoFuel => True end.

Lemma hoare_ret : forall A (a : A) (P : heap -> Prop) (Q : A -> heap -> Prop),
  (forall h, P h -> Q a h) -> hoare P (ret a) Q.
Proof. intros A a P Q H h Hp. cbn. auto. Qed.

Lemma hoare_bind : forall A B (m : M A) (k : A -> M B) P R Q,
  hoare P m R -> (forall a, hoare (R a) (k a) Q) -> hoare P (bind m k) Q.
Proof.
  intros A B m k P R Q Hm Hk h Hp. unfold bind. specialize (Hm h Hp).
  destruct (m h) as [a h'| |]; try contradiction; auto.
  apply (Hk a h' Hm).
Qed.

Lemma hoare_conseq : forall A (m : M A) (P P' : heap -> Prop) (Q Q' : A -> heap -> Prop),
  (forall h, P' h -> P h) -> hoare P m Q -> (forall a h, Q a h -> Q' a h) -> hoare P' m Q'.
Proof.
  intros A m P P' Q Q' Hpre Hm Hpost h Hp. specialize (Hm h (Hpre h Hp)).
  destruct (m h); auto.
Qed.

Lemma hoare_pre : forall A (m : M A) (P P' : heap -> Prop) Q,
  (forall h, P' h -> P h) -> hoare P m Q -> hoare P' m Q.
Proof. intros. eapply hoare_conseq; eauto. Qed.

Lemma hoare_post : forall A (m : M A) P (Q Q' : A -> heap -> Prop),
  hoare P m Q -> (forall a h, Q a h -> Q' a h) -> hoare P m Q'.
Proof. intros. eapply hoare_conseq; eauto. Qed.

Lemma hoare_nofuel : forall A P (Q : A -> heap -> Prop), hoare P nofuel Q.
Proof. intros A P Q h Hp. exact I. Qed.

Lemma hoare_false : forall A (m : M A) (Q : A -> heap -> Prop), hoare (fun _ => False) m Q.
Proof. intros A m Q h []. Qed.

(* a precondition may be case-split / have facts extracted before the command is examined *)
Lemma hoare_ex : forall A (m : M A) (P : heap -> Prop) Q,
  (forall h0, P h0 -> hoare (fun h => h = h0) m Q) -> hoare P m Q.
Proof. intros A m P Q H h Hp. apply (H h Hp h eq_refl). Qed.

Lemma hoare_if : forall A (b : bool) (m1 m2 : M A) P Q,
  (b = true -> hoare P m1 Q) -> (b = false -> hoare P m2 Q) -> hoare P (if b then m1 else m2) Q.
Proof. intros A [] m1 m2 P Q H1 H2; auto. Qed.

(* ---- heap updates ----------------------------------------------------------------------- *)
Definition with_wins (h : heap) (w : PM.t wcell) : heap :=
  mkHeap w (reqs h) (rx h) (nextw h) (nextq h) (dlog h) (uninit_seen h) (tr h).
Definition with_reqs (h : heap) (q : PM.t qcell) : heap :=
  mkHeap (wins h) q (rx h) (nextw h) (nextq h) (dlog h) (uninit_seen h) (tr h).
Definition with_rx (h : heap) (r : rootx) : heap :=
  mkHeap (wins h) (reqs h) r (nextw h) (nextq h) (dlog h) (uninit_seen h) (tr h).

Lemma findw_with_wins_add_same : forall h a c, findw (with_wins h (PM.add a c (wins h))) a = Some c.
Proof. intros. unfold findw, with_wins. cbn. apply PM.gss. Qed.
Lemma findw_with_wins_add_other : forall h a b c, a <> b -> findw (with_wins h (PM.add a c (wins h))) b = findw h b.
Proof. intros. unfold findw, with_wins. cbn. apply PM.gso. congruence. Qed.
Lemma findw_with_wins_remove_same : forall h a, findw (with_wins h (PM.remove a (wins h))) a = None.
Proof. intros. unfold findw, with_wins. cbn. apply PM.grs. Qed.
Lemma findw_with_wins_remove_other : forall h a b, a <> b -> findw (with_wins h (PM.remove a (wins h))) b = findw h b.
Proof. intros. unfold findw, with_wins. cbn. apply PM.gro. congruence. Qed.

(* ---- primitives --------------------------------------------------------------------------- *)
Lemma getw_spec : forall a (P : heap -> Prop) (Q : wcell -> heap -> Prop),
  (forall h, P h -> exists c, findw h a = Some c /\ Q c h) -> hoare P (getw a) Q.
Proof.
  intros a P Q H h Hp. destruct (H h Hp) as [c [Hf Hq]]. unfold getw. unfold findw in Hf. rewrite Hf. exact Hq.
Qed.

Lemma setw_spec : forall a c (P : heap -> Prop) (Q : unit -> heap -> Prop),
  (forall h, P h -> findw h a <> None /\ Q tt (with_wins h (PM.add a c (wins h)))) -> hoare P (setw a c) Q.
Proof.
  intros a c P Q H h Hp. destruct (H h Hp) as [Hf Hq]. unfold setw. unfold findw in Hf.
  destruct (PM.find a (wins h)); [exact Hq | congruence].
Qed.

Lemma upd_spec : forall a f (P : heap -> Prop) (Q : unit -> heap -> Prop),
  (forall h, P h -> exists c, findw h a = Some c /\ Q tt (with_wins h (PM.add a (f c) (wins h)))) ->
  hoare P (upd a f) Q.
Proof.
  intros a f P Q H h Hp. destruct (H h Hp) as [c [Hf Hq]]. unfold upd, bind, getw, setw.
  unfold findw in Hf. rewrite Hf. rewrite Hf. exact Hq.
Qed.

Lemma freew_spec : forall a (P : heap -> Prop) (Q : unit -> heap -> Prop),
  (forall h, P h -> findw h a <> None /\ Q tt (with_wins h (PM.remove a (wins h)))) -> hoare P (freew a) Q.
Proof.
  intros a P Q H h Hp. destruct (H h Hp) as [Hf Hq]. unfold freew. unfold findw in Hf.
  destruct (PM.find a (wins h)); [exact Hq | congruence].
Qed.

Lemma getq_spec : forall a (P : heap -> Prop) (Q : qcell -> heap -> Prop),
  (forall h, P h -> exists c, findq h a = Some c /\ Q c h) -> hoare P (getq a) Q.
Proof.
  intros a P Q H h Hp. destruct (H h Hp) as [c [Hf Hq]]. unfold getq. unfold findq in Hf. rewrite Hf. exact Hq.
Qed.

Lemma setq_spec : forall a c (P : heap -> Prop) (Q : unit -> heap -> Prop),
  (forall h, P h -> findq h a <> None /\ Q tt (with_reqs h (PM.add a c (reqs h)))) -> hoare P (setq a c) Q.
Proof.
  intros a c P Q H h Hp. destruct (H h Hp) as [Hf Hq]. unfold setq. unfold findq in Hf.
  destruct (PM.find a (reqs h)); [exact Hq | congruence].
Qed.

Lemma freeq_spec : forall a (P : heap -> Prop) (Q : unit -> heap -> Prop),
  (forall h, P h -> findq h a <> None /\ Q tt (with_reqs h (PM.remove a (reqs h)))) -> hoare P (freeq a) Q.
Proof.
  intros a P Q H h Hp. destruct (H h Hp) as [Hf Hq]. unfold freeq. unfold findq in Hf.
  destruct (PM.find a (reqs h)); [exact Hq | congruence].
Qed.

Lemma allocq_spec : forall c (P : heap -> Prop) (Q : positive -> heap -> Prop),
  (forall h, P h -> Q (nextq h) (mkHeap (wins h) (PM.add (nextq h) c (reqs h)) (rx h) (nextw h) (Pos.succ (nextq h))
                                        (dlog h) (uninit_seen h) (tr h))) ->
  hoare P (allocq c) Q.
Proof. intros c P Q H h Hp. unfold allocq. apply H. exact Hp. Qed.

Lemma allocw_spec : forall c (P : heap -> Prop) (Q : positive -> heap -> Prop),
  (forall h, P h -> Q (nextw h) (mkHeap (PM.add (nextw h) c (wins h)) (reqs h) (rx h) (Pos.succ (nextw h)) (nextq h)
                                        (dlog h) (uninit_seen h) (tr h))) ->
  hoare P (allocw c) Q.
Proof. intros c P Q H h Hp. unfold allocw. apply H. exact Hp. Qed.

Lemma getr_spec : forall a (P : heap -> Prop) (Q : rootx -> heap -> Prop),
  (forall h, P h -> exists c, findw h a = Some c /\ w_isroot c = true /\ Q (rx h) h) -> hoare P (getr a) Q.
Proof.
  intros a P Q H h Hp. destruct (H h Hp) as [c [Hf [Hr Hq]]]. unfold getr, bind, getw.
  unfold findw in Hf. rewrite Hf. rewrite Hr. exact Hq.
Qed.

Lemma setr_spec : forall a r (P : heap -> Prop) (Q : unit -> heap -> Prop),
  (forall h, P h -> exists c, findw h a = Some c /\ w_isroot c = true /\ Q tt (with_rx h r)) -> hoare P (setr a r) Q.
Proof.
  intros a r P Q H h Hp. destruct (H h Hp) as [c [Hf [Hr Hq]]]. unfold setr, bind, getw.
  unfold findw in Hf. rewrite Hf. rewrite Hr. exact Hq.
Qed.

Lemma updr_spec : forall a f (P : heap -> Prop) (Q : unit -> heap -> Prop),
  (forall h, P h -> exists c, findw h a = Some c /\ w_isroot c = true /\ Q tt (with_rx h (f (rx h)))) ->
  hoare P (updr a f) Q.
Proof.
  intros a f P Q H h Hp. destruct (H h Hp) as [c [Hf [Hr Hq]]]. unfold updr, bind, getr, setr, bind, getw.
  unfold findw in Hf. rewrite Hf. rewrite Hr. rewrite Hf. rewrite Hr. exact Hq.
Qed.

Lemma log_destroy_spec : forall a (P : heap -> Prop) (Q : unit -> heap -> Prop),
  (forall h, P h -> Q tt (mkHeap (wins h) (reqs h) (rx h) (nextw h) (nextq h) (a :: dlog h) (uninit_seen h) (tr h))) ->
  hoare P (log_destroy a) Q.
Proof. intros a P Q H h Hp. unfold log_destroy. apply H. exact Hp. Qed.

Lemma log_op_spec : forall o (P : heap -> Prop) (Q : unit -> heap -> Prop),
  (forall h, P h -> Q tt (mkHeap (wins h) (reqs h) (rx h) (nextw h) (nextq h) (dlog h) (uninit_seen h) (o :: tr h))) ->
  hoare P (log_op o) Q.
Proof. intros o P Q H h Hp. unfold log_op. apply H. exact Hp. Qed.

Lemma deref_spec : forall (p : ptr) (P : heap -> Prop) (Q : positive -> heap -> Prop),
  (forall h, P h -> exists a, p = Some a /\ Q a h) -> hoare P (deref p) Q.
Proof.
  intros p P Q H h Hp. destruct (H h Hp) as [a [Hp' Hq]]. subst p. cbn. exact Hq.
Qed.

(* ---- child chains --------------------------------------------------------------------------- *)
Inductive chain (h : heap) : ptr -> list positive -> Prop :=
| chain_nil : chain h None []
| chain_cons : forall a c l, findw h a = Some c -> chain h (w_next c) l -> chain h (Some a) (a :: l).

Lemma chain_fun : forall h p l1, chain h p l1 -> forall l2, chain h p l2 -> l1 = l2.
Proof.
  intros h p l1 H; induction H as [|a c l Hf Hc IH]; intros l2 H2.
  - inversion H2. reflexivity.
  - inversion H2 as [|a' c' l' Hf' Hc' Ea El]. subst.
    rewrite Hf in Hf'. inversion Hf'; subst c'. f_equal. apply IH. exact Hc'.
Qed.

Lemma chain_live : forall h p l, chain h p l -> forall a, In a l -> findw h a <> None.
Proof.
  intros h p l H; induction H as [|a c l Hf Hc IH]; intros x Hin; inversion Hin; subst.
  - congruence.
  - auto.
Qed.

(* the chain read from an element of a chain is the rest of that chain *)
Lemma chain_split : forall h p l, chain h p l -> forall l1 a l2, l = l1 ++ a :: l2 ->
  exists c, findw h a = Some c /\ chain h (w_next c) l2.
Proof.
  intros h p l H; induction H as [|x c l Hf Hc IH]; intros l1 a l2 Heq.
  - destruct l1; discriminate.
  - destruct l1 as [|y l1]; cbn in Heq; inversion Heq; subst.
    + exists c. auto.
    + eapply IH. reflexivity.
Qed.

Lemma chain_NoDup : forall h p l, chain h p l -> NoDup l.
Proof.
  intros h p l H; induction H as [|a c l Hf Hc IH]; constructor; auto.
  intro Hin. apply in_split in Hin. destruct Hin as [l1 [l2 Heq]].
  destruct (chain_split h _ _ Hc l1 a l2 Heq) as [c' [Hf' Hc']].
  rewrite Hf in Hf'. inversion Hf'; subst c'.
  assert (E : l = l2) by (eapply chain_fun; eauto).
  rewrite E in Heq. apply (f_equal (@length positive)) in Heq. rewrite app_length in Heq. cbn in Heq. lia.
Qed.

(* a chain only depends on the [next] fields of its own elements *)
Lemma chain_ext : forall h h' p l, chain h p l ->
  (forall a, In a l -> exists c c', findw h a = Some c /\ findw h' a = Some c' /\ w_next c' = w_next c) ->
  chain h' p l.
Proof.
  intros h h' p l H; induction H as [|a c l Hf Hc IH]; intros Hext.
  - constructor.
  - destruct (Hext a (or_introl eq_refl)) as [c1 [c' [H1 [H2 H3]]]].
    rewrite Hf in H1. inversion H1; subst c1.
    econstructor; eauto. rewrite H3. apply IH. intros x Hx. apply Hext. right. exact Hx.
Qed.

Lemma chain_app : forall h p l1 a l2, chain h p (l1 ++ a :: l2) ->
  exists c, findw h a = Some c /\ chain h (w_next c) l2.
Proof. intros. eapply chain_split; eauto. Qed.

(* ---- the restack queue ------------------------------------------------------------------------ *)
Inductive qchain (h : heap) : ptr -> list positive -> Prop :=
| qchain_nil : qchain h None []
| qchain_cons : forall a c l, findq h a = Some c -> qchain h (q_next c) l -> qchain h (Some a) (a :: l).

Lemma qchain_fun : forall h p l1, qchain h p l1 -> forall l2, qchain h p l2 -> l1 = l2.
Proof.
  intros h p l1 H; induction H as [|a c l Hf Hc IH]; intros l2 H2.
  - inversion H2. reflexivity.
  - inversion H2 as [|a' c' l' Hf' Hc' Ea El]. subst.
    rewrite Hf in Hf'. inversion Hf'; subst c'. f_equal. apply IH. exact Hc'.
Qed.

Lemma qchain_split : forall h p l, qchain h p l -> forall l1 a l2, l = l1 ++ a :: l2 ->
  exists c, findq h a = Some c /\ qchain h (q_next c) l2.
Proof.
  intros h p l H; induction H as [|x c l Hf Hc IH]; intros l1 a l2 Heq.
  - destruct l1; discriminate.
  - destruct l1 as [|y l1]; cbn in Heq; inversion Heq; subst.
    + exists c. auto.
    + eapply IH. reflexivity.
Qed.

Lemma qchain_NoDup : forall h p l, qchain h p l -> NoDup l.
Proof.
  intros h p l H; induction H as [|a c l Hf Hc IH]; constructor; auto.
  intro Hin. apply in_split in Hin. destruct Hin as [l1 [l2 Heq]].
  destruct (qchain_split h _ _ Hc l1 a l2 Heq) as [c' [Hf' Hc']].
  rewrite Hf in Hf'. inversion Hf'; subst c'.
  assert (E : l = l2) by (eapply qchain_fun; eauto).
  rewrite E in Heq. apply (f_equal (@length positive)) in Heq. rewrite app_length in Heq. cbn in Heq. lia.
Qed.

Lemma qchain_ext : forall h h' p l, qchain h p l ->
  (forall a, In a l -> exists c c', findq h a = Some c /\ findq h' a = Some c' /\ q_next c' = q_next c) ->
  qchain h' p l.
Proof.
  intros h h' p l H; induction H as [|a c l Hf Hc IH]; intros Hext.
  - constructor.
  - destruct (Hext a (or_introl eq_refl)) as [c1 [c' [H1 [H2 H3]]]].
    rewrite Hf in H1. inversion H1; subst c1.
    econstructor; eauto. rewrite H3. apply IH. intros x Hx. apply Hext. right. exact Hx.
Qed.

(* ---- ancestors ----------------------------------------------------------------------------------- *)
(* [anc h a b]: b is a itself or is reached from a by following parent pointers through live windows *)
Inductive anc (h : heap) : positive -> positive -> Prop :=
| anc_refl : forall a c, findw h a = Some c -> anc h a a
| anc_step : forall a c p b, findw h a = Some c -> w_parent c = Some p -> anc h p b -> anc h a b.

Lemma anc_live_l : forall h a b, anc h a b -> findw h a <> None.
Proof. intros h a b H; inversion H; congruence. Qed.

Lemma anc_live_r : forall h a b, anc h a b -> findw h b <> None.
Proof. intros h a b H; induction H; auto; congruence. Qed.

Lemma anc_trans : forall h a b, anc h a b -> forall c, anc h b c -> anc h a c.
Proof. intros h a b H; induction H; intros; auto. econstructor; eauto. Qed.

Lemma ptr_eqb_eq : forall a b, ptr_eqb a b = true <-> a = b.
Proof.
  intros [a|] [b|]; cbn; split; intro H; try discriminate; auto.
  - apply Pos.eqb_eq in H. congruence.
  - inversion H. apply Pos.eqb_refl.
Qed.
Lemma ptr_eqb_neq : forall a b, ptr_eqb a b = false <-> a <> b.
Proof.
  intros a b. split; intro H.
  - intro E. apply ptr_eqb_eq in E. congruence.
  - destruct (ptr_eqb a b) eqn:E; auto. apply ptr_eqb_eq in E. contradiction.
Qed.
