(* LifeProofs.v -- every API call of an event-free script keeps the heap invariant and does not
   fault, provided the windows it is given are allocated (and, for the calls on which the
   library aborts in a detached tree, attached to the root); whole scripts by induction. *)
From Coq Require Import ZArith List Bool PArith FMapPositive Lia.
From Tickit Require Import LifeDefs LifeLemmas LifeChains LifeInv LifePure LifeWalks LifeRelink LifeRemove LifeClose
  LifeQueue LifeDestroy LifeAttach LifeOps LifeFlush.
Import ListNotations.
Local Open Scope Z_scope.

Definition event_free_op (o : op) : bool :=
  match o with OKey | OMouse _ => false | _ => true end.

(* what a call needs of the heap it is made on *)
Definition op_pre (h : heap) (o : op) : Prop :=
  match o with
  | ONew p _ _ _ _ => findw h p <> None
  | ORef w | OUnref w | OClose w | OSteal w _ | OBind w _ _ _ _ | OShow w | OHide w | OExpose w => findw h w <> None
  | ORestack c w => is_restack c = true /\ exists cw, findw h w = Some cw /\ (w_parent cw = None \/ anc h w root)
  | OFocus w | OGetRoot w => anc h w root
  | OFlush w => w = root /\ findw h root <> None
  | OKey | OMouse _ => False
  | ONop => True
  end.

Lemma run_op_S : forall V f o,
  run_op V (S f) o =
  ((match o with ONop => ret tt | _ => log_op o end) ;;;
   match o with
   | ONew p hid low rp st => window_new f p hid low rp st ;;; ret tt
   | ORef w => window_ref w
   | OUnref w => unref V f w
   | OClose w => close V f w
   | ORestack ch w => request_change f ch w
   | OShow w => window_show f w
   | OHide w => window_hide f w
   | OFocus w => focus_gained f w None
   | OSteal w b => upd w (fun c => set_steal c b)
   | OExpose w => expose f w
   | OGetRoot w => get_root f w ;;; ret tt
   | OFlush w => window_flush f w
   | OKey => b <- root_bound ;; if b then handle_key V f 1%positive ;;; ret tt else ret tt
   | OMouse t => b <- root_bound ;; if b then on_term_mouse V f t else ret tt
   | OBind w k m r acts => upd w (fun c => set_hs c (w_hs c ++ [mkH k m r acts]))
   | ONop => ret tt
   end).
Proof. reflexivity. Qed.

Lemma hinv_log : forall D h o,
  hinv D h -> hinv D (mkHeap (wins h) (reqs h) (rx h) (nextw h) (nextq h) (dlog h) (uninit_seen h) (o :: tr h)).
Proof.
  intros D h o HI. eapply hinv_same; eauto.
Qed.

Lemma detached_nil : forall h, detached h [].
Proof. intros h a []. Qed.

Theorem run_op_ok : forall fuel o h,
  hinv [] h -> event_free_op o = true -> op_pre h o ->
  match run_op fixed fuel o h with
  | Ok _ h' => hinv [] h'
  | Fault _ _ => False
  | NoFuel => True
  end.
Proof.
  intros fuel o h HI Hef Hpre. destruct fuel as [|f]; [cbn; exact I|].
  rewrite run_op_S. unfold bind at 1.
  (* the call is logged first *)
  assert (Hlog : exists h1, (match o with ONop => ret tt | _ => log_op o end) h = Ok tt h1 /\ hinv [] h1 /\
                            (forall a, findw h1 a = findw h a) /\ (forall x b, anc h x b -> anc h1 x b)).
  { destruct o; try (eexists; split; [reflexivity|]; split; [apply hinv_log; exact HI|]; split; [reflexivity|];
                     intros x0 y0 Ha; eapply anc_same_wins; [|exact Ha]; reflexivity).
    exists h. split; [reflexivity|]. auto. }
  destruct Hlog as [h1 [Hrun [HI1 [Fw1 Hanc1]]]]. rewrite Hrun.
  destruct o; cbn in Hpre, Hef; try discriminate.
  - (* ONew *)
    unfold bind at 1. rewrite <- Fw1 in Hpre.
    pose proof (window_new_spec [] f p hidden lowest rootparent steal h1 HI1 Hpre h1 eq_refl) as Hn.
    destruct (window_new f p hidden lowest rootparent steal h1) as [w h2| |]; [|contradiction|exact I].
    cbn. tauto.
  - (* ORef *)
    rewrite <- Fw1 in Hpre. unfold window_ref.
    pose proof (upd_links_spec [] w (fun c => set_ref c (w_ref c + 1)) h1 HI1 Hpre) as Hu.
    assert (Hf : forall c, same_links c (set_ref c (w_ref c + 1)) /\ w_ref c <= w_ref (set_ref c (w_ref c + 1))).
    { intro c. split; [repeat split|cbn; lia]. }
    specialize (Hu Hf h1 eq_refl). destruct (upd w _ h1); tauto.
  - (* OUnref *)
    rewrite <- Fw1 in Hpre. destruct (life_ok f) as [Hun _].
    pose proof (Hun [] h1 w HI1 (detached_nil h1) Hpre (fun x => x) h1 eq_refl) as Hu.
    destruct (unref fixed f w h1); tauto.
  - (* OClose *)
    rewrite <- Fw1 in Hpre. destruct (live_some h1 w Hpre) as [cw Hw].
    pose proof (close_spec [] f w cw h1 HI1 Hw h1 eq_refl) as Hc.
    destruct (close fixed f w h1); tauto.
  - (* ORestack *)
    destruct Hpre as [Hrs [cw [Hw Hat]]]. rewrite <- Fw1 in Hw.
    assert (Hat1 : w_parent cw = None \/ anc h1 w root) by (destruct Hat; auto).
    pose proof (request_change_spec [] f c w cw h1 HI1 Hw Hat1 Hrs h1 eq_refl) as Hr.
    destruct (request_change f c w h1); tauto.
  - (* OShow *)
    rewrite <- Fw1 in Hpre. pose proof (window_show_spec [] f w h1 HI1 Hpre h1 eq_refl) as Hs.
    destruct (window_show f w h1); tauto.
  - (* OHide *)
    rewrite <- Fw1 in Hpre. pose proof (window_hide_spec [] f w h1 HI1 Hpre h1 eq_refl) as Hs.
    destruct (window_hide f w h1); tauto.
  - (* OFocus *)
    pose proof (focus_gained_spec f w None h1 HI1 (Hanc1 _ _ Hpre)) as Hfg.
    assert (Hch : forall ch, None = Some ch -> exists cch, findw h1 ch = Some cch /\ w_parent cch = Some w) by (intros ch Ec; discriminate).
    specialize (Hfg Hch h1 eq_refl). destruct (focus_gained f w None h1); tauto.
  - (* OSteal *)
    rewrite <- Fw1 in Hpre.
    pose proof (upd_links_spec [] w (fun c => set_steal c b) h1 HI1 Hpre) as Hu.
    assert (Hf : forall c, same_links c (set_steal c b) /\ w_ref c <= w_ref (set_steal c b)).
    { intro c. split; [repeat split|cbn; lia]. }
    specialize (Hu Hf h1 eq_refl). destruct (upd w _ h1); tauto.
  - (* OExpose *)
    rewrite <- Fw1 in Hpre. pose proof (expose_spec [] f w h1 h1 (conj eq_refl (conj HI1 Hpre))) as He.
    destruct (expose f w h1) as [u h2| |]; [|contradiction|exact I]. eapply hinv_rx_only; eauto.
  - (* OGetRoot *)
    unfold bind at 1. pose proof (get_root_spec [] f w h1 (conj HI1 (Hanc1 _ _ Hpre))) as Hg.
    destruct (get_root f w h1) as [r h2| |]; [|contradiction|exact I]. destruct Hg as [Eh _]. subst h2. cbn. exact HI1.
  - (* OFlush *)
    destruct Hpre as [Ew Hl]. subst w.
    assert (Hl1 : findw h1 root <> None) by (rewrite Fw1; exact Hl).
    pose proof (window_flush_spec f h1 HI1 Hl1 h1 eq_refl) as Hfl.
    destruct (window_flush f root h1); tauto.
  - (* OBind *)
    rewrite <- Fw1 in Hpre.
    pose proof (upd_links_spec [] w (fun c => set_hs c (w_hs c ++ [mkH key mask ret actions])) h1 HI1 Hpre) as Hu.
    assert (Hf : forall c, same_links c (set_hs c (w_hs c ++ [mkH key mask ret actions])) /\
                           w_ref c <= w_ref (set_hs c (w_hs c ++ [mkH key mask ret actions]))).
    { intro c. split; [repeat split|cbn; lia]. }
    specialize (Hu Hf h1 eq_refl). destruct (upd w _ h1); tauto.
  - (* ONop *)
    cbn. exact HI1.
Qed.
