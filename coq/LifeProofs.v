(* LifeProofs.v -- every API call of an event-free script keeps the heap invariant and does not
   fault, provided the windows it is given are allocated (and, for the calls on which the
   library aborts in a detached tree, attached to the root); whole scripts by induction. *)
From Coq Require Import ZArith List Bool PArith FMapPositive Lia.
From Tickit Require Import LifeDefs LifeLemmas LifeChains LifeInv LifePure LifeWalks LifeRelink LifeRemove LifeClose
  LifeQueue LifeDestroy LifeAttach LifeOps LifeFlush LifeUnfold.
Import ListNotations.
Local Open Scope Z_scope.

(* the calls that dispatch no event (take_focus, flush, set_geometry, reposition run FOCUS / EXPOSE / GEOMCHANGE
   handlers: they belong to LifeEvents.v) *)
Definition event_free_op (o : op) : bool :=
  match o with
  | OKey | OMouse _ | OResize | OFrameRef _ | OFrameUnref _ | OFocus _ | OFlush _ | OGeom _ | OMove _ => false
  | _ => true
  end.

(* what a call needs of the heap it is made on *)
Definition op_pre (h : heap) (o : op) : Prop :=
  match o with
  | ONew p _ _ _ _ => findw h p <> None
  | ORef w | OUnref w | OClose w | OSteal w _ | ONotify w _ | OBind w _ _ _ _ _ | OUnbind w _ | OShow w | OHide w | OExpose w => findw h w <> None
  | ORestack c w => is_restack c = true /\ exists cw, findw h w = Some cw /\ (w_parent cw = None \/ anc h w root)
  | OGetRoot w => anc h w root
  | OTouch w j walk => findw h w <> None /\ (forall a, j = Some a -> findw h a <> None) /\ (walk = true -> anc h w root)
  | OKey | OMouse _ | OResize | OFrameRef _ | OFrameUnref _ | OFocus _ | OFlush _ | OGeom _ | OMove _ => False
  | ONop => True
  end.

Lemma hinv_log : forall D h o,
  hinv D h -> hinv D (mkHeap (wins h) (reqs h) (rx h) (nextw h) (nextq h) (dlog h) (uninit_seen h) (o :: tr h)).
Proof.
  intros D h o HI. eapply hinv_same; eauto.
Qed.

Lemma detached_nil : forall h, detached h [].
Proof. intros h a []. Qed.

Theorem run_op_ok : forall fuel o h,
  hinv [] h -> event_free_op o = true -> op_pre h o ->
  match run_op fixed fuel o h with
  | Ok _ h' => hinv [] h'
  | Fault _ _ => False
  | NoFuel => True
  end.
Proof.
  intros fuel o h HI Hef Hpre. destruct fuel as [|f]; [cbn; exact I|].
  rewrite run_op_F. unfold bind at 1.
  (* the call is logged first *)
  assert (Hlog : exists h1, (match o with ONop | OFrameRef _ | OFrameUnref _ => ret tt | _ => log_op o end) h = Ok tt h1 /\ hinv [] h1 /\
                            (forall a, findw h1 a = findw h a) /\ (forall x b, anc h x b -> anc h1 x b)).
  { destruct o; try (eexists; split; [reflexivity|]; split; [apply hinv_log; exact HI|]; split; [reflexivity|];
                     intros x0 y0 Ha; eapply anc_same_wins; [|exact Ha]; reflexivity).
    all: (exists h; split; [reflexivity|]; auto). }
  destruct Hlog as [h1 [Hrun [HI1 [Fw1 Hanc1]]]]. rewrite Hrun.
  destruct o; cbn in Hpre, Hef; try discriminate.
  - (* ONew *)
    unfold bind at 1. rewrite <- Fw1 in Hpre.
    pose proof (window_new_spec [] f p hidden lowest rootparent steal h1 HI1 Hpre h1 eq_refl) as Hn.
    destruct (window_new f p hidden lowest rootparent steal h1) as [w h2| |]; [|contradiction|exact I].
    cbn. tauto.
  - (* ORef *)
    rewrite <- Fw1 in Hpre. unfold window_ref.
    pose proof (upd_links_spec [] w (fun c => set_ref c (w_ref c + 1)) h1 HI1 Hpre) as Hu.
    assert (Hf : forall c, same_links c (set_ref c (w_ref c + 1)) /\ w_ref c <= w_ref (set_ref c (w_ref c + 1))).
    { intro c. split; [repeat split|cbn; lia]. }
    specialize (Hu Hf h1 eq_refl). destruct (upd w _ h1); tauto.
  - (* OUnref *)
    rewrite <- Fw1 in Hpre. destruct (life_ok f) as [Hun _].
    pose proof (Hun [] h1 w HI1 (detached_nil h1) Hpre (fun x => x) (fun _ _ _ (x : In root []) => x) h1 eq_refl) as Hu.
    destruct (unref fixed f w h1); tauto.
  - (* OClose *)
    rewrite <- Fw1 in Hpre. destruct (live_some h1 w Hpre) as [cw Hw].
    pose proof (close_spec [] f w cw h1 HI1 Hw (fun _ (x : In root []) => x) h1 eq_refl) as Hc.
    destruct (close fixed f w h1); tauto.
  - (* ORestack *)
    destruct Hpre as [Hrs [cw [Hw Hat]]]. rewrite <- Fw1 in Hw.
    assert (Hat1 : w_parent cw = None \/ anc h1 w root) by (destruct Hat; auto).
    pose proof (request_change_spec [] f c w cw h1 HI1 Hw Hat1 Hrs h1 eq_refl) as Hr.
    destruct (request_change f c w h1); tauto.
  - (* OShow *)
    rewrite <- Fw1 in Hpre. pose proof (window_show_spec [] f w h1 HI1 Hpre h1 eq_refl) as Hs.
    destruct (window_show f w h1); tauto.
  - (* OHide *)
    rewrite <- Fw1 in Hpre. pose proof (window_hide_spec [] f w h1 HI1 Hpre h1 eq_refl) as Hs.
    destruct (window_hide f w h1); tauto.
  - (* OSteal *)
    rewrite <- Fw1 in Hpre.
    pose proof (upd_links_spec [] w (fun c => set_steal c b) h1 HI1 Hpre) as Hu.
    assert (Hf : forall c, same_links c (set_steal c b) /\ w_ref c <= w_ref (set_steal c b)).
    { intro c. split; [repeat split|cbn; lia]. }
    specialize (Hu Hf h1 eq_refl). destruct (upd w _ h1); tauto.
  - (* OExpose *)
    rewrite <- Fw1 in Hpre. pose proof (expose_spec [] f w h1 h1 (conj eq_refl (conj HI1 Hpre))) as He.
    destruct (expose f w h1) as [u h2| |]; [|contradiction|exact I]. eapply hinv_rx_only; eauto.
  - (* OGetRoot *)
    unfold bind at 1. pose proof (get_root_spec [] f w h1 (conj HI1 (Hanc1 _ _ Hpre))) as Hg.
    destruct (get_root f w h1) as [r h2| |]; [|contradiction|exact I]. destruct Hg as [Eh _]. subst h2. cbn. exact HI1.
  - (* OBind *)
    rewrite <- Fw1 in Hpre.
    pose proof (upd_links_spec [] w (fun c => set_hs c (w_hs c ++ [mkH id kind mask ret actions])) h1 HI1 Hpre) as Hu.
    assert (Hf : forall c, same_links c (set_hs c (w_hs c ++ [mkH id kind mask ret actions])) /\
                           w_ref c <= w_ref (set_hs c (w_hs c ++ [mkH id kind mask ret actions]))).
    { intro c. split; [repeat split|cbn; lia]. }
    specialize (Hu Hf h1 eq_refl). destruct (upd w _ h1); tauto.
  - (* OUnbind *)
    rewrite <- Fw1 in Hpre.
    pose proof (upd_links_spec [] w (fun c => set_hs c (filter (fun hd => negb (h_id hd =? id)) (w_hs c))) h1 HI1 Hpre) as Hu.
    assert (Hf : forall c, same_links c (set_hs c (filter (fun hd => negb (h_id hd =? id)) (w_hs c))) /\
                           w_ref c <= w_ref (set_hs c (filter (fun hd => negb (h_id hd =? id)) (w_hs c)))).
    { intro c. split; [repeat split|cbn; lia]. }
    specialize (Hu Hf h1 eq_refl). destruct (upd w _ h1); tauto.
  - (* OTouch *)
    destruct Hpre as [Hpw [Hpj Hpa]]. rewrite <- Fw1 in Hpw. destruct (live_some h1 w Hpw) as [cw Hw].
    unfold bind at 1. rewrite (getw_run h1 w cw Hw). unfold bind at 1.
    assert (Hj : (match j with Some a => getw a ;;; ret tt | None => ret tt end) h1 = Ok tt h1).
    { destruct j as [a|]; [|reflexivity]. pose proof (Hpj a eq_refl) as Hla. rewrite <- Fw1 in Hla.
      destruct (live_some h1 a Hla) as [ca Ha]. unfold bind. rewrite (getw_run h1 a ca Ha). reflexivity. }
    rewrite Hj. destruct walk; [|cbn; exact HI1].
    pose proof (scrollrect_spec [] f w h1 h1 (conj eq_refl (conj HI1 (Hanc1 _ _ (Hpa eq_refl))))) as Hs.
    destruct (scrollrect f w h1) as [u h2| |]; [|contradiction|exact I]. eapply hinv_rx_only; eauto.
  - (* ONotify *)
    rewrite <- Fw1 in Hpre.
    pose proof (upd_links_spec [] w (fun c => set_fcn c b) h1 HI1 Hpre) as Hu.
    assert (Hf : forall c, same_links c (set_fcn c b) /\ w_ref c <= w_ref (set_fcn c b)).
    { intro c. split; [repeat split|cbn; lia]. }
    specialize (Hu Hf h1 eq_refl). destruct (upd w _ h1); tauto.
  - (* ONop *)
    cbn. exact HI1.
Qed.

(* ---- whole scripts -------------------------------------------------------------------------------------------- *)
(* the client's side of the contract, checked call by call on the heap the model has reached *)
Fixpoint client_ok (fuel : nat) (l : list op) (h : heap) : Prop :=
  match l with
  | [] => True
  | o :: l' =>
    event_free_op o = true /\ op_pre h o /\
    match run_op fixed fuel o h with
    | Ok _ h' => client_ok fuel l' h'
    | _ => True
    end
  end.

Lemma run_script_from_ok : forall fuel l k h,
  hinv [] h -> client_ok fuel l h ->
  match run_script_from fixed fuel l k h with
  | VOk h' => hinv [] h'
  | VFault _ _ _ => False
  | VNoFuel _ => True
  end.
Proof.
  intros fuel l. induction l as [|o l IH]; intros k h HI Hok; cbn; [exact HI|].
  destruct Hok as [Hef [Hpre Hrest]].
  pose proof (run_op_ok fuel o h HI Hef Hpre) as Hop.
  destruct (run_op fixed fuel o h) as [u h'| |]; [|contradiction|exact I].
  apply IH; auto.
Qed.

(* the state after tickit_window_new_root *)
Lemma hinv_heap0 : hinv [] (heap0 fixed).
Proof.
  assert (Fw : forall a, findw (heap0 fixed) a = if Pos.eqb a root then Some root_cell else None).
  { intro a. unfold findw, heap0. cbn [wins]. destruct (Pos.eqb a root) eqn:E.
    - apply Pos.eqb_eq in E. subst a. apply PM.gss.
    - apply Pos.eqb_neq in E. rewrite PM.gso by exact E. apply PM.gempty. }
  assert (Fone : forall a c, findw (heap0 fixed) a = Some c -> a = root /\ c = root_cell).
  { intros a c Hf. rewrite Fw in Hf. destruct (Pos.eqb a root) eqn:E; [|discriminate].
    apply Pos.eqb_eq in E. inversion Hf. auto. }
  assert (Fq : forall q, findq (heap0 fixed) q = None) by (intro q; unfold findq, heap0; cbn [reqs]; apply PM.gempty).
  constructor.
  - intros a c Hf. destruct (Fone a c Hf) as [Ea Ec]. subst. exists []. split; [constructor|].
    intro k. split; [intros []|]. intros [ck [H1 H2]]. destruct (Fone k ck H1) as [_ Ec]. subst ck. discriminate.
  - intros k ck p Hf Hp. destruct (Fone k ck Hf) as [_ Ec]. subst ck. discriminate.
  - intros k ck p Hf Hp. destruct (Fone k ck Hf) as [_ Ec]. subst ck. discriminate.
  - intros a c Hf _. destruct (Fone a c Hf) as [_ Ec]. subst c. reflexivity.
  - intros a c f Hf _ Hfo. destruct (Fone a c Hf) as [_ Ec]. subst c. discriminate.
  - intros a c Hf _. destruct (Fone a c Hf) as [_ Ec]. subst c. cbn. lia.
  - intros a c Hf Hc. destruct (Fone a c Hf) as [_ Ec]. subst c. discriminate.
  - intros a c Hf. destruct (Fone a c Hf) as [Ea Ec]. subst. reflexivity.
  - intros c Hf. destruct (Fone root c Hf) as [_ Ec]. subst c. reflexivity.
  - exists []. split; [constructor|]. split.
    + intro q. split; [intros []|]. intro H. rewrite Fq in H. congruence.
    + intros q cq Hq. rewrite Fq in Hq. discriminate.
  - intros q cq Hq. rewrite Fq in Hq. discriminate.
  - exists None. split; [reflexivity|]. intros d Ed. discriminate.
  - intros a Ha. rewrite Fw in Ha. destruct (Pos.eqb a root) eqn:E; [|congruence].
    apply Pos.eqb_eq in E. subst a. unfold root. cbn. lia.
  - unfold root. cbn. lia.
  - intros q Hq. rewrite Fq in Hq. congruence.
Qed.

(* No event-free history of calls on allocated windows makes the model fault; any length, any fuel. *)
Theorem no_fault : forall fuel l,
  client_ok fuel l (heap0 fixed) ->
  forall f k hf, run_script fixed fuel l <> VFault f k hf.
Proof.
  intros fuel l Hok f k hf Hrun. unfold run_script in Hrun.
  pose proof (run_script_from_ok fuel l O (heap0 fixed) hinv_heap0 Hok) as H.
  rewrite Hrun in H. exact H.
Qed.

(* ---- nothing is allocated without being referenced --------------------------------------------------------------- *)
Lemma pm_is_empty_iff : forall A (m : PM.t A), PM.is_empty m = true <-> (forall a, PM.find a m = None).
Proof.
  intros A m. split.
  - intros He a. apply PM.is_empty_2 in He. destruct (PM.find a m) as [e|] eqn:Hf; auto.
    exfalso. apply (He a e). exact Hf.
  - intro Hn. apply PM.is_empty_1. intros a e Hm. unfold PM.MapsTo in Hm. rewrite Hn in Hm. discriminate.
Qed.

Theorem all_released : forall h,
  hinv [] h -> (forall a c, findw h a = Some c -> w_ref c < 1) -> heap_empty h = true.
Proof.
  intros h HI Hdropped.
  assert (Hnow : forall a, findw h a = None).
  { intro a. destruct (findw h a) as [c|] eqn:Hf; auto.
    pose proof (hi_ref [] h HI a c Hf (fun x => x)). pose proof (Hdropped a c Hf). lia. }
  unfold heap_empty. apply andb_true_intro. split.
  - apply pm_is_empty_iff. exact Hnow.
  - apply pm_is_empty_iff. intro q. destruct (PM.find q (reqs h)) as [cq|] eqn:Hq; auto.
    destruct (hi_queue [] h HI) as [ql [_ [_ Hq3]]].
    destruct (Hq3 q cq Hq) as [x [p [cx [_ [_ [G3 _]]]]]]. rewrite Hnow in G3. discriminate.
Qed.

Theorem script_all_released : forall fuel l h,
  client_ok fuel l (heap0 fixed) -> run_script fixed fuel l = VOk h ->
  (forall a c, findw h a = Some c -> w_ref c < 1) -> heap_empty h = true.
Proof.
  intros fuel l h Hok Hrun Hd. apply all_released; auto.
  pose proof (run_script_from_ok fuel l O (heap0 fixed) hinv_heap0 Hok) as H.
  unfold run_script in Hrun. rewrite Hrun in H. exact H.
Qed.

(* ---- copy-out: the repaired get_span_text never writes beyond the buffer ------------------------------------------- *)
Lemma buf_set_some : forall b i v, (i < length b)%nat -> exists b', buf_set b i v = Some b' /\ length b' = length b.
Proof.
  induction b as [|x b IH]; intros i v Hi; cbn in *; [lia|].
  destruct i as [|i].
  - eexists. split; reflexivity.
  - destruct (IH i v) as [b' [Hb Hl]]; [lia|]. rewrite Hb. eexists. split; [reflexivity|]. cbn. lia.
Qed.

Lemma buf_copy_some : forall src b off, (off + length src <= length b)%nat ->
  exists b', buf_copy b off src = Some b' /\ length b' = length b.
Proof.
  induction src as [|x src IH]; intros b off Hle; cbn in *.
  - eexists. split; reflexivity.
  - destruct (buf_set_some b off x) as [b1 [H1 L1]]; [lia|]. rewrite H1.
    destruct (IH b1 (S off)) as [b2 [H2 L2]]; [lia|]. exists b2. split; auto. lia.
Qed.

Theorem copy_bounded : forall k b,
  exists r b', get_span_text false k b = Some (r, b') /\ length b' = length b.
Proof.
  intros k b. unfold get_span_text. destruct k as [slice|g|].
  - destruct (Z.of_nat (length b) <? Z.of_nat (length slice)) eqn:E1; [eauto|].
    apply Z.ltb_ge in E1.
    destruct (buf_copy_some slice b O) as [b1 [H1 L1]]; [lia|]. rewrite H1.
    destruct (Z.of_nat (length slice) <? Z.of_nat (length b)) eqn:E2; [|eauto].
    apply Z.ltb_lt in E2.
    destruct (buf_set_some b1 (length slice) 0) as [b2 [H2 L2]]; [lia|]. rewrite H2. exists (Z.of_nat (length slice)), b2. split; auto. lia.
  - destruct (Z.of_nat (length b) <? Z.of_nat (length g)) eqn:E1; [eauto|].
    apply Z.ltb_ge in E1.
    destruct (buf_copy_some g b O) as [b1 [H1 L1]]; [lia|]. rewrite H1.
    destruct (Z.of_nat (length g) <? Z.of_nat (length b)) eqn:E2; [|eauto].
    apply Z.ltb_lt in E2.
    destruct (buf_set_some b1 (length g) 0) as [b2 [H2 L2]]; [lia|]. rewrite H2. exists (Z.of_nat (length g)), b2. split; auto. lia.
  - destruct (0 <? Z.of_nat (length b)) eqn:E1; [|eauto].
    apply Z.ltb_lt in E1.
    destruct (buf_set_some b O 0) as [b1 [H1 L1]]; [lia|]. rewrite H1. eauto.
Qed.

(* the mock terminal's query outside the trigger class of the recorded finding *)
Lemma mock_get_text_bounded : forall cells b active off rem acc,
  (active = true -> (Z.of_nat off + rem = Z.of_nat (length b))) -> 0 <= rem ->
  mock_trigger cells rem = false \/ active = false ->
  exists r b', mock_get_text cells b active off rem acc = Some (r, b') /\ length b' = length b.
Proof.
  induction cells as [|cell cells IH]; intros b active off rem acc Hlen Hrem Htrig; cbn.
  - eauto.
  - destruct active.
    + destruct Htrig as [Htrig|Htrig]; [|discriminate]. cbn in Htrig. cbn [andb].
      destruct (negb (Z.of_nat (length cell) =? 0) && (Z.of_nat (length cell) <=? rem)) eqn:E.
      * apply orb_false_elim in Htrig. destruct Htrig as [Hne Htrig].
        apply andb_prop in E. destruct E as [_ Ele]. apply Z.leb_le in Ele. apply Z.eqb_neq in Hne.
        specialize (Hlen eq_refl).
        destruct (buf_copy_some (cell ++ [0]) b off) as [b1 [H1 L1]].
        { rewrite app_length. cbn. lia. }
        rewrite H1.
        assert (Hpos : (rem - Z.of_nat (length cell) <=? 0) = false) by (apply Z.leb_gt; lia).
        rewrite Hpos. cbn [negb].
        destruct (IH b1 true (off + length cell)%nat (rem - Z.of_nat (length cell)) (acc + Z.of_nat (length cell))) as [r [b2 [H2 L2]]].
        -- intros _. rewrite L1. rewrite Nat2Z.inj_add. lia.
        -- lia.
        -- left. exact Htrig.
        -- exists r, b2. split; [exact H2|]. rewrite L2. exact L1.
      * apply (IH b true off rem); auto.
    + cbn [andb]. apply (IH b false off rem); auto.
Qed.

Theorem mock_copy_bounded_partial : forall cells b,
  mock_trigger cells (Z.of_nat (length b)) = false ->
  exists r b', mock_display_text cells b = Some (r, b') /\ length b' = length b.
Proof.
  intros cells b Htrig. unfold mock_display_text.
  apply mock_get_text_bounded; auto; lia.
Qed.

(* ---- the client's side as a boolean, so that it can be evaluated (and cross-checked) on every case ------------------- *)
Fixpoint intreeb (fuel : nat) (h : heap) (w : positive) : bool :=
  match fuel with
  | O => false
  | S f =>
    match PM.find w (wins h) with
    | None => false
    | Some c => if Pos.eqb w root then true
                else match w_parent c with Some p => intreeb f h p | None => false end
    end
  end.

Lemma intreeb_anc : forall fuel h w, intreeb fuel h w = true -> anc h w root.
Proof.
  induction fuel as [|f IH]; intros h w H; cbn [intreeb] in H; [discriminate|].
  destruct (PM.find w (wins h)) as [c|] eqn:Hf; [|discriminate].
  destruct (Pos.eqb w root) eqn:E.
  - apply Pos.eqb_eq in E. subst w. eapply anc_refl. exact Hf.
  - destruct (w_parent c) as [p|] eqn:Hp; [|discriminate H]. eapply anc_step; eauto.
Qed.

Definition liveb (h : heap) (w : positive) : bool := PM.mem w (wins h).
Lemma liveb_live : forall h w, liveb h w = true -> findw h w <> None.
Proof.
  intros h w H. unfold liveb in H. apply PM.mem_2 in H. destruct H as [c Hc].
  unfold PM.MapsTo in Hc. unfold findw. congruence.
Qed.

Definition depth_fuel (h : heap) : nat := Pos.to_nat (nextw h).

Definition op_preb (h : heap) (o : op) : bool :=
  match o with
  | ONew p _ _ _ _ => liveb h p
  | ORef w | OUnref w | OClose w | OSteal w _ | ONotify w _ | OBind w _ _ _ _ _ | OUnbind w _ | OShow w | OHide w | OExpose w => liveb h w
  | ORestack c w =>
    is_restack c &&
    match PM.find w (wins h) with
    | Some cw => match w_parent cw with None => true | Some _ => intreeb (depth_fuel h) h w end
    | None => false
    end
  | OGetRoot w => intreeb (depth_fuel h) h w
  | OTouch w j walk => liveb h w && (match j with Some a => liveb h a | None => true end) && (negb walk || intreeb (depth_fuel h) h w)
  | OKey | OMouse _ | OResize | OFrameRef _ | OFrameUnref _ | OFocus _ | OFlush _ | OGeom _ | OMove _ => false
  | ONop => true
  end.

Lemma op_preb_sound : forall h o, op_preb h o = true -> op_pre h o.
Proof.
  intros h o H. destruct o; unfold op_preb in H; unfold op_pre; try (apply liveb_live; exact H); try discriminate; auto.
  - apply andb_prop in H. destruct H as [H1 H2]. split; [exact H1|].
    destruct (PM.find w (wins h)) as [cw|] eqn:Hf; [|discriminate]. exists cw. split; [exact Hf|].
    destruct (w_parent cw); [right; eapply intreeb_anc; eauto|left; reflexivity].
  - eapply intreeb_anc; eauto.
  - apply andb_prop in H. destruct H as [H12 H3]. apply andb_prop in H12. destruct H12 as [H1 H2].
    split; [apply liveb_live; exact H1|]. split.
    + intros a Ea. subst j. apply liveb_live. exact H2.
    + intro Ew. subst walk. cbn in H3. eapply intreeb_anc; eauto.
Qed.

Fixpoint client_okb (fuel : nat) (l : list op) (h : heap) : bool :=
  match l with
  | [] => true
  | o :: l' =>
    event_free_op o && op_preb h o &&
    match run_op fixed fuel o h with
    | Ok _ h' => client_okb fuel l' h'
    | _ => true
    end
  end.

Lemma client_okb_sound : forall fuel l h, client_okb fuel l h = true -> client_ok fuel l h.
Proof.
  intros fuel l. induction l as [|o l IH]; intros h H; cbn in *; [exact I|].
  apply andb_prop in H. destruct H as [H12 H3]. apply andb_prop in H12. destruct H12 as [H1 H2].
  split; [exact H1|]. split; [apply op_preb_sound; exact H2|].
  destruct (run_op fixed fuel o h); auto.
Qed.

Definition fault_of (v : verdict) : option (fault * nat) :=
  match v with VFault f k _ => Some (f, k) | _ => None end.

Theorem no_fault_b : forall fuel l,
  client_okb fuel l (heap0 fixed) = true -> fault_of (run_script fixed fuel l) = None.
Proof.
  intros fuel l H. pose proof (no_fault fuel l (client_okb_sound fuel l _ H)) as Hn.
  destruct (run_script fixed fuel l) as [h|f k hf|k]; cbn; auto. exfalso. exact (Hn f k hf eq_refl).
Qed.

Theorem script_all_released_b : forall fuel l h,
  client_okb fuel l (heap0 fixed) = true -> run_script fixed fuel l = VOk h ->
  (forall a c, findw h a = Some c -> w_ref c < 1) -> heap_empty h = true.
Proof. intros fuel l h H. apply script_all_released. apply client_okb_sound. exact H. Qed.
