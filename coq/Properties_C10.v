(* Property C10: terminal rendering attributes always equal the logical pen after
   setpen/chpen.  Nothing but the property theorems, each closed by [exact <lemma>]. *)
From Coq Require Import ZArith List Bool Lia.
From Tickit Require Import Csi VT TermPenDefs TermPenSpec TermPenProofs Gen_Palette Gen_SgrOnOff.
From Tickit Require Import XtermDefs TermApiDefs TermApiProofs.
Import ListNotations.
Local Open Scope Z_scope.

Theorem C10_palette_shape :
  length xterm256 = 256%nat /\
  forallb (fun p => (0 <=? fst p) && (fst p <? 16) && (0 <=? snd p) && (snd p <? 8)) xterm256 = true.
Proof. exact palette_shape. Qed.
Print Assumptions C10_palette_shape.

(* the initial state: nothing requested, nothing cached, the terminal at its defaults *)
Theorem C10_initial :
  forall colors colon rgb8 lines cols,
    PenInv colors colon rgb8 empty_pen empty_pen (vt_init lines cols).
Proof. exact initial_inv. Qed.
Print Assumptions C10_initial.

(* set-pen: never faults (palette index, params[] capacity), re-establishes the invariant
   for the new logical pen, and touches nothing of the terminal but its rendition *)
Theorem C10_setpen :
  forall colors colon rgb8 l tp v p,
    0 <= colors -> PenInv colors colon rgb8 l tp v -> pen_in_range p ->
    exists tp' ts,
      do_setpen chpen_params_capacity colon rgb8 (mkTp tp colors) p = Some (mkTp tp' colors, ts) /\
      PenInv colors colon rgb8 (logical_set l p) tp' (vt_run ts v) /\
      vt_run ts v = set_sgr v (v_sgr (vt_run ts v)).
Proof. exact setpen_ok. Qed.
Print Assumptions C10_setpen.

Theorem C10_chpen :
  forall colors colon rgb8 l tp v p,
    0 <= colors -> PenInv colors colon rgb8 l tp v -> pen_in_range p ->
    exists tp' ts,
      do_chpen chpen_params_capacity colon rgb8 (mkTp tp colors) p = Some (mkTp tp' colors, ts) /\
      PenInv colors colon rgb8 (logical_ch l p) tp' (vt_run ts v) /\
      vt_run ts v = set_sgr v (v_sgr (vt_run ts v)).
Proof. exact chpen_ok. Qed.
Print Assumptions C10_chpen.

(* any history of set-pen / change-pen requests with values in range *)
Theorem C10_history :
  forall colors colon rgb8 ops l tp v,
    0 <= colors -> PenInv colors colon rgb8 l tp v ->
    Forall (fun o => pen_in_range (snd o)) ops ->
    exists tp' ts,
      pen_run chpen_params_capacity colon rgb8 (mkTp tp colors) ops = Some (mkTp tp' colors, ts) /\
      PenInv colors colon rgb8 (logical_run l ops) tp' (vt_run ts v).
Proof. exact history_ok. Qed.
Print Assumptions C10_history.

(* what the invariant says about the terminal: its rendition is the encoding of the
   (palette-converted) logical pen; attributes never requested are at their default *)
Theorem C10_rendition :
  forall colors colon rgb8 l tp v,
    PenInv colors colon rgb8 l tp v ->
    forall a, vt_attr (v_sgr v) a =
              match l a with
              | Some x => enc colon rgb8 a (conv_val colors x)
              | None => vt_attr default_attrs a
              end.
Proof. exact rendition. Qed.
Print Assumptions C10_rendition.

(* a request that does not change the logical pen writes nothing and leaves the cache *)
Theorem C10_noop_silent :
  forall colors colon rgb8 (is_set : bool) l tp v p,
    0 <= colors -> PenInv colors colon rgb8 l tp v -> pen_in_range p ->
    (forall a, (if is_set then logical_set l p else logical_ch l p) a = l a) ->
    exists tp',
      (if is_set then do_setpen else do_chpen) chpen_params_capacity colon rgb8 (mkTp tp colors) p
        = Some (mkTp tp' colors, []) /\
      forall a, tp' a = tp a.
Proof. exact noop_silent. Qed.
Print Assumptions C10_noop_silent.

(* params[]: the capacity in the source suffices for every pen, and is needed *)
Theorem C10_params_fit :
  forall colon rgb8 delta,
    Z.of_nat (length (chpen_params colon rgb8 delta)) <= chpen_params_capacity.
Proof. exact params_fit. Qed.
Print Assumptions C10_params_fit.

Theorem C10_params_fit_tight :
  exists colon rgb8 delta,
    pen_in_range delta /\ Z.of_nat (length (chpen_params colon rgb8 delta)) = 19.
Proof. exact params_fit_tight. Qed.
Print Assumptions C10_params_fit_tight.

(* the two layers separately (the statements C09 / C12 import) *)
Theorem C10_chpen_core :
  forall colon rgb8 (delta final : pen) (v : vt),
    pen_in_range delta -> a_faint (v_sgr v) = false ->
    exists ts, xterm_chpen chpen_params_capacity colon rgb8 delta final = Some ts /\
      let v' := vt_run ts v in
      v' = set_sgr v (v_sgr v') /\ a_faint (v_sgr v') = false /\
      ((forall a, delta a = None) -> ts = []) /\
      (if is_nondefault final || pen_emptyb delta
       then forall a, vt_attr (v_sgr v') a =
                      match delta a with Some x => enc colon rgb8 a x | None => vt_attr (v_sgr v) a end
       else v_sgr v' = default_attrs).
Proof. exact chpen_core. Qed.
Print Assumptions C10_chpen_core.

Theorem C10_nondefault_enc :
  forall colon rgb8 (p : pen) a x, pen_in_range p -> is_nondefault p = false -> p a = Some x ->
    enc colon rgb8 a x = vt_attr default_attrs a.
Proof. exact nondefault_enc. Qed.
Print Assumptions C10_nondefault_enc.

Theorem C10_term_pen :
  forall colors (is_set : bool) (l tp p : pen),
    0 <= colors -> pen_in_range l -> pen_in_range p -> (forall a, tp a = cache_of colors l a) ->
    let l' := if is_set then logical_set l p else logical_ch l p in
    exists tp' delta,
      (if is_set then term_setpen else term_chpen) colors tp p = Some (tp', delta) /\
      pen_in_range l' /\ pen_in_range tp' /\ pen_in_range delta /\
      (forall a, tp' a = cache_of colors l' a) /\
      (forall a, delta a = None \/ delta a = tp' a) /\
      (forall a, tp' a <> tp a -> delta a = tp' a) /\
      ((forall a, l' a = l a) -> forall a, delta a = None).
Proof. exact term_pen. Qed.
Print Assumptions C10_term_pen.

(* the hypotheses are satisfiable by a non-trivial state: from the initial state of a
   16-colour terminal with colon sub-parameters, set-pen {bold, fg 200} then change-pen
   {underline double}; the requests are in range, the run does not fault, and the VT ends
   with bold, the palette approximation 13 of colour 200, and a double underline *)
Example C10_nonvacuous :
  let p1 := pset (pset empty_pen ABold (Some (VBool true))) AFg (Some (VCol 200 None)) in
  let p2 := pset empty_pen AUnder (Some (VInt 2)) in
  let ops := [(true, p1); (false, p2)] in
  PenInv 16 true true empty_pen empty_pen (vt_init 24 80) /\
  Forall (fun o => pen_in_range (snd o)) ops /\
  match pen_run chpen_params_capacity true true (mkTp empty_pen 16) ops with
  | Some (_, ts) =>
      let s := v_sgr (vt_run ts (vt_init 24 80)) in
      ts = [TCsi None [[Some 95]; [Some 49]; [Some 1]; [Some 24]; [Some 23]; [Some 27]; [Some 29];
                       [Some 10]; [Some 25]; [Some 75]] [] 109;
            TCsi None [[Some 4; Some 2]] [] 109] /\
      (vt_attr s ABold, vt_attr s AFg, vt_attr s AUnder, vt_attr s AItalic)
      = (XBool true, XCol (CIdx 13), XInt 2, XBool false)
  | None => False
  end.
Proof.
  cbv zeta. split; [ exact (initial_inv 16 true true 24 80) | ]. split.
  - constructor; [ | constructor; [ | constructor ] ]; cbn [snd];
      intros a v Hv; destruct a; vm_compute in Hv; try discriminate Hv;
      injection Hv as <-; cbn; intuition lia.
  - vm_compute. split; reflexivity.
Qed.
Print Assumptions C10_nonvacuous.

(* ---- at the level of the public API of term.c: tickit_term_setpen / tickit_term_chpen on an xterm
   terminal object (256 colours at build time) keep the invariant, change nothing but the screen's
   rendition, and write nothing when the logical pen does not change *)
Theorem C10_api_pen : forall (is_set : bool) l t v p,
  PenInv 256 (cap_colon (x_caps (t_drv t))) (cap_rgb8 (x_caps (t_drv t))) l (t_pen t) v ->
  pen_in_range p ->
  exists t' ts, api_step t (if is_set then ASetpen p else AChpen p) = Some (t', ts, None) /\
    t_drv t' = t_drv t /\
    PenInv 256 (cap_colon (x_caps (t_drv t))) (cap_rgb8 (x_caps (t_drv t)))
           (if is_set then logical_set l p else logical_ch l p) (t_pen t') (vt_run ts v) /\
    vt_run ts v = set_sgr v (v_sgr (vt_run ts v)) /\
    ((forall a, (if is_set then logical_set l p else logical_ch l p) a = l a) -> ts = []).
Proof. exact api_pen_ok_step. Qed.
Print Assumptions C10_api_pen.
