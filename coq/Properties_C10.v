(* Property C10: terminal rendering attributes always equal the logical pen after
   setpen/chpen.  Nothing but the property theorems, each closed by [exact <lemma>]. *)
From Coq Require Import ZArith List Bool.
From Tickit Require Import Csi VT TermPenDefs TermPenSpec TermPenProofs Gen_Palette Gen_SgrOnOff.
Import ListNotations.
Local Open Scope Z_scope.

Theorem C10_palette_shape :
  length xterm256 = 256%nat /\
  forallb (fun p => (0 <=? fst p) && (fst p <? 16) && (0 <=? snd p) && (snd p <? 8)) xterm256 = true.
Proof. exact palette_shape. Qed.
Print Assumptions C10_palette_shape.
