(* Property C10: terminal rendering attributes always equal the logical pen after
   setpen/chpen.  Nothing but the property theorems, each closed by [exact <lemma>]. *)
From Coq Require Import ZArith List Bool Lia.
From Tickit Require Import Csi VT TermPenDefs TermPenSpec TermPenProofs Gen_Palette Gen_SgrOnOff.
From Tickit Require Import XtermDefs TermApiDefs TermApiProofs TermPenC19.
Import ListNotations.
Local Open Scope Z_scope.

Theorem C10_palette_shape :
  length xterm256 = 256%nat /\
  forallb (fun p => (0 <=? fst p) && (fst p <? 16) && (0 <=? snd p) && (snd p <? 8)) xterm256 = true.
Proof. exact palette_shape. Qed.
Print Assumptions C10_palette_shape.

(* the initial state: nothing requested, nothing cached, the terminal at its defaults *)
Theorem C10_initial :
  forall colors colon rgb8 lines cols,
    PenInv colors colon rgb8 empty_pen empty_pen (vt_init lines cols).
Proof. exact initial_inv. Qed.
Print Assumptions C10_initial.

(* set-pen: never faults (palette index, params[] capacity), re-establishes the invariant
   for the new logical pen, and touches nothing of the terminal but its rendition *)
Theorem C10_setpen :
  forall colors colon rgb8 l tp v p,
    0 <= colors -> PenInv colors colon rgb8 l tp v -> pen_in_range p ->
    exists tp' ts,
      do_setpen chpen_params_capacity colon rgb8 (mkTp tp colors) p = Some (mkTp tp' colors, ts) /\
      PenInv colors colon rgb8 (logical_set l p) tp' (vt_run ts v) /\
      vt_run ts v = set_sgr v (v_sgr (vt_run ts v)).
Proof. exact setpen_ok. Qed.
Print Assumptions C10_setpen.

Theorem C10_chpen :
  forall colors colon rgb8 l tp v p,
    0 <= colors -> PenInv colors colon rgb8 l tp v -> pen_in_range p ->
    exists tp' ts,
      do_chpen chpen_params_capacity colon rgb8 (mkTp tp colors) p = Some (mkTp tp' colors, ts) /\
      PenInv colors colon rgb8 (logical_ch l p) tp' (vt_run ts v) /\
      vt_run ts v = set_sgr v (v_sgr (vt_run ts v)).
Proof. exact chpen_ok. Qed.
Print Assumptions C10_chpen.

(* any history of set-pen / change-pen requests with values in range *)
Theorem C10_history :
  forall colors colon rgb8 ops l tp v,
    0 <= colors -> PenInv colors colon rgb8 l tp v ->
    Forall (fun o => pen_in_range (snd o)) ops ->
    exists tp' ts,
      pen_run chpen_params_capacity colon rgb8 (mkTp tp colors) ops = Some (mkTp tp' colors, ts) /\
      PenInv colors colon rgb8 (logical_run l ops) tp' (vt_run ts v).
Proof. exact history_ok. Qed.
Print Assumptions C10_history.

(* what the invariant says about the terminal: its rendition is the encoding of the
   (palette-converted) logical pen; attributes never requested are at their default *)
Theorem C10_rendition :
  forall colors colon rgb8 l tp v,
    PenInv colors colon rgb8 l tp v ->
    forall a, vt_attr (v_sgr v) a =
              match l a with
              | Some x => enc colon rgb8 a (conv_val colors x)
              | None => vt_attr default_attrs a
              end.
Proof. exact rendition. Qed.
Print Assumptions C10_rendition.

(* a request that does not change the logical pen writes nothing and leaves the cache *)
Theorem C10_noop_silent :
  forall colors colon rgb8 (is_set : bool) l tp v p,
    0 <= colors -> PenInv colors colon rgb8 l tp v -> pen_in_range p ->
    (forall a, (if is_set then logical_set l p else logical_ch l p) a = l a) ->
    exists tp',
      (if is_set then do_setpen else do_chpen) chpen_params_capacity colon rgb8 (mkTp tp colors) p
        = Some (mkTp tp' colors, []) /\
      forall a, tp' a = tp a.
Proof. exact noop_silent. Qed.
Print Assumptions C10_noop_silent.

(* params[]: the capacity in the source suffices for every pen, and is needed *)
Theorem C10_params_fit :
  forall colon rgb8 delta,
    Z.of_nat (length (chpen_params colon rgb8 delta)) <= chpen_params_capacity.
Proof. exact params_fit. Qed.
Print Assumptions C10_params_fit.

Theorem C10_params_fit_tight :
  exists colon rgb8 delta,
    pen_in_range delta /\ Z.of_nat (length (chpen_params colon rgb8 delta)) = 19.
Proof. exact params_fit_tight. Qed.
Print Assumptions C10_params_fit_tight.

(* the two layers separately (the statements C09 / C12 import) *)
Theorem C10_chpen_core :
  forall colon rgb8 (delta final : pen) (v : vt),
    pen_in_range delta -> a_faint (v_sgr v) = false ->
    exists ts, xterm_chpen chpen_params_capacity colon rgb8 delta final = Some ts /\
      let v' := vt_run ts v in
      v' = set_sgr v (v_sgr v') /\ a_faint (v_sgr v') = false /\
      ((forall a, delta a = None) -> ts = []) /\
      (if is_nondefault final || pen_emptyb delta
       then forall a, vt_attr (v_sgr v') a =
                      match delta a with Some x => enc colon rgb8 a x | None => vt_attr (v_sgr v) a end
       else v_sgr v' = default_attrs).
Proof. exact chpen_core. Qed.
Print Assumptions C10_chpen_core.

Theorem C10_nondefault_enc :
  forall colon rgb8 (p : pen) a x, pen_in_range p -> is_nondefault p = false -> p a = Some x ->
    enc colon rgb8 a x = vt_attr default_attrs a.
Proof. exact nondefault_enc. Qed.
Print Assumptions C10_nondefault_enc.

Theorem C10_term_pen :
  forall colors (is_set : bool) (l tp p : pen),
    0 <= colors -> pen_in_range l -> pen_in_range p -> (forall a, tp a = cache_of colors l a) ->
    let l' := if is_set then logical_set l p else logical_ch l p in
    exists tp' delta,
      (if is_set then term_setpen else term_chpen) colors tp p = Some (tp', delta) /\
      pen_in_range l' /\ pen_in_range tp' /\ pen_in_range delta /\
      (forall a, tp' a = cache_of colors l' a) /\
      (forall a, delta a = None \/ delta a = tp' a) /\
      (forall a, tp' a <> tp a -> delta a = tp' a) /\
      ((forall a, l' a = l a) -> forall a, delta a = None).
Proof. exact term_pen. Qed.
Print Assumptions C10_term_pen.

(* the hypotheses are satisfiable by a non-trivial state: from the initial state of a
   16-colour terminal with colon sub-parameters, set-pen {bold, fg 200} then change-pen
   {underline double}; the requests are in range, the run does not fault, and the VT ends
   with bold, the palette approximation 13 of colour 200, and a double underline *)
Example C10_nonvacuous :
  let p1 := pset (pset empty_pen ABold (Some (VBool true))) AFg (Some (VCol 200 None)) in
  let p2 := pset empty_pen AUnder (Some (VInt 2)) in
  let ops := [(true, p1); (false, p2)] in
  PenInv 16 true true empty_pen empty_pen (vt_init 24 80) /\
  Forall (fun o => pen_in_range (snd o)) ops /\
  match pen_run chpen_params_capacity true true (mkTp empty_pen 16) ops with
  | Some (_, ts) =>
      let s := v_sgr (vt_run ts (vt_init 24 80)) in
      ts = [TCsi None [[Some 95]; [Some 49]; [Some 1]; [Some 24]; [Some 23]; [Some 27]; [Some 29];
                       [Some 10]; [Some 25]; [Some 75]] [] 109;
            TCsi None [[Some 4; Some 2]] [] 109] /\
      (vt_attr s ABold, vt_attr s AFg, vt_attr s AUnder, vt_attr s AItalic)
      = (XBool true, XCol (CIdx 13), XInt 2, XBool false)
  | None => False
  end.
Proof.
  cbv zeta. split; [ exact (initial_inv 16 true true 24 80) | ]. split.
  - constructor; [ | constructor; [ | constructor ] ]; cbn [snd];
      intros a v Hv; destruct a; vm_compute in Hv; try discriminate Hv;
      injection Hv as <-; cbn; intuition lia.
  - vm_compute. split; reflexivity.
Qed.
Print Assumptions C10_nonvacuous.

(* ---- at the level of the public API of term.c: tickit_term_setpen / tickit_term_chpen on an xterm
   terminal object (256 colours at build time) keep the invariant, change nothing but the screen's
   rendition, and write nothing when the logical pen does not change *)
Theorem C10_api_pen : forall (is_set : bool) l t v p,
  PenInv 256 (cap_colon (x_caps (t_drv t))) (cap_rgb8 (x_caps (t_drv t))) l (t_pen t) v ->
  pen_in_range p ->
  exists t' ts, api_step t (if is_set then ASetpen p else AChpen p) = Some (t', ts, None) /\
    t_drv t' = t_drv t /\
    PenInv 256 (cap_colon (x_caps (t_drv t))) (cap_rgb8 (x_caps (t_drv t)))
           (if is_set then logical_set l p else logical_ch l p) (t_pen t') (vt_run ts v) /\
    vt_run ts v = set_sgr v (v_sgr (vt_run ts v)) /\
    ((forall a, (if is_set then logical_set l p else logical_ch l p) a = l a) -> ts = []).
Proof. exact api_pen_ok_step. Qed.
Print Assumptions C10_api_pen.

(* ---- composition with C19 (the pen as a partial attribute map; PenDefs.v / PenSpec.v / PenProofs.v).
   The model C10 is proved for keeps pens as partial maps  attr -> option aval  and applies the tickit_pen_*
   accessors to the maps.  C19 models struct TickitPen concretely (value fields, validity bits, bit-field
   wraps) and PenSpec.lookup is the partial map a TickitPen denotes.  [rep q p]: the map p is
   option_map cv (lookup q (pattr_of _)), i.e. p IS C19's map of the TickitPen q (cv / pattr_of only rename
   constructors).
   C10_pen_accessors_are_C19: every accessor term.c and the driver call (has_attr, get_bool/int/colour_attr,
     has/get_colour_attr_rgb8, equiv_attr, nondefault_attr, is_nondefault) returns on p what C19's function
     returns on q -- for every q, no well-formedness needed.
   C10_pen_mutations_are_C19: tickit_pen_set_colour_attr (of a storable index) and tickit_pen_copy_attr keep
     [rep]; tickit_pen_new() is the empty map.  (term.c's pen path calls no other mutator: not
     tickit_pen_copy, not clear_attr.)
   C10_pen_is_C19: the loops of tickit_term_setpen / tickit_term_chpen written over C19's pens with C19's
     functions (c_term_setpen / c_term_chpen: cached pen tt->pen, delta = tickit_pen_new(), palette conversion)
     are simulated by TermPenDefs.term_setpen / term_chpen: same Faults, cached pens and deltas related.
   C10_do_pen_C19: with the driver's SGR encoder on top (it reads delta and final pen through accessors only):
     same Faults, the SAME tokens, related cached pens -- so C10_setpen / C10_chpen / C10_history / C10_api_pen
     speak about TickitPens as C19 describes them.
   C10_logical_set_is_C19_reads: the logical pen after set-pen is literally C19's [reads] of the argument;
   C10_logical_ch_is_C19_copy: after change-pen it is (the map of) tickit_pen_copy(logical, arg, overwrite=1),
     by C19_copy's entry law;  C10_range_is_representable: the values C10 quantifies over are C19-representable.
   Hypotheses: PenProofs.wf of the concrete pens (every bit-field holds a value of its width: true of any
   memory content) -- nothing else; in particular no range hypothesis: copy_attr copies wrapped values. *)
Theorem C10_pen_accessors_are_C19 : forall q p a, rep_at q p a ->
  has_attr p a = Tickit.PenDefs.has_attr q (pattr_of a) /\
  get_bool_attr p a = Tickit.PenDefs.get_bool q (pattr_of a) /\
  get_int_attr p a = Tickit.PenDefs.get_int q (pattr_of a) /\
  get_colour_attr p a = Tickit.PenDefs.get_colour q (pattr_of a) /\
  has_colour_attr_rgb8 p a = Tickit.PenDefs.has_rgb q (pattr_of a) /\
  get_colour_attr_rgb8 p a = crgb (Tickit.PenDefs.get_rgb q (pattr_of a)) /\
  nondefault_attr p a = Tickit.PenDefs.nondefault_attr q (pattr_of a) /\
  (forall q2 p2, rep_at q2 p2 a -> equiv_attr p p2 a = Tickit.PenDefs.equiv_attr q q2 (pattr_of a)).
Proof. exact pen_accessors_C19. Qed.
Print Assumptions C10_pen_accessors_are_C19.

Theorem C10_pen_mutations_are_C19 :
  (forall q p a i, rep q p -> attr_type a = TyColour -> -1 <= i <= 255 ->
     rep (Tickit.PenDefs.set_colour q (pattr_of a) i) (set_colour_attr p a i)) /\
  (forall dq dp sq sp a, rep dq dp -> rep_at sq sp a -> Tickit.PenProofs.wf sq ->
     rep (Tickit.PenDefs.copy_attr dq sq (pattr_of a)) (copy_attr dp sp a)) /\
  (forall g, rep (Tickit.PenDefs.pen_new g) empty_pen) /\
  (forall q p, rep q p -> is_nondefault p = Tickit.PenDefs.is_nondefault q).
Proof. exact (conj rep_set_colour (conj rep_copy_attr (conj rep_new rep_is_nondefault))). Qed.
Print Assumptions C10_pen_mutations_are_C19.

Theorem C10_pen_is_C19 : forall colors g tq tp pq pp,
  rep tq tp -> rep pq pp -> Tickit.PenProofs.wf tq -> Tickit.PenProofs.wf pq -> Tickit.PenProofs.wf g ->
  st_rel (c_term_setpen colors g tq pq) (term_setpen colors tp pp) /\
  st_rel (c_term_chpen colors g tq pq) (term_chpen colors tp pp).
Proof. exact pen_is_C19. Qed.
Print Assumptions C10_pen_is_C19.

Theorem C10_do_pen_C19 : forall (is_set : bool) capacity colon rgb8 colors g tq tp pq pp,
  rep tq tp -> rep pq pp -> Tickit.PenProofs.wf tq -> Tickit.PenProofs.wf pq -> Tickit.PenProofs.wf g ->
  match c_do_pen is_set capacity colon rgb8 colors g tq pq,
        (if is_set then do_setpen capacity colon rgb8 (mkTp tp colors) pp
         else do_chpen capacity colon rgb8 (mkTp tp colors) pp) with
  | None, None => True
  | Some (tq', ts), Some (s', ts') =>
      ts = ts' /\ rep tq' (tp_pen s') /\ Tickit.PenProofs.wf tq' /\ tp_colors s' = colors
  | _, _ => False
  end.
Proof. exact do_pen_C19. Qed.
Print Assumptions C10_do_pen_C19.

Theorem C10_logical_set_is_C19_reads : forall pq pp l, rep pq pp ->
  forall a, logical_set l pp a = Some (cv (Tickit.PenSpec.reads pq (pattr_of a))).
Proof. exact logical_set_is_reads. Qed.
Print Assumptions C10_logical_set_is_C19_reads.

Theorem C10_logical_ch_is_C19_copy : forall lq l pq pp, rep lq l -> rep pq pp -> Tickit.PenProofs.wf pq ->
  rep (Tickit.PenDefs.copy lq pq true) (logical_ch l pp).
Proof. exact logical_ch_is_copy. Qed.
Print Assumptions C10_logical_ch_is_C19_copy.

Theorem C10_range_is_representable : forall a v, aval_in_range a (cv v) ->
  Tickit.PenSpec.representable (pattr_of a) v = true.
Proof. exact in_range_representable. Qed.
Print Assumptions C10_range_is_representable.

(* non-vacuity: a TickitPen built by C19's setters on zeroed memory; it denotes the first pen of
   C10_nonvacuous and the loop over C19 pens emits the same SGR *)
Example C10_C19_nonvacuous :
  Tickit.PenProofs.wf zero_pen /\ Tickit.PenProofs.wf bold_fg200 /\
  rep bold_fg200 (pset (pset empty_pen ABold (Some (VBool true))) AFg (Some (VCol 200 None))) /\
  match c_do_pen true chpen_params_capacity true true 16 zero_pen (Tickit.PenDefs.pen_new zero_pen) bold_fg200 with
  | Some (tq', ts) =>
      ts = [TCsi None [[Some 95]; [Some 49]; [Some 1]; [Some 24]; [Some 23]; [Some 27]; [Some 29];
                       [Some 10]; [Some 25]; [Some 75]] [] 109] /\
      Tickit.PenSpec.lookup tq' Tickit.PenDefs.FG = Some (Tickit.PenSpec.VCol 13 None) /\
      Tickit.PenSpec.lookup tq' Tickit.PenDefs.BOLD = Some (Tickit.PenSpec.VBool true)
  | None => False
  end.
Proof. exact c19_example. Qed.
