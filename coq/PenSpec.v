(* PenSpec.v -- what property C19 demands of a pen, independent of struct TickitPen.

   A pen denotes a partial map  attr -> option value  ([lookup]); what the typed getters
   return is the defaulted map [reads].  The specification state of a pen is a dictionary
   attr -> slot, where a slot is Absent, Present v, or Unknown.  Unknown marks what the
   property does not determine: the result of storing an unrepresentable value, of calling a
   setter of the wrong type for the attribute, of tickit_pen_copy_attr (not mentioned by the
   property), and of a description string outside the documented grammar that the library
   chose to accept.  The oracle [check_case] runs the dictionary along a history and compares
   it with the getters an implementation reported; Unknown slots are not compared. *)
From Coq Require Import ZArith List Bool.
From Tickit Require Import Gen_Colours PenDefs.
Import ListNotations.
Local Open Scope Z_scope.

Inductive value := VBool (b : bool) | VInt (z : Z) | VCol (i : Z) (c : option rgb).

Definition orgb_eqb (x y : option rgb) : bool :=
  match x, y with
  | None, None => true
  | Some a, Some b => rgb_eqb a b
  | _, _ => false
  end.

Definition value_eqb (x y : value) : bool :=
  match x, y with
  | VBool a, VBool b => Bool.eqb a b
  | VInt a, VInt b => a =? b
  | VCol i c, VCol j d => (i =? j) && orgb_eqb c d
  | _, _ => false
  end.

(* ---- the partial map a concrete pen denotes ---- *)

Definition typed_read (p : pen) (a : attr) : value :=
  match attr_type a with
  | TBool => VBool (get_bool p a)
  | TInt => VInt (get_int p a)
  | TColour => VCol (get_colour p a) (if has_rgb p a then Some (get_rgb p a) else None)
  | TNone => VBool false
  end.

Definition lookup (p : pen) (a : attr) : option value :=
  if has_attr p a then Some (typed_read p a) else None.

Definition default_of (a : attr) : value :=
  match attr_type a with
  | TBool => VBool false
  | TInt => VInt 0
  | TColour => VCol (-1) None
  | TNone => VBool false
  end.

(* what the getters return: the value if present, the default if absent *)
Definition reads (p : pen) (a : attr) : value :=
  match lookup p a with Some v => v | None => default_of a end.

Definition rgb_ok (c : rgb) : bool :=
  (0 <=? cr c) && (cr c <=? 255) && (0 <=? cg c) && (cg c <=? 255) && (0 <=? cb c) && (cb c <=? 255).

(* the representable values of each attribute (documented ranges) *)
Definition representable (a : attr) (v : value) : bool :=
  match a, v with
  | (BOLD | ITALIC | REVERSE | STRIKE | BLINK), VBool _ => true
  | UNDER, VInt z => (0 <=? z) && (z <=? 3)
  | ALTFONT, VInt z => (-1 <=? z) && (z <=? 15)
  | SIZEPOS, VInt z => (0 <=? z) && (z <=? 3)
  | (FG | BG), VCol i None => (-1 <=? i) && (i <=? 255)
  | (FG | BG), VCol i (Some c) => (-1 <=? i) && (i <=? 255) && rgb_ok c
  | _, _ => false
  end.

(* ---- the dictionary ---- *)

Inductive slot := Absent | Present (v : value) | Unknown.
Definition spen := attr -> slot.

Definition attr_eqb (a b : attr) : bool :=
  match a, b with
  | FG, FG | BG, BG | BOLD, BOLD | UNDER, UNDER | ITALIC, ITALIC | REVERSE, REVERSE
  | STRIKE, STRIKE | ALTFONT, ALTFONT | BLINK, BLINK | SIZEPOS, SIZEPOS | AOther, AOther => true
  | _, _ => false
  end.

(* no attribute outside 1..10 is ever present *)
Definition upd (s : spen) (a : attr) (x : slot) : spen :=
  fun a' => match a with
            | AOther => s a'
            | _ => if attr_eqb a a' then x else s a'
            end.

Definition s_empty : spen := fun _ => Absent.

Definition put (s : spen) (a : attr) (v : value) : spen :=
  upd s a (if representable a v then Present v else Unknown).

Definition s_set_bool (s : spen) (a : attr) (b : bool) : spen :=
  match attr_type a with
  | TBool => put s a (VBool b)
  | _ => match a with
         | UNDER => put s a (VInt (if b then 1 else 0))     (* documented back-compat *)
         | _ => upd s a Unknown
         end
  end.

Definition s_set_int (s : spen) (a : attr) (z : Z) : spen :=
  match attr_type a with TInt => put s a (VInt z) | _ => upd s a Unknown end.

Definition s_set_colour (s : spen) (a : attr) (i : Z) : spen :=
  match attr_type a with TColour => put s a (VCol i None) | _ => upd s a Unknown end.

(* an RGB secondary can only be added to a present index colour *)
Definition s_set_rgb (s : spen) (a : attr) (c : rgb) : spen :=
  match attr_type a with
  | TColour =>
      match s a with
      | Present (VCol i _) => put s a (VCol i (Some c))
      | Absent => s
      | _ => upd s a Unknown
      end
  | _ => upd s a Unknown
  end.

Definition s_clear_attr (s : spen) (a : attr) : spen := upd s a Absent.

Definition s_copy_slot (d sr : slot) (ow : bool) : slot :=
  match sr with
  | Absent => d
  | Present v => match d with
                 | Absent => Present v
                 | Present w => if ow then Present v else Present w
                 | Unknown => if ow then Present v else Unknown
                 end
  | Unknown => match d with
               | Present w => if ow then Unknown else Present w
               | _ => Unknown
               end
  end.

Definition s_copy (dst src : spen) (ow : bool) : spen :=
  fun a => s_copy_slot (dst a) (src a) ow.

(* ---- the documented description grammar ----
   [hi-] body [blanks] [# 6 hex digits],  body = decimal integer | colour name.
   MustAccept i c : documented form, stands for index i (+ RGB8 c);
   MustReject     : neither number-like nor a colour name: must be rejected without effect;
   Unspecified    : everything else (number followed by other text, "hi-" before a number,
                    a name of colournames[] beyond the documented eight, malformed RGB part,
                    unrepresentable number, ...). *)
Inductive verdict := MustAccept (i : Z) (c : option rgb) | MustReject | Unspecified.

Fixpoint str_eqb (a b : str) : bool :=
  match a, b with
  | [], [] => true
  | x :: a', y :: b' => (x =? y) && str_eqb a' b'
  | _, _ => false
  end.

Fixpoint lookup_name (tbl : list (str * Z)) (s : str) : option Z :=
  match tbl with
  | [] => None
  | (n, c) :: r => if str_eqb n s then Some c else lookup_name r s
  end.

Fixpoint all_digits (s : str) : bool :=
  match s with [] => true | c :: r => is_digit c && all_digits r end.

Fixpoint dec_value (s : str) (acc : Z) : Z :=
  match s with [] => acc | c :: r => dec_value r (10 * acc + (c - 48)) end.

(* body as a decimal integer: optional '-', one to nine digits *)
Definition decimal_of (s : str) : option Z :=
  let '(neg, ds) := match s with c :: r => if c =? 45 then (true, r) else (false, s) | [] => (false, s) end in
  match ds with
  | [] => None
  | _ => if all_digits ds && (Nat.leb (length ds) 9)
         then Some (if neg then - dec_value ds 0 else dec_value ds 0) else None
  end.

(* number-like: what "%d" would start to read *)
Definition number_like (s : str) : bool :=
  let s1 := skip_ws s in
  match s1 with
  | c :: r => if (c =? 45) || (c =? 43) then starts_digit r else is_digit c
  | [] => false
  end.

Fixpoint strip_trailing_spaces (s : str) : str :=
  match s with
  | [] => []
  | c :: r => match strip_trailing_spaces r with
              | [] => if c =? 32 then [] else [c]
              | r' => c :: r'
              end
  end.

Fixpoint split_hash (s : str) : str * option str :=
  match s with
  | [] => ([], None)
  | c :: r => if c =? 35 then ([], Some r)
              else let '(h, t) := split_hash r in (c :: h, t)
  end.

Definition hex6 (s : str) : option rgb :=
  match s with
  | [a; b; c; d; e; f] =>
    match hex_val a, hex_val b, hex_val c, hex_val d, hex_val e, hex_val f with
    | Some a, Some b, Some c, Some d, Some e, Some f => Some (mkRgb (16 * a + b) (16 * c + d) (16 * e + f))
    | _, _, _, _, _, _ => None
    end
  | _ => None
  end.

(* the eight names of the manual page (tickit_pen_set_colour_attr_desc.3), written down by
   hand: "black, red, green, yellow, blue, magenta, cyan and white, respectively" = 0..7 *)
Definition doc_names : list (str * Z) :=
  [([98; 108; 97; 99; 107], 0); ([114; 101; 100], 1); ([103; 114; 101; 101; 110], 2);
   ([121; 101; 108; 108; 111; 119], 3); ([98; 108; 117; 101], 4);
   ([109; 97; 103; 101; 110; 116; 97], 5); ([99; 121; 97; 110], 6); ([119; 104; 105; 116; 101], 7)].

Definition spec_desc (s0 : str) : verdict :=
  let '(s, hi) := if starts_with HI s0 then (skipn 3 s0, true) else (s0, false) in
  let '(head, tail) := split_hash s in
  let body := match tail with Some _ => strip_trailing_spaces head | None => head end in
  if number_like s then
    match decimal_of body with
    | Some n =>
      if hi then Unspecified
      else if (-1 <=? n) && (n <=? 255) then
        match tail with
        | None => MustAccept n None
        | Some t => match hex6 t with Some c => MustAccept n (Some c) | None => Unspecified end
        end
      else Unspecified
    | None => Unspecified
    end
  else
    match lookup_name doc_names body with
    | Some col =>
      let i := if hi then col + 8 else col in
      match tail with
      | None => MustAccept i None
      | Some t => match hex6 t with Some c => MustAccept i (Some c) | None => Unspecified end
      end
    | None =>
      (* names the table has beyond the documented eight are neither demanded nor forbidden *)
      match lookup_name colournames body with
      | Some _ => Unspecified
      | None => MustReject
      end
    end.

(* the dictionary after a description call that returned [ret] *)
Definition s_set_desc (s : spen) (a : attr) (d : str) (ret : bool) : spen :=
  match attr_type a with
  | TColour =>
    match spec_desc d with
    | MustAccept i c => put s a (VCol i c)
    | MustReject => s
    | Unspecified => if ret then upd s a Unknown else s
    end
  | _ => upd s a Unknown
  end.

Definition desc_ret_ok (d : str) (ret : bool) : bool :=
  match spec_desc d with
  | MustAccept _ _ => ret
  | MustReject => negb ret
  | Unspecified => true
  end.

(* ---- histories over three pens ---- *)

Inductive pidx := P0 | P1 | P2.
Definition pidx_eqb (i j : pidx) : bool :=
  match i, j with P0, P0 | P1, P1 | P2, P2 => true | _, _ => false end.

Inductive pop :=
| OSetBool (p : pidx) (a : attr) (b : bool)
| OSetInt (p : pidx) (a : attr) (z : Z)
| OSetColour (p : pidx) (a : attr) (z : Z)
| OSetRgb (p : pidx) (a : attr) (c : rgb)
| OSetDesc (p : pidx) (a : attr) (d : str)
| OClearAttr (p : pidx) (a : attr)
| OClear (p : pidx)
| OCopy (dst src : pidx) (ow : bool)
| OCopyAttr (dst src : pidx) (a : attr)
| OClone (dst src : pidx)
| ONew (p : pidx).

(* the pen an operation writes *)
Definition target (o : pop) : pidx :=
  match o with
  | OSetBool p _ _ | OSetInt p _ _ | OSetColour p _ _ | OSetRgb p _ _ | OSetDesc p _ _
  | OClearAttr p _ | OClear p | ONew p => p
  | OCopy d _ _ | OCopyAttr d _ _ | OClone d _ => d
  end.

Definition set3 {A} (f : pidx -> A) (i : pidx) (x : A) : pidx -> A :=
  fun j => if pidx_eqb i j then x else f j.

(* concrete run; [g] = content of freshly malloc'd memory; the boolean is the return value
   of tickit_pen_set_colour_attr_desc (true for the other operations) *)
Definition c_step (g : pen) (st : pidx -> pen) (o : pop) : (pidx -> pen) * bool :=
  match o with
  | OSetBool p a b => (set3 st p (set_bool (st p) a b), true)
  | OSetInt p a z => (set3 st p (set_int (st p) a z), true)
  | OSetColour p a z => (set3 st p (set_colour (st p) a z), true)
  | OSetRgb p a c => (set3 st p (set_rgb (st p) a c), true)
  | OSetDesc p a d => let '(r, q) := set_desc (st p) a d in (set3 st p q, r)
  | OClearAttr p a => (set3 st p (clear_attr (st p) a), true)
  | OClear p => (set3 st p (clear (st p)), true)
  | OCopy d s ow => (set3 st d (copy (st d) (st s) ow), true)
  | OCopyAttr d s a =>
      (* with dst == src the C reads the source after having written the destination *)
      (set3 st d (if pidx_eqb d s then copy_attr_self (st d) a else copy_attr (st d) (st s) a), true)
  | OClone d s => (set3 st d (clone (st s) g), true)
  | ONew p => (set3 st p (pen_new g), true)
  end.

Fixpoint c_run (g : pen) (st : pidx -> pen) (ops : list pop) : (pidx -> pen) * list bool :=
  match ops with
  | [] => (st, [])
  | o :: r => let '(st1, b) := c_step g st o in
              let '(st2, bs) := c_run g st1 r in (st2, b :: bs)
  end.

(* specification run, given the return values observed *)
Definition s_step (ss : pidx -> spen) (o : pop) (ret : bool) : pidx -> spen :=
  match o with
  | OSetBool p a b => set3 ss p (s_set_bool (ss p) a b)
  | OSetInt p a z => set3 ss p (s_set_int (ss p) a z)
  | OSetColour p a z => set3 ss p (s_set_colour (ss p) a z)
  | OSetRgb p a c => set3 ss p (if rgb_ok c then s_set_rgb (ss p) a c else upd (ss p) a Unknown)
  | OSetDesc p a d => set3 ss p (s_set_desc (ss p) a d ret)
  | OClearAttr p a => set3 ss p (s_clear_attr (ss p) a)
  | OClear p => set3 ss p s_empty
  | OCopy d s ow => set3 ss d (s_copy (ss d) (ss s) ow)
  | OCopyAttr d s a => set3 ss d (upd (ss d) a Unknown)
  | OClone d s => set3 ss d (ss s)
  | ONew p => set3 ss p s_empty
  end.

Definition step_ret_ok (o : pop) (ret : bool) : bool :=
  match o with
  | OSetDesc p a d => match attr_type a with TColour => desc_ret_ok d ret | _ => true end
  | _ => true
  end.

(* ---- observations and the oracle ---- *)

(* what the getters of one attribute returned *)
Record aobs := mkAobs { o_has : bool; o_bool : bool; o_int : Z; o_col : Z; o_hasrgb : bool; o_rgb : rgb }.
Definition pobs := attr -> aobs.

Definition observe (p : pen) : pobs :=
  fun a => mkAobs (has_attr p a) (get_bool p a) (get_int p a) (get_colour p a) (has_rgb p a) (get_rgb p a).

(* the typed reading contained in an observation *)
Definition obs_value (a : attr) (o : aobs) : value :=
  match attr_type a with
  | TBool => VBool (o_bool o)
  | TInt => VInt (o_int o)
  | TColour => VCol (o_col o) (if o_hasrgb o then Some (o_rgb o) else None)
  | TNone => VBool false
  end.

Definition agree_attr (a : attr) (s : slot) (o : aobs) : bool :=
  match s with
  | Unknown => true
  | Absent => negb (o_has o) && value_eqb (obs_value a o) (default_of a)
              && (match attr_type a with TColour => rgb_eqb (o_rgb o) rgb_zero | _ => true end)
  | Present v => o_has o && value_eqb (obs_value a o) v
                 && (match a, v with UNDER, VInt z => Bool.eqb (o_bool o) (z >? 0) | _, _ => true end)
  end.

Definition agree (s : spen) (o : pobs) : bool :=
  forallb (fun a => agree_attr a (s a) (o a)) all_attrs && negb (o_has (o AOther)).

Definition known (s : spen) : bool :=
  forallb (fun a => match s a with Unknown => false | _ => true end) all_attrs.

Definition slot_reads (a : attr) (s : slot) : value :=
  match s with Present v => v | _ => default_of a end.

Definition s_equiv (x y : spen) : bool :=
  forallb (fun a => value_eqb (slot_reads a (x a)) (slot_reads a (y a))) all_attrs.

Definition pidxs : list pidx := [P0; P1; P2].

(* the reported equivalence matrix is an equivalence relation, and agrees with "every
   attribute reads the same" wherever both dictionaries are fully known *)
Definition equiv_matrix_ok (ss : pidx -> spen) (e : pidx -> pidx -> bool) : bool :=
  forallb (fun i => e i i) pidxs &&
  forallb (fun i => forallb (fun j => Bool.eqb (e i j) (e j i)) pidxs) pidxs &&
  forallb (fun i => forallb (fun j => forallb (fun k =>
     implb (e i j && e j k) (e i k)) pidxs) pidxs) pidxs &&
  forallb (fun i => forallb (fun j =>
     implb (known (ss i) && known (ss j)) (Bool.eqb (e i j) (s_equiv (ss i) (ss j)))) pidxs) pidxs.

(* per operation: return value and the dump of the written pen *)
Fixpoint check_ops (ss : pidx -> spen) (ops : list pop) (obs : list (bool * pobs))
  : option (pidx -> spen) :=
  match ops, obs with
  | [], [] => Some ss
  | o :: r, (ret, po) :: r' =>
    let ss1 := s_step ss o ret in
    if step_ret_ok o ret && agree (ss1 (target o)) po then check_ops ss1 r r' else None
  | _, _ => None
  end.

Definition check_case (ops : list pop) (obs : list (bool * pobs))
                      (final : pidx -> pobs) (e : pidx -> pidx -> bool) : bool :=
  match check_ops (fun _ => s_empty) ops obs with
  | Some ss => forallb (fun i => agree (ss i) (final i)) pidxs && equiv_matrix_ok ss e
  | None => false
  end.
