(* Property C16: handlers fire once per event, in order, never after unbind, even
   re-entrantly (src/bindings.c).  This file contains nothing but the property theorems,
   each closed by [exact <lemma>] and followed by Print Assumptions.

   Setting (BindDefs.v): [run fixed env fuel ops] executes the history [ops] of bind /
   unbind / emit / emit-whilefalse / destroy calls on the model of bindings.c with
   fixes/C16-*.patch applied; whenever the C would call a handler the environment [env]
   -- an ARBITRARY function of the trace so far, the handler, the binding and the event
   flags -- says which further calls that handler makes (at any nesting depth) and what it
   returns.  [wt w] is the resulting trace (newest event first): application calls with
   their results and handler invocations, bracketed.  [verdict] (BindSpec.v) is the
   reference monitor that replays the trace on a plain list of live bindings with
   immediate removal and names the first clause of the property that is broken, if any.

   Hypotheses: [env_ok env] -- handlers bind, unbind and emit (event numbers >= 0) but do
   not destroy the object they are being called by; [Forall top_ok ops] -- event numbers
   >= 0.  Every theorem holds for every fuel for which the run completes. *)
From Coq Require Import ZArith List Bool.
From Tickit Require Import BindDefs BindSpec BindProofs BindAbs BindRefine BindCorollaries.
Import ListNotations.
Local Open Scope Z_scope.

(* the run never follows a dangling node pointer and never calls a NULL handler *)
Theorem C16_no_fault : forall env, env_ok env -> forall ops, Forall top_ok ops ->
  forall fuel, run fixed env fuel ops <> Fault.
Proof. exact no_fault. Qed.
Print Assumptions C16_no_fault.

(* the whole property: the monitor accepts the trace *)
Theorem C16_trace_accepted : forall env, env_ok env -> forall ops, Forall top_ok ops ->
  forall fuel w r, run fixed env fuel ops = Ok (w, r) -> verdict (rev (wt w)) = None.
Proof. exact trace_accepted. Qed.
Print Assumptions C16_trace_accepted.

(* ... and clause by clause (each is what [verdict] reports under that name, see the head
   of BindSpec.v; all of them follow from C16_trace_accepted) *)

(* every FIRE invocation is of a binding that is live at that moment and bound to the
   emitted event: never after unbind, a one-shot at most once even when re-entered *)
Theorem C16_only_live : forall env, env_ok env -> forall ops, Forall top_ok ops ->
  forall fuel w r, run fixed env fuel ops = Ok (w, r) -> verdict (rev (wt w)) <> Some ENotLive.
Proof. exact (clause_holds ENotLive). Qed.
Print Assumptions C16_only_live.

(* within one occurrence no binding is invoked twice and invocations follow list order
   (bound FIRST ahead of everything bound before, others in binding order); nothing fires
   after a run_event_whilefalse occurrence was claimed *)
Theorem C16_once_in_order : forall env, env_ok env -> forall ops, Forall top_ok ops ->
  forall fuel w r, run fixed env fuel ops = Ok (w, r) -> verdict (rev (wt w)) <> Some EOrder.
Proof. exact (clause_holds EOrder). Qed.
Print Assumptions C16_once_in_order.

(* a binding live for the emitted event at the start of an occurrence and still live at
   its end was invoked in it (whilefalse: unless an earlier handler claimed the event) *)
Theorem C16_all_served : forall env, env_ok env -> forall ops, Forall top_ok ops ->
  forall fuel w r, run fixed env fuel ops = Ok (w, r) -> verdict (rev (wt w)) <> Some ENotServed.
Proof. exact (clause_holds ENotServed). Qed.
Print Assumptions C16_all_served.

(* a binding that asked for it receives exactly one UNBIND invocation when it is unbound,
   nobody else does; a one-shot is fired with FIRE|UNBIND *)
Theorem C16_unbind_once : forall env, env_ok env -> forall ops, Forall top_ok ops ->
  forall fuel w r, run fixed env fuel ops = Ok (w, r) -> verdict (rev (wt w)) <> Some EUnbind.
Proof. exact (clause_holds EUnbind). Qed.
Print Assumptions C16_unbind_once.

(* destruction notifies exactly the live bindings that asked (UNBIND or DESTROY flag, or
   bound to the destroy event 0), once each, with UNBIND|DESTROY, in REVERSE LIST ORDER --
   the reading of "newest first" adopted here (man/tickit.7: "invoked in reverse order;
   the newest is run first"; a binding made FIRST is at the head and is told last) *)
Theorem C16_destroy : forall env, env_ok env -> forall ops, Forall top_ok ops ->
  forall fuel w r, run fixed env fuel ops = Ok (w, r) -> verdict (rev (wt w)) <> Some EDestroy.
Proof. exact (clause_holds EDestroy). Qed.
Print Assumptions C16_destroy.

(* every id bind returns is positive and not the id of a live binding ... *)
Theorem C16_ids_fresh : forall env, env_ok env -> forall ops, Forall top_ok ops ->
  forall fuel w r, run fixed env fuel ops = Ok (w, r) -> verdict (rev (wt w)) <> Some EIds.
Proof. exact (clause_holds EIds). Qed.
Print Assumptions C16_ids_fresh.

(* ... and in the list itself the ids of live bindings are pairwise distinct and positive *)
Theorem C16_ids_unique : forall env, env_ok env -> forall ops, Forall top_ok ops ->
  forall fuel w r, run fixed env fuel ops = Ok (w, r) -> ids_ok (ws w) = true.
Proof. exact ids_unique. Qed.
Print Assumptions C16_ids_unique.

(* outside any occurrence the list contains no tombstone, no sweep is pending and the
   iteration guard is down *)
Theorem C16_sweep : forall env, env_ok env -> forall ops, Forall top_ok ops ->
  forall fuel w r, run fixed env fuel ops = Ok (w, r) -> swept (ws w) = true.
Proof. exact sweep. Qed.
Print Assumptions C16_sweep.

(* In plain terms, for any trace the monitor accepts: an invocation that carries the UNBIND
   flag (an unbind notification, a one-shot being fired, a destroy notification) is the
   last invocation of that binding -- hence "after being unbound a handler never runs
   again", "a one-shot handler runs at most once", "exactly one unbind notification". *)
Theorem C16_unbind_is_last : forall env, env_ok env -> forall ops, Forall top_ok ops ->
  forall fuel w r, run fixed env fuel ops = Ok (w, r) ->
  forall t1 name flags t2, rev (wt w) = t1 ++ TCallB name flags :: t2 ->
  has flags EV_UNBIND = true -> forall flags', ~ In (TCallB name flags') t2.
Proof. exact unbind_is_last. Qed.
Print Assumptions C16_unbind_is_last.

(* "tombstones + deferred sweep = immediate removal": every completed run is matched, event
   for event and result for result, by a run of the machine of BindAbs.v -- the same API
   over a tombstone-free list from which a binding is removed the moment it is unbound,
   consumed or destroyed, with no iteration guard and no sweep, whose iteration cursor is
   a name and therefore survives the removal of the node it stands on; at the end the two
   lists are equal.  ([aeval] is relational and fuel-free; the handlers are the same
   [env].) *)
Theorem C16_refines : forall env, env_ok env -> forall ops, Forall top_ok ops ->
  forall fuel w r, run fixed env fuel ops = Ok (w, r) ->
  exists aw, aeval env (AActs ops) ainit aw r /\
             atr aw = wt w /\ al aw = first (ws w) /\ an aw = wn w.
Proof. exact refines. Qed.
Print Assumptions C16_refines.

(* the two one-shot deviations of the unchanged library (DESIGN section 11, #15), on the
   model of the pinned run_event / run_event_whilefalse: a one-shot handler that re-emits
   its event is entered again; run_event_whilefalse fires a one-shot on every occurrence *)
Theorem C16_oneshot_reentrant_refuted : exists env ops fuel w r,
  env_ok env /\ Forall top_ok ops /\ run pinned env fuel ops = Ok (w, r) /\
  verdict (rev (wt w)) = Some ENotLive.
Proof. exact oneshot_reentrant_refuted. Qed.
Print Assumptions C16_oneshot_reentrant_refuted.

Theorem C16_oneshot_whilefalse_refuted : exists env ops fuel w r,
  env_ok env /\ Forall top_ok ops /\ run pinned env fuel ops = Ok (w, r) /\
  verdict (rev (wt w)) = Some EUnbind.
Proof. exact oneshot_whilefalse_refuted. Qed.
Print Assumptions C16_oneshot_whilefalse_refuted.

(* non-vacuity: a history with a re-entrant one-shot, an unbind of a later binding from
   inside a handler, a binding made during the occurrence and a destruction completes, and
   invokes handlers 7 times *)
Example C16_nonvacuous : exists env ops fuel w r,
  env_ok env /\ Forall top_ok ops /\ run fixed env fuel ops = Ok (w, r) /\
  length (filter (fun e => match e with TCallB _ _ => true | _ => false end) (wt w)) = 7%nat.
Proof. exact nonvacuous. Qed.
