(* WinReFlushSim.v -- WinReFlush.v, part 2: the LIVE traversal do_expose2 (everything looked up in
   the current state by window id, on fuel) against the traversal do_expose_re of WinReDefs.v
   (the child lists of the tree the rectangle started on, flags and child-ness read live).

   When the handlers make only the calls of WinReDefs.v (expose / show / hide / restack / close
   / destroy -- no nested flush, no geometry change) the two flushes are THE SAME, state,
   terminal and expose log (flush2_conservative); in particular with no calls at all the new
   flush is the plain one (flush2_pure).

   Why: none of those calls changes the order of a child list or a rectangle while the flush
   runs.  [tracks t s]: the window that was t when the rectangle started is found in the forest
   of s with t's rectangle and with, as its child list, the entries of t's list that are still
   its children.  Every old call keeps that for every window of the tree (run_act_sim), and
   never makes a window a child again (Mono).  So the copy of the child list the live
   traversal takes when it starts on a window is the static list minus the entries the static
   traversal skips anyway. *)
From Coq Require Import ZArith List Bool Lia ZifyBool Permutation.
From Tickit Require Import RectDefs RectProofs WinRectSet WinRectSetProofs WinDefs WinHist WinSpec
  WinExposeProofs WinFlushProofs WinLogDisjoint WinScreenInv WinLocality WinLocFocus WinPreserve WinInput
  WinReDefs WinReProofs WinReFlags WinReStatic WinReLive WinReTrav WinReLocal WinReEstablish
  WinReForest WinReFlush WinReFlushProofs.
From Tickit Require WinInputProofs.
Import ListNotations.
Local Open Scope Z_scope.
Local Strategy 1000 [rsfuel efuel].

(* ------------------------------------------------------------------------------------ *)
(* the old calls among the new                                                           *)

Definition proj_acts (l : list ract2) : list ract :=
  flat_map (fun a => match a with RA a' => [a'] | _ => [] end) l.

Definition old_only (racts2 : Z -> list ract2) : Prop :=
  forall id a, In a (racts2 id) -> exists a', a = RA a'.

Lemma fs_set_root_id s : fs_set_root s (fs_root s) = s.
Proof. destruct s; reflexivity. Qed.

Lemma run_acts2_old cfg hnd l : (forall a, In a l -> exists a', a = RA a') ->
  forall s, run_acts2 cfg hnd l s = fs_set_root s (run_acts cfg (proj_acts l) (fs_root s)).
Proof.
  unfold run_acts2, run_acts. induction l as [|a l IH]; intros H s.
  - cbn [fold_left proj_acts flat_map]. symmetry. apply fs_set_root_id.
  - destruct (H a (or_introl eq_refl)) as [a' ->].
    cbn [fold_left proj_acts flat_map List.app run_act2]. fold (proj_acts l).
    rewrite IH by (intros x Hx; apply H; right; exact Hx).
    destruct s; reflexivity.
Qed.

(* ------------------------------------------------------------------------------------ *)
(* lists                                                                                 *)

Lemma filter_filter {A} (f g : A -> bool) l : filter f (filter g l) = filter (fun x => g x && f x) l.
Proof.
  induction l as [|a l IH]; [reflexivity|]. cbn [filter].
  destruct (g a); cbn [filter andb]; [destruct (f a)|]; rewrite IH; reflexivity.
Qed.

Lemma map_filter_id (p : Z -> bool) (l : list wtree) :
  map t_id (filter (fun c => p (t_id c)) l) = filter p (map t_id l).
Proof.
  induction l as [|a l IH]; [reflexivity|]. cbn [filter map].
  destruct (p (t_id a)); cbn [map]; rewrite IH; reflexivity.
Qed.

(* ------------------------------------------------------------------------------------ *)
(* lookups and skeletons                                                                 *)

Lemma t_find_skel x : forall t, t_find x (skel t) = option_map skel (t_find x t).
Proof.
  induction t as [i ch IH] using IP.wtree_ind'. rewrite skel_node, !IP.t_find_eq.
  cbn [skel_i w_id]. destruct (w_id i =? x); [reflexivity|].
  induction IH as [|c r Hc _ IHr]; [reflexivity|]. cbn [map first_some]. rewrite Hc.
  destruct (t_find x c); cbn [option_map]; [reflexivity|exact IHr].
Qed.

Lemma skel_kid_ids n n' : skel n' = skel n ->
  w_rect (t_info n') = w_rect (t_info n) /\ map t_id (t_kids n') = map t_id (t_kids n).
Proof.
  intros E. destruct (skel_eq_root _ _ E) as [_ Hr]. split; [exact Hr|].
  destruct n as [i ch], n' as [i' ch']. rewrite !skel_node in E. injection E as _ _ E.
  cbn [t_kids]. apply (f_equal (map t_id)) in E. rewrite !map_map in E.
  erewrite (map_ext (fun c => t_id (skel c)) t_id) in E by (intros c; unfold t_id; rewrite skel_info; reflexivity).
  erewrite (map_ext (fun c => t_id (skel c)) t_id) in E by (intros c; unfold t_id; rewrite skel_info; reflexivity).
  exact E.
Qed.

Lemma f_find_skel s s' x n :
  skel (r_tree s') = skel (r_tree s) -> r_orphans s' = r_orphans s ->
  f_find s x = Some n -> exists n', f_find s' x = Some n' /\ skel n' = skel n.
Proof.
  intros Hsk Ho. unfold f_find, forest. cbn [first_some]. rewrite Ho.
  pose proof (t_find_skel x (r_tree s)) as H1. pose proof (t_find_skel x (r_tree s')) as H2.
  rewrite Hsk, H1 in H2.
  destruct (t_find x (r_tree s)) as [m|]; destruct (t_find x (r_tree s')) as [m'|];
    cbn [option_map] in H2; try discriminate.
  - intros E. injection E as <-. exists m'. split; [reflexivity|]. injection H2 as H2. symmetry. exact H2.
  - intros E. exists n. split; [exact E|reflexivity].
Qed.

(* ------------------------------------------------------------------------------------ *)
(* show and hide of ANY window keep the skeleton and the orphans                          *)

Lemma win_show_keeps cfg st id :
  skel (r_tree (win_show cfg st id)) = skel (r_tree st) /\ r_orphans (win_show cfg st id) = r_orphans st.
Proof.
  destruct (t_chain id (r_tree st)) as [[|w [|p rest]]|] eqn:E.
  - unfold win_show. rewrite E. cbn [andb]. rewrite win_expose_tree, win_expose_orphans.
    split; [apply skel_update; apply keeps_shape_vis|reflexivity].
  - unfold win_show. rewrite E. cbn [andb]. rewrite win_expose_tree, win_expose_orphans.
    split; [apply skel_update; apply keeps_shape_vis|reflexivity].
  - rewrite (win_show_unfold cfg st id w p rest E), win_expose_tree, win_expose_orphans, r_tree_show_pre.
    split; [apply show_tree_skel|]. unfold show_pre. rewrite orphans_cond. reflexivity.
  - unfold win_show. rewrite E. split; reflexivity.
Qed.

Lemma win_hide_keeps cfg st id :
  skel (r_tree (win_hide cfg st id)) = skel (r_tree st) /\ r_orphans (win_hide cfg st id) = r_orphans st.
Proof.
  destruct (t_chain id (r_tree st)) as [[|w [|p rest]]|] eqn:E.
  - unfold win_hide. rewrite E. split; [apply skel_update; apply keeps_shape_vis|reflexivity].
  - unfold win_hide. rewrite E. split; [apply skel_update; apply keeps_shape_vis|reflexivity].
  - rewrite (win_hide_unfold cfg st id w p rest E), win_expose_tree, win_expose_orphans, r_tree_hide_pre.
    split; [apply hide_tree_skel|]. unfold hide_pre. rewrite orphans_cond. reflexivity.
  - unfold win_hide. rewrite E. split; reflexivity.
Qed.

(* every old call either keeps skeleton and orphans, or is an effective close *)
Lemma act_cases cfg s a :
  IP.ids_unique s ->
  (skel (r_tree (run_act cfg s a)) = skel (r_tree s) /\ r_orphans (run_act cfg s a) = r_orphans s) \/
  exists w n0, run_act cfg s a = win_close cfg s w /\ t_find w (r_tree s) = Some n0 /\ w <> t_id (r_tree s).
Proof.
  intros Hfu. pose proof (forest_tree_nodup s Hfu) as Hu.
  assert (Hclose : forall w,
            (skel (r_tree (win_close cfg s w)) = skel (r_tree s) /\ r_orphans (win_close cfg s w) = r_orphans s) \/
            exists n0, t_find w (r_tree s) = Some n0 /\ w <> t_id (r_tree s)).
  { intros w. destruct (t_find w (r_tree s)) as [n0|] eqn:Ef.
    - destruct (Z.eq_dec w (t_id (r_tree s))) as [->|Hne].
      + left. rewrite win_close_noop; [split; reflexivity|exact Hu|right; reflexivity].
      + right. exists n0. split; [reflexivity|exact Hne].
    - left. rewrite win_close_noop; [split; reflexivity|exact Hu|left; exact Ef]. }
  destruct a as [id r|y|y|k id|w|w]; cbn [run_act].
  - left. rewrite win_expose_tree, win_expose_orphans. split; reflexivity.
  - left. apply win_show_keeps.
  - left. apply win_hide_keeps.
  - left. rewrite win_restack_tree. split; [reflexivity|].
    unfold win_restack. destruct (t_parent_id id (r_tree s)); [|reflexivity]. destruct (r_queue s); reflexivity.
  - destruct (Hclose w) as [H|(n0 & Hf & Hne)]; [left; exact H|right; exists w, n0; tauto].
  - destruct (Hclose w) as [H|(n0 & Hf & Hne)]; [left; exact H|right; exists w, n0; tauto].
Qed.

(* ------------------------------------------------------------------------------------ *)
(* an effective close, seen from the forest                                              *)

Lemma sub_cut_inv w : forall t x, IP.sub x (IP.cut w t) -> exists y, IP.sub y t /\ x = IP.cut w y.
Proof.
  induction t as [i ch IH] using IP.wtree_ind'. intros x Hx.
  apply IP.sub_inv in Hx. destruct Hx as [->|(k & Hk & Hxk)].
  - exists (Node i ch). split; [apply IP.sub_refl|reflexivity].
  - rewrite IP.cut_kids in Hk. apply in_map_iff in Hk. destruct Hk as (k0 & <- & Hk0).
    apply kids_remove_in in Hk0. destruct Hk0 as [Hk0 _].
    rewrite Forall_forall in IH. destruct (IH k0 Hk0 x Hxk) as (y & Hy & ->).
    exists y. split; [|reflexivity]. eapply IP.sub_kid; [|exact Hy]. exact Hk0.
Qed.

Lemma cut_kid_ids w n :
  map t_id (t_kids (IP.cut w n)) = filter (fun c => negb (c =? w)) (map t_id (t_kids n)).
Proof.
  destruct n as [i ch]. rewrite IP.cut_kids. cbn [t_kids]. rewrite map_map.
  erewrite (map_ext (fun c => t_id (IP.cut w c)) t_id) by (intros c; apply IP.cut_id_eq).
  unfold kids_remove. apply (map_filter_id (fun c => negb (c =? w))).
Qed.

Lemma close_forest_facts cfg s w n0 :
  IP.ids_unique s -> t_find w (r_tree s) = Some n0 -> w <> t_id (r_tree s) ->
  IP.ids_unique (win_close cfg s w) /\
  (forall x n, f_find s x = Some n -> f_find (win_close cfg s w) x = Some (IP.cut w n)) /\
  (forall c a, f_parent s c = Some a -> c <> w -> f_parent (win_close cfg s w) c = Some a) /\
  f_parent (win_close cfg s w) w = None /\
  (forall c a, f_parent (win_close cfg s w) c = Some a -> f_parent s c = Some a).
Proof.
  intros Hfu Hf Hne.
  destruct (IP.close_props cfg s w n0 Hfu Hf Hne) as [CP1 CP2].
  destruct (IP.win_close_forest cfg s w n0 Hfu Hf Hne) as [Ht Ho].
  destruct (IP.t_find_sub _ _ _ Hf) as [Hsub0 Hid0].
  split; [exact CP1|]. split; [|split; [|split]].
  - intros x n Hx. destruct (IP.f_find_sub _ _ _ Hx) as [Hs Hid].
    pose proof (IP.f_find_unique _ _ CP1 (CP2 n Hs)) as Hx'. rewrite IP.cut_id_eq, Hid in Hx'. exact Hx'.
  - intros c a Hp Hcw. destruct (f_parent_inv s c a Hp) as (p & c' & Hs & Hidp & Hc' & Hidc).
    subst a c.
    pose proof (IP.f_parent_unique _ _ _ CP1 (CP2 p Hs) (IP.cut_kid_in w p c' Hc' Hcw)) as H.
    rewrite !IP.cut_id_eq in H. exact H.
  - assert (Hin : In n0 (r_orphans (win_close cfg s w))) by (rewrite Ho; left; reflexivity).
    pose proof (orphan_root_noparent _ n0 CP1 Hin) as H. rewrite Hid0 in H. exact H.
  - intros c a Hp. destruct (f_parent_inv _ c a Hp) as (p' & c' & (t & Ht' & Hs') & Hidp & Hc' & Hidc).
    unfold forest in Ht'. rewrite Ht, Ho in Ht'. destruct Ht' as [<-|[<-|Ht']].
    + destruct (sub_cut_inv w _ _ Hs') as (p & Hp0 & ->).
      destruct p as [ip chp]. rewrite IP.cut_kids in Hc'. apply in_map_iff in Hc'.
      destruct Hc' as (c0 & <- & Hc0). apply kids_remove_in in Hc0. destruct Hc0 as [Hc0 _].
      rewrite IP.cut_id_eq in Hidc, Hidp. subst a c.
      apply (IP.f_parent_unique s (Node ip chp) c0 Hfu); [|exact Hc0].
      exists (r_tree s). split; [left; reflexivity|exact Hp0].
    + subst a c. apply (IP.f_parent_unique s p' c' Hfu); [|exact Hc'].
      exists (r_tree s). split; [left; reflexivity|]. eapply IP.sub_trans; eassumption.
    + subst a c. apply (IP.f_parent_unique s p' c' Hfu); [|exact Hc'].
      exists t. split; [right; exact Ht'|exact Hs'].
Qed.

(* ------------------------------------------------------------------------------------ *)
(* tracking the windows of the tree a rectangle started on                               *)

Definition tracks (t : wtree) (s : root) : Prop :=
  exists n, f_find s (t_id t) = Some n /\ w_rect (t_info n) = w_rect (t_info t) /\
            map t_id (t_kids n) = filter (fun c => child_now s (t_id t) c) (map t_id (t_kids t)).

Definition Sim (T : wtree) (s : root) : Prop :=
  IP.ids_unique s /\ forall t, subtree t T -> tracks t s.

(* nothing becomes a child (again) *)
Definition Mono (s s' : root) : Prop := forall w c, child_now s' w c = true -> child_now s w c = true.

Lemma Mono_refl s : Mono s s.
Proof. intros w c H. exact H. Qed.

Lemma Mono_trans a b c : Mono a b -> Mono b c -> Mono a c.
Proof. intros H1 H2 w x H. apply H1. apply H2. exact H. Qed.

Lemma filter_all_true {A} (f : A -> bool) l : (forall x, In x l -> f x = true) -> filter f l = l.
Proof.
  induction l as [|a l IH]; intros H; [reflexivity|]. cbn [filter].
  rewrite (H a (or_introl eq_refl)), IH; [reflexivity|]. intros x Hx. apply H. right; exact Hx.
Qed.

Lemma sim_start s : IP.ids_unique s -> Sim (r_tree s) s.
Proof.
  intros Hfu. pose proof (forest_tree_nodup s Hfu) as Hu. split; [exact Hfu|].
  intros t Ht. exists t. split; [apply (f_find_tree s t Hu Ht)|]. split; [reflexivity|].
  symmetry. apply filter_all_true. intros x Hx. apply in_map_iff in Hx. destruct Hx as (c & <- & Hc).
  unfold child_now. rewrite (f_parent_tree s t c Hu Ht Hc). apply opt_is_refl.
Qed.

Theorem run_act_sim cfg T s a : Sim T s -> Sim T (run_act cfg s a) /\ Mono s (run_act cfg s a).
Proof.
  intros [Hfu Htr].
  destruct (act_cases cfg s a Hfu) as [[Hsk Ho]|(w & n0 & E & Hf & Hne)].
  - (* skeleton and orphans kept: every lookup gives a node of the same shape *)
    assert (Hpar : forall x, f_parent (run_act cfg s a) x = f_parent s x).
    { intros x. apply f_parent_skel. unfold forest. cbn [map]. rewrite Hsk, Ho. reflexivity. }
    assert (Hchild : forall x c, child_now (run_act cfg s a) x c = child_now s x c).
    { intros x c. unfold child_now. rewrite Hpar. reflexivity. }
    split; [split|].
    + apply (same_ids_unique s); [|exact Hfu]. split; [apply skel_eq_ids; exact Hsk|exact Ho].
    + intros t Ht. destruct (Htr t Ht) as (n & Hn & Hr & Hk).
      destruct (f_find_skel s _ (t_id t) n Hsk Ho Hn) as (n' & Hn' & Hskn).
      destruct (skel_kid_ids n n' Hskn) as [Hr' Hk'].
      exists n'. split; [exact Hn'|]. split; [congruence|].
      rewrite Hk', Hk. apply filter_ext. intros c. symmetry. apply Hchild.
    + intros x c H. rewrite Hchild in H. exact H.
  - rewrite E.
    destruct (close_forest_facts cfg s w n0 Hfu Hf Hne) as (Hfu' & Hfind & Hkeep & Hw & Hback).
    assert (Hchild : forall x c, child_now (win_close cfg s w) x c = child_now s x c && negb (c =? w)).
    { intros x c. unfold child_now. destruct (Z.eq_dec c w) as [->|Hcw].
      - rewrite Hw, Z.eqb_refl, andb_false_r. reflexivity.
      - replace (c =? w) with false by lia. rewrite andb_true_r.
        destruct (f_parent s c) as [a0|] eqn:Ep.
        + rewrite (Hkeep c a0 Ep Hcw). reflexivity.
        + destruct (f_parent (win_close cfg s w) c) as [a1|] eqn:Ep'; [|reflexivity].
          rewrite (Hback c a1 Ep') in Ep. discriminate. }
    split; [split; [exact Hfu'|]|].
    + intros t Ht. destruct (Htr t Ht) as (n & Hn & Hr & Hk).
      exists (IP.cut w n). split; [apply Hfind; exact Hn|]. split.
      * destruct (cut_info w n) as [_ H]. congruence.
      * rewrite cut_kid_ids, Hk, filter_filter. apply filter_ext. intros c. symmetry. apply Hchild.
    + intros x c H. rewrite Hchild in H. apply andb_true_iff in H. tauto.
Qed.

Lemma run_acts_sim cfg T acts : forall s, Sim T s -> Sim T (run_acts cfg acts s) /\ Mono s (run_acts cfg acts s).
Proof.
  unfold run_acts. induction acts as [|a rest IH]; intros s HS.
  - cbn [fold_left]. split; [exact HS|apply Mono_refl].
  - cbn [fold_left]. destruct (run_act_sim cfg T s a HS) as [H1 M1].
    destruct (IH _ H1) as [H2 M2]. split; [exact H2|]. eapply Mono_trans; eassumption.
Qed.

Lemma re_handler_sim cfg hnd racts T s0 :
  rh_keeps (fun x => Sim T x /\ Mono s0 x) (re_handler cfg hnd racts).
Proof.
  intros id r sb [HS HM]. unfold re_handler. cbn [fst].
  destruct (run_acts_sim cfg T (racts id) _ HS) as [H1 M1].
  split; [exact H1|]. eapply Mono_trans; eassumption.
Qed.

Lemma trav_sim cfg hnd racts T t r s b :
  Sim T s ->
  Sim T (fst (do_expose_re (re_handler cfg hnd racts) t r (s, b))) /\
  Mono s (fst (do_expose_re (re_handler cfg hnd racts) t r (s, b))).
Proof.
  intros HS.
  apply (do_expose_re_fst_inv (fun x => Sim T x /\ Mono s x) _ (re_handler_sim cfg hnd racts T s) t r (s, b)).
  split; [exact HS|apply Mono_refl].
Qed.

(* ------------------------------------------------------------------------------------ *)
(* the simulation                                                                        *)

Section sim.
  Variables (cfg : defects) (hnd : handler) (racts : Z -> list ract) (racts2 : Z -> list ract2).
  Hypothesis Hacts : forall id s,
    run_acts2 cfg hnd (racts2 id) s = fs_set_root s (run_acts cfg (racts id) (fs_root s)).
  Let rh := re_handler cfg hnd racts.
  Let rh2 := re_handler2 cfg hnd racts2.

  Definition sim_at (t : wtree) : Prop :=
    forall T f r fs b, subtree t T -> (IP.height t <= f)%nat -> Sim T (fs_root fs) ->
      do_expose2 f rh2 (t_id t) r (fs, b) =
      (mkFS (fst (do_expose_re rh t r (fs_root fs, b))) (fs_term fs)
            (fs_log fs ++ expose_log_re rh t r (fs_root fs, b)),
       snd (do_expose_re rh t r (fs_root fs, b))).

  Lemma kids_sim T w r f : forall l,
    Forall sim_at l -> (forall c, In c l -> subtree c T /\ (IP.height c <= f)%nat) ->
    forall st0 fs b, Sim T (fs_root fs) ->
      (forall c, In c (map t_id l) -> child_now (fs_root fs) w c = true -> child_now st0 w c = true) ->
      fold_left (kid_body2 f rh2 w r) (filter (fun c => child_now st0 w c) (map t_id l)) (fs, b) =
      (mkFS (fst (expose_kids_re rh w r l (fs_root fs, b))) (fs_term fs)
            (fs_log fs ++ log_kids_re rh w r l (fs_root fs, b)),
       snd (expose_kids_re rh w r l (fs_root fs, b))).
  Proof.
    induction 1 as [|c rest Hc _ IH]; intros Hsub st0 fs b HS HM.
    - cbn [map filter fold_left expose_kids_re log_kids_re fst snd]. rewrite app_nil_r. destruct fs; reflexivity.
    - assert (Hsub' : forall c0, In c0 rest -> subtree c0 T /\ (IP.height c0 <= f)%nat).
      { intros c0 Hin. apply Hsub. right; exact Hin. }
      destruct (Hsub c (or_introl eq_refl)) as [HcT Hch].
      assert (HM' : forall st1, Mono (fs_root fs) st1 ->
                  forall c0, In c0 (map t_id rest) -> child_now st1 w c0 = true -> child_now st0 w c0 = true).
      { intros st1 Hmono c0 Hin H1. apply HM; [right; exact Hin|]. apply Hmono. exact H1. }
      cbn [map filter]. cbn [expose_kids_re log_kids_re fst snd]. fold (t_id c).
      destruct (child_now st0 w (t_id c)) eqn:E0.
      2:{ (* not in the copy: the static walk skips it too *)
          assert (Ek : child_now (fs_root fs) w (t_id c) = false).
          { destruct (child_now (fs_root fs) w (t_id c)) eqn:Ek; [|reflexivity].
            rewrite (HM (t_id c) (or_introl eq_refl) Ek) in E0. discriminate. }
          rewrite Ek. cbn [negb]. apply (IH Hsub' st0 fs b HS). apply (HM' _ (Mono_refl _)). }
      cbn [fold_left]. unfold kid_body2 at 2. cbn [fst snd].
      destruct (child_now (fs_root fs) w (t_id c)) eqn:Ek; cbn [negb].
      2:{ apply (IH Hsub' st0 fs b HS). apply (HM' _ (Mono_refl _)). }
      destruct HS as [Hfu Htr]. destruct (Htr c HcT) as (cn & Hcn & Hrect & _).
      rewrite Hcn. unfold vis_now, node_now. rewrite Hcn. rewrite Hrect.
      destruct (negb (w_vis (t_info cn))).
      { apply (IH Hsub' st0 fs b (conj Hfu Htr)). apply (HM' _ (Mono_refl _)). }
      destruct (r_intersect r (w_rect (t_info c))) as [ex|] eqn:Hex.
      + (* the child is exposed *)
        set (b1 := rb_translate (rb_clip_to (rb_save b) ex) (top (w_rect (t_info c))) (left (w_rect (t_info c)))).
        set (r' := r_translate ex (- top (w_rect (t_info c))) (- left (w_rect (t_info c)))).
        rewrite (Hc T f r' fs b1 HcT Hch (conj Hfu Htr)). cbn [fst snd fs_root].
        destruct (trav_sim cfg hnd racts T c r' (fs_root fs) b1 (conj Hfu Htr)) as [HS2 HM2].
        fold rh in HS2, HM2.
        set (sb2 := do_expose_re rh c r' (fs_root fs, b1)) in *.
        destruct HS2 as [Hfu2 Htr2]. destruct (Htr2 c HcT) as (cn2 & Hcn2 & Hrect2 & _).
        rewrite Hcn2, Hrect2.
        rewrite (IH Hsub' st0 (mkFS (fst sb2) (fs_term fs) (fs_log fs ++ expose_log_re rh c r' (fs_root fs, b1)))
                    (if child_now (fst sb2) w (t_id c) then rb_mask_rect (rb_restore (snd sb2)) (w_rect (t_info c))
                     else rb_restore (snd sb2)) (conj Hfu2 Htr2) (HM' _ HM2)).
        cbn [fs_root fs_term fs_log]. rewrite <- app_assoc.
        destruct (child_now (fst sb2) w (t_id c)); reflexivity.
      + (* the child does not meet the rectangle *)
        cbn [fst snd fs_root]. rewrite Ek, Hcn, Hrect.
        apply (IH Hsub' st0 fs (rb_mask_rect b (w_rect (t_info c))) (conj Hfu Htr)). apply (HM' _ (Mono_refl _)).
  Qed.

  Theorem do_expose2_sim : forall t, sim_at t.
  Proof.
    apply (wtree_ind2 sim_at). intros i ch IH T f r fs b HtT Hh HS.
    destruct f as [|f]; [pose proof (IP.height_kid) as _; cbn [IP.height] in Hh; lia|].
    pose proof HS as [Hfu Htr]. destruct (Htr _ HtT) as (n & Hn & _ & Hk).
    change (t_id (Node i ch)) with (w_id i) in *. cbn [t_kids] in Hk.
    rewrite do_expose2_S, do_expose_re_unfold, expose_log_re_unfold. cbn [fst].
    unfold kids_now. rewrite Hn, Hk.
    rewrite (kids_sim T (w_id i) r f ch IH) with (st0 := fs_root fs).
    - unfold rh2, rh, re_handler2, re_handler. cbn [fst snd fs_root fs_term fs_log].
      rewrite Hacts. cbn [fs_set_root fs_root fs_term fs_log]. rewrite <- app_assoc. reflexivity.
    - intros c Hc. split; [eapply subtree_trans; [apply (subtree_kid c (Node i ch)); exact Hc|exact HtT]|].
      pose proof (IP.height_kid c (Node i ch) Hc) as H. lia.
    - exact HS.
    - intros c _ H. exact H.
  Qed.
End sim.

(* ------------------------------------------------------------------------------------ *)
(* heights: the fuel suffices                                                            *)

Definition hmax (l : list wtree) : nat := fold_right (fun c m => Nat.max (IP.height c) m) 0%nat l.

Lemma height_node i ch : IP.height (Node i ch) = S (hmax ch).
Proof. reflexivity. Qed.

Lemma hmax_in c l : In c l -> (IP.height c <= hmax l)%nat.
Proof.
  induction l as [|a l IH]; intros H; [destruct H|]. cbn [hmax fold_right]. fold (hmax l).
  destruct H as [->|H]; [lia|]. specialize (IH H). lia.
Qed.

Lemma hmax_le l' l :
  (forall x, In x l' -> exists c, In c l /\ (IP.height x <= IP.height c)%nat) -> (hmax l' <= hmax l)%nat.
Proof.
  induction l' as [|a l' IH]; intros H; [cbn [hmax fold_right]; lia|]. cbn [hmax fold_right]. fold (hmax l').
  destruct (H a (or_introl eq_refl)) as (c & Hc & Hle). pose proof (hmax_in c l Hc) as H1.
  assert (H2 : (hmax l' <= hmax l)%nat) by (apply IH; intros x Hx; apply H; right; exact Hx). lia.
Qed.

Lemma hmax_perm l l' : Permutation l l' -> hmax l = hmax l'.
Proof.
  induction 1 as [|x a b _ IH|x y a|a b c _ IH1 _ IH2]; cbn [hmax fold_right]; fold hmax.
  - reflexivity.
  - fold (hmax a). fold (hmax b). rewrite IH. reflexivity.
  - fold (hmax a). lia.
  - congruence.
Qed.

Lemma hmax_app l1 c l2 : hmax (l1 ++ c :: l2) = Nat.max (hmax l1) (Nat.max (IP.height c) (hmax l2)).
Proof.
  induction l1 as [|a l1 IH]; cbn [List.app hmax fold_right]; fold (hmax l2).
  - reflexivity.
  - fold (hmax (l1 ++ c :: l2)). fold (hmax l1). rewrite IH. lia.
Qed.

Lemma height_tmap g : forall t, IP.height (t_map g t) = IP.height t.
Proof.
  induction t as [i ch IH] using IP.wtree_ind'. cbn [t_map]. rewrite !height_node. f_equal.
  induction IH as [|c r Hc _ IHr]; [reflexivity|]. cbn [map hmax fold_right]. fold (hmax (map (t_map g) r)).
  fold (hmax r). rewrite Hc, IHr. reflexivity.
Qed.

Lemma height_skel_eq t t' : skel t' = skel t -> IP.height t' = IP.height t.
Proof.
  intros E. unfold skel in E. rewrite <- (height_tmap skel_i t), <- (height_tmap skel_i t'), E. reflexivity.
Qed.

Lemma height_cut w : forall t, (IP.height (IP.cut w t) <= IP.height t)%nat.
Proof.
  induction t as [i ch IH] using IP.wtree_ind'.
  destruct (cut_node w i ch) as (i' & -> & _). rewrite !height_node.
  apply le_n_S. apply hmax_le. intros x Hx. apply kids_remove_in in Hx. destruct Hx as [Hx _].
  apply in_map_iff in Hx. destruct Hx as (c & <- & Hc). exists c. split; [exact Hc|].
  rewrite Forall_forall in IH. apply IH. exact Hc.
Qed.

Lemma kc_height pid ch ch' t t' D :
  kids_changed pid ch ch' t t' D -> hmax ch' = hmax ch -> IP.height t' = IP.height t.
Proof.
  induction 1 as [i Hi|i l1 c c' l2 D Hi Hl1 Hkc IH]; intros E.
  - rewrite !height_node, E. reflexivity.
  - rewrite !height_node, !hmax_app, (IH E). reflexivity.
Qed.

Lemma qstep_height s e : NoDup (t_ids (r_tree s)) -> IP.height (r_tree (qstep s e)) = IP.height (r_tree s).
Proof.
  intros Hu. destruct e as [[k p] w]. unfold qstep. rewrite do_hchange_tree.
  destruct (t_find w (r_tree s)) as [wn|]; [|reflexivity].
  destruct (in_dec Z.eq_dec p (t_ids (r_tree s))) as [Hin|Hnin].
  2:{ rewrite (upd_kids_notin _ _ _ Hnin). reflexivity. }
  destruct (t_find_some p _ Hu Hin) as [n Hn].
  destruct (upd_kids_kc (apply_hchange k w) p _ n Hu Hn) as [D Hkc].
  destruct (kc_kids_nodup _ _ _ _ _ _ Hkc Hu) as [Hndk _].
  apply (kc_height _ _ _ _ _ _ Hkc). apply hmax_perm. apply (hchange_perm k w (t_kids n) Hndk).
Qed.

Lemma after_queue_height st : IP.ids_unique st -> IP.height (r_tree (after_queue st)) = IP.height (r_tree st).
Proof.
  intros Hfu. rewrite after_queue_eq.
  assert (H : forall q s, IP.ids_unique s -> IP.height (r_tree (fold_left qstep q s)) = IP.height (r_tree s)).
  { induction q as [|e q IH]; intros s Hs; [reflexivity|]. cbn [fold_left].
    rewrite (IH _ (qstep_forest s e Hs)). apply qstep_height. apply (forest_tree_nodup s Hs). }
  rewrite H; [reflexivity|exact Hfu].
Qed.

(* what the render loop keeps: unique ids over the forest, a tree no higher than the fuel *)
Definition HB (fu : nat) (s : root) : Prop := IP.ids_unique s /\ (IP.height (r_tree s) <= fu)%nat.

Lemma run_act_hb fu cfg s a : HB fu s -> HB fu (run_act cfg s a).
Proof.
  intros [Hfu Hh]. split; [apply run_act_unique; exact Hfu|].
  destruct (act_cases cfg s a Hfu) as [[Hsk _]|(w & n0 & E & Hf & Hne)].
  - rewrite (height_skel_eq _ _ Hsk). exact Hh.
  - rewrite E. destruct (IP.win_close_forest cfg s w n0 Hfu Hf Hne) as [-> _].
    pose proof (height_cut w (r_tree s)). lia.
Qed.

Lemma re_handler_hb fu cfg hnd racts : rh_keeps (HB fu) (re_handler cfg hnd racts).
Proof.
  apply re_handler_keeps. intros s id. apply (run_acts_keeps (HB fu)). intros s' a _. apply run_act_hb.
Qed.

(* the render loop on any amount of fuel *)
Definition flush_rb2_on (fu : nat) (rh : rhandler2) (rects : list rect) (sb : fstate * rbuf) : fstate * rbuf :=
  fold_left (fun sb r =>
               let sb1 := (fst sb, rb_clip_to (rb_save (snd sb)) r) in
               let sb2 := do_expose2 fu rh (t_id (r_tree (fs_root (fst sb)))) r sb1 in
               (fst sb2, rb_restore (snd sb2))) rects sb.

Lemma flush_rb2_on_efuel rh rects sb : flush_rb2 rh rects sb = flush_rb2_on efuel rh rects sb.
Proof. reflexivity. Qed.

(* ------------------------------------------------------------------------------------ *)
(* the render loop and the flush                                                         *)

Section flush_sim.
  Variables (cfg : defects) (hnd : handler) (racts : Z -> list ract) (racts2 : Z -> list ract2).
  Hypothesis Hacts : forall id s,
    run_acts2 cfg hnd (racts2 id) s = fs_set_root s (run_acts cfg (racts id) (fs_root s)).
  Let rh := re_handler cfg hnd racts.
  Let rh2 := re_handler2 cfg hnd racts2.

  Lemma flush_rb2_sim fu : forall rects fs b, HB fu (fs_root fs) ->
    flush_rb2_on fu rh2 rects (fs, b) =
    (mkFS (fst (flush_rb_re rh rects (fs_root fs, b))) (fs_term fs)
          (fs_log fs ++ flush_log_re rh rects (fs_root fs, b)),
     snd (flush_rb_re rh rects (fs_root fs, b))).
  Proof.
    unfold flush_rb2_on, flush_rb_re.
    induction rects as [|R rest IH]; intros fs b HB0.
    - cbn [fold_left flush_log_re fst snd]. rewrite app_nil_r. destruct fs; reflexivity.
    - cbn [fold_left flush_log_re fst snd]. destruct HB0 as [Hfu Hh].
      pose proof (do_expose2_sim cfg hnd racts racts2 Hacts (r_tree (fs_root fs)) (r_tree (fs_root fs))
                    fu R fs (rb_clip_to (rb_save b) R) (sub_here _) Hh (sim_start _ Hfu)) as E.
      fold rh rh2 in E. rewrite E. cbn [fst snd].
      set (sb1 := do_expose_re rh (r_tree (fs_root fs)) R (fs_root fs, rb_clip_to (rb_save b) R)).
      assert (HB1 : HB fu (fst sb1)).
      { apply (do_expose_re_fst_inv (HB fu) rh (re_handler_hb fu cfg hnd racts)). exact (conj Hfu Hh). }
      rewrite (IH (mkFS (fst sb1) (fs_term fs) (fs_log fs ++ expose_log_re rh (r_tree (fs_root fs)) R
                                                    (fs_root fs, rb_clip_to (rb_save b) R)))
                  (rb_restore (snd sb1)) HB1).
      cbn [fs_root fs_term fs_log]. rewrite <- app_assoc. reflexivity.
  Qed.

  Lemma win_flush2_sim st tm :
    IP.ids_unique st -> (IP.height (r_tree st) <= efuel)%nat ->
    win_flush2 cfg rh2 st tm = win_flush_re cfg rh st tm.
  Proof.
    intros Hfu Hh. destruct (r_later st) eqn:Hl.
    2:{ unfold win_flush2, win_flush_re. rewrite Hl. reflexivity. }
    rewrite (win_flush2_unfold cfg rh2 st tm Hl), (win_flush_re_unfold cfg rh st tm Hl). cbn zeta.
    destruct (r_nexp (after_queue st)); [|reflexivity].
    unfold loop_result2, loop_result.
    assert (HB0 : HB efuel (loop_start (after_queue st))).
    { split; [exact (after_queue_forest st Hfu)|].
      change (r_tree (loop_start (after_queue st))) with (r_tree (after_queue st)).
      rewrite (after_queue_height st Hfu). exact Hh. }
    rewrite flush_rb2_on_efuel.
    rewrite (flush_rb2_sim efuel (flush_rects cfg (after_queue st))
               (mkFS (loop_start (after_queue st)) tm [])
               (rb_new (lines (root_selfrect (after_queue st))) (cols (root_selfrect (after_queue st)))) HB0).
    cbn [fst snd fs_root fs_term fs_log List.app]. reflexivity.
  Qed.
End flush_sim.

Lemma efuel_64 : efuel = 64%nat.
Proof. reflexivity. Qed.

(* 2. CONSERVATIVE EXTENSION: handlers that make only the calls of WinReDefs.v *)
Theorem flush2_conservative cfg hnd racts2 st tm :
  old_only racts2 -> IP.ids_unique st -> (IP.height (r_tree st) <= efuel)%nat ->
  win_flush2 cfg (re_handler2 cfg hnd racts2) st tm =
  win_flush_re cfg (re_handler cfg hnd (fun id => proj_acts (racts2 id))) st tm.
Proof.
  intros Hold Hfu Hh.
  apply (win_flush2_sim cfg hnd (fun id => proj_acts (racts2 id)) racts2); [|exact Hfu|exact Hh].
  intros id s. apply run_acts2_old. intros a Ha. apply (Hold id a Ha).
Qed.

(* 1. PURE CASE: no calls at all *)
Theorem flush2_pure cfg hnd st tm :
  IP.ids_unique st -> (IP.height (r_tree st) <= efuel)%nat ->
  win_flush2 cfg (re_handler2 cfg hnd (fun _ => [])) st tm = win_flush cfg hnd st tm.
Proof.
  intros Hfu Hh.
  rewrite (flush2_conservative cfg hnd (fun _ => []) st tm); [|intros id a []|exact Hfu|exact Hh].
  cbn [proj_acts flat_map]. apply flush_re_pure. apply (forest_tree_nodup st Hfu).
Qed.

(* the history step *)
Corollary step2_conservative cfg progs racts2 o m :
  old_only racts2 -> IP.ids_unique (m_root m) -> (IP.height (r_tree (m_root m)) <= efuel)%nat ->
  step2 cfg progs racts2 o m = step_re cfg progs (fun id => proj_acts (racts2 id)) o m.
Proof.
  intros Hold Hfu Hh. destruct o; try reflexivity.
  cbn [step2 step_re]. rewrite flush2_conservative by assumption. reflexivity.
Qed.

Corollary step2_noacts cfg progs o m :
  IP.ids_unique (m_root m) -> (IP.height (r_tree (m_root m)) <= efuel)%nat ->
  step2 cfg progs (fun _ => []) o m = step cfg progs o m.
Proof.
  intros Hfu Hh. destruct o; try reflexivity.
  cbn [step2 step]. rewrite flush2_pure by assumption. reflexivity.
Qed.
