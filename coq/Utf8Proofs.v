(* Utf8Proofs.v -- the C07 theorems about counting: the model of tickit_utf8_ncountmore equals
   the specification on every buffer and every limit; consistency of the counters; resumption;
   no read past the terminator / the length; exactness of the error value. *)
From Coq Require Import ZArith List Bool Lia.
From Tickit Require Import Gen_Width Utf8Defs Utf8Spec Utf8Tables Utf8Bits Utf8Walk Utf8Units.
Import ListNotations.
Local Open Scope Z_scope.

(* ------------------------------------------------------------------ count = spec *)

Lemma spec_count_grp : forall s pos limit,
  spec_count s pos limit =
  match spec_grp (units (fst (decode s))) (snd (decode s)) pos limit with
  | None => SErr
  | Some p => SOk (p_bytes p - p_bytes pos) p
  end.
Proof.
  intros. unfold spec_count, spec_grp.
  destruct (decode s) as [its bad]. cbn [fst snd].
  destruct (take_units (units its) pos limit) as [p all].
  destruct (all && bad); reflexivity.
Qed.

Lemma model_abs_spec : forall s pos limit,
  cres_meets (model_abs s pos limit) (spec_count s pos limit).
Proof.
  intros. rewrite spec_count_grp.
  pose proof (walk_is_spec (fst (decode s)) (snd (decode s)) pos limit (decode_nonneg s)) as H.
  unfold model_abs.
  destruct (walk (fst (decode s)) (snd (decode s)) limit pos pos) as [p|p]; cbn [wabs] in H;
    rewrite <- H; cbn; auto.
Qed.

Theorem count_is_spec : forall pre s tail len pos limit,
  Z.of_nat (length pre) = p_bytes pos -> nonul s ->
  tail_ok s tail (len_sub len (p_bytes pos)) ->
  cres_meets (u8_ncountmore (pre ++ s ++ tail) len pos limit) (spec_count s pos limit).
Proof.
  intros. rewrite ncountmore_walk by assumption. apply model_abs_spec.
Qed.

(* ------------------------------------------------------------------ the oracle's view: `effective` *)

Lemma upto_nul_split : forall x, exists rest,
  x = upto_nul x ++ rest /\ nonul (upto_nul x) /\
  (rest = [] \/ exists j, rest = 0 :: j) /\ (In 0 x -> exists j, rest = 0 :: j).
Proof.
  induction x as [|b x IH].
  - exists []. cbn. repeat split; auto. constructor. intros [].
  - cbn [upto_nul]. destruct (b =? 0) eqn:E.
    + apply Z.eqb_eq in E. subst b. exists (0 :: x). cbn.
      repeat split; [constructor|right; eauto|intros _; eauto].
    + apply Z.eqb_neq in E. destruct IH as [rest [I1 [I2 [I3 I4]]]].
      exists rest. repeat split.
      * cbn. rewrite <- I1. reflexivity.
      * constructor; assumption.
      * exact I3.
      * intros [H|H]; [congruence|auto].
Qed.

Lemma valid_call_shape : forall buf len off, valid_call buf len off ->
  exists pre tail, buf = pre ++ effective buf len off ++ tail /\ Z.of_nat (length pre) = off /\
                   nonul (effective buf len off) /\ tail_ok (effective buf len off) tail (len_sub len off).
Proof.
  intros buf len off [Hoff Hv]. unfold effective.
  set (n := Z.to_nat off). set (x := skipn n buf).
  assert (Hbuf : buf = firstn n buf ++ x) by (symmetry; apply firstn_skipn).
  destruct len as [l|]; cbv beta iota.
  - (* bounded *)
    set (m := Z.to_nat (l - off)).
    assert (Hn : (n <= length buf)%nat) by lia.
    assert (Hx : length x = (length buf - n)%nat) by (unfold x; apply skipn_length).
    destruct (upto_nul_split (firstn m x)) as [rest [R1 [R2 [R3 _]]]].
    exists (firstn n buf), (rest ++ skipn m x).
    split; [|split; [|split]].
    + assert (Hx2 : upto_nul (firstn m x) ++ rest ++ skipn m x = x).
      { rewrite app_assoc, <- R1. apply firstn_skipn. }
      rewrite Hx2. exact Hbuf.
    + rewrite firstn_length_le by exact Hn. lia.
    + exact R2.
    + cbn [len_sub tail_ok].
      assert (Hm : length (firstn m x) = m) by (apply firstn_length_le; lia).
      rewrite R1, app_length in Hm.
      destruct R3 as [->|[j ->]].
      * left. cbn in Hm. lia.
      * right. cbn in Hm. split; [lia|]. exists (j ++ skipn m x). reflexivity.
  - (* terminated *)
    destruct (upto_nul_split x) as [rest [R1 [R2 [_ R4]]]].
    destruct (R4 Hv) as [j ->].
    assert (Hn : (n < length buf)%nat).
    { destruct (Nat.lt_ge_cases n (length buf)) as [L|G]; [exact L|].
      unfold x in Hv. rewrite skipn_all2 in Hv by exact G. destruct Hv. }
    exists (firstn n buf), (0 :: j).
    split; [|split; [|split]].
    + rewrite <- R1. exact Hbuf.
    + rewrite firstn_length_le by lia. lia.
    + exact R2.
    + cbn. eauto.
Qed.

Lemma pos_eqb_refl : forall p, pos_eqb p p = true.
Proof. intro p. unfold pos_eqb. rewrite !Z.eqb_refl. reflexivity. Qed.

(* what the oracle accepts is exactly what the theorem says the model returns *)
Theorem count_checkb_sound : forall buf len pos limit ret p,
  valid_call buf len (p_bytes pos) ->
  u8_ncountmore buf len pos limit = CRet ret p ->
  count_checkb buf len pos limit ret p = true.
Proof.
  intros buf len pos limit ret p Hv Hc.
  destruct (valid_call_shape _ _ _ Hv) as [pre [tail [E1 [E2 [E3 E4]]]]].
  pose proof (count_is_spec pre _ tail len pos limit E2 E3 E4) as M.
  rewrite <- E1, Hc in M. unfold count_checkb.
  destruct (spec_count (effective buf len (p_bytes pos)) pos limit) as [|r' p']; cbn in M.
  - subst ret. reflexivity.
  - destruct M as [-> ->]. rewrite Z.eqb_refl, pos_eqb_refl. reflexivity.
Qed.

(* ------------------------------------------------------------------ consistency of the counters *)

Lemma spec_count_ok_inv : forall s pos limit r p, spec_count s pos limit = SOk r p ->
  exists us1 us2 all,
    units (fst (decode s)) = us1 ++ us2 /\ take_units (units (fst (decode s))) pos limit = (p, all) /\
    p = pos_add_unit pos (concat us1) /\ all_fit us1 pos limit /\ r = p_bytes p - p_bytes pos /\
    (all && snd (decode s) = false).
Proof.
  intros s pos limit r p H. unfold spec_count in H.
  destruct (decode s) as [its bad] eqn:Ed. cbn [fst snd].
  destruct (take_units (units its) pos limit) as [p' all] eqn:Et.
  destruct (all && bad) eqn:Eab; [discriminate|]. injection H as <- <-.
  destruct (take_units_split _ _ _ _ _ Et) as [us1 [us2 [E1 [E2 [E3 _]]]]].
  exists us1, us2, all. repeat split; auto.
Qed.

Theorem counters_consistent : forall s pos limit r p, spec_count s pos limit = SOk r p ->
  exists us1 us2 pre s',
    units (fst (decode s)) = us1 ++ us2 /\                       (* whole units only *)
    s = pre ++ s' /\ Z.of_nat (length pre) = r /\                (* r bytes of the string ... *)
    r = bytes_of (concat us1) /\                                 (* ... = sum of encoded lengths *)
    p = mkPos (p_bytes pos + bytes_of (concat us1))
              (p_cps pos + Z.of_nat (length (concat us1)))
              (p_graphs pos + graphs_of (concat us1))
              (p_cols pos + cols_of (concat us1)).
Proof.
  intros s pos limit r p H.
  destruct (spec_count_ok_inv _ _ _ _ _ H) as [us1 [us2 [all [E1 [E2 [E3 [E4 [E5 E6]]]]]]]].
  assert (Hd : decode s = (concat us1 ++ concat us2, snd (decode s))).
  { rewrite <- concat_app, <- E1, concat_units. apply surjective_pairing. }
  destruct (decode_skip _ _ _ _ Hd) as [pre [s' [F1 [F2 F3]]]].
  rewrite pos_add_unit_sums in E3.
  exists us1, us2, pre, s'.
  assert (Hr : r = bytes_of (concat us1)).
  { rewrite E5, E3. cbn [p_bytes]. lia. }
  repeat split; auto. lia.
Qed.

(* ------------------------------------------------------------------ resumption *)

Lemma spec_resume : forall s pos l1 l2 r1 p1,
  limit_le l1 l2 = true -> spec_count s pos l1 = SOk r1 p1 ->
  exists pre1 s', s = pre1 ++ s' /\ Z.of_nat (length pre1) = r1 /\ p_bytes p1 = p_bytes pos + r1 /\
    match spec_count s pos l2 with
    | SErr => spec_count s' p1 l2 = SErr
    | SOk r2 p2 => spec_count s' p1 l2 = SOk (r2 - r1) p2
    end.
Proof.
  intros s pos l1 l2 r1 p1 Hle H.
  destruct (spec_count_ok_inv _ _ _ _ _ H) as [us1 [us2 [all [E1 [E2 [E3 [E4 [E5 E6]]]]]]]].
  destruct us1 as [|u1 us1'] eqn:Eus1.
  - (* nothing was counted: the resumed call is the same call *)
    cbn in E3. subst p1. exists [], s.
    assert (r1 = 0) by lia. subst r1.
    repeat split; auto; [lia|].
    destruct (spec_count s pos l2) as [|r2 p2]; [reflexivity|]. f_equal. lia.
  - rewrite <- Eus1 in *.
    assert (Hne : us1 <> []) by (subst us1; discriminate).
    assert (Hd : decode s = (concat us1 ++ concat us2, snd (decode s))).
    { rewrite <- concat_app, <- E1, concat_units. apply surjective_pairing. }
    destruct (decode_skip _ _ _ _ Hd) as [pre [s' [F1 [F2 F3]]]].
    assert (Hb : p_bytes p1 = p_bytes pos + bytes_of (concat us1)).
    { rewrite E3, pos_add_unit_sums. reflexivity. }
    exists pre, s'. split; [exact F1|]. split; [lia|]. split; [lia|].
    (* one go with l2: the units counted under l1 fit under l2 as well *)
    pose proof (all_fit_limit_le _ _ _ _ Hle E4) as Hfit2.
    unfold spec_count. rewrite Hd, F3.
    rewrite <- concat_app, <- E1, concat_units.
    rewrite (units_suffix _ _ _ E1 Hne).
    rewrite E1, (take_units_app_fit _ _ _ _ Hfit2), <- E3.
    destruct (take_units us2 p1 l2) as [p all2].
    destruct (all2 && snd (decode s)); [reflexivity|].
    f_equal. lia.
Qed.

Lemma len_sub_add : forall len a b, len_sub (len_sub len a) b = len_sub len (a + b).
Proof. intros [l|] a b; cbn; [f_equal; lia|reflexivity]. Qed.

Lemma cres_meets_ok : forall c r p, cres_meets c (SOk r p) -> c = CRet r p.
Proof. intros [| |r' p'] r p H; cbn in H; try contradiction. destruct H; subst; reflexivity. Qed.

Lemma cres_meets_err : forall c, cres_meets c SErr -> exists p, c = CRet (-1) p.
Proof. intros [| |r' p'] H; cbn in H; try contradiction. subst. eauto. Qed.

Lemma take_units_ge : forall us p limit, Forall items_nonneg us ->
  pos_le p (fst (take_units us p limit)).
Proof.
  induction us as [|u us IH]; intros p limit H.
  - apply pos_le_refl.
  - inversion H; subst. cbn [take_units].
    destruct (within (pos_add_unit p u) limit).
    + eapply pos_le_trans; [apply pos_add_unit_le; eassumption|]. apply IH. assumption.
    + apply pos_le_refl.
Qed.

Lemma units_nonneg : forall its, items_nonneg its -> Forall items_nonneg (units its).
Proof.
  intros its H. apply Forall_forall. intros u Hu.
  unfold items_nonneg in *. rewrite Forall_forall in *. intros i Hi.
  apply H. rewrite <- (concat_units its). apply in_concat. eauto.
Qed.

(* a successful count never returns the error value *)
Lemma spec_ok_nonneg : forall s pos limit r p, spec_count s pos limit = SOk r p -> 0 <= r.
Proof.
  intros s pos limit r p H.
  destruct (spec_count_ok_inv _ _ _ _ _ H) as [us1 [us2 [all [E1 [E2 [E3 [E4 [E5 E6]]]]]]]].
  pose proof (take_units_ge (units (fst (decode s))) pos limit
                (units_nonneg _ (decode_nonneg s))) as G.
  rewrite E2 in G. cbn in G. destruct G as [G _]. lia.
Qed.

Theorem resume : forall pre s tail len pos l1 l2 r1 p1,
  Z.of_nat (length pre) = p_bytes pos -> nonul s -> tail_ok s tail (len_sub len (p_bytes pos)) ->
  limit_le l1 l2 = true ->
  u8_ncountmore (pre ++ s ++ tail) len pos l1 = CRet r1 p1 -> r1 <> -1 ->
  match u8_ncountmore (pre ++ s ++ tail) len pos l2 with
  | CRet r2 p2 =>
      if r2 =? -1 then exists p, u8_ncountmore (pre ++ s ++ tail) len p1 l2 = CRet (-1) p
      else u8_ncountmore (pre ++ s ++ tail) len p1 l2 = CRet (r2 - r1) p2
  | _ => False
  end.
Proof.
  intros pre s tail len pos l1 l2 r1 p1 Hpre Hnn Hto Hle H1 Hr1.
  pose proof (count_is_spec pre s tail len pos l1 Hpre Hnn Hto) as M1.
  rewrite H1 in M1.
  destruct (spec_count s pos l1) as [|r1' p1'] eqn:S1; cbn in M1; [congruence|].
  destruct M1 as [<- <-].
  destruct (spec_resume _ _ _ _ _ _ Hle S1) as [pre1 [s' [F1 [F2 [F3 F4]]]]].
  pose proof (count_is_spec pre s tail len pos l2 Hpre Hnn Hto) as M2.
  (* the resumed call, seen as a call on the buffer split at p1 *)
  assert (Hbuf : pre ++ s ++ tail = (pre ++ pre1) ++ s' ++ tail).
  { rewrite F1, <- !app_assoc. reflexivity. }
  assert (M12 : cres_meets (u8_ncountmore (pre ++ s ++ tail) len p1 l2) (spec_count s' p1 l2)).
  { rewrite Hbuf. apply count_is_spec.
    - rewrite app_length, Nat2Z.inj_add. lia.
    - unfold nonul in *. rewrite F1 in Hnn. apply Forall_app in Hnn. tauto.
    - rewrite F3, <- len_sub_add. apply tail_ok_step with (pre := pre1); [|exact F2].
      rewrite <- F1. exact Hto. }
  destruct (spec_count s pos l2) as [|r2 p2] eqn:S2.
  - destruct (cres_meets_err _ M2) as [p E]. rewrite E. change (-1 =? -1) with true. cbv iota.
    rewrite F4 in M12. apply cres_meets_err. exact M12.
  - rewrite (cres_meets_ok _ _ _ M2).
    pose proof (spec_ok_nonneg _ _ _ _ _ S2) as Hr2.
    replace (r2 =? -1) with false by (symmetry; apply Z.eqb_neq; lia).
    rewrite F4 in M12. apply cres_meets_ok. exact M12.
Qed.

(* ------------------------------------------------------------------ no over-read *)

Lemma model_abs_is_ret : forall s pos limit, exists r p, model_abs s pos limit = CRet r p.
Proof.
  intros. unfold model_abs.
  destruct (walk (fst (decode s)) (snd (decode s)) limit pos pos); cbn; eauto.
Qed.

(* NUL-terminated call: whatever lies behind the terminator is irrelevant, and on a buffer that
   ENDS at the terminator (any further read would be a Fault) the call completes normally *)
Theorem no_overread_terminated : forall pre s junk pos limit,
  Z.of_nat (length pre) = p_bytes pos -> nonul s ->
  u8_ncountmore (pre ++ s ++ 0 :: junk) None pos limit = u8_ncountmore (pre ++ s ++ [0]) None pos limit /\
  exists r p, u8_ncountmore (pre ++ s ++ [0]) None pos limit = CRet r p.
Proof.
  intros pre s junk pos limit Hpre Hnn.
  rewrite !ncountmore_walk by (auto; cbn; eauto).
  split; [reflexivity|apply model_abs_is_ret].
Qed.

(* length-bounded call over the bytes x (which may contain a NUL): whatever lies behind the
   bound is irrelevant, and on a buffer that ENDS at the bound the call completes normally *)
Theorem no_overread_bounded : forall pre x junk pos limit,
  Z.of_nat (length pre) = p_bytes pos ->
  let len := Some (p_bytes pos + Z.of_nat (length x)) in
  u8_ncountmore (pre ++ x ++ junk) len pos limit = u8_ncountmore (pre ++ x) len pos limit /\
  exists r p, u8_ncountmore (pre ++ x) len pos limit = CRet r p.
Proof.
  intros pre x junk pos limit Hpre len.
  destruct (upto_nul_split x) as [rest [R1 [R2 [R3 _]]]].
  assert (Hto : forall j, tail_ok (upto_nul x) (rest ++ j) (len_sub len (p_bytes pos))).
  { intro j. unfold len. cbn [len_sub tail_ok].
    assert (Hl : length x = (length (upto_nul x) + length rest)%nat) by (rewrite R1 at 1; apply app_length).
    destruct R3 as [->|[k ->]].
    - left. cbn in Hl. lia.
    - right. cbn in Hl. split; [lia|]. exists (k ++ j). reflexivity. }
  assert (E1 : pre ++ x ++ junk = pre ++ upto_nul x ++ (rest ++ junk)).
  { rewrite R1 at 1. rewrite <- app_assoc. reflexivity. }
  assert (E2 : pre ++ x = pre ++ upto_nul x ++ (rest ++ [])).
  { rewrite app_nil_r, <- R1. reflexivity. }
  rewrite E1, E2, !ncountmore_walk by auto.
  split; [reflexivity|apply model_abs_is_ret].
Qed.

(* ------------------------------------------------------------------ the error value, exactly *)

Theorem error_exact : forall pre s tail len pos limit,
  Z.of_nat (length pre) = p_bytes pos -> nonul s -> tail_ok s tail (len_sub len (p_bytes pos)) ->
  ((exists p, u8_ncountmore (pre ++ s ++ tail) len pos limit = CRet (-1) p) <->
   (snd (decode s) = true /\ snd (take_units (units (fst (decode s))) pos limit) = true)).
Proof.
  intros pre s tail len pos limit Hpre Hnn Hto.
  pose proof (count_is_spec pre s tail len pos limit Hpre Hnn Hto) as M.
  destruct (spec_count s pos limit) as [|r p] eqn:S.
  - split.
    + intros _. unfold spec_count in S.
      destruct (decode s) as [its bad]. cbn [fst snd].
      destruct (take_units (units its) pos limit) as [p all]. cbn [snd].
      destruct all, bad; cbn in S; try discriminate. auto.
    + intros _. apply cres_meets_err. exact M.
  - pose proof (spec_ok_nonneg _ _ _ _ _ S) as Hr.
    rewrite (cres_meets_ok _ _ _ M).
    split.
    + intros [p' E]. injection E as E _. lia.
    + intros [B A]. exfalso. unfold spec_count in S.
      destruct (decode s) as [its bad]. cbn [fst snd] in *.
      destruct (take_units (units its) pos limit) as [p0 all]. cbn [snd] in A.
      subst. cbn in S. discriminate.
Qed.

(* ------------------------------------------------------------------ consistency, on the model *)

Theorem counters_consistent_model : forall pre s tail len pos limit r p,
  Z.of_nat (length pre) = p_bytes pos -> nonul s -> tail_ok s tail (len_sub len (p_bytes pos)) ->
  u8_ncountmore (pre ++ s ++ tail) len pos limit = CRet r p -> r <> -1 ->
  exists us1 us2 pre' s',
    units (fst (decode s)) = us1 ++ us2 /\
    s = pre' ++ s' /\ Z.of_nat (length pre') = r /\
    r = bytes_of (concat us1) /\
    p = mkPos (p_bytes pos + bytes_of (concat us1))
              (p_cps pos + Z.of_nat (length (concat us1)))
              (p_graphs pos + graphs_of (concat us1))
              (p_cols pos + cols_of (concat us1)).
Proof.
  intros pre s tail len pos limit r p Hpre Hnn Hto Hc Hr.
  pose proof (count_is_spec pre s tail len pos limit Hpre Hnn Hto) as M.
  rewrite Hc in M.
  destruct (spec_count s pos limit) as [|r' p'] eqn:S; cbn in M; [congruence|].
  destruct M as [-> ->]. eapply counters_consistent. exact S.
Qed.

(* non-vacuity: "e U+0301 U+FF21" NUL-terminated, column limit 2: the count stops after the
   first grapheme (3 bytes, 2 code points, 1 grapheme, 1 column) because the full-width
   character would need columns 2..3 *)
Lemma nonvacuous :
  let s := [0x65; 0xcc; 0x81; 0xef; 0xbc; 0xa1] in
  nonul s /\ tail_ok s [0] (len_sub None 0) /\
  u8_count (s ++ [0]) (Some (limit_columns 2)) = CRet 3 (mkPos 3 2 1 1) /\
  spec_count s pos_zero (Some (limit_columns 2)) = SOk 3 (mkPos 3 2 1 1) /\
  length (units (fst (decode s))) = 2%nat.
Proof.
  cbv zeta. split; [repeat constructor; discriminate|].
  split; [cbn; eauto|].
  split; [vm_compute; reflexivity|].
  split; vm_compute; reflexivity.
Qed.

Lemma note_control_in_continuation :
  u8_count [0xc3; 0x0a; 0] None = CRet 2 (mkPos 2 1 1 1).
Proof. vm_compute. reflexivity. Qed.
