(* InputDefs.v -- executable model of the input path of /repo/src/term.c (definitions only):
   got_key (translation of a libtermkey key into Tickit key / mouse events, the held-button
   record, the button-less release fan-out), get_keys (the drain loop and the arming of the
   inter-byte time-out), tickit_term_input_push_bytes (with the feed-and-drain loop of
   fixes/C20-push-bytes-truncation.patch; the pinned code pushed once and silently lost
   what did not fit into libtermkey's buffer: [push_bytes_pinned]).

   libtermkey is NOT modelled: it is an abstract tokenizer [tok] (a Section variable) that
   looks at the buffered bytes and answers "key k, consuming n bytes", "again" (a proper
   prefix of something) or "none".  The theorems state what they assume of it.  [cap] is
   the size of libtermkey's buffer (256 unless changed). *)
From Coq Require Import ZArith List Bool.
Import ListNotations.
Local Open Scope Z_scope.

Inductive ktype := TUnicode | TFunction | TKeysym | TMouse | TModeReport | TDcs | TOther.

(* what termkey_getkey + termkey_strfkey / termkey_interpret_mouse tell about a key *)
Record key := mkKey {
  k_type : ktype; k_mod : Z;
  k_utf8 : list Z;       (* key->utf8 *)
  k_name : list Z;       (* termkey_strfkey(.., TERMKEY_FORMAT_ALTISMETA) *)
  k_ev : Z; k_button : Z; k_line : Z; k_col : Z   (* termkey_interpret_mouse, 1-based position *) }.

Inductive tokres := TKey (k : key) (n : nat) | TAgain | TNone.

Inductive event :=
| EvKey (type : Z) (md : Z) (str : list Z)                (* TickitKeyEventInfo *)
| EvMouse (type : Z) (button line col md : Z).            (* TickitMouseEventInfo *)

Definition KEYEV_KEY : Z := 1.
Definition KEYEV_TEXT : Z := 2.
Definition MOUSEEV_PRESS : Z := 1.
Definition MOUSEEV_DRAG : Z := 2.
Definition MOUSEEV_RELEASE : Z := 3.
Definition MOUSEEV_WHEEL : Z := 4.
Definition TK_MOUSE_PRESS : Z := 1.
Definition TK_MOUSE_DRAG : Z := 2.
Definition TK_MOUSE_RELEASE : Z := 3.

(* for(info.button = 1; tt->mouse_buttons_held; info.button++)
     if(tt->mouse_buttons_held & (1 << info.button)) { emit; held &= ~(1 << info.button); }
   fuel bounds the button number (1 << 31 is already undefined in C): None = does not end *)
Fixpoint fanout (fuel : nat) (b : Z) (held : Z) (mk : Z -> event) : option (list event * Z) :=
  if held =? 0 then Some ([], 0) else
  match fuel with
  | O => None
  | S f =>
      if Z.testbit held b
      then match fanout f (b + 1) (Z.clearbit held b) mk with
           | Some (evs, h) => Some (mk b :: evs, h)
           | None => None
           end
      else fanout f (b + 1) held mk
  end.

Definition FANOUT_FUEL : nat := 31.

(* got_key: events emitted and the new held-button record *)
Definition got_key (held : Z) (k : key) : option (list event * Z) :=
  match k_type k with
  | TMouse =>
      let line := k_line k - 1 in
      let col := k_col k - 1 in
      let ty0 := if k_ev k =? TK_MOUSE_PRESS then MOUSEEV_PRESS
                 else if k_ev k =? TK_MOUSE_DRAG then MOUSEEV_DRAG
                 else if k_ev k =? TK_MOUSE_RELEASE then MOUSEEV_RELEASE else -1 in
      let wheel := (k_ev k =? TK_MOUSE_PRESS) && (4 <=? k_button k) in
      let ty := if wheel then MOUSEEV_WHEEL else ty0 in
      let button := if wheel then k_button k - 3 else k_button k in
      if (ty =? MOUSEEV_PRESS) || (ty =? MOUSEEV_DRAG)
      then Some ([EvMouse ty button line col (k_mod k)], Z.setbit held button)
      else if (ty =? MOUSEEV_RELEASE) && negb (button =? 0)
      then Some ([EvMouse ty button line col (k_mod k)], Z.clearbit held button)
      else if ty =? MOUSEEV_RELEASE
      then fanout FANOUT_FUEL 1 held (fun b => EvMouse ty b line col (k_mod k))
      else Some ([EvMouse ty button line col (k_mod k)], held)
  | TUnicode =>
      if k_mod k =? 0 then Some ([EvKey KEYEV_TEXT (k_mod k) (k_utf8 k)], held)
      else Some ([EvKey KEYEV_KEY (k_mod k) (k_name k)], held)
  | TFunction | TKeysym => Some ([EvKey KEYEV_KEY (k_mod k) (k_name k)], held)
  | TModeReport | TDcs | TOther => Some ([], held)    (* driver hooks; no key or mouse event *)
  end.

(* the terminal's input state: bytes buffered inside libtermkey, the held-button record,
   whether the inter-byte time-out is armed *)
Record ist := mkI { i_buf : list Z; i_held : Z; i_armed : bool }.
Definition ist0 : ist := mkI [] 0 false.

Section WithTok.
Variable tok : list Z -> tokres.
Variable cap : nat.

(* get_keys: while(termkey_getkey == KEY) got_key; arm the time-out iff AGAIN *)
Fixpoint get_keys (fuel : nat) (buf : list Z) (held : Z) : option (list event * ist) :=
  match fuel with
  | O => None
  | S f =>
      match tok buf with
      | TKey k n =>
          match got_key held k with
          | None => None
          | Some (evs, h1) =>
              match get_keys f (skipn n buf) h1 with
              | Some (evs2, s) => Some (evs ++ evs2, s)
              | None => None
              end
          end
      | TAgain => Some ([], mkI buf held true)
      | TNone => Some ([], mkI buf held false)
      end
  end.

Definition drain (buf : list Z) (held : Z) : option (list event * ist) :=
  get_keys (S (length buf)) buf held.

(* tickit_term_input_push_bytes as pinned: one termkey_push_bytes, which takes only what
   fits, then get_keys *)
Definition push_bytes_pinned (s : ist) (bytes : list Z) : option (list event * ist) :=
  let space := (cap - length (i_buf s))%nat in
  drain (i_buf s ++ firstn space bytes) (i_held s).

(* ... and repaired: feed and drain until everything has been consumed *)
Fixpoint push_loop (fuel : nat) (s : ist) (bytes : list Z) : option (list event * ist) :=
  match fuel with
  | O => None
  | S f =>
      let space := (cap - length (i_buf s))%nat in
      let pushed := Nat.min (length bytes) space in
      let buf1 := i_buf s ++ firstn pushed bytes in
      let rest := skipn pushed bytes in
      match drain buf1 (i_held s) with
      | None => None
      | Some (evs, s2) =>
          match rest with
          | [] => Some (evs, s2)
          | _ =>
              if Nat.eqb pushed 0 && Nat.eqb (length (i_buf s2)) (length buf1) then Some (evs, s2)
              else match push_loop f s2 rest with
                   | Some (evs2, s3) => Some (evs ++ evs2, s3)
                   | None => None
                   end
          end
      end
  end.

Definition push_bytes (s : ist) (bytes : list Z) : option (list event * ist) :=
  push_loop (S (S (length bytes))) s bytes.

(* a sequence of pushes with no time-out forced in between *)
Fixpoint push_chunks (s : ist) (chunks : list (list Z)) : option (list event * ist) :=
  match chunks with
  | [] => Some ([], s)
  | c :: r =>
      match push_bytes s c with
      | None => None
      | Some (evs, s1) =>
          match push_chunks s1 r with
          | Some (evs2, s2) => Some (evs ++ evs2, s2)
          | None => None
          end
      end
  end.

(* ---- the inter-byte time-out (TickitTerm.input_timeout_at).  get_keys sets the deadline to
   now + wait whenever the tokenizer answers AGAIN -- on EVERY such answer, so the wait is
   counted from the most recent bytes -- and clears it otherwise.  Time is in microseconds;
   [wait] is libtermkey's wait time (50 ms).  [stale] = true is the seeded variant that keeps
   a deadline that is already running. *)
Record tst := mkT { t_in : ist; t_deadline : option Z }.
Definition tst0 : tst := mkT ist0 None.

Variable wait : Z.

(* [ht]: the time every key / mouse handler of the application takes (the clock advances by ht
   for every event emitted).  get_keys reads the clock when the drain loop meets AGAIN, i.e.
   AFTER the handlers of the keys it found have run.  [early] = true is the seeded variant that
   reads the clock at the top of get_keys, charging the handlers' time to the partial sequence
   (exact for a push that is drained in one go).  The third component is the clock after the push. *)
Definition tpush (stale early : bool) (ht : Z) (now : Z) (ts : tst) (bytes : list Z) : option (list event * tst * Z) :=
  match push_bytes (t_in ts) bytes with
  | None => None
  | Some (evs, s') =>
      let now' := now + ht * Z.of_nat (length evs) in
      let base := if early then now else now' in
      let d := if i_armed s'
               then (if stale then match t_deadline ts with Some d0 => Some d0 | None => Some (base + wait) end
                     else Some (base + wait))
               else None in
      Some (evs, mkT s' d, now')
  end.

(* tickit_term_input_check_timeout_msec as the event loop polls it: -1 when no deadline runs,
   the milliseconds left (rounded up) while it has not passed; once it has passed the partial
   sequence is force-interpreted -- outside this model: None *)
Definition tpoll (now : Z) (ts : tst) : option Z :=
  match t_deadline ts with
  | None => Some (-1)
  | Some d => if now <? d then Some ((d - now + 999) / 1000) else None
  end.

(* chunks delivered with a gap after each, the loop polling the time-out after every gap *)
Fixpoint timed_run (stale early : bool) (ht : Z) (now : Z) (ts : tst) (steps : list (list Z * Z))
  : option (list event * list Z * tst) :=
  match steps with
  | [] => Some ([], [], ts)
  | (c, gap) :: r =>
      match tpush stale early ht now ts c with
      | None => None
      | Some (evs, ts1, now1) =>
          match tpoll (now1 + gap) ts1 with
          | None => None
          | Some m =>
              match timed_run stale early ht (now1 + gap) ts1 r with
              | None => None
              | Some (evs2, ms, ts2) => Some (evs ++ evs2, m :: ms, ts2)
              end
          end
      end
  end.

(* ---- the wait path: tickit_term_input_wait_msec(m) during which nothing arrives.  select is
   given min(m, what is left to the deadline, in milliseconds rounded up) -- m = -1: no limit of
   the caller's -- and returns 0 when that time has passed.  Repaired: the partial sequence is
   force-interpreted only if ITS deadline has passed by then (outside this model: None);
   otherwise the wait returns with the tokenizer and the deadline untouched.
   [force_caller] = true is the pinned code: timedout() whenever select returns 0, also when
   it was the caller's shorter time-out that expired.  Result: state and clock after the wait. *)
Definition wait_left (now : Z) (ts : tst) : Z :=
  match t_deadline ts with None => -1 | Some d => if now <? d then (d - now + 999) / 1000 else 0 end.

Definition twait (force_caller : bool) (m : Z) (now : Z) (ts : tst) : option (tst * Z) :=
  let left := wait_left now ts in
  let eff := if (-1 <? left) && ((m =? -1) || (left <? m)) then left else m in
  if eff <? 0 then None
  else
    let now' := now + eff * 1000 in
    match t_deadline ts with
    | None => Some (ts, now')
    | Some d => if force_caller || (d <=? now') then None else Some (ts, now')
    end.

Fixpoint twaits (force_caller : bool) (ms : list Z) (now : Z) (ts : tst) : option (tst * Z) :=
  match ms with
  | [] => Some (ts, now)
  | m :: r => match twait force_caller m now ts with Some (ts1, now1) => twaits force_caller r now1 ts1 | None => None end
  end.

(* chunks, each followed by waits of the caller that time out *)
Fixpoint wtimed_run (force_caller : bool) (ht : Z) (now : Z) (ts : tst) (steps : list (list Z * list Z))
  : option (list event * tst) :=
  match steps with
  | [] => Some ([], ts)
  | (c, ws) :: r =>
      match tpush false false ht now ts c with
      | None => None
      | Some (evs, ts1, now1) =>
          match twaits force_caller ws now1 ts1 with
          | None => None
          | Some (ts2, now2) =>
              match wtimed_run force_caller ht now2 ts2 r with
              | None => None
              | Some (evs2, ts3) => Some (evs ++ evs2, ts3)
              end
          end
      end
  end.

(* tickit_term_input_wait_tv: the time-out in milliseconds; pinned: seconds added unscaled *)
Definition wait_tv_msec (pinned : bool) (sec usec : Z) : Z := (if pinned then sec else sec * 1000) + usec / 1000.

End WithTok.
