(* LoopIoProofs.v -- io_safe: the heap level of LoopIo.v (IO watches of the built instance: chain,
   slot arrays of the default event loop, dispatch, cancellation and registration from callbacks,
   destruction) never reads a freed node, frees every node -- the terminal watch of tickit_build
   included -- and logs what the specification logs; for every callback table and every script.
   Invariant IR: the chain is the table's identities, every listed node is allocated and holds
   exactly that watch, nothing else is allocated; a slot that is not free holds a listed watch
   whose index is that slot (so the dispatch dereferences live watches only, and a cancellation
   clears the one slot that could still lead to the freed node). *)
From Coq Require Import ZArith List Bool Lia.
From Tickit Require Import LoopDefs LoopSpec LoopSigDefs LoopSigProofs LoopSigIO LoopSigSpec LoopSigRefine LoopChain LoopChainProofs LoopIo.
Import ListNotations.
Local Open Scope Z_scope.

(* ------------------------------------------------------------------ slots *)

Lemma first_free_le : forall l, (first_free l <= length l)%nat.
Proof. induction l as [|s t IH]; [cbn; lia|]. cbn [first_free length]. destruct (sl_fd s =? -1); lia. Qed.

Lemma nth_put : forall l i v j, (i <= length l)%nat ->
  nth_error (put_slot l i v) j = if Nat.eqb i j then Some v else nth_error l j.
Proof.
  intros l i v j Hi. unfold put_slot. destruct (Nat.ltb i (length l)) eqn:E.
  - rewrite nth_error_cupd, E. reflexivity.
  - apply Nat.ltb_ge in E. assert (i = length l) by lia. subst i. destruct (Nat.eqb (length l) j) eqn:Ej.
    + apply Nat.eqb_eq in Ej. subst j. rewrite nth_error_app2 by lia. rewrite Nat.sub_diag. reflexivity.
    + apply Nat.eqb_neq in Ej. destruct (Nat.lt_ge_cases j (length l)) as [Hlt|Hge].
      * rewrite nth_error_app1 by exact Hlt. reflexivity.
      * assert (E1 : nth_error l j = None) by (apply nth_error_None; lia). rewrite E1. apply nth_error_None.
        rewrite app_length. cbn [length]. lia.
Qed.

Lemma nth_clear : forall l i j,
  nth_error (clear_slot l i) j =
  if Nat.eqb (Z.to_nat i) j then option_map (fun sl => mkSl (-1) (sl_rev sl) (-1)) (nth_error l j) else nth_error l j.
Proof.
  intros l i j. unfold clear_slot. destruct (nth_error l (Z.to_nat i)) as [sl|] eqn:E.
  - rewrite nth_error_cupd. destruct (Nat.eqb (Z.to_nat i) j) eqn:Ej; [|reflexivity].
    apply Nat.eqb_eq in Ej. subst j. rewrite E. cbn [option_map].
    assert (Hl : Nat.ltb (Z.to_nat i) (length l) = true) by (apply Nat.ltb_lt; apply nth_error_Some; rewrite E; discriminate).
    rewrite Hl. reflexivity.
  - destruct (Nat.eqb (Z.to_nat i) j) eqn:Ej; [|reflexivity]. apply Nat.eqb_eq in Ej. subst j. rewrite E. reflexivity.
Qed.

Lemma nth_poll : forall ready l j,
  nth_error (poll_slots ready l) j =
  option_map (fun sl => mkSl (sl_fd sl) (if sl_fd sl <? 0 then false else zin (sl_fd sl) ready) (sl_w sl)) (nth_error l j).
Proof.
  intros ready. induction l as [|s t IH]; intros j; [destruct j; reflexivity|]. destruct j; [reflexivity|]. cbn [poll_slots map nth_error]. apply IH.
Qed.

(* ------------------------------------------------------------------ the representation invariant *)

Record IR (h : his) (s : jst) : Prop := mkIR {
  ir_chain : c_chain (i_h h) = map c_id (j_tab s);
  ir_rd : forall w, In w (j_tab s) -> crd (i_h h) (c_id w) = Some w;
  ir_nd : NoDup (c_chain (i_h h));
  ir_only : forall a w, crd (i_h h) a = Some w -> In a (c_chain (i_h h));
  ir_hl : forall a, In a (c_live (i_h h)) <-> In a (c_chain (i_h h));
  ir_len : Z.of_nat (length (c_hp (i_h h))) = j_next s;
  ir_sl : i_sl h = j_sl s;
  ir_it : c_iter (i_h h) = j_iter s;
  ir_lg : c_log (i_h h) = j_log s;
  ir_occ : forall i sl, nth_error (j_sl s) i = Some sl -> sl_fd sl <> -1 ->
           exists w, In w (j_tab s) /\ c_id w = sl_w sl /\ c_st w = Z.of_nat i }.

Lemma ir_lt : forall h s a, IR h s -> In a (c_chain (i_h h)) -> 0 <= a < j_next s.
Proof.
  intros h s a HR Hin. rewrite (ir_chain h s HR) in Hin. apply in_map_iff in Hin. destruct Hin as [w [E Hw]]. subst a.
  rewrite <- (ir_len h s HR). eapply crd_lt. apply (ir_rd h s HR w Hw).
Qed.

Lemma ir_call_live : forall h s, IR h s -> call_live (i_h h) (c_chain (i_h h)) = true.
Proof.
  intros h s HR. unfold call_live. apply forallb_forall. intros a Ha. rewrite (ir_chain h s HR) in Ha.
  apply in_map_iff in Ha. destruct Ha as [w [E Hw]]. subst a. rewrite (ir_rd h s HR w Hw). reflexivity.
Qed.

Lemma IR_emit : forall h s w f x, IR h s -> (Z.testbit f 1 || Z.testbit f 2 = true -> ~ In (c_id w) (c_chain (i_h h))) ->
  IR (set_h h (hiemit (i_h h) w f x)) (jemit s w f x).
Proof.
  intros h s w f x [a b c d e g i j k l] Hf.
  apply mkIR; cbn [i_h i_sl set_h c_chain c_hp c_live c_iter c_log hiemit jemit j_tab j_sl j_next j_iter j_log]; try assumption.
  - intros a0. destruct (Z.testbit f 1 || Z.testbit f 2) eqn:Eb; [|apply e]. rewrite zrem_in, e. split; [intros [A _]; exact A|].
    intros Hin. split; [exact Hin|]. intros E. subst a0. exact (Hf eq_refl Hin).
  - rewrite j, k. reflexivity.
Qed.

(* registration *)
Lemma sim_ireg : forall h s first fd ub ds cb, IR h s ->
  exists h', hi_reg h first fd ub ds cb = Some h' /\ IR h' (j_action s (IReg first fd ub ds cb)).
Proof.
  intros h s first fd ub ds cb HR. pose proof HR as [a b c d e g i j k l].
  unfold hi_reg, j_action. rewrite (ir_call_live h s HR), g, i.
  set (n := j_next s). set (ix := first_free (j_sl s)).
  set (w := io_cell n fd ix ub ds cb).
  assert (Hfresh : ~ In n (c_chain (i_h h))) by (intros Hin; pose proof (ir_lt h s n HR Hin); unfold n in *; lia).
  assert (Hocc : forall tab', (forall u, In u (j_tab s) -> In u tab') -> In w tab' ->
            forall i0 sl, nth_error (put_slot (j_sl s) ix (mkSl fd false n)) i0 = Some sl -> sl_fd sl <> -1 ->
            exists u, In u tab' /\ c_id u = sl_w sl /\ c_st u = Z.of_nat i0).
  { intros tab' Hold Hnew i0 sl Hn Hfd. rewrite nth_put in Hn by apply first_free_le. destruct (Nat.eqb ix i0) eqn:Ei.
    - apply Nat.eqb_eq in Ei. inversion Hn; subst sl. exists w. split; [exact Hnew|]. split; [reflexivity|]. cbn. rewrite Ei. reflexivity.
    - destruct (l i0 sl Hn Hfd) as [u [Hu [E1 E2]]]. exists u. split; [apply Hold; exact Hu|]. split; assumption. }
  destruct first.
  - eexists. split; [reflexivity|]. apply mkIR; cbn [i_h i_sl c_chain c_hp c_live c_iter c_log j_tab j_sl j_next j_iter j_log].
    + rewrite a. reflexivity.
    + intros u [Hu|Hu]; (erewrite crd_app by reflexivity); rewrite g; fold n.
      * subst u. cbn. rewrite Z.eqb_refl. reflexivity.
      * pose proof (crd_lt (i_h h) _ _ (b u Hu)). destruct (c_id u =? n) eqn:E; [apply Z.eqb_eq in E; unfold n in E; lia|apply b; exact Hu].
    + constructor; assumption.
    + intros a0 u Hu. erewrite crd_app in Hu by reflexivity. rewrite g in Hu. fold n in Hu. destruct (a0 =? n) eqn:E.
      * left. apply Z.eqb_eq in E. symmetry. exact E.
      * right. apply (d a0 u Hu).
    + intros a0. cbn [In]. rewrite e. reflexivity.
    + rewrite app_length. cbn [length]. unfold n. lia.
    + reflexivity.
    + exact j.
    + exact k.
    + apply Hocc; [intros u Hu; right; exact Hu|left; reflexivity].
  - eexists. split; [reflexivity|]. apply mkIR; cbn [i_h i_sl c_chain c_hp c_live c_iter c_log j_tab j_sl j_next j_iter j_log].
    + rewrite a, map_app. reflexivity.
    + intros u Hu. apply in_app_or in Hu. (erewrite crd_app by reflexivity); rewrite g; fold n. destruct Hu as [Hu|[Hu|[]]].
      * pose proof (crd_lt (i_h h) _ _ (b u Hu)). destruct (c_id u =? n) eqn:E; [apply Z.eqb_eq in E; unfold n in E; lia|apply b; exact Hu].
      * subst u. cbn. rewrite Z.eqb_refl. reflexivity.
    + apply NoDup_app_intro_single; assumption.
    + intros a0 u Hu. erewrite crd_app in Hu by reflexivity. rewrite g in Hu. fold n in Hu. apply in_or_app. destruct (a0 =? n) eqn:E.
      * right. left. apply Z.eqb_eq in E. symmetry. exact E.
      * left. apply (d a0 u Hu).
    + intros a0. cbn [In]. rewrite in_app_iff, e. cbn. intuition.
    + rewrite app_length. cbn [length]. unfold n. lia.
    + reflexivity.
    + exact j.
    + exact k.
    + apply Hocc; [intros u Hu; apply in_or_app; left; exact Hu|apply in_or_app; right; left; reflexivity].
Qed.

(* cancellation of a listed watch *)
Lemma sim_icancel : forall h s id, IR h s -> In id (c_chain (i_h h)) ->
  let g := i_h h in
  let h0 := set_h h (mkHc (c_hp g) (c_chain g) None (zrem id (c_live g)) [] O (c_iter g) (c_log g)) in
  exists h', hi_cancel h0 id = Some h' /\ IR h' (j_action s (ICancel id)).
Proof.
  intros h s id HR Hin g h0. pose proof HR as [a b c d e gl i j k l]. fold g in a, b, c, d, e, gl, j, k.
  pose proof Hin as Hin2. fold g in Hin2. rewrite a in Hin2. apply in_map_iff in Hin2. destruct Hin2 as [w [Eid Hw]].
  assert (Hndt : NoDup (map c_id (j_tab s))) by (rewrite <- a; exact c).
  assert (Hf : cfind id (j_tab s) = Some w) by (rewrite <- Eid; apply cfind_in; assumption).
  unfold hi_cancel, j_action. rewrite Hf. cbn [i_h set_h h0 i_sl].
  set (g0 := mkHc (c_hp g) (c_chain g) None (zrem id (c_live g)) [] O (c_iter g) (c_log g)).
  assert (Hrd0 : forall x, crd g0 x = crd g x) by (intros x; reflexivity).
  assert (Hrdw : crd g0 id = Some w) by (rewrite Hrd0, <- Eid; exact (b w Hw)). rewrite Hrdw.
  change (c_chain g0) with (c_chain g).
  rewrite c_unlink_ok by (intros x Hx; rewrite a in Hx; apply in_map_iff in Hx; destruct Hx as [u [Eu Hu]]; subst x;
                           rewrite Hrd0, (b u Hu); discriminate).
  rewrite (proj2 (zin_in id (c_chain g)) Hin).
  assert (Hni : ~ In id (zrm id (c_chain g))) by (apply zrm_nodup_notin; exact c).
  assert (Hsub : forall x, In x (zrm id (c_chain g)) <-> In x (c_chain g) /\ x <> id).
  { intros x. split.
    - intros Hx. split; [eapply subl_in; [apply zrm_sub|exact Hx]|]. intros E. subst x. exact (Hni Hx).
    - intros [Hx Hne]. rewrite a in *. rewrite <- cremove_ids. apply in_map_iff in Hx. destruct Hx as [u [Eu Hu]].
      apply in_map_iff. exists u. split; [exact Eu|]. apply cremove_keep; [exact Hu|congruence]. }
  set (g1 := mkHc (c_hp g0) (zrm id (c_chain g)) None (c_live g0) [] O (c_iter g0) (c_log g0)).
  set (s1 := mkJ (cremove id (j_tab s)) (j_sl s) (j_next s) (j_iter s) (j_log s)).
  set (g2 := if c_unbind w then hiemit g1 w EV_UNBIND 0 else g1).
  set (s2 := if c_unbind w then jemit s1 w EV_UNBIND 0 else s1).
  assert (Hrd2 : forall x, crd g2 x = crd g x) by (intros x; unfold g2; destruct (c_unbind w); reflexivity).
  assert (F2 : c_chain g2 = zrm id (c_chain g) /\ c_iter g2 = j_iter s2 /\ c_log g2 = j_log s2 /\
               (forall x, In x (c_live g2) <-> In x (zrm id (c_chain g))) /\
               j_tab s2 = cremove id (j_tab s) /\ j_next s2 = j_next s /\ j_sl s2 = j_sl s /\ length (c_hp g2) = length (c_hp g)).
  { unfold g2, s2. destruct (c_unbind w); cbn; (repeat split; try assumption; try reflexivity; try (rewrite j, k; reflexivity)).
    - intros Hx. apply zrem_in in Hx. destruct Hx as [Hx _]. apply zrem_in in Hx. apply Hsub. split; [apply e; apply Hx|apply Hx].
    - intros Hx. apply zrem_in. apply Hsub in Hx. split; [apply zrem_in; split; [apply e; apply Hx|apply Hx]|]. rewrite Eid. apply Hx.
    - intros Hx. apply zrem_in in Hx. apply Hsub. split; [apply e; apply Hx|apply Hx].
    - intros Hx. apply Hsub in Hx. apply zrem_in. split; [apply e; apply Hx|apply Hx]. }
  destruct F2 as [G1 [G5 [G6 [G7 [G8 [G9 [G11 G10]]]]]]].
  assert (Hrd2i : crd g2 id = Some w) by (rewrite Hrd2, <- Eid; exact (b w Hw)). rewrite Hrd2i.
  destruct (cfree_spec g2 id w Hrd2i) as [g3 [Ef [C1 [C2 [C3 [C4 [C5 [C6 [C7 [C8 C9]]]]]]]]]]. rewrite Ef.
  eexists. split; [reflexivity|].
  apply mkIR; cbn [i_h i_sl j_tab j_sl j_next j_iter j_log].
  - rewrite C1, G1, G8, cremove_ids, a. reflexivity.
  - intros u Hu. rewrite G8 in Hu. pose proof (cremove_in _ _ _ Hu) as Hu0. rewrite C9, Hrd2.
    destruct (c_id u =? id) eqn:E; [|apply b; exact Hu0]. exfalso. apply Z.eqb_eq in E. apply Hni.
    assert (Hm : In (c_id u) (map c_id (cremove id (j_tab s)))) by (apply in_map; exact Hu).
    rewrite E, cremove_ids, <- a in Hm. exact Hm.
  - rewrite C1, G1. eapply subl_nodup; [apply zrm_sub|exact c].
  - intros x u Hx. rewrite C9 in Hx. destruct (x =? id) eqn:E; [discriminate|]. rewrite Hrd2 in Hx. rewrite C1, G1. apply Hsub.
    split; [apply (d x u Hx)|apply Z.eqb_neq; exact E].
  - intros x. rewrite C3, C1, G1. apply G7.
  - rewrite C8, G10, G9. exact gl.
  - rewrite G11, i. reflexivity.
  - rewrite C6. exact G5.
  - rewrite C7. exact G6.
  - intros i0 sl Hn Hfd. rewrite G11, nth_clear in Hn. destruct (Nat.eqb (Z.to_nat (c_st w)) i0) eqn:Ei.
    + destruct (nth_error (j_sl s) i0); [|discriminate]. inversion Hn; subst sl. cbn in Hfd. contradiction.
    + apply Nat.eqb_neq in Ei. destruct (l i0 sl Hn Hfd) as [u [Hu [E1 E2]]]. exists u. split; [|split; assumption].
      rewrite G8. apply cremove_keep; [exact Hu|]. intros E. apply Ei.
      assert (u = w) by (apply (cid_inj (j_tab s)); [exact Hndt|exact Hu|exact Hw|congruence]). subst u. rewrite E2. apply Nat2Z.id.
Qed.

Lemma sim_iaction : forall h s a, IR h s -> exists h', hi_action h a = Some h' /\ IR h' (j_action s a).
Proof.
  intros h s a HR. destruct a as [first fd ub ds cb|id|].
  - apply sim_ireg. exact HR.
  - cbn [hi_action]. destruct (zin id (c_live (i_h h))) eqn:Ez.
    + apply zin_in in Ez. apply (ir_hl h s HR) in Ez. exact (sim_icancel h s id HR Ez).
    + exists h. split; [reflexivity|]. cbn [j_action]. rewrite cfind_none; [exact HR|].
      intros Hin. rewrite <- (ir_chain h s HR) in Hin. apply (ir_hl h s HR) in Hin. apply zin_in in Hin. congruence.
  - exists h. split; [reflexivity|exact HR].
Qed.

Lemma sim_iactions : forall l h s, IR h s -> exists h', hi_actions h l = Some h' /\ IR h' (j_actions s l).
Proof.
  induction l as [|a t IH]; intros h s HR; [exists h; split; [reflexivity|exact HR]|].
  unfold hi_actions, j_actions. cbn [fold_left]. destruct (sim_iaction h s a HR) as [h1 [E1 HR1]]. rewrite E1. exact (IH h1 _ HR1).
Qed.

Section WithEnv.
Variable env : Z -> list iact.

(* the dispatch loop: every watch it dereferences is allocated *)
Lemma sim_iwalk : forall idxs h s, IR h s -> exists h', hi_walk env idxs h = Some h' /\ IR h' (j_walk env idxs s).
Proof.
  induction idxs as [|i r IH]; intros h s HR; [exists h; split; [reflexivity|exact HR]|].
  cbn [hi_walk j_walk]. rewrite (ir_sl h s HR). destruct (nth_error (j_sl s) i) as [sl|] eqn:En; [|apply IH; exact HR].
  destruct ((sl_fd sl =? -1) || negb (sl_rev sl)) eqn:Eb; [apply IH; exact HR|].
  apply orb_false_iff in Eb. destruct Eb as [Efd _]. apply Z.eqb_neq in Efd.
  destruct (ir_occ h s HR i sl En Efd) as [u [Hu [E1 _]]].
  assert (Hndt : NoDup (map c_id (j_tab s))) by (rewrite <- (ir_chain h s HR); exact (ir_nd h s HR)).
  rewrite <- E1, (cfind_in _ _ Hndt Hu), (ir_rd h s HR u Hu).
  assert (HR1 : IR (set_h h (hiemit (i_h h) u EV_FIRE 1)) (jemit s u EV_FIRE 1)) by (apply IR_emit; [exact HR|cbn; discriminate]).
  destruct (sim_iactions (env (c_cb u)) _ _ HR1) as [h2 [E2 HR2]]. rewrite E2. exact (IH h2 _ HR2).
Qed.

Lemma sim_itick : forall ready h s, IR h s -> exists h', hi_tick env ready h = Some h' /\ IR h' (j_tick env ready s).
Proof.
  intros ready h s HR. unfold hi_tick, j_tick. cbn [i_sl]. rewrite (ir_sl h s HR). apply sim_iwalk.
  destruct HR as [a b c d e g i j k l].
  apply mkIR; cbn [i_h i_sl c_chain c_hp c_live c_iter c_log j_tab j_sl j_next j_iter j_log]; try assumption; try reflexivity.
  - rewrite j. reflexivity.
  - rewrite k. reflexivity.
  - intros i0 sl Hn Hfd. rewrite nth_poll in Hn. destruct (nth_error (j_sl s) i0) as [sl0|] eqn:E0; [|discriminate].
    cbn [option_map] in Hn. inversion Hn; subst sl. cbn [sl_fd sl_w] in *. exact (l i0 sl0 E0 Hfd).
Qed.

Lemma hi_op_none : forall ops, fold_left (hi_op env) ops None = None.
Proof. induction ops as [|o r IH]; [reflexivity|exact IH]. Qed.

Lemma sim_iops : forall ops h s, IR h s ->
  exists h', fold_left (hi_op env) ops (Some h) = Some h' /\ IR h' (fold_left (j_op env) ops s).
Proof.
  induction ops as [|o r IH]; intros h s HR; [exists h; split; [reflexivity|exact HR]|].
  cbn [fold_left hi_op]. destruct o as [a|ready].
  - destruct (sim_iaction h s a HR) as [h1 [E1 HR1]]. rewrite E1. exact (IH h1 _ HR1).
  - destruct (sim_itick ready h s HR) as [h1 [E1 HR1]]. rewrite E1. exact (IH h1 _ HR1).
Qed.

(* destroy_watchlist *)
Definition idfun (oh : option his) (a : Z) : option his :=
  match oh with
  | None => None
  | Some h =>
      match crd (i_h h) a with
      | None => None
      | Some w =>
          let g1 := if c_unbind w || c_destroy w then hiemit (i_h h) w (EV_UNBIND + EV_DESTROY) 0 else i_h h in
          match cfree g1 a with
          | None => None
          | Some g2 => Some (mkHi g2 (clear_slot (i_sl h) (c_st w)))
          end
      end
  end.

Definition jdfun (s : jst) (w : cw) : jst :=
  let s1 := if c_unbind w || c_destroy w then jemit s w (EV_UNBIND + EV_DESTROY) 0 else s in
  mkJ (j_tab s1) (clear_slot (j_sl s1) (c_st w)) (j_next s1) (j_iter s1) (j_log s1).

Lemma idestroy_fold : forall l h s,
  (forall w, In w l -> crd (i_h h) (c_id w) = Some w) -> NoDup (map c_id l) -> c_log (i_h h) = j_log s -> c_iter (i_h h) = j_iter s ->
  (forall a w, crd (i_h h) a = Some w -> In a (map c_id l)) ->
  exists h', fold_left idfun (map c_id l) (Some h) = Some h' /\
    c_log (i_h h') = j_log (fold_left jdfun l s) /\ (forall a, crd (i_h h') a = None).
Proof.
  induction l as [|w r IH]; intros h s Hrd Hnd Hlg Hit Honly.
  - exists h. split; [reflexivity|]. split; [exact Hlg|].
    intros a. destruct (crd (i_h h) a) eqn:E; [destruct (Honly a c E)|reflexivity].
  - cbn [map fold_left idfun]. rewrite (Hrd w (or_introl eq_refl)).
    cbn [map] in Hnd. inversion Hnd as [|? ? Hn Ht]; subst.
    set (g1 := if c_unbind w || c_destroy w then hiemit (i_h h) w (EV_UNBIND + EV_DESTROY) 0 else i_h h).
    assert (Hrd1 : forall x, crd g1 x = crd (i_h h) x) by (intros x; unfold g1; destruct (c_unbind w || c_destroy w); reflexivity).
    assert (Hrdw : crd g1 (c_id w) = Some w) by (rewrite Hrd1; apply Hrd; left; reflexivity).
    destruct (cfree_spec g1 (c_id w) w Hrdw) as [g2 [Ef [_ [_ [_ [_ [_ [F6 [F7 [_ F9]]]]]]]]]]. rewrite Ef.
    destruct (IH (mkHi g2 (clear_slot (i_sl h) (c_st w))) (jdfun s w)) as [h' [E' [L' N']]]; cbn [i_h].
    + intros u Hu. rewrite F9. destruct (c_id u =? c_id w) eqn:E0.
      * exfalso. apply Z.eqb_eq in E0. apply Hn. rewrite <- E0. apply in_map. exact Hu.
      * rewrite Hrd1. apply Hrd. right. exact Hu.
    + exact Ht.
    + rewrite F7. unfold g1, jdfun. destruct (c_unbind w || c_destroy w); cbn; [rewrite Hlg, Hit; reflexivity|exact Hlg].
    + rewrite F6. unfold g1, jdfun. destruct (c_unbind w || c_destroy w); exact Hit.
    + intros a u Ha. rewrite F9 in Ha. destruct (a =? c_id w) eqn:E0; [discriminate|]. rewrite Hrd1 in Ha.
      destruct (Honly a u Ha) as [H|H]; [apply Z.eqb_neq in E0; congruence|exact H].
    + exists h'. split; [exact E'|]. split; [exact L'|exact N'].
Qed.

Lemma IR_built : IR his_built jst_built.
Proof.
  apply mkIR; cbn [i_h i_sl his_built jst_built c_chain c_hp c_live c_iter c_log j_tab j_sl j_next j_iter j_log]; try reflexivity.
  - intros w [Hw|[]]. subst w. reflexivity.
  - constructor; [intros []|constructor].
  - intros a w H. unfold crd in H. cbn [c_hp] in H. destruct (a <? 0) eqn:E; [discriminate|]. apply Z.ltb_ge in E.
    destruct (Z.to_nat a) as [|n] eqn:En; [left; lia|]. destruct n; discriminate.
  - intros i sl Hn Hfd. destruct i as [|i]; [|destruct i; discriminate]. inversion Hn; subst sl. cbn in Hfd. contradiction.
Qed.

(* C17_io_safe *)
Theorem io_safe : forall ops, hi_run env ops = Some (j_run env ops, true).
Proof.
  intros ops. destruct (sim_iops ops his_built jst_built IR_built) as [h [E HR]].
  unfold hi_run, j_run. rewrite E. set (s := fold_left (j_op env) ops jst_built) in *.
  unfold hi_destroy, j_destroy.
  set (h0 := mkHi (mkHc (c_hp (i_h h)) (c_chain (i_h h)) None (c_live (i_h h)) [] O (-1) (c_log (i_h h))) (i_sl h)).
  set (s0 := mkJ (j_tab s) (j_sl s) (j_next s) (-1) (j_log s)).
  change (fold_left _ (c_chain (i_h h0)) (Some h0)) with (fold_left idfun (c_chain (i_h h)) (Some h0)).
  change (fold_left _ (j_tab s0) s0) with (fold_left jdfun (j_tab s) s0).
  rewrite (ir_chain h s HR).
  destruct (idestroy_fold (j_tab s) h0 s0) as [h' [E' [L' N']]].
  - intros w Hw. apply (ir_rd h s HR w Hw).
  - rewrite <- (ir_chain h s HR). apply (ir_nd h s HR).
  - apply (ir_lg h s HR).
  - reflexivity.
  - intros a w Ha. rewrite <- (ir_chain h s HR). apply (ir_only h s HR a w Ha).
  - rewrite E'. rewrite L'. f_equal. f_equal. apply c_no_live_of. exact N'.
Qed.

End WithEnv.

(* ------------------------------------------------------------------ the terminal watch of tickit_build *)

(* it is never notified (no flags), nothing refers to it after destruction: the whole heap is
   freed; the empty script: *)
Lemma built_alone : forall env, hi_run env [] = Some ([], true).
Proof. intros env. reflexivity. Qed.

(* a witness: watch 1 (slot 0, reusing the terminal watch's slot of descriptor -1) and watch 2
   (slot 1) are ready together; the callback of watch 1 cancels watch 2 -- whose slot the loop
   has not reached -- and registers watch 3, which takes that slot: it is not invoked by this
   dispatch (revents cleared), but by the next *)
Definition iw_env (cb : Z) : list iact := if cb =? 1 then [ICancel 2; IReg false 5 false true 0] else [].
Definition iw_ops : list iop :=
  [JAct (IReg false 4 false false 1); JAct (IReg false 5 true false 0); JTick [4; 5]; JTick [5]].
Definition iw_log : list obs :=
  [OPoll 0; OEv (mkE 1 KIo EV_FIRE 1 0 1); OEv (mkE 2 KIo EV_UNBIND 1 0 0); OPoll 0; OEv (mkE 3 KIo EV_FIRE 2 0 1);
   OEv (mkE 3 KIo (EV_UNBIND + EV_DESTROY) (-1) 0 0)].
Lemma io_witness : j_run iw_env iw_ops = iw_log /\ hi_run iw_env iw_ops = Some (iw_log, true).
Proof. split; vm_compute; reflexivity. Qed.
