(* LifeEvents.v -- the heap invariant and the agreement with the discipline, carried through key and mouse
   dispatch with re-entrant handlers: reference count = the client's references + the references held by
   dispatch frames; frames are released innermost first and every framed window's parent is framed further
   out, so the destruction of a window never consumes a reference that a frame holds. *)
From Coq Require Import ZArith List Bool PArith FMapPositive Lia.
From Tickit Require Import LifeDefs LifeLemmas LifeChains LifeInv LifePure LifeWalks LifeRelink LifeRemove LifeClose
  LifeQueue LifeDestroy LifeAttach LifeOps LifeFlush LifeFate LifeSpec LifeProofs LifeAgree LifeSpecEv LifeTrace
  LifeAgreeEv LifeUnfold LifeBridge LifeNorm.
Import ListNotations.
Local Open Scope Z_scope.

(* ---- the trace only grows ---- *)
Definition text {A} (m : M A) : Prop :=
  forall h, match m h with
            | Ok _ h' => exists l, tr h' = l ++ tr h
            | Fault _ hf => exists l, tr hf = l ++ tr h
            | NoFuel => True
            end.

Lemma ktr_text : forall A (m : M A), ktr m -> text m.
Proof. intros A m H h. specialize (H h). destruct (m h); auto; exists []; exact H. Qed.
Lemma text_ret : forall A (a : A), text (ret a).
Proof. intros. apply ktr_text, ktr_ret. Qed.
Lemma text_log_op : forall o, text (log_op o).
Proof. intros o h. cbn. exists [o]. reflexivity. Qed.
Lemma text_bind : forall A B (m : M A) (k : A -> M B), text m -> (forall a, text (k a)) -> text (bind m k).
Proof.
  intros A B m k Hm Hk h. unfold bind. specialize (Hm h). destruct (m h) as [a h1|f hf|]; auto.
  destruct Hm as [l1 E1]. specialize (Hk a h1). destruct (k a h1) as [b h2|f hf|]; auto; destruct Hk as [l2 E2];
    exists (l2 ++ l1); rewrite E2, E1, app_assoc; reflexivity.
Qed.

Ltac text1 :=
  match goal with
  | |- text (bind _ _) => apply text_bind; [|intro]
  | |- text (ret _) => apply text_ret
  | |- text (log_op _) => apply text_log_op
  | |- text (let _ := _ in _) => cbv zeta
  | |- text (if ?b then _ else _) => destruct b
  | |- text (match ?x with _ => _ end) => destruct x
  | |- text _ => solve [auto | apply ktr_text; eauto with ktr]
  end.
Ltac text_auto := repeat text1.

Lemma text_all : forall fuel,
  (forall o, text (run_op fixed fuel o)) /\ (forall l, text (run_ops fixed fuel l)) /\
  (forall w hs, text (run_key_handlers fixed fuel w hs)) /\ (forall w hs t u, text (run_mouse_handlers fixed fuel w hs t u)) /\
  (forall w hs k, text (run_ev_handlers fixed fuel w hs k)) /\
  (forall w, text (set_geometry fixed fuel w)) /\ text (on_term_resize fixed fuel) /\
  (forall w, text (do_expose fixed fuel w)) /\ (forall w k, text (expose_kids fixed fuel w k)) /\
  (forall w c, text (expose_kids_asis fixed fuel w c)) /\
  (forall w, text (focus_lost fixed fuel w)) /\ (forall w c, text (focus_gained fixed fuel w c)) /\
  (forall w, text (window_flush fixed fuel w)) /\
  (forall w, text (handle_key fixed fuel w)) /\ (forall w s k, text (key_kids fixed fuel w s k)) /\
  (forall w c, text (key_kids_asis fixed fuel w c)) /\
  (forall w t i u, text (handle_mouse fixed fuel w t i u)) /\ (forall w k t i u, text (mouse_kids fixed fuel w k t i u)) /\
  (forall w c t i u, text (mouse_kids_asis fixed fuel w c t i u)) /\
  (forall w, text (ref_up fixed fuel w)) /\ (forall l, text (unref_list fixed fuel l)) /\
  (forall t, text (on_term_mouse fixed fuel t)).
Proof.
  induction fuel as [|f (I1 & I2 & I3 & I4 & I5 & I6 & I7 & I8 & I9 & I10 & I11 & I12 & I13 & I14 & I15 & I16 & I17 & I18 & I19 & I20 & I21 & I22)].
  - repeat split; intros; intro h; exact I.
  - repeat split; intros.
    + rewrite run_op_F. cbn [v_events_asis fixed]. text_auto.
    + rewrite run_ops_F. text_auto.
    + rewrite run_key_handlers_F. text_auto.
    + rewrite run_mouse_handlers_F. text_auto.
    + rewrite run_ev_handlers_F. text_auto.
    + rewrite set_geometry_F. cbn [v_events_asis fixed]. text_auto.
    + rewrite on_term_resize_F. cbn [v_events_asis fixed]. text_auto.
    + rewrite do_expose_F. cbn [v_events_asis fixed]. text_auto.
    + rewrite expose_kids_F. text_auto.
    + rewrite expose_kids_asis_F. text_auto.
    + rewrite focus_lost_F. cbn [v_events_asis fixed]. text_auto.
    + rewrite focus_gained_F. cbn [v_events_asis fixed]. text_auto.
    + rewrite window_flush_F. cbn [v_events_asis fixed]. text_auto.
    + rewrite handle_key_F. cbn [v_events_asis fixed]. text_auto.
    + rewrite key_kids_F. text_auto.
    + rewrite key_kids_asis_F. text_auto.
    + rewrite handle_mouse_F. cbn [v_events_asis fixed]. text_auto.
    + rewrite mouse_kids_F. text_auto.
    + rewrite mouse_kids_asis_F. text_auto.
    + rewrite ref_up_F. text_auto.
    + rewrite unref_list_F. text_auto.
    + rewrite on_term_mouse_F. cbn [v_events_asis fixed]. text_auto.
Qed.

(* ---- the discipline over a growing trace ---- *)
Lemma echeck_app : forall l1 l2 g,
  echeck g (l1 ++ l2) = match echeck g l1 with Some g1 => echeck g1 l2 | None => None end.
Proof.
  induction l1 as [|o l1 IH]; intros l2 g; cbn; [reflexivity|]. destruct (estep g o); [apply IH|reflexivity].
Qed.

(* the trace is no longer one of a well-behaved client: the discipline accepts a prefix and then rejects a call OF THE
   CLIENT (never a frame reference of the library) *)
Definition ill (h : heap) : Prop :=
  exists l1 o l2 g, rev (tr h) = l1 ++ o :: l2 /\ echeck e0 l1 = Some g /\ estep g o = None /\ is_client o = true.

Lemma ill_echeck : forall h, ill h -> echeck e0 (rev (tr h)) = None.
Proof. intros h (l1 & o & l2 & g & E & H1 & H2 & _). rewrite E, echeck_app, H1. cbn. rewrite H2. reflexivity. Qed.

Lemma ill_ext : forall h h' l, ill h -> tr h' = l ++ tr h -> ill h'.
Proof.
  intros h h' l (l1 & o & l2 & g & E & H1 & H2 & H3) Et. exists l1, o, (l2 ++ rev l), g.
  split; [rewrite Et, rev_app_distr, E, <- app_assoc; reflexivity|auto].
Qed.

Lemma ill_now : forall h h1 o g, echeck e0 (rev (tr h)) = Some g -> tr h1 = o :: tr h -> estep g o = None ->
  is_client o = true -> ill h1.
Proof.
  intros h h1 o g Hg Et Hs Hc. exists (rev (tr h)), o, [], g. split; [rewrite Et; reflexivity|auto].
Qed.

(* ---- frames ---- *)
(* [F]: the windows (by index) that dispatch frames hold, the one to be released first at the head *)
Definition frames_of (g : eghost) (F : list nat) : Prop :=
  (forall i x, nth_error g i = Some x -> e_fr x = Z.of_nat (count_occ Nat.eq_dec F i)) /\
  (forall i, In i F -> (i < length g)%nat).
(* the parent of a framed window is framed further out *)
Definition FS (g : eghost) (F : list nat) : Prop :=
  forall F1 i F2 x p, F = F1 ++ i :: F2 -> nth_error g i = Some x -> e_par x = Some p -> In p F2.

Lemma FS_tail : forall g i F, FS g (i :: F) -> FS g F.
Proof. intros g i F H F1 j F2 x p E. apply (H (i :: F1) j F2 x p). rewrite E. reflexivity. Qed.

Lemma FS_desc : forall g F w j, FS g F -> edesc g w j -> forall F1 F2, F = F1 ++ j :: F2 -> In w F2.
Proof.
  intros g F w j HF Hd. induction Hd as [j x Hn Hp | j x p Hn Hp Hd IH]; intros F1 F2 E.
  - eapply HF; eauto.
  - pose proof (HF F1 j F2 x p E Hn Hp) as Hin. apply in_split in Hin. destruct Hin as (G1 & G2 & EG).
    assert (In w G2) by (apply (IH (F1 ++ j :: G1) G2); rewrite E, EG, <- app_assoc; reflexivity).
    rewrite EG. apply in_or_app. right. right. assumption.
Qed.

(* the ghost's parents only ever change to "none" for windows that exist; new windows are appended *)
Definition par_shrinks (g g' : eghost) : Prop :=
  (length g <= length g')%nat /\
  forall i x', nth_error g' i = Some x' -> (i < length g)%nat ->
    exists x, nth_error g i = Some x /\ (e_par x' = e_par x \/ e_par x' = None).

Lemma FS_shrinks : forall g g' F, FS g F -> (forall i, In i F -> (i < length g)%nat) -> par_shrinks g g' -> FS g' F.
Proof.
  intros g g' F HF Hb [_ Hs] F1 i F2 x' p E Hn Hp.
  assert (Hi : (i < length g)%nat) by (apply Hb; rewrite E; apply in_or_app; right; left; reflexivity).
  destruct (Hs i x' Hn Hi) as (x & Hx & [Ep|Ep]); [|congruence].
  apply (HF F1 i F2 x p E Hx). congruence.
Qed.

Lemma nth_edestroy_pass : forall t i w doomed k x',
  nth_error (edestroy_pass t i w doomed) k = Some x' ->
  exists x, nth_error t k = Some x /\ (e_par x' = e_par x \/ e_par x' = None) /\
            ((e_fr x' = e_fr x /\ e_cnt x' <= e_cnt x) \/
             (e_fr x' = 0 /\ ((i + k)%nat = w \/ (0 < e_cnt x /\ e_cnt x - 1 + e_fr x = 0)))).
Proof.
  induction t as [|y t IH]; intros i w doomed k x' H; [destruct k; discriminate|]. cbn [edestroy_pass] in H.
  assert (Hrec : forall d z, nth_error (z :: edestroy_pass t (S i) w d) k = Some x' ->
            (k = O -> z = x' -> exists x, nth_error (y :: t) k = Some x /\ (e_par x' = e_par x \/ e_par x' = None) /\
                      ((e_fr x' = e_fr x /\ e_cnt x' <= e_cnt x) \/ (e_fr x' = 0 /\ ((i + k)%nat = w \/ (0 < e_cnt x /\ e_cnt x - 1 + e_fr x = 0))))) ->
            exists x, nth_error (y :: t) k = Some x /\ (e_par x' = e_par x \/ e_par x' = None) /\
                      ((e_fr x' = e_fr x /\ e_cnt x' <= e_cnt x) \/ (e_fr x' = 0 /\ ((i + k)%nat = w \/ (0 < e_cnt x /\ e_cnt x - 1 + e_fr x = 0))))).
  { intros d z Hz H0. destruct k as [|k]; cbn in Hz.
    - inversion Hz. apply H0; auto.
    - destruct (IH (S i) w d k x' Hz) as (x & Hx & Hp & Hf). exists x. split; [exact Hx|]. split; [exact Hp|].
      rewrite <- Nat.add_succ_comm. exact Hf. }
  destruct (Nat.eqb i w) eqn:Eiw.
  - apply (Hrec _ _ H). intros -> <-. exists y. split; [reflexivity|]. cbn. split; [right; reflexivity|].
    right. split; [reflexivity|]. left. apply Nat.eqb_eq in Eiw. lia.
  - destruct (e_par y) as [p|] eqn:Ep.
    + destruct (existsb (Nat.eqb p) doomed && (0 <? e_cnt y)) eqn:Ec.
      * apply andb_prop in Ec. destruct Ec as [_ Ec]. apply Z.ltb_lt in Ec.
        destruct (e_cnt y - 1 + e_fr y =? 0) eqn:Ez.
        -- apply (Hrec _ _ H). intros -> <-. exists y. split; [reflexivity|]. cbn. split; [right; reflexivity|].
           right. split; [reflexivity|]. right. apply Z.eqb_eq in Ez. split; assumption.
        -- apply (Hrec _ _ H). intros -> <-. exists y. split; [reflexivity|]. cbn. split; [right; reflexivity|].
           left. split; [reflexivity|lia].
      * apply (Hrec _ _ H). intros -> <-. exists y. split; [reflexivity|]. split; [left; reflexivity|]. left. split; [reflexivity|lia].
    + apply (Hrec _ _ H). intros -> <-. exists y. split; [reflexivity|]. split; [left; reflexivity|]. left. split; [reflexivity|lia].
Qed.

Definition nonneg (g : eghost) : Prop := forall i x, nth_error g i = Some x -> 0 <= e_cnt x /\ 0 <= e_fr x.
Lemma agreeE_nonneg : forall g h, agreeE g h -> nonneg g.
Proof.
  intros g h AG i x Hn. pose proof (ae_cells g h AG i x Hn) as C. destruct (findw h (addr_of i)).
  - destruct C as (_ & H1 & H2 & _). auto.
  - destruct C as (H1 & H2 & _). lia.
Qed.

Lemma count_pos_in : forall (F : list nat) i, (0 < count_occ Nat.eq_dec F i)%nat <-> In i F.
Proof. intros. symmetry. apply count_occ_In. Qed.

(* no frame holds a window attached below [w], when [w] is framed at most once and then at the head *)
Lemma nfb_from_FS : forall g F0 w, frames_of g F0 -> FS g F0 -> ~ In w (tl F0) ->
  forall i x, nth_error g i = Some x -> edesc g w i -> e_fr x = 0.
Proof.
  intros g F0 w [Hfr _] HF Hnt i x Hn Hd. rewrite (Hfr i x Hn).
  destruct (count_occ Nat.eq_dec F0 i) eqn:Ec; [reflexivity|]. exfalso.
  assert (Hin : In i F0) by (apply count_pos_in; lia).
  apply in_split in Hin. destruct Hin as (F1 & F2 & E).
  pose proof (FS_desc g F0 w i HF Hd F1 F2 E) as Hw. apply Hnt. rewrite E.
  destruct F1; cbn; [exact Hw|]. apply in_or_app. right. right. exact Hw.
Qed.

Lemma nth_eupd : forall g i f j, nth_error (eupd g i f) j =
  if Nat.eqb j i then option_map f (nth_error g i) else nth_error g j.
Proof.
  intros g i f j. unfold eupd, eget. destruct (nth_error g i) as [x|] eqn:E.
  - rewrite nth_eset, E. destruct (Nat.eqb j i); reflexivity.
  - destruct (Nat.eqb_spec j i) as [->|]; [exact E|reflexivity].
Qed.
Lemma length_eupd : forall g i f, length (eupd g i f) = length g.
Proof. intros. unfold eupd. destruct (eget g i); [apply length_eset|reflexivity]. Qed.

(* a client call leaves the frames as they are *)
Lemma estep_client_frames : forall g o g' F,
  estep g o = Some g' -> is_frame_op o = false -> nonneg g -> frames_of g F -> no_frame_below g o ->
  frames_of g' F /\ par_shrinks g g'.
Proof.
  intros g o g' F Hs Hk Hnn [Hfr Hb] Hnf.
  assert (Hsame : frames_of g F /\ par_shrinks g g).
  { split; [split; assumption|]. split; [lia|]. intros i x' Hn _. exists x'. auto. }
  assert (Hset : forall w x x', nth_error g w = Some x -> e_fr x' = e_fr x -> (e_par x' = e_par x \/ e_par x' = None) ->
            frames_of (eset g w x') F /\ par_shrinks g (eset g w x')).
  { intros w x x' Hw Ef Ep. split; [split|split].
    - intros i y Hn. rewrite nth_eset in Hn. destruct (Nat.eqb_spec i w) as [->|Hne].
      + rewrite Hw in Hn. inversion Hn; subst y. rewrite Ef. apply (Hfr w x Hw).
      + apply (Hfr i y Hn).
    - intros i Hi. rewrite length_eset. auto.
    - rewrite length_eset. lia.
    - intros i y Hn _. rewrite nth_eset in Hn. destruct (Nat.eqb_spec i w) as [->|Hne].
      + rewrite Hw in Hn. inversion Hn; subst y. exists x. auto.
      + exists y. auto. }
  assert (Hpass : forall w xw, nth_error g w = Some xw -> 0 < e_cnt xw -> e_cnt xw + e_fr xw = 1 ->
            frames_of (edestroy g w) F /\ par_shrinks g (edestroy g w)).
  { intros w xw Hw Hc Ht. unfold edestroy. split; [split|split].
    - intros i y Hn. destruct (nth_edestroy_pass g 0 w [] i y Hn) as (x & Hx & _ & Hf).
      rewrite <- (Hfr i x Hx). destruct Hf as [[Hf _]|[Hf Hwhy]]; [exact Hf|]. rewrite Hf.
      destruct (Hnn i x Hx) as [H0 H1]. destruct Hwhy as [E|[Hp Hz]]; [|lia].
      cbn in E. subst i. rewrite Hw in Hx. inversion Hx; subst x. destruct (Hnn w xw Hw). lia.
    - intros i Hi. rewrite length_edestroy_pass. auto.
    - rewrite length_edestroy_pass. lia.
    - intros i y Hn _. destruct (nth_edestroy_pass g 0 w [] i y Hn) as (x & Hx & Hp & _). exists x. auto. }
  destruct o; cbn in Hk; try discriminate; cbn [estep] in Hs.
  - (* ONew *)
    destruct (eusable g (idx p)); [|discriminate]. inversion Hs; subst g'. split; [split|split].
    + intros i x Hn. destruct (Nat.lt_ge_cases i (length g)) as [Hlt|Hge].
      * rewrite nth_error_app1 in Hn by exact Hlt. apply (Hfr i x Hn).
      * rewrite nth_error_app2 in Hn by exact Hge. destruct (i - length g)%nat as [|d] eqn:Ed; cbn in Hn; [|destruct d; discriminate].
        inversion Hn; subst x. cbn. destruct (count_occ Nat.eq_dec F i) eqn:Ec; [reflexivity|].
        assert (In i F) by (apply count_pos_in; lia). specialize (Hb i H). lia.
    + intros i Hi. rewrite app_length. specialize (Hb i Hi). lia.
    + rewrite app_length. lia.
    + intros i x' Hn Hlt. rewrite nth_error_app1 in Hn by exact Hlt. exists x'. auto.
  - (* ORef *)
    destruct (eheld g (idx w)); [|discriminate]. inversion Hs; subst g'. unfold eupd, eget.
    destruct (nth_error g (idx w)) as [x|] eqn:Hw; [|exact Hsame]. apply (Hset (idx w) x); auto.
  - (* OUnref *)
    unfold eget in Hs. destruct (nth_error g (idx w)) as [x|] eqn:Hw; [|discriminate].
    destruct (0 <? e_cnt x) eqn:Hp; [|discriminate]. apply Z.ltb_lt in Hp.
    destruct (e_cnt x + e_fr x =? 1) eqn:E1; inversion Hs; subst g'.
    + apply Z.eqb_eq in E1. eapply Hpass; eauto.
    + apply (Hset (idx w) x); auto.
  - (* OClose *)
    unfold eget in Hs. destruct (nth_error g (idx w)) as [x|] eqn:Hw; [|discriminate].
    destruct ((0 <? e_cnt x) && _); [|discriminate]. inversion Hs; subst g'. apply (Hset (idx w) x); auto.
  - destruct (is_restack c && eusable g (idx w)); [|discriminate]. inversion Hs; subst g'. exact Hsame.
  - destruct (eusable g (idx w)); [|discriminate]. inversion Hs; subst g'. exact Hsame.
  - destruct (eusable g (idx w)); [|discriminate]. inversion Hs; subst g'. exact Hsame.
  - destruct (eusable g (idx w)); [|discriminate]. inversion Hs; subst g'. exact Hsame.
  - destruct (eusable g (idx w)); [|discriminate]. inversion Hs; subst g'. exact Hsame.
  - destruct (eusable g (idx w)); [|discriminate]. inversion Hs; subst g'. exact Hsame.
  - destruct (eusable g (idx w)); [|discriminate]. inversion Hs; subst g'. exact Hsame.
  - destruct (Nat.eqb (idx w) 0 && eusable g 0); [|discriminate]. inversion Hs; subst g'. exact Hsame.
  - inversion Hs; subst g'. exact Hsame.
  - destruct t; inversion Hs; subst g'; exact Hsame.
  - destruct (eusable g (idx w)); [|discriminate]. inversion Hs; subst g'. exact Hsame.
  - destruct (eusable g (idx w)); [|discriminate]. inversion Hs; subst g'. exact Hsame.
  - destruct (eusable g (idx w)); [|discriminate]. inversion Hs; subst g'. exact Hsame.
  - destruct (eusable g (idx w) && _); [|discriminate]. inversion Hs; subst g'. exact Hsame.
  - destruct (eusable g (idx w)); [|discriminate]. inversion Hs; subst g'. exact Hsame.
  - destruct (eusable g (idx w)); [|discriminate]. inversion Hs; subst g'. exact Hsame.
  - inversion Hs; subst g'. exact Hsame.
  - inversion Hs; subst g'. exact Hsame.
Qed.

Lemma estep_push : forall g w g' F, estep g (OFrameRef w) = Some g' -> frames_of g F ->
  frames_of g' (idx w :: F) /\ par_shrinks g g' /\ exists x, nth_error g (idx w) = Some x.
Proof.
  intros g w g' F Hs [Hfr Hb]. cbn [estep] in Hs. unfold ealive, eget in Hs.
  destruct (nth_error g (idx w)) as [x|] eqn:Hw; [|discriminate].
  destruct (0 <? e_cnt x + e_fr x); [|discriminate]. inversion Hs; subst g'.
  split; [split|split; [split|eauto]].
  - intros i y Hn. rewrite nth_eupd in Hn. cbn [count_occ]. destruct (Nat.eqb_spec i (idx w)) as [->|Hne].
    + rewrite Hw in Hn. cbn in Hn. inversion Hn; subst y. cbn. destruct (Nat.eq_dec (idx w) (idx w)); [|congruence].
      rewrite (Hfr _ x Hw). lia.
    + destruct (Nat.eq_dec (idx w) i); [congruence|]. apply (Hfr i y Hn).
  - intros i [<-|Hi]; rewrite length_eupd; [apply nth_error_Some; congruence|auto].
  - rewrite length_eupd. lia.
  - intros i y Hn _. rewrite nth_eupd in Hn. destruct (Nat.eqb_spec i (idx w)) as [->|Hne].
    + rewrite Hw in Hn. cbn in Hn. inversion Hn; subst y. exists x. auto.
    + exists y. auto.
Qed.

Lemma estep_pop : forall g w g' F, estep g (OFrameUnref w) = Some g' -> nonneg g -> frames_of g (idx w :: F) ->
  frames_of g' F /\ par_shrinks g g'.
Proof.
  intros g w g' F Hs Hnn [Hfr Hb]. cbn [estep] in Hs. unfold eget in Hs.
  destruct (nth_error g (idx w)) as [x|] eqn:Hw; [|discriminate].
  destruct (0 <? e_fr x) eqn:Hp; [|discriminate]. apply Z.ltb_lt in Hp.
  assert (Hcw : e_fr x = Z.of_nat (S (count_occ Nat.eq_dec F (idx w)))).
  { rewrite (Hfr _ x Hw). cbn. destruct (Nat.eq_dec (idx w) (idx w)); [reflexivity|congruence]. }
  assert (Hoth : forall i y, nth_error g i = Some y -> i <> idx w -> e_fr y = Z.of_nat (count_occ Nat.eq_dec F i)).
  { intros i y Hn Hne. rewrite (Hfr i y Hn). cbn. destruct (Nat.eq_dec (idx w) i); [congruence|reflexivity]. }
  assert (Hb' : forall i, In i F -> (i < length g)%nat) by (intros i Hi; apply Hb; right; exact Hi).
  destruct (e_cnt x + e_fr x =? 1) eqn:E1; inversion Hs; subst g'.
  - apply Z.eqb_eq in E1. destruct (Hnn _ x Hw) as [H0 H1].
    assert (Ecnt : count_occ Nat.eq_dec F (idx w) = O) by lia.
    unfold edestroy. split; [split|split].
    + intros i y Hn. destruct (nth_edestroy_pass g 0 (idx w) [] i y Hn) as (z & Hz & _ & Hf).
      destruct (Nat.eq_dec i (idx w)) as [->|Hne].
      * rewrite Hw in Hz. inversion Hz; subst z. rewrite Ecnt.
        destruct Hf as [[Hf _]|[Hf _]]; [|exact Hf]. 
        (* the entry of [w] itself is always reset *)
        exfalso. clear - Hn Hf Hp Hw. revert Hn. generalize (@nil nat). intro d.
        assert (G : forall t i d k w0 y, w0 = (i + k)%nat -> nth_error (edestroy_pass t i w0 d) k = Some y -> e_fr y = 0).
        { induction t as [|a t IHt]; intros i d0 k w0 y0 Ew Hy; [destruct k; discriminate|]. cbn [edestroy_pass] in Hy.
          destruct k as [|k].
          - rewrite Ew, Nat.add_0_r, Nat.eqb_refl in Hy. cbn in Hy. inversion Hy. reflexivity.
          - assert (En : Nat.eqb i w0 = false) by (apply Nat.eqb_neq; lia). rewrite En in Hy.
            assert (E' : w0 = (S i + k)%nat) by lia.
            destruct (e_par a); [destruct (existsb _ _ && _); [destruct (_ =? 0)|]|]; cbn [nth_error] in Hy;
              eapply (IHt (S i) _ k w0 y0 E' Hy). }
        intro Hn. specialize (G g 0%nat d (idx w) (idx w) y eq_refl Hn). lia.
      * rewrite <- (Hoth i z Hz Hne). destruct Hf as [[Hf _]|[Hf Hwhy]]; [exact Hf|]. rewrite Hf.
        destruct (Hnn i z Hz). destruct Hwhy as [E|[Hq Hz0]]; [cbn in E; congruence|lia].
    + intros i Hi. rewrite length_edestroy_pass. auto.
    + rewrite length_edestroy_pass. lia.
    + intros i y Hn _. destruct (nth_edestroy_pass g 0 (idx w) [] i y Hn) as (z & Hz & Hpz & _). exists z. auto.
  - split; [split|split].
    + intros i y Hn. rewrite nth_eset in Hn. destruct (Nat.eqb_spec i (idx w)) as [->|Hne].
      * rewrite Hw in Hn. inversion Hn; subst y. cbn. lia.
      * apply (Hoth i y Hn Hne).
    + intros i Hi. rewrite length_eset. auto.
    + rewrite length_eset. lia.
    + intros i y Hn _. rewrite nth_eset in Hn. destruct (Nat.eqb_spec i (idx w)) as [->|Hne].
      * rewrite Hw in Hn. inversion Hn; subst y. exists x. auto.
      * exists y. auto.
Qed.

(* ---- the invariant of a run with events ---- *)
Definition good (F : list nat) (h : heap) : Prop :=
  exists g, echeck e0 (rev (tr h)) = Some g /\ hinv [] h /\ agreeE g h /\ frames_of g F /\ FS g F.

Lemma echeck_logged : forall h h1 o g, echeck e0 (rev (tr h)) = Some g -> tr h1 = o :: tr h ->
  echeck e0 (rev (tr h1)) = match estep g o with Some g' => Some g' | None => None end.
Proof.
  intros h h1 o g Hg E. rewrite E. cbn [rev]. rewrite echeck_app, Hg. cbn. destruct (estep g o); reflexivity.
Qed.

(* a framed window is allocated *)
Lemma good_framed_live : forall F h i, good F h -> In i F -> findw h (addr_of i) <> None.
Proof.
  intros F h i (g & _ & HI & AG & [Hfr Hb] & _) Hin.
  assert (Hlt : (i < length g)%nat) by (apply Hb; exact Hin).
  destruct (nth_error g i) as [x|] eqn:Hn; [|apply nth_error_None in Hn; lia].
  pose proof (ae_cells g h AG i x Hn) as C. pose proof (Hfr i x Hn) as Ef.
  assert ((0 < count_occ Nat.eq_dec F i)%nat) by (apply count_pos_in; exact Hin).
  destruct (findw h (addr_of i)); [congruence|]. destruct C as (_ & C2 & _). lia.
Qed.

(* a dispatch frame takes its reference *)
Lemma good_push : forall f F h w c, good F h -> findw h w = Some c ->
  (forall p, w_parent c = Some p -> In (idx p) F) ->
  match frame_run f (OFrameRef w) h with
  | Ok _ h' => good (idx w :: F) h'
  | Fault _ _ => False
  | NoFuel => True
  end.
Proof.
  intros f F h w c (g & Hg & HI & AG & Hfr & HF) Hw Hpar.
  assert (Hl : findw h w <> None) by congruence.
  pose proof (run_frame_ok f (OFrameRef w) h HI eq_refl Hl) as Hrun.
  destruct (frame_run f (OFrameRef w) h) as [u h'| |]; [|contradiction|exact I].
  destruct Hrun as (HI' & Heff & Htr).
  destruct (agreeE_live_cell g h HI AG w c Hw) as (x & Hx & Href & Hc0 & Hf0 & Hp).
  pose proof (hi_ref [] h HI w c Hw (fun y => y)) as Hr1.
  assert (Hs : exists g', estep g (OFrameRef w) = Some g').
  { cbn [estep]. unfold ealive, eget. rewrite Hx. assert (E : (0 <? e_cnt x + e_fr x) = true) by (apply Z.ltb_lt; lia). rewrite E. eauto. }
  destruct Hs as [g' Hs].
  destruct (step_agreeE g h (OFrameRef w) g' HI AG (or_intror eq_refl) Hs I) as [_ Hag].
  destruct (estep_push g w g' F Hs Hfr) as (Hfr' & Hps & _).
  exists g'. split; [rewrite (echeck_logged h h' _ g Hg Htr), Hs; reflexivity|]. split; [exact HI'|]. split; [apply Hag; exact Heff|].
  split; [exact Hfr'|].
  (* the new frame's parent is framed further out; the older frames keep theirs *)
  intros F1 i F2 x' p E Hn' Hp'.
  destruct Hps as [_ Hps]. destruct Hfr as [_ Hb].
  destruct F1 as [|j F1]; cbn in E; inversion E; subst.
  - assert (Hlt : (idx w < length g)%nat) by (apply nth_error_Some; congruence).
    destruct (Hps (idx w) x' Hn' Hlt) as (x0 & Hx0 & [Ep|Ep]); [|congruence]. rewrite Hx in Hx0. inversion Hx0; subst x0.
    rewrite Hp' in Ep. rewrite <- Ep in Hp. cbn in Hp. specialize (Hpar (addr_of p) (eq_sym Hp)). rewrite idx_addr in Hpar. exact Hpar.
  - assert (Hlt : (i < length g)%nat) by (apply Hb; apply in_or_app; right; left; reflexivity).
    destruct (Hps i x' Hn' Hlt) as (x0 & Hx0 & [Ep|Ep]); [|congruence].
    apply (HF F1 i F2 x0 p eq_refl Hx0). congruence.
Qed.

(* ... and lets go of it: the window goes if that was the last reference of either kind *)
Lemma good_pop : forall f F h w, good (idx w :: F) h ->
  match frame_run f (OFrameUnref w) h with
  | Ok _ h' => good F h'
  | Fault _ _ => False
  | NoFuel => True
  end.
Proof.
  intros f F h w G. pose proof (good_framed_live _ h (idx w) G (or_introl eq_refl)) as Hl. rewrite addr_idx in Hl.
  destruct G as (g & Hg & HI & AG & Hfr & HF).
  pose proof (run_frame_ok f (OFrameUnref w) h HI eq_refl Hl) as Hrun.
  destruct (frame_run f (OFrameUnref w) h) as [u h'| |]; [|contradiction|exact I].
  destruct Hrun as (HI' & Heff & Htr).
  destruct (live_some h w Hl) as [c Hw].
  destruct (agreeE_live_cell g h HI AG w c Hw) as (x & Hx & Href & Hc0 & Hf0 & Hp).
  assert (Hfx : 0 < e_fr x).
  { destruct Hfr as [Hfr _]. rewrite (Hfr _ x Hx). cbn. destruct (Nat.eq_dec (idx w) (idx w)); [lia|congruence]. }
  assert (Hs : exists g', estep g (OFrameUnref w) = Some g').
  { cbn [estep]. unfold eget. rewrite Hx. assert (E : (0 <? e_fr x) = true) by (apply Z.ltb_lt; lia). rewrite E.
    destruct (e_cnt x + e_fr x =? 1); eauto. }
  destruct Hs as [g' Hs].
  assert (Hnf : no_frame_below g (OFrameUnref w)).
  { intros xw Hxw Ht. rewrite Hx in Hxw. inversion Hxw; subst xw. apply (nfb_from_FS g (idx w :: F) (idx w) Hfr HF).
    cbn [tl]. intro Hin. destruct Hfr as [Hfr _]. pose proof (Hfr _ x Hx) as E. cbn in E.
    destruct (Nat.eq_dec (idx w) (idx w)); [|congruence].
    assert ((0 < count_occ Nat.eq_dec F (idx w))%nat) by (apply count_pos_in; exact Hin). lia. }
  destruct (step_agreeE g h (OFrameUnref w) g' HI AG (or_intror eq_refl) Hs Hnf) as [_ Hag].
  destruct (estep_pop g w g' F Hs (agreeE_nonneg g h AG) Hfr) as (Hfr' & Hps).
  exists g'. split; [rewrite (echeck_logged h h' _ g Hg Htr), Hs; reflexivity|]. split; [exact HI'|]. split; [apply Hag; exact Heff|].
  split; [exact Hfr'|]. apply (FS_shrinks g g' F (FS_tail g (idx w) F HF)); [|exact Hps].
  intros i Hi. destruct Hfr as [_ Hb]. apply Hb. right. exact Hi.
Qed.

Lemma op_eq_nop : forall o : op, o = ONop \/ o <> ONop.
Proof. intro o. destruct o; (left; reflexivity) || (right; discriminate). Qed.

(* a client call: the call is in the trace, and nothing else is written there *)
Lemma run_op_trace : forall fuel o h, event_free_op o = true -> o <> ONop ->
  match run_op fixed fuel o h with
  | Ok _ h' => tr h' = o :: tr h
  | Fault _ hf => tr hf = o :: tr h
  | NoFuel => True
  end.
Proof.
  intros fuel o h Hef Hne. destruct fuel as [|f]; [exact I|]. rewrite run_op_F.
  set (h1 := mkHeap (wins h) (reqs h) (rx h) (nextw h) (nextq h) (dlog h) (uninit_seen h) (o :: tr h)).
  assert (G : forall (m : M unit), ktr m -> match m h1 with Ok _ h' => tr h' = o :: tr h | Fault _ hf => tr hf = o :: tr h | NoFuel => True end).
  { intros m K. specialize (K h1). destruct (m h1); auto. }
  destruct o; cbn in Hef; try discriminate; try congruence; unfold bind at 1; unfold log_op; fold h1; apply G; ktr_auto.
Qed.

Lemma good_client : forall fuel o F h, good F h -> event_free_op o = true ->
  match run_op fixed fuel o h with
  | Ok _ h' => ill h' \/ good F h'
  | Fault _ hf => ill hf
  | NoFuel => True
  end.
Proof.
  intros fuel o F h G Hef.
  destruct (op_eq_nop o) as [->|Hne].
  { destruct fuel as [|f]; [exact I|]. rewrite run_op_F. cbn. right. exact G. }
  pose proof (run_op_trace fuel o h Hef Hne) as Htr.
  destruct G as (g & Hg & HI & AG & Hfr & HF).
  destruct (estep g o) as [g'|] eqn:Hs.
  - (* the call is allowed: its precondition holds, it completes, the ghost follows *)
    assert (Hk : is_frame_op o = false) by (destruct o; cbn in Hef |- *; congruence).
    assert (Hnf : no_frame_below g o).
    { destruct o; cbn; auto; cbn in Hef; try discriminate.
      intros xw Hxw Ht. cbn [estep] in Hs. unfold eget in Hs. rewrite Hxw in Hs.
      destruct (0 <? e_cnt xw) eqn:Hp; [|discriminate]. apply Z.ltb_lt in Hp.
      apply (nfb_from_FS g F (idx w) Hfr HF). intro Hin.
      assert (Hin' : In (idx w) F) by (destruct F; [destruct Hin|right; exact Hin]).
      destruct Hfr as [Hfr _]. pose proof (Hfr _ xw Hxw) as E.
      assert ((0 < count_occ Nat.eq_dec F (idx w))%nat) by (apply count_pos_in; exact Hin').
      destruct (agreeE_nonneg g h AG _ xw Hxw). lia. }
    destruct (step_agreeE g h o g' HI AG (or_introl Hef) Hs Hnf) as [Hpre Hag].
    assert (Hpre' : op_pre h o) by (destruct o; cbn in Hef; try discriminate; exact Hpre).
    pose proof (run_op_ok fuel o h HI Hef Hpre') as Hok.
    pose proof (run_op_eff fuel o h HI Hef Hpre') as Heff.
    destruct (run_op fixed fuel o h) as [u h'| |]; [|contradiction|exact I].
    right. destruct (estep_client_frames g o g' F Hs Hk (agreeE_nonneg g h AG) Hfr Hnf) as (Hfr' & Hps).
    exists g'. split; [rewrite (echeck_logged h h' o g Hg Htr), Hs; reflexivity|]. split; [exact Hok|].
    split; [apply Hag; destruct o; cbn in Hef; try discriminate; exact Heff|]. split; [exact Hfr'|].
    apply (FS_shrinks g g' F HF); [apply Hfr|exact Hps].
  - (* the client had no right to make it: the trace is no longer one of a well-behaved client *)
    assert (Hcl : is_client o = true) by (destruct o; cbn in Hef |- *; congruence).
    destruct (run_op fixed fuel o h) as [u h'| |]; [left| |exact I]; eapply ill_now; eauto.
Qed.

(* ---- the read-only walks of the dispatch functions ---- *)
Lemma children_list_spec : forall fuel h k l, chain h k l ->
  match children_list fuel k h with Ok r h' => h' = h /\ r = l | Fault _ _ => False | NoFuel => True end.
Proof.
  induction fuel as [|f IH]; intros h k l Hc; [exact I|]. cbn [children_list]. destruct Hc as [|a c l Hf Hc]; [cbn; auto|].
  unfold bind at 1. rewrite (getw_run h a c Hf). unfold bind at 1. specialize (IH h (w_next c) l Hc).
  destruct (children_list f (w_next c) h) as [r h'| |]; [|contradiction|exact I]. destruct IH as [-> ->]. cbn. auto.
Qed.

Lemma copy_children_spec : forall fuel h w c, hinv [] h -> findw h w = Some c ->
  match copy_children fuel w h with
  | Ok r h' => h' = h /\ (forall k, In k r <-> exists ck, findw h k = Some ck /\ w_parent ck = Some w)
  | Fault _ _ => False
  | NoFuel => True
  end.
Proof.
  intros fuel h w c HI Hw. unfold copy_children. destruct (hi_kids [] h HI w c Hw) as (l & Hc & Hl).
  unfold bind at 1. rewrite (getw_run h w c Hw). unfold bind at 1.
  pose proof (children_list_spec fuel h _ l Hc) as H1.
  destruct (children_list fuel (w_first c) h) as [r h'| |]; [|contradiction|exact I]. destruct H1 as [-> ->].
  unfold bind at 1. rewrite (getw_run h w c Hw).
  pose proof (children_list_spec fuel h _ l Hc) as H2.
  destruct (children_list fuel (w_first c) h) as [r h'| |]; [|contradiction|exact I]. destruct H2 as [-> ->]. auto.
Qed.

Lemma is_child_from_spec : forall fuel h k l child, chain h k l ->
  match is_child_from fuel k child h with
  | Ok b h' => h' = h /\ (b = true <-> In child l)
  | Fault _ _ => False
  | NoFuel => True
  end.
Proof.
  induction fuel as [|f IH]; intros h k l child Hc; [exact I|]. cbn [is_child_from].
  destruct Hc as [|a c l Hf Hc]; [cbn; split; [reflexivity|split; [discriminate|intros []]]|].
  destruct (Pos.eqb_spec a child) as [->|Hne]; [cbn; split; [reflexivity|split; [left; reflexivity|reflexivity]]|].
  unfold bind at 1. rewrite (getw_run h a c Hf). specialize (IH h (w_next c) l child Hc).
  destruct (is_child_from f (w_next c) child h) as [b h'| |]; [|contradiction|exact I].
  destruct IH as [-> Hb]. split; [reflexivity|]. rewrite Hb. cbn. split; [auto|intros [E|H]; [congruence|exact H]].
Qed.

Lemma is_child_spec : forall fuel h w c child, hinv [] h -> findw h w = Some c ->
  match is_child fuel w child h with
  | Ok b h' => h' = h /\ (b = true -> exists ck, findw h child = Some ck /\ w_parent ck = Some w)
  | Fault _ _ => False
  | NoFuel => True
  end.
Proof.
  intros fuel h w c child HI Hw. unfold is_child. destruct (hi_kids [] h HI w c Hw) as (l & Hc & Hl).
  unfold bind at 1. rewrite (getw_run h w c Hw). pose proof (is_child_from_spec fuel h _ l child Hc) as H.
  destruct (is_child_from fuel (w_first c) child h) as [b h'| |]; [|contradiction|exact I].
  destruct H as [-> Hb]. split; [reflexivity|]. intro E. apply Hl. apply Hb. exact E.
Qed.

(* ---- outcomes: completed within the discipline, or the trace is no longer a client's ---- *)
Definition dok (F : list nat) {A} (r : res A) : Prop :=
  match r with
  | NoFuel => True
  | Fault _ hf => ill hf
  | Ok _ h' => ill h' \/ good F h'
  end.

Lemma dok_ill : forall F A (m : M A) h, text m -> ill h -> dok F (m h).
Proof.
  intros F A m h T Hi. specialize (T h). unfold dok. destruct (m h) as [a h'|f hf|]; auto.
  - destruct T as [l E]. left. eapply ill_ext; eauto.
  - destruct T as [l E]. eapply ill_ext; eauto.
Qed.

Lemma dok_bind : forall F1 F2 A B (m : M A) (k : A -> M B) h,
  dok F1 (m h) -> (forall a, text (k a)) -> (forall a h1, m h = Ok a h1 -> good F1 h1 -> dok F2 (k a h1)) ->
  dok F2 (bind m k h).
Proof.
  intros F1 F2 A B m k h Hm Tk Hk. unfold bind. destruct (m h) as [a h1|f hf|] eqn:E; cbn in Hm; auto.
  destruct Hm as [Hi|Hg]; [apply dok_ill; auto|]. apply (Hk a h1 eq_refl Hg).
Qed.

Lemma dok_ret : forall F A (a : A) h, good F h -> dok F (ret a h).
Proof. intros. cbn. right. assumption. Qed.

(* the inline form of a frame reference *)
Lemma frame_ref_inline : forall f A w (rest : M A) h,
  (log_op (OFrameRef w) ;;; window_ref w ;;; rest) h =
  match frame_run f (OFrameRef w) h with Ok _ h' => rest h' | Fault x hf => Fault x hf | NoFuel => NoFuel end.
Proof. intros. cbn [frame_run]. unfold bind, log_op. destruct (window_ref w _); reflexivity. Qed.
Lemma frame_unref_inline : forall f A w (rest : M A) h,
  (log_op (OFrameUnref w) ;;; unref fixed f w ;;; rest) h =
  match frame_run f (OFrameUnref w) h with Ok _ h' => rest h' | Fault x hf => Fault x hf | NoFuel => NoFuel end.
Proof. intros. cbn [frame_run]. unfold bind, log_op. destruct (unref fixed f w _); reflexivity. Qed.

Lemma dok_pop_ret : forall f F A w (a : A) h, good (idx w :: F) h ->
  dok F ((log_op (OFrameUnref w) ;;; unref fixed f w ;;; ret a) h).
Proof.
  intros f F A w a h G. rewrite (frame_unref_inline f). pose proof (good_pop f F h w G) as H.
  destruct (frame_run f (OFrameUnref w) h) as [u h'| |]; [|contradiction|exact I]. cbn. right. exact H.
Qed.

(* a change of the root-only fields other than the queue and the drag source *)
Lemma good_rx : forall F h r, good F h -> r_queue r = r_queue (rx h) -> r_drag r = r_drag (rx h) -> good F (with_rx h r).
Proof.
  intros F h r (g & Hg & HI & AG & Hfr & HF) Hq Hd. exists g. split; [exact Hg|].
  split; [eapply hinv_rx_only; [exact HI|apply rx_only_with_rx; assumption]|]. split; [|split; assumption].
  destruct AG as [L C]. constructor; [exact L|]. intros i gw Hn. exact (C i gw Hn).
Qed.
Lemma good_uninit : forall F h, good F h ->
  good F (mkHeap (wins h) (reqs h) (rx h) (nextw h) (nextq h) (dlog h) true (tr h)).
Proof.
  intros F h (g & Hg & HI & AG & Hfr & HF). exists g. split; [exact Hg|]. split; [eapply hinv_same; eauto|].
  split; [|split; assumption]. destruct AG as [L C]. constructor; [exact L|exact C].
Qed.

(* ---- the dispatch functions, by mutual induction on the fuel ---- *)
Definition parent_framed (F : list nat) (h : heap) (w : positive) : Prop :=
  exists c, findw h w = Some c /\ forall p, w_parent c = Some p -> In (idx p) F.

Definition S_all (f : nat) : Prop :=
  (forall o F h, good F h -> dok F (run_op fixed f o h)) /\
  (forall l F h, good F h -> dok F (run_ops fixed f l h)) /\
  (forall w hs F h, good F h -> In (idx w) F -> dok F (run_key_handlers fixed f w hs h)) /\
  (forall w hs t u F h, good F h -> In (idx w) F -> dok F (run_mouse_handlers fixed f w hs t u h)) /\
  (forall w F h, good F h -> parent_framed F h w -> dok F (handle_key fixed f w h)) /\
  (forall w st kids F h, good F h -> In (idx w) F -> dok F (key_kids fixed f w st kids h)) /\
  (forall w t i u F h, good F h -> parent_framed F h w -> dok F (handle_mouse fixed f w t i u h)) /\
  (forall w kids t i u F h, good F h -> In (idx w) F -> dok F (mouse_kids fixed f w kids t i u h)) /\
  (forall t F h, good F h -> findw h root <> None -> dok F (on_term_mouse fixed f t h)) /\
  (* the other event kinds *)
  (forall w hs k F h, good F h -> In (idx w) F -> dok F (run_ev_handlers fixed f w hs k h)) /\
  (forall w F h, good F h -> findw h w <> None -> dok F (set_geometry fixed f w h)) /\
  (forall F h, good F h -> findw h root <> None -> dok F (on_term_resize fixed f h)) /\
  (forall w F h, good F h -> parent_framed F h w -> dok F (do_expose fixed f w h)) /\
  (forall w kids F h, good F h -> In (idx w) F -> dok F (expose_kids fixed f w kids h)) /\
  (forall w F h, good F h -> parent_framed F h w -> dok F (focus_lost fixed f w h)) /\
  (forall w child F h, good F h -> parent_framed F h w -> (forall ch, child = Some ch -> In (idx ch) F) ->
     dok F (focus_gained fixed f w child h)) /\
  (forall F h, good F h -> findw h root <> None -> dok F (window_flush fixed f root h)).

Lemma text_run_op : forall f o, text (run_op fixed f o).
Proof. intros. apply (text_all f). Qed.
Lemma text_run_ops : forall f l, text (run_ops fixed f l).
Proof. intros. apply (text_all f). Qed.
Lemma text_keyh : forall f w hs, text (run_key_handlers fixed f w hs).
Proof. intros. apply (text_all f). Qed.
Lemma text_mouseh : forall f w hs t u, text (run_mouse_handlers fixed f w hs t u).
Proof. intros. apply (text_all f). Qed.
Lemma text_hkey : forall f w, text (handle_key fixed f w).
Proof. intros. apply (text_all f). Qed.
Lemma text_kkids : forall f w s k, text (key_kids fixed f w s k).
Proof. intros. apply (text_all f). Qed.
Lemma text_hmouse : forall f w t i u, text (handle_mouse fixed f w t i u).
Proof. intros. apply (text_all f). Qed.
Lemma text_mkids : forall f w k t i u, text (mouse_kids fixed f w k t i u).
Proof. intros. apply (text_all f). Qed.
Lemma text_otm : forall f t, text (on_term_mouse fixed f t).
Proof. intros. apply (text_all f). Qed.
Lemma text_evh : forall f w hs k, text (run_ev_handlers fixed f w hs k).
Proof. intros. apply (text_all f). Qed.
Lemma text_setgeom : forall f w, text (set_geometry fixed f w).
Proof. intros. apply (text_all f). Qed.
Lemma text_resize : forall f, text (on_term_resize fixed f).
Proof. intros. apply (text_all f). Qed.
Lemma text_doexpose : forall f w, text (do_expose fixed f w).
Proof. intros. apply (text_all f). Qed.
Lemma text_exkids : forall f w k, text (expose_kids fixed f w k).
Proof. intros. apply (text_all f). Qed.
Lemma text_flost : forall f w, text (focus_lost fixed f w).
Proof. intros. apply (text_all f). Qed.
Lemma text_fgained : forall f w c, text (focus_gained fixed f w c).
Proof. intros. apply (text_all f). Qed.
Lemma text_flush : forall f w, text (window_flush fixed f w).
Proof. intros. apply (text_all f). Qed.
#[local] Hint Resolve text_run_op text_run_ops text_keyh text_mouseh text_hkey text_kkids text_hmouse text_mkids text_otm
  text_evh text_setgeom text_resize text_doexpose text_exkids text_flost text_fgained text_flush : core.

Lemma mtype_eq_drag : forall t : mtype, t = MDrag \/ t <> MDrag.
Proof. intro t. destruct t; (left; reflexivity) || (right; discriminate). Qed.

(* an event is logged: the discipline has nothing to say about it *)
Lemma good_logged : forall F h o, good F h -> (forall g, estep g o = Some g) ->
  good F (mkHeap (wins h) (reqs h) (rx h) (nextw h) (nextq h) (dlog h) (uninit_seen h) (o :: tr h)).
Proof.
  intros F h o (g & Hg & HI & AG & Hfr & HF) Hs. exists g.
  split; [rewrite (echeck_logged h (mkHeap (wins h) (reqs h) (rx h) (nextw h) (nextq h) (dlog h) (uninit_seen h) (o :: tr h)) o g Hg eq_refl), Hs; reflexivity|].
  split; [apply hinv_log; exact HI|].
  split; [|split; assumption]. destruct AG as [L C]. constructor; [exact L|exact C].
Qed.

Lemma good_root_framed : forall F h, good F h -> findw h root <> None -> parent_framed F h root.
Proof.
  intros F h (g & _ & HI & _) Hl. destruct (live_some h root Hl) as [c Hc]. exists c. split; [exact Hc|].
  intros p Hp. rewrite (hi_root_parent [] h HI c Hc) in Hp. discriminate.
Qed.

Lemma step_run_ops : forall f, S_all f -> forall l F h, good F h -> dok F (run_ops fixed (S f) l h).
Proof.
  intros f (S1 & S2 & _) l F h G. rewrite run_ops_F. destruct l as [|o l']; [apply dok_ret; exact G|].
  eapply dok_bind; [apply S1; exact G|auto|]. intros _ h1 _ G1. apply S2. exact G1.
Qed.

Lemma framed_cell : forall F h w, good F h -> In (idx w) F -> exists c, findw h w = Some c.
Proof.
  intros F h w G Hin. pose proof (good_framed_live F h (idx w) G Hin) as Hl. rewrite addr_idx in Hl. apply live_some. exact Hl.
Qed.

Lemma step_keyh : forall f, S_all f -> forall w hs F h, good F h -> In (idx w) F ->
  dok F (run_key_handlers fixed (S f) w hs h).
Proof.
  intros f (_ & S2 & S3 & _) w hs F h G Hin. rewrite run_key_handlers_F. destruct hs as [|hd hs']; [apply dok_ret; exact G|].
  destruct (framed_cell F h w G Hin) as [cw Hw]. unfold bind at 1. rewrite (getw_run h w cw Hw).
  destruct (h_is HKey hd && existsb (fun x => h_id x =? h_id hd) (w_hs cw)); [|apply S3; assumption].
  eapply dok_bind; [apply S2; exact G| |].
  - intros _. destruct (h_ret hd); [apply text_ret|auto].
  - intros _ h1 _ G1. destruct (h_ret hd); [apply dok_ret; exact G1|apply S3; assumption].
Qed.

Lemma step_mouseh : forall f, S_all f -> forall w hs t u F h, good F h -> In (idx w) F ->
  dok F (run_mouse_handlers fixed (S f) w hs t u h).
Proof.
  intros f (_ & S2 & _ & S4 & _) w hs t u F h G Hin. rewrite run_mouse_handlers_F. destruct hs as [|hd hs']; [apply dok_ret; exact G|].
  destruct (framed_cell F h w G Hin) as [cw Hw]. unfold bind at 1. rewrite (getw_run h w cw Hw).
  destruct (negb (h_is HMouse hd) || negb (existsb (fun x => h_id x =? h_id hd) (w_hs cw))); [apply S4; assumption|].
  assert (Hrest : forall h0, good F h0 ->
            dok F ((if handler_fires_mouse hd t
                    then run_ops fixed f (h_actions hd) ;;; (if h_ret hd then ret true else run_mouse_handlers fixed f w hs' t u)
                    else run_mouse_handlers fixed f w hs' t u) h0)).
  { intros h0 G0. destruct (handler_fires_mouse hd t); [|apply S4; assumption].
    eapply dok_bind; [apply S2; exact G0| |].
    - intros _. destruct (h_ret hd); [apply text_ret|auto].
    - intros _ h1 _ G1. destruct (h_ret hd); [apply dok_ret; exact G1|apply S4; assumption]. }
  unfold bind at 1. destruct u; [unfold note_uninit; apply Hrest; apply good_uninit; exact G|cbn [ret]; apply Hrest; exact G].
Qed.

Lemma child_parent_framed : forall F h w k ck, In (idx w) F -> findw h k = Some ck -> w_parent ck = Some w ->
  parent_framed F h k.
Proof. intros F h w k ck Hin Hk Hp. exists ck. split; [exact Hk|]. intros p E. rewrite Hp in E. inversion E; subst p. exact Hin. Qed.

Lemma step_kkids : forall f, S_all f -> forall w st kids F h, good F h -> In (idx w) F ->
  dok F (key_kids fixed (S f) w st kids h).
Proof.
  intros f (_ & _ & _ & _ & S5 & S6 & _) w st kids F h G Hin. rewrite key_kids_F. destruct kids as [|k kids']; [apply dok_ret; exact G|].
  destruct (framed_cell F h w G Hin) as [cw Hw].
  assert (HI : hinv [] h) by (destruct G as (g & _ & HI & _); exact HI).
  unfold bind at 1. pose proof (is_child_spec f h w cw k HI Hw) as Hic.
  destruct (is_child f w k h) as [still h1| |]; [|contradiction|exact I]. destruct Hic as [-> Hst].
  destruct still; cbn [negb]; [|apply S6; assumption].
  destruct (Hst eq_refl) as (ck & Hk & Hpk).
  unfold bind at 1. rewrite (getw_run h w cw Hw).
  destruct (ptr_eqb (w_focus cw) (Some k) || ptr_eqb (Some k) st); [apply S6; assumption|].
  eapply dok_bind; [apply S5; [exact G|eapply child_parent_framed; eauto]| |].
  - intros r. destruct r; [apply text_ret|auto].
  - intros r h1 _ G1. destruct r; [apply dok_ret; exact G1|apply S6; assumption].
Qed.

Lemma step_mkids : forall f, S_all f -> forall w kids t i u F h, good F h -> In (idx w) F ->
  dok F (mouse_kids fixed (S f) w kids t i u h).
Proof.
  intros f (_ & _ & _ & _ & _ & _ & S7 & S8 & _) w kids t i u F h G Hin. rewrite mouse_kids_F.
  destruct kids as [|k kids']; [apply dok_ret; exact G|].
  destruct (framed_cell F h w G Hin) as [cw Hw].
  assert (HI : hinv [] h) by (destruct G as (g & _ & HI & _); exact HI).
  unfold bind at 1. pose proof (is_child_spec f h w cw k HI Hw) as Hic.
  destruct (is_child f w k h) as [still h1| |]; [|contradiction|exact I]. destruct Hic as [-> Hst].
  destruct still; cbn [negb]; [|apply S8; assumption].
  destruct (Hst eq_refl) as (ck & Hk & Hpk).
  unfold bind at 1. rewrite (getw_run h k ck Hk).
  destruct (negb (w_steal ck) && negb i); [apply S8; assumption|].
  eapply dok_bind; [apply S7; [exact G|eapply child_parent_framed; eauto]| |].
  - intros r. destruct r; [apply text_ret|auto].
  - intros r h1 _ G1. destruct r; [apply dok_ret; exact G1|apply S8; assumption].
Qed.

Ltac head_cell F' h1 G1 w cw Hw :=
  destruct (framed_cell F' h1 w G1 (or_introl eq_refl)) as [cw Hw].

Lemma step_hkey : forall f, S_all f -> forall w F h, good F h -> parent_framed F h w ->
  dok F (handle_key fixed (S f) w h).
Proof.
  intros f (_ & _ & S3 & _ & S5 & S6 & _) w F h G (c & Hw & Hpar). rewrite handle_key_F. cbn [v_events_asis fixed].
  unfold bind at 1. rewrite (getw_run h w c Hw). destruct (negb (w_visible c)); [apply dok_ret; exact G|].
  (* the frame takes its reference *)
  rewrite (frame_ref_inline f). pose proof (good_push f F h w c G Hw Hpar) as Hpush.
  destruct (frame_run f (OFrameRef w) h) as [u h1| |]; [|contradiction|exact I].
  set (F' := idx w :: F) in *.
  assert (Hin : In (idx w) F') by (left; reflexivity).
  destruct (framed_cell F' h1 w Hpush Hin) as [c1 Hw1]. unfold bind at 1. rewrite (getw_run h1 w c1 Hw1).
  assert (HI1 : hinv [] h1) by (destruct Hpush as (g & _ & HI & _); exact HI).
  (* the input-stealing first child *)
  eapply (dok_bind F' F).
  { destruct (w_first c1) as [fc|] eqn:Hfc; [|apply dok_ret; exact Hpush].
    destruct (hi_kids [] h1 HI1 w c1 Hw1) as (l & Hc & Hl). rewrite Hfc in Hc. inversion Hc as [|a cfc l' Hffc Hc']; subst.
    assert (Hpfc : w_parent cfc = Some w).
    { destruct (proj1 (Hl fc) (or_introl eq_refl)) as (ck & Hk & Hp). congruence. }
    unfold bind at 1. rewrite (getw_run h1 fc cfc Hffc). destruct (w_steal cfc); [|apply dok_ret; exact Hpush].
    eapply dok_bind; [apply S5; [exact Hpush|eapply child_parent_framed; eauto]|intro; apply text_ret|].
    intros r h2 _ G2. apply dok_ret. exact G2. }
  { intros rs. cbv zeta. destruct (fst rs).
    - apply text_bind; [apply text_log_op|]. intros _. apply text_bind; [apply ktr_text; auto with ktr|]. intros _. apply text_ret.
    - text_auto. }
  intros rs h2 _ G2. cbv zeta. destruct (fst rs); [apply dok_pop_ret; exact G2|].
  destruct (framed_cell F' h2 w G2 Hin) as [c2 Hw2]. unfold bind at 1. rewrite (getw_run h2 w c2 Hw2).
  assert (HI2 : hinv [] h2) by (destruct G2 as (g & _ & HI & _); exact HI).
  (* the focused child *)
  eapply (dok_bind F' F).
  { destruct (w_focus c2) as [fc|] eqn:Hfo; [|apply dok_ret; exact G2].
    destruct (ptr_eqb (Some fc) (snd rs)); [apply dok_ret; exact G2|].
    destruct (hi_focus [] h2 HI2 w c2 fc Hw2 (fun y => y) Hfo) as (cf & Hcf & Hpf).
    apply S5; [exact G2|eapply child_parent_framed; eauto]. }
  { intros r2. destruct r2; text_auto. }
  intros r2 h3 _ G3. destruct r2; [apply dok_pop_ret; exact G3|].
  destruct (framed_cell F' h3 w G3 Hin) as [c3 Hw3]. unfold bind at 1. rewrite (getw_run h3 w c3 Hw3).
  (* the window's own handlers *)
  eapply (dok_bind F' F); [apply S3; assumption| |].
  { intros r3. destruct r3; text_auto. }
  intros r3 h4 _ G4. destruct r3; [apply dok_pop_ret; exact G4|].
  (* the other children, from a copy of the list *)
  destruct (framed_cell F' h4 w G4 Hin) as [c4 Hw4].
  assert (HI4 : hinv [] h4) by (destruct G4 as (g & _ & HI & _); exact HI).
  unfold bind at 1. pose proof (copy_children_spec f h4 w c4 HI4 Hw4) as Hcc.
  destruct (copy_children f w h4) as [kids h5| |]; [|contradiction|exact I]. destruct Hcc as [-> _].
  eapply (dok_bind F' F); [apply S6; assumption| |].
  { intros r4. text_auto. }
  intros r4 h5 _ G5. apply dok_pop_ret. exact G5.
Qed.

Lemma step_hmouse : forall f, S_all f -> forall w t i u F h, good F h -> parent_framed F h w ->
  dok F (handle_mouse fixed (S f) w t i u h).
Proof.
  intros f (_ & _ & _ & S4 & _ & _ & _ & S8 & _) w t i u F h G (c & Hw & Hpar). rewrite handle_mouse_F. cbn [v_events_asis fixed].
  unfold bind at 1. rewrite (getw_run h w c Hw). destruct (negb (w_visible c)); [apply dok_ret; exact G|].
  rewrite (frame_ref_inline f). pose proof (good_push f F h w c G Hw Hpar) as Hpush.
  destruct (frame_run f (OFrameRef w) h) as [u0 h1| |]; [|contradiction|exact I].
  set (F' := idx w :: F) in *.
  assert (Hin : In (idx w) F') by (left; reflexivity).
  destruct (framed_cell F' h1 w Hpush Hin) as [c1 Hw1].
  assert (HI1 : hinv [] h1) by (destruct Hpush as (g & _ & HI & _); exact HI).
  unfold bind at 1. pose proof (copy_children_spec f h1 w c1 HI1 Hw1) as Hcc.
  destruct (copy_children f w h1) as [kids h2| |]; [|contradiction|exact I]. destruct Hcc as [-> _].
  eapply (dok_bind F' F); [apply S8; assumption| |].
  { intros r. destruct r; text_auto. }
  intros r h2 _ G2. destruct r as [x|]; [apply dok_pop_ret; exact G2|].
  destruct (framed_cell F' h2 w G2 Hin) as [c2 Hw2]. unfold bind at 1. rewrite (getw_run h2 w c2 Hw2).
  eapply (dok_bind F' F); [apply S4; assumption| |].
  { intros hr. text_auto. }
  intros hr h3 _ G3. apply dok_pop_ret. exact G3.
Qed.

Lemma good_root_cell : forall F h, good F h -> In O F -> exists c, findw h root = Some c /\ w_isroot c = true.
Proof.
  intros F h G Hin. destruct (framed_cell F h root G Hin) as [c Hc]. exists c. split; [exact Hc|].
  destruct G as (g & _ & HI & _). rewrite (hi_isroot [] h HI root c Hc). apply Pos.eqb_refl.
Qed.

Lemma text_frame_run : forall f o, text (frame_run f o).
Proof. intros f o. destruct o; cbn [frame_run]; text_auto. Qed.

(* ---- the drag source ---- *)
(* a change of the root-only fields that keeps the queue; the new drag source is attached to the root *)
Lemma hinv_with_rx : forall D h r, hinv D h -> r_queue r = r_queue (rx h) ->
  (exists od, r_drag r = Some od /\ forall d, od = Some d -> ~ In root D -> findw h root <> None -> anc h d root) ->
  hinv D (with_rx h r).
Proof.
  intros D h r HI Hq Hdr. set (h' := with_rx h r).
  assert (Hw : wins h' = wins h) by reflexivity.
  destruct HI as [K P PL O F R C I RP Q QK Dg NW NWR NQ].
  constructor.
  - intros a c Hf. destruct (K a c Hf) as [l [Hc Hl]]. exists l. split; [eapply chain_same_wins; eauto|exact Hl].
  - exact P.
  - exact PL.
  - exact O.
  - exact F.
  - exact R.
  - exact C.
  - exact I.
  - exact RP.
  - destruct Q as [ql [Hq1 [Hq2 Hq3]]]. exists ql. split; [|split].
    + change (r_queue (rx h')) with (r_queue r). rewrite Hq. eapply qchain_same; [exact Hq1|]. intros; reflexivity.
    + exact Hq2.
    + intros q cq Hfq. destruct (Hq3 q cq Hfq) as [x [p [cx [H1 [H2 [H3 [H4 H5]]]]]]].
      exists x, p, cx. repeat split; auto. eapply anc_same_wins; eauto.
  - exact QK.
  - destruct Hdr as [od [E Hd]]. exists od. split; [exact E|]. intros d Ed Hn Hl. eapply anc_same_wins; eauto.
  - exact NW.
  - exact NWR.
  - exact NQ.
Qed.

Lemma good_rx_drag : forall F h r, good F h -> r_queue r = r_queue (rx h) ->
  (exists od, r_drag r = Some od /\ forall d, od = Some d -> anc h d root) -> good F (with_rx h r).
Proof.
  intros F h r (g & Hg & HI & AG & Hfr & HF) Hq (od & Ed & Hd). exists g. split; [exact Hg|].
  split; [apply hinv_with_rx; [exact HI|exact Hq|]; exists od; split; [exact Ed|]; intros d E _ _; apply Hd; exact E|].
  split; [|split; assumption]. destruct AG as [L C]. constructor; [exact L|]. intros i gw Hn. exact (C i gw Hn).
Qed.

Lemma good_drag_source : forall F h d, good F h -> r_drag (rx h) = Some (Some d) -> findw h root <> None -> anc h d root.
Proof.
  intros F h d (g & _ & HI & _) Hd Hl. destruct (hi_drag [] h HI) as [od [E Ha]]. rewrite E in Hd. inversion Hd; subst od.
  apply Ha; auto.
Qed.

(* _is_in_tree: the walk over the tree below [t] *)
Lemma in_tree_both : forall fuel h, hinv [] h ->
  (forall t w, findw h t <> None ->
     match in_tree fuel t w h with Ok b h' => h' = h /\ (b = true -> anc h w t) | Fault _ _ => False | NoFuel => True end) /\
  (forall k w l p, chain h k l -> (forall a, In a l -> exists ca, findw h a = Some ca /\ w_parent ca = Some p) ->
     match in_tree_kids fuel k w h with Ok b h' => h' = h /\ (b = true -> anc h w p) | Fault _ _ => False | NoFuel => True end).
Proof.
  induction fuel as [|f IH]; intros h HI; [split; intros; exact I|]. destruct (IH h HI) as [IH1 IH2]. split.
  - intros t w Hl. cbn [in_tree]. destruct (live_some h t Hl) as [c Hc].
    destruct (Pos.eqb_spec t w) as [->|Hne]; [cbn; split; [reflexivity|]; intros _; eapply anc_refl; eauto|].
    unfold bind at 1. rewrite (getw_run h t c Hc). destruct (hi_kids [] h HI t c Hc) as (l & Hch & Hl').
    apply (IH2 (w_first c) w l t Hch). intros a Ha. apply Hl'. exact Ha.
  - intros k w l p Hch Hpar. cbn [in_tree_kids]. destruct Hch as [|a c l Hf Hch]; [cbn; split; [reflexivity|discriminate]|].
    destruct (Hpar a (or_introl eq_refl)) as (ca & Hfa & Hpa). rewrite Hf in Hfa. inversion Hfa; subst ca.
    unfold bind at 1. assert (Hla : findw h a <> None) by congruence. specialize (IH1 a w Hla).
    destruct (in_tree f a w h) as [b h'| |]; [|contradiction|exact I]. destruct IH1 as [-> Hb]. destruct b.
    + cbn. split; [reflexivity|]. intros _. eapply anc_trans; [apply Hb; reflexivity|].
      eapply anc_step; [exact Hf|exact Hpa|].
      destruct (live_some h p (hi_parent [] h HI a c p Hf Hpa)) as [cp Hp]. eapply anc_refl; eauto.
    + unfold bind at 1. rewrite (getw_run h a c Hf). apply (IH2 (w_next c) w l p Hch). intros x Hx. apply Hpar. right. exact Hx.
Qed.

Lemma count_up_spec : forall fuel h w, hinv [] h -> (forall a, w = Some a -> findw h a <> None) ->
  match count_up fuel w h with Ok _ h' => h' = h | Fault _ _ => False | NoFuel => True end.
Proof.
  induction fuel as [|f IH]; intros h w HI Hl; [exact I|]. cbn [count_up]. destruct w as [a|]; [|reflexivity].
  destruct (live_some h a (Hl a eq_refl)) as [c Hc]. unfold bind. rewrite (getw_run h a c Hc).
  apply IH; [exact HI|]. intros p Hp. destruct (hinv_parent_live [] h a c p HI Hc Hp) as [cp Hcp]. congruence.
Qed.

(* ---- _handle_mouse_at: the ancestors of the window are held for the call ---- *)
(* the way up from a window *)
Inductive up_path (h : heap) : ptr -> list positive -> Prop :=
| up_nil : up_path h None []
| up_cons : forall a c l, findw h a = Some c -> up_path h (w_parent c) l -> up_path h (Some a) (a :: l).

Definition same_par (h h' : heap) : Prop :=
  forall a, match findw h a, findw h' a with
            | Some c, Some c' => w_parent c' = w_parent c
            | None, None => True
            | _, _ => False
            end.
Lemma same_par_refl : forall h, same_par h h.
Proof. intros h a. destruct (findw h a); auto. Qed.
Lemma same_par_trans : forall h1 h2 h3, same_par h1 h2 -> same_par h2 h3 -> same_par h1 h3.
Proof.
  intros h1 h2 h3 H1 H2 a. specialize (H1 a). specialize (H2 a).
  destruct (findw h1 a), (findw h2 a), (findw h3 a); try contradiction; auto. congruence.
Qed.
Lemma up_path_same_par : forall h h' w l, same_par h h' -> up_path h w l -> up_path h' w l.
Proof.
  intros h h' w l S H. induction H as [|a c l Hf Hu IH]; [constructor|].
  pose proof (S a) as Sa. rewrite Hf in Sa. destruct (findw h' a) as [c'|] eqn:Hf'; [|contradiction].
  econstructor; [exact Hf'|]. rewrite Sa. exact IH.
Qed.

(* [good] without the order of the frames *)
Definition good0 (F : list nat) (h : heap) : Prop :=
  exists g, echeck e0 (rev (tr h)) = Some g /\ hinv [] h /\ agreeE g h /\ frames_of g F.

Lemma good_good0 : forall F h, good F h -> good0 F h.
Proof. intros F h (g & H1 & H2 & H3 & H4 & _). exists g. auto. Qed.

Lemma frames_of_perm : forall g F F', frames_of g F -> (forall i, count_occ Nat.eq_dec F' i = count_occ Nat.eq_dec F i) -> frames_of g F'.
Proof.
  intros g F F' [Hfr Hb] Hc. split.
  - intros i x Hn. rewrite Hc. apply Hfr. exact Hn.
  - intros i Hi. apply Hb. apply count_pos_in. rewrite <- Hc. apply count_pos_in. exact Hi.
Qed.

Lemma good0_push : forall f F h a, good0 F h -> findw h a <> None -> forall G1 G2, F = G1 ++ G2 ->
  match frame_run f (OFrameRef a) h with
  | Ok _ h' => good0 (G1 ++ idx a :: G2) h' /\ same_par h h'
  | Fault _ _ => False
  | NoFuel => True
  end.
Proof.
  intros f F h a (g & Hg & HI & AG & Hfr) Hl G1 G2 EF.
  pose proof (run_frame_ok f (OFrameRef a) h HI eq_refl Hl) as Hrun.
  destruct (frame_run f (OFrameRef a) h) as [u h'| |]; [|contradiction|exact I].
  destruct Hrun as (HI' & Heff & Htr). destruct (live_some h a Hl) as [c Hc].
  destruct (agreeE_live_cell g h HI AG a c Hc) as (x & Hx & Href & Hc0 & Hf0 & Hp).
  pose proof (hi_ref [] h HI a c Hc (fun y => y)) as Hr1.
  assert (Hs : exists g', estep g (OFrameRef a) = Some g').
  { cbn [estep]. unfold ealive, eget. rewrite Hx. assert (E : (0 <? e_cnt x + e_fr x) = true) by (apply Z.ltb_lt; lia). rewrite E. eauto. }
  destruct Hs as [g' Hs].
  destruct (step_agreeE g h (OFrameRef a) g' HI AG (or_intror eq_refl) Hs I) as [_ Hag].
  destruct (estep_push g a g' F Hs Hfr) as (Hfr' & _ & _).
  split.
  - exists g'. split; [rewrite (echeck_logged h h' _ g Hg Htr), Hs; reflexivity|]. split; [exact HI'|]. split; [apply Hag; exact Heff|].
    eapply frames_of_perm; [exact Hfr'|]. intro i. subst F. rewrite !count_occ_app. cbn [count_occ]. rewrite !count_occ_app.
    destruct (Nat.eq_dec (idx a) i); lia.
  - destruct Heff as [Hnw Hx']. intro b. specialize (Hx' b).
    destruct (findw h b), (findw h' b); auto. destruct Hx' as [E1 E2]. exact E1.
Qed.

Lemma ref_up_spec : forall fuel h w G1 G2, good0 (G1 ++ G2) h -> (forall a, w = Some a -> findw h a <> None) ->
  match ref_up fixed fuel w h with
  | Ok held h' => good0 (G1 ++ map idx held ++ G2) h' /\ same_par h h' /\ up_path h w held
  | Fault _ _ => False
  | NoFuel => True
  end.
Proof.
  induction fuel as [|f IH]; intros h w G1 G2 G Hl; [exact I|]. rewrite ref_up_F.
  destruct w as [a|]; [|cbn; split; [exact G|]; split; [apply same_par_refl|constructor]].
  rewrite (frame_ref_inline f).
  pose proof (good0_push f (G1 ++ G2) h a G (Hl a eq_refl) G1 G2 eq_refl) as Hp.
  destruct (frame_run f (OFrameRef a) h) as [u h1| |]; [|contradiction|exact I]. destruct Hp as [G' S1].
  pose proof (S1 a) as Sa. destruct (live_some h a (Hl a eq_refl)) as [c Hc]. rewrite Hc in Sa.
  destruct (findw h1 a) as [c1|] eqn:Hc1; [|contradiction].
  unfold bind at 1. rewrite (getw_run h1 a c1 Hc1). unfold bind at 1.
  assert (HI1 : hinv [] h1) by (destruct G' as (g & _ & HI & _); exact HI).
  assert (Hl1 : forall p, w_parent c1 = Some p -> findw h1 p <> None).
  { intros p Hp. destruct (hinv_parent_live [] h1 a c1 p HI1 Hc1 Hp) as [cp Hcp]. congruence. }
  assert (G'' : good0 ((G1 ++ [idx a]) ++ G2) h1) by (rewrite <- app_assoc; exact G').
  specialize (IH h1 (w_parent c1) (G1 ++ [idx a]) G2 G'' Hl1).
  destruct (ref_up fixed f (w_parent c1) h1) as [l h2| |]; [|contradiction|exact I].
  destruct IH as (G2' & S2 & U2). cbn [ret]. split; [|split].
  - rewrite <- app_assoc in G2'. exact G2'.
  - eapply same_par_trans; eauto.
  - econstructor; [exact Hc|]. rewrite <- Sa. (* the path seen in h1, transported back *)
    clear - U2 S1. revert U2. generalize (w_parent c1). intros w U. induction U as [|b cb l Hfb Ub IHb]; [constructor|].
    pose proof (S1 b) as Sb. rewrite Hfb in Sb. destruct (findw h b) as [cb0|] eqn:Hb0; [|contradiction].
    econstructor; [exact Hb0|]. rewrite <- Sb. exact IHb.
Qed.

(* the order of the frames, read off the heap *)
Definition FSh (h : heap) (F : list nat) : Prop :=
  forall F1 i F2 c p, F = F1 ++ i :: F2 -> findw h (addr_of i) = Some c -> w_parent c = Some p -> In (idx p) F2.

Lemma FS_to_heap : forall g h F, hinv [] h -> agreeE g h -> FS g F -> FSh h F.
Proof.
  intros g h F HI AG HF F1 i F2 c p E Hc Hp.
  destruct (agreeE_live_cell g h HI AG _ c Hc) as (x & Hx & _ & _ & _ & Hpar). rewrite idx_addr in Hx.
  rewrite Hp in Hpar. destruct (e_par x) as [pi|] eqn:Ep; [|discriminate]. cbn in Hpar. injection Hpar as E1.
  subst p. rewrite idx_addr. exact (HF F1 i F2 x pi E Hx Ep).
Qed.
Lemma FS_of_heap : forall g h F, agreeE g h -> (forall i, In i F -> findw h (addr_of i) <> None) -> FSh h F -> FS g F.
Proof.
  intros g h F AG Hl HF F1 i F2 x p E Hx Ep.
  assert (Hin : In i F) by (rewrite E; apply in_or_app; right; left; reflexivity).
  destruct (live_some h _ (Hl i Hin)) as [c Hc].
  pose proof (ae_cells g h AG i x Hx) as C. rewrite Hc in C. destruct C as (_ & _ & _ & Hpar). rewrite Ep in Hpar. cbn in Hpar.
  pose proof (HF F1 i F2 c (addr_of p) E Hc (eq_sym Hpar)) as H. rewrite idx_addr in H. exact H.
Qed.
Lemma FSh_same_par : forall h h' F, same_par h h' -> FSh h F -> FSh h' F.
Proof.
  intros h h' F S HF F1 i F2 c' p E Hc' Hp. pose proof (S (addr_of i)) as Si. rewrite Hc' in Si.
  destruct (findw h (addr_of i)) as [c|] eqn:Hc; [|contradiction]. apply (HF F1 i F2 c p E Hc). congruence.
Qed.
Lemma FSh_held : forall h F held w, FSh h F -> up_path h w held -> FSh h (map idx held ++ F).
Proof.
  intros h F held w HF U. induction U as [|a c l Hf U IH]; [exact HF|].
  intros F1 i F2 c0 p E Hc0 Hp. cbn [map app] in E. destruct F1 as [|j F1]; cbn in E; injection E as E1 E2.
  - subst i F2. rewrite addr_idx, Hf in Hc0. inversion Hc0; subst c0. rewrite Hp in U. inversion U as [|a' c' l' Hf' U']; subst.
    cbn. left. reflexivity.
  - apply (IH F1 i F2 c0 p E2 Hc0 Hp).
Qed.

Lemma good_of_good0 : forall F h, good0 F h -> FSh h F -> good F h.
Proof.
  intros F h (g & Hg & HI & AG & Hfr) HF. exists g. split; [exact Hg|]. split; [exact HI|]. split; [exact AG|]. split; [exact Hfr|].
  apply (FS_of_heap g h F AG); [|exact HF]. intros i Hi.
  destruct Hfr as [Hfr Hb]. assert (Hlt : (i < length g)%nat) by (apply Hb; exact Hi).
  destruct (nth_error g i) as [x|] eqn:Hn; [|apply nth_error_None in Hn; lia].
  pose proof (ae_cells g h AG i x Hn) as C. pose proof (Hfr i x Hn) as Ef.
  assert ((0 < count_occ Nat.eq_dec F i)%nat) by (apply count_pos_in; exact Hi).
  destruct (findw h (addr_of i)); [congruence|]. destruct C as (_ & C2 & _). lia.
Qed.
Lemma good_FSh : forall F h, good F h -> FSh h F.
Proof. intros F h (g & _ & HI & AG & _ & HF). eapply FS_to_heap; eauto. Qed.

Lemma unref_list_spec : forall fuel held F h, good (map idx held ++ F) h ->
  match unref_list fixed fuel held h with Ok _ h' => good F h' | Fault _ _ => False | NoFuel => True end.
Proof.
  induction fuel as [|f IH]; intros held F h G; [exact I|]. rewrite unref_list_F. destruct held as [|a l]; [exact G|].
  rewrite (frame_unref_inline f). cbn [map app] in G. pose proof (good_pop f (map idx l ++ F) h a G) as Hp.
  destruct (frame_run f (OFrameUnref a) h) as [u h1| |]; [|contradiction|exact I]. apply IH. exact Hp.
Qed.

Lemma step_mouse_at : forall f, S_all f -> forall d t F h, good F h -> findw h d <> None ->
  dok F ((cd <- getw d ;; count_up f (w_parent cd) ;;; cd' <- getw d ;; held <- ref_up fixed f (w_parent cd') ;;
          handle_mouse fixed f d t true false ;;; unref_list fixed f held) h).
Proof.
  intros f (_ & _ & _ & _ & _ & _ & S7 & _) d t F h G Hl. destruct (live_some h d Hl) as [cd Hd].
  assert (HI : hinv [] h) by (destruct G as (g & _ & HI & _); exact HI).
  assert (Hlp : forall p, w_parent cd = Some p -> findw h p <> None).
  { intros p Hp. destruct (hinv_parent_live [] h d cd p HI Hd Hp) as [cp Hcp]. congruence. }
  unfold bind at 1. rewrite (getw_run h d cd Hd). unfold bind at 1.
  pose proof (count_up_spec f h (w_parent cd) HI Hlp) as Hcu.
  destruct (count_up f (w_parent cd) h) as [u h0| |]; [|contradiction|exact I]. subst h0.
  unfold bind at 1. rewrite (getw_run h d cd Hd). unfold bind at 1.
  pose proof (ref_up_spec f h (w_parent cd) [] F (good_good0 F h G) Hlp) as Hru.
  destruct (ref_up fixed f (w_parent cd) h) as [held h1| |]; [|contradiction|exact I].
  destruct Hru as (G0 & S1 & U). cbn [app] in G0.
  assert (G1 : good (map idx held ++ F) h1).
  { apply good_of_good0; [exact G0|]. apply (FSh_same_par h h1 _ S1). eapply FSh_held; [apply good_FSh; exact G|exact U]. }
  assert (Hpf : parent_framed (map idx held ++ F) h1 d).
  { pose proof (S1 d) as Sd. rewrite Hd in Sd. destruct (findw h1 d) as [cd1|] eqn:Hd1; [|contradiction].
    exists cd1. split; [exact Hd1|]. intros p Hp. rewrite Sd in Hp. rewrite Hp in U.
    inversion U as [|a' c' l' Hf' U']; subst. cbn. left. reflexivity. }
  eapply (dok_bind (map idx held ++ F) F); [apply S7; assumption| |].
  - intros _. apply (text_all f).
  - intros r h2 _ G2. pose proof (unref_list_spec f held F h2 G2) as H. unfold dok.
    destruct (unref_list fixed f held h2); auto; contradiction.
Qed.

Lemma text_ref_up : forall f w, text (ref_up fixed f w).
Proof. intros. apply (text_all f). Qed.
Lemma text_unref_list : forall f l, text (unref_list fixed f l).
Proof. intros. apply (text_all f). Qed.
#[local] Hint Resolve text_ref_up text_unref_list text_frame_run : core.

(* a drag source gets an event directly *)
Lemma step_direct : forall f, S_all f -> forall d t F h, good F h -> In O F -> r_drag (rx h) = Some (Some d) ->
  dok F ((abs_geometry f d ;;; (cd <- getw d ;; count_up f (w_parent cd) ;;; cd' <- getw d ;; held <- ref_up fixed f (w_parent cd') ;;
          handle_mouse fixed f d t true false ;;; unref_list fixed f held)) h).
Proof.
  intros f SA d t F h G Hin Hd. destruct (good_root_cell F h G Hin) as (c & Hc & _).
  assert (Ha : anc h d root) by (eapply good_drag_source; eauto; congruence).
  pose proof (anc_live_l h d root Ha) as Hl.
  assert (HI : hinv [] h) by (destruct G as (g & _ & HI & _); exact HI).
  unfold bind at 1. pose proof (abs_geometry_spec [] f d h (conj HI Hl)) as Hag.
  destruct (abs_geometry f d h) as [u h0| |]; [|contradiction|exact I]. destruct Hag as [-> _].
  apply step_mouse_at; assumption.
Qed.

Lemma step_otm : forall f, S_all f -> forall t F h, good F h -> findw h root <> None ->
  dok F (on_term_mouse fixed (S f) t h).
Proof.
  intros f SA t F h G Hl. pose proof SA as (_ & _ & _ & _ & _ & _ & S7 & _).
  rewrite on_term_mouse_F. cbv zeta. cbn [v_events_asis fixed].
  change (log_op (OFrameRef 1%positive) ;;; window_ref 1%positive) with (frame_run f (OFrameRef root)).
  change (log_op (OFrameUnref 1%positive) ;;; unref fixed f 1%positive) with (frame_run f (OFrameUnref root)).
  change 1%positive with root.
  destruct (good_root_framed F h G Hl) as (c & Hc & Hpar).
  unfold bind at 1. pose proof (good_push f F h root c G Hc Hpar) as Hpush.
  destruct (frame_run f (OFrameRef root) h) as [u h1| |]; [|contradiction|exact I].
  change (idx root) with O in Hpush. set (F' := O :: F) in *.
  assert (Hin : In O F') by (left; reflexivity).
  destruct (good_root_cell F' h1 Hpush Hin) as (c1 & Hc1 & Hr1).
  unfold bind at 1. rewrite (getr_run h1 root c1 Hc1 Hr1).
  (* the event itself, then what follows a drag, then the frame's release *)
  set (tail := (handled <- handle_mouse fixed f root t true false ;;
                (match t with
                 | MDrag =>
                   r2 <- getr root ;;
                   match r_drag r2 with
                   | Some (Some d) =>
                     if negb (ptr_eqb handled (Some d))
                     then abs_geometry f d ;;; (cd <- getw d ;; count_up f (w_parent cd) ;;; cd' <- getw d ;;
                          held <- ref_up fixed f (w_parent cd') ;; handle_mouse fixed f d MDragOutside true false ;;; unref_list fixed f held)
                     else ret tt
                   | _ => ret tt
                   end
                 | _ => ret tt
                 end) ;;; frame_run f (OFrameUnref root))).
  assert (Ttail : text tail).
  { unfold tail. apply text_bind; [auto|]. intro r. apply text_bind; [|intros _; auto]. destruct t; text_auto. }
  assert (Hpop : forall h3, good F' h3 -> dok F (frame_run f (OFrameUnref root) h3)).
  { intros h3 G3. pose proof (good_pop f F h3 root G3) as H. unfold dok. destruct (frame_run f (OFrameUnref root) h3); auto; contradiction. }
  assert (Htail : forall h2, good F' h2 -> dok F (tail h2)).
  { intros h2 G2. destruct (good_root_cell F' h2 G2 Hin) as (c2 & Hc2 & _). unfold tail.
    eapply (dok_bind F' F).
    - apply S7; [exact G2|]. apply good_root_framed; [exact G2|congruence].
    - intro r. apply text_bind; [|intros _; auto]. destruct t; text_auto.
    - intros handled h3 _ G3. destruct (good_root_cell F' h3 G3 Hin) as (c3 & Hc3 & Hr3).
      destruct t; try (unfold bind at 1; cbn [ret]; apply Hpop; exact G3).
      (* a drag: the source, unless it handled the event itself, is told DRAG_OUTSIDE *)
      eapply (dok_bind F' F); [|intros _; auto|intros _ h4 _ G4; apply Hpop; exact G4].
      unfold bind at 1. rewrite (getr_run h3 root c3 Hc3 Hr3).
      destruct (r_drag (rx h3)) as [[d|]|] eqn:Hd; try (apply dok_ret; exact G3).
      destruct (negb (ptr_eqb handled (Some d))); [|apply dok_ret; exact G3].
      apply step_direct; assumption. }
  assert (Hmid : forall (m : M unit), text m -> dok F' (m h1) -> dok F ((m ;;; tail) h1)).
  { intros m Tm Hm. eapply (dok_bind F' F); [exact Hm|intros _; exact Ttail|]. intros _ h2 _ G2. apply Htail. exact G2. }
  destruct t.
  - (* press *)
    apply Hmid; [apply ktr_text; auto with ktr|]. rewrite (setr_run h1 root c1 _ Hc1 Hr1). right.
    apply good_rx; [exact Hpush|reflexivity|reflexivity].
  - (* drag *)
    destruct (r_dragging (rx h1)); [apply Hmid; [apply text_ret|apply dok_ret; exact Hpush]|].
    apply Hmid.
    + text_auto.
    + eapply (dok_bind F' F').
      * apply S7; [exact Hpush|]. apply good_root_framed; [exact Hpush|congruence].
      * intro src. text_auto.
      * intros src h2 _ G2. destruct (good_root_cell F' h2 G2 Hin) as (c2 & Hc2 & Hr2).
        assert (HI2 : hinv [] h2) by (destruct G2 as (g & _ & HI & _); exact HI).
        (* the source is kept only if it is still in the tree *)
        assert (Hsrc : forall src', (forall s, src' = Some s -> anc h2 s root) ->
                  dok F' ((updr root (fun r => set_rdrag r (Some src')) ;;; updr root (fun r => set_rdragging r true)) h2)).
        { intros src' Hs. unfold bind at 1. rewrite (updr_run h2 root c2 _ Hc2 Hr2).
          set (h3 := with_rx h2 (set_rdrag (rx h2) (Some src'))).
          assert (G3 : good F' h3).
          { apply good_rx_drag; [exact G2|reflexivity|]. exists src'. split; [reflexivity|exact Hs]. }
          assert (Hc3 : findw h3 root = Some c2) by exact Hc2.
          rewrite (updr_run h3 root c2 _ Hc3 Hr2). right. apply good_rx; [exact G3|reflexivity|reflexivity]. }
        destruct src as [s|].
        -- unfold bind at 1. unfold bind at 1.
           assert (Hlr : findw h2 root <> None) by congruence.
           destruct (in_tree_both f h2 HI2) as [Hit _]. specialize (Hit root s Hlr).
           destruct (in_tree f root s h2) as [b h3| |]; [|contradiction|exact I]. destruct Hit as [-> Hb]. cbn [ret].
           apply Hsrc. intros s0 Es. destruct b; [inversion Es; subst s0; apply Hb; reflexivity|discriminate].
        -- unfold bind at 1. cbn [ret]. apply Hsrc. intros s0 Es. discriminate.
  - (* release *)
    destruct (r_dragging (rx h1)); [|apply Hmid; [apply text_ret|apply dok_ret; exact Hpush]].
    apply Hmid.
    + text_auto.
    + eapply (dok_bind F' F').
      * apply S7; [exact Hpush|]. apply good_root_framed; [exact Hpush|congruence].
      * intros _. text_auto.
      * intros _ h2 _ G2. destruct (good_root_cell F' h2 G2 Hin) as (c2 & Hc2 & Hr2).
        unfold bind at 1. rewrite (getr_run h2 root c2 Hc2 Hr2).
        eapply (dok_bind F' F').
        -- destruct (r_drag (rx h2)) as [[d|]|] eqn:Hd.
           ++ apply step_direct; assumption.
           ++ apply dok_ret. exact G2.
           ++ unfold note_uninit. right. apply good_uninit. exact G2.
        -- intros _. apply ktr_text. auto with ktr.
        -- intros _ h3 _ G3. destruct (good_root_cell F' h3 G3 Hin) as (c3 & Hc3 & Hr3).
           rewrite (updr_run h3 root c3 _ Hc3 Hr3). right. apply good_rx; [exact G3|reflexivity|reflexivity].
  - apply Hmid; [apply text_ret|]. apply dok_ret. exact Hpush.
  - apply Hmid; [apply text_ret|]. apply dok_ret. exact Hpush.
  - apply Hmid; [apply text_ret|]. apply dok_ret. exact Hpush.
  - apply Hmid; [apply text_ret|]. apply dok_ret. exact Hpush.
  - apply Hmid; [apply text_ret|]. apply dok_ret. exact Hpush.
Qed.

(* ---- the other dispatching calls: EXPOSE (flush), FOCUS (take_focus), GEOMCHANGE (set_geometry, reposition, resize) ---- *)
Lemma good_stable : forall F h h', good F h -> hinv [] h' -> stable h h' -> tr h' = tr h -> good F h'.
Proof.
  intros F h h' (g & Hg & HI & AG & Hfr & HF) HI' S Ht. exists g. split; [rewrite Ht; exact Hg|]. split; [exact HI'|].
  split; [eapply agreeE_stable; eauto|split; assumption].
Qed.
Lemma good_rx_only : forall F h h', good F h -> rx_only h h' -> tr h' = tr h -> good F h'.
Proof.
  intros F h h' G R Ht. assert (HI : hinv [] h) by (destruct G as (g & _ & HI & _); exact HI).
  apply (good_stable F h h' G); [eapply hinv_rx_only; eauto|apply rx_only_stable; exact R|exact Ht].
Qed.
Lemma good_hinv : forall F h, good F h -> hinv [] h.
Proof. intros F h (g & _ & HI & _). exact HI. Qed.

(* a command that leaves parents, reference counts and the trace alone *)
Lemma run_stable : forall F A (m : M A) h, good F h -> ktr m ->
  match m h with Ok _ h' => hinv [] h' /\ stable h h' | Fault _ _ => False | NoFuel => True end ->
  match m h with Ok _ h' => good F h' | Fault _ _ => False | NoFuel => True end.
Proof.
  intros F A m h G K H. specialize (K h). destruct (m h) as [a h'| |]; auto. destruct H. eapply good_stable; eauto.
Qed.
Lemma run_rx_only : forall F A (m : M A) h, good F h -> ktr m ->
  match m h with Ok _ h' => rx_only h h' | Fault _ _ => False | NoFuel => True end ->
  match m h with Ok _ h' => good F h' | Fault _ _ => False | NoFuel => True end.
Proof.
  intros F A m h G K H. specialize (K h). destruct (m h) as [a h'| |]; auto. eapply good_rx_only; eauto.
Qed.

(* a frame around a command *)
Lemma dok_framed : forall f w (m : M unit) F h, good F h -> parent_framed F h w -> text m ->
  (forall h1, good (idx w :: F) h1 -> dok (idx w :: F) (m h1)) ->
  dok F ((frame_run f (OFrameRef w) ;;; (m ;;; frame_run f (OFrameUnref w))) h).
Proof.
  intros f w m F h G (c & Hc & Hpar) Tm Hm.
  unfold bind at 1. pose proof (good_push f F h w c G Hc Hpar) as Hpush.
  destruct (frame_run f (OFrameRef w) h) as [u h1| |]; [|contradiction|exact I].
  eapply (dok_bind (idx w :: F) F); [apply Hm; exact Hpush|intros _; apply text_frame_run|].
  intros _ h2 _ G2. pose proof (good_pop f F h2 w G2) as H. unfold dok. destruct (frame_run f (OFrameUnref w) h2); auto; contradiction.
Qed.

(* the ancestors of a window held around a command *)
Lemma dok_held : forall f A (m : M A) d F h, good F h -> findw h d <> None -> text m ->
  (forall F' h1, good F' h1 -> parent_framed F' h1 d -> dok F' (m h1)) ->
  dok F ((cd <- getw d ;; count_up f (w_parent cd) ;;; cd' <- getw d ;; held <- ref_up fixed f (w_parent cd') ;;
          m ;;; unref_list fixed f held) h).
Proof.
  intros f A m d F h G Hl Tm Hm. destruct (live_some h d Hl) as [cd Hd].
  assert (HI : hinv [] h) by (destruct G as (g & _ & HI & _); exact HI).
  assert (Hlp : forall p, w_parent cd = Some p -> findw h p <> None).
  { intros p Hp. destruct (hinv_parent_live [] h d cd p HI Hd Hp) as [cp Hcp]. congruence. }
  unfold bind at 1. rewrite (getw_run h d cd Hd). unfold bind at 1.
  pose proof (count_up_spec f h (w_parent cd) HI Hlp) as Hcu.
  destruct (count_up f (w_parent cd) h) as [u h0| |]; [|contradiction|exact I]. subst h0.
  unfold bind at 1. rewrite (getw_run h d cd Hd). unfold bind at 1.
  pose proof (ref_up_spec f h (w_parent cd) [] F (good_good0 F h G) Hlp) as Hru.
  destruct (ref_up fixed f (w_parent cd) h) as [held h1| |]; [|contradiction|exact I].
  destruct Hru as (G0 & S1 & U). cbn [app] in G0.
  assert (G1 : good (map idx held ++ F) h1).
  { apply good_of_good0; [exact G0|]. apply (FSh_same_par h h1 _ S1). eapply FSh_held; [apply good_FSh; exact G|exact U]. }
  assert (Hpf : parent_framed (map idx held ++ F) h1 d).
  { pose proof (S1 d) as Sd. rewrite Hd in Sd. destruct (findw h1 d) as [cd1|] eqn:Hd1; [|contradiction].
    exists cd1. split; [exact Hd1|]. intros p Hp. rewrite Sd in Hp. rewrite Hp in U.
    inversion U as [|a' c' l' Hf' U']; subst. cbn. left. reflexivity. }
  eapply (dok_bind (map idx held ++ F) F); [apply Hm; assumption| |].
  - intros _. apply (text_all f).
  - intros r h2 _ G2. pose proof (unref_list_spec f held F h2 G2) as H. unfold dok.
    destruct (unref_list fixed f held h2); auto; contradiction.
Qed.

(* a framed window's parent is framed too, and so its parent ... *)
Lemma framed_parent_framed : forall F h w c p, good F h -> In (idx w) F -> findw h w = Some c -> w_parent c = Some p ->
  parent_framed F h p.
Proof.
  intros F h w c p G Hin Hc Hp. pose proof (good_FSh F h G) as HF.
  apply in_split in Hin. destruct Hin as (F1 & F2 & E).
  assert (Hc' : findw h (addr_of (idx w)) = Some c) by (rewrite addr_idx; exact Hc).
  pose proof (HF F1 (idx w) F2 c p E Hc' Hp) as Hp2.
  assert (HpF : In (idx p) F) by (rewrite E; apply in_or_app; right; right; exact Hp2).
  destruct (framed_cell F h p G HpF) as [cp Hcp]. exists cp. split; [exact Hcp|].
  intros pp Hpp. apply in_split in Hp2. destruct Hp2 as (G1 & G2 & E2).
  assert (E3 : F = (F1 ++ idx w :: G1) ++ idx p :: G2) by (rewrite E, E2, <- app_assoc; reflexivity).
  assert (Hcp' : findw h (addr_of (idx p)) = Some cp) by (rewrite addr_idx; exact Hcp).
  pose proof (HF _ (idx p) G2 cp pp E3 Hcp' Hpp) as H. rewrite E3. apply in_or_app. right. right. exact H.
Qed.

(* run_events over the handlers of one of the other kinds *)
Lemma step_evh : forall f, S_all f -> forall w hs k F h, good F h -> In (idx w) F ->
  dok F (run_ev_handlers fixed (S f) w hs k h).
Proof.
  intros f SA w hs k F h G Hin. pose proof SA as (_ & S2 & _ & _ & _ & _ & _ & _ & _ & S10 & _).
  rewrite run_ev_handlers_F. destruct hs as [|hd hs']; [apply dok_ret; exact G|].
  destruct (framed_cell F h w G Hin) as [cw Hw]. unfold bind at 1. rewrite (getw_run h w cw Hw).
  destruct (h_is k hd && existsb (fun x => h_id x =? h_id hd) (w_hs cw)); [|apply S10; assumption].
  eapply dok_bind; [apply S2; exact G|intros _; auto|]. intros _ h1 _ G1. apply S10; assumption.
Qed.

(* the handlers of a framed window, after its cell has been read *)
Lemma dok_own_handlers : forall f, S_all f -> forall w k F h, good F h -> In (idx w) F ->
  dok F ((c <- getw w ;; run_ev_handlers fixed f w (w_hs c) k) h).
Proof.
  intros f SA w k F h G Hin. pose proof SA as (_ & _ & _ & _ & _ & _ & _ & _ & _ & S10 & _).
  destruct (framed_cell F h w G Hin) as [cw Hw]. unfold bind at 1. rewrite (getw_run h w cw Hw). apply S10; assumption.
Qed.
Lemma text_own_handlers : forall f w k, text (c <- getw w ;; run_ev_handlers fixed f w (w_hs c) k).
Proof. intros. text_auto. Qed.
Lemma dok_fcn_handlers : forall f, S_all f -> forall w k F h, good F h -> In (idx w) F ->
  dok F ((c <- getw w ;; if w_fcn c then run_ev_handlers fixed f w (w_hs c) k else ret tt) h).
Proof.
  intros f SA w k F h G Hin. pose proof SA as (_ & _ & _ & _ & _ & _ & _ & _ & _ & S10 & _).
  destruct (framed_cell F h w G Hin) as [cw Hw]. unfold bind at 1. rewrite (getw_run h w cw Hw).
  destruct (w_fcn cw); [apply S10; assumption|apply dok_ret; exact G].
Qed.
Lemma text_fcn_handlers : forall f w k, text (c <- getw w ;; if w_fcn c then run_ev_handlers fixed f w (w_hs c) k else ret tt).
Proof. intros. text_auto. Qed.
#[local] Hint Resolve text_own_handlers text_fcn_handlers : core.

(* tickit_window_set_geometry *)
Lemma step_setgeom : forall f, S_all f -> forall w F h, good F h -> findw h w <> None ->
  dok F (set_geometry fixed (S f) w h).
Proof.
  intros f SA w F h G Hl. rewrite set_geometry_F. cbn [v_events_asis fixed].
  destruct (live_some h w Hl) as [c Hc]. unfold bind at 1. rewrite (getw_run h w c Hc).
  change (log_op (OFrameRef w) ;;; window_ref w) with (frame_run f (OFrameRef w)).
  change (log_op (OFrameUnref w) ;;; unref fixed f w) with (frame_run f (OFrameUnref w)).
  apply dok_held; [exact G|exact Hl| |].
  - apply text_bind; [apply text_frame_run|]. intros _. apply text_bind; [auto|]. intros _. apply text_frame_run.
  - intros F' h1 G1 Hpf. apply dok_framed; [exact G1|exact Hpf|auto|].
    intros h2 G2. apply (dok_own_handlers f SA); [exact G2|left; reflexivity].
Qed.

(* on_term_resize *)
Lemma step_resize : forall f, S_all f -> forall F h, good F h -> findw h root <> None ->
  dok F (on_term_resize fixed (S f) h).
Proof.
  intros f SA F h G Hl. pose proof SA as (_ & _ & _ & _ & _ & _ & _ & _ & _ & _ & S11 & _).
  rewrite on_term_resize_F. cbv zeta. cbn [v_events_asis fixed].
  change (log_op (OFrameRef 1%positive) ;;; window_ref 1%positive) with (frame_run f (OFrameRef root)).
  change (log_op (OFrameUnref 1%positive) ;;; unref fixed f 1%positive) with (frame_run f (OFrameUnref root)).
  change 1%positive with root.
  destruct (live_some h root Hl) as [c Hc]. unfold bind at 1. rewrite (getw_run h root c Hc).
  apply dok_framed; [exact G|apply good_root_framed; assumption| |].
  - apply text_bind; [auto|]. intros _. apply ktr_text. auto with ktr.
  - intros h1 G1. assert (Hin : In O (idx root :: F)) by (left; reflexivity).
    eapply (dok_bind (idx root :: F) (idx root :: F)).
    + apply S11; [exact G1|]. destruct (good_root_cell _ h1 G1 Hin) as (c1 & Hc1 & _). congruence.
    + intros _. apply ktr_text. auto with ktr.
    + intros _ h2 _ G2. destruct (good_root_cell _ h2 G2 Hin) as (c2 & Hc2 & _).
      assert (Hl2 : findw h2 root <> None) by congruence.
      pose proof (run_rx_only _ _ (expose f root) h2 G2 (ktr_expose f root)
                    (expose_spec [] f root h2 h2 (conj eq_refl (conj (good_hinv _ _ G2) Hl2)))) as H.
      unfold dok. destruct (expose f root h2); auto; contradiction.
Qed.

(* _do_expose *)
Lemma step_doexpose : forall f, S_all f -> forall w F h, good F h -> parent_framed F h w ->
  dok F (do_expose fixed (S f) w h).
Proof.
  intros f SA w F h G Hpf. pose proof SA as (_ & _ & _ & _ & _ & _ & _ & _ & _ & _ & _ & _ & _ & S14 & _).
  rewrite do_expose_F. cbn [v_events_asis fixed].
  change (log_op (OFrameRef w) ;;; window_ref w) with (frame_run f (OFrameRef w)).
  change (log_op (OFrameUnref w) ;;; unref fixed f w) with (frame_run f (OFrameUnref w)).
  apply dok_framed; [exact G|exact Hpf| |].
  - apply text_bind; [|intros _; auto]. apply text_bind; [apply ktr_text; auto with ktr|]. intro kids. auto.
  - intros h1 G1. assert (Hin : In (idx w) (idx w :: F)) by (left; reflexivity).
    eapply (dok_bind (idx w :: F) (idx w :: F)).
    + destruct (framed_cell _ h1 w G1 Hin) as [c1 Hw1]. unfold bind at 1.
      pose proof (copy_children_spec f h1 w c1 (good_hinv _ _ G1) Hw1) as Hcc.
      destruct (copy_children f w h1) as [kids h2| |]; [|contradiction|exact I]. destruct Hcc as [-> _].
      apply S14; assumption.
    + intros _. auto.
    + intros _ h2 _ G2. apply (dok_own_handlers f SA); assumption.
Qed.

Lemma step_exkids : forall f, S_all f -> forall w kids F h, good F h -> In (idx w) F ->
  dok F (expose_kids fixed (S f) w kids h).
Proof.
  intros f SA w kids F h G Hin. pose proof SA as (_ & _ & _ & _ & _ & _ & _ & _ & _ & _ & _ & _ & S13 & S14 & _).
  rewrite expose_kids_F. destruct kids as [|k kids']; [apply dok_ret; exact G|].
  destruct (framed_cell F h w G Hin) as [cw Hw].
  unfold bind at 1. pose proof (is_child_spec f h w cw k (good_hinv _ _ G) Hw) as Hic.
  destruct (is_child f w k h) as [still h1| |]; [|contradiction|exact I]. destruct Hic as [-> Hst].
  destruct still; cbn [negb]; [|apply S14; assumption].
  destruct (Hst eq_refl) as (ck & Hk & Hpk).
  unfold bind at 1. rewrite (getw_run h k ck Hk).
  destruct (negb (w_visible ck)); [apply S14; assumption|].
  eapply dok_bind; [apply S13; [exact G|eapply child_parent_framed; eauto]| |].
  - intros _. apply text_bind; [apply ktr_text; auto with ktr|]. intros _. auto.
  - intros _ h1 _ G1. destruct (framed_cell F h1 w G1 Hin) as [cw1 Hw1].
    unfold bind at 1. pose proof (is_child_spec f h1 w cw1 k (good_hinv _ _ G1) Hw1) as Hic.
    destruct (is_child f w k h1) as [still h2| |]; [|contradiction|exact I]. destruct Hic as [-> _].
    apply S14; assumption.
Qed.

(* clearing / setting the focused flag of a framed window *)
Lemma good_set_focused : forall F h w c b, good F h -> findw h w = Some c ->
  good F (upd_cell h w (fun c0 => set_focused c0 b)).
Proof.
  intros F h w c b G Hw. assert (FO : flags_only h (upd_cell h w (fun c0 => set_focused c0 b))).
  { apply flags_only_upd. intro c0. split; [repeat split|reflexivity]. }
  apply (good_stable F h _ G); [eapply flags_only_hinv; [apply (good_hinv _ _ G)|exact FO]|apply flags_only_stable; exact FO|].
  unfold upd_cell. rewrite Hw. reflexivity.
Qed.
Lemma setw_focused_eq : forall h w c b, findw h w = Some c ->
  upd_cell h w (fun _ => set_focused c b) = upd_cell h w (fun c0 => set_focused c0 b).
Proof. intros h w c b Hw. unfold upd_cell. rewrite Hw. reflexivity. Qed.

(* if(win->is_focused) { win->is_focused = false; run_events(FOCUS) } *)
Lemma dok_unfocus : forall f, S_all f -> forall w F h, good F h -> In (idx w) F ->
  dok F ((c2 <- getw w ;;
          if w_focused c2 then setw w (set_focused c2 false) ;;; (c3 <- getw w ;; run_ev_handlers fixed f w (w_hs c3) HFocus) else ret tt) h).
Proof.
  intros f SA w F h G Hin. destruct (framed_cell F h w G Hin) as [c2 Hw2].
  unfold bind at 1. rewrite (getw_run h w c2 Hw2). destruct (w_focused c2); [|apply dok_ret; exact G].
  unfold bind at 1. rewrite (setw_run h w c2 _ Hw2). rewrite (setw_focused_eq h w c2 false Hw2).
  apply (dok_own_handlers f SA); [eapply good_set_focused; eauto|exact Hin].
Qed.
Lemma text_unfocus : forall f w,
  text (c2 <- getw w ;;
        if w_focused c2 then setw w (set_focused c2 false) ;;; (c3 <- getw w ;; run_ev_handlers fixed f w (w_hs c3) HFocus) else ret tt).
Proof. intros. text_auto. Qed.
#[local] Hint Resolve text_unfocus : core.

(* _focus_lost *)
Lemma step_flost : forall f, S_all f -> forall w F h, good F h -> parent_framed F h w ->
  dok F (focus_lost fixed (S f) w h).
Proof.
  intros f SA w F h G Hpf. pose proof SA as (_ & _ & _ & _ & _ & _ & _ & _ & _ & _ & _ & _ & _ & _ & S15 & _).
  rewrite focus_lost_F. cbn [v_events_asis fixed].
  change (log_op (OFrameRef w) ;;; window_ref w) with (frame_run f (OFrameRef w)).
  change (log_op (OFrameUnref w) ;;; unref fixed f w) with (frame_run f (OFrameUnref w)).
  apply dok_framed; [exact G|exact Hpf| |].
  - apply text_bind; [|intros _; auto]. text_auto.
  - intros h1 G1. assert (Hin : In (idx w) (idx w :: F)) by (left; reflexivity).
    eapply (dok_bind (idx w :: F) (idx w :: F)); [|intros _; auto|intros _ h2 _ G2; apply (dok_unfocus f SA); assumption].
    destruct (framed_cell _ h1 w G1 Hin) as [c Hw]. unfold bind at 1. rewrite (getw_run h1 w c Hw).
    destruct (w_focus c) as [fc|] eqn:Hfo; [|apply dok_ret; exact G1].
    destruct (hi_focus [] h1 (good_hinv _ _ G1) w c fc Hw (fun y => y) Hfo) as (cf & Hcf & Hpc).
    eapply dok_bind; [apply S15; [exact G1|eapply child_parent_framed; eauto]|intros _; auto|].
    intros _ h2 _ G2. apply (dok_fcn_handlers f SA); assumption.
Qed.

Lemma ptr_eqb_some : forall a b, ptr_eqb a (Some b) = true -> a = Some b.
Proof. intros [x|] b H; cbn in H; [apply Pos.eqb_eq in H; congruence|discriminate]. Qed.

(* _focus_gained *)
Lemma step_fgained : forall f, S_all f -> forall w child F h, good F h -> parent_framed F h w ->
  (forall ch, child = Some ch -> In (idx ch) F) -> dok F (focus_gained fixed (S f) w child h).
Proof.
  intros f SA w child F h G Hpf Hch.
  pose proof SA as (_ & _ & _ & _ & _ & _ & _ & _ & _ & _ & _ & _ & _ & _ & S15 & S16 & _).
  rewrite focus_gained_F. cbn [v_events_asis fixed].
  change (log_op (OFrameRef w) ;;; window_ref w) with (frame_run f (OFrameRef w)).
  change (log_op (OFrameUnref w) ;;; unref fixed f w) with (frame_run f (OFrameUnref w)).
  apply dok_framed; [exact G|exact Hpf| |].
  - text_auto.
  - intros h1 G1. set (F' := idx w :: F) in *. assert (Hin : In (idx w) F') by (left; reflexivity).
    assert (Hch' : forall ch, child = Some ch -> In (idx ch) F') by (intros ch E; right; apply Hch; exact E).
    (* whoever held the focus below loses it *)
    eapply (dok_bind F' F').
    { destruct (framed_cell _ h1 w G1 Hin) as [c Hw]. unfold bind at 1. rewrite (getw_run h1 w c Hw).
      destruct (w_focus c) as [fc|] eqn:Hfo; [|apply dok_ret; exact G1].
      destruct (negb (ptr_eqb (Some fc) child)); [|apply dok_ret; exact G1].
      destruct (hi_focus [] h1 (good_hinv _ _ G1) w c fc Hw (fun y => y) Hfo) as (cf & Hcf & Hpc).
      eapply dok_bind; [apply S15; [exact G1|eapply child_parent_framed; eauto]|intros _; auto|].
      intros _ h2 _ G2. apply (dok_fcn_handlers f SA); assumption. }
    { intros _. text_auto. }
    intros _ h2 _ G2.
    (* the window itself no longer holds it when it moves on to a descendant *)
    eapply (dok_bind F' F').
    { destruct child; [apply (dok_unfocus f SA); assumption|apply dok_ret; exact G2]. }
    { intros _. text_auto. }
    intros _ h3 _ G3.
    (* upwards, or the restore request *)
    eapply (dok_bind F' F').
    { destruct (framed_cell _ h3 w G3 Hin) as [c1 Hw1]. unfold bind at 1. rewrite (getw_run h3 w c1 Hw1).
      destruct (w_parent c1) as [p|] eqn:Hp.
      - destruct (w_visible c1); [|apply dok_ret; exact G3].
        apply S16; [exact G3|eapply framed_parent_framed; eauto|].
        intros ch E. inversion E; subst ch. exact Hin.
      - assert (Hl3 : forall a, Some w = Some a -> findw h3 a <> None) by (intros a E; inversion E; subst a; congruence).
        pose proof (run_rx_only _ _ (focus_chain_changed f (Some w)) h3 G3 (ktr_focus_chain_changed f (Some w))
                      (focus_chain_changed_spec [] f (Some w) h3 h3 (conj eq_refl (conj (good_hinv _ _ G3) Hl3)))) as H.
        unfold dok. destruct (focus_chain_changed f (Some w) h3); auto; contradiction. }
    { intros _. text_auto. }
    intros _ h4 _ G4.
    (* the focused flag, the handlers *)
    eapply (dok_bind F' F').
    { destruct child as [ch|].
      - apply (dok_fcn_handlers f SA); assumption.
      - destruct (framed_cell _ h4 w G4 Hin) as [c4 Hw4]. unfold bind at 1. rewrite (upd_run h4 w _ c4 Hw4).
        apply (dok_own_handlers f SA); [eapply good_set_focused; eauto|exact Hin]. }
    { intros _. text_auto. }
    intros _ h5 _ G5.
    (* the link to the child, if it still is one *)
    destruct (framed_cell _ h5 w G5 Hin) as [c5 Hw5].
    assert (Hset : forall fo, (forall x, fo = Some x -> exists cx, findw h5 x = Some cx /\ w_parent cx = Some w) ->
              dok F' (upd w (fun c => set_focus c fo) h5)).
    { intros fo Hfo. rewrite (upd_run h5 w _ c5 Hw5).
      destruct (hinv_set_focus [] h5 w c5 fo (good_hinv _ _ G5) Hw5 Hfo) as [HI6 S6].
      right. apply (good_stable F' h5 _ G5 HI6 S6). unfold upd_cell. rewrite Hw5. reflexivity. }
    destruct child as [ch|]; [|apply Hset; intros x E; discriminate].
    destruct (framed_cell _ h5 ch G5 (Hch' ch eq_refl)) as [cch Hcch].
    unfold bind at 1. rewrite (getw_run h5 ch cch Hcch). apply Hset.
    intros x E. destruct (ptr_eqb (w_parent cch) (Some w)) eqn:Epq; [|discriminate].
    inversion E; subst x. exists cch. split; [exact Hcch|apply ptr_eqb_some; exact Epq].
Qed.

(* tickit_window_flush *)
Lemma step_flush : forall f, S_all f -> forall F h, good F h -> findw h root <> None ->
  dok F (window_flush fixed (S f) root h).
Proof.
  intros f SA F h G Hl. pose proof SA as (_ & _ & _ & _ & _ & _ & _ & _ & _ & _ & _ & _ & S13 & _).
  rewrite window_flush_F. cbn [v_events_asis fixed].
  change (log_op (OFrameRef root) ;;; window_ref root) with (frame_run f (OFrameRef root)).
  change (log_op (OFrameUnref root) ;;; unref fixed f root) with (frame_run f (OFrameUnref root)).
  unfold bind at 1.
  pose proof (run_stable F _ (flush_begin f root) h G (ktr_flush_begin f root)
                (flush_begin_spec f h (good_hinv _ _ G) Hl h eq_refl)) as Hb.
  pose proof (flush_begin_spec f h (good_hinv _ _ G) Hl h eq_refl) as Hb2.
  destruct (flush_begin f root h) as [go h1| |]; [|contradiction|exact I].
  destruct go; [|apply dok_ret; exact Hb].
  assert (Hl1 : findw h1 root <> None) by (destruct Hb2 as [_ S1]; apply (stable_live h h1 root S1); exact Hl).
  apply dok_framed; [exact Hb|apply good_root_framed; assumption| |].
  - apply text_bind; [|intros _; apply ktr_text; auto with ktr]. apply text_bind; [apply ktr_text; auto with ktr|]. intro r2.
    destruct (r_expose r2); [|apply text_ret]. apply text_bind; [apply ktr_text; auto with ktr|]. intros _.
    apply text_bind; [auto|]. intros _. apply ktr_text. auto with ktr.
  - intros h2 G2. assert (Hin : In O (idx root :: F)) by (left; reflexivity). set (F' := idx root :: F) in *.
    eapply (dok_bind F' F').
    + destruct (good_root_cell F' h2 G2 Hin) as (c2 & Hc2 & Hr2).
      unfold bind at 1. rewrite (getr_run h2 root c2 Hc2 Hr2).
      destruct (r_expose (rx h2)); [|apply dok_ret; exact G2].
      unfold bind at 1. rewrite (setr_run h2 root c2 _ Hc2 Hr2).
      assert (G3 : good F' (with_rx h2 (set_rexpose (rx h2) false))) by (apply good_rx; [exact G2|reflexivity|reflexivity]).
      eapply (dok_bind F' F').
      * apply S13; [exact G3|]. apply good_root_framed; [exact G3|]. change (findw h2 root <> None). congruence.
      * intros _. apply ktr_text. auto with ktr.
      * intros _ h4 _ G4. destruct (good_root_cell F' h4 G4 Hin) as (c4 & Hc4 & Hr4).
        rewrite (updr_run h4 root c4 _ Hc4 Hr4). right. apply good_rx; [exact G4|reflexivity|reflexivity].
    + intros _. apply ktr_text. auto with ktr.
    + intros _ h3 _ G3. destruct (good_root_cell F' h3 G3 Hin) as (c3 & Hc3 & _).
      assert (Hl3 : findw h3 root <> None) by congruence.
      pose proof (run_stable F' _ (flush_end f root) h3 G3 (ktr_flush_end f root)
                    (flush_end_spec f h3 (good_hinv _ _ G3) Hl3 h3 eq_refl)) as He.
      unfold dok. destruct (flush_end f root h3); auto; contradiction.
Qed.

(* a client call that dispatches: it is logged; the discipline accepts it or the trace is no longer a client's *)
Lemma logged_call : forall F h o (c : eghost -> bool), good F h -> is_client o = true ->
  (forall g, estep g o = if c g then Some g else None) ->
  let h1 := mkHeap (wins h) (reqs h) (rx h) (nextw h) (nextq h) (dlog h) (uninit_seen h) (o :: tr h) in
  ill h1 \/ (good F h1 /\ exists g, agreeE g h /\ c g = true).
Proof.
  intros F h o c (g & Hg & HI & AG & Hfr & HF) Hcl Hs h1.
  destruct (c g) eqn:Ec.
  - right. split; [|exists g; auto]. exists g.
    split; [rewrite (echeck_logged h h1 o g Hg eq_refl), Hs, Ec; reflexivity|]. split; [apply hinv_log; exact HI|].
    split; [|split; assumption]. destruct AG as [L C]. constructor; [exact L|exact C].
  - left. apply (ill_now h h1 o g Hg eq_refl); [rewrite Hs, Ec; reflexivity|exact Hcl].
Qed.

Lemma usable_live : forall F h g w, good F h -> agreeE g h -> eusable g (idx w) = true -> anc h w root.
Proof.
  intros F h g w G AG Hu. pose proof (agreeE_usable g h AG (idx w) Hu) as Ha. rewrite addr_idx in Ha. exact Ha.
Qed.

Lemma step_run_op : forall f, S_all f -> forall o F h, good F h -> dok F (run_op fixed (S f) o h).
Proof.
  intros f SA o F h G.
  destruct (event_free_op o) eqn:Hef.
  { pose proof (good_client (S f) o F h G Hef) as H. unfold dok. destruct (run_op fixed (S f) o h); auto. }
  pose proof SA as (_ & _ & _ & _ & S5 & _ & _ & _ & S9 & _ & S11 & S12 & _ & _ & _ & S16 & S17).
  rewrite run_op_F. cbn [v_events_asis fixed]. destruct o; cbn in Hef; try discriminate.
  - (* OFocus: tickit_window_take_focus *)
    unfold bind at 1. cbn [log_op].
    destruct (logged_call F h (OFocus w) (fun g => eusable g (idx w)) G eq_refl (fun g => eq_refl)) as [Hi|[G1 (g & AG & Hu)]];
      [apply dok_ill; [text_auto|exact Hi]|].
    set (h1 := mkHeap (wins h) (reqs h) (rx h) (nextw h) (nextq h) (dlog h) (uninit_seen h) (OFocus w :: tr h)) in *.
    assert (Hl : findw h1 w <> None) by (change (findw h w <> None); eapply anc_live_l; eapply usable_live; eauto).
    apply dok_held; [exact G1|exact Hl|auto|].
    intros F' h2 G2 Hpf. apply S16; [exact G2|exact Hpf|]. intros ch E. discriminate.
  - (* OFlush *)
    unfold bind at 1. cbn [log_op].
    destruct (logged_call F h (OFlush w) (fun g => Nat.eqb (idx w) 0 && eusable g 0) G eq_refl (fun g => eq_refl)) as [Hi|[G1 (g & AG & Hu)]];
      [apply dok_ill; [auto|exact Hi]|].
    set (h1 := mkHeap (wins h) (reqs h) (rx h) (nextw h) (nextq h) (dlog h) (uninit_seen h) (OFlush w :: tr h)) in *.
    apply andb_prop in Hu. destruct Hu as [E0 Hu]. apply Nat.eqb_eq in E0.
    assert (Ew : w = root) by (rewrite <- (addr_idx w), E0; reflexivity). subst w.
    apply S17; [exact G1|]. change (findw h root <> None). eapply anc_live_l. eapply (usable_live F h g root); eauto.
  - (* OKey *)
    unfold bind at 1. cbn [log_op].
    set (h1 := mkHeap (wins h) (reqs h) (rx h) (nextw h) (nextq h) (dlog h) (uninit_seen h) (OKey :: tr h)).
    assert (G1 : good F h1) by (apply good_logged; [exact G|reflexivity]).
    unfold bind at 1. unfold root_bound at 1. destruct (PM.mem 1%positive (wins h1)) eqn:Em; [|apply dok_ret; exact G1].
    assert (Hl : findw h1 root <> None).
    { unfold findw. apply PM.mem_2 in Em. destruct Em as [c Hc]. apply PM.find_1 in Hc. unfold root. congruence. }
    eapply dok_bind; [apply S5; [exact G1|apply good_root_framed; assumption]|intro; apply text_ret|].
    intros _ h2 _ G2. apply dok_ret. exact G2.
  - (* OMouse *)
    unfold bind at 1. cbn [log_op].
    set (h1 := mkHeap (wins h) (reqs h) (rx h) (nextw h) (nextq h) (dlog h) (uninit_seen h) (OMouse t :: tr h)).
    assert (G1 : good F h1) by (apply good_logged; [exact G|intro g; reflexivity]).
    unfold bind at 1. unfold root_bound at 1. destruct (PM.mem 1%positive (wins h1)) eqn:Em; [|apply dok_ret; exact G1].
    assert (Hl : findw h1 root <> None).
    { unfold findw. apply PM.mem_2 in Em. destruct Em as [c Hc]. apply PM.find_1 in Hc. unfold root. congruence. }
    apply S9; assumption.
  - (* OGeom: tickit_window_set_geometry *)
    unfold bind at 1. cbn [log_op].
    destruct (logged_call F h (OGeom w) (fun g => eusable g (idx w)) G eq_refl (fun g => eq_refl)) as [Hi|[G1 (g & AG & Hu)]];
      [apply dok_ill; [auto|exact Hi]|].
    apply S11; [exact G1|]. change (findw h w <> None). eapply anc_live_l. eapply usable_live; eauto.
  - (* OMove: tickit_window_reposition *)
    unfold bind at 1. cbn [log_op].
    change (log_op (OFrameRef w) ;;; window_ref w) with (frame_run f (OFrameRef w)).
    change (log_op (OFrameUnref w) ;;; unref fixed f w) with (frame_run f (OFrameUnref w)).
    destruct (logged_call F h (OMove w) (fun g => eusable g (idx w)) G eq_refl (fun g => eq_refl)) as [Hi|[G1 (g & AG & Hu)]];
      [apply dok_ill; [text_auto; apply text_frame_run|exact Hi]|].
    set (h1 := mkHeap (wins h) (reqs h) (rx h) (nextw h) (nextq h) (dlog h) (uninit_seen h) (OMove w :: tr h)) in *.
    assert (Hl : findw h1 w <> None) by (change (findw h w <> None); eapply anc_live_l; eapply usable_live; eauto).
    destruct (live_some h1 w Hl) as [c Hc]. unfold bind at 1. rewrite (getw_run h1 w c Hc).
    apply dok_held; [exact G1|exact Hl| |].
    + apply text_bind; [apply text_frame_run|]. intros _. apply text_bind; [|intros _; apply text_frame_run].
      apply text_bind; [auto|]. intros _. text_auto.
    + intros F' h2 G2 Hpf. apply dok_framed; [exact G2|exact Hpf| |].
      * apply text_bind; [auto|]. intros _. text_auto.
      * intros h3 G3. assert (Hin : In (idx w) (idx w :: F')) by (left; reflexivity).
        eapply dok_bind.
        -- apply S11; [exact G3|]. destruct (framed_cell _ h3 w G3 Hin) as [c3 Hc3]. congruence.
        -- intros _. text_auto.
        -- intros _ h4 _ G4. destruct (framed_cell _ h4 w G4 Hin) as [c4 Hc4].
           unfold bind at 1. rewrite (getw_run h4 w c4 Hc4). destruct (w_focused c4); [|apply dok_ret; exact G4].
           assert (Hl4 : forall a, Some w = Some a -> findw h4 a <> None) by (intros a E; inversion E; subst a; congruence).
           pose proof (run_rx_only _ _ (focus_chain_changed f (Some w)) h4 G4 (ktr_focus_chain_changed f (Some w))
                         (focus_chain_changed_spec [] f (Some w) h4 h4 (conj eq_refl (conj (good_hinv _ _ G4) Hl4)))) as H.
           unfold dok. destruct (focus_chain_changed f (Some w) h4); auto; contradiction.
  - (* OResize: the terminal's resize event, then the harness's expose *)
    unfold bind at 1. cbn [log_op].
    set (h1 := mkHeap (wins h) (reqs h) (rx h) (nextw h) (nextq h) (dlog h) (uninit_seen h) (OResize :: tr h)).
    assert (G1 : good F h1) by (apply good_logged; [exact G|reflexivity]).
    assert (Hrest : forall h2, good F h2 -> dok F ((b2 <- root_bound ;; if b2 then expose f 1%positive else ret tt) h2)).
    { intros h2 G2. unfold bind at 1. unfold root_bound at 1.
      destruct (PM.mem 1%positive (wins h2)) eqn:Em; [|apply dok_ret; exact G2].
      assert (Hl : findw h2 root <> None).
      { unfold findw. apply PM.mem_2 in Em. destruct Em as [c Hc]. apply PM.find_1 in Hc. unfold root. congruence. }
      change 1%positive with root.
      pose proof (run_rx_only _ _ (expose f root) h2 G2 (ktr_expose f root)
                    (expose_spec [] f root h2 h2 (conj eq_refl (conj (good_hinv _ _ G2) Hl)))) as H.
      unfold dok. destruct (expose f root h2); auto; contradiction. }
    unfold bind at 1. unfold root_bound at 1. destruct (PM.mem 1%positive (wins h1)) eqn:Em.
    + assert (Hl : findw h1 root <> None).
      { unfold findw. apply PM.mem_2 in Em. destruct Em as [c Hc]. apply PM.find_1 in Hc. unfold root. congruence. }
      eapply (dok_bind F F); [apply S12; assumption|intros _; text_auto|]. intros _ h2 _ G2. apply Hrest. exact G2.
    + unfold bind at 1. cbn [ret]. apply Hrest. exact G1.
  - cbn. right. exact G.
  - cbn. right. exact G.
Qed.

Theorem S_all_holds : forall f, S_all f.
Proof.
  induction f as [|f IH].
  - repeat split; intros; exact I.
  - split; [intros; apply step_run_op; assumption|].
    split; [intros; apply step_run_ops; assumption|].
    split; [intros; apply step_keyh; assumption|].
    split; [intros; apply step_mouseh; assumption|].
    split; [intros; apply step_hkey; assumption|].
    split; [intros; apply step_kkids; assumption|].
    split; [intros; apply step_hmouse; assumption|].
    split; [intros; apply step_mkids; assumption|].
    split; [intros; apply step_otm; assumption|].
    split; [intros; apply step_evh; assumption|].
    split; [intros; apply step_setgeom; assumption|].
    split; [intros; apply step_resize; assumption|].
    split; [intros; apply step_doexpose; assumption|].
    split; [intros; apply step_exkids; assumption|].
    split; [intros; apply step_flost; assumption|].
    split; [intros; apply step_fgained; assumption|].
    intros; apply step_flush; assumption.
Qed.

Lemma good_heap0 : good [] (heap0 fixed).
Proof.
  exists e0. split; [reflexivity|]. split; [exact hinv_heap0|]. split; [exact agreeE_init|]. split; [split|].
  - intros i x Hn. destruct i as [|[|i]]; cbn in Hn; try discriminate. inversion Hn. reflexivity.
  - intros i [].
  - intros F1 i F2 x p E. destruct F1; discriminate.
Qed.

Lemma run_script_events : forall fuel l k h, good [] h \/ ill h ->
  match run_script_from fixed fuel l k h with
  | VOk h' => good [] h' \/ ill h'
  | VFault _ _ hf => ill hf
  | VNoFuel _ => True
  end.
Proof.
  intros fuel l. induction l as [|o l IH]; intros k h Hg; cbn [run_script_from]; [exact Hg|].
  assert (H : dok [] (run_op fixed fuel o h)).
  { destruct Hg as [G|Hi]; [apply (S_all_holds fuel); exact G|apply dok_ill; [apply text_run_op|exact Hi]]. }
  destruct (run_op fixed fuel o h) as [u h'|x hf|]; cbn in H; [|exact H|exact I].
  apply IH. destruct H; auto.
Qed.

(* THE THEOREM FOR HISTORIES WITH EVENTS.  Any script (key events, mouse press / release / wheel events, handlers
   bound at any depth that ref, unref, close, create, restack, show, hide, focus, flush, bind, unbind, send further
   events ...), any fuel: if the model faults, then the trace of what was executed -- the client's calls, those made by
   handlers included, and the library's frame references -- is not one that the discipline of LifeSpecEv.v accepts. *)
Theorem events_no_fault : forall fuel l f step hf,
  run_script fixed fuel l = VFault f step hf -> wf_trace (tr hf) = false.
Proof.
  intros fuel l f step hf Hr. pose proof (run_script_events fuel l O (heap0 fixed) (or_introl good_heap0)) as H.
  unfold run_script in Hr. rewrite Hr in H. unfold wf_trace. rewrite (ill_echeck hf H). reflexivity.
Qed.

(* ... and a run that completes within the discipline ends in a heap that satisfies the invariant, agrees with the
   ghost state, has no dispatch frame left, and holds nothing once every reference has been dropped *)
Theorem events_completed : forall fuel l h,
  run_script fixed fuel l = VOk h -> wf_trace (tr h) = true ->
  hinv [] h /\ exists g, echeck e0 (rev (tr h)) = Some g /\ agreeE g h /\
                         (forall i x, nth_error g i = Some x -> e_fr x = 0) /\
                         (all_dropped_e g = true -> heap_empty h = true).
Proof.
  intros fuel l h Hr Hwf. pose proof (run_script_events fuel l O (heap0 fixed) (or_introl good_heap0)) as H.
  unfold run_script in Hr. rewrite Hr in H. destruct H as [G|Hi].
  2:{ unfold wf_trace in Hwf. rewrite (ill_echeck h Hi) in Hwf. discriminate. }
  destruct G as (g & Hg & HI & AG & [Hfr _] & _). split; [exact HI|]. exists g. split; [exact Hg|]. split; [exact AG|].
  split; [intros i x Hn; rewrite (Hfr i x Hn); reflexivity|].
  intro Hd. apply all_released; [exact HI|]. intros a c Hf. exfalso.
  destruct (agreeE_live_cell g h HI AG a c Hf) as (x & Hn & Href & _).
  unfold all_dropped_e in Hd. rewrite forallb_forall in Hd.
  assert (Hin : In x g) by (eapply nth_error_In; eauto). specialize (Hd x Hin).
  apply andb_prop in Hd. destruct Hd as [H1 H2]. apply Z.eqb_eq in H1. apply Z.eqb_eq in H2.
  pose proof (hi_ref [] h HI a c Hf (fun y => y)). lia.
Qed.

(* non-vacuity: a key event reaches the focused leaf of a three-level chain through three dispatch frames; its handler
   drops the last client reference to its own window and then to its parent (both live on until their frames let go),
   sends a mouse event from inside (whose handler on the root makes further calls), and the script goes on to flush and to release the root.  The run completes,
   the discipline accepts its trace, 3+3 frame references were taken for the first event, and nothing stays allocated. *)
Definition ev_demo : list op :=
  [ONew 1 false false false false; ONew 2 false false false false; OFocus 3;
   OBind 3 0 HKey 0 false [OUnref 3; OUnref 2; ORef 1; OMouse MPress; OUnref 1];
   OBind 1 1 HMouse 1 false [OShow 1; OExpose 1];
   OKey; OMouse MPress; OMouse MRelease; OFlush 1; OUnref 1].
Lemma events_nonvacuous : exists h,
  run_script fixed 80 ev_demo = VOk h /\ wf_trace (tr h) = true /\ heap_empty h = true /\
  (6 <= length (filter (fun o => match o with OFrameRef _ => true | _ => false end) (tr h)))%nat.
Proof. vm_compute. eexists. split; [reflexivity|]. split; [reflexivity|]. split; [reflexivity|]. lia. Qed.

(* ... and the drag state machine: the window that accepted DRAG_START becomes the drag source; on release it is told
   DRAG_STOP directly, with all its ancestors held; its handler drops the last client references to its own window and
   to its parent (the history on which the library faulted before fixes/C08-6) *)
Definition drag_demo : list op :=
  [ONew 1 false false false false; ONew 2 false false false false;
   OBind 3 0 HMouse 16 true []; OBind 3 1 HMouse 128 false [OUnref 3; OUnref 2]; OBind 3 2 HMouse 32 false [OShow 3];
   OMouse MPress; OMouse MDrag; OMouse MDrag; OMouse MRelease; OFlush 1; OUnref 1].
Lemma drag_nonvacuous : exists h,
  run_script fixed 80 drag_demo = VOk h /\ wf_trace (tr h) = true /\ heap_empty h = true /\
  (10 <= length (filter (fun o => match o with OFrameRef _ => true | _ => false end) (tr h)))%nat.
Proof. vm_compute. eexists. split; [reflexivity|]. split; [reflexivity|]. split; [reflexivity|]. lia. Qed.

(* ... and the other event kinds: take_focus on the leaf of a three-level chain with focus_child_notify on the root; the
   leaf's FOCUS handler drops the last client references to its own window and to its parent (both are held until
   take_focus lets go); the root's FOCUS handler (told about the child) repositions the root; an EXPOSE handler of the root
   unbinds itself, exposes and flushes from inside the flush; a GEOMCHANGE handler of the root runs for set_geometry, for
   reposition and for the terminal's resize *)
Definition efg_demo : list op :=
  [ONew 1 false false false false; ONew 2 false false false false; ONotify 1 true;
   OBind 3 0 HFocus 0 false [OUnref 3; OUnref 2];
   OBind 1 1 HFocus 0 false [OMove 1];
   OBind 1 2 HExpose 0 false [OUnbind 1 2; OExpose 1; OFlush 1];
   OBind 1 3 HGeom 0 false [OShow 1];
   OFocus 3; OExpose 1; OFlush 1; OGeom 1; OResize; OFlush 1; OTouch 1 None true; OFlush 1; OUnref 1].
Lemma efg_nonvacuous : exists h,
  run_script fixed 80 efg_demo = VOk h /\ wf_trace (tr h) = true /\ heap_empty h = true /\
  (12 <= length (filter (fun o => match o with OFrameRef _ => true | _ => false end) (tr h)))%nat.
Proof. vm_compute. eexists. split; [reflexivity|]. split; [reflexivity|]. split; [reflexivity|]. lia. Qed.

(* ---- THE FULL STATEMENT, with the client's side stated by the predictive discipline of LifeSpec.v (the oracle of the
        check): the bridge of LifeNorm.v turns "the observing discipline rejects a call of the client" into "the
        predictive discipline rejects the client's calls" ---- *)
Definition calls (h : heap) : list op := filter is_client (rev (tr h)).

Lemma ill_client : forall h, ill h -> wf_client (calls h) = false.
Proof.
  intros h (l1 & o & l2 & g & E & H1 & H2 & H3). unfold calls. rewrite E. eapply bridge; eauto.
Qed.

(* any history -- events of all five kinds, handlers making any calls at any depth --, any fuel: if the calls that were
   executed (those made by handlers included) are those of a well-formed client, the model does not fault *)
Theorem full_no_fault : forall fuel l f step hf,
  run_script fixed fuel l = VFault f step hf -> wf_client (calls hf) = false.
Proof.
  intros fuel l f step hf Hr. pose proof (run_script_events fuel l O (heap0 fixed) (or_introl good_heap0)) as H.
  unfold run_script in Hr. rewrite Hr in H. apply ill_client. exact H.
Qed.

(* ... and a run that completes ends in a heap that satisfies the invariant and agrees with the predictive ghost state
   of its calls: once that says that every reference has been dropped, nothing is allocated *)
Theorem full_all_released : forall fuel l h gp,
  run_script fixed fuel l = VOk h -> gcheck g0 (calls h) = Some gp ->
  hinv [] h /\ (all_dropped gp = true -> heap_empty h = true).
Proof.
  intros fuel l h gp Hr Hg. pose proof (run_script_events fuel l O (heap0 fixed) (or_introl good_heap0)) as H.
  unfold run_script in Hr. rewrite Hr in H. destruct H as [G|Hi].
  2:{ pose proof (ill_client h Hi) as Hw. unfold wf_client in Hw. rewrite Hg in Hw. discriminate. }
  destruct G as (g & He & HI & AG & [Hfr _] & _). split; [exact HI|].
  destruct (bridge_accept _ g gp He Hg) as [-> HIe].
  intro Hd. apply all_released; [exact HI|]. intros a c Hf. exfalso.
  (* a live window has a client reference (no frame is left), and so has its parent, and so on to the root: all of them are
     alive in the normal form *)
  assert (Halive : forall n i x y, (i < n)%nat -> nth_error g i = Some x -> nth_error (norm g) i = Some y ->
            findw h (addr_of i) <> None -> 0 < g_cnt y).
  { induction n as [|n IHn]; intros i x y Hlt Hx Hy Hl; [lia|].
    destruct (live_some h _ Hl) as [ci Hci].
    pose proof (ae_cells g h AG i x Hx) as C. rewrite Hci in C. destruct C as (C1 & C2 & C3 & C4).
    pose proof (hi_ref [] h HI _ ci Hci (fun z => z)) as Hr1. rewrite (Hfr i x Hx) in C1. cbn in C1.
    apply (norm_entry g i x y Hx Hy); [lia|]. intros p yp Ep Hyp. rewrite Ep in C4. cbn in C4.
    assert (Hpl : findw h (addr_of p) <> None) by exact (hi_parent [] h HI (addr_of i) ci (addr_of p) Hci (eq_sym C4)).
    assert (Hplt : (p < i)%nat) by (apply addr_lt; exact (hi_parent_lt [] h HI (addr_of i) ci (addr_of p) Hci (eq_sym C4))).
    destruct (nth_error g p) as [xp|] eqn:Exp.
    - apply (IHn p xp yp); [lia|exact Exp|exact Hyp|exact Hpl].
    - exfalso. apply nth_error_None in Exp. assert ((p < length g)%nat); [|lia].
      rewrite <- (length_norm g). apply nth_error_Some. congruence. }
  destruct (agreeE_live_cell g h HI AG a c Hf) as (x & Hx & _).
  destruct (nth_error (norm g) (idx a)) as [y|] eqn:Ey.
  - assert (Hl : findw h (addr_of (idx a)) <> None) by (rewrite addr_idx; congruence).
    pose proof (Halive (S (idx a)) (idx a) x y ltac:(lia) Hx Ey Hl) as Hpos.
    unfold all_dropped in Hd. rewrite forallb_forall in Hd.
    assert (Hin : In y (norm g)) by (eapply nth_error_In; eauto). specialize (Hd y Hin). apply Z.eqb_eq in Hd. lia.
  - apply nth_error_None in Ey. rewrite length_norm in Ey. assert ((idx a < length g)%nat); [|lia].
    apply nth_error_Some. congruence.
Qed.
