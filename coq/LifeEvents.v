(* LifeEvents.v -- the heap invariant and the agreement with the discipline, carried through key and mouse
   dispatch with re-entrant handlers: reference count = the client's references + the references held by
   dispatch frames; frames are released innermost first and every framed window's parent is framed further
   out, so the destruction of a window never consumes a reference that a frame holds. *)
From Coq Require Import ZArith List Bool PArith FMapPositive Lia.
From Tickit Require Import LifeDefs LifeLemmas LifeChains LifeInv LifePure LifeWalks LifeRelink LifeRemove LifeClose
  LifeQueue LifeDestroy LifeAttach LifeOps LifeFlush LifeFate LifeSpec LifeProofs LifeAgree LifeSpecEv LifeTrace
  LifeAgreeEv LifeUnfold.
Import ListNotations.
Local Open Scope Z_scope.

(* ---- the trace only grows ---- *)
Definition text {A} (m : M A) : Prop :=
  forall h, match m h with
            | Ok _ h' => exists l, tr h' = l ++ tr h
            | Fault _ hf => exists l, tr hf = l ++ tr h
            | NoFuel => True
            end.

Lemma ktr_text : forall A (m : M A), ktr m -> text m.
Proof. intros A m H h. specialize (H h). destruct (m h); auto; exists []; exact H. Qed.
Lemma text_ret : forall A (a : A), text (ret a).
Proof. intros. apply ktr_text, ktr_ret. Qed.
Lemma text_log_op : forall o, text (log_op o).
Proof. intros o h. cbn. exists [o]. reflexivity. Qed.
Lemma text_bind : forall A B (m : M A) (k : A -> M B), text m -> (forall a, text (k a)) -> text (bind m k).
Proof.
  intros A B m k Hm Hk h. unfold bind. specialize (Hm h). destruct (m h) as [a h1|f hf|]; auto.
  destruct Hm as [l1 E1]. specialize (Hk a h1). destruct (k a h1) as [b h2|f hf|]; auto; destruct Hk as [l2 E2];
    exists (l2 ++ l1); rewrite E2, E1, app_assoc; reflexivity.
Qed.

Ltac text1 :=
  match goal with
  | |- text (bind _ _) => apply text_bind; [|intro]
  | |- text (ret _) => apply text_ret
  | |- text (log_op _) => apply text_log_op
  | |- text (let _ := _ in _) => cbv zeta
  | |- text (if ?b then _ else _) => destruct b
  | |- text (match ?x with _ => _ end) => destruct x
  | |- text _ => solve [auto | apply ktr_text; eauto with ktr]
  end.
Ltac text_auto := repeat text1.

Lemma text_all : forall fuel,
  (forall o, text (run_op fixed fuel o)) /\ (forall l, text (run_ops fixed fuel l)) /\
  (forall w hs, text (run_key_handlers fixed fuel w hs)) /\ (forall w hs t u, text (run_mouse_handlers fixed fuel w hs t u)) /\
  (forall w, text (handle_key fixed fuel w)) /\ (forall w s k, text (key_kids fixed fuel w s k)) /\
  (forall w c, text (key_kids_asis fixed fuel w c)) /\
  (forall w t i u, text (handle_mouse fixed fuel w t i u)) /\ (forall w k t i u, text (mouse_kids fixed fuel w k t i u)) /\
  (forall w c t i u, text (mouse_kids_asis fixed fuel w c t i u)) /\
  (forall w, text (ref_up fixed fuel w)) /\ (forall l, text (unref_list fixed fuel l)) /\
  (forall t, text (on_term_mouse fixed fuel t)).
Proof.
  induction fuel as [|f (I1 & I2 & I3 & I4 & I5 & I6 & I7 & I8 & I9 & I10 & I11 & I12 & I13)].
  - repeat split; intros; intro h; exact I.
  - repeat split; intros.
    + rewrite run_op_F. text_auto.
    + rewrite run_ops_F. text_auto.
    + rewrite run_key_handlers_F. text_auto.
    + rewrite run_mouse_handlers_F. text_auto.
    + rewrite handle_key_F. cbn [v_events_asis fixed]. text_auto.
    + rewrite key_kids_F. text_auto.
    + rewrite key_kids_asis_F. text_auto.
    + rewrite handle_mouse_F. cbn [v_events_asis fixed]. text_auto.
    + rewrite mouse_kids_F. text_auto.
    + rewrite mouse_kids_asis_F. text_auto.
    + rewrite ref_up_F. text_auto.
    + rewrite unref_list_F. text_auto.
    + rewrite on_term_mouse_F. cbn [v_events_asis fixed]. text_auto.
Qed.
