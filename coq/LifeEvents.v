(* LifeEvents.v -- the heap invariant and the agreement with the discipline, carried through key and mouse
   dispatch with re-entrant handlers: reference count = the client's references + the references held by
   dispatch frames; frames are released innermost first and every framed window's parent is framed further
   out, so the destruction of a window never consumes a reference that a frame holds. *)
From Coq Require Import ZArith List Bool PArith FMapPositive Lia.
From Tickit Require Import LifeDefs LifeLemmas LifeChains LifeInv LifePure LifeWalks LifeRelink LifeRemove LifeClose
  LifeQueue LifeDestroy LifeAttach LifeOps LifeFlush LifeFate LifeSpec LifeProofs LifeAgree LifeSpecEv LifeTrace
  LifeAgreeEv LifeUnfold.
Import ListNotations.
Local Open Scope Z_scope.

(* ---- the trace only grows ---- *)
Definition text {A} (m : M A) : Prop :=
  forall h, match m h with
            | Ok _ h' => exists l, tr h' = l ++ tr h
            | Fault _ hf => exists l, tr hf = l ++ tr h
            | NoFuel => True
            end.

Lemma ktr_text : forall A (m : M A), ktr m -> text m.
Proof. intros A m H h. specialize (H h). destruct (m h); auto; exists []; exact H. Qed.
Lemma text_ret : forall A (a : A), text (ret a).
Proof. intros. apply ktr_text, ktr_ret. Qed.
Lemma text_log_op : forall o, text (log_op o).
Proof. intros o h. cbn. exists [o]. reflexivity. Qed.
Lemma text_bind : forall A B (m : M A) (k : A -> M B), text m -> (forall a, text (k a)) -> text (bind m k).
Proof.
  intros A B m k Hm Hk h. unfold bind. specialize (Hm h). destruct (m h) as [a h1|f hf|]; auto.
  destruct Hm as [l1 E1]. specialize (Hk a h1). destruct (k a h1) as [b h2|f hf|]; auto; destruct Hk as [l2 E2];
    exists (l2 ++ l1); rewrite E2, E1, app_assoc; reflexivity.
Qed.

Ltac text1 :=
  match goal with
  | |- text (bind _ _) => apply text_bind; [|intro]
  | |- text (ret _) => apply text_ret
  | |- text (log_op _) => apply text_log_op
  | |- text (let _ := _ in _) => cbv zeta
  | |- text (if ?b then _ else _) => destruct b
  | |- text (match ?x with _ => _ end) => destruct x
  | |- text _ => solve [auto | apply ktr_text; eauto with ktr]
  end.
Ltac text_auto := repeat text1.

Lemma text_all : forall fuel,
  (forall o, text (run_op fixed fuel o)) /\ (forall l, text (run_ops fixed fuel l)) /\
  (forall w hs, text (run_key_handlers fixed fuel w hs)) /\ (forall w hs t u, text (run_mouse_handlers fixed fuel w hs t u)) /\
  (forall w, text (handle_key fixed fuel w)) /\ (forall w s k, text (key_kids fixed fuel w s k)) /\
  (forall w c, text (key_kids_asis fixed fuel w c)) /\
  (forall w t i u, text (handle_mouse fixed fuel w t i u)) /\ (forall w k t i u, text (mouse_kids fixed fuel w k t i u)) /\
  (forall w c t i u, text (mouse_kids_asis fixed fuel w c t i u)) /\
  (forall w, text (ref_up fixed fuel w)) /\ (forall l, text (unref_list fixed fuel l)) /\
  (forall t, text (on_term_mouse fixed fuel t)).
Proof.
  induction fuel as [|f (I1 & I2 & I3 & I4 & I5 & I6 & I7 & I8 & I9 & I10 & I11 & I12 & I13)].
  - repeat split; intros; intro h; exact I.
  - repeat split; intros.
    + rewrite run_op_F. text_auto.
    + rewrite run_ops_F. text_auto.
    + rewrite run_key_handlers_F. text_auto.
    + rewrite run_mouse_handlers_F. text_auto.
    + rewrite handle_key_F. cbn [v_events_asis fixed]. text_auto.
    + rewrite key_kids_F. text_auto.
    + rewrite key_kids_asis_F. text_auto.
    + rewrite handle_mouse_F. cbn [v_events_asis fixed]. text_auto.
    + rewrite mouse_kids_F. text_auto.
    + rewrite mouse_kids_asis_F. text_auto.
    + rewrite ref_up_F. text_auto.
    + rewrite unref_list_F. text_auto.
    + rewrite on_term_mouse_F. cbn [v_events_asis fixed]. text_auto.
Qed.

(* ---- the discipline over a growing trace ---- *)
Lemma echeck_app : forall l1 l2 g,
  echeck g (l1 ++ l2) = match echeck g l1 with Some g1 => echeck g1 l2 | None => None end.
Proof.
  induction l1 as [|o l1 IH]; intros l2 g; cbn; [reflexivity|]. destruct (estep g o); [apply IH|reflexivity].
Qed.

Definition ill (h : heap) : Prop := echeck e0 (rev (tr h)) = None.

Lemma ill_ext : forall h h' l, ill h -> tr h' = l ++ tr h -> ill h'.
Proof. intros h h' l H E. unfold ill in *. rewrite E, rev_app_distr, echeck_app, H. reflexivity. Qed.

(* ---- frames ---- *)
(* [F]: the windows (by index) that dispatch frames hold, the one to be released first at the head *)
Definition frames_of (g : eghost) (F : list nat) : Prop :=
  (forall i x, nth_error g i = Some x -> e_fr x = Z.of_nat (count_occ Nat.eq_dec F i)) /\
  (forall i, In i F -> (i < length g)%nat).
(* the parent of a framed window is framed further out *)
Definition FS (g : eghost) (F : list nat) : Prop :=
  forall F1 i F2 x p, F = F1 ++ i :: F2 -> nth_error g i = Some x -> e_par x = Some p -> In p F2.

Lemma FS_tail : forall g i F, FS g (i :: F) -> FS g F.
Proof. intros g i F H F1 j F2 x p E. apply (H (i :: F1) j F2 x p). rewrite E. reflexivity. Qed.

Lemma FS_desc : forall g F w j, FS g F -> edesc g w j -> forall F1 F2, F = F1 ++ j :: F2 -> In w F2.
Proof.
  intros g F w j HF Hd. induction Hd as [j x Hn Hp | j x p Hn Hp Hd IH]; intros F1 F2 E.
  - eapply HF; eauto.
  - pose proof (HF F1 j F2 x p E Hn Hp) as Hin. apply in_split in Hin. destruct Hin as (G1 & G2 & EG).
    assert (In w G2) by (apply (IH (F1 ++ j :: G1) G2); rewrite E, EG, <- app_assoc; reflexivity).
    rewrite EG. apply in_or_app. right. right. assumption.
Qed.

(* the ghost's parents only ever change to "none" for windows that exist; new windows are appended *)
Definition par_shrinks (g g' : eghost) : Prop :=
  (length g <= length g')%nat /\
  forall i x', nth_error g' i = Some x' -> (i < length g)%nat ->
    exists x, nth_error g i = Some x /\ (e_par x' = e_par x \/ e_par x' = None).

Lemma FS_shrinks : forall g g' F, FS g F -> (forall i, In i F -> (i < length g)%nat) -> par_shrinks g g' -> FS g' F.
Proof.
  intros g g' F HF Hb [_ Hs] F1 i F2 x' p E Hn Hp.
  assert (Hi : (i < length g)%nat) by (apply Hb; rewrite E; apply in_or_app; right; left; reflexivity).
  destruct (Hs i x' Hn Hi) as (x & Hx & [Ep|Ep]); [|congruence].
  apply (HF F1 i F2 x p E Hx). congruence.
Qed.

Lemma nth_edestroy_pass : forall t i w doomed k x',
  nth_error (edestroy_pass t i w doomed) k = Some x' ->
  exists x, nth_error t k = Some x /\ (e_par x' = e_par x \/ e_par x' = None) /\
            ((e_fr x' = e_fr x /\ e_cnt x' <= e_cnt x) \/
             (e_fr x' = 0 /\ ((i + k)%nat = w \/ (0 < e_cnt x /\ e_cnt x - 1 + e_fr x = 0)))).
Proof.
  induction t as [|y t IH]; intros i w doomed k x' H; [destruct k; discriminate|]. cbn [edestroy_pass] in H.
  assert (Hrec : forall d z, nth_error (z :: edestroy_pass t (S i) w d) k = Some x' ->
            (k = O -> z = x' -> exists x, nth_error (y :: t) k = Some x /\ (e_par x' = e_par x \/ e_par x' = None) /\
                      ((e_fr x' = e_fr x /\ e_cnt x' <= e_cnt x) \/ (e_fr x' = 0 /\ ((i + k)%nat = w \/ (0 < e_cnt x /\ e_cnt x - 1 + e_fr x = 0))))) ->
            exists x, nth_error (y :: t) k = Some x /\ (e_par x' = e_par x \/ e_par x' = None) /\
                      ((e_fr x' = e_fr x /\ e_cnt x' <= e_cnt x) \/ (e_fr x' = 0 /\ ((i + k)%nat = w \/ (0 < e_cnt x /\ e_cnt x - 1 + e_fr x = 0))))).
  { intros d z Hz H0. destruct k as [|k]; cbn in Hz.
    - inversion Hz. apply H0; auto.
    - destruct (IH (S i) w d k x' Hz) as (x & Hx & Hp & Hf). exists x. split; [exact Hx|]. split; [exact Hp|].
      rewrite <- Nat.add_succ_comm. exact Hf. }
  destruct (Nat.eqb i w) eqn:Eiw.
  - apply (Hrec _ _ H). intros -> <-. exists y. split; [reflexivity|]. cbn. split; [right; reflexivity|].
    right. split; [reflexivity|]. left. apply Nat.eqb_eq in Eiw. lia.
  - destruct (e_par y) as [p|] eqn:Ep.
    + destruct (existsb (Nat.eqb p) doomed && (0 <? e_cnt y)) eqn:Ec.
      * apply andb_prop in Ec. destruct Ec as [_ Ec]. apply Z.ltb_lt in Ec.
        destruct (e_cnt y - 1 + e_fr y =? 0) eqn:Ez.
        -- apply (Hrec _ _ H). intros -> <-. exists y. split; [reflexivity|]. cbn. split; [right; reflexivity|].
           right. split; [reflexivity|]. right. apply Z.eqb_eq in Ez. split; assumption.
        -- apply (Hrec _ _ H). intros -> <-. exists y. split; [reflexivity|]. cbn. split; [right; reflexivity|].
           left. split; [reflexivity|lia].
      * apply (Hrec _ _ H). intros -> <-. exists y. split; [reflexivity|]. split; [left; reflexivity|]. left. split; [reflexivity|lia].
    + apply (Hrec _ _ H). intros -> <-. exists y. split; [reflexivity|]. split; [left; reflexivity|]. left. split; [reflexivity|lia].
Qed.
