(* Utf8Spec.v -- the abstract specification of property C07 and its boolean checkers (the
   oracle evaluated on the implementation's own observations).

   The specification speaks about the EFFECTIVE string: the bytes from the starting offset up
   to (not including) the first NUL or the length bound.  It is decoded into items (code
   point, encoded length, width) by a structurally recursive reading of the UTF-8 grammar;
   decoding ends either at the end of the string or at the first BAD place (C0/C1 control or
   DEL as decoded value, a lead byte 0x80..0xBF or 0xF8..0xFF, a sequence cut short by the end
   of the effective string).  Items are grouped into UNITS: an optional leading run of
   zero-width items, then graphemes = one spacing item followed by all zero-width items after
   it.  Counting takes the longest prefix of units whose cumulative counters respect every
   given limit; it is an error exactly when every unit fits and decoding ended at a bad place. *)
From Coq Require Import ZArith List Bool.
From Tickit Require Import Gen_Width Utf8Defs.
Import ListNotations.
Local Open Scope Z_scope.

(* ------------------------------------------------------------------ width *)

Definition in_iv (c : Z) (iv : Z * Z) : bool := (fst iv <=? c) && (c <=? snd iv).
Definition in_table (c : Z) (t : list (Z * Z)) : bool := existsb (in_iv c) t.

(* C0 / C1 controls and DEL *)
Definition bad_cp (cp : Z) : bool := (cp <? 0x20) || ((0x7f <=? cp) && (cp <? 0xa0)).

(* East Asian wide ranges hard-coded in mk_wcwidth, as intervals *)
Definition wide_ranges : list (Z * Z) :=
  [(0x1100, 0x115f); (0x2329, 0x232a); (0x2e80, 0x303e); (0x3040, 0xa4cf); (0xac00, 0xd7a3);
   (0xf900, 0xfaff); (0xfe10, 0xfe19); (0xfe30, 0xfe6f); (0xff00, 0xff60); (0xffe0, 0xffe6);
   (0x20000, 0x2fffd); (0x30000, 0x3fffd)].

(* column width of a code point that is not a control: membership in the tables *)
Definition spec_width (cp : Z) : Z :=
  if in_table cp fullwidth then 2
  else if in_table cp combining then 0
  else if in_table cp wide_ranges then 2
  else 1.

(* Widths the library itself documents -- independent of the tables, so that an edit of a
   table (or of the translator) that changes one of them is a visible contradiction:
   man/tickit_utf8_count.3 (U+0301 is not a grapheme of its own), t/01utf8.c (U+00E9, U+0301,
   U+5F61, U+FF21, U+1F3E0, U+30CE, U+7CA0, U+253B, U+2501), the comment above mk_wcwidth in
   src/unicode.h (SOFT HYPHEN 1, ZERO WIDTH SPACE 0, Hangul Jamo medial vowels and final
   consonants U+1160..U+11FF 0, Hangul Jamo initial consonants and full-width forms 2, printable
   ISO 8859-1 characters 1). *)
Definition documented_widths : list (Z * Z) :=
  [(0x20, 1); (0x41, 1); (0x7e, 1); (0xa0, 1); (0xad, 1); (0xe9, 1); (0xff, 1);
   (0x300, 0); (0x301, 0); (0x36f, 0); (0x200b, 0); (0x1160, 0); (0x1161, 0); (0x11a8, 0); (0x11ff, 0);
   (0x1100, 2); (0x115f, 2); (0x2501, 1); (0x253b, 1); (0x30ce, 2); (0x5f61, 2); (0x7ca0, 2);
   (0xac00, 2); (0xff01, 2); (0xff21, 2); (0xff60, 2); (0x1f3e0, 2)].

Definition documented_width (cp : Z) : option Z :=
  match find (fun e => fst e =? cp) documented_widths with
  | Some e => Some (snd e)
  | None => None
  end.

(* oracle for an observed width: where the library documents a width, it must be that one *)
Definition width_checkb (cp w : Z) : bool :=
  match documented_width cp with
  | Some d => w =? d
  | None => true
  end.

(* ------------------------------------------------------------------ decoding *)

Record item := mkItem { it_cp : Z; it_nb : Z; it_w : Z }.

Definition cont (b : Z) : Z := b mod 64.

(* [k] is the decoding of what follows the sequence; (items, ended_at_a_bad_place) *)
Definition mk_item (cp nb : Z) (k : list item * bool) : list item * bool :=
  if bad_cp cp then ([], true) else (mkItem cp nb (spec_width cp) :: fst k, snd k).

Fixpoint decode (s : list Z) : list item * bool :=
  match s with
  | [] => ([], false)
  | b0 :: t0 =>
      if b0 <? 0x80 then mk_item b0 1 (decode t0)
      else if b0 <? 0xc0 then ([], true)                                  (* invalid lead *)
      else if b0 <? 0xe0 then
        match t0 with
        | b1 :: t1 => mk_item ((b0 mod 32) * 64 + cont b1) 2 (decode t1)
        | _ => ([], true)                                                 (* truncated *)
        end
      else if b0 <? 0xf0 then
        match t0 with
        | b1 :: b2 :: t2 => mk_item (((b0 mod 16) * 64 + cont b1) * 64 + cont b2) 3 (decode t2)
        | _ => ([], true)
        end
      else if b0 <? 0xf8 then
        match t0 with
        | b1 :: b2 :: b3 :: t3 =>
            mk_item ((((b0 mod 8) * 64 + cont b1) * 64 + cont b2) * 64 + cont b3) 4 (decode t3)
        | _ => ([], true)
        end
      else ([], true)                                                     (* invalid lead *)
  end.

(* ------------------------------------------------------------------ units *)

Definition spacing (i : item) : bool := 0 <? it_w i.

Definition emit (cur : list item) : list (list item) :=
  match cur with [] => [] | _ => [cur] end.

(* [cur] = the unit being collected *)
Fixpoint group (cur : list item) (its : list item) : list (list item) :=
  match its with
  | [] => emit cur
  | i :: rest => if spacing i then emit cur ++ group [i] rest else group (cur ++ [i]) rest
  end.

Definition units (its : list item) : list (list item) := group [] its.

(* ------------------------------------------------------------------ counting *)

Definition pos_add_item (p : spos) (i : item) : spos :=
  mkPos (p_bytes p + it_nb i) (p_cps p + 1)
        (p_graphs p + (if spacing i then 1 else 0)) (p_cols p + it_w i).

Definition pos_add_unit (p : spos) (u : list item) : spos := fold_left pos_add_item u p.

Definition fld_ok (l v : Z) : bool := (l =? -1) || (v <=? l).

Definition within (p : spos) (limit : option spos) : bool :=
  match limit with
  | None => true
  | Some l => fld_ok (p_bytes l) (p_bytes p) && fld_ok (p_cps l) (p_cps p) &&
              fld_ok (p_graphs l) (p_graphs p) && fld_ok (p_cols l) (p_cols p)
  end.

(* longest prefix of units that fits; the flag says that ALL units fitted *)
Fixpoint take_units (us : list (list item)) (p : spos) (limit : option spos) : spos * bool :=
  match us with
  | [] => (p, true)
  | u :: rest =>
      let p' := pos_add_unit p u in
      if within p' limit then take_units rest p' limit else (p, false)
  end.

Inductive sres := SErr | SOk (ret : Z) (pos : spos).

(* [s]: effective string from the starting offset; [pos0]: the counters on entry *)
Definition spec_count (s : list Z) (pos0 : spos) (limit : option spos) : sres :=
  let '(its, bad) := decode s in
  let '(p, all) := take_units (units its) pos0 limit in
  if all && bad then SErr else SOk (p_bytes p - p_bytes pos0) p.

(* ------------------------------------------------------------------ effective string *)

Fixpoint upto_nul (s : list Z) : list Z :=
  match s with
  | [] => []
  | b :: t => if b =? 0 then [] else b :: upto_nul t
  end.

(* the bytes the call may look at, from offset [off]: up to the first NUL, and at most
   len - off of them when a length is given *)
Definition effective (buf : list Z) (len : option Z) (off : Z) : list Z :=
  let s := skipn (Z.to_nat off) buf in
  upto_nul (match len with None => s | Some l => firstn (Z.to_nat (l - off)) s end).

(* ------------------------------------------------------------------ shape of a call's buffer *)

Definition nonul (s : list Z) : Prop := Forall (fun b => b <> 0) s.

(* The permitted region, from the starting offset on, is [s ++ tail]: [s] is the effective
   string (no NUL in it), [tail] whatever else is readable, [len] the length argument counted
   from the starting offset ([None] = (size_t)-1).  Either no length is given and the tail
   begins with the terminator; or the length ends exactly at the end of [s] (then the tail is
   arbitrary -- possibly empty: the permitted region ends there); or the length reaches
   further and the tail begins with a NUL. *)
Definition tail_ok (s tail : list Z) (len : option Z) : Prop :=
  match len with
  | None => exists junk, tail = 0 :: junk
  | Some l => l = Z.of_nat (length s) \/
              (Z.of_nat (length s) < l /\ exists junk, tail = 0 :: junk)
  end.

(* The model's result meets the specification's: equal return value and position; on the
   error value the contents of pos are left open (the man page: "updated with the progress so
   far").  Fault / fuel exhaustion never meet anything. *)
Definition cres_meets (c : cres) (s : sres) : Prop :=
  match c, s with
  | CRet r p, SOk r' p' => r = r' /\ p = p'
  | CRet r _, SErr => r = -1
  | _, _ => False
  end.

(* a call the man page allows: the starting offset lies inside the string; without a length
   there is a terminator at or after it; with a length, that many bytes are readable *)
Definition valid_call (buf : list Z) (len : option Z) (off : Z) : Prop :=
  0 <= off /\
  match len with
  | None => In 0 (skipn (Z.to_nat off) buf)
  | Some l => off <= l <= Z.of_nat (length buf)
  end.

(* totals of a list of items *)
Definition bytes_of (its : list item) : Z := fold_right (fun i a => it_nb i + a) 0 its.
Definition cols_of (its : list item) : Z := fold_right (fun i a => it_w i + a) 0 its.
Definition graphs_of (its : list item) : Z :=
  fold_right (fun i a => (if spacing i then 1 else 0) + a) 0 its.

(* ------------------------------------------------------------------ oracle *)

Definition pos_eqb (a b : spos) : bool :=
  (p_bytes a =? p_bytes b) && (p_cps a =? p_cps b) &&
  (p_graphs a =? p_graphs b) && (p_cols a =? p_cols b).

(* is (ret, pos), as observed from tickit_utf8_[n]count[more](buf, len, pos0, limit), what the
   specification demands?  On the error value the contents of pos are not constrained. *)
Definition count_checkb (buf : list Z) (len : option Z) (pos0 : spos) (limit : option spos)
                        (ret : Z) (pos : spos) : bool :=
  match spec_count (effective buf len (p_bytes pos0)) pos0 limit with
  | SErr => ret =? -1
  | SOk r p => (ret =? r) && pos_eqb pos p
  end.

(* limits L1 <= L2 component-wise, -1 = no limit *)
Definition fld_le (a b : Z) : bool := (b =? -1) || (negb (a =? -1) && (a <=? b)).
Definition limit_le (l1 l2 : option spos) : bool :=
  match l2, l1 with
  | None, _ => true
  | Some _, None => false
  | Some b, Some a => fld_le (p_bytes a) (p_bytes b) && fld_le (p_cps a) (p_cps b) &&
                      fld_le (p_graphs a) (p_graphs b) && fld_le (p_cols a) (p_cols b)
  end.

(* resumption: count with L1 gave (ret1,pos1) [no error]; countmore from pos1 with L2 gave
   r12 = (ret12,pos12) or the error value; count with L2 in one go gave r2 likewise.
   Demanded when L1 <= L2: same error status, same totals, bytes add up. *)
Definition resume_checkb (l1 l2 : option spos) (ret1 : Z) (pos1 : spos)
                         (ret12 : Z) (pos12 : spos) (ret2 : Z) (pos2 : spos) : bool :=
  if negb (limit_le l1 l2) then true else
  if ret2 =? -1 then ret12 =? -1
  else negb (ret12 =? -1) && pos_eqb pos12 pos2 && (ret1 + ret12 =? ret2).

(* encode-then-count round trip for one code point below 0x200000: what count must report for
   the string put(cp) *)
Definition roundtrip_expect (cp : Z) : sres :=
  if cp =? 0 then SOk 0 pos_zero
  else if bad_cp cp then SErr
  else let w := spec_width cp in
       SOk (u8_seqlen cp) (mkPos (u8_seqlen cp) 1 (if 0 <? w then 1 else 0) w).

Definition roundtrip_checkb (cp nbytes ret : Z) (pos : spos) : bool :=
  (nbytes =? u8_seqlen cp) &&
  match roundtrip_expect cp with
  | SErr => ret =? -1
  | SOk r p => (ret =? r) && pos_eqb pos p
  end.
