(* FlushOnVT.v -- composition of C04 (render-buffer flush, RBFlush*.v) with C09 / C10 (xterm driver and
   pen path against the VT specification): the terminal operations a flush emits, sent through the public
   API of term.c and the xterm driver, and interpreted by the VT-conformant screen of VT.v, REFINE the run
   of the abstract grid terminal that C04 is stated for.

   The abstract side is [paint] (RBTermSim.v): the gridless execution of a termop list that C04 proves to
   succeed for every flush and that [t_run] realises ([t_run_paint]).  Here: whenever [paint] succeeds on
   a list of operations whose printed code points are printable ASCII and whose pens are in range, the
   driver does not fault, and the VT screen after its bytes relates to [paint]'s writes cell by cell. *)
From Coq Require Import ZArith List Bool Lia ZifyBool.
From Tickit Require RectDefs RBDefs RBSpec RBWidth RBAbsLemmas RBFlushDefs RBFlushSpec RBTermSim RBFlushShown
  RBFlushReach RBProps FlushPaint RBPenBridge.
From Tickit Require Import Csi VT TermPenDefs TermPenSpec TermPenProofs XtermDefs XtermSpec XtermProofs
  TermApiDefs TermApiSpec TermApiProofs Gen_SgrOnOff TermPenC19 VTUtf8.
Import ListNotations.
Local Open Scope Z_scope.

Module RD := Tickit.RBDefs.
Module FD := Tickit.RBFlushDefs.
Module FS := Tickit.RBFlushSpec.
Module TS := Tickit.RBTermSim.
Module SH := Tickit.RBFlushShown.

(* ---- from the render buffer's pens (C19's attribute maps: ten attributes, colours with an optional RGB8
   secondary) to term.c's *)
(* [cv], [pattr_of]: the two vocabularies, TermPenC19.v *)
Definition pen_of_rb (p : RD.pen) : pen := fun a => option_map cv (RD.pget p (pattr_of a)).
(* the three models of a pen agree: for a TickitPen q (C19's concrete model), the render-buffer pen it
   denotes (RBPenBridge.denote) converts to the partial map term.c's model holds for q (TermPenC19.rep) *)
Lemma pen_of_rb_denote : forall q, rep q (pen_of_rb (Tickit.RBPenBridge.denote q)).
Proof. intros q a. unfold rep_at, pen_of_rb. rewrite Tickit.RBPenBridge.pget_denote. reflexivity. Qed.

(* the values the SGR model covers: colour index -1..255 (RGB components 0..255), underline style 0..3,
   alternate font -1..9, sizepos 0 / 2 / 3 (SIZEPOS_SMALL = 1 has no SGR), booleans *)
Definition rbpen_okb (p : RD.pen) : bool := pen_in_rangeb (pen_of_rb p).

(* the operations, as calls of the public API *)
Definition api_of_termop (o : FD.termop) : api :=
  match o with
  | FD.TGoto l c => AGoto l c
  | FD.TSetPen p => ASetpen (pen_of_rb p)
  | FD.TPrint s => APrintn (UB.enc s) (Z.of_nat (length (UB.enc s)))     (* the UTF-8 bytes of the text *)
  | FD.TErase n mv => AErasech n (if mv then MYes else MMaybe)
  end.
(* what the VT model (with its UTF-8 front end, VTUtf8.v) and the library agree on: code points of width 1
   (cpw = C07's width: ASCII, Latin-1, box drawing, ... -- not control, not combining, not wide), pens in range *)
Definition uprintable (c : Z) : bool := RD.cpw c =? 1.
Definition termop_okb (o : FD.termop) : bool :=
  match o with
  | FD.TSetPen p => rbpen_okb p
  | FD.TPrint s => forallb uprintable s
  | _ => true
  end.

(* ---- the rendition a render-buffer pen stands for on the terminal *)
Definition xc (x : vval) : colour := match x with XCol c => c | _ => CDefault end.
Definition xb (x : vval) : bool := match x with XBool b => b | _ => false end.
Definition xi (x : vval) : Z := match x with XInt n => n | _ => 0 end.
Definition attrs_of (f : attr -> vval) : attrs :=
  mkAttrs (xc (f AFg)) (xc (f ABg)) (xb (f ABold)) false (xi (f AUnder)) (xb (f AItalic)) (xb (f AReverse))
          (xb (f AStrike)) (xi (f AAltfont)) (xb (f ABlink)) (xi (f ASizepos)).
(* by the defaulted reads, so that equivalent pens (tickit_pen_equiv) have the same rendition; [enc] is
   C10's encoding of an attribute value (TermPenSpec): colours by index or -- with an RGB secondary and the
   RGB capability -- direct, underline styles with or without colon sub-parameters, fonts, sizepos *)
Definition rval (p : RD.pen) (a : attr) : aval := cv (RD.preads p (pattr_of a)).
Definition rend (colon rgb8 : bool) (p : RD.pen) : attrs := attrs_of (fun a => enc colon rgb8 a (rval p a)).

(* a VT cell against a cell of the abstract terminal: the glyph, and the pen's rendition -- for a blank
   it is enough that the visible background is the pen's (ECH leaves only the background) *)
Definition wrel (colon rgb8 : bool) (c : cell) (tc : FD.tcell) : Prop :=
  exists g, FD.t_text tc = [g] /\ c_glyph c = g /\
    (c_attrs c = rend colon rgb8 (FD.t_pen tc) \/
     (g = 32 /\ visbg (c_attrs c) = visbg (rend colon rgb8 (FD.t_pen tc)))).

Definition written (w : TS.writes) (pos : FS.tpos) : bool := existsb (fun pc => FS.tpos_eqb (fst pc) pos) w.

Lemma written_app : forall a b pos, written (a ++ b) pos = written a pos || written b pos.
Proof. intros a b pos. unfold written. apply existsb_app. Qed.
Lemma look_unwritten : forall w pos d, written w pos = false -> TS.look w pos d = d.
Proof.
  induction w as [|pc w IH]; intros pos d H; [reflexivity|].
  unfold written in H. cbn [existsb] in H. apply orb_false_iff in H as [H1 H2].
  unfold TS.look. cbn [fold_left]. rewrite H1. apply IH. exact H2.
Qed.
Lemma look_written_indep : forall w pos d d', written w pos = true -> TS.look w pos d = TS.look w pos d'.
Proof.
  induction w as [|pc w IH]; intros pos d d' H; [discriminate|].
  unfold written in H. cbn [existsb] in H. unfold TS.look. cbn [fold_left].
  destruct (FS.tpos_eqb (fst pc) pos) eqn:E.
  - reflexivity.
  - cbn [orb] in H. apply IH. exact H.
Qed.
Lemma written_rw : forall cells l c y x,
  written (TS.rw l c cells) (y, x) = (y =? l) && (c <=? x) && (x <? c + Z.of_nat (length cells)).
Proof.
  induction cells as [|x0 cells IH]; intros l c y x; cbn [TS.rw].
  - cbn. lia.
  - unfold written in *. cbn [existsb fst]. rewrite IH. unfold FS.tpos_eqb. cbn [fst snd length].
    rewrite Nat2Z.inj_succ. lia.
Qed.

Lemma cpw_ascii : forall c, 32 <= c <= 126 -> RD.cpw c = 1.
Proof.
  intros c H.
  assert (A : forallb (fun k => RD.cpw (32 + Z.of_nat k) =? 1) (seq 0 95) = true) by (vm_compute; reflexivity).
  rewrite forallb_forall in A. specialize (A (Z.to_nat (c - 32))).
  rewrite Z2Nat.id in A by lia. replace (32 + (c - 32)) with c in A by lia.
  apply Z.eqb_eq, A, in_seq. lia.
Qed.
Lemma uprintable_narrow : forall u, forallb uprintable u = true -> TS.narrow u.
Proof.
  intros u H c Hc. rewrite forallb_forall in H. specialize (H c Hc). unfold uprintable in H. lia.
Qed.
(* a width-1 code point is one tickit_utf8_put encodes and C07's decoder accepts; it is no control character *)
Lemma uprintable_cpok : forall c, uprintable c = true -> cpok c /\ 32 <= c /\ c <> 127.
Proof.
  intros c H. unfold uprintable in H.
  destruct (UB.cpw_ok_spec c ltac:(lia)) as (H1 & H2 & _).
  split; [exact (conj H1 H2)|]. unfold U8S.bad_cp in H2. lia.
Qed.
Lemma uprintable_all : forall u, forallb uprintable u = true ->
  Forall cpok u /\ forallb (fun b => negb (b =? 127)) u = true.
Proof.
  induction u as [|c u IH]; intros H; [split; [constructor|reflexivity]|].
  cbn [forallb] in H. apply andb_true_iff in H as [Hc Hu]. destruct (IH Hu) as [I1 I2].
  destruct (uprintable_cpok c Hc) as (C1 & C2 & C3).
  split; [constructor; assumption|]. cbn [forallb]. rewrite I2. destruct (c =? 127) eqn:E; [lia|reflexivity].
Qed.
(* width-1 includes printable ASCII *)
Lemma printable_uprintable : forall c, printable c = true -> uprintable c = true.
Proof. intros c H. unfold printable in H. unfold uprintable. rewrite cpw_ascii by lia. reflexivity. Qed.

Lemma text_class : (forall c, printable c = true -> uprintable c = true) /\
  forallb uprintable [0xA0; 0xE9; 0xFF; 0x2500; 0x2502; 0x250C; 0x253C; 0x256C; 0x2592] = true /\
  forallb (fun c => negb (uprintable c)) [0x1F; 0x7F; 0x9F; 0x301; 0x4E2D; 0xFF21] = true.
Proof. split; [exact printable_uprintable|]. split; vm_compute; reflexivity. Qed.

(* ---- the simulation invariant: the driver's terminal object [t] (cached pen = converted logical pen
   [l]), the VT screen [v] (no margins, rendition = the abstract terminal's pen [pn]) *)
Definition SimInv (colon rgb8 : bool) (v : vt) (t : term) (l : pen) (pn : RD.pen) : Prop :=
  vt_ok v /\ cap_colon (x_caps (t_drv t)) = colon /\ cap_rgb8 (x_caps (t_drv t)) = rgb8 /\
  PenInv 256 colon rgb8 l (t_pen t) v /\ v_sgr v = rend colon rgb8 pn.

(* the cursor paint tracks against the VT's: after a print or an erase up to the right edge the VT's
   cursor stays on the last column (pending wrap, or clamped) where the abstract one stands beyond it *)
Definition cur_rel (v : vt) (cur : option FS.tpos) : Prop :=
  match cur with
  | None => True
  | Some (l, c) => row v = l /\ ((c < v_cols v /\ col v = c /\ pend v = false) \/ (c = v_cols v /\ col v = v_cols v - 1))
  end.

(* the cells: written ones relate to what paint wrote last, the others are untouched *)
Definition cells_rel (colon rgb8 : bool) (w : TS.writes) (v v' : vt) : Prop :=
  forall y x, 0 <= y < v_lines v -> 0 <= x < v_cols v ->
    if written w (y, x) then wrel colon rgb8 (v_grid v' y x) (TS.look w (y, x) FS.dtc)
    else v_grid v' y x = v_grid v y x.

Lemma PenInv_sgr : forall colors colon rgb8 l tp v v', v_sgr v' = v_sgr v ->
  PenInv colors colon rgb8 l tp v -> PenInv colors colon rgb8 l tp v'.
Proof. intros colors colon rgb8 l tp v v' E (H1 & H2 & H3). unfold PenInv. rewrite E. auto. Qed.

(* attributes are determined by their eleven components *)
Lemma attrs_ext : forall s s', (forall a, vt_attr s a = vt_attr s' a) -> a_faint s = a_faint s' -> s = s'.
Proof.
  intros s s' H Hf.
  pose proof (H AFg) as H1. pose proof (H ABg) as H2. pose proof (H ABold) as H3. pose proof (H AUnder) as H4.
  pose proof (H AItalic) as H5. pose proof (H AReverse) as H6. pose proof (H AStrike) as H7.
  pose proof (H AAltfont) as H8. pose proof (H ABlink) as H9. pose proof (H ASizepos) as H10.
  destruct s as [a1 a2 a3 a4 a5 a6 a7 a8 a9 a10 a11], s' as [b1 b2 b3 b4 b5 b6 b7 b8 b9 b10 b11].
  cbn [vt_attr a_fg a_bg a_bold a_faint a_under a_italic a_reverse a_strike a_font a_blink a_sizepos] in *.
  inversion H1; inversion H2; inversion H3; inversion H4; inversion H5; inversion H6; inversion H7;
    inversion H8; inversion H9; inversion H10; subst. reflexivity.
Qed.

Lemma rbpen_ok_in_range : forall p, rbpen_okb p = true -> pen_in_range (pen_of_rb p).
Proof.
  intros p H a v Ha. unfold rbpen_okb, pen_in_rangeb in H. rewrite forallb_forall in H.
  assert (Hin : In a all_attrs) by (destruct a; cbn; tauto).
  specialize (H a Hin). rewrite Ha in H.
  unfold aval_in_rangeb in H. unfold aval_in_range.
  destruct a; cbn [attr_type] in *; destruct v as [b|n|i [c|]]; try discriminate H; try exact I; lia.
Qed.

Lemma conv_in_range : forall a v, aval_in_range a v -> conv_val 256 v = v.
Proof.
  intros a v H. destruct v as [b|n|i sec]; try reflexivity. cbn [conv_val].
  unfold aval_in_range in H. destruct (attr_type a); try contradiction.
  destruct (256 <=? i) eqn:E; [lia|reflexivity].
Qed.

Lemma enc_attr : forall colon rgb8 g a, aval_in_range a (g a) ->
  vt_attr (attrs_of (fun a => enc colon rgb8 a (g a))) a = enc colon rgb8 a (g a).
Proof.
  intros colon rgb8 g a H. unfold aval_in_range in H.
  destruct a; cbn [attr_type] in H;
    cbn [vt_attr attrs_of a_fg a_bg a_bold a_under a_italic a_reverse a_strike a_font a_blink a_sizepos];
    match goal with |- context [g ?A] => destruct (g A) as [b|n|i [c|]] end; try contradiction;
    cbn [enc vt_attr default_attrs a_fg a_bg
      a_bold a_under a_italic a_reverse a_strike a_font a_blink a_sizepos xc xb xi];
    repeat match goal with |- context [if ?c then _ else _] => destruct c end; reflexivity.
Qed.

Lemma default_in_range : forall a, aval_in_range a (default_val a).
Proof. intros a. destruct a; cbn; unfold COLOUR_DEFAULT; try exact I; try lia; (split; [lia|exact I]). Qed.

Lemma rval_in_range : forall p a, rbpen_okb p = true -> aval_in_range a (rval p a).
Proof.
  intros p a Hok. pose proof (rbpen_ok_in_range p Hok a) as Hr. unfold pen_of_rb in Hr.
  unfold rval, RD.preads. destruct (RD.pget p (pattr_of a)) as [x|]; cbn [option_map] in Hr.
  - apply Hr. reflexivity.
  - rewrite <- default_cv. apply default_in_range.
Qed.

(* after set-pen of a render-buffer pen the rendition is the pen's *)
Lemma setpen_rend : forall colon rgb8 l tp' s (p : RD.pen), rbpen_okb p = true ->
  sgr_matches colon rgb8 tp' s ->
  (forall a, tp' a = cache_of 256 (logical_set l (pen_of_rb p)) a) ->
  s = rend colon rgb8 p.
Proof.
  intros colon rgb8 l tp' s p Hok [Hm Hf] Htp.
  apply attrs_ext; [|rewrite Hf; reflexivity].
  intros a. rewrite Hm, Htp. unfold rend. rewrite enc_attr by (apply rval_in_range; exact Hok).
  unfold cache_of, logical_set. cbn [option_map]. f_equal.
  pose proof (rval_in_range p a Hok) as Hr. unfold rval, RD.preads, pen_of_rb in *.
  destruct (RD.pget p (pattr_of a)) as [x|]; cbn [option_map] in *.
  - apply (conv_in_range a). exact Hr.
  - rewrite default_cv. apply (conv_in_range a). exact Hr.
Qed.
Lemma rend_canon : forall colon rgb8 p, rend colon rgb8 (FD.canon_pen p) = rend colon rgb8 p.
Proof. intros colon rgb8 p. reflexivity. Qed.

(* the driver's reverse-video flag is the screen's *)
Lemma PenInv_rv : forall colon rgb8 l tp v, PenInv 256 colon rgb8 l tp v ->
  get_bool_attr tp AReverse = a_reverse (v_sgr v).
Proof.
  intros colon rgb8 l tp v (H1 & H2 & (H3 & _)). specialize (H3 AReverse). cbn [vt_attr] in H3.
  unfold get_bool_attr. rewrite H2 in *. unfold cache_of in *.
  destruct (l AReverse) as [x|] eqn:E; cbn [option_map] in *.
  - specialize (H1 AReverse x E). unfold aval_in_range in H1. cbn [attr_type] in H1.
    destruct x as [b|k|i sec]; try contradiction. cbn [conv_val enc] in *. congruence.
  - cbn in H3. congruence.
Qed.

(* ---- the four operations *)
Lemma vt_ok_parts : forall v, vt_ok v -> mg_full v /\ md_awm (v_md v) = true /\ 0 < v_lines v /\ 0 < v_cols v /\
  0 <= row v < v_lines v /\ 0 <= col v < v_cols v.
Proof.
  intros v H. pose proof (full_margins_of_ok v H) as Hm.
  destruct (vt_ok_inv v H) as (HL & HC & _ & _ & _ & _ & Hawm & Hr & Hc). repeat split; assumption || lia.
Qed.

(* the tokens of goto, set-pen and ECH/CUF contain no graphic bytes: the UTF-8 front end passes them *)
Lemma goto_nochar : forall l c, nocharb (xt_goto_abs l c) = true.
Proof.
  intros l c. unfold xt_goto_abs.
  repeat match goal with |- context [if ?c then _ else _] => destruct c end; reflexivity.
Qed.
Lemma move_rel_nochar : forall d r, nocharb (xt_move_rel d r) = true.
Proof.
  intros d r. unfold xt_move_rel.
  repeat match goal with |- context [if ?c then _ else _] => destruct c end; reflexivity.
Qed.
Lemma xterm_chpen_nochar : forall cap colon rgb8 d f ts, xterm_chpen cap colon rgb8 d f = Some ts -> nocharb ts = true.
Proof.
  intros cap colon rgb8 d f ts H. unfold xterm_chpen in H.
  destruct (cap <? _); [discriminate H|]. destruct (chpen_params colon rgb8 d); [inversion H; reflexivity|].
  destruct (negb (is_nondefault f)); inversion H; reflexivity.
Qed.
Local Strategy opaque [term_setpen xterm_chpen chpen_params].
Lemma setpen_nochar : forall t p t' ts r, api_step t (ASetpen p) = Some (t', ts, r) -> nocharb ts = true.
Proof.
  intros t p t' ts r H. cbn [api_step] in H. unfold do_setpen in H.
  destruct (term_setpen _ _ _) as [[tp' d]|]; [|discriminate H].
  destruct (xterm_chpen _ _ _ _ _) as [ts0|] eqn:X; [|discriminate H].
  inversion H; subst. apply (xterm_chpen_nochar _ _ _ _ _ _ X).
Qed.
Lemma cpok_space : cpok 32.
Proof. split; [unfold UB.cp_ok; lia|reflexivity]. Qed.
Lemma utf8_spaces : forall k rest, utf8_toks (chars (repeat 32 k) ++ rest) = chars (repeat 32 k) ++ utf8_toks rest.
Proof.
  intros k rest.
  assert (E : UB.enc (repeat 32 k) = repeat 32 k).
  { apply enc_ascii. apply Forall_forall. intros c Hc. apply repeat_spec in Hc. lia. }
  rewrite <- E at 1. apply utf8_print. apply Forall_forall. intros c Hc. apply repeat_spec in Hc. subst c. exact cpok_space.
Qed.

Lemma sim_goto : forall colon rgb8 v t l pn lg cg, SimInv colon rgb8 v t l pn ->
  0 <= lg < v_lines v -> 0 <= cg < v_cols v ->
  exists toks, api_step t (AGoto lg cg) = Some (t, toks, Some 1) /\
    SimInv colon rgb8 (vt_run toks v) t l pn /\ cur_rel (vt_run toks v) (Some (lg, cg)) /\
    v_lines (vt_run toks v) = v_lines v /\ v_cols (vt_run toks v) = v_cols v /\
    (forall y x, v_grid (vt_run toks v) y x = v_grid v y x) /\
    (forall rest, utf8_toks (toks ++ rest) = toks ++ utf8_toks rest).
Proof.
  intros colon rgb8 v t l pn lg cg (Hok & Hc1 & Hc2 & Hpi & Hsgr) Hl Hc.
  exists (xt_goto_abs lg cg). split; [reflexivity|].
  rewrite goto_abs_pos by assumption.
  destruct (vt_ok_parts v Hok) as (Hm & Hawm & HL & HC & Hr0 & Hc0).
  split.
  - unfold SimInv. split.
    + apply vt_ok_intro; vt_unfold; try assumption; lia.
    + split; [exact Hc1|]. split; [exact Hc2|]. split; [apply (PenInv_sgr _ _ _ _ _ v); [reflexivity|exact Hpi]|].
      exact Hsgr.
  - split; [cbn [cur_rel]; vt_unfold; split; [reflexivity|left; repeat split; lia]|].
    split; [reflexivity|]. split; [reflexivity|]. split; [intros y x; reflexivity|].
    intros rest. apply utf8_nochar, goto_nochar.
Qed.

Lemma sim_setpen : forall colon rgb8 v t l pn (p : RD.pen), SimInv colon rgb8 v t l pn -> rbpen_okb p = true ->
  exists t' toks l', api_step t (ASetpen (pen_of_rb p)) = Some (t', toks, None) /\
    SimInv colon rgb8 (vt_run toks v) t' l' (FD.canon_pen p) /\
    v_cur (vt_run toks v) = v_cur v /\ v_lines (vt_run toks v) = v_lines v /\ v_cols (vt_run toks v) = v_cols v /\
    (forall y x, v_grid (vt_run toks v) y x = v_grid v y x) /\
    (forall rest, utf8_toks (toks ++ rest) = toks ++ utf8_toks rest).
Proof.
  intros colon rgb8 v t l pn p (Hok & Hc1 & Hc2 & Hpi & Hsgr) Hp.
  pose proof (rbpen_ok_in_range p Hp) as Hpr.
  rewrite <- Hc1, <- Hc2 in Hpi.
  destruct (api_pen_ok_step true l t v (pen_of_rb p) Hpi Hpr) as (t' & ts & Hstep & Hdrv & Hinv' & Hset & _).
  cbn iota in Hstep, Hinv'. exists t', ts, (logical_set l (pen_of_rb p)).
  split; [exact Hstep|].
  destruct Hinv' as (L1 & L2 & L3).
  assert (Hs' : v_sgr (vt_run ts v) = rend colon rgb8 (FD.canon_pen p)).
  { rewrite rend_canon. rewrite Hc1, Hc2 in L3. apply (setpen_rend colon rgb8 l (t_pen t') _ p Hp L3 L2). }
  destruct (vt_ok_parts v Hok) as (Hm & Hawm & HL & HC & Hr0 & Hc0).
  split.
  - unfold SimInv. rewrite Hdrv. split.
    + rewrite Hset. apply vt_ok_intro; vt_unfold; assumption.
    + split; [exact Hc1|]. split; [exact Hc2|]. split; [rewrite <- Hc1, <- Hc2; exact (conj L1 (conj L2 L3))|].
      exact Hs'.
  - rewrite Hset. split; [reflexivity|]. split; [reflexivity|]. split; [reflexivity|].
    split; [intros y x; reflexivity|]. intros rest. apply utf8_nochar, (setpen_nochar _ _ _ _ _ Hstep).
Qed.

Lemma cur_after_print : forall cols c n cv (pv : bool), 0 <= c -> 0 < n -> c + n <= cols ->
  (if c + n <? cols then cv = c + n /\ pv = false else cv = cols - 1 /\ pv = true) ->
  0 <= cv < cols /\ ((c + n < cols /\ cv = c + n /\ pv = false) \/ (c + n = cols /\ cv = cols - 1)).
Proof.
  intros cols c n cv pv H0 Hn Hf H. destruct (c + n <? cols) eqn:E; destruct H as [H1 H2].
  - split; [lia|]. left. split; [lia|]. split; [lia|exact H2].
  - split; [lia|]. right. split; lia.
Qed.

(* a non-empty run of printable characters that fits on the line, on the VT *)
Lemma print_vt : forall colon rgb8 v t l pn (u : list Z) lc c, SimInv colon rgb8 v t l pn ->
  cur_rel v (Some (lc, c)) -> forallb (fun b => negb (b =? 127)) u = true -> 0 <= c -> (0 < length u)%nat ->
  c + Z.of_nat (length u) <= v_cols v ->
  SimInv colon rgb8 (vt_run (chars u) v) t l pn /\
  cur_rel (vt_run (chars u) v) (Some (lc, c + Z.of_nat (length u))) /\
  v_lines (vt_run (chars u) v) = v_lines v /\ v_cols (vt_run (chars u) v) = v_cols v /\
  forall y x, v_grid (vt_run (chars u) v) y x =
              if (y =? lc) && (c <=? x) && (x <? c + Z.of_nat (length u))
              then mkCell (nth (Z.to_nat (x - c)) u 0) (v_sgr v) else v_grid v y x.
Proof.
  intros colon rgb8 v t l pn u lc c Hsim Hcur Hpr Hc0 Hne Hfit.
  destruct u as [|b u']; [cbn in Hne; lia|].
  set (u := b :: u') in *.
  assert (Hlen : 0 < Z.of_nat (length u)) by lia.
  destruct Hsim as (Hok & Hc1 & Hc2 & Hpi & Hsgr).
  destruct (vt_ok_parts v Hok) as (Hm & Hawm & HL & HC & Hr0 & Hcc0).
  assert (Hmk : forall v2, v_sgr v2 = v_sgr v -> vt_ok v2 -> SimInv colon rgb8 v2 t l pn).
  { intros v2 E5 Hok2. unfold SimInv. split; [exact Hok2|]. split; [exact Hc1|]. split; [exact Hc2|].
    split; [apply (PenInv_sgr _ _ _ _ _ v); [exact E5|exact Hpi]|]. rewrite E5; exact Hsgr. }
  clear Hpi Hsgr Hc1 Hc2.
  cbn [cur_rel] in Hcur. destruct Hcur as (Hrow & [(Hlt & Hcol & Hpend) | (Hge & _)]); [|lia].
  destruct (chars_run_g u v Hm Hawm Hpr (or_introl Hpend) ltac:(lia) ltac:(lia)) as (Gf & Grow & Gcur & Gg).
  set (v' := vt_run (chars u) v) in *. clearbody v'.
  destruct Gf as (F1 & F2 & F3 & F4 & F5).
  unfold u in Gcur. fold u in Gcur. clearbody u.
  set (n := Z.of_nat (length u)) in *.
  assert (Hgg := Gg). assert (Hgg2 := Gg). clear Gg. clearbody n.
  assert (Hc' := cur_after_print (v_cols v) c n (col v') (pend v') Hc0 Hlen Hfit ltac:(rewrite <- Hcol; exact Gcur)).
  destruct Hc' as (Hcin & Hcrel).
  split.
  + apply Hmk; [exact F4|]. clear Hmk Hgg.
    apply vt_ok_intro; rewrite ?F1, ?F2, ?F3, ?F5, ?Grow; try assumption; try lia.
  + clear Hmk Hgg. split; [cbn [cur_rel]; rewrite F2; split; [lia|exact Hcrel]|].
    split; [exact F1|]. split; [exact F2|].
    intros y x. rewrite Hgg2, Hrow, Hcol. reflexivity.
Qed.

Lemma enc_nonempty : forall c u, (0 < length (UB.enc (c :: u)))%nat.
Proof.
  intros c u. unfold UB.enc. cbn [flat_map]. rewrite app_length. unfold Tickit.Utf8Defs.put_bytes.
  destruct (Tickit.Utf8Defs.put_tail _ _ _). cbn [length]. lia.
Qed.

(* printn of the UTF-8 bytes of [u]: the front end delivers the code points [u], one cell each *)
Lemma sim_print : forall colon rgb8 v t l pn (u : list Z) lc c, SimInv colon rgb8 v t l pn ->
  cur_rel v (Some (lc, c)) -> forallb uprintable u = true -> 0 <= c -> c + Z.of_nat (length u) <= v_cols v ->
  exists toks, api_step t (APrintn (UB.enc u) (Z.of_nat (length (UB.enc u)))) = Some (t, toks, None) /\
    (forall rest, utf8_toks (toks ++ rest) = chars u ++ utf8_toks rest) /\
    SimInv colon rgb8 (vt_run (chars u) v) t l pn /\ cur_rel (vt_run (chars u) v) (Some (lc, c + Z.of_nat (length u))) /\
    v_lines (vt_run (chars u) v) = v_lines v /\ v_cols (vt_run (chars u) v) = v_cols v /\
    forall y x, v_grid (vt_run (chars u) v) y x =
                if (y =? lc) && (c <=? x) && (x <? c + Z.of_nat (length u))
                then mkCell (nth (Z.to_nat (x - c)) u 0) (v_sgr v) else v_grid v y x.
Proof.
  intros colon rgb8 v t l pn u lc c Hsim Hcur Hpr Hc0 Hfit.
  destruct (uprintable_all u Hpr) as [Hcp Hnd].
  destruct u as [|c0 u'].
  - (* nothing: the repaired printn returns at once *)
    exists []. split; [reflexivity|]. split; [intros rest; reflexivity|].
    cbn [chars map]. rewrite vt_run_nil. cbn [length Z.of_nat]. rewrite Z.add_0_r.
    split; [exact Hsim|]. split; [exact Hcur|]. split; [reflexivity|]. split; [reflexivity|].
    intros y x. destruct ((y =? lc) && (c <=? x) && (x <? c)) eqn:E; [lia|reflexivity].
  - set (u := c0 :: u') in *. exists (chars (UB.enc u)). split.
    { pose proof (enc_nonempty c0 u') as Hne. fold u in Hne.
      cbn [api_step]. destruct (Z.of_nat (length (UB.enc u)) =? 0) eqn:E0; [lia|].
      unfold drv_print, write_str_bytes. rewrite E0.
      destruct ((0 <? Z.of_nat (length (UB.enc u))) && (Z.of_nat (length (UB.enc u)) <=? Z.of_nat (length (UB.enc u)))) eqn:E1; [|lia].
      rewrite Nat2Z.id, firstn_all. reflexivity. }
    split; [intros rest; apply utf8_print; exact Hcp|].
    apply (print_vt colon rgb8 v t l pn u lc c Hsim Hcur Hnd Hc0); [unfold u; cbn [length]; lia|exact Hfit].
Qed.

Lemma run_ech_n : forall v n, 1 <= n -> vt_run (if n =? 1 then [csi_0 88] else [csi_n n 88]) v = vt_ech v n.
Proof.
  intros v n Hn. destruct (n =? 1) eqn:A.
  - rewrite run_ech0. f_equal. lia.
  - rewrite run_ech. destruct (n =? 0) eqn:B; [lia|reflexivity].
Qed.

Lemma ech_nochar : forall n (mv : bool),
  nocharb ((if n =? 1 then [csi_0 88] else [csi_n n 88]) ++
           match (if mv then MYes else MMaybe) with MYes => xt_move_rel 0 n | _ => [] end) = true.
Proof.
  intros n mv. unfold nocharb. rewrite forallb_app. destruct mv.
  - fold (nocharb (xt_move_rel 0 n)). rewrite move_rel_nochar. destruct (n =? 1); reflexivity.
  - destruct (n =? 1); reflexivity.
Qed.

Lemma forallb_notdel_spaces : forall k, forallb (fun b => negb (b =? 127)) (repeat 32 k) = true.
Proof. induction k as [|k IH]; [reflexivity|]. cbn [repeat forallb]. rewrite IH. reflexivity. Qed.

(* erasech: ECH (+ CUF) when the rendition is not in reverse video -- blanks that keep only the background --
   and otherwise spaces in the full rendition.  The flush asks for moveend = YES or MAYBE only, never NO,
   so the move back of the spaces strategy -- and with it the recorded right-edge class -- is not used. *)
Lemma sim_erase : forall colon rgb8 v t l pn n (mv : bool) lc c, SimInv colon rgb8 v t l pn ->
  cur_rel v (Some (lc, c)) -> 0 <= n -> 0 <= c -> c + n <= v_cols v ->
  exists toks, api_step t (AErasech n (if mv then MYes else MMaybe)) = Some (t, toks, None) /\
    SimInv colon rgb8 (vt_run toks v) t l pn /\
    cur_rel (vt_run toks v) (if mv then Some (lc, c + n) else None) /\
    v_lines (vt_run toks v) = v_lines v /\ v_cols (vt_run toks v) = v_cols v /\
    (forall y x, v_grid (vt_run toks v) y x =
                if (y =? lc) && (c <=? x) && (x <? c + n)
                then (if a_reverse (v_sgr v) then mkCell 32 (v_sgr v) else blank v) else v_grid v y x) /\
    (forall rest, utf8_toks (toks ++ rest) = toks ++ utf8_toks rest).
Proof.
  intros colon rgb8 v t l pn n mv lc c Hsim Hcur Hn Hc0 Hfit.
  destruct (Hsim) as (Hok & Hc1 & Hc2 & Hpi & Hsgr).
  pose proof (PenInv_rv _ _ _ _ _ Hpi) as Hrv.
  destruct (vt_ok_parts v Hok) as (Hm & Hawm & HL & HC & Hr0 & Hcc0).
  exists (xt_erasech (a_reverse (v_sgr v)) n (if mv then MYes else MMaybe)).
  split; [cbn [api_step]; rewrite Hrv; reflexivity|].
  unfold xt_erasech. destruct (n <? 1) eqn:En.
  - (* count 0: nothing *)
    assert (n = 0) by lia. subst n. rewrite vt_run_nil, Z.add_0_r.
    split; [exact Hsim|]. split; [destruct mv; [exact Hcur|exact I]|]. split; [reflexivity|]. split; [reflexivity|].
    split; [|intros rest; reflexivity].
    intros y x. destruct ((y =? lc) && (c <=? x) && (x <? c)) eqn:E; [lia|reflexivity].
  - destruct (a_reverse (v_sgr v)) eqn:Erv; cbn [negb].
    + (* reverse video: spaces *)
      rewrite spaces_chunks_eq by lia.
      replace (match (if mv then MYes else MMaybe) with MNo => xt_move_rel 0 (- n) | _ => [] end) with (@nil token)
        by (destruct mv; reflexivity).
      rewrite app_nil_r.
      destruct (print_vt colon rgb8 v t l pn (repeat 32 (Z.to_nat n)) lc c Hsim Hcur
                  (forallb_notdel_spaces _) Hc0) as (S1 & S2 & S3 & S4 & S5);
        try (rewrite repeat_length; lia).
      rewrite repeat_length, Z2Nat.id in * by lia.
      split; [exact S1|]. split; [destruct mv; [exact S2|exact I]|]. split; [exact S3|]. split; [exact S4|].
      split; [|intros rest; apply utf8_spaces].
      intros y x. rewrite S5. destruct ((y =? lc) && (c <=? x) && (x <? c + n)) eqn:Ein; [|reflexivity].
      rewrite (nth_repeat_lt _ 32) by lia. reflexivity.
    + cbn [cur_rel] in Hcur. destruct Hcur as (Hrow & [(Hlt & Hcol & Hpend) | (Hge & _)]); [|lia].
    pose proof (fun rest => utf8_nochar _ rest (ech_nochar n mv)) as Hu.
    rewrite vt_run_app, run_ech_n by lia.
    set (v1 := vt_ech v n).
    assert (Hg1 : forall y x, v_grid v1 y x = if (y =? lc) && (c <=? x) && (x <? c + n) then blank v else v_grid v y x).
    { intros y x. unfold v1, vt_ech. vt_unfold. unfold row, col in Hrow, Hcol. rewrite Hrow, Hcol. reflexivity. }
    assert (Hsim1 : forall v2, v_lines v2 = v_lines v -> v_cols v2 = v_cols v -> v_mg v2 = v_mg v -> v_md v2 = v_md v ->
              v_sgr v2 = v_sgr v -> 0 <= row v2 < v_lines v -> 0 <= col v2 < v_cols v -> SimInv colon rgb8 v2 t l pn).
    { intros v2 E1 E2 E3 E4 E5 R2 C2. unfold SimInv. split.
      - apply vt_ok_intro; rewrite ?E1, ?E2, ?E3, ?E4; assumption.
      - split; [exact Hc1|]. split; [exact Hc2|]. split; [apply (PenInv_sgr _ _ _ _ _ v); [exact E5|exact Hpi]|].
        rewrite E5; exact Hsgr. }
    clear Hpi Hsgr Hsim.
    destruct mv.
    * (* the cursor moves to the end of the erased range: CUF, which stops on the last column *)
      assert (Hmv : vt_run (xt_move_rel 0 n) v1 = set_cur v1 (mkCursor lc (Z.min (v_cols v - 1) (c + n)) false)).
      { rewrite move_rel_split. unfold move_v. cbn [Z.ltb Z.eqb Z.compare app]. unfold move_h.
        assert (Hcuf : forall k, k = n -> vt_cuf v1 k = set_cur v1 (mkCursor lc (Z.min (v_cols v - 1) (c + n)) false)).
        { intros k ->. unfold vt_cuf, goto_rc, v1, vt_ech. vt_unfold. rewrite Hm. cbn [mg_right full_margins].
          unfold row, col in Hrow, Hcol. rewrite Hrow, Hcol.
          destruct (c <=? v_cols v - 1) eqn:E; [reflexivity|lia]. }
        destruct (1 <? n) eqn:A1.
        - rewrite run_cuf. destruct (n =? 0) eqn:A0; [lia|]. apply Hcuf. reflexivity.
        - assert (n = 1) by lia. subst n. cbn [Z.eqb]. rewrite run_cuf0. apply Hcuf. reflexivity. }
      rewrite Hmv.
      split; [apply Hsim1; unfold v1, vt_ech; vt_unfold; try reflexivity; lia|].
      split.
      { cbn [cur_rel]. unfold v1, vt_ech. vt_unfold. split; [reflexivity|].
        destruct (Z.eq_dec (c + n) (v_cols v)) as [E|E]; [right; lia|left; repeat split; lia]. }
      split; [reflexivity|]. split; [reflexivity|]. split; [intros y x; exact (Hg1 y x)|]. exact Hu.
    * rewrite vt_run_nil.
      split; [apply Hsim1; unfold v1, vt_ech; vt_unfold; try reflexivity; assumption|].
      split; [exact I|]. split; [reflexivity|]. split; [reflexivity|]. split; [exact Hg1|]. exact Hu.
Qed.

(* the recorded finding C09-erasech-rv-right-edge (trigger class [api_excl] / [erase_trigger]: reverse video,
   moveend = NO, ending at the right edge) is excluded EXPLICITLY: no operation of a flush is in it, whatever the
   pen, because renderbuffer.c asks for moveend = YES or MAYBE only *)
Lemma flush_op_not_rv_edge : forall t v o, api_excl t v (api_of_termop o) = false.
Proof.
  intros t v o. unfold api_excl. destruct o as [lg cg|p|u|n mv]; cbn [api_of_termop req_of_api rv_edge_excl]; try reflexivity.
  unfold erase_trigger. destruct mv; rewrite !andb_false_r; reflexivity.
Qed.

(* ---- composing the cell relations of consecutive operations *)
Lemma cells_rel_nil : forall colon rgb8 v v', (forall y x, v_grid v' y x = v_grid v y x) -> cells_rel colon rgb8 [] v v'.
Proof. intros colon rgb8 v v' H y x _ _. cbn. apply H. Qed.

Lemma cells_rel_app : forall colon rgb8 wop w2 v v1 v2,
  v_lines v1 = v_lines v -> v_cols v1 = v_cols v ->
  cells_rel colon rgb8 wop v v1 -> cells_rel colon rgb8 w2 v1 v2 -> cells_rel colon rgb8 (wop ++ w2) v v2.
Proof.
  intros colon rgb8 wop w2 v v1 v2 E1 E2 H1 H2 y x Hy Hx.
  specialize (H1 y x Hy Hx). specialize (H2 y x ltac:(rewrite E1; exact Hy) ltac:(rewrite E2; exact Hx)).
  rewrite written_app, TS.look_app.
  destruct (written w2 (y, x)) eqn:W2.
  - rewrite orb_true_r. rewrite (look_written_indep w2 (y, x) _ FS.dtc W2). exact H2.
  - rewrite orb_false_r. rewrite (look_unwritten w2 (y, x) _ W2). rewrite H2.
    destruct (written wop (y, x)); exact H1.
Qed.

Lemma nth_map_map_narrow : forall (u : list Z) pn k d, (k < length u)%nat ->
  nth k (map (fun txt => FD.mkT txt pn) (map (fun ch => [ch]) u)) d = FD.mkT [nth k u 0] pn.
Proof.
  intros u pn k d Hk. rewrite map_map.
  rewrite (nth_indep _ d (FD.mkT [0] pn)) by (rewrite map_length; exact Hk).
  rewrite (map_nth (fun x => FD.mkT [x] pn) u 0). reflexivity.
Qed.

(* ---- the simulation: a list of operations on which paint succeeds.  [toks]: what the driver writes;
   [dtoks]: what the UTF-8 front end makes of it (utf8_toks toks = dtoks: take rest = []) *)
Theorem paint_on_vt : forall ops colon rgb8 v t l pn cur w cur' pen',
  SimInv colon rgb8 v t l pn -> cur_rel v cur ->
  Forall (fun o => termop_okb o = true) ops ->
  TS.paint (v_lines v) (v_cols v) cur pn ops = Some (w, cur', pen') ->
  exists t' toks dtoks l',
    api_run t (map api_of_termop ops) = Some (t', toks) /\
    (forall rest, utf8_toks (toks ++ rest) = dtoks ++ utf8_toks rest) /\
    SimInv colon rgb8 (vt_run dtoks v) t' l' pen' /\ cur_rel (vt_run dtoks v) cur' /\
    v_lines (vt_run dtoks v) = v_lines v /\ v_cols (vt_run dtoks v) = v_cols v /\
    cells_rel colon rgb8 w v (vt_run dtoks v).
Proof.
  induction ops as [|o ops IH]; intros colon rgb8 v t l pn cur w cur' pen' Hsim Hcur Hok P; cbn [TS.paint] in P.
  - inversion P; subst. exists t, [], [], l. cbn [map api_run]. rewrite vt_run_nil.
    split; [reflexivity|]. split; [intros rest; reflexivity|].
    split; [exact Hsim|]. split; [exact Hcur|]. split; [reflexivity|]. split; [reflexivity|].
    apply cells_rel_nil. reflexivity.
  - inversion Hok as [|o' ops' Ho Hops]; subst.
    destruct o as [lg cg|p|u|n mv]; cbn [map api_of_termop api_run].
    + (* goto *)
      destruct ((0 <=? lg) && (lg <? v_lines v) && (0 <=? cg) && (cg <? v_cols v)) eqn:Ein; [|discriminate P].
      destruct (sim_goto colon rgb8 v t l pn lg cg Hsim ltac:(lia) ltac:(lia))
        as (toks & Hstep & Hsim1 & Hcur1 & E1 & E2 & Hg & Hu).
      rewrite Hstep.
      rewrite <- E1, <- E2 in P.
      destruct (IH colon rgb8 _ t l pn _ w cur' pen' Hsim1 Hcur1 Hops P)
        as (t' & toks2 & dtoks2 & l' & Hrun & Hu2 & Hsim2 & Hcur2 & F1 & F2 & Hc2).
      rewrite Hrun. exists t', (toks ++ toks2), (toks ++ dtoks2), l'. rewrite vt_run_app.
      split; [reflexivity|]. split; [intros rest; rewrite <- !app_assoc, Hu, Hu2; reflexivity|].
      split; [exact Hsim2|]. split; [exact Hcur2|].
      split; [congruence|]. split; [congruence|].
      apply (cells_rel_app colon rgb8 [] w v (vt_run toks v) _ E1 E2); [apply cells_rel_nil; exact Hg|exact Hc2].
    + (* setpen *)
      cbn [termop_okb] in Ho.
      destruct (sim_setpen colon rgb8 v t l pn p Hsim Ho)
        as (t1 & toks & l1 & Hstep & Hsim1 & Ecur & E1 & E2 & Hg & Hu).
      rewrite Hstep.
      assert (Hcur1 : cur_rel (vt_run toks v) cur).
      { destruct cur as [[lc c]|]; [|exact I]. cbn [cur_rel] in *. unfold row, col, pend in *. rewrite Ecur, E2. exact Hcur. }
      rewrite <- E1, <- E2 in P.
      destruct (IH colon rgb8 _ t1 l1 _ _ w cur' pen' Hsim1 Hcur1 Hops P)
        as (t' & toks2 & dtoks2 & l' & Hrun & Hu2 & Hsim2 & Hcur2 & F1 & F2 & Hc2).
      rewrite Hrun. exists t', (toks ++ toks2), (toks ++ dtoks2), l'. rewrite vt_run_app.
      split; [reflexivity|]. split; [intros rest; rewrite <- !app_assoc, Hu, Hu2; reflexivity|].
      split; [exact Hsim2|]. split; [exact Hcur2|].
      split; [congruence|]. split; [congruence|].
      apply (cells_rel_app colon rgb8 [] w v (vt_run toks v) _ E1 E2); [apply cells_rel_nil; exact Hg|exact Hc2].
    + (* print *)
      cbn [termop_okb] in Ho.
      destruct cur as [[lc c]|]; [|discriminate P].
      pose proof (uprintable_narrow u Ho) as Nu.
      destruct (RD.text_valid u && TS.starts_baseb u && (c + RD.text_width u <=? v_cols v)) eqn:Ec; [|discriminate P].
      assert (Hw : RD.text_width u = Z.of_nat (length u)).
      { rewrite Tickit.RBWidth.text_width_tw, (SH.tw_narrow u Nu). reflexivity. }
      rewrite Hw in *.
      destruct (TS.paint (v_lines v) (v_cols v) (Some (lc, c + Z.of_nat (length u))) pn ops) as [[[w2 e2] q2]|] eqn:P2; [|discriminate P].
      inversion P; subst w cur' pen'. clear P.
      assert (Hc0 : 0 <= c).
      { cbn [cur_rel] in Hcur. destruct Hsim as (Hokv & _). destruct (vt_ok_parts v Hokv) as (_ & _ & _ & _ & _ & Hcc).
        destruct Hcur as (_ & [(A & B & _)|(A & B)]); lia. }
      destruct (sim_print colon rgb8 v t l pn u lc c Hsim Hcur Ho Hc0 ltac:(lia))
        as (toks & Hstep & Hu & Hsim1 & Hcur1 & E1 & E2 & Hg).
      rewrite Hstep.
      rewrite <- E1, <- E2 in P2.
      destruct (IH colon rgb8 _ t l pn _ w2 e2 q2 Hsim1 Hcur1 Hops P2)
        as (t' & toks2 & dtoks2 & l' & Hrun & Hu2 & Hsim2 & Hcur2 & F1 & F2 & Hc2).
      rewrite Hrun. exists t', (toks ++ toks2), (chars u ++ dtoks2), l'. rewrite vt_run_app.
      split; [reflexivity|]. split; [intros rest; rewrite <- !app_assoc, Hu, Hu2; reflexivity|].
      split; [exact Hsim2|]. split; [exact Hcur2|].
      split; [congruence|]. split; [congruence|].
      apply (cells_rel_app colon rgb8 _ w2 v (vt_run (chars u) v) _ E1 E2); [|exact Hc2].
      intros y x Hy Hx. rewrite (SH.lay_narrow u Nu). rewrite written_rw, !map_length, Hg.
      destruct ((y =? lc) && (c <=? x) && (x <? c + Z.of_nat (length u))) eqn:Ein; [|reflexivity].
      rewrite TS.look_rw. unfold Tickit.RBAbsLemmas.zlen. rewrite !map_length, Ein.
      rewrite nth_map_map_narrow by lia.
      exists (nth (Z.to_nat (x - c)) u 0). cbn [FD.t_text FD.t_pen c_glyph c_attrs].
      split; [reflexivity|]. split; [reflexivity|]. left. destruct Hsim as (_ & _ & _ & _ & Hsgr). exact Hsgr.
    + (* erase *)
      destruct cur as [[lc c]|]; [|discriminate P].
      destruct ((0 <=? n) && (c + n <=? v_cols v)) eqn:Ec; [|discriminate P].
      destruct (TS.paint (v_lines v) (v_cols v) (if mv then Some (lc, c + n) else None) pn ops) as [[[w2 e2] q2]|] eqn:P2; [|discriminate P].
      inversion P; subst w cur' pen'. clear P.
      assert (Hc0 : 0 <= c).
      { cbn [cur_rel] in Hcur. destruct Hsim as (Hokv & _). destruct (vt_ok_parts v Hokv) as (_ & _ & _ & _ & _ & Hcc).
        destruct Hcur as (_ & [(A & B & _)|(A & B)]); lia. }
      destruct (sim_erase colon rgb8 v t l pn n mv lc c Hsim Hcur ltac:(lia) Hc0 ltac:(lia))
        as (toks & Hstep & Hsim1 & Hcur1 & E1 & E2 & Hg & Hu).
      rewrite Hstep.
      rewrite <- E1, <- E2 in P2.
      destruct (IH colon rgb8 _ t l pn _ w2 e2 q2 Hsim1 Hcur1 Hops P2)
        as (t' & toks2 & dtoks2 & l' & Hrun & Hu2 & Hsim2 & Hcur2 & F1 & F2 & Hc2).
      rewrite Hrun. exists t', (toks ++ toks2), (toks ++ dtoks2), l'. rewrite vt_run_app.
      split; [reflexivity|]. split; [intros rest; rewrite <- !app_assoc, Hu, Hu2; reflexivity|].
      split; [exact Hsim2|]. split; [exact Hcur2|].
      split; [congruence|]. split; [congruence|].
      apply (cells_rel_app colon rgb8 _ w2 v (vt_run toks v) _ E1 E2); [|exact Hc2].
      intros y x Hy Hx. rewrite written_rw, repeat_length, Hg. rewrite Z2Nat.id by lia.
      destruct ((y =? lc) && (c <=? x) && (x <? c + n)) eqn:Ein; [|reflexivity].
      rewrite TS.look_rw. unfold Tickit.RBAbsLemmas.zlen. rewrite repeat_length, Z2Nat.id by lia. rewrite Ein.
      rewrite (nth_repeat_lt _ (FD.mkT [32] pn)) by lia.
      destruct Hsim as (_ & _ & _ & _ & Hsgr).
      exists 32. cbn [FD.t_text FD.t_pen]. split; [reflexivity|].
      destruct (a_reverse (v_sgr v)) eqn:Erv.
      * split; [reflexivity|]. left. exact Hsgr.
      * split; [reflexivity|]. right. split; [reflexivity|].
        unfold blank, blank_cell, erased. cbn [c_attrs]. rewrite <- Hsgr.
        unfold visbg. cbn [a_reverse a_bg]. rewrite Erv. reflexivity.
Qed.

(* ---- the composition with C04, for every buffer a drawing program reaches *)
(* the abstract terminal that C04 is stated for, of the VT screen's size and with its pen *)
Definition abs_of (v : vt) (pn : RD.pen) (T : FD.term) : Prop :=
  TS.term_ok T /\ FD.t_lines T = v_lines v /\ FD.t_cols T = v_cols v /\ FD.t_cur T = pn.

Theorem flush_on_vt : forall L C prog s r colon rgb8 v0 t0 l0 pn0 T0,
  0 <= L -> 0 <= C -> Forall Tickit.RBFlushReach.op_ok prog ->
  Tickit.RBDefs.run (Tickit.RBDefs.rb_new L C) prog = RD.Ok (s, r) ->
  SimInv colon rgb8 v0 t0 l0 pn0 -> abs_of v0 pn0 T0 -> L <= v_lines v0 -> C <= v_cols v0 ->
  exists ops T1 w,
    FD.flush s = RD.Ok (ops, Tickit.RBDefs.reset s) /\
    (* the abstract terminal of C04: runs, and meets the buffer's expectation *)
    FD.t_run T0 ops = RD.Ok T1 /\
    FS.grid_meets (Tickit.RBSpec.ag (fst (Tickit.RBSpec.arun (Tickit.RBSpec.a_new L C) prog))) (FD.tg T0) (FD.tg T1) = true /\
    (* the same operations through term.c and the xterm driver onto the VT screen: *)
    (Forall (fun o => termop_okb o = true) ops ->
     exists t1 toks l1 pn1,
       api_run t0 (map api_of_termop ops) = Some (t1, toks) /\
       SimInv colon rgb8 (vt_run_utf8 toks v0) t1 l1 pn1 /\
       forall y x, 0 <= y < v_lines v0 -> 0 <= x < v_cols v0 ->
         if written w (y, x)
         then wrel colon rgb8 (v_grid (vt_run_utf8 toks v0) y x) (TS.tcellat T1 y x)
         else v_grid (vt_run_utf8 toks v0) y x = v_grid v0 y x /\ TS.tcellat T1 y x = TS.tcellat T0 y x).
Proof.
  intros L C prog s r colon rgb8 v0 t0 l0 pn0 T0 HL HC Ho E Hsim (HT & TL & TC & Tp) HLv HCv.
  destruct (Tickit.FlushPaint.flush_paint_reachable L C prog s r T0 HL HC Ho E HT ltac:(lia) ltac:(lia))
    as (ops & w & cur' & pn' & T1 & Ef & P & Et & Gl & Gm).
  exists ops, T1, w. split; [exact Ef|]. split; [exact Et|]. split; [exact Gm|].
  intros Hops. rewrite TL, TC, Tp in P.
  destruct (paint_on_vt ops colon rgb8 v0 t0 l0 pn0 None w cur' pn' Hsim I Hops P)
    as (t1 & toks & dtoks & l1 & Hrun & Hu & Hsim1 & _ & _ & _ & Hcells).
  assert (Hd : utf8_toks toks = dtoks).
  { specialize (Hu []). rewrite !app_nil_r in Hu. exact Hu. }
  exists t1, toks, l1, pn'. unfold vt_run_utf8. rewrite Hd. split; [exact Hrun|]. split; [exact Hsim1|].
  intros y x Hy Hx. specialize (Hcells y x Hy Hx). rewrite (Gl y x) by (rewrite ?TL, ?TC; assumption).
  destruct (written w (y, x)) eqn:W.
  - rewrite (look_written_indep w (y, x) _ FS.dtc W). exact Hcells.
  - split; [exact Hcells|]. apply look_unwritten. exact W.
Qed.

(* the hypotheses are satisfiable: the screen start() leaves, a fresh driver, the empty pen *)
Lemma sim_start : forall lines cols d, 0 < lines -> 0 < cols ->
  SimInv (cap_colon (x_caps d)) (cap_rgb8 (x_caps d)) (vt_run xt_start (vt_init lines cols))
         (mkTerm d true empty_pen lines cols) empty_pen RD.pen_empty.
Proof.
  intros lines cols d HL HC. destruct (start_state_ok lines cols d HL HC) as (Hok & (_ & _ & _ & Hr & Hm)).
  unfold SimInv. cbn [t_drv t_pen]. split; [exact Hok|]. split; [reflexivity|]. split; [reflexivity|].
  split.
  - unfold PenInv. split; [intros a x E; discriminate E|]. split; [intros a; reflexivity|exact Hm].
  - destruct Hm as (Hm1 & Hf). apply attrs_ext; [|rewrite Hf; reflexivity].
    intros a. rewrite Hm1. unfold rend. rewrite enc_attr by (apply (rval_in_range RD.pen_empty a); reflexivity).
    cbn [empty_pen]. destruct a; cbn; try reflexivity. destruct (cap_colon (x_caps d)); reflexivity.
Qed.

(* non-vacuity of the pen class: a reverse-video pen with an RGB foreground and a curly underline is covered;
   its rendition depends on the two capabilities as C10 says *)
Definition rv_rgb_pen : RD.pen :=
  RD.mkPen (Some (Tickit.PenSpec.VCol 3 (Some (Tickit.PenDefs.mkRgb 10 20 30)))) None None
           (Some (Tickit.PenSpec.VInt 3)) None (Some (Tickit.PenSpec.VBool true)) None None None None.
Lemma rv_pen_example :
  rbpen_okb rv_rgb_pen = true /\ a_reverse (rend true true rv_rgb_pen) = true /\
  a_fg (rend true true rv_rgb_pen) = CRgb 10 20 30 /\ a_fg (rend true false rv_rgb_pen) = CIdx 3 /\
  a_under (rend true true rv_rgb_pen) = 3 /\ a_under (rend false true rv_rgb_pen) = 1.
Proof. vm_compute. repeat split; reflexivity. Qed.
