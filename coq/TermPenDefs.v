(* TermPenDefs.v -- executable model of the pen path:
     src/pen.c      the accessors term.c and the driver use (has/get/set/copy/equiv/nondefault)
     src/term.c     convert_colour, tickit_term_setpen, tickit_term_chpen (delta against the
                    cached pen, palette down-conversion), tickit_termdrv_current_pen
     src/termdriver-xterm.c  chpen (SGR encoder with its params[] array)
   Definitions only; function by function after the C.

   A pen is a partial map from the ten attributes to values.  The C keeps a `valid` bit and
   a value per attribute, and for colours a second `valid` bit for the RGB8 secondary that
   is cleared by every store of the index and consulted only together with the index's
   bit; that is exactly [option (index, option rgb)].  Bit-field truncation is not
   modelled: values are assumed in the range of their fields (see [pen_in_range]). *)
From Coq Require Import ZArith List Bool Lia.
From Tickit Require Import Csi Gen_Palette Gen_SgrOnOff.
Import ListNotations.
Local Open Scope Z_scope.

(* TickitPenAttr, in the order of the enum (1..10): the loops run in this order *)
Inductive attr := AFg | ABg | ABold | AUnder | AItalic | AReverse | AStrike | AAltfont | ABlink | ASizepos.
Definition all_attrs : list attr :=
  [AFg; ABg; ABold; AUnder; AItalic; AReverse; AStrike; AAltfont; ABlink; ASizepos].
Definition attr_index (a : attr) : nat :=
  match a with
  | AFg => 1 | ABg => 2 | ABold => 3 | AUnder => 4 | AItalic => 5 | AReverse => 6
  | AStrike => 7 | AAltfont => 8 | ABlink => 9 | ASizepos => 10
  end%nat.
Definition attr_eqb (a b : attr) : bool := Nat.eqb (attr_index a) (attr_index b).

Inductive atype := TyBool | TyInt | TyColour.
(* tickit_penattr_type *)
Definition attr_type (a : attr) : atype :=
  match a with
  | AFg | ABg => TyColour
  | AAltfont | AUnder | ASizepos => TyInt
  | ABold | AItalic | AReverse | AStrike | ABlink => TyBool
  end.

Record rgb := mkRgb { rgb_r : Z; rgb_g : Z; rgb_b : Z }.
Inductive aval := VBool (b : bool) | VInt (n : Z) | VCol (idx : Z) (sec : option rgb).

Definition pen := attr -> option aval.
Definition empty_pen : pen := fun _ => None.
Definition pset (p : pen) (a : attr) (v : option aval) : pen :=
  fun b => if attr_eqb a b then v else p b.

(* ---- pen.c accessors *)
Definition has_attr (p : pen) (a : attr) : bool := match p a with Some _ => true | None => false end.

Definition get_bool_attr (p : pen) (a : attr) : bool :=
  match a, p a with
  | (ABold | AItalic | AReverse | AStrike | ABlink), Some (VBool b) => b
  | AUnder, Some (VInt n) => 0 <? n              (* back-compat *)
  | _, _ => false
  end.
Definition set_bool_attr (p : pen) (a : attr) (v : bool) : pen :=
  match a with
  | ABold | AItalic | AReverse | AStrike | ABlink => pset p a (Some (VBool v))
  | AUnder => pset p a (Some (VInt (if v then 1 else 0)))
  | _ => p
  end.
Definition get_int_attr (p : pen) (a : attr) : Z :=
  match a, p a with
  | (AUnder | AAltfont | ASizepos), Some (VInt n) => n
  | _, _ => 0
  end.
Definition set_int_attr (p : pen) (a : attr) (v : Z) : pen :=
  match a with
  | AUnder | AAltfont | ASizepos => pset p a (Some (VInt v))
  | _ => p
  end.
Definition COLOUR_DEFAULT : Z := -1.
Definition get_colour_attr (p : pen) (a : attr) : Z :=
  match p a with
  | None => COLOUR_DEFAULT
  | Some v => match a, v with
              | (AFg | ABg), VCol i _ => i
              | _, _ => 0
              end
  end.
Definition set_colour_attr (p : pen) (a : attr) (v : Z) : pen :=
  match a with
  | AFg | ABg => pset p a (Some (VCol v None))    (* also clears valid.*_rgb8 *)
  | _ => p
  end.
Definition has_colour_attr_rgb8 (p : pen) (a : attr) : bool :=
  match a, p a with
  | (AFg | ABg), Some (VCol _ (Some _)) => true
  | _, _ => false
  end.
Definition get_colour_attr_rgb8 (p : pen) (a : attr) : rgb :=
  match a, p a with
  | (AFg | ABg), Some (VCol _ (Some c)) => c
  | _, _ => mkRgb 0 0 0
  end.
Definition set_colour_attr_rgb8 (p : pen) (a : attr) (c : rgb) : pen :=
  match a, p a with
  | (AFg | ABg), Some (VCol i _) => pset p a (Some (VCol i (Some c)))
  | _, _ => p      (* only if the index is already set *)
  end.

Definition rgb_eqb (x y : rgb) : bool :=
  (rgb_r x =? rgb_r y) && (rgb_g x =? rgb_g y) && (rgb_b x =? rgb_b y).

(* tickit_pen_equiv_attr *)
Definition equiv_attr (a b : pen) (at_ : attr) : bool :=
  match attr_type at_ with
  | TyBool => Bool.eqb (get_bool_attr a at_) (get_bool_attr b at_)
  | TyInt => get_int_attr a at_ =? get_int_attr b at_
  | TyColour =>
      if negb (get_colour_attr a at_ =? get_colour_attr b at_) then false
      else if negb (has_colour_attr_rgb8 a at_) && negb (has_colour_attr_rgb8 b at_) then true
      else if negb (has_colour_attr_rgb8 a at_) || negb (has_colour_attr_rgb8 b at_) then false
      else rgb_eqb (get_colour_attr_rgb8 a at_) (get_colour_attr_rgb8 b at_)
  end.

(* tickit_pen_copy_attr *)
Definition copy_attr (dst src : pen) (a : attr) : pen :=
  match attr_type a with
  | TyBool => set_bool_attr dst a (get_bool_attr src a)
  | TyInt => set_int_attr dst a (get_int_attr src a)
  | TyColour =>
      let d1 := set_colour_attr dst a (get_colour_attr src a) in
      if has_colour_attr_rgb8 src a then set_colour_attr_rgb8 d1 a (get_colour_attr_rgb8 src a) else d1
  end.

(* tickit_pen_nondefault_attr, tickit_pen_is_nondefault *)
Definition nondefault_attr (p : pen) (a : attr) : bool :=
  if negb (has_attr p a) then false
  else match attr_type a with
       | TyBool => get_bool_attr p a
       | TyInt => 0 <? get_int_attr p a
       | TyColour => negb (get_colour_attr p a =? COLOUR_DEFAULT)
       end.
Definition is_nondefault (p : pen) : bool := existsb (nondefault_attr p) all_attrs.

(* ---- term.c *)
(* convert_colour: xterm256[index].as16 / .as8; an index outside the table is a Fault *)
Definition convert_colour (index colours : Z) : option Z :=
  if index <? 0 then None
  else match nth_error xterm256 (Z.to_nat index) with
       | Some (a16, a8) => Some (if 16 <=? colours then a16 else a8)
       | None => None
       end.

Definition is_colour_attr (a : attr) : bool := match a with AFg | ABg => true | _ => false end.

(* one iteration of the loop shared by tickit_term_setpen and tickit_term_chpen;
   [only_present] distinguishes chpen (skips attributes the argument lacks).
   State: the cached pen tt->pen and the delta being built; None = Fault. *)
Definition pen_step (colors : Z) (only_present : bool) (pen_ : pen)
           (st : option (pen * pen)) (a : attr) : option (pen * pen) :=
  match st with
  | None => None
  | Some (tp, delta) =>
      if only_present && negb (has_attr pen_ a) then st
      else
        let idx0 := get_colour_attr pen_ a in
        let convert := is_colour_attr a && (colors <=? idx0) && (0 <=? idx0) in
        if convert then
          match convert_colour idx0 colors with
          | None => None
          | Some index =>
              if has_attr tp a && ((get_colour_attr tp a =? index) && negb (has_colour_attr_rgb8 tp a))
              then st
              else Some (set_colour_attr tp a index, set_colour_attr delta a index)
          end
        else
          if has_attr tp a && equiv_attr tp pen_ a then st
          else Some (copy_attr tp pen_ a, copy_attr delta pen_ a)
  end.

(* returns the new cached pen and the delta handed to the driver (final = new cache) *)
Definition term_setpen (colors : Z) (tp : pen) (pen_ : pen) : option (pen * pen) :=
  fold_left (pen_step colors false pen_) all_attrs (Some (tp, empty_pen)).
Definition term_chpen (colors : Z) (tp : pen) (pen_ : pen) : option (pen * pen) :=
  fold_left (pen_step colors true pen_) all_attrs (Some (tp, empty_pen)).

(* ---- termdriver-xterm.c chpen *)
Definition sparam := (Z * bool)%type.      (* value, CSI_MORE_SUBPARAM *)
Definition onoff (a : attr) : Z * Z := nth (attr_index a) sgr_onoff (0, 0).

Definition attr_params (colon rgb8 : bool) (delta : pen) (a : attr) : list sparam :=
  let on := fst (onoff a) in let off := snd (onoff a) in
  match a with
  | AFg | ABg =>
      let val := get_colour_attr delta a in
      if val <? 0 then [(off, false)]
      else if rgb8 && has_colour_attr_rgb8 delta a then
        let c := get_colour_attr_rgb8 delta a in
        [(on + 8, true); (2, true); (rgb_r c, true); (rgb_g c, true); (rgb_b c, false)]
      else if val <? 8 then [(on + val, false)]
      else if val <? 16 then [(on + 60 + val - 8, false)]
      else [(on + 8, true); (5, true); (val, false)]
  | AUnder =>
      let val := get_int_attr delta a in
      if val =? 0 then [(off, false)]
      else if val =? 1 then [(on, false)]
      else if colon then [(on, true); (val, false)]
      else [((if val =? 2 then 21 else on), false)]
  | AAltfont =>
      let val := get_int_attr delta a in
      if (val <? 0) || (10 <=? val) then [(off, false)] else [(on + val, false)]
  | ASizepos =>
      let val := get_int_attr delta a in
      if val =? 0 then [(off, false)]
      else if val =? 2 then [(73, false)]
      else if val =? 3 then [(74, false)]
      else []
  | ABold | AItalic | AReverse | AStrike | ABlink =>
      [((if get_bool_attr delta a then on else off), false)]
  end.

Definition chpen_params (colon rgb8 : bool) (delta : pen) : list sparam :=
  flat_map (fun a => if has_attr delta a then attr_params colon rgb8 delta a else []) all_attrs.

(* the separators: ':' after a parameter flagged MORE when the terminal takes colons,
   ';' otherwise; as groups of sub-parameters *)
Fixpoint group_params (colon : bool) (ps : list sparam) (cur : list (option Z)) : list (list (option Z)) :=
  match ps with
  | [] => match cur with [] => [] | _ :: _ => [rev cur] end
  | (v, more) :: r =>
      if more && colon then group_params colon r (Some v :: cur)
      else rev (Some v :: cur) :: group_params colon r []
  end.

(* None = more parameters than the array holds (a write beyond params[]) *)
Definition xterm_chpen (capacity : Z) (colon rgb8 : bool) (delta final : pen) : option (list token) :=
  let ps := chpen_params colon rgb8 delta in
  if capacity <? Z.of_nat (length ps) then None
  else match ps with
       | [] => Some []
       | _ :: _ =>
           if negb (is_nondefault final) then Some [TCsi None [] [] 109]
           else Some [TCsi None (group_params colon ps []) [] 109]
       end.

(* ---- the two layers together: what tickit_term_setpen / chpen emit on an xterm *)
Record tpstate := mkTp { tp_pen : pen; tp_colors : Z }.
Definition do_setpen (capacity : Z) (colon rgb8 : bool) (s : tpstate) (p : pen) : option (tpstate * list token) :=
  match term_setpen (tp_colors s) (tp_pen s) p with
  | None => None
  | Some (tp', delta) =>
      match xterm_chpen capacity colon rgb8 delta tp' with
      | None => None
      | Some ts => Some (mkTp tp' (tp_colors s), ts)
      end
  end.
Definition do_chpen (capacity : Z) (colon rgb8 : bool) (s : tpstate) (p : pen) : option (tpstate * list token) :=
  match term_chpen (tp_colors s) (tp_pen s) p with
  | None => None
  | Some (tp', delta) =>
      match xterm_chpen capacity colon rgb8 delta tp' with
      | None => None
      | Some ts => Some (mkTp tp' (tp_colors s), ts)
      end
  end.

(* ---- values the bit-fields and the header admit (the quantifier's "values in range") *)
Definition aval_in_range (a : attr) (v : aval) : Prop :=
  match attr_type a, v with
  | TyBool, VBool _ => True
  | TyInt, VInt n =>
      match a with
      | AUnder => 0 <= n <= 3
      | AAltfont => -1 <= n <= 9
      | ASizepos => n = 0 \/ n = 2 \/ n = 3      (* SIZEPOS_SMALL has no SGR: not representable *)
      | _ => False
      end
  | TyColour, VCol i sec =>
      -1 <= i <= 255 /\
      match sec with
      | None => True
      | Some c => 0 <= rgb_r c <= 255 /\ 0 <= rgb_g c <= 255 /\ 0 <= rgb_b c <= 255
      end
  | _, _ => False
  end.
Definition pen_in_range (p : pen) : Prop := forall a v, p a = Some v -> aval_in_range a v.
