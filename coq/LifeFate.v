(* LifeFate.v -- exactly which windows tickit_window_destroy frees, and what it does to the others:
   the fate of every window is determined by the fate of its parent.  A window whose parent goes
   loses its creation reference and its parent pointer; if that was its last reference it goes too.
   Everything else keeps its reference count and its parent. *)
From Coq Require Import ZArith List Bool PArith FMapPositive Lia.
From Tickit Require Import LifeDefs LifeLemmas LifeChains LifeInv LifePure LifeWalks LifeRelink LifeRemove LifeClose
  LifeQueue LifeDestroy.
Import ListNotations.
Local Open Scope Z_scope.

(* [p] goes: it is one of the windows [Z] whose destruction is in progress, or it is freed *)
Definition gone (Z : list positive) (h h' : heap) (p : positive) : Prop :=
  In p Z \/ (findw h p <> None /\ findw h' p = None).

Definition fate (Z : list positive) (h h' : heap) : Prop :=
  forall x c, findw h x = Some c -> ~ In x Z ->
    match findw h' x with
    | None => exists p, w_parent c = Some p /\ gone Z h h' p /\ w_ref c = 1
    | Some c' =>
      (forall p, w_parent c = Some p -> gone Z h h' p ->
         w_ref c' = w_ref c - 1 /\ w_parent c' = None /\ w_ref c <> 1) /\
      ((forall p, w_parent c = Some p -> ~ gone Z h h' p) -> w_ref c' = w_ref c /\ w_parent c' = w_parent c)
    end.

(* two heaps that agree, outside [Z], on who is allocated and on reference counts and parents *)
Definition same_rp (Z : list positive) (h h0 : heap) : Prop :=
  forall x, ~ In x Z ->
    match findw h x, findw h0 x with
    | Some c, Some c0 => w_ref c = w_ref c0 /\ w_parent c = w_parent c0
    | None, None => True
    | _, _ => False
    end.

Lemma same_rp_sym : forall Z h h0, same_rp Z h h0 -> same_rp Z h0 h.
Proof.
  intros Z h h0 H x Hx. specialize (H x Hx). destruct (findw h x), (findw h0 x); auto.
  destruct H as [H1 H2]. split; congruence.
Qed.

Lemma same_rp_gone_l : forall Z h h0 h' p, same_rp Z h h0 -> gone Z h h' p -> gone Z h0 h' p.
Proof.
  intros Z h h0 h' p S [Hin|[Hl Hd]]; [left; exact Hin|].
  destruct (in_dec Pos.eq_dec p Z) as [Hz|Hz]; [left; exact Hz|]. right. split; auto.
  specialize (S p Hz). destruct (findw h p), (findw h0 p); try congruence; contradiction.
Qed.

Lemma same_rp_gone_r : forall Z h h' h'' p, same_rp Z h' h'' -> gone Z h h' p -> gone Z h h'' p.
Proof.
  intros Z h h' h'' p S [Hin|[Hl Hd]]; [left; exact Hin|].
  destruct (in_dec Pos.eq_dec p Z) as [Hz|Hz]; [left; exact Hz|]. right. split; auto.
  specialize (S p Hz). rewrite Hd in S. destruct (findw h'' p); [contradiction|reflexivity].
Qed.

(* the heap before may be replaced by one that agrees with it outside Z *)
Lemma fate_pre : forall Z h h0 h', fate Z h h' -> same_rp Z h h0 -> fate Z h0 h'.
Proof.
  intros Z h h0 h' F S x c0 Hf0 Hx. pose proof (S x Hx) as Sx. rewrite Hf0 in Sx.
  destruct (findw h x) as [c|] eqn:Hf; [|contradiction]. destruct Sx as [Er Ep].
  specialize (F x c Hf Hx). destruct (findw h' x) as [c'|].
  - destruct F as [F1 F2]. split.
    + intros p Hp Hg. rewrite <- Er. apply (F1 p); [congruence|]. eapply same_rp_gone_l; [apply same_rp_sym; exact S|exact Hg].
    + intros Hng. rewrite <- Er, <- Ep. apply F2. intros p Hp Hg. apply (Hng p); [congruence|].
      eapply same_rp_gone_l; eauto.
  - destruct F as [p [Hp [Hg Hr]]]. exists p. split; [congruence|]. split; [|congruence].
    eapply same_rp_gone_l; eauto.
Qed.

(* likewise the heap after *)
Lemma fate_post : forall Z h h' h'', fate Z h h' -> same_rp Z h' h'' -> fate Z h h''.
Proof.
  intros Z h h' h'' F S x c Hf Hx. specialize (F x c Hf Hx). pose proof (S x Hx) as Sx.
  destruct (findw h' x) as [c'|], (findw h'' x) as [c''|]; try contradiction.
  - destruct Sx as [Er Ep]. destruct F as [F1 F2]. split.
    + intros p Hp Hg. rewrite <- Er, <- Ep. apply (F1 p Hp). eapply same_rp_gone_r; [apply same_rp_sym; exact S|exact Hg].
    + intros Hng. rewrite <- Er, <- Ep. apply F2. intros p Hp Hg. apply (Hng p Hp). eapply same_rp_gone_r; eauto.
  - destruct F as [p [Hp [Hg Hr]]]. exists p. split; auto. split; auto. eapply same_rp_gone_r; eauto.
Qed.

(* nothing happens when nobody is a child of a window of Z *)
Lemma fate_nothing : forall Z h, (forall x c p, findw h x = Some c -> w_parent c = Some p -> ~ In p Z) -> fate Z h h.
Proof.
  intros Z h Hno x c Hf Hx. rewrite Hf. split.
  - intros p Hp [Hin|[Hl Hd]]; [exfalso; exact (Hno x c p Hf Hp Hin)|congruence].
  - auto.
Qed.

(* all that changes is the reference count of [w], by -1 *)
Definition only_ref (h h' : heap) (w : positive) : Prop :=
  forall x, match findw h x, findw h' x with
            | Some c, Some c' => w_parent c' = w_parent c /\ w_ref c' = (if Pos.eqb x w then w_ref c - 1 else w_ref c)
            | None, None => True
            | _, _ => False
            end.

Definition unref_fate (f : nat) : Prop := forall D h w c,
  hinv D h -> detached h D -> findw h w = Some c -> ~ In w D -> (w_parent c <> None -> ~ In root D) ->
  match unref fixed f w h with
  | Ok _ h' => (w_ref c = 1 -> fate [w] h h' /\ findw h' w = None) /\ (w_ref c <> 1 -> only_ref h h' w)
  | Fault _ _ => False
  | NoFuel => True
  end.

Definition destroy_fate (f : nat) : Prop := forall D h w cw,
  hinv (w :: D) h -> detached h D -> findw h w = Some cw -> ~ In w D -> (w_parent cw <> None -> ~ In root D) ->
  match destroy fixed f w h with
  | Ok _ h' => fate [w] h h'
  | Fault _ _ => False
  | NoFuel => True
  end.

Definition loop_fate (f : nat) : Prop := forall D h w,
  hinv (w :: D) h -> detached h (w :: D) -> ~ In w D -> unqueued h w ->
  match destroy_loop fixed f w h with
  | Ok _ h' => fate [w] h h'
  | Fault _ _ => False
  | NoFuel => True
  end.

Lemma not_in_single : forall (x w : positive), ~ In x [w] <-> x <> w.
Proof. intros x w. cbn. split; intro H; [intro E; apply H; left; auto|intros [E|[]]; apply H; auto]. Qed.

Lemma links_eq_same_rp : forall Z h h', links_eq h h' ->
  (forall x c c', ~ In x Z -> findw h x = Some c -> findw h' x = Some c' -> w_ref c' = w_ref c) -> same_rp Z h h'.
Proof.
  intros Z h h' L R x Hx. pose proof (le_wins h h' L x) as H.
  destruct (findw h x) as [c|] eqn:Hf, (findw h' x) as [c'|] eqn:Hf'; auto.
  destruct H as [Hp _]. split; [symmetry; eapply R; eauto|congruence].
Qed.

Lemma unref_fate_step : forall f, destroy_ok f -> destroy_fate f -> unref_fate (S f).
Proof.
  intros f Hdes Hfate D h w c HI Hdet Hw Hn Hrd.
  rewrite unref_S. unfold bind at 1. rewrite (getw_run h w c Hw).
  pose proof (hi_ref D h HI w c Hw Hn) as Href.
  assert (Hlt : (w_ref c <? 1) = false) by (apply Z.ltb_ge; lia). rewrite Hlt.
  unfold bind at 1. rewrite (setw_run h w c _ Hw).
  set (h1 := upd_cell h w (fun _ => set_ref c (w_ref c - 1))).
  assert (L : links_eq h h1).
  { apply links_eq_upd_cell. intros c0 Hc0. rewrite Hw in Hc0. inversion Hc0; subst c0. repeat split. }
  assert (Hw1 : findw h1 w = Some (set_ref c (w_ref c - 1))).
  { unfold h1. rewrite findw_upd_cell_same. rewrite Hw. reflexivity. }
  assert (Hoth : forall a, a <> w -> findw h1 a = findw h a).
  { intros a Ha. unfold h1. apply findw_upd_cell_other. congruence. }
  destruct (w_ref c - 1 =? 0) eqn:Ez.
  - apply Z.eqb_eq in Ez.
    assert (HI1 : hinv (w :: D) h1).
    { eapply hinv_links_eq; eauto.
      - eapply hinv_weaken; eauto. intros a Ha. right. exact Ha.
      - intros a c' Hf Hd. assert (Ha : a <> w) by (intro E; subst a; apply Hd; left; reflexivity).
        rewrite (Hoth a Ha) in Hf. apply (hi_ref D h HI a c' Hf). intro Hin. apply Hd. right. exact Hin. }
    pose proof (Hdes D h1 w _ HI1 (links_eq_detached h h1 D L Hdet) Hw1 Hn Hrd h1 eq_refl) as Hd.
    pose proof (Hfate D h1 w _ HI1 (links_eq_detached h h1 D L Hdet) Hw1 Hn Hrd) as Hf.
    destruct (destroy fixed f w h1) as [u h2| |]; [|contradiction|exact I].
    destruct Hd as [_ [_ [_ Hgone]]]. split; [|intro; lia].
    intros _. split; [|exact Hgone].
    eapply fate_pre; [exact Hf|]. intros x Hx. apply not_in_single in Hx. rewrite (Hoth x Hx).
    destruct (findw h x); auto.
  - apply Z.eqb_neq in Ez. cbn. split; [intro; lia|]. intros _ x.
    destruct (Pos.eq_dec x w) as [E|E].
    + subst x. rewrite Hw, Hw1. rewrite Pos.eqb_refl. cbn. auto.
    + rewrite (Hoth x E). apply Pos.eqb_neq in E. rewrite E. destruct (findw h x); auto.
Qed.

Lemma destroy_fate_step : forall f, loop_ok f -> loop_fate f -> destroy_fate (S f).
Proof.
  intros f Hloop Hlfate D h w cw HI Hdet Hw Hn Hrd.
  rewrite destroy_S_fixed.
  unfold bind at 1. unfold log_destroy.
  set (h1 := mkHeap (wins h) (reqs h) (rx h) (nextw h) (nextq h) (w :: dlog h) (uninit_seen h) (tr h)).
  assert (L1 : links_eq h h1) by apply links_eq_logs.
  assert (HI1 : hinv (w :: D) h1).
  { eapply hinv_links_eq; eauto. intros a c' Hf Hd. apply (hi_ref (w :: D) h HI a c' Hf Hd). }
  assert (Hw1 : findw h1 w = Some cw) by exact Hw.
  assert (Hdet1 : detached h1 D) by (eapply links_eq_detached; eauto).
  unfold bind at 1. rewrite (getw_run h1 w cw Hw1).
  assert (Hclose : match (if w_closed cw then ret tt else close fixed f w) h1 with
                   | Ok _ h2 => hinv (w :: D) h2 /\ wkeeps h1 h2 /\ shrinks h1 h2 /\ (w <> root -> unqueued h2 w) /\
                                (exists cw2, findw h2 w = Some cw2 /\ w_parent cw2 = None) /\ same_rp [w] h1 h2
                   | Fault _ _ => False
                   | NoFuel => True
                   end).
  { destruct (w_closed cw) eqn:Hcl.
    - cbn. split; [exact HI1|]. split; [apply wkeeps_refl|]. split; [apply shrinks_refl|].
      pose proof (hi_closed (w :: D) h1 HI1 w cw Hw1 Hcl) as Hp. split; [|split; [eauto|]].
      + intro Hnr. eapply unqueued_off_tree; eauto. eapply anc_refl; eauto.
      + intros x Hx. destruct (findw h1 x); auto.
    - assert (Hrd1 : w_parent cw <> None -> ~ In root (w :: D)).
      { intros Hpc [Ew|Hi]; [|exact (Hrd Hpc Hi)]. subst w. apply Hpc. exact (hi_root_parent (root :: D) h1 HI1 cw Hw1). }
      pose proof (close_spec (w :: D) f w cw h1 HI1 Hw1 Hrd1 h1 eq_refl) as Hc.
      destruct (close fixed f w h1) as [u h2| |]; [|contradiction|exact I].
      destruct Hc as [HI2 [WK2 [SH2 [Hu2 [[cw2 [Hw2 [Hp2 _]]] Hex]]]]].
      split; [exact HI2|]. split; [exact WK2|]. split; [exact SH2|]. split; [exact Hu2|]. split; [exists cw2; auto|].
      intros x Hx. apply not_in_single in Hx. destruct (findw h1 x) as [c|] eqn:Hf.
      + destruct (Hex x c Hx Hf) as [c' [Hf' [Ep Er]]]. rewrite Hf'. auto.
      + rewrite (wk_dom h1 h2 WK2 x Hf). exact I. }
  unfold bind at 1.
  destruct ((if w_closed cw then ret tt else close fixed f w) h1) as [u2 h2| |]; [|contradiction|exact I].
  destruct Hclose as [HI2 [WK2 [SH2 [Hu2 [[cw2 [Hw2 Hp2]] SR2]]]]].
  unfold bind at 1.
  pose proof (root_cleanup_spec (w :: D) f w cw2 h2 HI2 Hw2 h2 eq_refl) as Hrc.
  destruct (root_cleanup fixed f w h2) as [u3 h3| |]; [|contradiction|exact I].
  destruct Hrc as [HI3 [[Hw3 Hnw3] [Hroot3 Hold3]]].
  assert (Fw3 : forall a, findw h3 a = findw h2 a) by (intro; unfold findw; rewrite Hw3; reflexivity).
  assert (WK3 : wkeeps h2 h3) by (apply same_wins_wkeeps; [exact Hw3|exact Hnw3]).
  assert (SH3 : shrinks h2 h3) by (apply wkeeps_shrinks; eauto).
  assert (Hdet3 : detached h3 (w :: D)).
  { intros a [Ea|Ea].
    - subst a. exists cw2. rewrite Fw3. auto.
    - apply (wkeeps_detached h2 h3 D WK3). apply (wkeeps_detached h1 h2 D WK2). exact Hdet1. exact Ea. }
  assert (Hu3 : unqueued h3 w).
  { destruct (Pos.eq_dec w root) as [Er|Er].
    - intros q cq x Hq. rewrite (Hroot3 Er q) in Hq. discriminate.
    - eapply unqueued_shrinks; eauto. }
  unfold bind at 1.
  pose proof (Hloop D h3 w HI3 Hdet3 Hn Hu3 h3 eq_refl) as Hl.
  pose proof (Hlfate D h3 w HI3 Hdet3 Hn Hu3) as Hlf.
  destruct (destroy_loop fixed f w h3) as [u4 h4| |]; [|contradiction|exact I].
  destruct Hl as [HI4 [Hdet4 [SH4 [cw4 [Hw4 Hfi4]]]]].
  rewrite (freew_run h4 w cw4 Hw4).
  set (h5 := with_wins h4 (PM.remove w (wins h4))).
  (* h and h3 agree outside w; h4 and h5 agree outside w *)
  assert (S03 : same_rp [w] h h3).
  { intros x Hx. pose proof (SR2 x Hx) as S. rewrite Fw3. exact S. }
  assert (S45 : same_rp [w] h4 h5).
  { intros x Hx. apply not_in_single in Hx. unfold h5. rewrite findw_with_wins_remove_other by congruence.
    destruct (findw h4 x); auto. }
  eapply fate_post; [|exact S45]. eapply fate_pre; [exact Hlf|]. apply same_rp_sym. exact S03.
Qed.

(* ---- the loop over the children: composition of the fates of the successive children ------------------------- *)
Definition rule (Z : list positive) (h h' : heap) (x : positive) (c : wcell) : Prop :=
  match findw h' x with
  | None => exists p, w_parent c = Some p /\ gone Z h h' p /\ w_ref c = 1
  | Some c' =>
    (forall p, w_parent c = Some p -> gone Z h h' p ->
       w_ref c' = w_ref c - 1 /\ w_parent c' = None /\ w_ref c <> 1) /\
    ((forall p, w_parent c = Some p -> ~ gone Z h h' p) -> w_ref c' = w_ref c /\ w_parent c' = w_parent c)
  end.

Lemma fate_rule : forall Z h h', fate Z h h' <-> (forall x c, findw h x = Some c -> ~ In x Z -> rule Z h h' x c).
Proof. intros. unfold fate, rule. tauto. Qed.

Lemma rule_transfer : forall Z ha hb h' x ca cb,
  rule Z ha h' x ca -> w_ref cb = w_ref ca -> w_parent cb = w_parent ca ->
  (forall p, w_parent ca = Some p -> (gone Z ha h' p <-> gone Z hb h' p)) ->
  rule Z hb h' x cb.
Proof.
  intros Z ha hb h' x ca cb R Er Ep Hg. unfold rule in *. destruct (findw h' x) as [c'|].
  - destruct R as [R1 R2]. split.
    + intros p Hp G. rewrite Er. rewrite Ep in Hp. apply (R1 p Hp). apply (Hg p Hp). exact G.
    + intros Hn. rewrite Er, Ep. apply R2. intros p Hp G. apply (Hn p); [congruence|]. apply (Hg p Hp). exact G.
  - destruct R as [p [Hp [G Hr]]]. exists p. split; [congruence|]. split; [apply (Hg p Hp); exact G|congruence].
Qed.

Lemma shrinks_dead : forall h h' a, shrinks h h' -> findw h a = None -> findw h' a = None.
Proof.
  intros h h' a S Hd. destruct (findw h' a) as [c'|] eqn:Hf; auto.
  destruct (sh_wins h h' S a c' Hf) as [c [Hc _]]. congruence.
Qed.

Lemma loop_fate_step : forall f, unref_ok f -> unref_fate f -> loop_ok f -> loop_fate f -> loop_fate (S f).
Proof.
  intros f Hunref Hufate Hloop Hlfate D h w HI Hdet Hn Hunq.
  destruct (Hdet w (or_introl eq_refl)) as [cw [Hw Hwp]].
  rewrite destroy_loop_S. unfold bind at 1. rewrite (getw_run h w cw Hw).
  destruct (w_first cw) as [k|] eqn:Hfi.
  - destruct (hinv_first_live (w :: D) h w cw k HI Hw Hfi) as [ck [Hk Hkp]].
    assert (Hlt : (w < k)%positive) by exact (hi_parent_lt (w :: D) h HI k ck w Hk Hkp).
    assert (Hwk : w <> k) by lia.
    unfold bind at 1. rewrite (getw_run h k ck Hk).
    unfold bind at 1. rewrite (setw_run h w cw _ Hw).
    set (h1 := upd_cell h w (fun _ => set_first cw (w_next ck))).
    assert (Hk1 : findw h1 k = Some ck) by (unfold h1; rewrite findw_upd_cell_other; auto).
    unfold bind at 1. rewrite (upd_run h1 k _ ck Hk1).
    set (h2 := upd_cell h1 k (fun c => set_parent c None)).
    assert (Hk2 : findw h2 k = Some (set_parent ck None)) by (unfold h2; rewrite findw_upd_cell_same; rewrite Hk1; reflexivity).
    unfold bind at 1. rewrite (upd_run h2 k _ _ Hk2).
    set (hp := upd_cell h2 k (fun c => set_next c None)).
    assert (CB : cells_by h hp (pop_F w k cw (w_next ck))).
    { unfold pop_F. eapply cells_by_trans with (h2 := h2); [|apply cells_by_on].
      eapply cells_by_trans with (h2 := h1); apply cells_by_on. }
    destruct (hinv_pop (w :: D) h hp w k cw ck HI (or_introl eq_refl) Hw Hwp Hfi Hk Hunq CB) as [HIp Kp].
    assert (Hdetp : detached hp (w :: D)).
    { intros a Ha. destruct (Hdet a Ha) as [ca [Hfa Hpa]].
      destruct (kp_wins h hp Kp a ca Hfa) as [ca' [Hfa' [[Ep|Ep] _]]]; exists ca'; split; auto; congruence. }
    assert (Hnk : ~ In k (w :: D)).
    { intros [Ek|Ek]; [congruence|]. destruct (Hdet k (or_intror Ek)) as [ck' [Hfk' Hpk']].
      rewrite Hk in Hfk'. inversion Hfk'; subst ck'. congruence. }
    (* the cells after the pop *)
    assert (Hkp' : findw hp k = Some (set_next (set_parent ck None) None)).
    { unfold hp. rewrite findw_upd_cell_same. rewrite Hk2. reflexivity. }
    assert (Hothp : forall a, a <> k -> a <> w -> findw hp a = findw h a).
    { intros a Hak Haw. unfold hp, h2, h1. rewrite !findw_upd_cell_other; auto. }
    assert (Hdomp : forall a, findw hp a = None <-> findw h a = None).
    { intro a. split; intro Hd.
      - destruct (findw h a) as [ca|] eqn:Hfa; auto. destruct (kp_wins h hp Kp a ca Hfa) as [ca' [Hfa' _]]. congruence.
      - apply (kp_dom h hp Kp). exact Hd. }
    unfold bind at 1.
    assert (Hlk : findw hp k <> None) by congruence.
    assert (Hkpp : forall c, findw hp k = Some c -> w_parent c <> None -> ~ In root (w :: D)).
    { intros c Hc Hpc. exfalso. apply Hpc. rewrite Hkp' in Hc. inversion Hc. reflexivity. }
    pose proof (Hunref (w :: D) hp k HIp Hdetp Hlk Hnk Hkpp hp eq_refl) as Hu.
    pose proof (Hufate (w :: D) hp k _ HIp Hdetp Hkp' Hnk (Hkpp _ Hkp')) as Huf.
    destruct (unref fixed f k hp) as [u hu| |]; [|contradiction|exact I].
    destruct Hu as [HIu [Hdetu Shu]]. cbn [w_ref set_next set_parent] in Huf. destruct Huf as [Huf1 Huf2].
    assert (Sh0u : shrinks h hu) by (eapply shrinks_trans; [apply keeps_shrinks; exact Kp|exact Shu]).
    pose proof (Hloop D hu w HIu Hdetu Hn (unqueued_shrinks h hu w Sh0u Hunq) hu eq_refl) as Hl.
    pose proof (Hlfate D hu w HIu Hdetu Hn (unqueued_shrinks h hu w Sh0u Hunq)) as Hlf.
    destruct (destroy_loop fixed f w hu) as [u5 hl| |]; [|contradiction|exact I].
    destruct Hl as [HIl [Hdetl [Shl _]]].
    (* w itself stays allocated throughout *)
    assert (Hwl : findw hl w <> None).
    { destruct (Hdetl w (or_introl eq_refl)) as [cwl [Hfl _]]. congruence. }
    apply fate_rule. intros x c Hf Hx. apply not_in_single in Hx.
    apply fate_rule in Hlf.
    destruct (Pos.eq_dec x k) as [Exk|Exk].
    + (* the child that was popped *)
      subst x. rewrite Hk in Hf. inversion Hf; subst c.
      destruct (Z.eq_dec (w_ref ck) 1) as [Er|Er].
      * destruct (Huf1 Er) as [_ Hku]. unfold rule. rewrite (shrinks_dead hu hl k Shl Hku).
        exists w. split; [exact Hkp|]. split; [left; left; reflexivity|exact Er].
      * pose proof (Huf2 Er k) as Hok. rewrite Hkp' in Hok. destruct (findw hu k) as [cku|] eqn:Hku; [|contradiction].
        rewrite Pos.eqb_refl in Hok. cbn in Hok. destruct Hok as [Hpu Hru].
        assert (Hxk : ~ In k [w]) by (apply not_in_single; congruence).
        pose proof (Hlf k cku Hku Hxk) as Rk. unfold rule in *. destruct (findw hl k) as [c'|].
        -- destruct Rk as [_ R2]. destruct R2 as [E1 E2]; [intros p Hp; congruence|].
           split.
           ++ intros p Hp _. rewrite E1, E2, Hru, Hpu. auto.
           ++ intros Hng. exfalso. apply (Hng w Hkp). left. left. reflexivity.
        -- destruct Rk as [p [Hp _]]. congruence.
    + (* every other window *)
      assert (Hfp : findw hp x = Some c) by (rewrite Hothp; auto).
      destruct (Z.eq_dec (w_ref ck) 1) as [Er|Er].
      * destruct (Huf1 Er) as [Fk Hku]. apply fate_rule in Fk.
        assert (Hxk' : ~ In x [k]) by (apply not_in_single; exact Exk).
        pose proof (Fk x c Hfp Hxk') as Rx. unfold rule in Rx.
        destruct (findw hu x) as [cu|] eqn:Hxu.
        -- destruct Rx as [U1 U2].
           destruct (w_parent c) as [p|] eqn:Hpc.
           ++ (* did the parent go while the popped child was destroyed? *)
              assert (Hpl : findw h p <> None) by exact (hi_parent (w :: D) h HI x c p Hf Hpc).
              assert (Hplp : findw hp p <> None) by (intro Hd; apply Hdomp in Hd; contradiction).
              assert (Hdec : gone [k] hp hu p \/ (p <> k /\ findw hu p <> None)).
              { destruct (Pos.eq_dec p k) as [Epk|Epk]; [left; left; left; symmetry; exact Epk|].
                destruct (findw hu p) as [cpu|] eqn:Hpu; [right; split; congruence|left; right; split; auto]. }
              destruct Hdec as [G|[Hpk Hplu]].
              ** destruct (U1 p eq_refl G) as [E1 [E2 E3]].
                 assert (Hxw : ~ In x [w]) by (apply not_in_single; exact Hx).
                 pose proof (Hlf x cu Hxu Hxw) as Rl. unfold rule in *. destruct (findw hl x) as [c'|].
                 --- destruct Rl as [_ R2]. destruct R2 as [F1 F2]; [intros q Hq; congruence|].
                     assert (Gfin : gone [w] h hl p).
                     { right. split; [exact Hpl|]. destruct G as [[Ek|[]]|[_ Hd]].
                       - subst p. apply (shrinks_dead hu hl k Shl Hku).
                       - apply (shrinks_dead hu hl p Shl Hd). }
                     split.
                     +++ intros q Hq _. rewrite ?Hpc in Hq; injection Hq as Eq; subst q. rewrite F1, F2, E1, E2. auto.
                     +++ intros Hng. exfalso. exact (Hng p Hpc Gfin).
                 --- destruct Rl as [q [Hq _]]. congruence.
              ** destruct U2 as [E1 E2].
                 { intros q Hq [[Ek|[]]|[_ Hd]]; rewrite ?Hpc in Hq; injection Hq as Eq; subst q; [congruence|contradiction]. }
                 assert (Hxw : ~ In x [w]) by (apply not_in_single; exact Hx).
                 pose proof (Hlf x cu Hxu Hxw) as Rl.
                 eapply (rule_transfer [w] hu h hl x cu c Rl); [congruence|congruence|].
                 intros q Hq. rewrite E2 in Hq. rewrite ?Hpc in Hq; injection Hq as Eq; subst q. unfold gone. split.
                 --- intros [Hin|[_ Hd]]; [left; exact Hin|right; split; auto].
                 --- intros [Hin|[_ Hd]]; [left; exact Hin|right; split; auto].
           ++ destruct U2 as [E1 E2]; [intros q Hq; discriminate|].
              assert (Hxw : ~ In x [w]) by (apply not_in_single; exact Hx).
              pose proof (Hlf x cu Hxu Hxw) as Rl.
              eapply (rule_transfer [w] hu h hl x cu c Rl); [congruence|congruence|].
              intros q Hq. rewrite E2 in Hq. discriminate.
        -- destruct Rx as [p [Hp [G Hr]]]. unfold rule. rewrite (shrinks_dead hu hl x Shl Hxu).
           exists p. split; [exact Hp|]. split; [|exact Hr].
           assert (Hpl : findw h p <> None) by exact (hi_parent (w :: D) h HI x c p Hf Hp).
           right. split; [exact Hpl|]. destruct G as [[Ek|[]]|[_ Hd]].
           ++ subst p. apply (shrinks_dead hu hl k Shl Hku).
           ++ apply (shrinks_dead hu hl p Shl Hd).
      * (* the popped child survives: nothing is freed by its unref *)
        pose proof (Huf2 Er x) as Hox. rewrite Hfp in Hox. destruct (findw hu x) as [cu|] eqn:Hxu; [|contradiction].
        apply Pos.eqb_neq in Exk. rewrite Exk in Hox. destruct Hox as [Epu Eru].
        assert (Hxw : ~ In x [w]) by (apply not_in_single; exact Hx).
        pose proof (Hlf x cu Hxu Hxw) as Rl.
        eapply (rule_transfer [w] hu h hl x cu c Rl); [congruence|congruence|].
        intros q Hq. unfold gone.
        assert (Hlive : findw hu q <> None <-> findw h q <> None).
        { pose proof (Huf2 Er q) as Hoq. rewrite <- (Hdomp q).
          destruct (findw hp q), (findw hu q); try contradiction; split; congruence. }
        split; (intros [Hin|[Hl' Hd]]; [left; exact Hin|right; split; [apply Hlive; exact Hl'|exact Hd]]).
  - (* no child left *)
    cbn. apply fate_nothing. intros x c p Hf Hp Hin. destruct Hin as [E|[]]. subst p.
    destruct (hi_kids (w :: D) h HI w cw Hw) as [l [Hc Hl]]. rewrite Hfi in Hc. inversion Hc; subst.
    assert (Hin' : In x []) by (apply Hl; eauto). contradiction.
Qed.

Theorem life_fate : forall f, unref_fate f /\ destroy_fate f /\ loop_fate f.
Proof.
  induction f as [|f [IHu [IHd IHl]]].
  - repeat split; intros until 0; intros; cbn; exact I.
  - destruct (life_ok f) as [Hu [Hd Hl]].
    assert (Hl' : loop_fate (S f)) by (apply loop_fate_step; auto).
    split; [apply unref_fate_step; auto|]. split; [apply destroy_fate_step; auto|exact Hl'].
Qed.
