(* WinInputSpec.v -- the order in which property C14 says input is offered, as direct
   recursive definitions over the window tree, and the drag bracket rules. *)
From Coq Require Import ZArith List Bool.
From Tickit Require Import RectDefs WinRectSet WinDefs WinInput.
Import ListNotations.
Local Open Scope Z_scope.

(* A key: an input-stealing frontmost child first, then down the focus chain, then the window
   itself, then its other children; hidden windows (and so their descendants) never. *)
Fixpoint key_order (t : wtree) : list Z :=
  match t with
  | Node i ch =>
    if negb (w_vis i) then [] else
    let stolen := match ch with
                  | c :: _ => if w_steal (t_info c) then Some (t_id c) else None
                  | [] => None
                  end in
    let is_stolen (c : wtree) := opt_eqb stolen (t_id c) in
    let is_focus (c : wtree) := opt_eqb (w_fchild i) (t_id c) in
    (fix go (l : list wtree) : list Z :=
       match l with [] => [] | c :: r => (if is_stolen c then key_order c else []) ++ go r end) ch
    ++
    (fix go (l : list wtree) : list Z :=
       match l with [] => [] | c :: r => (if is_focus c && negb (is_stolen c) then key_order c else []) ++ go r end) ch
    ++ [w_id i] ++
    (fix go (l : list wtree) : list Z :=
       match l with [] => [] | c :: r => (if negb (is_focus c) && negb (is_stolen c) then key_order c else []) ++ go r end) ch
  end.

(* A mouse event at (line, col) relative to t: the children in z-order that contain the
   position (or steal input), each before the window itself; positions relative to the
   receiver. *)
Fixpoint mouse_order (t : wtree) (line col : Z) : list (Z * Z * Z) :=
  match t with
  | Node i ch =>
    if negb (w_vis i) then [] else
    (fix go (l : list wtree) : list (Z * Z * Z) :=
       match l with
       | [] => []
       | c :: r =>
         let ci := t_info c in
         (if w_steal ci || cell_inb (w_rect ci) (line, col)
          then mouse_order c (line - top (w_rect ci)) (col - left (w_rect ci)) else []) ++ go r
       end) ch
    ++ [(w_id i, line, col)]
  end.

(* offered in order until someone claims: the offers made, and the claimer *)
Fixpoint until_claim {A} (claims : A -> bool) (l : list A) : list A * option A :=
  match l with
  | [] => ([], None)
  | x :: r => if claims x then ([x], Some x) else let '(p, c) := until_claim claims r in (x :: p, c)
  end.

Definition key_spec (claims : Z -> Z) (t : wtree) : list iev :=
  map IKey (fst (until_claim (fun w => Z.testbit (claims w) 0) (key_order t))).

Definition mouse_phase (claims : Z -> Z) (route : list (Z * Z * Z)) (ty btn : Z) : list iev * option Z :=
  let '(p, c) := until_claim (fun e => match e with (w, _, _) => Z.testbit (claims w) ty end) route in
  (map (fun e => match e with (w, l, c) => IMouse w ty btn l c end) p,
   match c with Some (w, _, _) => Some w | None => None end).

(* the drag bookkeeping the property describes *)
Record dragst := mkDrag { ds_dragging : bool; ds_btn : Z; ds_line : Z; ds_col : Z; ds_src : option Z }.
Definition drag_init := mkDrag false 0 (-1) (-1) None.

Definition tree_origin (t : wtree) (id : Z) : option (Z * Z) :=
  match t_path id t with
  | Some p => Some (fold_left (fun acc w => (fst acc + top (w_rect (t_info w)), snd acc + left (w_rect (t_info w)))) p (0, 0))
  | None => None
  end.

(* the window and everything above it are visible *)
Definition path_visible (t : wtree) (id : Z) : bool :=
  match t_path id t with
  | Some p => forallb (fun w => w_vis (t_info w)) p
  | None => true
  end.

(* events sent to the drag source directly, at the position relative to it *)
Definition to_source_spec (claims : Z -> Z) (t : wtree) (src : option Z) (ty btn line col : Z) : list iev :=
  match src with
  | None => []
  | Some s =>
    match t_find s t, tree_origin t s with
    | Some sub, Some o =>
      (* hidden windows and their descendants receive no input: not below a hidden window *)
      if path_visible t s
      then fst (mouse_phase claims (mouse_order sub (line - fst o) (col - snd o)) ty btn)
      else []
    | _, _ => []
    end
  end.

(* one terminal mouse event (ty 1 press, 2 drag, 3 release, 4 wheel): the deliveries in order
   and the new drag state.  START is sent when a drag begins, at the position and button of
   the press; OUTSIDE goes to the source when someone else (or nobody) took the drag; on
   release DROP where it happens, then STOP to the source. *)
Definition mouse_spec (claims : Z -> Z) (t : wtree) (ds : dragst) (ty btn line col : Z) : list iev * dragst :=
  let root_route l c := mouse_order t l c in
  if ty =? 1 then
    (fst (mouse_phase claims (root_route line col) 1 btn), mkDrag (ds_dragging ds) btn line col (ds_src ds))
  else if (ty =? 2) && negb (ds_dragging ds) then
    let '(e1, src) := mouse_phase claims (root_route (ds_line ds) (ds_col ds)) 5 (ds_btn ds) in
    let '(e2, h) := mouse_phase claims (root_route line col) 2 btn in
    let e3 := match src with
              | Some s => if opt_is h (Some s) then [] else to_source_spec claims t src 6 btn line col
              | None => []
              end in
    (e1 ++ e2 ++ e3, mkDrag true (ds_btn ds) (ds_line ds) (ds_col ds) src)
  else if ty =? 2 then
    let '(e2, h) := mouse_phase claims (root_route line col) 2 btn in
    let e3 := match ds_src ds with
              | Some s => if opt_is h (Some s) then [] else to_source_spec claims t (ds_src ds) 6 btn line col
              | None => []
              end in
    (e2 ++ e3, ds)
  else if (ty =? 3) && ds_dragging ds then
    let e1 := fst (mouse_phase claims (root_route line col) 7 btn) in
    let e2 := to_source_spec claims t (ds_src ds) 8 btn line col in
    let e3 := fst (mouse_phase claims (root_route line col) 3 btn) in
    (e1 ++ e2 ++ e3, mkDrag false (ds_btn ds) (ds_line ds) (ds_col ds) (ds_src ds))
  else
    (fst (mouse_phase claims (root_route line col) ty btn), ds).

(* boolean comparison of delivery logs *)
Definition iev_eqb (a b : iev) : bool :=
  match a, b with
  | IKey x, IKey y => x =? y
  | IMouse w1 t1 b1 l1 c1, IMouse w2 t2 b2 l2 c2 =>
    (w1 =? w2) && (t1 =? t2) && (b1 =? b2) && (l1 =? l2) && (c1 =? c2)
  | _, _ => false
  end.
Fixpoint ievs_eqb (a b : list iev) : bool :=
  match a, b with
  | [], [] => true
  | x :: r, y :: r' => iev_eqb x y && ievs_eqb r r'
  | _, _ => false
  end.

Definition iev_win (e : iev) : Z := match e with IKey w => w | IMouse w _ _ _ _ => w end.

(* A handler of window [w] closes a window whose subtree [closed] does not contain [w]: from w's
   own delivery on, nothing in this event goes to a window of that subtree (they are out of the
   tree, and none of them has a dispatch under way) *)
Fixpoint c14_closed_silent_checkb (w : Z) (closed : list Z) (log : list iev) : bool :=
  match log with
  | [] => true
  | e :: r => if iev_win e =? w then forallb (fun e' => negb (id_in (iev_win e') closed)) r
              else c14_closed_silent_checkb w closed r
  end.


(* with a mutation inside a handler: the deliveries to the windows that were NOT closed must
   be the ones of the unmutated order, in that order *)
Definition c14_rest_checkb (closed : list Z) (expected observed : list iev) : bool :=
  ievs_eqb (filter (fun e => negb (mem (iev_win e) closed)) expected)
           (filter (fun e => negb (mem (iev_win e) closed)) observed).

(* When the handler closed ANOTHER window the tree the rest of the routing sees is a
   different one (e.g. a stealing window may become the frontmost child), so the order of
   the remaining deliveries may legitimately differ; what must not happen is that a
   remaining window is left out or offered the event twice: same deliveries as a multiset. *)
Definition iev_count (e : iev) (l : list iev) : nat := length (filter (iev_eqb e) l).
Definition c14_rest_set_checkb (closed : list Z) (expected observed : list iev) : bool :=
  let ex := filter (fun e => negb (mem (iev_win e) closed)) expected in
  let ob := filter (fun e => negb (mem (iev_win e) closed)) observed in
  forallb (fun e => Nat.eqb (iev_count e ex) (iev_count e ob)) (ex ++ ob).
