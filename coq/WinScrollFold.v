(* WinScrollFold.v -- the loop of _scroll over the stored rectangles of the visible region:
   what one iteration (scroll_one) does to the terminal grid and to the pending damage inside
   and outside its rectangle (scroll_one_spec, for ANY answer of the terminal's scroll
   oracle), and the invariant of the whole loop over pairwise disjoint rectangles
   (scroll_fold_spec). *)
From Coq Require Import ZArith List Bool Lia ZifyBool.
From Tickit Require Import RectDefs RectProofs WinRectSet WinRectSetProofs WinDefs WinSpec
  WinExposeProofs WinFlushProofs WinLogDisjoint WinScreenInv WinLocality WinPreserve WinScrollDesc.
Import ListNotations.
Local Open Scope Z_scope.
Local Strategy 1000 [rsfuel].

Lemma shift_damage_nil {fuel} rc d r : shift_damage fuel [] rc d r = Some [].
Proof. reflexivity. Qed.

Definition acc_st (acc : root * term * bool * bool) : root := fst (fst (fst acc)).

(* a fault is never cleared *)
Lemma scroll_one_fault id a b d r acc rc :
  r_fault (acc_st (scroll_one id a b d r acc rc)) = false -> r_fault (acc_st acc) = false.
Proof.
  destruct acc as [[[s tm] ret] dp]. unfold scroll_one, acc_st. cbn [fst].
  destruct ((Z.abs d >=? lines rc) || (Z.abs r >=? cols rc)).
  - cbn [fst]. apply win_expose_fault.
  - destruct (shift_damage (r_fuel s) (r_damage s) rc d r) as [dmg|]; [|cbn [fst r_fault set_fault]; discriminate].
    destruct (term_scroll (if dp then tm else term_set_cvis tm false) rc d r) as [tm2 acc'].
    destruct acc'; cbn [fst].
    + intros H.
      assert (H2 : r_fault (if d >? 0
                then win_expose (set_damage s dmg) id (Some (mkRect (bottom (r_translate rc (- a) (- b)) - d) (left (r_translate rc (- a) (- b))) d (cols rc)))
                else if d <? 0
                     then win_expose (set_damage s dmg) id (Some (mkRect (top (r_translate rc (- a) (- b))) (left (r_translate rc (- a) (- b))) (- d) (cols rc)))
                     else set_damage s dmg) = false).
      { destruct (r >? 0); [apply (win_expose_fault _ _ _ H)|].
        destruct (r <? 0); [apply (win_expose_fault _ _ _ H)|exact H]. }
      assert (H1 : r_fault (set_damage s dmg) = false).
      { destruct (d >? 0); [apply (win_expose_fault _ _ _ H2)|].
        destruct (d <? 0); [apply (win_expose_fault _ _ _ H2)|exact H2]. }
      exact H1.
    + intros H. apply win_expose_fault in H. exact H.
Qed.

Lemma scroll_fold_fault id a b d r : forall v acc,
  r_fault (acc_st (fold_left (scroll_one id a b d r) v acc)) = false -> r_fault (acc_st acc) = false.
Proof.
  induction v as [|rc v IH]; intros acc H; [exact H|]. cbn [fold_left] in H.
  apply (scroll_one_fault id a b d r acc rc). apply IH. exact H.
Qed.

(* arithmetic of the vacated strips *)
Lemma scroll_out_cases rc q d r :
  cell_in rc q -> ~ cell_in rc (fst q + d, snd q + r) ->
  (d > 0 /\ bottom rc <= fst q + d) \/ (d < 0 /\ fst q + d < top rc) \/
  (r > 0 /\ right rc <= snd q + r) \/ (r < 0 /\ snd q + r < left rc).
Proof. unfold cell_in, bottom, right; cbn [fst snd]. lia. Qed.

Lemma strip_d_pos rc a b d q :
  cell_in rc q -> d > 0 -> bottom rc <= fst q + d ->
  cell_in (mkRect (bottom (r_translate rc (- a) (- b)) - d) (left (r_translate rc (- a) (- b))) d (cols rc))
          (fst q - a, snd q - b).
Proof. unfold cell_in, r_translate, bottom, right; cbn [top left lines cols fst snd]. lia. Qed.

Lemma strip_d_neg rc a b d q :
  cell_in rc q -> d < 0 -> fst q + d < top rc ->
  cell_in (mkRect (top (r_translate rc (- a) (- b))) (left (r_translate rc (- a) (- b))) (- d) (cols rc))
          (fst q - a, snd q - b).
Proof. unfold cell_in, r_translate, bottom, right; cbn [top left lines cols fst snd]. lia. Qed.

Lemma strip_r_pos rc a b r q :
  cell_in rc q -> r > 0 -> right rc <= snd q + r ->
  cell_in (mkRect (top (r_translate rc (- a) (- b))) (right (r_translate rc (- a) (- b)) - r) (lines rc) r)
          (fst q - a, snd q - b).
Proof. unfold cell_in, r_translate, bottom, right; cbn [top left lines cols fst snd]. lia. Qed.

Lemma strip_r_neg rc a b r q :
  cell_in rc q -> r < 0 -> snd q + r < left rc ->
  cell_in (mkRect (top (r_translate rc (- a) (- b))) (left (r_translate rc (- a) (- b))) (lines rc) (- r))
          (fst q - a, snd q - b).
Proof. unfold cell_in, r_translate, bottom, right; cbn [top left lines cols fst snd]. lia. Qed.

Section scroll_fold.
  Variables (T : wtree) (id : Z) (a b d r : Z) (L C : Z).

  (* a screen cell at which the descent arrives in the scrolled window, at the position the
     accumulated offset says *)
  Definition inV (q : cell) : Prop :=
    cell_in (mkRect 0 0 L C) q /\ desc id T q = Some (fst q - a, snd q - b).

  Hypothesis Hexp : forall s S,
    r_tree s = T -> all_nonempty (r_damage s) -> r_fault (win_expose s id (Some S)) = false ->
    dmg_ext s (win_expose s id (Some S)) /\
    forall q, inV q -> cell_in S (fst q - a, snd q - b) ->
              covered (r_damage (win_expose s id (Some S))) q.

  Definition good (s : root) (tm : term) : Prop :=
    r_tree s = T /\ all_nonempty (r_damage s) /\ t_lines tm = L /\ t_cols tm = C /\
    (r_damage s <> [] -> r_nexp s = true /\ r_later s = true).

  Lemma expose_alt (c1 c2 : bool) S1 S2 x :
    r_tree x = T -> all_nonempty (r_damage x) ->
    r_fault (if c1 then win_expose x id (Some S1) else if c2 then win_expose x id (Some S2) else x) = false ->
    dmg_ext x (if c1 then win_expose x id (Some S1) else if c2 then win_expose x id (Some S2) else x) /\
    forall q, inV q ->
      (c1 = true /\ cell_in S1 (fst q - a, snd q - b)) \/
      (c1 = false /\ c2 = true /\ cell_in S2 (fst q - a, snd q - b)) ->
      covered (r_damage (if c1 then win_expose x id (Some S1)
                         else if c2 then win_expose x id (Some S2) else x)) q.
  Proof.
    intros Ht Hne Hf. destruct c1.
    - destruct (Hexp x S1 Ht Hne Hf) as [Hde Hcov]. split; [exact Hde|].
      intros q Hq [[_ H]|[H _]]; [apply Hcov; assumption|discriminate].
    - destruct c2.
      + destruct (Hexp x S2 Ht Hne Hf) as [Hde Hcov]. split; [exact Hde|].
        intros q Hq [[H _]|[_ [_ H]]]; [discriminate|apply Hcov; assumption].
      + split; [apply dmg_ext_refl; assumption|].
        intros q Hq [[H _]|[_ [H _]]]; discriminate.
  Qed.

  Theorem scroll_one_spec s tm ret dp rc s' tm' ret' dp' :
    good s tm -> nonempty rc -> (forall q, cell_in rc q -> inV q) ->
    scroll_one id a b d r (s, tm, ret, dp) rc = (s', tm', ret', dp') -> r_fault s' = false ->
    good s' tm' /\ r_queue s' = r_queue s /\ (r_later s = true -> r_later s' = true) /\
    (forall q, ~ cell_in rc q ->
       t_grid tm' q = t_grid tm q /\ (covered (r_damage s) q -> covered (r_damage s') q)) /\
    (forall q, cell_in rc q ->
       covered (r_damage s') q \/
       (cell_in rc (fst q + d, snd q + r) /\ t_grid tm' q = t_grid tm (fst q + d, snd q + r) /\
        coveredb (r_damage s) (fst q + d, snd q + r) = false)).
  Proof.
    intros (Gt & Gne & Gl & Gc & Gf) Hrc HinV H Hf. unfold scroll_one in H.
    set (orig := r_translate rc (- a) (- b)) in *.
    assert (Horig : forall q, cell_in orig (fst q - a, snd q - b) <-> cell_in rc q).
    { intros q. unfold orig. rewrite r_translate_cell. cbn [fst snd].
      destruct q as [y x]; cbn [fst snd].
      replace (y - a - - a) with y by lia. replace (x - b - - b) with x by lia. tauto. }
    destruct ((Z.abs d >=? lines rc) || (Z.abs r >=? cols rc)) eqn:Ebig.
    - (* too far: expose the whole rectangle *)
      injection H as <- <- <- <-.
      destruct (Hexp s orig Gt Gne Hf) as [Hde Hcov].
      split; [|split; [|split; [|split]]].
      + split; [rewrite (de_tree _ _ Hde); exact Gt|]. split; [apply (de_ne _ _ Hde)|].
        split; [exact Gl|]. split; [exact Gc|]. apply (de_flags _ _ Hde). exact Gf.
      + apply (de_queue _ _ Hde).
      + apply (de_later _ _ Hde).
      + intros q Hq. split; [reflexivity|apply (de_cov _ _ Hde)].
      + intros q Hq. left. apply Hcov; [apply HinV; exact Hq|apply Horig; exact Hq].
    - destruct (shift_damage (r_fuel s) (r_damage s) rc d r) as [dmg|] eqn:Esh.
      2:{ injection H as <- _ _ _. cbn [r_fault set_fault] in Hf. discriminate. }
      destruct (shift_damage_covered _ _ _ _ _ Gne Hrc Esh) as [Hdne Hdcov].
      set (st1 := set_damage s dmg) in *.
      set (tm1 := if dp then tm else term_set_cvis tm false) in *.
      assert (Hg1 : t_grid tm1 = t_grid tm) by (unfold tm1; destruct dp; reflexivity).
      assert (Hl1 : t_lines tm1 = L) by (unfold tm1; destruct dp; exact Gl).
      assert (Hc1 : t_cols tm1 = C) by (unfold tm1; destruct dp; exact Gc).
      assert (Gt1 : r_tree st1 = T) by exact Gt.
      assert (Gf1 : r_damage st1 <> [] -> r_nexp st1 = true /\ r_later st1 = true).
      { cbn [st1 r_damage r_nexp r_later set_damage]. intros Hd. apply Gf. intros E.
        rewrite E, shift_damage_nil in Esh. injection Esh as <-. apply Hd. reflexivity. }
      assert (Hkeep : forall q, ~ cell_in rc q -> covered (r_damage s) q -> covered (r_damage st1) q).
      { intros q Hn Hq. cbn [st1 r_damage set_damage]. apply Hdcov. left. tauto. }
      destruct (term_scroll tm1 rc d r) as [tm2 acc'] eqn:Ets.
      unfold term_scroll in Ets. injection Ets as Etm2 Eacc.
      assert (Hl2 : t_lines tm2 = L) by (rewrite <- Etm2; exact Hl1).
      assert (Hc2 : t_cols tm2 = C) by (rewrite <- Etm2; exact Hc1).
      (* the clamp of a rectangle inside the screen has the same cells *)
      assert (Hclamp : exists k, term_clamp tm1 rc = Some k /\ forall q, cell_inb k q = cell_inb rc q).
      { unfold term_clamp. rewrite Hl1, Hc1.
        destruct (r_intersect rc (mkRect 0 0 L C)) as [k|] eqn:Ek.
        - exists k. split; [reflexivity|]. intros q. apply intersect_some in Ek. destruct Ek as [_ Ek].
          apply eq_true_iff_eq. rewrite !cell_inb_iff, Ek. split; [tauto|].
          intros Hq. split; [exact Hq|]. apply (HinV q Hq).
        - exfalso. destruct (nonempty_bounds rc Hrc) as [B1 B2].
          assert (Hq : cell_in rc (top rc, left rc)).
          { unfold cell_in; cbn [fst snd]. lia. }
          apply (intersect_none _ _ Ek (top rc, left rc)). split; [exact Hq|apply (HinV _ Hq)]. }
      destruct Hclamp as (k & Hk & Hkin).
      destruct acc'.
      + (* accepted *)
        set (st2 := if d >? 0 then win_expose st1 id (Some (mkRect (bottom orig - d) (left orig) d (cols rc)))
                    else if d <? 0 then win_expose st1 id (Some (mkRect (top orig) (left orig) (- d) (cols rc)))
                    else st1) in *.
        injection H as <- <- <- <-.
        assert (Hf2 : r_fault st2 = false).
        { destruct (r >? 0); [apply (win_expose_fault _ _ _ Hf)|].
          destruct (r <? 0); [apply (win_expose_fault _ _ _ Hf)|exact Hf]. }
        destruct (expose_alt (d >? 0) (d <? 0) _ _ st1 Gt1 Hdne Hf2) as [Hde2 Hcov2].
        fold st2 in Hde2, Hcov2.
        assert (Gt2 : r_tree st2 = T) by (rewrite (de_tree _ _ Hde2); exact Gt1).
        destruct (expose_alt (r >? 0) (r <? 0) _ _ st2 Gt2 (de_ne _ _ Hde2) Hf) as [Hde3 Hcov3].
        pose proof (dmg_ext_trans _ _ _ Hde2 Hde3) as Hde.
        assert (Hgrid : forall q, t_grid tm2 q =
                  if cell_inb rc q
                  then (if cell_inb rc (fst q + d, snd q + r) then t_grid tm (fst q + d, snd q + r) else BLANK)
                  else t_grid tm q).
        { intros q. rewrite <- Etm2. cbn [t_grid]. rewrite Eacc, Hk, !Hkin, Hg1. reflexivity. }
        split; [|split; [|split; [|split]]].
        * split; [rewrite (de_tree _ _ Hde); exact Gt1|]. split; [apply (de_ne _ _ Hde)|].
          split; [exact Hl2|]. split; [exact Hc2|]. apply (de_flags _ _ Hde). exact Gf1.
        * rewrite (de_queue _ _ Hde). reflexivity.
        * intros Hl. apply (de_later _ _ Hde). exact Hl.
        * intros q Hq. split.
          -- rewrite Hgrid. destruct (cell_inb rc q) eqn:E; [|reflexivity].
             apply cell_inb_iff in E. contradiction.
          -- intros Hc. apply (de_cov _ _ Hde). apply Hkeep; assumption.
        * intros q Hq. pose proof (HinV q Hq) as HqV.
          destruct (cell_inb rc (fst q + d, snd q + r)) eqn:Eqd.
          -- apply cell_inb_iff in Eqd.
             destruct (coveredb (r_damage s) (fst q + d, snd q + r)) eqn:Ecb.
             ++ left. apply (de_cov _ _ Hde). cbn [st1 r_damage set_damage]. apply Hdcov. right.
                apply coveredb_iff in Ecb. tauto.
             ++ right. split; [exact Eqd|]. split; [|reflexivity].
                rewrite Hgrid. apply cell_inb_iff in Hq, Eqd. rewrite Hq, Eqd. reflexivity.
          -- left.
             assert (Hout : ~ cell_in rc (fst q + d, snd q + r)).
             { intros Hc. apply cell_inb_iff in Hc. congruence. }
             pose proof (scroll_out_cases rc q d r Hq Hout) as Hcase.
             destruct Hcase as [[H1 H2]|[[H1 H2]|[[H1 H2]|[H1 H2]]]].
             ++ apply (de_cov _ _ Hde3). apply (Hcov2 q HqV). left.
                split; [clear - H1; lia|]. apply strip_d_pos; assumption.
             ++ apply (de_cov _ _ Hde3). apply (Hcov2 q HqV). right.
                split; [clear - H1; lia|]. split; [clear - H1; lia|]. apply strip_d_neg; assumption.
             ++ apply (Hcov3 q HqV). left.
                split; [clear - H1; lia|]. apply strip_r_pos; assumption.
             ++ apply (Hcov3 q HqV). right.
                split; [clear - H1; lia|]. split; [clear - H1; lia|]. apply strip_r_neg; assumption.
      + (* refused: the whole rectangle is exposed *)
        injection H as <- <- <- <-.
        destruct (Hexp st1 orig Gt1 Hdne Hf) as [Hde Hcov].
        assert (Hgrid : forall q, t_grid tm2 q = t_grid tm q).
        { intros q. rewrite <- Etm2. cbn [t_grid]. rewrite Eacc, Hg1. reflexivity. }
        split; [|split; [|split; [|split]]].
        * split; [rewrite (de_tree _ _ Hde); exact Gt1|]. split; [apply (de_ne _ _ Hde)|].
          split; [exact Hl2|]. split; [exact Hc2|]. apply (de_flags _ _ Hde). exact Gf1.
        * rewrite (de_queue _ _ Hde). reflexivity.
        * intros Hl. apply (de_later _ _ Hde). exact Hl.
        * intros q Hq. split; [apply Hgrid|].
          intros Hc. apply (de_cov _ _ Hde). apply Hkeep; assumption.
        * intros q Hq. left. apply Hcov; [apply HinV; exact Hq|apply Horig; exact Hq].
  Qed.

  (* ---------------------------------------------------------------------------------- *)
  (* the whole loop                                                                      *)

  Variables (vall : list rect) (g0 sh0 : cell -> Z) (D0 : rectset).
  Hypothesis H0 : forall x, cell_in (mkRect 0 0 L C) x -> g0 x = sh0 x \/ covered D0 x.

  Definition done_at (s : root) (tm : term) (q : cell) : Prop :=
    covered (r_damage s) q \/
    (covered vall q /\ covered vall (fst q + d, snd q + r) /\ t_grid tm q = sh0 (fst q + d, snd q + r)).

  Definition cells_inv (P : list rect) (s : root) (tm : term) : Prop :=
    forall q, cell_in (mkRect 0 0 L C) q ->
      (covered P q -> done_at s tm q) /\
      (~ covered P q -> t_grid tm q = g0 q /\ (covered D0 q -> covered (r_damage s) q)).

  Theorem scroll_fold_spec : forall rest P s tm ret dp s' tm' ret' dp',
    good s tm -> Forall nonempty rest ->
    (forall rc, In rc rest -> In rc vall /\ forall q, cell_in rc q -> inV q) ->
    (forall rc q, In rc rest -> cell_in rc q -> ~ covered P q) ->
    pairwise_disjoint rest ->
    fold_left (scroll_one id a b d r) rest (s, tm, ret, dp) = (s', tm', ret', dp') ->
    r_fault s' = false ->
    cells_inv P s tm ->
    good s' tm' /\ r_queue s' = r_queue s /\ (r_later s = true -> r_later s' = true) /\
    cells_inv (P ++ rest) s' tm'.
  Proof.
    induction rest as [|rc rest IH]; intros P s tm ret dp s' tm' ret' dp' Hg Hne Hin Hdis Hpd Hfold Hf Hci.
    - cbn [fold_left] in Hfold. injection Hfold as <- <- <- <-. rewrite app_nil_r. tauto.
    - cbn [fold_left] in Hfold.
      destruct (scroll_one id a b d r (s, tm, ret, dp) rc) as [[[s1 tm1] r1] dp1] eqn:E1.
      assert (Hf1 : r_fault s1 = false).
      { pose proof (scroll_fold_fault id a b d r rest (s1, tm1, r1, dp1)) as H.
        rewrite Hfold in H. apply H. exact Hf. }
      inversion Hne as [|? ? Hnrc Hnrest]; subst.
      destruct (Hin rc (or_introl eq_refl)) as [Hrcv HrcV].
      destruct Hpd as [Hdrc Hpd'].
      destruct (scroll_one_spec s tm ret dp rc s1 tm1 r1 dp1 Hg Hnrc HrcV E1 Hf1)
        as (Hg1 & Hq1 & Hl1 & HA & HB).
      assert (Hci1 : cells_inv (P ++ [rc]) s1 tm1).
      { intros q Hq. destruct (Hci q Hq) as [Hdone Hun]. split.
        - intros Hc. apply covered_app in Hc. destruct Hc as [Hc|Hc].
          + assert (Hnrcq : ~ cell_in rc q).
            { intros H. exact (Hdis rc q (or_introl eq_refl) H Hc). }
            destruct (HA q Hnrcq) as [Hgq Hcq].
            destruct (Hdone Hc) as [Hd|(H1 & H2 & H3)].
            * left. apply Hcq. exact Hd.
            * right. split; [exact H1|]. split; [exact H2|]. rewrite Hgq. exact H3.
          + rewrite covered_cons, covered_nil in Hc. destruct Hc as [Hc|[]].
            destruct (HB q Hc) as [Hd|(Hqd & Hgq & Hcb)]; [left; exact Hd|].
            right.
            assert (Hqd' : cell_in (mkRect 0 0 L C) (fst q + d, snd q + r)) by (apply (HrcV _ Hqd)).
            destruct (Hci _ Hqd') as [_ Hun'].
            destruct Hun' as [Hg0 Hd0].
            { exact (Hdis rc _ (or_introl eq_refl) Hqd). }
            split; [exists rc; split; assumption|]. split; [exists rc; split; assumption|].
            rewrite Hgq, Hg0. destruct (H0 _ Hqd') as [H|H]; [exact H|].
            exfalso. apply Hd0 in H. apply coveredb_iff in H. congruence.
        - intros Hn.
          assert (Hnp : ~ covered P q) by (intros H; apply Hn; apply covered_app; left; exact H).
          assert (Hnrcq : ~ cell_in rc q).
          { intros H; apply Hn; apply covered_app; right. rewrite covered_cons. left; exact H. }
          destruct (Hun Hnp) as [Hg0 Hd0]. destruct (HA q Hnrcq) as [Hgq Hcq].
          split; [rewrite Hgq; exact Hg0|]. intros H. apply Hcq. apply Hd0. exact H. }
      destruct (IH (P ++ [rc]) s1 tm1 r1 dp1 s' tm' ret' dp' Hg1 Hnrest) as (Hg' & Hq' & Hl' & Hci'); try assumption.
      + intros x Hx. apply Hin. right. exact Hx.
      + intros x q Hx Hxq Hc. apply covered_app in Hc. destruct Hc as [Hc|Hc].
        * exact (Hdis x q (or_intror Hx) Hxq Hc).
        * rewrite covered_cons, covered_nil in Hc. destruct Hc as [Hc|[]].
          rewrite Forall_forall in Hdrc. exact (Hdrc x Hx q (conj Hc Hxq)).
      + split; [exact Hg'|]. split; [congruence|]. split; [tauto|].
        rewrite <- app_assoc in Hci'. exact Hci'.
  Qed.
End scroll_fold.
