(* BindInv.v -- the representation invariant of the binding list and the abstraction to
   the monitor's plain list of live bindings; preservation by the non-recursive pieces
   of src/bindings.c (bind_event, tombstoning a node, cleanup, the iteration guard). *)
From Coq Require Import ZArith List Bool Lia Sorted.
From Tickit Require Import BindDefs BindSpec.
Import ListNotations.
Local Open Scope Z_scope.

(* ------------------------------------------------------------ abstraction *)
Definition live (b : binding) : bool := negb (b_id b =? TOMBSTONE_ID).
Definition abs_of (b : binding) : abind := mkA (b_data b) (b_ev b) (b_flags b) (b_id b).
Definition abs_list (l : list binding) : list abind := map abs_of (filter live l).
Definition names (l : list binding) : list Z := map b_data l.

Definition node_ok (n : Z) (b : binding) : Prop :=
  - n < b_data b < n /\
  (live b = true -> 0 < b_id b /\ b_fn b <> None) /\
  (live b = false -> b = tombstone b).

Record SInv (n : Z) (s : bstate) : Prop := mkSInv {
  si_nodes : Forall (node_ok n) (first s);
  si_sorted : StronglySorted Z.lt (names (first s));
  si_ids : NoDup (map b_id (filter live (first s)));
  si_del : needs_del s = false -> forallb live (first s) = true;
  si_iter : is_iter s = false -> needs_del s = false }.

Definition iter_frame (f : frame) : bool :=
  match f with FEmit _ _ _ _ _ => true | FUnbind _ => true | _ => false end.
Definition iterating (st : list frame) : bool := existsb iter_frame st.

(* zs: bindings the monitor still holds but the C has already freed silently during a
   destruction (they did not ask to be told); empty everywhere else *)
Record RelD (w : world) (m : mstate) (zs : list abind) : Prop := mkRelD {
  r_inv : SInv (wn w) (ws w);
  r_live : m_live m = abs_list (first (ws w)) ++ zs;
  r_n : m_n m = wn w;
  r_pos : 0 < wn w;
  r_iter : is_iter (ws w) = iterating (m_stack m);
  r_zs_quiet : Forall (fun z => asked_destroy z = false) zs;
  r_zs_after : Forall (fun z => Forall (fun b => b_data b < a_name z) (first (ws w))) zs }.
Definition Rel (w : world) (m : mstate) : Prop := RelD w m [].

(* ------------------------------------------------------------ small facts *)
Lemma live_tombstone : forall b, live (tombstone b) = false.
Proof. reflexivity. Qed.

Lemma tombstone_idem : forall b, tombstone (tombstone b) = tombstone b.
Proof. reflexivity. Qed.

Lemma has_0 : forall bit, has 0 bit = false.
Proof. intros; unfold has; rewrite Z.land_0_l; reflexivity. Qed.

Lemma node_ok_mono : forall n n' b, n <= n' -> node_ok n b -> node_ok n' b.
Proof. unfold node_ok; intros n n' b Hle (Hr & Hl & Ht); repeat split; try lia; tauto. Qed.

Lemma node_ok_tombstone : forall n b, node_ok n b -> node_ok n (tombstone b).
Proof.
  unfold node_ok; intros n b (Hr & _ & _); cbn [tombstone b_data]; repeat split; try lia.
  - rewrite live_tombstone in H; discriminate.
  - rewrite live_tombstone in H; discriminate.
Qed.

Lemma abs_list_app : forall l1 l2, abs_list (l1 ++ l2) = abs_list l1 ++ abs_list l2.
Proof. intros; unfold abs_list; rewrite filter_app, map_app; reflexivity. Qed.

Lemma abs_list_cons_live : forall b l, live b = true -> abs_list (b :: l) = abs_of b :: abs_list l.
Proof. intros b l H; unfold abs_list; cbn [filter]; rewrite H; reflexivity. Qed.

Lemma abs_list_cons_dead : forall b l, live b = false -> abs_list (b :: l) = abs_list l.
Proof. intros b l H; unfold abs_list; cbn [filter]; rewrite H; reflexivity. Qed.

Lemma abs_names_in : forall l a, In a (abs_list l) -> In (a_name a) (names l).
Proof.
  intros l a H; unfold abs_list in H; apply in_map_iff in H; destruct H as (b & <- & Hb).
  apply filter_In in Hb; destruct Hb as (Hb & _); unfold names; cbn [abs_of a_name].
  apply in_map; exact Hb.
Qed.

Lemma abs_in_live : forall l a, In a (abs_list l) -> exists b, In b l /\ live b = true /\ a = abs_of b.
Proof.
  intros l a H; unfold abs_list in H; apply in_map_iff in H; destruct H as (b & <- & Hb).
  apply filter_In in Hb; destruct Hb; eauto.
Qed.

Lemma in_abs_list : forall l b, In b l -> live b = true -> In (abs_of b) (abs_list l).
Proof. intros l b Hin Hl; unfold abs_list; apply in_map; apply filter_In; auto. Qed.

(* ------------------------------------------------------------ sorted lists of names *)
Lemma sorted_app_inv : forall (l1 l2 : list Z), StronglySorted Z.lt (l1 ++ l2) ->
  StronglySorted Z.lt l1 /\ StronglySorted Z.lt l2 /\ forall x y, In x l1 -> In y l2 -> x < y.
Proof.
  induction l1 as [|a l1 IH]; cbn [app]; intros l2 H.
  - repeat split; [constructor | exact H | intros x y []].
  - inversion H as [|? ? Hs Hf]; subst. destruct (IH _ Hs) as (H1 & H2 & H3).
    repeat split; auto.
    + constructor; auto. rewrite Forall_forall in *; intros x Hx; apply Hf; apply in_or_app; auto.
    + intros x y [<-|Hx] Hy; [|auto]. rewrite Forall_forall in Hf; apply Hf; apply in_or_app; auto.
Qed.

Lemma sorted_app : forall (l1 l2 : list Z), StronglySorted Z.lt l1 -> StronglySorted Z.lt l2 ->
  (forall x y, In x l1 -> In y l2 -> x < y) -> StronglySorted Z.lt (l1 ++ l2).
Proof.
  induction l1 as [|a l1 IH]; cbn [app]; intros l2 H1 H2 H3; [exact H2|].
  inversion H1 as [|? ? Hs Hf]; subst. constructor.
  - apply IH; auto. intros; apply H3; cbn; auto.
  - rewrite Forall_forall in *; intros x Hx; apply in_app_or in Hx; destruct Hx as [Hx|Hx]; auto.
    apply H3; cbn; auto.
Qed.

Lemma sorted_nodup : forall l : list Z, StronglySorted Z.lt l -> NoDup l.
Proof.
  induction l as [|a l IH]; intros H; constructor; inversion H as [|? ? Hs Hf]; subst; auto.
  intros Hin; rewrite Forall_forall in Hf; specialize (Hf _ Hin); lia.
Qed.

Lemma sorted_filter : forall (f : Z -> bool) l, StronglySorted Z.lt l -> StronglySorted Z.lt (filter f l).
Proof.
  induction l as [|a l IH]; intros H; cbn [filter]; [constructor|].
  inversion H as [|? ? Hs Hf]; subst. destruct (f a); auto. constructor; auto.
  rewrite Forall_forall in *; intros x Hx; apply filter_In in Hx; destruct Hx; auto.
Qed.

(* names are unique keys *)
Lemma names_unique : forall l b1 b2, StronglySorted Z.lt (names l) ->
  In b1 l -> In b2 l -> b_data b1 = b_data b2 -> b1 = b2.
Proof.
  induction l as [|a l IH]; intros b1 b2 Hs H1 H2 He; [destruct H1|].
  cbn [names map] in Hs; inversion Hs as [|? ? Hs' Hf]; subst. rewrite Forall_forall in Hf.
  destruct H1 as [<-|H1], H2 as [<-|H2]; auto.
  - specialize (Hf (b_data b2) (in_map _ _ _ H2)); lia.
  - specialize (Hf (b_data b1) (in_map _ _ _ H1)); lia.
Qed.

(* ------------------------------------------------------------ find_node / next_of / update_node *)
Lemma find_node_some : forall d l b, find_node d l = Some b -> In b l /\ b_data b = d.
Proof.
  unfold find_node; intros d l b H; apply find_some in H; destruct H as (Hin & He).
  apply Z.eqb_eq in He; auto.
Qed.

Lemma find_node_in : forall d l, In d (names l) -> exists b, find_node d l = Some b.
Proof.
  unfold find_node; intros d l H. destruct (find (fun x => b_data x =? d) l) eqn:E; eauto.
  exfalso. unfold names in H; apply in_map_iff in H; destruct H as (b & <- & Hb).
  apply (find_none _ _ E) in Hb. rewrite Z.eqb_refl in Hb; discriminate.
Qed.

Lemma find_node_none : forall d l, find_node d l = None -> ~ In d (names l).
Proof. intros d l H Hin; destruct (find_node_in _ _ Hin) as (b & Hb); congruence. Qed.

Lemma names_update : forall d f l, (forall b, b_data (f b) = b_data b) -> names (update_node d f l) = names l.
Proof.
  intros d f l Hf; unfold names, update_node; rewrite map_map; apply map_ext; intros b.
  destruct (b_data b =? d); auto.
Qed.

Lemma next_of_in : forall d l, In d (names l) -> exists nx, next_of d l = Some nx.
Proof.
  induction l as [|b l IH]; cbn [names map In next_of]; intros H; [destruct H|].
  destruct (b_data b =? d) eqn:E; eauto. apply Z.eqb_neq in E. destruct H as [H|H]; [congruence|auto].
Qed.

(* the successor of d in a sorted list: everything behind d is at or behind the successor *)
Lemma next_of_sorted : forall d l nx, StronglySorted Z.lt (names l) -> next_of d l = Some nx ->
  In d (names l) /\
  match nx with
  | Some e => In e (names l) /\ d < e /\ forall x, In x (names l) -> d < x -> e <= x
  | None => forall x, In x (names l) -> x <= d
  end.
Proof.
  induction l as [|b l IH]; cbn [names map next_of]; intros nx Hs H; [discriminate|].
  inversion Hs as [|? ? Hs' Hf]; subst. rewrite Forall_forall in Hf.
  destruct (b_data b =? d) eqn:E.
  - apply Z.eqb_eq in E; subst d. injection H as <-. split; [cbn; auto|].
    destruct l as [|c l]; cbn [hd_error option_map].
    + intros x [<-|[]]; lia.
    + cbn [map] in *. assert (b_data b < b_data c) by (apply Hf; cbn; auto).
      split; [cbn; auto|]. split; [lia|].
      intros x [<-|[<-|Hx]] Hlt; try lia.
      inversion Hs' as [|? ? _ Hf']; subst. rewrite Forall_forall in Hf'. specialize (Hf' _ Hx); lia.
  - apply Z.eqb_neq in E. destruct (IH nx Hs' H) as (Hin & Hn). fold (names l) in *.
    split; [cbn; auto|]. assert (b_data b < d) by (apply Hf; exact Hin).
    destruct nx as [e|].
    + destruct Hn as (He & Hlt & Hmin). split; [cbn; auto|]. split; auto.
      intros x [<-|Hx] Hx2; [lia|auto].
    + intros x [<-|Hx]; [lia|auto].
Qed.

Lemma head_name_sorted : forall l, StronglySorted Z.lt (names l) ->
  match head_name l with
  | Some e => In e (names l) /\ forall x, In x (names l) -> e <= x
  | None => l = []
  end.
Proof.
  destruct l as [|b l]; cbn [head_name hd_error option_map names map]; intros Hs; auto.
  inversion Hs as [|? ? _ Hf]; subst. rewrite Forall_forall in Hf.
  split; [cbn; auto|]. intros x [<-|Hx]; [lia|]. specialize (Hf _ Hx); lia.
Qed.

(* ------------------------------------------------------------ abs_list and updates *)
Lemma abs_list_update_dead : forall d l,
  abs_list (update_node d tombstone l) = remove_live d (abs_list l).
Proof.
  induction l as [|b l IH]; [reflexivity|].
  cbn [update_node map]. fold (update_node d tombstone l).
  destruct (b_data b =? d) eqn:E.
  - rewrite abs_list_cons_dead by apply live_tombstone. rewrite IH.
    destruct (live b) eqn:Hl.
    + rewrite abs_list_cons_live by exact Hl. unfold remove_live at 2; cbn [filter abs_of a_name].
      rewrite E; reflexivity.
    + rewrite abs_list_cons_dead by exact Hl. reflexivity.
  - destruct (live b) eqn:Hl.
    + rewrite !abs_list_cons_live by exact Hl. rewrite IH. unfold remove_live at 2; cbn [filter abs_of a_name].
      rewrite E; reflexivity.
    + rewrite !abs_list_cons_dead by exact Hl. exact IH.
Qed.

Lemma forall_update : forall (P : binding -> Prop) d f l,
  Forall P l -> (forall b, P b -> P (f b)) -> Forall P (update_node d f l).
Proof.
  intros P d f l H Hf; unfold update_node; rewrite Forall_forall in *; intros x Hx.
  apply in_map_iff in Hx; destruct Hx as (b & <- & Hb). destruct (b_data b =? d); auto.
Qed.

Lemma filter_live_update : forall d l,
  filter live (update_node d tombstone l) = filter (fun b => negb (b_data b =? d)) (filter live l).
Proof.
  induction l as [|b l IH]; [reflexivity|]. cbn [update_node map]. fold (update_node d tombstone l).
  destruct (b_data b =? d) eqn:E.
  - cbn [filter]. rewrite live_tombstone, IH. destruct (live b); cbn [filter]; [rewrite E|]; reflexivity.
  - cbn [filter]. destruct (live b); cbn [filter]; [rewrite E; cbn [negb]|]; rewrite IH; reflexivity.
Qed.

Lemma nodup_map_filter : forall (A B : Type) (g : A -> B) (f : A -> bool) l,
  NoDup (map g l) -> NoDup (map g (filter f l)).
Proof.
  induction l as [|a l IH]; cbn [map filter]; intros H; [constructor|].
  inversion H as [|? ? Hn Hd]; subst. destruct (f a); auto. cbn [map]; constructor; auto.
  intros Hin; apply Hn. apply in_map_iff in Hin; destruct Hin as (x & <- & Hx).
  apply filter_In in Hx; destruct Hx; apply in_map; auto.
Qed.

(* ------------------------------------------------------------ tombstoning preserves the invariant *)
Lemma SInv_tombstone : forall n s d,
  SInv n s -> SInv n (mkS (update_node d tombstone (first s)) true true).
Proof.
  intros n s d [Hn Hs Hi Hd Ht]; constructor; cbn [first is_iter needs_del].
  - apply forall_update; auto. intros; apply node_ok_tombstone; auto.
  - rewrite names_update; auto.
  - rewrite filter_live_update. apply nodup_map_filter; auto.
  - discriminate.
  - discriminate.
Qed.

Lemma SInv_begin : forall n s, SInv n s -> SInv n (begin_iteration s).
Proof.
  intros n s [Hn Hs Hi Hd Ht]; constructor; unfold begin_iteration; cbn [first is_iter needs_del]; auto.
  discriminate.
Qed.

(* ------------------------------------------------------------ cleanup / end_iteration *)
Lemma filter_live_idem : forall l, filter live (filter live l) = filter live l.
Proof.
  induction l as [|b l IH]; [reflexivity|]. cbn [filter]. destruct (live b) eqn:E; auto.
  cbn [filter]; rewrite E, IH; reflexivity.
Qed.

Lemma cleanup_first : forall s, first (cleanup s) = filter live (first s).
Proof. reflexivity. Qed.

Lemma SInv_cleanup : forall n l it nd,
  Forall (node_ok n) l -> StronglySorted Z.lt (names l) -> NoDup (map b_id (filter live l)) ->
  SInv n (cleanup (mkS l it nd)).
Proof.
  intros n l it nd Hn Hs Hi; constructor; unfold cleanup; cbn [first is_iter needs_del]; auto.
  - rewrite Forall_forall in *; intros x Hx. apply filter_In in Hx; destruct Hx; auto.
  - fold live. unfold names in *. clear - Hs. induction l as [|b l IH]; cbn [filter map]; [constructor|].
    cbn [map] in Hs; inversion Hs as [|? ? Hs' Hf]; subst. destruct (live b); auto.
    cbn [map]; constructor; auto. rewrite Forall_forall in *; intros x Hx.
    apply in_map_iff in Hx; destruct Hx as (y & <- & Hy). apply filter_In in Hy; destruct Hy.
    apply Hf; apply in_map; auto.
  - fold live. rewrite filter_live_idem; auto.
  - intros _. fold live. apply forallb_forall; intros x Hx; apply filter_In in Hx; tauto.
Qed.

Lemma abs_list_cleanup : forall s, abs_list (first (cleanup s)) = abs_list (first s).
Proof. intros; rewrite cleanup_first; unfold abs_list; rewrite filter_live_idem; reflexivity. Qed.

Lemma names_cleanup_incl : forall s x, In x (names (first (cleanup s))) -> In x (names (first s)).
Proof.
  intros s x; rewrite cleanup_first; unfold names; intros H; apply in_map_iff in H.
  destruct H as (b & <- & Hb); apply filter_In in Hb; destruct Hb; apply in_map; auto.
Qed.

(* the state after `is_iterating = was; if(!was && needs_delete) cleanup()` *)
Lemma SInv_end_iteration : forall n s was,
  SInv n s -> is_iter s = true -> SInv n (end_iteration was s).
Proof.
  intros n s was [Hn Hs Hi Hd Ht] Hit. unfold end_iteration; cbn [needs_del first is_iter].
  destruct was; cbn [negb andb].
  - constructor; cbn [first is_iter needs_del]; auto; discriminate.
  - destruct (needs_del s) eqn:End.
    + apply SInv_cleanup; auto.
    + constructor; cbn [first is_iter needs_del]; auto.
Qed.

Lemma abs_list_end_iteration : forall was s, abs_list (first (end_iteration was s)) = abs_list (first s).
Proof.
  intros was s; unfold end_iteration; cbn [needs_del].
  destruct (negb was && needs_del s); [rewrite abs_list_cleanup|]; reflexivity.
Qed.

Lemma is_iter_end_iteration : forall was s, is_iter (end_iteration was s) = was.
Proof. intros was s; unfold end_iteration; cbn [needs_del]. destruct (negb was && needs_del s); reflexivity. Qed.

Lemma names_end_iteration_true : forall s, names (first (end_iteration true s)) = names (first s).
Proof. reflexivity. Qed.

Lemma NoDup_snoc : forall (A : Type) (l : list A) x, NoDup l -> ~ In x l -> NoDup (l ++ [x]).
Proof.
  induction l as [|a l IH]; cbn [app]; intros x Hn Hx; [constructor; [intros []|constructor]|].
  inversion Hn as [|? ? Ha Hl]; subst. constructor.
  - intros Hin; apply in_app_or in Hin; destruct Hin as [Hin|[<-|[]]]; [auto|]. apply Hx; cbn; auto.
  - apply IH; auto. intros Hin; apply Hx; cbn; auto.
Qed.

(* ------------------------------------------------------------ bind_event *)
Lemma max_id_ge_aux : forall l m0, m0 <= fold_left (fun m b => if b_id b >? m then b_id b else m) l m0 /\
  forall b, In b l -> b_id b <= fold_left (fun m b => if b_id b >? m then b_id b else m) l m0.
Proof.
  induction l as [|a l IH]; cbn [fold_left]; intros m0; [split; [lia|intros b []]|].
  destruct (IH (if b_id a >? m0 then b_id a else m0)) as (H1 & H2).
  split.
  - destruct (b_id a >? m0) eqn:E; lia.
  - intros b [Heq|Hb]; [subst b|auto]. destruct (b_id a >? m0) eqn:E; lia.
Qed.

Lemma max_id_ge : forall l, 0 <= max_id l /\ forall b, In b l -> b_id b <= max_id l.
Proof. intros l; apply max_id_ge_aux. Qed.

Lemma live_new : forall l ev fl fn d, live (mkB (max_id l + 1) ev fl fn d) = true.
Proof.
  intros; unfold live, TOMBSTONE_ID; cbn [b_id]. destruct (max_id_ge l) as (H & _).
  apply negb_true_iff; apply Z.eqb_neq; lia.
Qed.

Lemma SInv_bind : forall n s ev flags hid,
  SInv n s -> 0 < n ->
  SInv (n + 1) (fst (bind_event s ev flags (Some hid) (if has flags BIND_FIRST then - n else n))).
Proof.
  intros n s ev flags hid [Hn Hs Hi Hd Ht] Hpos. unfold bind_event; cbn [fst].
  set (nb := mkB (max_id (first s) + 1) ev _ (Some hid) _).
  assert (Hlive : live nb = true) by apply live_new.
  assert (Hok : node_ok (n + 1) nb).
  { unfold node_ok; subst nb; cbn [b_data b_id b_fn]. destruct (max_id_ge (first s)) as (H0 & _).
    repeat split; try (destruct (has flags BIND_FIRST); lia); try discriminate.
    intros H; rewrite Hlive in H; discriminate. }
  assert (Hn' : Forall (node_ok (n + 1)) (first s)).
  { rewrite Forall_forall in *; intros x Hx; apply node_ok_mono with n; [lia|auto]. }
  assert (Hrange : forall x, In x (names (first s)) -> - n < x < n).
  { intros x Hx; unfold names in Hx; apply in_map_iff in Hx; destruct Hx as (b & <- & Hb).
    rewrite Forall_forall in Hn; apply Hn; auto. }
  assert (Hfresh : ~ In (b_id nb) (map b_id (filter live (first s)))).
  { intros Hin; apply in_map_iff in Hin; destruct Hin as (b & He & Hb). apply filter_In in Hb; destruct Hb as (Hb & _).
    destruct (max_id_ge (first s)) as (_ & Hmax). specialize (Hmax _ Hb). subst nb; cbn [b_id] in He. lia. }
  destruct (has flags BIND_FIRST) eqn:Ef; constructor; cbn [first is_iter needs_del]; auto.
  - cbn [names map]. constructor; auto. rewrite Forall_forall; intros x Hx. subst nb; cbn [b_data].
    specialize (Hrange _ Hx); lia.
  - cbn [filter]; rewrite Hlive; cbn [map]. constructor; auto.
  - intros H; cbn [forallb]; rewrite Hlive; cbn [andb]; auto.
  - apply Forall_app; split; auto.
  - unfold names; rewrite map_app. apply sorted_app; auto.
    + cbn [map]; constructor; constructor.
    + intros x y Hx [<-|[]]. subst nb; cbn [b_data]. specialize (Hrange _ Hx); lia.
  - rewrite filter_app, map_app. cbn [filter]; rewrite Hlive; cbn [map].
    apply NoDup_snoc; auto.
  - intros H. rewrite forallb_app; rewrite (Hd H); cbn [forallb]; rewrite Hlive; reflexivity.
Qed.
