(* WinC02Exact.v -- C02, exact form: the functional description of what a flush does with
   ARBITRARY drawing programs.  Each cell of the render buffer that a window may draw ends up
   with what THAT WINDOW'S OWN PROGRAM, run on the cell's previous content at the cell's
   position relative to the window, leaves there.  In particular line segments accumulate
   within the owner's program only, never across windows.

     prog_cell / run_prog_cells      what a program does to one cell
     prog_cell_in / prog_cell_in_eq  the same for a cell inside the handed rectangle (the only
                                     way a program reads the rectangle is DPaint's membership test)
     do_expose_exact_at              _do_expose, per cell
     flush_rb_exact_gen / flush_rb_exact, win_flush_exact
                                     the flush loop over pairwise disjoint damage, and the terminal
     cell_after_prog_cell            the oracle's [cell_after] (WinSpec.v) is the content of prog_cell
     line_bits_prog_cell, lines_do_not_cross_windows, win_flush_lines
                                     the line bits of a cell are exactly the OR of the OWNER's own
                                     line ops issued after its last non-line op at that cell
     exact_nonvacuous                two crossing lines of two windows do not merge *)
From Coq Require Import ZArith List Bool Lia ZifyBool.
From Tickit Require Import RectDefs RectProofs WinRectSet WinDefs WinSpec WinExposeProofs WinFlushProofs.
Import ListNotations.
Local Open Scope Z_scope.

(* ------------------------------------------------------------------------------------ *)
(* 1. what a program does to one cell                                                    *)

(* the per-cell effect of rb_draw: [pt] = what the primitive wants at the relative cell p *)
Definition cell_step (id : Z) (p : cell) (v : option (Z * Z * cell)) (pt : option paint)
  : option (Z * Z * cell) :=
  match pt with
  | Some (PSet c) => Some (c, id, p)
  | Some PSkip => None
  | Some (PLine bits) => Some (LINEBASE + Z.lor (line_bits v) bits, id, p)
  | None => v
  end.

Definition prog_cell (app : Z -> Z -> Z -> Z) (prog : list dop) (id : Z) (handed : rect) (nl nc : Z)
  (p : cell) (v : option (Z * Z * cell)) : option (Z * Z * cell) :=
  fold_left (fun v o => cell_step id p v (dop_cells app id handed nl nc o p)) prog v.

Lemma run_prog_frame app prog id handed b :
  same_frame b (run_prog app prog id handed b) /\
  forall q, rb_mask (run_prog app prog id handed b) q = rb_mask b q.
Proof.
  destruct (prog_handler_ok app (fun _ => prog) id handed b) as (Hf & Hm & _).
  split; [exact Hf|exact Hm].
Qed.

Theorem run_prog_cells app prog id handed : forall b q,
  rb_cells (run_prog app prog id handed b) q =
  if rb_drawable b q
  then prog_cell app prog id handed (rb_lines b) (rb_cols b) (rel b q) (rb_cells b q)
  else rb_cells b q.
Proof.
  induction prog as [|o prog IH]; intros b q.
  - unfold run_prog, prog_cell; cbn [fold_left]. destruct (rb_drawable b q); reflexivity.
  - unfold run_prog in IH |- *. cbn [fold_left]. rewrite IH.
    set (b1 := rb_draw b id (dop_cells app id handed (rb_lines b) (rb_cols b) o)).
    change (rb_drawable b1 q) with (rb_drawable b q).
    change (rb_lines b1) with (rb_lines b). change (rb_cols b1) with (rb_cols b).
    change (rel b1 q) with (rel b q).
    subst b1. rewrite rb_draw_cells.
    destruct (rb_drawable b q) eqn:Hd; [|reflexivity].
    unfold prog_cell; cbn [fold_left]. unfold cell_step. reflexivity.
Qed.

(* ------------------------------------------------------------------------------------ *)
(* 2. the handed rectangle only matters through "p is inside it"                         *)

Lemma dop_cells_handed app id h1 h2 nl nc o p :
  cell_inb h1 p = cell_inb h2 p ->
  dop_cells app id h1 nl nc o p = dop_cells app id h2 nl nc o p.
Proof.
  intros H. destruct p as [y x]. unfold dop_cells.
  destruct o; try reflexivity. rewrite H. reflexivity.
Qed.

Lemma prog_cell_handed app prog id h1 h2 nl nc p :
  cell_inb h1 p = cell_inb h2 p ->
  forall v, prog_cell app prog id h1 nl nc p v = prog_cell app prog id h2 nl nc p v.
Proof.
  intros H. unfold prog_cell. induction prog as [|o prog IH]; intros v; cbn [fold_left]; [reflexivity|].
  rewrite (dop_cells_handed app id h1 h2 nl nc o p H). apply IH.
Qed.

(* the one-cell rectangle at p *)
Definition unit_rect (p : cell) : rect := mkRect (fst p) (snd p) 1 1.

Lemma unit_rect_in p : cell_inb (unit_rect p) p = true.
Proof. unfold cell_inb, unit_rect, bottom, right; cbn [top left lines cols]. lia. Qed.

(* prog_cell for a cell that lies inside the rectangle handed to the handler *)
Definition prog_cell_in (app : Z -> Z -> Z -> Z) (prog : list dop) (id : Z) (nl nc : Z)
  (p : cell) (v : option (Z * Z * cell)) : option (Z * Z * cell) :=
  prog_cell app prog id (unit_rect p) nl nc p v.

Lemma prog_cell_in_eq app prog id handed nl nc p v :
  cell_in handed p ->
  prog_cell app prog id handed nl nc p v = prog_cell_in app prog id nl nc p v.
Proof.
  intros H. unfold prog_cell_in. apply prog_cell_handed.
  rewrite unit_rect_in. apply cell_inb_iff. exact H.
Qed.

(* ------------------------------------------------------------------------------------ *)
(* 3. _do_expose and the flush, per cell                                                 *)

Section exact.
  Variable app : Z -> Z -> Z -> Z.
  Variable progs : Z -> list dop.
  Let hnd := prog_handler app progs.

  (* what the owner x = (window, relative position) makes of the content v *)
  Definition exact_val (nl nc : Z) (x : Z * cell) (v : option (Z * Z * cell)) : option (Z * Z * cell) :=
    prog_cell_in app (progs (fst x)) (fst x) nl nc (snd x) v.

  Lemma exact_val_pair nl nc x v :
    exact_val nl nc x v = let '(w, pw) := x in prog_cell_in app (progs w) w nl nc pw v.
  Proof. destruct x as [w pw]. reflexivity. Qed.

  Definition exact_at (t : wtree) : Prop :=
    forall r b, pre b r ->
      let b' := do_expose hnd t r b in
      same_frame b b' /\ mask_grows b b' /\
      forall q, rb_cells b' q =
                if rb_drawable b q
                then exact_val (rb_lines b) (rb_cols b) (owner_rel t (rel b q)) (rb_cells b q)
                else rb_cells b q.

  Lemma kids_exact r l :
    Forall exact_at l ->
    forall b, pre b r ->
      let b' := expose_kids hnd r l b in
      same_frame b b' /\
      (forall q, rb_mask b' q =
                 match rb_mask b q with
                 | Some k => Some k
                 | None => if vis_cover l (rel b q) && rb_inb b q then Some (rb_depth b) else None
                 end) /\
      (forall q, rb_cells b' q =
                 if rb_drawable b q
                 then match first_owner l (rel b q) with
                      | Some x => exact_val (rb_lines b) (rb_cols b) x (rb_cells b q)
                      | None => rb_cells b q
                      end
                 else rb_cells b q).
  Proof.
    induction 1 as [|c rest Hc Hrest IH]; intros b Hpre.
    - cbn [expose_kids vis_cover existsb first_owner]. split; [apply same_frame_refl|]. split.
      + intros q. destruct (rb_mask b q); reflexivity.
      + intros q. destruct (rb_drawable b q); reflexivity.
    - cbn [expose_kids]. destruct (w_vis (t_info c)) eqn:Hv; cbn [negb].
      2:{ destruct (IH b Hpre) as (Hf & Hm & Hcl). split; [exact Hf|]. split.
          - intros q. rewrite Hm. cbn [vis_cover existsb]. rewrite Hv. reflexivity.
          - intros q. rewrite Hcl. cbn [first_owner]. rewrite Hv. reflexivity. }
      (* the state after the child's own expose, before its rectangle is masked *)
      set (b0 := match r_intersect r (w_rect (t_info c)) with
                 | Some ex => rb_restore (do_expose hnd c (r_translate ex (- top (w_rect (t_info c))) (- left (w_rect (t_info c))))
                                                    (rb_translate (rb_clip_to (rb_save b) ex) (top (w_rect (t_info c))) (left (w_rect (t_info c)))))
                 | None => b
                 end).
      assert (H0 : same_frame b b0 /\ (forall q, rb_mask b0 q = rb_mask b q) /\
                   forall q, rb_cells b0 q =
                             if rb_drawable b q && cell_inb (w_rect (t_info c)) (rel b q)
                             then exact_val (rb_lines b) (rb_cols b)
                                            (owner_rel c (fst (rel b q) - top (w_rect (t_info c)), snd (rel b q) - left (w_rect (t_info c))))
                                            (rb_cells b q)
                             else rb_cells b q).
      { subst b0. destruct (r_intersect r (w_rect (t_info c))) as [ex|] eqn:Hex.
        - fold (child_frame b ex (top (w_rect (t_info c))) (left (w_rect (t_info c)))).
          pose proof (child_pre b r c Hpre ex Hex) as Hp1.
          destruct (Hc _ _ Hp1) as (Hf2 & Hg2 & Hc2).
          destruct (restore_child b ex _ _ _ Hf2) as (Hf3 & Hc3 & _).
          split; [exact Hf3|]. split.
          + apply (child_restore_mask b r c Hpre ex _ Hf2 Hg2).
          + intros q. rewrite Hc3, Hc2. rewrite (child_drawable b r c Hpre ex q Hex).
            rewrite (child_rel b c ex q).
            destruct (child_frame_fields b ex (top (w_rect (t_info c))) (left (w_rect (t_info c)))) as (-> & -> & -> & _).
            reflexivity.
        - split; [apply same_frame_refl|]. split; [reflexivity|].
          intros q. rewrite (child_none_drawable b r c Hpre q Hex). reflexivity. }
      destruct H0 as (Hf0 & Hm0 & Hc0).
      destruct (mask_rect_fields b0 (w_rect (t_info c))) as (Hf4 & Hc4 & Hm4).
      set (b4 := rb_mask_rect b0 (w_rect (t_info c))) in *.
      assert (Hf04 : same_frame b b4) by (eapply same_frame_trans; eassumption).
      assert (Hp4 : pre b4 r).
      { destruct Hpre as (Hok & Hci & Hw). split; [|split].
        - intros q k Hk. rewrite Hm4, Hm0 in Hk.
          destruct Hf04 as (_ & _ & _ & _ & _ & Hd & _). rewrite Hd.
          destruct (rb_mask b q) as [k'|] eqn:Ek.
          + injection Hk as <-. apply (Hok q k' Ek).
          + destruct (cell_inb (w_rect (t_info c)) (rel b0 q) && rb_inb b0 q); [|discriminate].
            injection Hk as <-. destruct Hf0 as (_ & _ & _ & _ & _ & Hd0 & _). lia.
        - intros q Hq. rewrite (same_frame_in_clip _ _ q Hf04) in Hq.
          rewrite (same_frame_inb _ _ q Hf04). apply Hci; exact Hq.
        - intros q Hq. rewrite (same_frame_rel _ _ q Hf04). apply Hw.
          rewrite drawable_spec in Hq |- *. rewrite (same_frame_in_clip _ _ q Hf04) in Hq.
          apply andb_true_iff in Hq. destruct Hq as [Hq1 Hq2]. rewrite Hq1. cbn [andb].
          rewrite Hm4, Hm0 in Hq2. destruct (rb_mask b q); [discriminate|reflexivity]. }
      destruct (IH b4 Hp4) as (Hf5 & Hm5 & Hc5).
      split; [eapply same_frame_trans; eassumption|]. split.
      + intros q. rewrite Hm5, Hm4, Hm0.
        rewrite (same_frame_rel _ _ q Hf04), (same_frame_rel _ _ q Hf0).
        rewrite (same_frame_inb _ _ q Hf04), (same_frame_inb _ _ q Hf0).
        destruct Hf04 as (_ & _ & _ & _ & _ & Hd & _). rewrite Hd.
        destruct Hf0 as (_ & _ & _ & _ & _ & Hd0 & _). rewrite Hd0.
        cbn [vis_cover existsb]. rewrite Hv. cbn [andb].
        destruct (rb_mask b q); [reflexivity|].
        destruct (cell_inb (w_rect (t_info c)) (rel b q)); cbn [andb orb].
        * destruct (rb_inb b q); [reflexivity|]. rewrite andb_false_r. reflexivity.
        * reflexivity.
      + intros q. rewrite Hc5. rewrite Hc4, Hc0.
        rewrite (same_frame_rel _ _ q Hf04).
        pose proof Hf04 as (Hl04 & Hc04 & _). rewrite Hl04, Hc04.
        cbn [first_owner]. rewrite Hv. cbn [andb].
        rewrite (drawable_spec b4), (same_frame_in_clip _ _ q Hf04), Hm4, Hm0.
        rewrite (same_frame_rel _ _ q Hf0), (same_frame_inb _ _ q Hf0).
        destruct (rb_drawable b q) eqn:Hd.
        * pose proof (drawable_in_clip _ _ Hd) as Hic. pose proof (drawable_mask_none _ _ Hd) as Hmn.
          rewrite Hic, Hmn. cbn [andb].
          destruct Hpre as (_ & Hci & _). rewrite (Hci q Hic).
          destruct (cell_inb (w_rect (t_info c)) (rel b q)); cbn [andb]; reflexivity.
        * cbn [andb]. rewrite drawable_spec in Hd.
          destruct (in_clip b q); cbn [andb] in *; [|reflexivity].
          destruct (rb_mask b q); [reflexivity|discriminate].
  Qed.

  Theorem do_expose_exact_at : forall t, exact_at t.
  Proof.
    apply wtree_ind2. intros i ch Hch r b Hpre. rewrite do_expose_unfold.
    destruct (kids_exact r ch Hch b Hpre) as (Hf1 & Hm1 & Hc1).
    set (b1 := expose_kids hnd r ch b) in *.
    destruct (run_prog_frame app (progs (w_id i)) (w_id i) r b1) as (Hf2 & Hm2).
    pose proof (run_prog_cells app (progs (w_id i)) (w_id i) r b1) as Hc2.
    change (run_prog app (progs (w_id i)) (w_id i) r b1) with (hnd (w_id i) r b1) in Hf2, Hm2, Hc2.
    split; [eapply same_frame_trans; eassumption|]. split.
    - intros q. rewrite Hm2, Hm1. destruct (rb_mask b q); [left; reflexivity|].
      destruct (vis_cover ch (rel b q) && rb_inb b q); [right; split; reflexivity|left; reflexivity].
    - intros q. rewrite Hc2, Hc1. rewrite owner_rel_unfold.
      rewrite (same_frame_rel _ _ q Hf1).
      pose proof Hf1 as (Hl1 & Hcc1 & _). rewrite Hl1, Hcc1.
      rewrite (drawable_spec b1), (same_frame_in_clip _ _ q Hf1), Hm1.
      destruct (rb_drawable b q) eqn:Hd.
      + pose proof (drawable_in_clip _ _ Hd) as Hic. pose proof (drawable_mask_none _ _ Hd) as Hmn.
        rewrite Hic, Hmn. cbn [andb].
        destruct Hpre as (_ & Hci & Hw). rewrite (Hci q Hic). rewrite andb_true_r.
        destruct (first_owner ch (rel b q)) as [x|] eqn:Efo.
        * assert (Hvc : vis_cover ch (rel b q) = true).
          { destruct (vis_cover ch (rel b q)) eqn:E; [reflexivity|].
            apply first_owner_none in E. congruence. }
          rewrite Hvc. reflexivity.
        * apply first_owner_none in Efo. rewrite Efo.
          unfold exact_val; cbn [fst snd]. apply prog_cell_in_eq. apply Hw. exact Hd.
      + rewrite drawable_spec in Hd.
        destruct (in_clip b q); cbn [andb] in *; [|reflexivity].
        destruct (rb_mask b q); [reflexivity|discriminate].
  Qed.

  (* the statement with the owner spelled out *)
  Corollary do_expose_exact t r b :
    pre b r ->
    let b' := do_expose (prog_handler app progs) t r b in
    same_frame b b' /\ mask_grows b b' /\
    forall q, rb_cells b' q =
              if rb_drawable b q
              then (let '(w, pw) := owner_rel t (rel b q) in
                    prog_cell_in app (progs w) w (rb_lines b) (rb_cols b) pw (rb_cells b q))
              else rb_cells b q.
  Proof.
    intros Hpre. destruct (do_expose_exact_at t r b Hpre) as (Hf & Hg & Hc).
    split; [exact Hf|]. split; [exact Hg|]. intros q. rewrite <- exact_val_pair. apply Hc.
  Qed.

  (* ---------------------------------------------------------------------------------- *)
  (* the flush loop                                                                      *)

  Lemma in_any_disjoint R rest q :
    Forall (disjoint2 R) rest -> cell_inb R q = true -> in_any rest q = true -> False.
  Proof.
    intros Hd HR Hr. unfold in_any in Hr. apply existsb_exists in Hr. destruct Hr as (R' & Hin & HR').
    rewrite Forall_forall in Hd. apply (Hd R' Hin q). split; apply cell_inb_iff; assumption.
  Qed.

  (* from ANY buffer between two rectangles: a cell inside the buffer and inside some
     rectangle gets what its owner's program makes of its previous content *)
  Theorem flush_rb_exact_gen tree L C rects :
    pairwise_disjoint rects ->
    forall b, flush_state L C b ->
      let b' := flush_rb (prog_handler app progs) tree rects b in
      flush_state L C b' /\
      forall q, rb_cells b' q =
                if rb_full L C q && in_any rects q
                then exact_val L C (owner_rel tree q) (rb_cells b q)
                else rb_cells b q.
  Proof.
    fold hnd.
    induction rects as [|R rest IH]; intros Hpd b Hfs; cbn [flush_rb fold_left].
    - split; [exact Hfs|]. intros q. unfold in_any; cbn [existsb]. rewrite andb_false_r. reflexivity.
    - destruct Hpd as [Hd Hpd].
      destruct (rect_frame_pre L C b R Hfs) as (Hpre & Hdr & Hrel & Hcells).
      destruct (do_expose_exact_at tree R (rect_frame b R) Hpre) as (Hf & Hg & Hc).
      fold (rect_frame b R).
      destruct (rect_restore L C b R _ Hfs Hf Hg) as (Hfs' & Hc').
      destruct (IH Hpd _ Hfs') as (Hfs'' & Hc'').
      split; [exact Hfs''|]. intros q.
      unfold flush_rb in Hc'' |- *. rewrite Hc'', Hc', !Hc, Hdr, Hrel, Hcells.
      change (rb_lines (rect_frame b R)) with (rb_lines b).
      change (rb_cols (rect_frame b R)) with (rb_cols b).
      destruct Hfs as (Hl & Hcc & _). rewrite Hl, Hcc.
      unfold in_any; cbn [existsb]. fold (in_any rest q).
      destruct (rb_full L C q); cbn [andb]; [|reflexivity].
      destruct (in_any rest q) eqn:Er.
      + destruct (cell_inb R q) eqn:ER.
        * exfalso. exact (in_any_disjoint R rest q Hd ER Er).
        * reflexivity.
      + rewrite orb_false_r. destruct (cell_inb R q); reflexivity.
  Qed.

  (* the buffer of a flush starts empty *)
  Theorem flush_rb_exact tree L C rects b :
    pairwise_disjoint rects -> flush_state L C b -> (forall q, rb_cells b q = None) ->
    let b' := flush_rb (prog_handler app progs) tree rects b in
    flush_state L C b' /\
    forall q, rb_cells b' q =
              if rb_full L C q && in_any rects q
              then (let '(w, pw) := owner_rel tree q in prog_cell_in app (progs w) w L C pw None)
              else None.
  Proof.
    intros Hpd Hfs Hemp. destruct (flush_rb_exact_gen tree L C rects Hpd b Hfs) as (Hfs' & Hc).
    split; [exact Hfs'|]. intros q. rewrite Hc, Hemp, exact_val_pair. reflexivity.
  Qed.

  (* ---------------------------------------------------------------------------------- *)
  (* the terminal                                                                        *)

  Definition content (v : option (Z * Z * cell)) : option Z :=
    match v with Some (c, _, _) => Some c | None => None end.

  Theorem win_flush_exact cfg st tm st' tm' lg :
    win_flush cfg (prog_handler app progs) st tm = (st', tm', lg) ->
    pairwise_disjoint (flush_rects cfg (after_queue st)) ->
    forall q,
      t_grid tm' q =
      if r_later st && r_nexp (after_queue st) &&
         cell_inb (root_selfrect st') q && in_any (flush_rects cfg (after_queue st)) q
      then match content (let '(w, pw) := owner_rel (r_tree st') q in
                          prog_cell_in app (progs w) w (lines (root_selfrect st')) (cols (root_selfrect st')) pw None) with
           | Some c => c
           | None => t_grid tm q
           end
      else t_grid tm q.
  Proof.
    intros Hfl Hpd q. destruct (r_later st) eqn:Hl.
    2:{ unfold win_flush in Hfl. rewrite Hl in Hfl. cbn [negb] in Hfl. injection Hfl as <- <- <-. reflexivity. }
    rewrite (win_flush_unfold cfg _ st tm Hl) in Hfl. cbn zeta in Hfl.
    destruct (r_nexp (after_queue st)) eqn:Hne.
    2:{ cbn [andb]. destruct (r_nrest (after_queue st)); injection Hfl as <- <- <-.
        - rewrite do_restore_grid. reflexivity.
        - reflexivity. }
    injection Hfl as <- <- <-. cbn [andb r_tree set_flags set_damage].
    rewrite do_restore_grid. unfold term_flush_rb, term_set_grid, term_set_cvis; cbn [t_grid].
    set (st2 := after_queue st) in *.
    change (root_selfrect (set_flags (set_flags (set_damage st2 []) false true (r_later st2)) false false (r_later st2)))
      with (root_selfrect st2).
    pose (L := lines (root_selfrect st2)). pose (C := cols (root_selfrect st2)).
    destruct (flush_rb_exact (r_tree st2) L C (flush_rects cfg st2) (rb_new L C) Hpd (flush_state_new L C))
      as (_ & Hc); [reflexivity|].
    change (flush_rb (prog_handler app progs) (r_tree st2) (flush_rects cfg st2) (rb_new L C))
      with (flush_buffer cfg (prog_handler app progs) st2) in Hc.
    rewrite (Hc q).
    assert (Efull : rb_full L C q = cell_inb (root_selfrect st2) q).
    { unfold rb_full, cell_inb, root_selfrect, selfrect, bottom, right; cbn [top left lines cols].
      subst L C. unfold root_selfrect, selfrect; cbn [lines cols]. apply eq_true_iff_eq. lia. }
    rewrite Efull. fold L C.
    destruct (cell_inb (root_selfrect st2) q && in_any (flush_rects cfg st2) q); [|reflexivity].
    destruct (owner_rel (r_tree st2) q) as [w pw].
    destruct (prog_cell_in app (progs w) w L C pw None) as [[[c w'] p']|]; reflexivity.
  Qed.

  (* in particular: outside (damage /\ screen) nothing changes *)
  Corollary win_flush_exact_outside cfg st tm st' tm' lg q :
    win_flush cfg (prog_handler app progs) st tm = (st', tm', lg) ->
    pairwise_disjoint (flush_rects cfg (after_queue st)) ->
    cell_inb (root_selfrect st') q && in_any (flush_rects cfg (after_queue st)) q = false ->
    t_grid tm' q = t_grid tm q.
  Proof.
    intros Hfl Hpd Hout. rewrite (win_flush_exact cfg st tm st' tm' lg Hfl Hpd q).
    rewrite <- andb_assoc, Hout, andb_false_r. reflexivity.
  Qed.
End exact.

(* ------------------------------------------------------------------------------------ *)
(* 4. the oracle's cell_after                                                            *)

Lemma line_bits_content v :
  line_bits v = match content v with Some c => if is_line c then c - LINEBASE else 0 | None => 0 end.
Proof. destruct v as [[[c w] p]|]; reflexivity. Qed.

Theorem cell_after_prog_cell app prog id handed nl nc q :
  cell_after app prog id handed nl nc q = content (prog_cell app prog id handed nl nc q None).
Proof.
  unfold cell_after, prog_cell.
  assert (H : forall v : option (Z * Z * cell),
            fold_left (fun v0 o =>
               match dop_cells app id handed nl nc o q with
               | Some (PSet c) => Some c
               | Some PSkip => None
               | Some (PLine b) =>
                 Some (LINEBASE + Z.lor (match v0 with Some c => if is_line c then c - LINEBASE else 0 | None => 0 end) b)
               | None => v0
               end) prog (content v) =
            content (fold_left (fun v0 o => cell_step id q v0 (dop_cells app id handed nl nc o q)) prog v)).
  { induction prog as [|o prog IH]; intros v; cbn [fold_left]; [reflexivity|].
    rewrite <- IH. f_equal.
    destruct (dop_cells app id handed nl nc o q) as [[c| |bits]|]; cbn [cell_step content]; try reflexivity.
    rewrite line_bits_content. reflexivity. }
  exact (H None).
Qed.

Corollary cell_after_prog_cell_in app prog id handed nl nc q :
  cell_in handed q ->
  cell_after app prog id handed nl nc q = content (prog_cell_in app prog id nl nc q None).
Proof. intros H. rewrite cell_after_prog_cell, (prog_cell_in_eq _ _ _ _ _ _ _ _ H). reflexivity. Qed.

(* ------------------------------------------------------------------------------------ *)
(* 5. line segments do not cross windows                                                 *)

(* the OR of the bits of the line ops the program issues at p after its last non-line op
   there, on top of [acc] *)
Definition tail_bits (app : Z -> Z -> Z -> Z) (prog : list dop) (id : Z) (handed : rect) (nl nc : Z)
  (p : cell) (acc : Z) : Z :=
  fold_left (fun a o => match dop_cells app id handed nl nc o p with
                        | Some (PLine b) => Z.lor a b
                        | Some _ => 0
                        | None => a
                        end) prog acc.

(* the OR of the bits of ALL the line ops the program issues at p, on top of [acc] *)
Definition own_bits_from (app : Z -> Z -> Z -> Z) (prog : list dop) (id : Z) (handed : rect) (nl nc : Z)
  (p : cell) (acc : Z) : Z :=
  fold_left (fun a o => match dop_cells app id handed nl nc o p with
                        | Some (PLine b) => Z.lor a b
                        | _ => a
                        end) prog acc.
Definition own_bits app prog id handed nl nc p : Z := own_bits_from app prog id handed nl nc p 0.

Definition bits_sub (a b : Z) : Prop := Z.land a (Z.lnot b) = 0.

Lemma bits_sub_spec a b :
  bits_sub a b <-> forall n, 0 <= n -> Z.testbit a n = true -> Z.testbit b n = true.
Proof.
  unfold bits_sub. split.
  - intros H n Hn Ha.
    assert (H0 : Z.testbit (Z.land a (Z.lnot b)) n = false) by (rewrite H; apply Z.bits_0).
    rewrite Z.land_spec, Z.lnot_spec, Ha in H0 by exact Hn.
    destruct (Z.testbit b n); [reflexivity|discriminate].
  - intros H. apply Z.bits_inj'. intros n Hn.
    rewrite Z.land_spec, Z.lnot_spec, Z.bits_0 by exact Hn.
    destruct (Z.testbit a n) eqn:E; [|reflexivity]. rewrite (H n Hn E). reflexivity.
Qed.

Lemma bits_sub_0 b : bits_sub 0 b.
Proof. apply bits_sub_spec. intros n _ H. rewrite Z.bits_0 in H. discriminate. Qed.

Lemma bits_sub_lor a a' b : bits_sub a a' -> bits_sub (Z.lor a b) (Z.lor a' b).
Proof.
  rewrite !bits_sub_spec. intros H n Hn. rewrite !Z.lor_spec. intros H1.
  apply orb_true_iff in H1. apply orb_true_iff. destruct H1 as [H1|H1]; [left; apply H; assumption|right; exact H1].
Qed.

Lemma tail_sub_own app prog id handed nl nc p : forall a a',
  bits_sub a a' ->
  bits_sub (tail_bits app prog id handed nl nc p a) (own_bits_from app prog id handed nl nc p a').
Proof.
  unfold tail_bits, own_bits_from. induction prog as [|o prog IH]; intros a a' H; cbn [fold_left]; [exact H|].
  apply IH. destruct (dop_cells app id handed nl nc o p) as [[c| |b]|].
  - apply bits_sub_0.
  - apply bits_sub_0.
  - apply bits_sub_lor. exact H.
  - exact H.
Qed.

Lemma line_bits_range v : 0 <= line_bits v <= 15.
Proof.
  unfold line_bits. destruct v as [[[c w] p]|]; [|lia].
  destruct (is_line c) eqn:E; [|lia]. unfold is_line, LINEBASE in *. lia.
Qed.

Lemma lor_range a b : 0 <= a <= 15 -> 0 < b <= 15 -> 0 < Z.lor a b <= 15.
Proof.
  intros Ha Hb.
  assert (H0 : 0 <= Z.lor a b) by (apply Z.lor_nonneg; lia).
  assert (H1 : Z.lor a b <> 0) by (rewrite Z.lor_eq_0_iff; lia).
  assert (H2 : Z.shiftr (Z.lor a b) 4 = 0).
  { rewrite Z.shiftr_lor, !Z.shiftr_div_pow2 by lia. change (2 ^ 4) with 16.
    rewrite (Z.div_small a 16), (Z.div_small b 16) by lia. reflexivity. }
  rewrite Z.shiftr_div_pow2 in H2 by lia. change (2 ^ 4) with 16 in H2.
  apply Z.div_small_iff in H2; lia.
Qed.

Lemma seg_bits_range x a b fwd back :
  (fwd = 2 /\ back = 8) \/ (fwd = 4 /\ back = 1) ->
  (x =? a) || (x =? b) || ((a <? x) && (x <? b)) = true ->
  0 < seg_bits x a b fwd back <= 15.
Proof.
  intros Hfb. unfold seg_bits.
  destruct (x =? a) eqn:E1; destruct (x =? b) eqn:E2; destruct ((a <? x) && (x <? b)) eqn:E3;
    intros H; try discriminate H;
    destruct Hfb as [[-> ->]|[-> ->]]; cbn [Z.lor Pos.lor Pos.succ]; lia.
Qed.

(* the segment bits of a line op are in 1..15 *)
Lemma dop_cells_line_range app id handed nl nc o p b :
  dop_cells app id handed nl nc o p = Some (PLine b) -> 0 < b <= 15.
Proof.
  destruct p as [y x]. unfold dop_cells. destruct o.
  - destruct (cell_inb handed (y, x)); discriminate.
  - destruct ((y =? l) && (c <=? x) && (x <? c + n)); discriminate.
  - destruct ((y =? l) && (c <=? x) && (x <? c + n)); discriminate.
  - destruct ((y =? l) && (x =? c)); discriminate.
  - destruct (y =? l); cbn [andb]; [|discriminate].
    destruct ((x =? c1) || (x =? c2) || ((c1 <? x) && (x <? c2))) eqn:E; [|discriminate].
    intros [= <-]. apply seg_bits_range; [left; split; reflexivity|exact E].
  - destruct (x =? c); cbn [andb]; [|discriminate].
    destruct ((y =? l1) || (y =? l2) || ((l1 <? y) && (y <? l2))) eqn:E; [|discriminate].
    intros [= <-]. apply seg_bits_range; [right; split; reflexivity|exact E].
  - destruct (cell_inb r (y, x)); discriminate.
  - destruct ((y =? l) && (c <=? x) && (x <? c + n)); discriminate.
  - destruct ((0 <=? y) && (y <? nl) && (0 <=? x) && (x <? nc)); discriminate.
Qed.

(* the application's characters are not line glyphs *)
Definition app_no_lines (app : Z -> Z -> Z -> Z) : Prop := forall i y x, is_line (app i y x) = false.

Lemma dop_cells_set_noline app id handed nl nc o p c :
  app_no_lines app -> dop_cells app id handed nl nc o p = Some (PSet c) -> is_line c = false.
Proof.
  intros Happ. destruct p as [y x]. unfold dop_cells. destruct o.
  - destruct (cell_inb handed (y, x)); [|discriminate]. intros [= <-]. apply Happ.
  - destruct ((y =? l) && (c0 <=? x) && (x <? c0 + n)); [|discriminate]. intros [= <-]. apply Happ.
  - destruct ((y =? l) && (c0 <=? x) && (x <? c0 + n)); [|discriminate]. intros [= <-]. reflexivity.
  - destruct ((y =? l) && (x =? c0)); [|discriminate]. intros [= <-]. apply Happ.
  - destruct ((y =? l) && ((x =? c1) || (x =? c2) || ((c1 <? x) && (x <? c2)))); discriminate.
  - destruct ((x =? c0) && ((y =? l1) || (y =? l2) || ((l1 <? y) && (y <? l2)))); discriminate.
  - destruct (cell_inb r (y, x)); [|discriminate]. intros [= <-]. reflexivity.
  - destruct ((y =? l) && (c0 <=? x) && (x <? c0 + n)); discriminate.
  - destruct ((0 <=? y) && (y <? nl) && (0 <=? x) && (x <? nc)); [|discriminate]. intros [= <-]. reflexivity.
Qed.

Lemma line_bits_line x w p : 0 < x <= 15 -> line_bits (Some (LINEBASE + x, w, p)) = x.
Proof.
  intros Hx. unfold line_bits. destruct (is_line (LINEBASE + x)) eqn:E.
  - lia.
  - unfold is_line, LINEBASE in E. lia.
Qed.

(* EXACTLY: the line bits a program leaves in a cell are those of its own line ops issued
   after its last non-line op there (on top of the bits the cell held, if no non-line op
   intervenes) *)
Theorem line_bits_prog_cell app prog id handed nl nc p :
  app_no_lines app ->
  forall v, line_bits (prog_cell app prog id handed nl nc p v) =
            tail_bits app prog id handed nl nc p (line_bits v).
Proof.
  intros Happ. unfold prog_cell, tail_bits.
  induction prog as [|o prog IH]; intros v; cbn [fold_left]; [reflexivity|].
  rewrite IH. f_equal.
  destruct (dop_cells app id handed nl nc o p) as [[c| |b]|] eqn:E; cbn [cell_step].
  - pose proof (dop_cells_set_noline _ _ _ _ _ _ _ _ Happ E) as Hc.
    unfold line_bits. rewrite Hc. reflexivity.
  - reflexivity.
  - apply line_bits_line. apply lor_range; [apply line_bits_range|].
    exact (dop_cells_line_range _ _ _ _ _ _ _ _ E).
  - reflexivity.
Qed.

Corollary line_bits_own app prog id handed nl nc p :
  app_no_lines app ->
  bits_sub (line_bits (prog_cell app prog id handed nl nc p None)) (own_bits app prog id handed nl nc p).
Proof.
  intros Happ. rewrite (line_bits_prog_cell app prog id handed nl nc p Happ None).
  apply tail_sub_own. apply bits_sub_0.
Qed.

(* if the owner's program issues no line op at pw, the cell holds no line afterwards *)
Corollary no_own_line_no_line app prog id handed nl nc p :
  app_no_lines app ->
  (forall o b, In o prog -> dop_cells app id handed nl nc o p <> Some (PLine b)) ->
  line_bits (prog_cell app prog id handed nl nc p None) = 0.
Proof.
  intros Happ Hno. rewrite (line_bits_prog_cell app prog id handed nl nc p Happ None).
  unfold tail_bits. change (line_bits None) with 0.
  assert (H : forall l, incl l prog ->
            fold_left (fun a o => match dop_cells app id handed nl nc o p with
                                  | Some (PLine b) => Z.lor a b
                                  | Some _ => 0
                                  | None => a
                                  end) l 0 = 0).
  { induction l as [|o l IH]; intros Hincl; cbn [fold_left]; [reflexivity|].
    assert (Hin : In o prog) by (apply Hincl; left; reflexivity).
    assert (Hincl' : incl l prog) by (intros z Hz; apply Hincl; right; exact Hz).
    destruct (dop_cells app id handed nl nc o p) as [[c| |b]|] eqn:E.
    - apply IH; exact Hincl'.
    - apply IH; exact Hincl'.
    - exfalso. exact (Hno o b Hin E).
    - apply IH; exact Hincl'. }
  apply H. apply incl_refl.
Qed.

Section lines.
  Variable app : Z -> Z -> Z -> Z.
  Variable progs : Z -> list dop.
  Hypothesis Happ : app_no_lines app.

  (* the render buffer of a flush: the line bits of a damaged cell are exactly the OR of the
     bits of the line ops its OWNER's program issued there after its last non-line op -- no
     bit of any other window's line gets in *)
  Theorem lines_do_not_cross_windows tree L C rects b :
    pairwise_disjoint rects -> flush_state L C b -> (forall q, rb_cells b q = None) ->
    forall q, rb_full L C q && in_any rects q = true ->
      let '(w, pw) := owner_rel tree q in
      let bits := line_bits (rb_cells (flush_rb (prog_handler app progs) tree rects b) q) in
      bits = tail_bits app (progs w) w (unit_rect pw) L C pw 0 /\
      Z.land bits (Z.lnot (own_bits app (progs w) w (unit_rect pw) L C pw)) = 0.
  Proof.
    intros Hpd Hfs Hemp q Hq.
    destruct (flush_rb_exact app progs tree L C rects b Hpd Hfs Hemp) as (_ & Hc).
    rewrite (Hc q), Hq. destruct (owner_rel tree q) as [w pw]. cbn zeta. unfold prog_cell_in.
    split.
    - apply (line_bits_prog_cell app (progs w) w (unit_rect pw) L C pw Happ None).
    - apply (line_bits_own app (progs w) w (unit_rect pw) L C pw Happ).
  Qed.

  (* the same on the terminal: a damaged screen cell the owner's program leaves non-empty shows
     exactly that content; if it is a line glyph its bits are the owner's own *)
  Theorem win_flush_lines cfg st tm st' tm' lg :
    win_flush cfg (prog_handler app progs) st tm = (st', tm', lg) ->
    pairwise_disjoint (flush_rects cfg (after_queue st)) ->
    forall q,
      r_later st && r_nexp (after_queue st) &&
      cell_inb (root_selfrect st') q && in_any (flush_rects cfg (after_queue st)) q = true ->
      let '(w, pw) := owner_rel (r_tree st') q in
      let L := lines (root_selfrect st') in
      let C := cols (root_selfrect st') in
      match cell_after app (progs w) w (unit_rect pw) L C pw with
      | Some c =>
        t_grid tm' q = c /\
        (is_line c = true ->
         c = LINEBASE + tail_bits app (progs w) w (unit_rect pw) L C pw 0 /\
         Z.land (c - LINEBASE) (Z.lnot (own_bits app (progs w) w (unit_rect pw) L C pw)) = 0)
      | None => t_grid tm' q = t_grid tm q
      end.
  Proof.
    intros Hfl Hpd q Hq.
    rewrite (win_flush_exact app progs cfg st tm st' tm' lg Hfl Hpd q), Hq.
    destruct (owner_rel (r_tree st') q) as [w pw]. cbn zeta.
    rewrite cell_after_prog_cell. fold (prog_cell_in app (progs w) w (lines (root_selfrect st')) (cols (root_selfrect st')) pw None).
    pose proof (line_bits_prog_cell app (progs w) w (unit_rect pw) (lines (root_selfrect st')) (cols (root_selfrect st')) pw Happ None) as Hb.
    pose proof (line_bits_own app (progs w) w (unit_rect pw) (lines (root_selfrect st')) (cols (root_selfrect st')) pw Happ) as Hs.
    fold (prog_cell_in app (progs w) w (lines (root_selfrect st')) (cols (root_selfrect st')) pw None) in Hb, Hs.
    destruct (prog_cell_in app (progs w) w (lines (root_selfrect st')) (cols (root_selfrect st')) pw None) as [[[c w'] p']|];
      cbn [content]; [|reflexivity].
    split; [reflexivity|]. intros Hl. unfold line_bits in Hb, Hs. rewrite Hl in Hb, Hs.
    change (line_bits None) with 0 in Hb. split; [lia|exact Hs].
  Qed.
End lines.

(* ------------------------------------------------------------------------------------ *)
(* 6. a witness: two crossing lines of two windows                                       *)

(* a 3 x 6 root (window 0) drawing a horizontal line along its row 1; window 1, one column
   wide, at column 2, drawing a vertical line down its only column: the lines cross at the
   screen cell (1, 2), which window 1 owns *)
Definition xprogs (id : Z) : list dop := if id =? 0 then [DHline 1 0 5] else [DVline 0 2 0].
Definition xapp (id y x : Z) : Z := 65 + id.
Definition xst : root :=
  win_new (win_expose (root_new 3 6) 0 None) 1 0 (mkRect 0 2 3 1) false false false false.
Definition xtm : term := term_new 3 6 pol_accept.
Definition xflush := win_flush no_defects (prog_handler xapp xprogs) xst xtm.

Example exact_nonvacuous :
  let '(st', tm', lg) := xflush in
  (* the flush really renders, over one rectangle: the hypotheses of win_flush_exact hold *)
  r_later xst = true /\ r_nexp (after_queue xst) = true /\
  flush_rects no_defects (after_queue xst) = [mkRect 0 0 3 6] /\
  pairwise_disjoint (flush_rects no_defects (after_queue xst)) /\
  (* the crossing cell belongs to the child, at the child's (1, 0) *)
  owner_rel (r_tree st') (1, 2) = (1, (1, 0)) /\
  owner_rel (r_tree st') (1, 1) = (0, (1, 1)) /\
  (* it holds the child's vertical bits only; the root's cell next to it the horizontal ones *)
  t_grid tm' (1, 2) = LINEBASE + 5 /\
  t_grid tm' (1, 1) = LINEBASE + 10 /\
  t_grid tm' (1, 3) = LINEBASE + 10 /\
  t_grid tm' (0, 2) = LINEBASE + 4 /\
  (* the root's program alone would have put its horizontal bits there, and merging across
     windows would have given a cross *)
  content (prog_cell_in xapp (xprogs 0) 0 3 6 (1, 2) None) = Some (LINEBASE + 10) /\
  content (prog_cell_in xapp (xprogs 1) 1 3 6 (1, 0) None) = Some (LINEBASE + 5) /\
  content (prog_cell_in xapp (xprogs 1) 1 3 6 (1, 0) (prog_cell_in xapp (xprogs 0) 0 3 6 (1, 2) None))
    = Some (LINEBASE + 15).
Proof.
  vm_compute. repeat split; try reflexivity. constructor.
Qed.
