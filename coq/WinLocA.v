(* WinLocA.v -- part A and B of the locality argument for property C01:
   A. what root_damage / win_expose do to the pending damage (root_damage_spec,
      win_expose_spec, the relation dmg_ext);
   B. what expose_up covers: the walk from a window up to the root, expressed over the
      (rectangle, visibility) pairs of the chain (expose_up_g), covers every screen cell from
      which the downward descent [reach] arrives inside the exposed rectangle
      (expose_reach). *)
From Coq Require Import ZArith List Bool Lia ZifyBool.
From Tickit Require Import RectDefs RectProofs WinRectSet WinRectSetProofs WinDefs.
Import ListNotations.
Local Open Scope Z_scope.

(* rsfuel is a 300-deep unary numeral: keep the kernel from unfolding it (and with it the
   fuelled loops of WinRectSet.v) when it checks conversions at Qed *)
Local Strategy 1000 [rsfuel].

(* ------------------------------------------------------------------------------------ *)
(* A. root_damage                                                                        *)

Lemma root_damage_spec st d :
  all_nonempty (r_damage st) -> nonempty d -> r_fault (root_damage st d) = false ->
  all_nonempty (r_damage (root_damage st d)) /\
  (forall p, covered (r_damage (root_damage st d)) p <-> covered (r_damage st) p \/ cell_in d p) /\
  r_tree (root_damage st d) = r_tree st /\ r_queue (root_damage st d) = r_queue st /\
  r_orphans (root_damage st d) = r_orphans st /\ r_fault st = false /\
  ((r_damage st <> [] -> r_nexp st = true /\ r_later st = true) ->
   (r_damage (root_damage st d) <> [] ->
    r_nexp (root_damage st d) = true /\ r_later (root_damage st d) = true)) /\
  (r_later st = true -> r_later (root_damage st d) = true).
Proof.
  intros Hne Hd Hf. unfold root_damage in *.
  destruct (rs_contains (r_fuel st) (r_damage st) d) as [[|]|] eqn:Ec.
  - split; [exact Hne|]. split.
    + intros p. split; [tauto|]. intros [H|H]; [exact H|].
      eapply rs_contains_sound; eassumption.
    + split; [reflexivity|]. split; [reflexivity|]. split; [reflexivity|].
      split; [exact Hf|]. split; [tauto|tauto].
  - destruct (rs_add (r_fuel st) (r_damage st) d) as [s|] eqn:Ea.
    + destruct (rs_add_covered _ _ _ _ Hne Hd Ea) as [Hs Hcov].
      cbn [r_damage r_tree r_queue r_orphans r_fault r_nexp r_later set_flags set_damage] in *.
      split; [exact Hs|]. split; [exact Hcov|].
      split; [reflexivity|]. split; [reflexivity|]. split; [reflexivity|].
      split; [exact Hf|]. split; [intros _ _; split; reflexivity|intros _; reflexivity].
    + cbn [r_fault set_fault] in Hf. discriminate.
  - cbn [r_fault set_fault] in Hf. discriminate.
Qed.

(* st' is st with more damage and nothing else of interest changed *)
Record dmg_ext (st st' : root) : Prop := mkDE {
  de_tree : r_tree st' = r_tree st;
  de_queue : r_queue st' = r_queue st;
  de_orph : r_orphans st' = r_orphans st;
  de_ne : all_nonempty (r_damage st');
  de_cov : forall p, covered (r_damage st) p -> covered (r_damage st') p;
  de_fault : r_fault st = false;
  de_flags : (r_damage st <> [] -> r_nexp st = true /\ r_later st = true) ->
             (r_damage st' <> [] -> r_nexp st' = true /\ r_later st' = true);
  de_later : r_later st = true -> r_later st' = true }.

Lemma dmg_ext_refl st : all_nonempty (r_damage st) -> r_fault st = false -> dmg_ext st st.
Proof. intros Hne Hf. constructor; auto. Qed.

Lemma dmg_ext_trans st1 st2 st3 : dmg_ext st1 st2 -> dmg_ext st2 st3 -> dmg_ext st1 st3.
Proof.
  intros [T1 Q1 O1 N1 C1 F1 G1 L1] [T2 Q2 O2 N2 C2 F2 G2 L2]. constructor.
  - congruence.
  - congruence.
  - congruence.
  - exact N2.
  - intros p Hp. apply C2. apply C1. exact Hp.
  - exact F1.
  - intros H. apply G2. apply G1. exact H.
  - intros H. apply L2. apply L1. exact H.
Qed.

(* ------------------------------------------------------------------------------------ *)
(* expose_up over (rectangle, visible) pairs                                             *)

Definition ginfo := (rect * bool)%type.
Definition geo (i : winfo) : ginfo := (w_rect i, w_vis i).
Definition g_self (g : ginfo) : rect := mkRect 0 0 (lines (fst g)) (cols (fst g)).

Fixpoint expose_up_g (chain : list ginfo) (ex : option rect) : option rect :=
  match chain with
  | [] => None
  | g :: rest =>
    match (match ex with Some e => r_intersect (g_self g) e | None => Some (g_self g) end) with
    | None => None
    | Some d =>
      if negb (snd g) then None else
      match rest with
      | [] => Some d
      | _ :: _ => expose_up_g rest (Some (r_translate d (top (fst g)) (left (fst g))))
      end
    end
  end.

Lemma expose_up_geo chain ex :
  expose_up chain ex = expose_up_g (map (fun w => geo (t_info w)) chain) ex.
Proof.
  revert ex. induction chain as [|w rest IH]; intros ex; [reflexivity|].
  cbn [expose_up expose_up_g map]. unfold g_self, geo, selfrect; cbn [fst snd].
  destruct (match ex with
            | Some e => r_intersect (mkRect 0 0 (lines (w_rect (t_info w))) (cols (w_rect (t_info w)))) e
            | None => Some (mkRect 0 0 (lines (w_rect (t_info w))) (cols (w_rect (t_info w))))
            end) as [d|]; [|reflexivity].
  destruct (negb (w_vis (t_info w))); [reflexivity|].
  destruct rest as [|p rest']; [reflexivity|]. cbn [map]. rewrite IH. reflexivity.
Qed.

Lemma expose_up_g_nonempty chain : forall ex R,
  expose_up_g chain ex = Some R ->
  (ex = None -> forall g, chain = [g] -> nonempty (g_self g)) -> nonempty R.
Proof.
  induction chain as [|g rest IH]; intros ex R H Hnone; [discriminate|].
  cbn [expose_up_g] in H. destruct ex as [e|].
  - destruct (r_intersect (g_self g) e) as [d|] eqn:Ei; [|discriminate].
    destruct (negb (snd g)); [discriminate|].
    destruct rest as [|p rest'].
    + injection H as <-. apply intersect_some in Ei. tauto.
    + apply (IH _ _ H). intros Hd. discriminate.
  - destruct (negb (snd g)); [discriminate|].
    destruct rest as [|p rest'].
    + injection H as <-. apply (Hnone eq_refl g eq_refl).
    + apply (IH _ _ H). intros Hd. discriminate.
Qed.

(* ------------------------------------------------------------------------------------ *)
(* A. win_expose                                                                         *)

Lemma win_expose_spec st id ex :
  all_nonempty (r_damage st) ->
  (ex = None -> forall w, t_chain id (r_tree st) = Some [w] -> nonempty (selfrect (t_info w))) ->
  r_fault (win_expose st id ex) = false ->
  dmg_ext st (win_expose st id ex) /\
  (forall chain R, t_chain id (r_tree st) = Some chain -> expose_up chain ex = Some R ->
     forall p, cell_in R p -> covered (r_damage (win_expose st id ex)) p).
Proof.
  intros Hne Hnone Hf. unfold win_expose in *.
  destruct (t_chain id (r_tree st)) as [chain|] eqn:Ech.
  2:{ split; [apply dmg_ext_refl; assumption|]. intros c R Hc. discriminate. }
  destruct (expose_up chain ex) as [d|] eqn:Eup.
  2:{ split; [apply dmg_ext_refl; assumption|]. intros c R Hc Hr. injection Hc as <-. congruence. }
  assert (Hd : nonempty d).
  { rewrite expose_up_geo in Eup. apply (expose_up_g_nonempty _ _ _ Eup).
    intros He g Hg. destruct chain as [|w [|p rest]]; try discriminate.
    cbn [map] in Hg. injection Hg as <-.
    specialize (Hnone He w eq_refl). unfold nonempty, g_self, geo, selfrect in *.
    cbn [fst lines cols] in *. exact Hnone. }
  destruct (root_damage_spec st d Hne Hd Hf) as (H1 & H2 & H3 & H4 & H5 & H6 & H7 & H8).
  split.
  - constructor; try assumption. intros p Hp. apply H2. left; exact Hp.
  - intros c R Hc Hr p Hp. injection Hc as <-. rewrite Eup in Hr. injection Hr as <-.
    apply H2. right; exact Hp.
Qed.

(* ------------------------------------------------------------------------------------ *)
(* B. the descent and what expose_up covers                                              *)

(* follow the list of windows downwards: each must be visible and contain the position *)
Fixpoint reach (l : list ginfo) (q : cell) : option cell :=
  match l with
  | [] => Some q
  | g :: r =>
    if snd g && cell_inb (fst g) q
    then reach r (fst q - top (fst g), snd q - left (fst g))
    else None
  end.

Lemma reach_app l1 l2 q :
  reach (l1 ++ l2) q = match reach l1 q with Some p => reach l2 p | None => None end.
Proof.
  revert q. induction l1 as [|g r IH]; intros q; [reflexivity|].
  cbn [reach app]. destruct (snd g && cell_inb (fst g) q); [apply IH|reflexivity].
Qed.

Definition ex_has (ex : option rect) (p : cell) : Prop :=
  match ex with Some e => cell_in e p | None => True end.

Lemma expose_up_g_single g ex p :
  snd g = true -> cell_in (g_self g) p -> ex_has ex p ->
  exists R, expose_up_g [g] ex = Some R /\ cell_in R p.
Proof.
  intros Hv Hs He. cbn [expose_up_g]. destruct ex as [e|]; cbn [ex_has] in He.
  - destruct (r_intersect (g_self g) e) as [d|] eqn:Ei.
    + rewrite Hv. cbn [negb]. exists d. split; [reflexivity|].
      apply intersect_some in Ei. apply Ei. tauto.
    + exfalso. apply (intersect_none _ _ Ei p). tauto.
  - rewrite Hv. cbn [negb]. exists (g_self g). tauto.
Qed.

Lemma expose_up_g_snoc2 : forall l g x ex,
  expose_up_g (l ++ [g; x]) ex =
  match expose_up_g (l ++ [g]) ex with
  | None => None
  | Some d => expose_up_g [x] (Some (r_translate d (top (fst g)) (left (fst g))))
  end.
Proof.
  induction l as [|a l IH]; intros g x ex.
  - cbn [app expose_up_g].
    destruct (match ex with Some e => r_intersect (g_self g) e | None => Some (g_self g) end) as [d|];
      [|reflexivity].
    destruct (negb (snd g)); reflexivity.
  - cbn [app expose_up_g].
    destruct (match ex with Some e => r_intersect (g_self a) e | None => Some (g_self a) end) as [d|];
      [|reflexivity].
    destruct (negb (snd a)); [reflexivity|].
    destruct l as [|b l']; cbn [app]; apply IH.
Qed.

(* the walk upwards from the window at the end of [g0 :: G] (root first) *)
Theorem expose_reach : forall G g0 q p ex,
  snd g0 = true -> cell_in (g_self g0) q -> reach G q = Some p -> ex_has ex p ->
  exists R, expose_up_g (rev (g0 :: G)) ex = Some R /\ cell_in R q.
Proof.
  induction G as [|g1 G IH]; intros g0 q p ex Hv Hq Hr Hex.
  - cbn [reach] in Hr. injection Hr as <-. cbn [rev app].
    apply expose_up_g_single; assumption.
  - cbn [reach] in Hr.
    destruct (snd g1 && cell_inb (fst g1) q) eqn:E; [|discriminate].
    apply andb_true_iff in E. destruct E as [Hv1 Hin1]. apply cell_inb_iff in Hin1.
    assert (Hq1 : cell_in (g_self g1) (fst q - top (fst g1), snd q - left (fst g1))).
    { unfold cell_in, g_self, bottom, right in *; cbn [top left lines cols fst snd] in *. lia. }
    destruct (IH g1 _ p ex Hv1 Hq1 Hr Hex) as (R1 & HR1 & Hc1).
    change (rev (g0 :: g1 :: G)) with ((rev G ++ [g1]) ++ [g0]).
    rewrite <- app_assoc. cbn [app]. rewrite expose_up_g_snoc2.
    change (rev (g1 :: G)) with (rev G ++ [g1]) in HR1. rewrite HR1.
    apply expose_up_g_single; [exact Hv|exact Hq|].
    cbn [ex_has]. apply r_translate_cell. exact Hc1.
Qed.
