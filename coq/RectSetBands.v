(* RectSetBands.v -- C05: the pieces returned by tickit_rect_add for two rectangles that
   overlap in rows and touch or overlap in columns are horizontal bands: pairwise one above
   the other, and in each of its rows a piece spans exactly the union of the column ranges
   of those of the two rectangles that contain the row.  (Case analysis over the model of
   src/rect.c; about two minutes of lia.)  Used by the termination proof RectSetTerm.v. *)
From Coq Require Import ZArith List Bool Lia ZifyBool.
From Tickit Require Import RectDefs RectProofs RectSetSpec.
Import ListNotations.
Local Open Scope Z_scope.

(* ------------------------------------------------------------------ *)
(* the pieces of tickit_rect_add are horizontal bands                  *)

Definition band_of (x c p : rect) : Prop :=
  nonempty p /\
  forall y, top p <= y < bottom p ->
    (top x <= y < bottom x /\ top c <= y < bottom c /\
       left p = Z.min (left c) (left x) /\ right p = Z.max (right c) (right x)) \/
    (top x <= y < bottom x /\ ~ (top c <= y < bottom c) /\ left p = left x /\ right p = right x) \/
    (~ (top x <= y < bottom x) /\ top c <= y < bottom c /\ left p = left c /\ right p = right c).

Definition above (p q : rect) : Prop := bottom p <= top q.

Ltac band_goal := cbn [top left lines cols]; split; [lia | intros ? ?; lia].

Lemma r_add_bands x c : nonempty x -> nonempty c ->
  left x <= right c -> left c <= right x -> top x < bottom c -> top c < bottom x ->
  Forall (band_of x c) (r_add x c) /\ pairwise above (r_add x c).
Proof.
  destruct x as [ta la ha wa], c as [tb lb hb wb].
  unfold band_of, above, nonempty, r_add, sort_rows, bottom, right; cbn [top left lines cols].
  intros Ha Hb H1 H2 H3 H4.
  destruct ((la >? lb + wb) || (lb >? la + wa) || (ta >? tb + hb) || (tb >? ta + ha)) eqn:Efar; [exfalso; lia|].
  destruct (ta >? tb) eqn:E1; destruct (ta + ha >? tb + hb) eqn:E2; destr_if;
    try (exfalso; lia);
    unfold add_band, bottom, right, init_bounded; cbn [top left lines cols];
    repeat (destr_if; cbn [top left lines cols rev app]; try (exfalso; lia));
    (split;
     [repeat (apply Forall_cons; [band_goal|]); apply Forall_nil
     |cbn [pairwise]; repeat split;
      repeat (apply Forall_cons; [cbn [top left lines cols]; lia|]); apply Forall_nil]).
Qed.

