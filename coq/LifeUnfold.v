(* LifeUnfold.v -- the unfolding equations of the mutual recursion of the dispatch functions (repaired variant);
   generated from the text of LifeDefs.v by tools/mk_life_unfold.py, each proved by reflexivity. *)
From Coq Require Import ZArith List Bool PArith FMapPositive.
From Tickit Require Import LifeDefs.
Import ListNotations.
Local Open Scope Z_scope.

Lemma run_op_F : forall f o,
  run_op fixed (S f) o =
  ((match o with ONop | OFrameRef _ | OFrameUnref _ => ret tt | _ => log_op o end) ;;;
  match o with
  | ONew p hid low rp st => window_new f p hid low rp st ;;; ret tt
  | ORef w => window_ref w
  | OUnref w => unref fixed f w
  | OClose w => close fixed f w
  | ORestack ch w => request_change f ch w
  | OShow w => window_show f w
  | OHide w => window_hide f w
  | OFocus w =>                                         (* tickit_window_take_focus: the ancestors are held *)
    if v_events_asis fixed then focus_gained fixed f w None
    else
      cd <- getw w ;; count_up f (w_parent cd) ;;;
      cd' <- getw w ;; held <- ref_up fixed f (w_parent cd') ;;
      focus_gained fixed f w None ;;;
      unref_list fixed f held
  | OSteal w b => upd w (fun c => set_steal c b)
  | OExpose w => expose f w
  | OGetRoot w => get_root f w ;;; ret tt
  | OFlush w => window_flush fixed f w
  (* the terminal's KEY / MOUSE bindings of the root window exist exactly while it lives *)
  | OKey => b <- root_bound ;; if b then handle_key fixed f 1%positive ;;; ret tt else ret tt     (* on_term_key *)
  | OMouse t => b <- root_bound ;; if b then on_term_mouse fixed f t else ret tt
  | OBind w id k m r acts => upd w (fun c => set_hs c (w_hs c ++ [mkH id k m r acts]))
  | ONotify w b => upd w (fun c => set_fcn c b)
  | OUnbind w id => upd w (fun c => set_hs c (filter (fun hd => negb (h_id hd =? id)) (w_hs c)))
  | OGeom w => set_geometry fixed f w
  | OMove w =>
    getw w ;;;
    if v_events_asis fixed then
      set_geometry fixed f w ;;;
      c2 <- getw w ;; if w_focused c2 then root <- get_root f w ;; request_restore root else ret tt
    else                                                (* the ancestors and the window are held across the call *)
      cd <- getw w ;; count_up f (w_parent cd) ;;;
      cd' <- getw w ;; held <- ref_up fixed f (w_parent cd') ;;
      ((log_op (OFrameRef w) ;;; window_ref w) ;;;
       (set_geometry fixed f w ;;;
        (c2 <- getw w ;; if w_focused c2 then focus_chain_changed f (Some w) else ret tt)) ;;;
       (log_op (OFrameUnref w) ;;; unref fixed f w)) ;;;
      unref_list fixed f held
  (* the terminal's RESIZE binding of the root window exists exactly while it lives *)
  | OResize =>
    b <- root_bound ;; (if b then on_term_resize fixed f else ret tt) ;;;
    b2 <- root_bound ;; if b2 then expose f 1%positive else ret tt
  | OTouch w j walk =>
    getw w ;;; (match j with Some a => getw a ;;; ret tt | None => ret tt end) ;;;
    if walk then scrollrect f w else ret tt
  | ONop => ret tt
  | OFrameRef _ | OFrameUnref _ => ret tt      (* not calls: in a script they do nothing and leave no trace *)
  end).
Proof. reflexivity. Qed.

Lemma run_ops_F : forall f l,
  run_ops fixed (S f) l =
  (match l with
  | [] => ret tt
  | o :: l' => run_op fixed f o ;;; run_ops fixed f l'
  end).
Proof. reflexivity. Qed.

Lemma run_key_handlers_F : forall f w hs,
  run_key_handlers fixed (S f) w hs =
  (match hs with
  | [] => ret false
  | h :: hs' =>
    cw <- getw w ;;
    if h_is HKey h && existsb (fun hd => h_id hd =? h_id h) (w_hs cw)
    then run_ops fixed f (h_actions h) ;;; (if h_ret h then ret true else run_key_handlers fixed f w hs')
    else run_key_handlers fixed f w hs'
  end).
Proof. reflexivity. Qed.

Lemma run_mouse_handlers_F : forall f w hs t unset,
  run_mouse_handlers fixed (S f) w hs t unset =
  (match hs with
  | [] => ret false
  | h :: hs' =>
    cw <- getw w ;;
    if negb (h_is HMouse h) || negb (existsb (fun hd => h_id hd =? h_id h) (w_hs cw)) then run_mouse_handlers fixed f w hs' t unset
    else
      (if unset then note_uninit else ret tt) ;;;
      if handler_fires_mouse h t
      then run_ops fixed f (h_actions h) ;;; (if h_ret h then ret true else run_mouse_handlers fixed f w hs' t unset)
      else run_mouse_handlers fixed f w hs' t unset
  end).
Proof. reflexivity. Qed.

Lemma run_ev_handlers_F : forall f w hs k,
  run_ev_handlers fixed (S f) w hs k =
  (match hs with
  | [] => ret tt
  | h :: hs' =>
    cw <- getw w ;;
    if h_is k h && existsb (fun hd => h_id hd =? h_id h) (w_hs cw)
    then run_ops fixed f (h_actions h) ;;; run_ev_handlers fixed f w hs' k
    else run_ev_handlers fixed f w hs' k
  end).
Proof. reflexivity. Qed.

Lemma set_geometry_F : forall f w,
  set_geometry fixed (S f) w =
  (getw w ;;;
  if v_events_asis fixed then c <- getw w ;; run_ev_handlers fixed f w (w_hs c) HGeom
  else
    cd <- getw w ;; count_up f (w_parent cd) ;;;
    cd' <- getw w ;; held <- ref_up fixed f (w_parent cd') ;;
    ((log_op (OFrameRef w) ;;; window_ref w) ;;;
     (c <- getw w ;; run_ev_handlers fixed f w (w_hs c) HGeom) ;;;
     (log_op (OFrameUnref w) ;;; unref fixed f w)) ;;;
    unref_list fixed f held).
Proof. reflexivity. Qed.

Lemma on_term_resize_F : forall f,
  on_term_resize fixed (S f) =
  (let root := 1%positive in
  getw root ;;;
  ((if v_events_asis fixed then ret tt else log_op (OFrameRef root) ;;; window_ref root) ;;;
   (set_geometry fixed f root ;;; expose f root) ;;;
   (if v_events_asis fixed then ret tt else log_op (OFrameUnref root) ;;; unref fixed f root))).
Proof. reflexivity. Qed.

Lemma do_expose_F : forall f w,
  do_expose fixed (S f) w =
  ((if v_events_asis fixed then ret tt else log_op (OFrameRef w) ;;; window_ref w) ;;;
  ((if v_events_asis fixed then c <- getw w ;; expose_kids_asis fixed f w (w_first c)
    else kids <- copy_children f w ;; expose_kids fixed f w kids) ;;;
   (c <- getw w ;; run_ev_handlers fixed f w (w_hs c) HExpose)) ;;;
  (if v_events_asis fixed then ret tt else log_op (OFrameUnref w) ;;; unref fixed f w)).
Proof. reflexivity. Qed.

Lemma expose_kids_F : forall f w kids,
  expose_kids fixed (S f) w kids =
  (match kids with
  | [] => ret tt
  | k :: kids' =>
    still <- is_child f w k ;;
    if negb still then expose_kids fixed f w kids'
    else
      ck <- getw k ;;
      if negb (w_visible ck) then expose_kids fixed f w kids'
      else do_expose fixed f k ;;; (is_child f w k ;;; expose_kids fixed f w kids')      (* the mask only if it still is a child *)
  end).
Proof. reflexivity. Qed.

Lemma expose_kids_asis_F : forall f w child,
  expose_kids_asis fixed (S f) w child =
  (match child with
  | None => ret tt
  | Some k =>
    ck <- getw k ;;
    (if w_visible ck then do_expose fixed f k ;;; getw k ;;; ret tt else ret tt) ;;;
    ck2 <- getw k ;;
    expose_kids_asis fixed f w (w_next ck2)
  end).
Proof. reflexivity. Qed.

Lemma focus_lost_F : forall f w,
  focus_lost fixed (S f) w =
  ((if v_events_asis fixed then ret tt else log_op (OFrameRef w) ;;; window_ref w) ;;;
  ((c <- getw w ;;
    match w_focus c with
    | Some fc =>
      focus_lost fixed f fc ;;;
      (c' <- getw w ;; if w_fcn c' then run_ev_handlers fixed f w (w_hs c') HFocus else ret tt)
    | None => ret tt
    end) ;;;
   (c2 <- getw w ;;
    if w_focused c2 then setw w (set_focused c2 false) ;;; (c3 <- getw w ;; run_ev_handlers fixed f w (w_hs c3) HFocus) else ret tt)) ;;;
  (if v_events_asis fixed then ret tt else log_op (OFrameUnref w) ;;; unref fixed f w)).
Proof. reflexivity. Qed.

Lemma focus_gained_F : forall f w child,
  focus_gained fixed (S f) w child =
  ((if v_events_asis fixed then ret tt else log_op (OFrameRef w) ;;; window_ref w) ;;;
  ((c <- getw w ;;
    match w_focus c with                         (* if(win->focused_child && win->focused_child != child) *)
    | Some fc =>
      if negb (ptr_eqb (Some fc) child) then
        focus_lost fixed f fc ;;;
        (c' <- getw w ;; if w_fcn c' then run_ev_handlers fixed f w (w_hs c') HFocus else ret tt)
      else ret tt
    | None => ret tt
    end) ;;;
   ((match child with                             (* if(child && win->is_focused) *)
     | Some _ =>
       c0 <- getw w ;;
       if w_focused c0 then setw w (set_focused c0 false) ;;; (c0' <- getw w ;; run_ev_handlers fixed f w (w_hs c0') HFocus) else ret tt
     | None => ret tt
     end) ;;;
    ((c1 <- getw w ;;
      match w_parent c1 with
      | Some p => if w_visible c1 then focus_gained fixed f p (Some w) else ret tt
      | None =>                                  (* not necessarily the root: a handler may have closed the window *)
        if v_events_asis fixed then root <- get_root f w ;; request_restore root else focus_chain_changed f (Some w)
      end) ;;;
     ((match child with
       | None => upd w (fun c => set_focused c true) ;;; (c4 <- getw w ;; run_ev_handlers fixed f w (w_hs c4) HFocus)
       | Some _ => c4 <- getw w ;; if w_fcn c4 then run_ev_handlers fixed f w (w_hs c4) HFocus else ret tt
       end) ;;;
      (* win->focused_child = (child && child->parent != win) ? NULL : child   (pinned: = child) *)
      (match child with
       | Some ch =>
         if v_events_asis fixed then upd w (fun c => set_focus c child)
         else cch <- getw ch ;; upd w (fun c => set_focus c (if ptr_eqb (w_parent cch) (Some w) then child else None))
       | None => upd w (fun c => set_focus c None)
       end))))) ;;;
  (if v_events_asis fixed then ret tt else log_op (OFrameUnref w) ;;; unref fixed f w)).
Proof. reflexivity. Qed.

Lemma window_flush_F : forall f w,
  window_flush fixed (S f) w =
  (go <- flush_begin f w ;;
  if go then
    (* the root is still used after the expose handlers have run: a reference on it *)
    (if v_events_asis fixed then ret tt else log_op (OFrameRef w) ;;; window_ref w) ;;;
    ((r2 <- getr w ;;
      if r_expose r2 then
        setr w (set_rexpose r2 false) ;;;
        (do_expose fixed f w ;;;
         updr w (fun r => set_rrestore r true))
      else ret tt) ;;;
     flush_end f w) ;;;
    (if v_events_asis fixed then ret tt else log_op (OFrameUnref w) ;;; unref fixed f w)
  else ret tt).
Proof. reflexivity. Qed.

Lemma handle_key_F : forall f w,
  handle_key fixed (S f) w =
  (c <- getw w ;;
  if negb (w_visible c) then ret false
  else
    log_op (OFrameRef w) ;;; window_ref w ;;;
    c1 <- getw w ;;
    rs <- (match w_first c1 with
           | Some fc =>
             cfc <- getw fc ;;
             if w_steal cfc then r <- handle_key fixed f fc ;; ret (r, Some fc) else ret (false, None)
           | None => ret (false, None)
           end) ;;
    let r1 := fst rs in
    let stealer : ptr := if v_events_asis fixed then None else snd rs in   (* only compared, never dereferenced *)
    (if r1 then (log_op (OFrameUnref w) ;;; unref fixed f w ;;; ret true)
     else
       c2 <- getw w ;;
       r2 <- (match w_focus c2 with
              | Some fc => if ptr_eqb (Some fc) stealer then ret false else handle_key fixed f fc
              | None => ret false
              end) ;;
       if r2 then (log_op (OFrameUnref w) ;;; unref fixed f w ;;; ret true)
       else
         c3 <- getw w ;;
         r3 <- run_key_handlers fixed f w (w_hs c3) ;;
         if r3 then (log_op (OFrameUnref w) ;;; unref fixed f w ;;; ret true)
         else if v_events_asis fixed then
           c4 <- getw w ;;
           r4 <- key_kids_asis fixed f w (w_first c4) ;;
           log_op (OFrameUnref w) ;;; unref fixed f w ;;; ret r4
         else
           kids <- copy_children f w ;;
           r4 <- key_kids fixed f w stealer kids ;;
           log_op (OFrameUnref w) ;;; unref fixed f w ;;; ret r4)).
Proof. reflexivity. Qed.

Lemma key_kids_F : forall f w stealer kids,
  key_kids fixed (S f) w stealer kids =
  (match kids with
  | [] => ret false
  | k :: kids' =>
    still <- is_child f w k ;;
    if negb still then key_kids fixed f w stealer kids'
    else
      cw <- getw w ;;
      if ptr_eqb (w_focus cw) (Some k) || ptr_eqb (Some k) stealer then key_kids fixed f w stealer kids'
      else r <- handle_key fixed f k ;; if r then ret true else key_kids fixed f w stealer kids'
  end).
Proof. reflexivity. Qed.

Lemma key_kids_asis_F : forall f w child,
  key_kids_asis fixed (S f) w child =
  (match child with
  | None => ret false
  | Some k =>
    ck <- getw k ;;
    let next := w_next ck in
    cw <- getw w ;;
    if ptr_eqb (w_focus cw) (Some k) then key_kids_asis fixed f w next
    else r <- handle_key fixed f k ;; if r then ret true else key_kids_asis fixed f w next
  end).
Proof. reflexivity. Qed.

Lemma handle_mouse_F : forall f w t inside unset,
  handle_mouse fixed (S f) w t inside unset =
  (c <- getw w ;;
  if negb (w_visible c) then ret None
  else
    log_op (OFrameRef w) ;;; window_ref w ;;;
    if v_events_asis fixed then
      c1 <- getw w ;;
      r <- mouse_kids_asis fixed f w (w_first c1) t inside unset ;;
      match r with
      | Some _ => log_op (OFrameUnref w) ;;; unref fixed f w ;;; ret r
      | None =>
        c2 <- getw w ;;
        hr <- run_mouse_handlers fixed f w (w_hs c2) t unset ;;
        log_op (OFrameUnref w) ;;; unref fixed f w ;;; ret (if hr then Some w else None)
      end
    else
      kids <- copy_children f w ;;
      r <- mouse_kids fixed f w kids t inside unset ;;
      match r with
      | Some _ => log_op (OFrameUnref w) ;;; unref fixed f w ;;; ret r
      | None =>
        c2 <- getw w ;;
        hr <- run_mouse_handlers fixed f w (w_hs c2) t unset ;;
        log_op (OFrameUnref w) ;;; unref fixed f w ;;; ret (if hr then Some w else None)
      end).
Proof. reflexivity. Qed.

Lemma mouse_kids_F : forall f w kids t inside unset,
  mouse_kids fixed (S f) w kids t inside unset =
  (match kids with
  | [] => ret None
  | k :: kids' =>
    still <- is_child f w k ;;
    if negb still then mouse_kids fixed f w kids' t inside unset
    else
    ck <- getw k ;;
    if negb (w_steal ck) && negb inside then mouse_kids fixed f w kids' t inside unset
    else r <- handle_mouse fixed f k t inside unset ;;
         match r with Some _ => ret r | None => mouse_kids fixed f w kids' t inside unset end
  end).
Proof. reflexivity. Qed.

Lemma mouse_kids_asis_F : forall f w child t inside unset,
  mouse_kids_asis fixed (S f) w child t inside unset =
  (match child with
  | None => ret None
  | Some k =>
    ck <- getw k ;;
    let next := w_next ck in
    if negb (w_steal ck) && negb inside then mouse_kids_asis fixed f w next t inside unset
    else r <- handle_mouse fixed f k t inside unset ;;
         match r with Some _ => ret r | None => mouse_kids_asis fixed f w next t inside unset end
  end).
Proof. reflexivity. Qed.

Lemma ref_up_F : forall f w,
  ref_up fixed (S f) w =
  (match w with
  | None => ret []
  | Some a => log_op (OFrameRef a) ;;; window_ref a ;;; c <- getw a ;; l <- ref_up fixed f (w_parent c) ;; ret (a :: l)
  end).
Proof. reflexivity. Qed.

Lemma unref_list_F : forall f l,
  unref_list fixed (S f) l =
  (match l with
  | [] => ret tt
  | a :: l' => log_op (OFrameUnref a) ;;; unref fixed f a ;;; unref_list fixed f l'
  end).
Proof. reflexivity. Qed.

Lemma on_term_mouse_F : forall f t,
  on_term_mouse fixed (S f) t =
  (let root := 1%positive in
  (if v_events_asis fixed then ret tt else log_op (OFrameRef root) ;;; window_ref root) ;;;
  r <- getr root ;;
  (match t with
   | MPress => setr root (set_rpress r (Some true))
   | MDrag =>
     if r_dragging r then ret tt
     else
       let inside := match r_press r with Some b => b | None => false end in
       let unset := match r_press r with Some _ => false | None => true end in
       src <- handle_mouse fixed f root MDragStart inside unset ;;
       src' <- (match src with
                | Some s => if v_events_asis fixed then ret src
                            else b <- in_tree f root s ;; ret (if b then src else None)
                | None => ret None
                end) ;;
       updr root (fun r => set_rdrag r (Some src')) ;;;
       updr root (fun r => set_rdragging r true)
   | MRelease =>
     if r_dragging r then
       handle_mouse fixed f root MDragDrop true false ;;;
       r1 <- getr root ;;
       (match r_drag r1 with
        | Some (Some d) =>
          abs_geometry f d ;;;
          if v_events_asis fixed then handle_mouse fixed f d MDragStop true false ;;; ret tt
          else                                                  (* _handle_mouse_at *)
            cd <- getw d ;; count_up f (w_parent cd) ;;;
            cd' <- getw d ;; held <- ref_up fixed f (w_parent cd') ;;
            handle_mouse fixed f d MDragStop true false ;;;
            unref_list fixed f held
        | Some None => ret tt
        | None => note_uninit
        end) ;;;
       updr root (fun r => set_rdragging r false)
     else ret tt
   | _ => ret tt
   end) ;;;
  handled <- handle_mouse fixed f root t true false ;;
  (match t with
   | MDrag =>
     r2 <- getr root ;;
     match r_drag r2 with
     | Some (Some d) =>
       if negb (ptr_eqb handled (Some d))
       then
         abs_geometry f d ;;;
         if v_events_asis fixed then handle_mouse fixed f d MDragOutside true false ;;; ret tt
         else                                                   (* _handle_mouse_at *)
           cd <- getw d ;; count_up f (w_parent cd) ;;;
           cd' <- getw d ;; held <- ref_up fixed f (w_parent cd') ;;
           handle_mouse fixed f d MDragOutside true false ;;;
           unref_list fixed f held
       else ret tt
     | _ => ret tt
     end
   | _ => ret tt
   end) ;;;
  (if v_events_asis fixed then ret tt else log_op (OFrameUnref root) ;;; unref fixed f root)).
Proof. reflexivity. Qed.

Lemma unref_F : forall f w,
  unref fixed (S f) w =
  (c <- getw w ;;
  if w_ref c <? 1 then fail Abort
  else
    setw w (set_ref c (w_ref c - 1)) ;;;
    if w_ref c - 1 =? 0 then (if v_dh fixed && w_dying c then ret tt else destroy fixed f w) else ret tt      (* && !win->is_destroying *)).
Proof. reflexivity. Qed.

Lemma destroy_F : forall f w,
  destroy fixed (S f) w =
  ((* win->is_destroying = true; tickit_bindings_unbind_and_destroy: the DESTROY handlers, last bound first -- the
     harness's own DESTROY binding, which records the order, was bound first and runs last *)
  (if v_dh fixed then upd w (fun c => set_dying c true) ;;; destroy_handlers fixed f w else ret tt) ;;;
  log_destroy w ;;;
  if v_destroy_asis fixed then
    cw <- getw w ;;
    destroy_loop_asis fixed f (w_first cw) ;;;
    cw <- getw w ;;
    (match w_parent cw with None => ret tt | Some _ => purge fixed f w end) ;;;
    cw <- getw w ;;
    (if w_closed cw then ret tt else close fixed f w) ;;;
    root_cleanup fixed f w ;;;
    freew w
  else
    cw <- getw w ;;
    (if w_closed cw then ret tt else close fixed f w) ;;;
    root_cleanup fixed f w ;;;                  (* repaired code: the root's queue goes before the children *)
    destroy_loop fixed f w ;;;
    freew w).
Proof. reflexivity. Qed.

Lemma destroy_handlers_F : forall f w,
  destroy_handlers fixed (S f) w =
  (c <- getw w ;;
  match rev (w_hs c) with
  | [] => ret tt
  | hd :: before =>
    setw w (set_hs c (rev before)) ;;;
    (if h_is HDestroy hd then run_dops fixed f w (h_actions hd) else ret tt) ;;;
    destroy_handlers fixed f w
  end).
Proof. reflexivity. Qed.

Lemma run_dops_F : forall f w l,
  run_dops fixed (S f) w l =
  (match l with
  | [] => ret tt
  | o :: l' => (if own_benign w o then quiet (run_op fixed f o) else run_op fixed f o) ;;; run_dops fixed f w l'
  end).
Proof. reflexivity. Qed.

Lemma destroy_loop_F : forall f w,
  destroy_loop fixed (S f) w =
  (cw <- getw w ;;
  match w_first cw with
  | None => ret tt
  | Some child =>
    cc <- getw child ;;
    setw w (set_first cw (w_next cc)) ;;;
    upd child (fun c => set_parent c None) ;;;
    upd child (fun c => set_next c None) ;;;
    (if v_dh fixed && w_dying cc then ret tt else unref fixed f child) ;;;
    destroy_loop fixed f w
  end).
Proof. reflexivity. Qed.

Lemma destroy_loop_asis_F : forall f child,
  destroy_loop_asis fixed (S f) child =
  (match child with
  | None => ret tt
  | Some a =>
    ca <- getw a ;;
    let next := w_next ca in
    unref fixed f a ;;;
    upd a (fun c => set_parent c None) ;;;
    destroy_loop_asis fixed f next
  end).
Proof. reflexivity. Qed.
