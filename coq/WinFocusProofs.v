(* WinFocusProofs.v -- proofs about the focus / cursor part of the window model (C15). *)
From Coq Require Import ZArith List Bool Lia ZifyBool Permutation.
From Tickit Require Import RectDefs WinRectSet WinDefs WinSpec.
Import ListNotations.
Local Open Scope Z_scope.

(* ------------------------------------------------------------------------------------ *)
(* Induction over rose trees                                                             *)

Fixpoint wtree_ind' (P : wtree -> Prop)
  (H : forall i ch, Forall P ch -> P (Node i ch)) (t : wtree) : P t :=
  match t with
  | Node i ch =>
    H i ch ((fix go (l : list wtree) : Forall P l :=
               match l with
               | [] => Forall_nil P
               | c :: r => Forall_cons c (wtree_ind' P H c) (go r)
               end) ch)
  end.

(* ------------------------------------------------------------------------------------ *)
(* Definitions                                                                           *)

Fixpoint t_ids (t : wtree) : list Z :=
  match t with
  | Node i ch => w_id i :: flat_map t_ids ch
  end.

Definition ids_unique (t : wtree) : Prop := NoDup (t_ids t).

Definition cursor_of (tm : term) : option (Z * Z * Z) :=
  if t_cvis tm then Some (t_cline tm, t_ccol tm, t_cshape tm) else None.

(* every focused-child link names a child, and that child is visible *)
Inductive wf_focus : wtree -> Prop :=
| WF_node : forall i ch,
    (forall k, w_fchild i = Some k ->
       exists c, In c ch /\ t_id c = k /\ w_vis (t_info c) = true) ->
    Forall wf_focus ch ->
    wf_focus (Node i ch).

(* ------------------------------------------------------------------------------------ *)
(* 3. C15_focus_order                                                                    *)

Definition all_out (e : list fev) : Prop := Forall (fun ev => is_in ev = false) e.
Definition all_in (e : list fev) : Prop := Forall (fun ev => is_in ev = true) e.

Lemma all_out_app : forall a b, all_out a -> all_out b -> all_out (a ++ b).
Proof. intros a b Ha Hb. apply Forall_app. split; assumption. Qed.

Lemma obi_all_in : forall c s, all_in c -> outs_before_ins c s = true.
Proof.
  induction c as [|[[r d] w] c IH]; intros s Hc; [reflexivity|].
  inversion Hc as [|x l Hd Hc']; subst. cbn in Hd. subst d.
  cbn [outs_before_ins]. apply IH. exact Hc'.
Qed.

Lemma obi_app_in : forall b c s, outs_before_ins b s = true -> all_in c ->
  outs_before_ins (b ++ c) s = true.
Proof.
  induction b as [|[[r d] w] b IH]; intros c s Hb Hc.
  - cbn [app]. apply obi_all_in. exact Hc.
  - cbn [app outs_before_ins] in *. destruct d.
    + apply IH; assumption.
    + apply andb_true_iff in Hb. destruct Hb as [Hs Hb].
      rewrite Hs. cbn [andb]. apply IH; assumption.
Qed.

Lemma obi_out_app : forall a b, all_out a -> outs_before_ins (a ++ b) false = outs_before_ins b false.
Proof.
  induction a as [|[[r d] w] a IH]; intros b Ha; [reflexivity|].
  inversion Ha as [|x l Hd Ha']; subst. cbn in Hd. subst d.
  cbn [app outs_before_ins negb andb]. apply IH. exact Ha'.
Qed.

Lemma obi_sandwich : forall a b c, all_out a -> outs_before_ins b false = true -> all_in c ->
  outs_before_ins (a ++ b ++ c) false = true.
Proof.
  intros a b c Ha Hb Hc. rewrite obi_out_app by exact Ha. apply obi_app_in; assumption.
Qed.

(* the child-list loop of focus_lost, named *)
Definition fl_go (k : Z) : list wtree -> list wtree * list fev :=
  fix go (l : list wtree) : list wtree * list fev :=
    match l with
    | [] => ([], [])
    | c :: r =>
      if t_id c =? k then let '(c', e) := focus_lost c in (c' :: r, e)
      else let '(r', e) := go r in (c :: r', e)
    end.

Lemma focus_lost_eq : forall i ch,
  focus_lost (Node i ch) =
  let '(ch', ev1) :=
    match w_fchild i with
    | None => (ch, [])
    | Some k => let '(ch', e) := fl_go k ch in
                (ch', e ++ (if w_notify i then [(w_id i, false, k)] else []))
    end in
  if w_focused i then (Node (set_focused i false) ch', ev1 ++ [(w_id i, false, w_id i)])
  else (Node i ch', ev1).
Proof. reflexivity. Qed.

Lemma focus_lost_all_out : forall t, all_out (snd (focus_lost t)).
Proof.
  induction t as [i ch IH] using wtree_ind'.
  rewrite focus_lost_eq.
  assert (Hgo : forall k, all_out (snd (fl_go k ch))).
  { intro k. induction IH as [|c r Hc Hr IHr]; cbn [fl_go].
    - constructor.
    - destruct (t_id c =? k) eqn:Ek.
      + destruct (focus_lost c) as [c' e] eqn:Ec. cbn [snd] in *. exact Hc.
      + fold (fl_go k r). destruct (fl_go k r) as [r' e] eqn:Er. cbn [snd] in *. exact IHr. }
  destruct (w_fchild i) as [k|] eqn:Efc.
  - specialize (Hgo k). destruct (fl_go k ch) as [ch' e] eqn:Ego. cbn [snd] in Hgo.
    assert (Hev : all_out (e ++ (if w_notify i then [(w_id i, false, k)] else []))).
    { apply all_out_app; [exact Hgo|]. destruct (w_notify i) eqn:En; repeat constructor. }
    destruct (w_focused i) eqn:Ef; cbn [snd].
    + apply all_out_app; [exact Hev|]. repeat constructor.
    + exact Hev.
  - destruct (w_focused i) eqn:Ef; cbn [snd]; repeat constructor.
Qed.

(* the child-list loop of t_at, named *)
Definition ta_go (f : wtree -> wtree * list fev) (id : Z) : list wtree -> list wtree * list fev :=
  fix go (l : list wtree) : list wtree * list fev :=
    match l with
    | [] => ([], [])
    | c :: r => let '(c', e1) := t_at f id c in let '(r', e2) := go r in (c' :: r', e1 ++ e2)
    end.

Lemma t_at_eq : forall f id i ch,
  t_at f id (Node i ch) =
  if w_id i =? id then f (Node i ch) else
  let '(ch', e) := ta_go f id ch in (Node i ch', e).
Proof. reflexivity. Qed.

Lemma t_at_all_out : forall f id, (forall t, all_out (snd (f t))) ->
  forall t, all_out (snd (t_at f id t)).
Proof.
  intros f id Hf. induction t as [i ch IH] using wtree_ind'.
  rewrite t_at_eq. destruct (w_id i =? id) eqn:Eid; [apply Hf|].
  assert (Hgo : all_out (snd (ta_go f id ch))).
  { induction IH as [|c r Hc Hr IHr]; cbn [ta_go].
    - constructor.
    - destruct (t_at f id c) as [c' e1] eqn:Ec. fold (ta_go f id r).
      destruct (ta_go f id r) as [r' e2] eqn:Er. cbn [snd] in *.
      apply all_out_app; assumption. }
  destruct (ta_go f id ch) as [ch' e] eqn:Ego. cbn [snd] in *. exact Hgo.
Qed.

Theorem C15_focus_order : forall cfg chain child tree tree' evs rs,
  focus_gained cfg chain child tree = (tree', evs, rs) ->
  outs_before_ins evs false = true.
Proof.
  intros cfg chain. induction chain as [|w rest IH]; intros child tree tree' evs rs Hfg.
  - cbn [focus_gained] in Hfg. inversion Hfg; subst. reflexivity.
  - cbn [focus_gained] in Hfg.
    destruct (t_find w tree) as [wn|] eqn:Efind; [|inversion Hfg; subst; reflexivity].
    set (i := t_info wn) in *.
    (* ev1 *)
    destruct (match w_fchild i with
        | Some fc =>
          if (match child with Some c => negb (fc =? c) | None => negb (d_focus_nolost cfg) end) then
            let '(tr, e) := t_at focus_lost fc tree in
            (tr, e ++ (if w_notify i && negb (d_notify_noout cfg) then [(w, false, fc)] else []))
          else (tree, [])
        | None => (tree, [])
        end) as [tree1 ev1] eqn:E1.
    assert (Hev1 : all_out ev1).
    { destruct (w_fchild i) as [fc|] eqn:Efc.
      - destruct (match child with Some c => negb (fc =? c) | None => negb (d_focus_nolost cfg) end) eqn:Econd.
        + pose proof (t_at_all_out focus_lost fc focus_lost_all_out tree) as Hta.
          destruct (t_at focus_lost fc tree) as [tr e] eqn:Eta. cbn [snd] in Hta.
          inversion E1; subst. apply all_out_app; [exact Hta|].
          destruct (w_notify i && negb (d_notify_noout cfg)) eqn:En; repeat constructor.
        + inversion E1; subst. constructor.
      - inversion E1; subst. constructor. }
    destruct (match child with
        | Some _ =>
          if w_focused i && negb (d_focus_nolost cfg)
          then (t_update (fun j => set_focused j false) w tree1, [(w, false, w)])
          else (tree1, [])
        | None => (tree1, [])
        end) as [tree1b ev1b] eqn:E1b.
    assert (Hev1b : all_out ev1b).
    { destruct child as [c|].
      - destruct (w_focused i && negb (d_focus_nolost cfg)) eqn:Ef; inversion E1b; subst; repeat constructor.
      - inversion E1b; subst. constructor. }
    destruct (match rest with
        | [] => (tree1b, [], true)
        | _ :: _ => if w_vis i then focus_gained cfg rest (Some w) tree1b else (tree1b, [], false)
        end) as [[tree2 ev2] rs2] eqn:E2.
    assert (Hev2 : outs_before_ins ev2 false = true).
    { destruct rest as [|p rest'].
      - inversion E2; subst. reflexivity.
      - destruct (w_vis i) eqn:Ev.
        + eapply IH. exact E2.
        + inversion E2; subst. reflexivity. }
    inversion Hfg; subst.
    rewrite app_assoc. apply obi_sandwich.
    + apply all_out_app; assumption.
    + exact Hev2.
    + destruct child as [c|].
      * destruct (w_notify i) eqn:En; repeat constructor.
      * repeat constructor.
Qed.

(* ------------------------------------------------------------------------------------ *)
(* 5. The pinned code (defect #19, d_focus_nolost) violates the event specification      *)

Definition cfg_19 : defects := mkDefects false true false false false false false false.

Definition tree_19 : wtree :=
  Node (mkW 0 (mkRect 0 0 10 20) true false false false (Some 1) 0 0 1 true (-1))
    [ Node (mkW 1 (mkRect 1 1 6 10) true false false false (Some 2) 0 0 1 true (-1))
        [ Node (mkW 2 (mkRect 1 1 3 4) true false false true None 0 0 1 true (-1)) [] ] ].

Theorem C15_refuted_19 : exists tree w,
  let '(_, evs, _) :=
    focus_gained cfg_19
      (match t_chain w tree with Some ch => map t_id ch | None => [] end) None tree in
  c15_focus_checkb tree w evs = false.
Proof. exists tree_19, 1. vm_compute. reflexivity. Qed.

(* the same through win_take_focus, and the repaired code passes on the same tree *)
Example C15_refuted_19_take_focus :
  c15_focus_checkb tree_19 1
    (snd (win_take_focus cfg_19 (set_tree (root_new 10 20) tree_19) 1)) = false
  /\ c15_focus_checkb tree_19 1
    (snd (win_take_focus no_defects (set_tree (root_new 10 20) tree_19) 1)) = true.
Proof. split; vm_compute; reflexivity. Qed.

(* ------------------------------------------------------------------------------------ *)
(* 7. Non-vacuity of C15_restore's hypotheses                                            *)

Definition tree_nv : wtree :=
  Node (mkW 0 (mkRect 0 0 10 20) true false false false (Some 1) 0 0 1 true (-1))
    [ Node (mkW 3 (mkRect 0 0 2 2) true false false false None 0 0 1 true (-1)) [];
      Node (mkW 1 (mkRect 1 1 6 10) true false false false (Some 2) 0 0 1 true (-1))
        [ Node (mkW 2 (mkRect 1 1 3 4) true false false true None 1 2 5 true (-1)) [] ] ].

Lemma wf_focus_tree_nv : wf_focus tree_nv.
Proof.
  unfold tree_nv. constructor.
  - intros k Hk. cbn in Hk. inversion Hk; subst.
    eexists. split; [right; left; reflexivity|]. split; reflexivity.
  - constructor.
    + constructor; [intros k Hk; cbn in Hk; discriminate|constructor].
    + constructor; [|constructor]. constructor.
      * intros k Hk. cbn in Hk. inversion Hk; subst.
        eexists. split; [left; reflexivity|]. split; reflexivity.
      * constructor; [|constructor].
        constructor; [intros k Hk; cbn in Hk; discriminate|constructor].
Qed.

Example C15_nonvacuous :
  ids_unique tree_nv /\ wf_focus tree_nv /\ w_vis (t_info tree_nv) = true /\
  top (w_rect (t_info tree_nv)) = 0 /\ left (w_rect (t_info tree_nv)) = 0 /\
  cursor_spec tree_nv = Some (3, 4, 5).
Proof.
  split.
  { unfold ids_unique. cbn. repeat constructor; cbn; intuition discriminate. }
  split; [exact wf_focus_tree_nv|].
  repeat split; vm_compute; reflexivity.
Qed.

(* ------------------------------------------------------------------------------------ *)
(* 1. C15_restore                                                                        *)

(* --- unique ids --- *)

Lemma NoDup_app_disj : forall (l1 l2 : list Z) x, NoDup (l1 ++ l2) -> In x l1 -> In x l2 -> False.
Proof.
  induction l1 as [|a l1 IH]; intros l2 x Hnd H1 H2; [inversion H1|].
  cbn [app] in Hnd. inversion Hnd as [|y l Hnin Hnd']; subst.
  destruct H1 as [Ha|H1].
  - subst a. apply Hnin. apply in_or_app. right. exact H2.
  - eapply IH; eassumption.
Qed.

Lemma NoDup_app_l : forall (l1 l2 : list Z), NoDup (l1 ++ l2) -> NoDup l1.
Proof.
  induction l1 as [|a l1 IH]; intros l2 Hnd; [constructor|].
  cbn [app] in Hnd. inversion Hnd as [|y l Hnin Hnd']; subst.
  constructor.
  - intro Hin. apply Hnin. apply in_or_app. left. exact Hin.
  - eapply IH. exact Hnd'.
Qed.

Lemma NoDup_app_r : forall (l1 l2 : list Z), NoDup (l1 ++ l2) -> NoDup l2.
Proof.
  induction l1 as [|a l1 IH]; intros l2 Hnd; [exact Hnd|].
  cbn [app] in Hnd. inversion Hnd as [|y l Hnin Hnd']; subst. apply IH. exact Hnd'.
Qed.

Lemma t_ids_head : forall t, In (t_id t) (t_ids t).
Proof. intros [i ch]. left. reflexivity. Qed.

Lemma kids_nodup_in : forall ch c, NoDup (flat_map t_ids ch) -> In c ch -> NoDup (t_ids c).
Proof.
  induction ch as [|a ch IH]; intros c Hnd Hin; [inversion Hin|].
  cbn [flat_map] in Hnd. destruct Hin as [Ha|Hin].
  - subst a. eapply NoDup_app_l. exact Hnd.
  - apply IH; [|exact Hin]. eapply NoDup_app_r. exact Hnd.
Qed.

(* two children sharing an id (anywhere below them) are the same child *)
Lemma kids_disjoint : forall ch a b x, NoDup (flat_map t_ids ch) -> In a ch -> In b ch ->
  In x (t_ids a) -> In x (t_ids b) -> a = b.
Proof.
  induction ch as [|c ch IH]; intros a b x Hnd Ha Hb Hxa Hxb; [inversion Ha|].
  cbn [flat_map] in Hnd.
  destruct Ha as [Ha|Ha]; destruct Hb as [Hb|Hb].
  - congruence.
  - subst c. exfalso. eapply NoDup_app_disj; [exact Hnd|exact Hxa|].
    apply in_flat_map. exists b. split; assumption.
  - subst c. exfalso. eapply NoDup_app_disj; [exact Hnd|exact Hxb|].
    apply in_flat_map. exists a. split; assumption.
  - eapply IH; try eassumption. eapply NoDup_app_r. exact Hnd.
Qed.

Lemma kids_unique : forall ch a b, NoDup (flat_map t_ids ch) -> In a ch -> In b ch ->
  t_id a = t_id b -> a = b.
Proof.
  intros ch a b Hnd Ha Hb Hid. eapply kids_disjoint; try eassumption.
  - apply t_ids_head.
  - rewrite Hid. apply t_ids_head.
Qed.

Lemma node_nodup : forall i ch, NoDup (t_ids (Node i ch)) ->
  ~ In (w_id i) (flat_map t_ids ch) /\ NoDup (flat_map t_ids ch).
Proof. intros i ch Hnd. cbn [t_ids] in Hnd. inversion Hnd; subst. split; assumption. Qed.

Lemma kids_find_some : forall k ch c, kids_find k ch = Some c -> In c ch /\ t_id c = k.
Proof.
  intros k ch c Hf. unfold kids_find in Hf. apply find_some in Hf. destruct Hf as [Hin Hk].
  split; [exact Hin|lia].
Qed.

Lemma kids_find_in : forall k ch c, NoDup (flat_map t_ids ch) -> In c ch -> t_id c = k ->
  kids_find k ch = Some c.
Proof.
  intros k ch c Hnd Hin Hid.
  destruct (kids_find k ch) as [c'|] eqn:Ef.
  - apply kids_find_some in Ef. destruct Ef as [Hin' Hid'].
    f_equal. eapply kids_unique; try eassumption. congruence.
  - unfold kids_find in Ef. pose proof (find_none _ _ Ef c Hin) as Hn. cbn beta in Hn. lia.
Qed.

(* --- unfolding lemmas for the nested loops --- *)

Definition fw_go (k : Z) : list wtree -> option (list wtree) :=
  fix go (l : list wtree) : option (list wtree) :=
    match l with
    | [] => None
    | c :: r => if t_id c =? k then Some (focus_walk c) else go r
    end.

Lemma fw_go_find : forall k ch, fw_go k ch = option_map focus_walk (kids_find k ch).
Proof.
  intros k ch. induction ch as [|c r IH]; [reflexivity|].
  unfold kids_find. cbn [fw_go find]. destruct (t_id c =? k) eqn:Ek; [reflexivity|exact IH].
Qed.

Lemma focus_walk_unf : forall i ch,
  focus_walk (Node i ch) =
  if negb (w_vis i) then [Node i ch] else
  match w_fchild i with
  | None => [Node i ch]
  | Some k => match kids_find k ch with
              | Some c => Node i ch :: focus_walk c
              | None => [Node i ch]
              end
  end.
Proof.
  intros i ch.
  change (focus_walk (Node i ch)) with
    (if negb (w_vis i) then [Node i ch] else
     match w_fchild i with
     | None => [Node i ch]
     | Some k => match fw_go k ch with Some p => Node i ch :: p | None => [Node i ch] end
     end).
  destruct (negb (w_vis i)); [reflexivity|].
  destruct (w_fchild i) as [k|]; [|reflexivity].
  rewrite fw_go_find. destruct (kids_find k ch); reflexivity.
Qed.

Definition fc_go (k : Z) : list wtree -> option (list wtree) :=
  fix go (l : list wtree) : option (list wtree) :=
    match l with
    | [] => None
    | c :: r => if t_id c =? k then Some (focus_chain c) else go r
    end.

Lemma fc_go_find : forall k ch, fc_go k ch = option_map focus_chain (kids_find k ch).
Proof.
  intros k ch. induction ch as [|c r IH]; [reflexivity|].
  unfold kids_find. cbn [fc_go find]. destruct (t_id c =? k) eqn:Ek; [reflexivity|exact IH].
Qed.

Lemma focus_chain_unf : forall i ch,
  focus_chain (Node i ch) =
  match w_fchild i with
  | None => [Node i ch]
  | Some k => match kids_find k ch with
              | Some c => Node i ch :: focus_chain c
              | None => [Node i ch]
              end
  end.
Proof.
  intros i ch.
  change (focus_chain (Node i ch)) with
    (match w_fchild i with
     | None => [Node i ch]
     | Some k => match fc_go k ch with Some p => Node i ch :: p | None => [Node i ch] end
     end).
  destruct (w_fchild i) as [k|]; [|reflexivity].
  rewrite fc_go_find. destruct (kids_find k ch); reflexivity.
Qed.

Fixpoint first_hit (ch : list wtree) (p : cell) : option wtree :=
  match ch with
  | [] => None
  | c :: r => if w_vis (t_info c) && cell_inb (w_rect (t_info c)) p then Some c else first_hit r p
  end.

Definition or_first (p : cell) : list wtree -> option (Z * cell) :=
  fix first (l : list wtree) : option (Z * cell) :=
    match l with
    | [] => None
    | c :: r =>
      let ci := t_info c in
      if w_vis ci && cell_inb (w_rect ci) p
      then Some (owner_rel c (fst p - top (w_rect ci), snd p - left (w_rect ci)))
      else first r
    end.

Lemma or_first_hit : forall p ch,
  or_first p ch =
  option_map (fun c => owner_rel c (fst p - top (w_rect (t_info c)), snd p - left (w_rect (t_info c))))
             (first_hit ch p).
Proof.
  intros p ch. induction ch as [|c r IH]; [reflexivity|].
  cbn [or_first first_hit].
  destruct (w_vis (t_info c) && cell_inb (w_rect (t_info c)) p) eqn:E; [reflexivity|exact IH].
Qed.

Lemma owner_rel_unf : forall i ch p,
  owner_rel (Node i ch) p =
  match first_hit ch p with
  | Some c => owner_rel c (fst p - top (w_rect (t_info c)), snd p - left (w_rect (t_info c)))
  | None => (w_id i, p)
  end.
Proof.
  intros i ch p.
  change (owner_rel (Node i ch) p) with
    (match or_first p ch with Some x => x | None => (w_id i, p) end).
  rewrite or_first_hit. destruct (first_hit ch p); reflexivity.
Qed.

Lemma first_hit_some : forall ch p c, first_hit ch p = Some c ->
  In c ch /\ w_vis (t_info c) = true /\ cell_inb (w_rect (t_info c)) p = true.
Proof.
  induction ch as [|a r IH]; intros p c Hf; [discriminate|].
  cbn [first_hit] in Hf.
  destruct (w_vis (t_info a) && cell_inb (w_rect (t_info a)) p) eqn:E.
  - inversion Hf; subst. apply andb_true_iff in E. destruct E as [E1 E2].
    split; [left; reflexivity|split; assumption].
  - destruct (IH p c Hf) as [Hin Hr]. split; [right; exact Hin|exact Hr].
Qed.

Lemma owner_rel_id : forall t p, In (fst (owner_rel t p)) (t_ids t).
Proof.
  induction t as [i ch IH] using wtree_ind'. intro p.
  rewrite owner_rel_unf. destruct (first_hit ch p) as [c|] eqn:Eh.
  - apply first_hit_some in Eh. destruct Eh as [Hin _].
    cbn [t_ids]. right. apply in_flat_map. exists c. split; [exact Hin|].
    rewrite Forall_forall in IH. apply IH. exact Hin.
  - left. reflexivity.
Qed.

(* --- obscured versus first_hit --- *)

Lemma obscured_none : forall ch l c, obscured ch None l c = false <-> first_hit ch (l, c) = None.
Proof.
  induction ch as [|a r IH]; intros l c; [split; reflexivity|].
  cbn [obscured first_hit opt_eqb].
  destruct (w_vis (t_info a)) eqn:Ev; cbn [negb andb].
  - destruct (cell_inb (w_rect (t_info a)) (l, c)) eqn:Ein.
    + split; discriminate.
    + apply IH.
  - apply IH.
Qed.

Lemma obscured_some : forall ch n l c,
  NoDup (flat_map t_ids ch) -> In n ch -> w_vis (t_info n) = true ->
  cell_inb (w_rect (t_info n)) (l, c) = true ->
  (obscured ch (Some (t_id n)) l c = false <-> first_hit ch (l, c) = Some n).
Proof.
  induction ch as [|a r IH]; intros n l c Hnd Hin Hv Hc; [inversion Hin|].
  cbn [obscured first_hit opt_eqb].
  destruct (t_id n =? t_id a) eqn:Eid.
  - assert (Ha : a = n).
    { eapply kids_unique; [exact Hnd|left; reflexivity|exact Hin|lia]. }
    subst a. rewrite Hv, Hc. cbn [andb]. split; reflexivity.
  - destruct Hin as [Hin|Hin]; [subst a; lia|].
    assert (Hnd' : NoDup (flat_map t_ids r)).
    { cbn [flat_map] in Hnd. eapply NoDup_app_r. exact Hnd. }
    destruct (w_vis (t_info a)) eqn:Ev; cbn [negb andb].
    + destruct (cell_inb (w_rect (t_info a)) (l, c)) eqn:Ein.
      * split; [discriminate|]. intro Hs. inversion Hs; subst. lia.
      * apply IH; assumption.
    + apply IH; assumption.
Qed.

(* --- sums of origins --- *)

Fixpoint otop (l : list wtree) : Z :=
  match l with [] => 0 | w :: r => top (w_rect (t_info w)) + otop r end.
Fixpoint oleft (l : list wtree) : Z :=
  match l with [] => 0 | w :: r => left (w_rect (t_info w)) + oleft r end.

Lemma fold_origin : forall l acc,
  fold_left (fun (acc : Z * Z) w => (fst acc + top (w_rect (t_info w)), snd acc + left (w_rect (t_info w)))) l acc
  = (fst acc + otop l, snd acc + oleft l).
Proof.
  induction l as [|w r IH]; intros [a b].
  - cbn [fold_left otop oleft fst snd]. f_equal; lia.
  - cbn [fold_left]. rewrite IH. cbn [otop oleft fst snd]. f_equal; lia.
Qed.

Lemma otop_app : forall l1 l2, otop (l1 ++ l2) = otop l1 + otop l2.
Proof. induction l1 as [|w r IH]; intro l2; cbn [app otop]; [lia|rewrite IH; lia]. Qed.
Lemma oleft_app : forall l1 l2, oleft (l1 ++ l2) = oleft l1 + oleft l2.
Proof. induction l1 as [|w r IH]; intro l2; cbn [app oleft]; [lia|rewrite IH; lia]. Qed.
Lemma otop_rev : forall l, otop (rev l) = otop l.
Proof. induction l as [|w r IH]; [reflexivity|]. cbn [rev]. rewrite otop_app, IH. cbn [otop]. lia. Qed.
Lemma oleft_rev : forall l, oleft (rev l) = oleft l.
Proof. induction l as [|w r IH]; [reflexivity|]. cbn [rev]. rewrite oleft_app, IH. cbn [oleft]. lia. Qed.

Lemma abs_origin_eq : forall up, abs_origin up = (otop up, oleft up).
Proof. intro up. unfold abs_origin. rewrite fold_origin. reflexivity. Qed.
Lemma chain_origin_eq : forall ch, chain_origin ch = (otop ch, oleft ch).
Proof. intro ch. unfold chain_origin. rewrite fold_origin. reflexivity. Qed.

(* --- cell_visible, one level at a time --- *)

Definition cv1 (w : wtree) (prev : option Z) (line col : Z) : bool :=
  let i := t_info w in
  if (line <? 0) || (line >=? lines (w_rect i)) || (col <? 0) || (col >=? cols (w_rect i)) then false
  else if obscured (t_kids w) prev line col then false else true.

Lemma cell_visible_cons : forall w rest prev l c,
  cell_visible (w :: rest) prev l c =
  cv1 w prev l c &&
  cell_visible rest (Some (t_id w)) (l + top (w_rect (t_info w))) (c + left (w_rect (t_info w))).
Proof.
  intros w rest prev l c. cbn [cell_visible]. unfold cv1. cbn zeta.
  destruct ((l <? 0) || (l >=? lines (w_rect (t_info w))) || (c <? 0) || (c >=? cols (w_rect (t_info w)))) eqn:Eb;
    [reflexivity|].
  destruct (obscured (t_kids w) prev l c) eqn:Eo; reflexivity.
Qed.

Definition lastid (up : list wtree) (prev : option Z) : option Z :=
  fold_left (fun _ w => Some (t_id w)) up prev.

Lemma cell_visible_snoc : forall up p prev l c,
  cell_visible (up ++ [p]) prev l c =
  cell_visible up prev l c && cv1 p (lastid up prev) (l + otop up) (c + oleft up).
Proof.
  induction up as [|w r IH]; intros p prev l c.
  - cbn [app]. rewrite cell_visible_cons. cbn [cell_visible lastid fold_left otop oleft].
    rewrite andb_true_r, !Z.add_0_r. reflexivity.
  - cbn [app]. rewrite !cell_visible_cons, IH. unfold lastid. cbn [fold_left otop oleft].
    rewrite andb_assoc, !Z.add_assoc. reflexivity.
Qed.

Lemma cv1_iff : forall w prev l c,
  cv1 w prev l c = true <->
  cell_inb (selfrect (t_info w)) (l, c) = true /\ obscured (t_kids w) prev l c = false.
Proof.
  intros w prev l c. unfold cv1, cell_inb, selfrect, bottom, right. cbn [top left lines cols fst snd].
  destruct (obscured (t_kids w) prev l c) eqn:Eo.
  - destruct ((l <? 0) || (l >=? lines (w_rect (t_info w))) || (c <? 0) || (c >=? cols (w_rect (t_info w))));
      split; try discriminate; intros [_ H]; discriminate.
  - destruct ((l <? 0) || (l >=? lines (w_rect (t_info w))) || (c <? 0) || (c >=? cols (w_rect (t_info w)))) eqn:Eb;
      split; intro H; try (split; [lia|reflexivity]); try discriminate; try reflexivity.
    destruct H as [H _]. lia.
Qed.

(* --- facts on focus_walk --- *)

Lemma focus_walk_hd : forall t, exists tl, focus_walk t = t :: tl.
Proof.
  intros [i ch]. rewrite focus_walk_unf.
  destruct (negb (w_vis i)); [eexists; reflexivity|].
  destruct (w_fchild i) as [k|]; [|eexists; reflexivity].
  destruct (kids_find k ch); eexists; reflexivity.
Qed.

Lemma focus_walk_ids : forall t x, In x (focus_walk t) -> In (t_id x) (t_ids t).
Proof.
  induction t as [i ch IH] using wtree_ind'. intros x Hin.
  rewrite focus_walk_unf in Hin.
  assert (Hself : In x [Node i ch] -> In (t_id x) (t_ids (Node i ch))).
  { intros [Hx|[]]. subst x. apply t_ids_head. }
  destruct (negb (w_vis i)); [auto|].
  destruct (w_fchild i) as [k|]; [|auto].
  destruct (kids_find k ch) as [c|] eqn:Ef; [|auto].
  destruct Hin as [Hx|Hin]; [apply Hself; left; exact Hx|].
  apply kids_find_some in Ef. destruct Ef as [Hc _].
  cbn [t_ids]. right. apply in_flat_map. exists c. split; [exact Hc|].
  rewrite Forall_forall in IH. apply IH; assumption.
Qed.

Lemma last_default : forall (l : list wtree) d d', l <> [] -> last l d = last l d'.
Proof.
  induction l as [|a r IH]; intros d d' Hne; [congruence|].
  destruct r as [|b r']; [reflexivity|].
  cbn [last]. apply IH. discriminate.
Qed.

Lemma last_in : forall (l : list wtree) d, l <> [] -> In (last l d) l.
Proof.
  induction l as [|a r IH]; intros d Hne; [congruence|].
  destruct r as [|b r']; [left; reflexivity|].
  right. apply IH. discriminate.
Qed.

Lemma rev_last : forall (l : list wtree) d, l <> [] -> exists r, rev l = last l d :: r.
Proof.
  intros l d Hne. exists (rev (removelast l)).
  rewrite (app_removelast_last d Hne) at 1. rewrite rev_app_distr. reflexivity.
Qed.

Lemma wf_focus_inv : forall i ch, wf_focus (Node i ch) ->
  (forall k, w_fchild i = Some k -> exists c, In c ch /\ t_id c = k /\ w_vis (t_info c) = true)
  /\ Forall wf_focus ch.
Proof. intros i ch H. inversion H; subst. split; assumption. Qed.

(* under wf_focus and unique ids, the link of a node finds a visible child *)
Lemma wf_link : forall i ch k, wf_focus (Node i ch) -> NoDup (flat_map t_ids ch) ->
  w_fchild i = Some k ->
  exists c, kids_find k ch = Some c /\ In c ch /\ t_id c = k /\ w_vis (t_info c) = true /\ wf_focus c.
Proof.
  intros i ch k Hwf Hnd Hk. apply wf_focus_inv in Hwf. destruct Hwf as [Hl Hch].
  destruct (Hl k Hk) as [c [Hin [Hid Hv]]]. exists c.
  split; [apply kids_find_in; assumption|].
  repeat split; try assumption. rewrite Forall_forall in Hch. apply Hch. exact Hin.
Qed.

Lemma walk_is_chain : forall t, wf_focus t -> NoDup (t_ids t) -> w_vis (t_info t) = true ->
  focus_walk t = focus_chain t /\ forallb (fun x => w_vis (t_info x)) (focus_walk t) = true.
Proof.
  induction t as [i ch IH] using wtree_ind'. intros Hwf Hnd Hv.
  cbn [t_info] in Hv. rewrite focus_walk_unf, focus_chain_unf. rewrite Hv. cbn [negb].
  apply node_nodup in Hnd. destruct Hnd as [Hni Hnd].
  destruct (w_fchild i) as [k|] eqn:Ek.
  - destruct (wf_link i ch k Hwf Hnd Ek) as [c [Hf [Hin [Hid [Hcv Hcwf]]]]].
    rewrite Hf. rewrite Forall_forall in IH.
    destruct (IH c Hin Hcwf (kids_nodup_in ch c Hnd Hin) Hcv) as [He Hall].
    split; [rewrite He; reflexivity|].
    cbn [forallb t_info]. rewrite Hv, Hall. reflexivity.
  - split; [reflexivity|]. cbn [forallb t_info]. rewrite Hv. reflexivity.
Qed.

Lemma lastid_rev_cons : forall c tl1 prev, lastid (rev (c :: tl1)) prev = Some (t_id c).
Proof.
  intros c tl1 prev. unfold lastid. cbn [rev]. rewrite fold_left_app. reflexivity.
Qed.

Lemma inb_child_self : forall c L C,
  cell_inb (w_rect (t_info c)) (L, C) =
  cell_inb (selfrect (t_info c)) (L - top (w_rect (t_info c)), C - left (w_rect (t_info c))).
Proof.
  intros c L C. unfold cell_inb, selfrect, bottom, right. cbn [top left lines cols fst snd].
  apply eq_true_iff_eq. split; intro H; lia.
Qed.

(* KEY LEMMA: the bottom-up check of _cell_visible along the focus walk of [t] succeeds
   exactly when the top-down descent of the painter's model, started at the corresponding
   cell of [t], ends in the last window of the walk at the cell asked about. *)
Lemma cell_visible_owner : forall t, wf_focus t -> NoDup (t_ids t) -> w_vis (t_info t) = true ->
  forall l c,
  cell_visible (rev (focus_walk t)) None l c = true <->
  (cell_inb (selfrect (t_info t)) (l + otop (tl (focus_walk t)), c + oleft (tl (focus_walk t))) = true /\
   owner_rel t (l + otop (tl (focus_walk t)), c + oleft (tl (focus_walk t))) =
     (t_id (last (focus_walk t) t), (l, c))).
Proof.
  induction t as [i ch IH] using wtree_ind'. intros Hwf Hnd Hv l c.
  cbn [t_info] in Hv. rewrite focus_walk_unf. rewrite Hv. cbn [negb].
  apply node_nodup in Hnd. destruct Hnd as [Hni Hnd].
  destruct (w_fchild i) as [k|] eqn:Ek.
  - destruct (wf_link i ch k Hwf Hnd Ek) as [n [Hf [Hin [Hid [Hnv Hnwf]]]]].
    rewrite Hf. rewrite Forall_forall in IH.
    pose proof (IH n Hin Hnwf (kids_nodup_in ch n Hnd Hin) Hnv l c) as IHn.
    destruct (focus_walk_hd n) as [tl1 Hfw].
    assert (Hlast : last (Node i ch :: focus_walk n) (Node i ch) = last (focus_walk n) n).
    { rewrite Hfw. cbn [last]. change (last (n :: tl1) (Node i ch) = last (n :: tl1) n).
      apply last_default. discriminate. }
    rewrite Hlast.
    assert (Hwin : In (t_id (last (focus_walk n) n)) (t_ids n)).
    { apply focus_walk_ids. apply last_in. rewrite Hfw. discriminate. }
    set (w := last (focus_walk n) n) in *.
    cbn [rev tl]. rewrite cell_visible_snoc. rewrite otop_rev, oleft_rev.
    rewrite Hfw at 2. rewrite lastid_rev_cons.
    rewrite Hfw in IHn. cbn [tl] in IHn. rewrite <- Hfw in IHn.
    rewrite Hfw at 2 3 4 5 6 7. cbn [otop oleft].
    set (tn := top (w_rect (t_info n))) in *. set (ln := left (w_rect (t_info n))) in *.
    set (L1 := l + otop tl1) in *. set (C1 := c + oleft tl1) in *.
    assert (HL : l + (tn + otop tl1) = L1 + tn) by (unfold L1; lia).
    assert (HC : c + (ln + oleft tl1) = C1 + ln) by (unfold C1; lia).
    rewrite HL, HC.
    assert (Hinb : cell_inb (w_rect (t_info n)) (L1 + tn, C1 + ln) = cell_inb (selfrect (t_info n)) (L1, C1)).
    { rewrite inb_child_self. fold tn ln. f_equal. f_equal; lia. }
    rewrite andb_true_iff, cv1_iff. cbn [t_kids t_info].
    rewrite owner_rel_unf. cbn [fst snd].
    split.
    + intros [Hcv [Hself Hobs]]. apply IHn in Hcv. destruct Hcv as [Hnself Hown].
      split; [exact Hself|].
      apply obscured_some in Hobs; try assumption; [|rewrite Hinb; exact Hnself].
      rewrite Hobs. fold tn ln.
      replace (L1 + tn - tn) with L1 by lia. replace (C1 + ln - ln) with C1 by lia. exact Hown.
    + intros [Hself Hown].
      destruct (first_hit ch (L1 + tn, C1 + ln)) as [n'|] eqn:Eh.
      * pose proof (first_hit_some _ _ _ Eh) as [Hin' [Hv' Hc']].
        assert (Hn' : n' = n).
        { eapply kids_disjoint; [exact Hnd|exact Hin'|exact Hin| |exact Hwin].
          pose proof (owner_rel_id n' (L1 + tn - top (w_rect (t_info n')), C1 + ln - left (w_rect (t_info n')))) as Hid'.
          rewrite Hown in Hid'. exact Hid'. }
        subst n'. fold tn ln in Hown.
        replace (L1 + tn - tn) with L1 in Hown by lia. replace (C1 + ln - ln) with C1 in Hown by lia.
        rewrite Hinb in Hc'.
        split; [apply IHn; split; assumption|].
        split; [exact Hself|].
        apply obscured_some; try assumption. rewrite Hinb. exact Hc'.
      * exfalso. apply Hni. inversion Hown as [[Hidw Hl Hc]].
        apply in_flat_map. exists n. split; [exact Hin|]. rewrite Hidw. exact Hwin.
  - cbn [rev app tl last otop oleft]. rewrite !Z.add_0_r.
    rewrite cell_visible_cons. cbn [cell_visible]. rewrite andb_true_r.
    rewrite cv1_iff. cbn [t_kids t_info]. rewrite obscured_none, owner_rel_unf.
    split.
    + intros [Hself Hh]. rewrite Hh. split; [exact Hself|reflexivity].
    + intros [Hself Hown]. split; [exact Hself|].
      destruct (first_hit ch (l, c)) as [n'|] eqn:Eh; [|reflexivity].
      exfalso. apply Hni. apply first_hit_some in Eh. destruct Eh as [Hin' _].
      apply in_flat_map. exists n'. split; [exact Hin'|].
      pose proof (owner_rel_id n' (fst (l, c) - top (w_rect (t_info n')), snd (l, c) - left (w_rect (t_info n')))) as Hid'.
      rewrite Hown in Hid'. exact Hid'.
Qed.

Lemma cursor_of_hide : forall tm, cursor_of (term_set_cvis tm false) = None.
Proof. reflexivity. Qed.

Lemma cursor_of_show : forall tm l c s b, cursor_of (term_show_cursor tm l c s b) = Some (l, c, s).
Proof. reflexivity. Qed.

Theorem C15_restore : forall tree tm,
  ids_unique tree -> wf_focus tree -> w_vis (t_info tree) = true ->
  top (w_rect (t_info tree)) = 0 -> left (w_rect (t_info tree)) = 0 ->
  cursor_of (do_restore tree tm) = cursor_spec tree.
Proof.
  intros tree tm Hu Hwf Hv Ht Hl. unfold ids_unique in Hu.
  destruct (walk_is_chain tree Hwf Hu Hv) as [Hwc Hall].
  destruct (focus_walk_hd tree) as [tl1 Hfw].
  assert (Hne : focus_walk tree <> []) by (rewrite Hfw; discriminate).
  destruct (rev_last (focus_walk tree) tree Hne) as [r Hrev].
  unfold do_restore, cursor_spec. cbn zeta. rewrite <- Hwc, Hall. rewrite Hrev.
  set (w := last (focus_walk tree) tree) in *. rewrite <- Hrev.
  rewrite abs_origin_eq, chain_origin_eq, otop_rev, oleft_rev. cbn [fst snd].
  pose proof (cell_visible_owner tree Hwf Hu Hv (w_cline (t_info w)) (w_ccol (t_info w))) as Hkey.
  fold w in Hkey.
  assert (Hot : otop (focus_walk tree) = otop (tl (focus_walk tree))).
  { rewrite Hfw. cbn [otop tl]. lia. }
  assert (Hol : oleft (focus_walk tree) = oleft (tl (focus_walk tree))).
  { rewrite Hfw. cbn [oleft tl]. lia. }
  rewrite <- Hot, <- Hol in Hkey.
  set (cl := w_cline (t_info w)) in *. set (cc := w_ccol (t_info w)) in *.
  set (ot := otop (focus_walk tree)) in *. set (ol := oleft (focus_walk tree)) in *.
  replace (ot + cl) with (cl + ot) by lia. replace (ol + cc) with (cc + ol) by lia.
  assert (Hb : cell_visible (rev (focus_walk tree)) None cl cc =
               match owner tree (cl + ot, cc + ol) with
               | Some (id, q) => (id =? w_id (t_info w)) && (fst q =? cl) && (snd q =? cc)
               | None => false
               end).
  { apply eq_true_iff_eq. rewrite Hkey. unfold owner. rewrite Hv. cbn [andb].
    destruct (cell_inb (selfrect (t_info tree)) (cl + ot, cc + ol)) eqn:Ein.
    - destruct (owner_rel tree (cl + ot, cc + ol)) as [id [q1 q2]] eqn:Eo. cbn [fst snd].
      unfold t_id. split.
      + intros [_ He]. inversion He; subst. lia.
      + intro Hq. split; [reflexivity|]. f_equal; [|f_equal]; lia.
    - split; [intros [Hf _]; discriminate|discriminate]. }
  rewrite <- Hb.
  destruct (w_focused (t_info w)) eqn:Ef; cbn [andb]; [|apply cursor_of_hide].
  destruct (w_cvis (t_info w)) eqn:Ecv; cbn [andb]; [|apply cursor_of_hide].
  destruct (cell_visible (rev (focus_walk tree)) None cl cc) eqn:Ecell;
    [apply cursor_of_show|apply cursor_of_hide].
Qed.

(* ------------------------------------------------------------------------------------ *)
(* 2. C15_flush                                                                          *)

(* the state after the flush has cleared `later` and worked off the restack queue *)
Definition flush_pre (st : root) : root :=
  fold_left (fun s e => match e with (k, p, w) => do_hchange s k p w end)
            (r_queue (set_flags st (r_nexp st) (r_nrest st) false))
            (set_queue (set_flags st (r_nexp st) (r_nrest st) false) []).

Lemma win_flush_shape : forall cfg hnd st tm st' tm' lg,
  win_flush cfg hnd st tm = (st', tm', lg) -> r_later st = true ->
  r_tree st' = r_tree (flush_pre st) /\
  (r_nexp (flush_pre st) || r_nrest (flush_pre st) = true ->
     r_nexp st' = false /\ r_nrest st' = false /\ exists tm3, tm' = do_restore (r_tree st') tm3) /\
  (r_nexp (flush_pre st) || r_nrest (flush_pre st) = false -> tm' = tm).
Proof.
  intros cfg hnd st tm st' tm' lg Hfl Hlater.
  unfold win_flush in Hfl. rewrite Hlater in Hfl. cbn [negb] in Hfl. cbn zeta in Hfl.
  fold (flush_pre st) in Hfl. set (st2 := flush_pre st) in *.
  destruct (r_nexp st2) eqn:Enexp.
  - cbn [r_nrest set_flags set_damage r_tree r_nexp r_later] in Hfl.
    inversion Hfl; subst. cbn [r_tree r_nexp r_nrest orb].
    split; [reflexivity|]. split; [|discriminate].
    intros _. split; [reflexivity|]. split; [reflexivity|]. eexists. reflexivity.
  - destruct (r_nrest st2) eqn:Enrest.
    + inversion Hfl; subst. cbn [set_flags r_tree r_nexp r_nrest orb].
      split; [reflexivity|]. split; [|discriminate].
      intros _. split; [exact Enexp|]. split; [reflexivity|]. eexists. reflexivity.
    + inversion Hfl; subst. cbn [orb].
      split; [reflexivity|]. split; [discriminate|reflexivity].
Qed.

(* General form: any restack queue.  If the flush runs and, after the queue has been worked
   off, an expose or a restore is pending, the terminal cursor is where the specification
   puts it for the tree the flush leaves behind. *)
Theorem C15_flush : forall cfg hnd st tm st' tm' lg,
  win_flush cfg hnd st tm = (st', tm', lg) ->
  r_later st = true ->
  r_nexp (flush_pre st) || r_nrest (flush_pre st) = true ->
  ids_unique (r_tree st') -> wf_focus (r_tree st') -> w_vis (t_info (r_tree st')) = true ->
  top (w_rect (t_info (r_tree st'))) = 0 -> left (w_rect (t_info (r_tree st'))) = 0 ->
  cursor_of tm' = cursor_spec (r_tree st') /\ r_nrest st' = false /\ r_nexp st' = false.
Proof.
  intros cfg hnd st tm st' tm' lg Hfl Hlater Hflags Hu Hwf Hv Ht Hl.
  destruct (win_flush_shape _ _ _ _ _ _ _ Hfl Hlater) as [_ [Hyes _]].
  destruct (Hyes Hflags) as [Hne [Hnr [tm3 Htm]]]. subst tm'.
  split; [apply C15_restore; assumption|]. split; assumption.
Qed.

(* with an empty restack queue the tree is untouched and the flags are the state's own *)
Lemma flush_pre_noqueue : forall st, r_queue st = [] ->
  r_tree (flush_pre st) = r_tree st /\ r_nexp (flush_pre st) = r_nexp st /\
  r_nrest (flush_pre st) = r_nrest st.
Proof.
  intros st Hq. unfold flush_pre. cbn [set_flags r_queue]. rewrite Hq.
  cbn [fold_left set_queue r_tree r_nexp r_nrest]. repeat split.
Qed.

Corollary C15_flush_noqueue : forall cfg hnd st tm st' tm' lg,
  win_flush cfg hnd st tm = (st', tm', lg) ->
  r_later st = true -> r_queue st = [] ->
  r_nexp st || r_nrest st = true ->
  ids_unique (r_tree st) -> wf_focus (r_tree st) -> w_vis (t_info (r_tree st)) = true ->
  top (w_rect (t_info (r_tree st))) = 0 -> left (w_rect (t_info (r_tree st))) = 0 ->
  r_tree st' = r_tree st /\ cursor_of tm' = cursor_spec (r_tree st).
Proof.
  intros cfg hnd st tm st' tm' lg Hfl Hlater Hq Hflags Hu Hwf Hv Ht Hl.
  destruct (flush_pre_noqueue st Hq) as [Htr [Hne Hnr]].
  destruct (win_flush_shape _ _ _ _ _ _ _ Hfl Hlater) as [Htree _].
  rewrite Htr in Htree. split; [exact Htree|].
  rewrite <- Htree in *.
  eapply C15_flush; try eassumption. rewrite Hne, Hnr. exact Hflags.
Qed.

(* a flush with nothing pending leaves the terminal (hence the cursor) alone *)
Lemma C15_flush_idle : forall cfg hnd st tm st' tm' lg,
  win_flush cfg hnd st tm = (st', tm', lg) ->
  (r_later st = false \/ r_nexp (flush_pre st) || r_nrest (flush_pre st) = false) ->
  tm' = tm.
Proof.
  intros cfg hnd st tm st' tm' lg Hfl Hcase.
  destruct (r_later st) eqn:Hlater.
  - destruct Hcase as [Hc|Hc]; [discriminate|].
    destruct (win_flush_shape _ _ _ _ _ _ _ Hfl Hlater) as [_ [_ Hno]]. apply Hno. exact Hc.
  - unfold win_flush in Hfl. rewrite Hlater in Hfl. cbn [negb] in Hfl. inversion Hfl. reflexivity.
Qed.

(* ------------------------------------------------------------------------------------ *)
(* 4. C15_focus_events                                                                   *)

(* --- subtrees --- *)

Inductive subtree : wtree -> wtree -> Prop :=
| sub_refl : forall t, subtree t t
| sub_kid : forall s c t, In c (t_kids t) -> subtree s c -> subtree s t.

Lemma subtree_ids : forall s t, subtree s t -> forall z, In z (t_ids s) -> In z (t_ids t).
Proof.
  intros s t Hs. induction Hs as [t|s c t Hin Hs IH]; intros z Hz; [exact Hz|].
  destruct t as [i ch]. cbn [t_kids] in Hin. cbn [t_ids]. right.
  apply in_flat_map. exists c. split; [exact Hin|apply IH; exact Hz].
Qed.

Lemma subtree_nodup : forall s t, subtree s t -> NoDup (t_ids t) -> NoDup (t_ids s).
Proof.
  intros s t Hs. induction Hs as [t|s c t Hin Hs IH]; intro Hnd; [exact Hnd|].
  destruct t as [i ch]. cbn [t_kids] in Hin. apply node_nodup in Hnd. destruct Hnd as [_ Hnd].
  apply IH. eapply kids_nodup_in; eassumption.
Qed.

Lemma subtree_trans : forall a b c, subtree a b -> subtree b c -> subtree a c.
Proof.
  intros a b c Hab Hbc. induction Hbc as [t|s c' t Hin Hs IH]; [exact Hab|].
  eapply sub_kid; [exact Hin|apply IH; exact Hab].
Qed.

(* --- t_find --- *)

Definition tf_go (id : Z) : list wtree -> option wtree :=
  fix go (l : list wtree) : option wtree :=
    match l with
    | [] => None
    | c :: r => match t_find id c with Some x => Some x | None => go r end
    end.

Lemma t_find_unf : forall id i ch,
  t_find id (Node i ch) = if w_id i =? id then Some (Node i ch) else tf_go id ch.
Proof. reflexivity. Qed.

Lemma t_find_notin : forall z t, ~ In z (t_ids t) -> t_find z t = None.
Proof.
  intros z. induction t as [i ch IH] using wtree_ind'. intro Hn.
  rewrite t_find_unf. cbn [t_ids] in Hn.
  destruct (w_id i =? z) eqn:E; [exfalso; apply Hn; left; lia|].
  assert (Hn' : ~ In z (flat_map t_ids ch)) by (intro H; apply Hn; right; exact H).
  clear Hn E. induction IH as [|c r Hc Hr IHr]; [reflexivity|].
  cbn [tf_go]. cbn [flat_map] in Hn'.
  rewrite Hc by (intro H; apply Hn'; apply in_or_app; left; exact H).
  apply IHr. intro H; apply Hn'; apply in_or_app; right; exact H.
Qed.

Lemma t_find_subtree : forall s t, subtree s t -> NoDup (t_ids t) -> t_find (t_id s) t = Some s.
Proof.
  intros s t Hs. induction Hs as [t|s c t Hin Hs IH]; intro Hnd.
  - destruct t as [i ch]. rewrite t_find_unf. unfold t_id. cbn [t_info]. rewrite Z.eqb_refl. reflexivity.
  - destruct t as [i ch]. cbn [t_kids] in Hin. rewrite t_find_unf.
    apply node_nodup in Hnd. destruct Hnd as [Hni Hnd].
    assert (Hsc : In (t_id s) (t_ids c)) by (eapply subtree_ids; [exact Hs|apply t_ids_head]).
    destruct (w_id i =? t_id s) eqn:E.
    { exfalso. apply Hni. apply in_flat_map. exists c. split; [exact Hin|].
      replace (w_id i) with (t_id s) by lia. exact Hsc. }
    clear E Hni. induction ch as [|a r IHr]; [inversion Hin|].
    cbn [tf_go]. cbn [flat_map] in Hnd. destruct Hin as [Ha|Hin].
    + subst a. rewrite IH by (eapply NoDup_app_l; exact Hnd). reflexivity.
    + rewrite t_find_notin.
      * apply IHr; [exact Hin|eapply NoDup_app_r; exact Hnd].
      * intro Ha. eapply NoDup_app_disj; [exact Hnd|exact Ha|].
        apply in_flat_map. exists c. split; assumption.
Qed.

(* --- agreement of two trees outside a set of dirty ids --- *)

Inductive agree (D : Z -> Prop) : wtree -> wtree -> Prop :=
| agree_node : forall i i' ch ch',
    w_id i = w_id i' -> (~ D (w_id i) -> i = i') -> Forall2 (agree D) ch ch' ->
    agree D (Node i ch) (Node i' ch').

Lemma agree_refl : forall D t, agree D t t.
Proof.
  intros D. induction t as [i ch IH] using wtree_ind'.
  constructor; [reflexivity|reflexivity|].
  induction IH as [|c r Hc Hr IHr]; constructor; assumption.
Qed.

Lemma agree_mono : forall (D D' : Z -> Prop), (forall z, D z -> D' z) ->
  forall t t', agree D t t' -> agree D' t t'.
Proof.
  intros D D' Hsub. induction t as [i ch IH] using wtree_ind'. intros t' Ha.
  inversion Ha as [i0 i' ch0 ch' Hid Hinfo Hkids]; subst.
  constructor; [exact Hid|intro Hn; apply Hinfo; intro Hd; apply Hn; apply Hsub; exact Hd|].
  clear Ha Hid Hinfo. revert ch' Hkids.
  induction IH as [|c r Hc Hr IHr]; intros ch' Hkids; inversion Hkids; subst; constructor.
  - apply Hc. assumption.
  - apply IHr. assumption.
Qed.

Lemma agree_trans : forall D t1 t2 t3, agree D t1 t2 -> agree D t2 t3 -> agree D t1 t3.
Proof.
  intros D. induction t1 as [i ch IH] using wtree_ind'. intros t2 t3 H12 H23.
  inversion H12 as [i0 i2 ch0 ch2 Hid Hinfo Hkids]; subst.
  inversion H23 as [i0 i3 ch0 ch3 Hid' Hinfo' Hkids']; subst.
  constructor.
  - congruence.
  - intro Hn. rewrite (Hinfo Hn). apply Hinfo'. rewrite <- Hid. exact Hn.
  - clear H12 H23 Hid Hinfo Hid' Hinfo'. revert ch2 ch3 Hkids Hkids'.
    induction IH as [|c r Hc Hr IHr]; intros ch2 ch3 Hk Hk'.
    + inversion Hk; subst. inversion Hk'; subst. constructor.
    + inversion Hk; subst. inversion Hk'; subst. constructor.
      * eapply Hc; eassumption.
      * eapply IHr; eassumption.
Qed.

Lemma agree_ids : forall D t t', agree D t t' -> t_ids t = t_ids t'.
Proof.
  intros D. induction t as [i ch IH] using wtree_ind'. intros t' Ha.
  inversion Ha as [i0 i' ch0 ch' Hid Hinfo Hkids]; subst.
  cbn [t_ids]. f_equal; [exact Hid|].
  clear Ha Hid Hinfo. revert ch' Hkids.
  induction IH as [|c r Hc Hr IHr]; intros ch' Hkids; inversion Hkids; subst; [reflexivity|].
  cbn [flat_map]. f_equal; [apply Hc; assumption|apply IHr; assumption].
Qed.

Lemma agree_clean : forall D t t', agree D t t' -> (forall z, In z (t_ids t) -> ~ D z) -> t = t'.
Proof.
  intros D. induction t as [i ch IH] using wtree_ind'. intros t' Ha Hclean.
  inversion Ha as [i0 i' ch0 ch' Hid Hinfo Hkids]; subst.
  f_equal; [apply Hinfo; apply Hclean; left; reflexivity|].
  assert (Hc' : forall z, In z (flat_map t_ids ch) -> ~ D z).
  { intros z Hz. apply Hclean. right. exact Hz. }
  clear Ha Hid Hinfo Hclean. revert ch' Hkids.
  induction IH as [|c r Hc Hr IHr]; intros ch' Hkids; inversion Hkids; subst; [reflexivity|].
  cbn [flat_map] in Hc'. f_equal.
  - apply Hc; [assumption|]. intros z Hz. apply Hc'. apply in_or_app. left. exact Hz.
  - apply IHr; [|assumption]. intros z Hz. apply Hc'. apply in_or_app. right. exact Hz.
Qed.

Lemma agree_find : forall D y t t' s, agree D t t' -> t_find y t = Some s ->
  exists s', t_find y t' = Some s' /\ agree D s s'.
Proof.
  intros D y. induction t as [i ch IH] using wtree_ind'. intros t' s Ha Hf.
  inversion Ha as [i0 i' ch0 ch' Hid Hinfo Hkids]; subst.
  rewrite t_find_unf in *. rewrite <- Hid.
  destruct (w_id i =? y) eqn:E.
  - inversion Hf; subst. eexists. split; [reflexivity|exact Ha].
  - clear Ha Hid Hinfo E. revert ch' Hkids Hf.
    induction IH as [|c r Hc Hr IHr]; intros ch' Hkids Hf; [discriminate|].
    inversion Hkids as [|c0 c' r0 r' Hcc Hrr]; subst. cbn [tf_go] in *.
    destruct (t_find y c) as [x|] eqn:Efc.
    + inversion Hf; subst. destruct (Hc c' s Hcc eq_refl) as [s' [Hf' Hs']].
      rewrite Hf'. eexists. split; [reflexivity|exact Hs'].
    + assert (Hn : t_find y c' = None).
      { apply t_find_notin. rewrite <- (agree_ids D c c' Hcc). intro Hin.
        clear - Efc Hin. revert Efc Hin. generalize c. clear c.
        induction c as [j cs IHc] using wtree_ind'. intros Efc Hin.
        rewrite t_find_unf in Efc. destruct (w_id j =? y) eqn:E; [discriminate|].
        cbn [t_ids] in Hin. destruct Hin as [Hin|Hin]; [lia|].
        induction IHc as [|a r Ha Hr IHr]; [inversion Hin|].
        cbn [tf_go] in Efc. cbn [flat_map] in Hin.
        destruct (t_find y a) as [x|] eqn:Ea; [discriminate|].
        apply in_app_or in Hin. destruct Hin as [Hin|Hin]; [exact (Ha eq_refl Hin)|exact (IHr Efc Hin)]. }
      rewrite Hn. apply IHr; assumption.
Qed.

(* --- t_at --- *)

Lemma t_at_notin : forall g z t, ~ In z (t_ids t) -> t_at g z t = (t, []).
Proof.
  intros g z. induction t as [i ch IH] using wtree_ind'. intro Hn.
  rewrite t_at_eq. cbn [t_ids] in Hn.
  destruct (w_id i =? z) eqn:E; [exfalso; apply Hn; left; lia|].
  assert (Hn' : ~ In z (flat_map t_ids ch)) by (intro H; apply Hn; right; exact H).
  assert (Hgo : ta_go g z ch = (ch, [])).
  { clear Hn E. induction IH as [|c r Hc Hr IHr]; [reflexivity|].
    cbn [ta_go]. cbn [flat_map] in Hn'.
    rewrite Hc by (intro H; apply Hn'; apply in_or_app; left; exact H).
    fold (ta_go g z r).
    rewrite IHr by (intro H; apply Hn'; apply in_or_app; right; exact H). reflexivity. }
  rewrite Hgo. reflexivity.
Qed.

(* with unique ids, t_at acts on the one subtree t_find finds: events ... *)
Lemma t_at_events : forall g z t s, NoDup (t_ids t) -> t_find z t = Some s ->
  snd (t_at g z t) = snd (g s).
Proof.
  intros g z. induction t as [i ch IH] using wtree_ind'. intros s Hnd Hf.
  rewrite t_at_eq. rewrite t_find_unf in Hf.
  destruct (w_id i =? z) eqn:E; [inversion Hf; subst; reflexivity|].
  apply node_nodup in Hnd. destruct Hnd as [_ Hnd].
  assert (Hgo : snd (ta_go g z ch) = snd (g s)).
  { clear E. induction IH as [|c r Hc Hr IHr]; [discriminate|].
    cbn [tf_go] in Hf. cbn [ta_go]. cbn [flat_map] in Hnd. fold (ta_go g z r).
    destruct (t_find z c) as [x|] eqn:Efc.
    - inversion Hf; subst.
      pose proof (Hc s (NoDup_app_l _ _ Hnd) eq_refl) as Hev.
      destruct (t_at g z c) as [c' e1].
      assert (Hr0 : ta_go g z r = (r, [])).
      { assert (Hzin : In z (t_ids c)).
        { destruct (in_dec Z.eq_dec z (t_ids c)) as [Hi|Hni]; [exact Hi|].
          rewrite (t_find_notin z c Hni) in Efc. discriminate. }
        assert (Hnr : ~ In z (flat_map t_ids r)).
        { intro Hin. eapply NoDup_app_disj; eassumption. }
        clear - Hnr. induction r as [|a r IHr]; [reflexivity|].
        cbn [ta_go]. cbn [flat_map] in Hnr.
        rewrite t_at_notin by (intro H; apply Hnr; apply in_or_app; left; exact H).
        fold (ta_go g z r).
        rewrite IHr by (intro H; apply Hnr; apply in_or_app; right; exact H). reflexivity. }
      rewrite Hr0. cbn [snd] in *. rewrite app_nil_r. exact Hev.
    - assert (Hc0 : t_at g z c = (c, [])).
      { apply t_at_notin. intro Hin.
        assert (Hsub : exists x, t_find z c = Some x).
        { clear - Hin. induction c as [j cs IHc] using wtree_ind'.
          rewrite t_find_unf. destruct (w_id j =? z) eqn:E; [eexists; reflexivity|].
          cbn [t_ids] in Hin. destruct Hin as [Hin|Hin]; [lia|].
          induction IHc as [|a r Ha Hr IHr]; [inversion Hin|].
          cbn [tf_go]. cbn [flat_map] in Hin. apply in_app_or in Hin.
          destruct (t_find z a) as [x|] eqn:Ea; [eexists; reflexivity|].
          destruct Hin as [Hin|Hin]; [destruct (Ha Hin) as [x Hx]; discriminate|exact (IHr Hin)]. }
        destruct Hsub as [x Hx]. rewrite Hx in Efc. discriminate. }
      rewrite Hc0. pose proof (IHr (NoDup_app_r _ _ Hnd) Hf) as Hev.
      destruct (ta_go g z r) as [r' e2]. cbn [snd app] in *. exact Hev. }
  destruct (ta_go g z ch) as [ch' e]. cbn [snd] in *. exact Hgo.
Qed.

(* ... and agreement: if [g] keeps a tree in agreement with itself outside its own ids *)
Lemma t_at_agree : forall g z (D : Z -> Prop),
  (forall s, t_id s = z -> (forall y, In y (t_ids s) -> D y) -> agree D s (fst (g s))) ->
  forall t, (forall s, subtree s t -> t_id s = z -> forall y, In y (t_ids s) -> D y) ->
  agree D t (fst (t_at g z t)).
Proof.
  intros g z D Hg. induction t as [i ch IH] using wtree_ind'. intro Hd.
  rewrite t_at_eq. destruct (w_id i =? z) eqn:E.
  - apply Hg; [unfold t_id; cbn [t_info]; lia|]. apply Hd; [constructor|unfold t_id; cbn [t_info]; lia].
  - assert (Hgo : Forall2 (agree D) ch (fst (ta_go g z ch))).
    { assert (Hd' : forall c, In c ch -> forall s, subtree s c -> t_id s = z ->
                                      forall y, In y (t_ids s) -> D y).
      { intros c Hc s Hs. apply Hd. eapply sub_kid; [exact Hc|exact Hs]. }
      clear Hd E. induction IH as [|c r Hc Hr IHr]; [constructor|].
      cbn [ta_go]. fold (ta_go g z r).
      pose proof (Hc (Hd' c (or_introl eq_refl))) as Hc1.
      assert (Hr1 : Forall2 (agree D) r (fst (ta_go g z r))).
      { apply IHr. intros c0 Hc0. apply Hd'. right. exact Hc0. }
      destruct (t_at g z c) as [c' e1]. destruct (ta_go g z r) as [r' e2].
      cbn [fst] in *. constructor; assumption. }
    destruct (ta_go g z ch) as [ch' e]. cbn [fst] in *.
    constructor; [reflexivity|reflexivity|exact Hgo].
Qed.

(* --- focus_lost --- *)

Definition le_go (k : Z) : list wtree -> list fev :=
  fix go (l : list wtree) : list fev :=
    match l with
    | [] => []
    | c :: r => if t_id c =? k then lost_events c else go r
    end.

Lemma lost_events_unf : forall i ch,
  lost_events (Node i ch) =
  (match w_fchild i with
   | Some k => le_go k ch ++ (if w_notify i then [(w_id i, false, k)] else [])
   | None => []
   end) ++ (if w_focused i then [(w_id i, false, w_id i)] else []).
Proof. reflexivity. Qed.

Lemma focus_lost_events : forall t, snd (focus_lost t) = lost_events t.
Proof.
  induction t as [i ch IH] using wtree_ind'.
  rewrite focus_lost_eq, lost_events_unf.
  assert (Hgo : forall k, snd (fl_go k ch) = le_go k ch).
  { intro k. induction IH as [|c r Hc Hr IHr]; [reflexivity|].
    cbn [fl_go le_go]. destruct (t_id c =? k) eqn:Ek.
    - destruct (focus_lost c) as [c' e]. cbn [snd] in *. exact Hc.
    - fold (fl_go k r). destruct (fl_go k r) as [r' e]. cbn [snd] in *. exact IHr. }
  destruct (w_fchild i) as [k|].
  - specialize (Hgo k). destruct (fl_go k ch) as [ch' e]. cbn [snd] in Hgo. subst e.
    destruct (w_focused i); cbn [snd]; [reflexivity|rewrite app_nil_r; reflexivity].
  - destruct (w_focused i); reflexivity.
Qed.

Lemma le_go_find : forall k ch,
  le_go k ch = match kids_find k ch with Some c => lost_events c | None => [] end.
Proof.
  intros k ch. induction ch as [|c r IH]; [reflexivity|].
  unfold kids_find. cbn [le_go find]. destruct (t_id c =? k); [reflexivity|exact IH].
Qed.

Lemma focus_lost_agree : forall (D : Z -> Prop) t, (forall y, In y (t_ids t) -> D y) ->
  agree D t (fst (focus_lost t)).
Proof.
  intros D. induction t as [i ch IH] using wtree_ind'. intro Hd.
  rewrite focus_lost_eq.
  assert (Hd' : forall c, In c ch -> forall y, In y (t_ids c) -> D y).
  { intros c Hc y Hy. apply Hd. cbn [t_ids]. right. apply in_flat_map. exists c. split; assumption. }
  assert (Hgo : forall k, Forall2 (agree D) ch (fst (fl_go k ch))).
  { intro k. clear Hd. induction IH as [|c r Hc Hr IHr]; [constructor|].
    cbn [fl_go]. destruct (t_id c =? k) eqn:Ek.
    - pose proof (Hc (Hd' c (or_introl eq_refl))) as Hc1.
      destruct (focus_lost c) as [c' e]. cbn [fst] in *. constructor; [exact Hc1|].
      clear. induction r; constructor; [apply agree_refl|assumption].
    - fold (fl_go k r).
      assert (Hr1 : Forall2 (agree D) r (fst (fl_go k r))).
      { apply IHr. intros c0 Hc0. apply Hd'. right. exact Hc0. }
      destruct (fl_go k r) as [r' e]. cbn [fst] in *. constructor; [apply agree_refl|exact Hr1]. }
  assert (Hrefl : Forall2 (agree D) ch ch).
  { clear. induction ch; constructor; [apply agree_refl|assumption]. }
  assert (Hself : D (w_id i)) by (apply Hd; left; reflexivity).
  destruct (w_fchild i) as [k|].
  - specialize (Hgo k). destruct (fl_go k ch) as [ch' e]. cbn [fst] in Hgo.
    destruct (w_focused i); cbn [fst]; constructor; try reflexivity; try exact Hgo.
    intro Hn. exfalso. exact (Hn Hself).
  - destruct (w_focused i); cbn [fst]; constructor; try reflexivity; try exact Hrefl.
    intro Hn. exfalso. exact (Hn Hself).
Qed.

(* --- t_update --- *)

Lemma t_update_agree : forall (D : Z -> Prop) f z, (forall i, w_id (f i) = w_id i) -> D z ->
  forall t, agree D t (t_update f z t).
Proof.
  intros D f z Hf Hz. induction t as [i ch IH] using wtree_ind'.
  cbn [t_update]. constructor.
  - destruct (w_id i =? z); [rewrite Hf|]; reflexivity.
  - intro Hn. destruct (w_id i =? z) eqn:E; [|reflexivity].
    exfalso. apply Hn. replace (w_id i) with z by lia. exact Hz.
  - induction IH as [|c r Hc Hr IHr]; cbn [map]; constructor; assumption.
Qed.

(* --- links that name children --- *)

(* every focused-child link names one of the node's children (no visibility demanded) *)
Inductive wf_links : wtree -> Prop :=
| WL_node : forall i ch,
    (forall k, w_fchild i = Some k -> exists c, In c ch /\ t_id c = k) ->
    Forall wf_links ch ->
    wf_links (Node i ch).

Lemma wf_focus_links : forall t, wf_focus t -> wf_links t.
Proof.
  induction t as [i ch IH] using wtree_ind'. intro Hwf.
  apply wf_focus_inv in Hwf. destruct Hwf as [Hl Hch]. constructor.
  - intros k Hk. destruct (Hl k Hk) as [c [Hin [Hid _]]]. exists c. split; assumption.
  - rewrite Forall_forall in *. intros c Hc. apply IH; [exact Hc|apply Hch; exact Hc].
Qed.

Lemma wf_links_subtree : forall s t, subtree s t -> wf_links t -> wf_links s.
Proof.
  intros s t Hs. induction Hs as [t|s c t Hin Hs IH]; intro Hwl; [exact Hwl|].
  apply IH. inversion Hwl as [i ch Hl Hch]; subst. cbn [t_kids] in Hin.
  rewrite Forall_forall in Hch. apply Hch. exact Hin.
Qed.

(* --- the chain t_path returns --- *)

Fixpoint uplinked (up : list wtree) : Prop :=
  match up with
  | [] => True
  | a :: rest => match rest with [] => True | b :: _ => In a (t_kids b) end /\ uplinked rest
  end.

Lemma uplinked_snoc : forall l c x, uplinked (l ++ [c]) -> In c (t_kids x) -> uplinked (l ++ [c; x]).
Proof.
  induction l as [|a l IH]; intros c x Hu Hin.
  - cbn [app uplinked]. repeat split. exact Hin.
  - cbn [app uplinked] in *. destruct Hu as [Hh Ht]. split; [|apply IH; assumption].
    destruct l as [|b l']; cbn [app] in *; exact Hh.
Qed.

Definition tp_go (id : Z) : list wtree -> option (list wtree) :=
  fix go (l : list wtree) : option (list wtree) :=
    match l with
    | [] => None
    | c :: r => match t_path id c with Some p => Some p | None => go r end
    end.

Lemma t_path_unf : forall id i ch,
  t_path id (Node i ch) =
  if w_id i =? id then Some [Node i ch] else
  match tp_go id ch with Some p => Some (Node i ch :: p) | None => None end.
Proof. reflexivity. Qed.

Lemma t_path_spec : forall w t p, t_path w t = Some p ->
  (exists tl, p = t :: tl) /\ uplinked (rev p) /\ Forall (fun a => subtree a t) p.
Proof.
  intros w. induction t as [i ch IH] using wtree_ind'. intros p Hp.
  rewrite t_path_unf in Hp. destruct (w_id i =? w) eqn:E.
  - inversion Hp; subst. split; [eexists; reflexivity|]. split; [cbn; auto|].
    constructor; [constructor|constructor].
  - destruct (tp_go w ch) as [p'|] eqn:Ego; [|discriminate]. inversion Hp; subst. clear Hp.
    assert (Hc : exists c, In c ch /\ t_path w c = Some p').
    { clear IH E. induction ch as [|c r IHr]; [discriminate|].
      cbn [tp_go] in Ego. destruct (t_path w c) as [q|] eqn:Ec.
      - inversion Ego; subst. exists c. split; [left; reflexivity|exact Ec].
      - destruct (IHr Ego) as [c0 [Hin Hc0]]. exists c0. split; [right; exact Hin|exact Hc0]. }
    destruct Hc as [c [Hin Hpc]]. rewrite Forall_forall in IH.
    destruct (IH c Hin p' Hpc) as [[tl Htl] [Hup Hall]]. subst p'.
    split; [eexists; reflexivity|]. split.
    + cbn [rev]. cbn [rev] in Hup. rewrite <- app_assoc. cbn [app].
      apply uplinked_snoc; [exact Hup|exact Hin].
    + constructor; [constructor|].
      rewrite Forall_forall in *. intros a Ha. eapply sub_kid; [exact Hin|apply Hall; exact Ha].
Qed.

(* --- filters and counts --- *)

Definition is_out (e : fev) : bool := negb (is_in e).

Lemma filter_out_all_out : forall l, all_out l -> filter is_out l = l /\ filter is_in l = [].
Proof.
  induction l as [|e l IH]; intro H; [split; reflexivity|].
  inversion H as [|x y He Hl]; subst. destruct (IH Hl) as [H1 H2].
  unfold is_out in *. cbn [filter]. rewrite He. cbn [negb]. rewrite H1, H2. split; reflexivity.
Qed.

Lemma filter_out_all_in : forall l, all_in l -> filter is_out l = [] /\ filter is_in l = l.
Proof.
  induction l as [|e l IH]; intro H; [split; reflexivity|].
  inversion H as [|x y He Hl]; subst. destruct (IH Hl) as [H1 H2].
  unfold is_out in *. cbn [filter]. rewrite He. cbn [negb]. rewrite H1, H2. split; reflexivity.
Qed.

Lemma fev_count_app : forall e l1 l2, fev_count e (l1 ++ l2) = (fev_count e l1 + fev_count e l2)%nat.
Proof. intros e l1 l2. unfold fev_count. rewrite filter_app, app_length. reflexivity. Qed.

Lemma fev_same_count : forall l1 l2, (forall e, fev_count e l1 = fev_count e l2) -> fev_same l1 l2 = true.
Proof.
  intros l1 l2 H. unfold fev_same. apply forallb_forall. intros e _. rewrite H. apply Nat.eqb_refl.
Qed.

(* --- one step of _focus_gained against the original tree --- *)

Definition dirty (prev : option wtree) : Z -> Prop :=
  fun z => match prev with Some n => In z (t_ids n) | None => False end.

Definition prev_in (prev : option wtree) (ch : list wtree) : Prop :=
  match prev with Some n => In n ch | None => True end.

Lemma dirty_grow : forall prev i ch, prev_in prev ch ->
  forall z, dirty prev z -> dirty (Some (Node i ch)) z.
Proof.
  intros prev i ch Hp z Hz. destruct prev as [n|]; [|inversion Hz].
  cbn [dirty prev_in] in *. cbn [t_ids]. right. apply in_flat_map. exists n. split; assumption.
Qed.

Lemma fg_step_find : forall T T' i ch prev,
  NoDup (t_ids T) -> subtree (Node i ch) T -> prev_in prev ch -> agree (dirty prev) T T' ->
  exists ch', t_find (w_id i) T' = Some (Node i ch').
Proof.
  intros T T' i ch prev Hnd Hsub Hp Hag.
  pose proof (t_find_subtree _ _ Hsub Hnd) as Hf. unfold t_id in Hf. cbn [t_info] in Hf.
  destruct (agree_find _ _ _ _ _ Hag Hf) as [a' [Hf' Ha']].
  inversion Ha' as [i0 i' ch0 ch' Hid Hinfo Hkids]; subst.
  assert (Hclean : ~ dirty prev (w_id i)).
  { destruct prev as [n|]; [|intro H; exact H]. cbn [dirty prev_in] in *.
    pose proof (subtree_nodup _ _ Hsub Hnd) as Hnda. apply node_nodup in Hnda.
    destruct Hnda as [Hni _]. intro Hin. apply Hni. apply in_flat_map. exists n. split; assumption. }
  pose proof (Hinfo Hclean) as He. rewrite <- He in Hf'. exists ch'. exact Hf'.
Qed.

Lemma fg_step_lost : forall T T' i ch prev fc,
  NoDup (t_ids T) -> wf_links T -> subtree (Node i ch) T -> prev_in prev ch ->
  agree (dirty prev) T T' -> w_fchild i = Some fc ->
  (match option_map t_id prev with Some c => negb (fc =? c) | None => true end) = true ->
  exists x, kids_find fc ch = Some x /\
            snd (t_at focus_lost fc T') = lost_events x /\
            agree (dirty (Some (Node i ch))) T (fst (t_at focus_lost fc T')).
Proof.
  intros T T' i ch prev fc Hnd Hwl Hsub Hp Hag Hfc Hcond.
  pose proof (subtree_nodup _ _ Hsub Hnd) as Hnda. apply node_nodup in Hnda.
  destruct Hnda as [Hni Hndch].
  pose proof (wf_links_subtree _ _ Hsub Hwl) as Hwla.
  inversion Hwla as [i0 ch0 Hl Hch]; subst.
  destruct (Hl fc Hfc) as [x [Hxin Hxid]]. exists x.
  split; [apply kids_find_in; assumption|].
  assert (Hxsub : subtree x T).
  { eapply subtree_trans; [|exact Hsub]. eapply sub_kid; [exact Hxin|constructor]. }
  pose proof (t_find_subtree _ _ Hxsub Hnd) as Hfx. rewrite Hxid in Hfx.
  destruct (agree_find _ _ _ _ _ Hag Hfx) as [x' [Hfx' Hagx]].
  assert (Hxx : x = x').
  { eapply agree_clean; [exact Hagx|]. intros z Hz Hd.
    destruct prev as [n|]; [|exact Hd]. cbn [dirty prev_in option_map] in *.
    assert (Hnx : n = x) by (eapply kids_disjoint; eassumption).
    subst n. lia. }
  subst x'.
  assert (Hnd' : NoDup (t_ids T')) by (rewrite <- (agree_ids _ _ _ Hag); exact Hnd).
  split.
  - rewrite (t_at_events focus_lost fc T' x Hnd' Hfx'). apply focus_lost_events.
  - eapply agree_trans.
    + eapply agree_mono; [|exact Hag]. apply dirty_grow. exact Hp.
    + apply t_at_agree.
      * intros s _ Hs. apply focus_lost_agree. exact Hs.
      * intros s Hs Hsid y Hy.
        pose proof (t_find_subtree _ _ Hs Hnd') as Hfs. rewrite Hsid, Hfx' in Hfs.
        inversion Hfs; subst s. cbn [dirty t_ids]. right.
        apply in_flat_map. exists x. split; assumption.
Qed.

(* --- the specification, one level at a time --- *)

Definition spec_outsA (a : wtree) (child : option Z) : list fev :=
  let i := t_info a in
  match w_fchild i with
  | Some x =>
    if (match child with Some c => c =? x | None => false end) then []
    else (match kids_find x (t_kids a) with Some c => lost_events c | None => [] end)
         ++ (if w_notify i then [(w_id i, false, x)] else [])
  | None => []
  end.

Definition spec_outsB (a : wtree) (child : option Z) : list fev :=
  let i := t_info a in
  match child with
  | Some _ => if w_focused i then [(w_id i, false, w_id i)] else []
  | None => []
  end.

Definition spec_ins (a : wtree) (child : option Z) : list fev :=
  let i := t_info a in
  match child with
  | None => [(w_id i, true, w_id i)]
  | Some c => if w_notify i then [(w_id i, true, c)] else []
  end.

Lemma focus_walk_spec_unf : forall a rest child,
  focus_walk_spec (a :: rest) child =
  let '(o, n) :=
    match rest with
    | [] => ([], [])
    | _ :: _ => if w_vis (t_info a) then focus_walk_spec rest (Some (t_id a)) else ([], [])
    end in
  ((spec_outsA a child ++ spec_outsB a child) ++ o, spec_ins a child ++ n).
Proof. reflexivity. Qed.

Lemma lost_events_all_out : forall t, all_out (lost_events t).
Proof. intro t. rewrite <- focus_lost_events. apply focus_lost_all_out. Qed.

Lemma spec_outsA_all_out : forall a child, all_out (spec_outsA a child).
Proof.
  intros a child. unfold spec_outsA. cbn zeta.
  destruct (w_fchild (t_info a)) as [x|]; [|constructor].
  destruct (match child with Some c => c =? x | None => false end); [constructor|].
  apply all_out_app.
  - destruct (kids_find x (t_kids a)); [apply lost_events_all_out|constructor].
  - destruct (w_notify (t_info a)); repeat constructor.
Qed.

Lemma spec_outsB_all_out : forall a child, all_out (spec_outsB a child).
Proof.
  intros a child. unfold spec_outsB. cbn zeta. destruct child; [|constructor].
  destruct (w_focused (t_info a)); repeat constructor.
Qed.

Lemma spec_ins_all_in : forall a child, all_in (spec_ins a child).
Proof.
  intros a child. unfold spec_ins. cbn zeta. destruct child; [|repeat constructor].
  destruct (w_notify (t_info a)); repeat constructor.
Qed.

(* --- the model's events against the specification's, for every chain suffix --- *)

Lemma fg_events : forall T, NoDup (t_ids T) -> wf_links T ->
  forall up prev T' T'' evs rs,
  Forall (fun a => subtree a T) up -> uplinked up ->
  match up with a :: _ => prev_in prev (t_kids a) | [] => True end ->
  agree (dirty prev) T T' ->
  focus_gained no_defects (map t_id up) (option_map t_id prev) T' = (T'', evs, rs) ->
  filter is_out evs = fst (focus_walk_spec up (option_map t_id prev)) /\
  forall e, fev_count e (filter is_in evs) =
            fev_count e (snd (focus_walk_spec up (option_map t_id prev))).
Proof.
  intros T Hnd Hwl. induction up as [|a rest IH]; intros prev T' T'' evs rs Hall Hup Hprev Hag Hfg.
  - cbn [map focus_gained] in Hfg. inversion Hfg; subst. cbn. split; reflexivity.
  - destruct a as [i ch]. cbn [t_kids] in Hprev.
    inversion Hall as [|x0 l0 Hsub Hall']; subst.
    destruct (fg_step_find T T' i ch prev Hnd Hsub Hprev Hag) as [ch' Hfind].
    cbn [map focus_gained] in Hfg. change (t_id (Node i ch)) with (w_id i) in Hfg.
    rewrite Hfind in Hfg. cbn [t_info] in Hfg.
    set (child := option_map t_id prev) in *.
    (* ev1 *)
    match type of Hfg with (match ?X with _ => _ end) = _ => destruct X as [tree1 ev1] eqn:E1 end.
    assert (H1 : ev1 = spec_outsA (Node i ch) child /\ agree (dirty (Some (Node i ch))) T tree1).
    { unfold spec_outsA. cbn [t_info t_kids]. cbn zeta.
      destruct (w_fchild i) as [fc|] eqn:Efc.
      - match type of E1 with (if ?c then _ else _) = _ => destruct c eqn:Econd end.
        + destruct (fg_step_lost T T' i ch prev fc Hnd Hwl Hsub Hprev Hag Efc Econd) as [x [Hkf [Hev Hag1]]].
          destruct (t_at focus_lost fc T') as [tr e] eqn:Eta. cbn [fst snd] in *.
          inversion E1; subst tree1 ev1. split; [|exact Hag1].
          rewrite Hkf, Hev. cbn [negb d_notify_noout no_defects]. rewrite andb_true_r.
          destruct child as [c|]; [|reflexivity].
          replace (c =? fc) with false by lia. reflexivity.
        + inversion E1; subst tree1 ev1. split.
          * destruct child as [c|]; [|cbn in Econd; discriminate].
            replace (c =? fc) with true by lia. reflexivity.
          * eapply agree_mono; [|exact Hag]. apply dirty_grow. exact Hprev.
      - inversion E1; subst tree1 ev1. split; [reflexivity|].
        eapply agree_mono; [|exact Hag]. apply dirty_grow. exact Hprev. }
    destruct H1 as [Hev1 Hag1].
    (* ev1b *)
    match type of Hfg with (match ?X with _ => _ end) = _ => destruct X as [tree1b ev1b] eqn:E1b end.
    assert (H1b : ev1b = spec_outsB (Node i ch) child /\ agree (dirty (Some (Node i ch))) T tree1b).
    { unfold spec_outsB. cbn [t_info]. cbn zeta.
      destruct child as [c|].
      - destruct (w_focused i) eqn:Ef; cbn [andb negb d_focus_nolost no_defects] in E1b;
          inversion E1b; subst tree1b ev1b; (split; [reflexivity|]); [|exact Hag1].
        eapply agree_trans; [exact Hag1|]. apply t_update_agree; [reflexivity|].
        cbn [dirty t_ids]. left. reflexivity.
      - inversion E1b; subst tree1b ev1b. split; [reflexivity|exact Hag1]. }
    destruct H1b as [Hev1b Hag1b].
    (* the recursion *)
    rewrite focus_walk_spec_unf. change (t_id (Node i ch)) with (w_id i). cbn [t_info].
    match type of Hfg with (match ?X with _ => _ end) = _ => destruct X as [[tree2 ev2] rs2] eqn:E2 end.
    set (R := match rest with
              | [] => ([], [])
              | _ :: _ => if w_vis i then focus_walk_spec rest (Some (w_id i)) else ([], [])
              end).
    assert (H2 : filter is_out ev2 = fst R /\
                 forall e, fev_count e (filter is_in ev2) = fev_count e (snd R)).
    { unfold R. destruct rest as [|b r].
      - cbn [map] in E2. inversion E2; subst. split; reflexivity.
      - cbn [map] in E2. destruct (w_vis i) eqn:Ev.
        + cbn [uplinked] in Hup. destruct Hup as [Hin Hup'].
          apply (IH (Some (Node i ch)) tree1b tree2 ev2 rs2 Hall' Hup'); [exact Hin|exact Hag1b|exact E2].
        + inversion E2; subst. split; reflexivity. }
    destruct H2 as [Hout2 Hin2].
    inversion Hfg; subst evs. clear Hfg.
    destruct R as [o n]. cbn [fst snd] in *.
    pose proof (filter_out_all_out _ (spec_outsA_all_out (Node i ch) child)) as [HA1 HA2].
    pose proof (filter_out_all_out _ (spec_outsB_all_out (Node i ch) child)) as [HB1 HB2].
    pose proof (filter_out_all_in _ (spec_ins_all_in (Node i ch) child)) as [HI1 HI2].
    assert (Hev3 : match child with
                   | Some c => if w_notify i then [(w_id i, true, c)] else []
                   | None => [(w_id i, true, w_id i)]
                   end = spec_ins (Node i ch) child).
    { unfold spec_ins. cbn [t_info]. destruct child; reflexivity. }
    rewrite Hev3. subst ev1 ev1b.
    rewrite !filter_app. unfold fev in *. rewrite HA1, HA2, HB1, HB2, HI1, HI2, Hout2.
    split.
    + rewrite app_nil_r, app_assoc. reflexivity.
    + intro e. cbn [app]. rewrite !fev_count_app, Hin2. lia.
Qed.

(* --- the theorem --- *)

(* C15_focus_events as asked for (hypothesis ids_unique only) is FALSE: if a focused-child
   link names a window that is not a child of the node but exists elsewhere in the tree, the
   model (like the C: it follows the pointer) unfocuses that window and sends OUT events,
   while [focus_walk_spec] looks the link up among the node's children and demands nothing. *)
Definition tree_badlink : wtree :=
  Node (mkW 0 (mkRect 0 0 10 20) true false false false (Some 2) 0 0 1 true (-1))
    [ Node (mkW 1 (mkRect 1 1 6 10) true false false false None 0 0 1 true (-1))
        [ Node (mkW 2 (mkRect 1 1 3 4) true false false true None 0 0 1 true (-1)) [] ] ].

Example C15_focus_events_needs_links :
  ids_unique tree_badlink /\
  c15_focus_checkb tree_badlink 0
    (snd (win_take_focus no_defects (set_tree (root_new 10 20) tree_badlink) 0)) = false.
Proof.
  split.
  - unfold ids_unique. cbn. repeat constructor; cbn; intuition discriminate.
  - vm_compute. reflexivity.
Qed.

(* With the extra hypothesis that every focused-child link names a child: all trees. *)
Theorem C15_focus_events : forall st w st' evs,
  ids_unique (r_tree st) -> wf_links (r_tree st) ->
  win_take_focus no_defects st w = (st', evs) ->
  c15_focus_checkb (r_tree st) w evs = true.
Proof.
  intros st w st' evs Hu Hwl Htf. unfold ids_unique in Hu.
  unfold win_take_focus in Htf. unfold c15_focus_checkb, focus_spec.
  destruct (t_chain w (r_tree st)) as [up|] eqn:Echain.
  - destruct (focus_gained no_defects (map t_id up) None (r_tree st)) as [[tr ev] rs] eqn:Efg.
    inversion Htf; subst evs. clear Htf.
    unfold t_chain in Echain. destruct (t_path w (r_tree st)) as [p|] eqn:Ep; [|discriminate].
    inversion Echain; subst up. clear Echain.
    destruct (t_path_spec _ _ _ Ep) as [_ [Hup Hall]].
    assert (Hall' : Forall (fun a => subtree a (r_tree st)) (rev p)).
    { rewrite Forall_forall in *. intros a Ha. apply Hall. apply in_rev. exact Ha. }
    pose proof (fg_events (r_tree st) Hu Hwl (rev p) None (r_tree st) tr ev rs Hall' Hup) as Hev.
    cbn [option_map] in Hev.
    assert (Hprev : match rev p with a :: _ => prev_in None (t_kids a) | [] => True end).
    { destruct (rev p); exact I. }
    destruct (Hev Hprev (agree_refl _ _) Efg) as [Hout Hin].
    destruct (focus_walk_spec (rev p) None) as [outs ins]. cbn [fst snd] in *.
    rewrite (C15_focus_order _ _ _ _ _ _ _ Efg). cbn [andb].
    apply andb_true_iff. split.
    + change (fun e => negb (is_in e)) with is_out. rewrite Hout.
      apply fev_same_count. reflexivity.
    + apply fev_same_count. exact Hin.
  - inversion Htf; subst. reflexivity.
Qed.

Corollary C15_focus_events_wf : forall st w st' evs,
  ids_unique (r_tree st) -> wf_focus (r_tree st) ->
  win_take_focus no_defects st w = (st', evs) ->
  c15_focus_checkb (r_tree st) w evs = true.
Proof.
  intros st w st' evs Hu Hwf. apply C15_focus_events; [exact Hu|apply wf_focus_links; exact Hwf].
Qed.

(* ------------------------------------------------------------------------------------ *)
(* 6. wf_focus is preserved                                                              *)

Fixpoint t_map (F : winfo -> winfo) (t : wtree) : wtree :=
  match t with Node i ch => Node (F i) (map (t_map F) ch) end.

Lemma t_update_map : forall f z t,
  t_update f z t = t_map (fun i => if w_id i =? z then f i else i) t.
Proof.
  intros f z. induction t as [i ch IH] using wtree_ind'.
  cbn [t_update t_map]. f_equal.
  induction IH as [|c r Hc Hr IHr]; [reflexivity|]. cbn [map]. rewrite Hc, IHr. reflexivity.
Qed.

Lemma t_map_comp : forall F G t, t_map G (t_map F t) = t_map (fun i => G (F i)) t.
Proof.
  intros F G. induction t as [i ch IH] using wtree_ind'.
  cbn [t_map]. f_equal. rewrite map_map.
  induction IH as [|c r Hc Hr IHr]; [reflexivity|]. cbn [map]. rewrite Hc, IHr. reflexivity.
Qed.

Lemma t_map_id : forall F t, (forall i, w_id (F i) = w_id i) -> t_id (t_map F t) = t_id t.
Proof. intros F [i ch] HF. unfold t_id. cbn [t_map t_info]. apply HF. Qed.

Lemma t_map_info : forall F t, t_info (t_map F t) = F (t_info t).
Proof. intros F [i ch]. reflexivity. Qed.

(* the local criterion: every node of the ORIGINAL tree, with its new link, finds a child
   that is visible after the change *)
Lemma wf_focus_map : forall F, (forall i, w_id (F i) = w_id i) ->
  forall t,
  (forall i ch, subtree (Node i ch) t -> forall k, w_fchild (F i) = Some k ->
     exists c, In c ch /\ t_id c = k /\ w_vis (F (t_info c)) = true) ->
  wf_focus (t_map F t).
Proof.
  intros F HF. induction t as [i ch IH] using wtree_ind'. intro Hloc.
  cbn [t_map]. constructor.
  - intros k Hk. destruct (Hloc i ch (sub_refl _) k Hk) as [c [Hin [Hid Hv]]].
    exists (t_map F c). split; [apply in_map; exact Hin|].
    split; [rewrite t_map_id by exact HF; exact Hid|rewrite t_map_info; exact Hv].
  - rewrite Forall_forall in *. intros c' Hc'. apply in_map_iff in Hc'.
    destruct Hc' as [c [Hc Hin]]. subst c'. apply IH; [exact Hin|].
    intros j cs Hs. apply Hloc. eapply sub_kid; [exact Hin|exact Hs].
Qed.

(* wf_focus at every subtree *)
Lemma wf_focus_subtree : forall s t, subtree s t -> wf_focus t -> wf_focus s.
Proof.
  intros s t Hs. induction Hs as [t|s c t Hin Hs IH]; intro Hwf; [exact Hwf|].
  apply IH. destruct t as [i ch]. apply wf_focus_inv in Hwf. destruct Hwf as [_ Hch].
  rewrite Forall_forall in Hch. apply Hch. exact Hin.
Qed.

Lemma wf_focus_node : forall t i ch k, wf_focus t -> subtree (Node i ch) t -> w_fchild i = Some k ->
  exists c, In c ch /\ t_id c = k /\ w_vis (t_info c) = true.
Proof.
  intros t i ch k Hwf Hs Hk. pose proof (wf_focus_subtree _ _ Hs Hwf) as Hn.
  apply wf_focus_inv in Hn. destruct Hn as [Hl _]. apply Hl. exact Hk.
Qed.

Lemma win_expose_tree : forall st id ex, r_tree (win_expose st id ex) = r_tree st.
Proof.
  intros st id ex. unfold win_expose.
  destruct (t_chain id (r_tree st)) as [chain|]; [|reflexivity].
  destruct (expose_up chain ex) as [d|]; [|reflexivity].
  unfold root_damage. destruct (rs_contains (r_fuel st) (r_damage st) d) as [[|]|]; try reflexivity.
  destruct (rs_add (r_fuel st) (r_damage st) d); reflexivity.
Qed.

Lemma request_restore_tree : forall st, r_tree (request_restore st) = r_tree st.
Proof. reflexivity. Qed.

(* --- win_close: no uniqueness needed --- *)

Lemma t_upd_kids_info : forall f z t, t_info (t_upd_kids f z t) = t_info t.
Proof. intros f z [i ch]. reflexivity. Qed.

Lemma t_update_info_other : forall g z t, (forall i, w_id (g i) = w_id i) ->
  t_id (t_update g z t) = t_id t.
Proof.
  intros g z [i ch] Hg. unfold t_id. cbn [t_update t_info].
  destruct (w_id i =? z); [apply Hg|reflexivity].
Qed.

Definition clear_link (id : Z) (j : winfo) : winfo :=
  if opt_eqb (w_fchild j) id then set_fchild j None else j.

Lemma clear_link_id : forall id j, w_id (clear_link id j) = w_id j.
Proof. intros id j. unfold clear_link. destruct (opt_eqb (w_fchild j) id); reflexivity. Qed.
Lemma clear_link_vis : forall id j, w_vis (clear_link id j) = w_vis j.
Proof. intros id j. unfold clear_link. destruct (opt_eqb (w_fchild j) id); reflexivity. Qed.

Lemma close_tree_wf : forall id pid t, wf_focus t ->
  wf_focus (t_update (clear_link id) pid (t_upd_kids (kids_remove id) pid t)).
Proof.
  intros id pid. induction t as [i ch IH] using wtree_ind'. intro Hwf.
  apply wf_focus_inv in Hwf. destruct Hwf as [Hl Hch].
  set (H := fun c => t_update (clear_link id) pid (t_upd_kids (kids_remove id) pid c)).
  assert (Hid : forall c, t_id (H c) = t_id c).
  { intro c. unfold H. rewrite t_update_info_other by apply clear_link_id.
    unfold t_id. rewrite t_upd_kids_info. reflexivity. }
  assert (Hvis : forall c, w_vis (t_info (H c)) = w_vis (t_info c)).
  { intro c. unfold H. destruct (t_upd_kids (kids_remove id) pid c) as [j cs] eqn:Ec.
    pose proof (t_upd_kids_info (kids_remove id) pid c) as Hi. rewrite Ec in Hi. cbn [t_info] in Hi.
    cbn [t_update t_info]. destruct (w_id j =? pid); [rewrite clear_link_vis|]; rewrite Hi; reflexivity. }
  cbn [t_upd_kids t_update].
  rewrite Forall_forall in IH, Hch.
  destruct (w_id i =? pid) eqn:Epid.
  - constructor.
    + intros k Hk. unfold clear_link in Hk.
      destruct (opt_eqb (w_fchild i) id) eqn:Eo; [discriminate|].
      destruct (Hl k Hk) as [c [Hin [Hcid Hcv]]].
      exists (H c). split; [|split; [rewrite Hid; exact Hcid|rewrite Hvis; exact Hcv]].
      unfold H. apply in_map. unfold kids_remove. apply filter_In.
      split; [apply in_map; exact Hin|].
      unfold t_id. rewrite t_upd_kids_info. fold (t_id c). rewrite Hcid.
      rewrite Hk in Eo. cbn [opt_eqb] in Eo. rewrite Eo. reflexivity.
    + rewrite Forall_forall. intros c' Hc'. apply in_map_iff in Hc'.
      destruct Hc' as [c1 [Hc1 Hin1]]. unfold kids_remove in Hin1. apply filter_In in Hin1.
      destruct Hin1 as [Hin1 _]. apply in_map_iff in Hin1. destruct Hin1 as [c [Hc Hin]].
      subst c1 c'. apply IH; [exact Hin|apply Hch; exact Hin].
  - constructor.
    + intros k Hk. destruct (Hl k Hk) as [c [Hin [Hcid Hcv]]].
      exists (H c). split; [|split; [rewrite Hid; exact Hcid|rewrite Hvis; exact Hcv]].
      unfold H. apply (in_map (t_update (clear_link id) pid)). apply in_map. exact Hin.
    + rewrite Forall_forall. intros c' Hc'. apply in_map_iff in Hc'.
      destruct Hc' as [c1 [Hc1 Hin1]]. apply in_map_iff in Hin1. destruct Hin1 as [c [Hc Hin]].
      subst c1 c'. apply IH; [exact Hin|apply Hch; exact Hin].
Qed.

(* the tree win_close leaves behind (the queue purge, the drag-source reset, the restore
   request and the expose do not touch it) *)
Lemma set_drag_tree : forall st d b l c src, r_tree (set_drag st d b l c src) = r_tree st.
Proof. reflexivity. Qed.

Lemma win_close_tree : forall cfg st id,
  r_tree (win_close cfg st id) =
  match t_chain id (r_tree st) with
  | Some (w :: p :: _) =>
    t_update (clear_link id) (t_id p) (t_upd_kids (kids_remove id) (t_id p) (r_tree st))
  | _ => r_tree st
  end.
Proof.
  intros cfg st id. unfold win_close.
  destruct (t_chain id (r_tree st)) as [[|w [|p rest]]|]; try reflexivity.
  cbn zeta.
  match goal with |- r_tree (if ?b then win_expose ?s _ _ else ?s) = _ =>
    assert (Ht : r_tree s = t_update (clear_link id) (t_id p)
                              (t_upd_kids (kids_remove id) (t_id p) (r_tree st)));
    [|destruct b; [rewrite win_expose_tree|]; exact Ht]
  end.
  match goal with |- r_tree (if ?b then request_restore ?s else ?s) = _ =>
    assert (Hs : r_tree s = t_update (clear_link id) (t_id p)
                              (t_upd_kids (kids_remove id) (t_id p) (r_tree st)));
    [|destruct b; [rewrite request_restore_tree|]; exact Hs]
  end.
  match goal with |- r_tree (match ?d with Some _ => _ | None => _ end) = _ =>
    destruct d as [src|]; [|reflexivity]
  end.
  match goal with |- r_tree (if ?b then _ else _) = _ => destruct b end; reflexivity.
Qed.

Theorem wf_focus_win_close : forall cfg st id,
  wf_focus (r_tree st) -> wf_focus (r_tree (win_close cfg st id)).
Proof.
  intros cfg st id Hwf. rewrite win_close_tree.
  destruct (t_chain id (r_tree st)) as [[|w [|p rest]]|]; try exact Hwf.
  apply close_tree_wf. exact Hwf.
Qed.

(* --- more facts on chains and unique ids --- *)

Lemma tp_go_some : forall w ch p, tp_go w ch = Some p -> exists c, In c ch /\ t_path w c = Some p.
Proof.
  intros w ch p Ego. induction ch as [|c r IHr]; [discriminate|].
  cbn [tp_go] in Ego. destruct (t_path w c) as [q|] eqn:Ec.
  - inversion Ego; subst. exists c. split; [left; reflexivity|exact Ec].
  - destruct (IHr Ego) as [c0 [Hin Hc0]]. exists c0. split; [right; exact Hin|exact Hc0].
Qed.

Lemma t_path_last : forall w t p, t_path w t = Some p -> exists q x, p = q ++ [x] /\ t_id x = w.
Proof.
  intros w. induction t as [i ch IH] using wtree_ind'. intros p Hp.
  rewrite t_path_unf in Hp. destruct (w_id i =? w) eqn:E.
  - inversion Hp; subst. exists [], (Node i ch). split; [reflexivity|]. unfold t_id. cbn [t_info]. lia.
  - destruct (tp_go w ch) as [p'|] eqn:Ego; [|discriminate]. inversion Hp; subst.
    destruct (tp_go_some _ _ _ Ego) as [c [Hin Hc]]. rewrite Forall_forall in IH.
    destruct (IH c Hin p' Hc) as [q [x [Hq Hx]]]. subst p'.
    exists (Node i ch :: q), x. split; [reflexivity|exact Hx].
Qed.

Lemma t_chain_facts : forall id T chain, t_chain id T = Some chain ->
  uplinked chain /\ Forall (fun a => subtree a T) chain /\
  (exists x rest, chain = x :: rest /\ t_id x = id) /\
  (forall x, chain = [x] -> x = T).
Proof.
  intros id T chain Hc. unfold t_chain in Hc.
  destruct (t_path id T) as [p|] eqn:Ep; [|discriminate]. inversion Hc; subst chain. clear Hc.
  destruct (t_path_spec _ _ _ Ep) as [[tl Htl] [Hup Hall]].
  destruct (t_path_last _ _ _ Ep) as [q [x [Hq Hx]]].
  split; [exact Hup|]. split.
  { rewrite Forall_forall in *. intros a Ha. apply Hall. apply in_rev. exact Ha. }
  split.
  - exists x, (rev q). split; [|exact Hx]. rewrite Hq, rev_app_distr. reflexivity.
  - intros y Hy. assert (Hp : p = [y]).
    { rewrite <- (rev_involutive p), Hy. reflexivity. }
    rewrite Htl in Hp. inversion Hp. reflexivity.
Qed.

Lemma subtree_same_id : forall T a b, NoDup (t_ids T) -> subtree a T -> subtree b T ->
  t_id a = t_id b -> a = b.
Proof.
  intros T a b Hnd Ha Hb Hid.
  pose proof (t_find_subtree _ _ Ha Hnd) as Hfa. pose proof (t_find_subtree _ _ Hb Hnd) as Hfb.
  rewrite Hid, Hfb in Hfa. inversion Hfa. reflexivity.
Qed.

Lemma proper_sub_ids : forall b T c, subtree b T -> In c (t_kids b) ->
  In (t_id c) (flat_map t_ids (t_kids T)).
Proof.
  intros b T c Hs. induction Hs as [t|s c0 t Hin Hs IH]; intro Hc.
  - apply in_flat_map. exists c. split; [exact Hc|apply t_ids_head].
  - apply in_flat_map. exists c0. split; [exact Hin|].
    destruct c0 as [j cs]. cbn [t_ids t_kids] in *. right. apply IH. exact Hc.
Qed.

Lemma kid_not_root : forall T b c, NoDup (t_ids T) -> subtree b T -> In c (t_kids b) -> t_id c <> t_id T.
Proof.
  intros T b c Hnd Hs Hc Heq. pose proof (proper_sub_ids _ _ _ Hs Hc) as Hin.
  destruct T as [i ch]. apply node_nodup in Hnd. destruct Hnd as [Hni _].
  apply Hni. cbn [t_kids] in Hin. rewrite Heq in Hin. exact Hin.
Qed.

Lemma subtree_inv : forall a i ch, subtree a (Node i ch) ->
  a = Node i ch \/ exists c, In c ch /\ subtree a c.
Proof.
  intros a i ch Hs. inversion Hs as [t|s c t Hin Hs']; subst.
  - left. reflexivity.
  - right. exists c. split; assumption.
Qed.

(* with unique ids a window has one parent *)
Lemma parent_unique : forall T, NoDup (t_ids T) ->
  forall a b c c', subtree a T -> subtree b T -> In c (t_kids a) -> In c' (t_kids b) ->
  t_id c = t_id c' -> a = b.
Proof.
  induction T as [i ch IH] using wtree_ind'. intros Hnd a b c c' Ha Hb Hc Hc' Hid.
  pose proof Hnd as Hnd0. apply node_nodup in Hnd. destruct Hnd as [Hni Hndch].
  assert (Hmix : forall a c kb b c', a = Node i ch -> In c (t_kids a) -> In kb ch -> subtree b kb ->
                   In c' (t_kids b) -> t_id c = t_id c' -> False).
  { intros a0 c0 kb b0 c0' Ha0 Hc0 Hkb Hb0 Hc0' Hid0. subst a0. cbn [t_kids] in Hc0.
    pose proof (proper_sub_ids _ _ _ Hb0 Hc0') as Hin'.
    assert (Hck : c0 = kb).
    { eapply kids_disjoint; [exact Hndch|exact Hc0|exact Hkb|apply t_ids_head|].
      rewrite Hid0. destruct kb as [j cs]. cbn [t_ids t_kids] in *. right. exact Hin'. }
    subst c0. pose proof (kids_nodup_in _ _ Hndch Hkb) as Hndk.
    destruct kb as [j cs]. apply node_nodup in Hndk. destruct Hndk as [Hnk _].
    apply Hnk. cbn [t_kids] in Hin'. rewrite <- Hid0 in Hin'. exact Hin'. }
  apply subtree_inv in Ha. apply subtree_inv in Hb.
  destruct Ha as [Ha|[ka [Hka Ha]]]; destruct Hb as [Hb|[kb [Hkb Hb]]].
  - congruence.
  - exfalso. eapply Hmix; eassumption.
  - exfalso. eapply (Hmix b c' ka a c); try eassumption. symmetry. exact Hid.
  - assert (Hkk : ka = kb).
    { eapply kids_disjoint; [exact Hndch|exact Hka|exact Hkb| |].
      - pose proof (proper_sub_ids _ _ _ Ha Hc) as Hin1.
        destruct ka as [j cs]. cbn [t_ids t_kids] in *. right. exact Hin1.
      - rewrite Hid. pose proof (proper_sub_ids _ _ _ Hb Hc') as Hin2.
        destruct kb as [j cs]. cbn [t_ids t_kids] in *. right. exact Hin2. }
    subst kb. rewrite Forall_forall in IH.
    eapply (IH ka Hka (kids_nodup_in _ _ Hndch Hka)); eassumption.
Qed.

(* --- win_show --- *)

Definition F_show (id : Z) (i : winfo) : winfo := if w_id i =? id then set_vis i true else i.
Definition G_link (pid id : Z) (j : winfo) : winfo := if w_id j =? pid then set_fchild j (Some id) else j.

Lemma F_show_id : forall id i, w_id (F_show id i) = w_id i.
Proof. intros id i. unfold F_show. destruct (w_id i =? id); reflexivity. Qed.
Lemma F_show_fchild : forall id i, w_fchild (F_show id i) = w_fchild i.
Proof. intros id i. unfold F_show. destruct (w_id i =? id); reflexivity. Qed.
Lemma F_show_vis : forall id i, w_vis i = true -> w_vis (F_show id i) = true.
Proof. intros id i Hv. unfold F_show. destruct (w_id i =? id); [reflexivity|exact Hv]. Qed.
Lemma G_link_id : forall pid id j, w_id (G_link pid id j) = w_id j.
Proof. intros pid id j. unfold G_link. destruct (w_id j =? pid); reflexivity. Qed.
Lemma G_link_vis : forall pid id j, w_vis (G_link pid id j) = w_vis j.
Proof. intros pid id j. unfold G_link. destruct (w_id j =? pid); reflexivity. Qed.

Lemma show_tree1_wf : forall id t, wf_focus t -> wf_focus (t_update (fun j => set_vis j true) id t).
Proof.
  intros id t Hwf.
  replace (t_update (fun j => set_vis j true) id t) with (t_map (F_show id) t)
    by (rewrite t_update_map; reflexivity).
  apply wf_focus_map; [apply F_show_id|].
  intros i ch Hs k Hk. rewrite F_show_fchild in Hk.
  destruct (wf_focus_node _ _ _ _ Hwf Hs Hk) as [c [Hin [Hid Hv]]].
  exists c. split; [exact Hin|]. split; [exact Hid|apply F_show_vis; exact Hv].
Qed.

Lemma show_tree2_wf : forall id T w p,
  NoDup (t_ids T) -> wf_focus T -> subtree p T -> In w (t_kids p) -> t_id w = id ->
  wf_focus (t_update (fun j => set_fchild j (Some id)) (t_id p)
                     (t_update (fun j => set_vis j true) id T)).
Proof.
  intros id T w p Hnd Hwf Hp Hw Hwid.
  replace (t_update (fun j => set_fchild j (Some id)) (t_id p) (t_update (fun j => set_vis j true) id T))
    with (t_map (fun i => G_link (t_id p) id (F_show id i)) T)
    by (rewrite !t_update_map, t_map_comp; reflexivity).
  apply wf_focus_map. { intro i. rewrite G_link_id. apply F_show_id. }
  intros i ch Hs k Hk.
  unfold G_link in Hk. rewrite F_show_id in Hk.
  destruct (w_id i =? t_id p) eqn:Epid.
  - cbn [set_fchild w_fchild] in Hk. inversion Hk; subst k.
    assert (Hnp : Node i ch = p).
    { eapply subtree_same_id; [exact Hnd|exact Hs|exact Hp|]. unfold t_id at 1. cbn [t_info]. lia. }
    subst p. cbn [t_kids] in Hw. exists w. split; [exact Hw|]. split; [exact Hwid|].
    rewrite G_link_vis. unfold F_show. unfold t_id in Hwid. rewrite Hwid, Z.eqb_refl. reflexivity.
  - rewrite F_show_fchild in Hk.
    destruct (wf_focus_node _ _ _ _ Hwf Hs Hk) as [c [Hin [Hid Hv]]].
    exists c. split; [exact Hin|]. split; [exact Hid|].
    rewrite G_link_vis. apply F_show_vis. exact Hv.
Qed.

Theorem wf_focus_win_show : forall cfg st id,
  ids_unique (r_tree st) -> wf_focus (r_tree st) -> wf_focus (r_tree (win_show cfg st id)).
Proof.
  intros cfg st id Hu Hwf. unfold ids_unique in Hu. unfold win_show.
  destruct (t_chain id (r_tree st)) as [chain|] eqn:Echain; [|exact Hwf].
  destruct (t_chain_facts _ _ _ Echain) as [Hup [Hall [[x [rest [Hx Hxid]]] _]]].
  subst chain. cbn zeta.
  destruct rest as [|p rest'].
  - rewrite win_expose_tree. cbn [andb]. cbn [set_tree r_tree]. apply show_tree1_wf. exact Hwf.
  - match goal with |- context [if ?l then t_update _ _ _ else _] => destruct l eqn:Elink end.
    + rewrite win_expose_tree.
      match goal with |- wf_focus (r_tree (if ?b then _ else _)) => destruct b end;
        cbn [request_restore set_flags set_tree r_tree];
        (eapply show_tree2_wf; [exact Hu|exact Hwf| | |exact Hxid]).
      * inversion Hall as [|? ? _ Hall']; subst. inversion Hall'; subst. assumption.
      * cbn [uplinked] in Hup. destruct Hup as [Hin _]. exact Hin.
      * inversion Hall as [|? ? _ Hall']; subst. inversion Hall'; subst. assumption.
      * cbn [uplinked] in Hup. destruct Hup as [Hin _]. exact Hin.
    + rewrite win_expose_tree. cbn [andb]. cbn [set_tree r_tree]. apply show_tree1_wf. exact Hwf.
Qed.

(* --- win_hide --- *)

Definition F_hide (id : Z) (i : winfo) : winfo := if w_id i =? id then set_vis i false else i.
Definition G_clear (pid id : Z) (j : winfo) : winfo := if w_id j =? pid then clear_link id j else j.

Lemma F_hide_id : forall id i, w_id (F_hide id i) = w_id i.
Proof. intros id i. unfold F_hide. destruct (w_id i =? id); reflexivity. Qed.
Lemma F_hide_fchild : forall id i, w_fchild (F_hide id i) = w_fchild i.
Proof. intros id i. unfold F_hide. destruct (w_id i =? id); reflexivity. Qed.
Lemma F_hide_vis : forall id i, w_id i <> id -> w_vis (F_hide id i) = w_vis i.
Proof. intros id i Hn. unfold F_hide. destruct (w_id i =? id) eqn:E; [lia|reflexivity]. Qed.
Lemma G_clear_id : forall pid id j, w_id (G_clear pid id j) = w_id j.
Proof. intros pid id j. unfold G_clear. destruct (w_id j =? pid); [apply clear_link_id|reflexivity]. Qed.
Lemma G_clear_vis : forall pid id j, w_vis (G_clear pid id j) = w_vis j.
Proof. intros pid id j. unfold G_clear. destruct (w_id j =? pid); [apply clear_link_vis|reflexivity]. Qed.

(* hiding the root *)
Lemma hide_root_wf : forall T, NoDup (t_ids T) -> wf_focus T ->
  wf_focus (t_update (fun j => set_vis j false) (t_id T) T).
Proof.
  intros T Hnd Hwf.
  replace (t_update (fun j => set_vis j false) (t_id T) T) with (t_map (F_hide (t_id T)) T)
    by (rewrite t_update_map; reflexivity).
  apply wf_focus_map; [apply F_hide_id|].
  intros i ch Hs k Hk. rewrite F_hide_fchild in Hk.
  destruct (wf_focus_node _ _ _ _ Hwf Hs Hk) as [c [Hin [Hid Hv]]].
  exists c. split; [exact Hin|]. split; [exact Hid|].
  rewrite F_hide_vis; [exact Hv|].
  change (w_id (t_info c)) with (t_id c).
  eapply kid_not_root; [exact Hnd|exact Hs|exact Hin].
Qed.

(* hiding a window below the root, and unlinking it from its parent *)
Lemma hide_tree_wf : forall id T w p,
  NoDup (t_ids T) -> wf_focus T -> subtree p T -> In w (t_kids p) -> t_id w = id ->
  wf_focus (t_update (clear_link id) (t_id p) (t_update (fun j => set_vis j false) id T)).
Proof.
  intros id T w p Hnd Hwf Hp Hw Hwid.
  replace (t_update (clear_link id) (t_id p) (t_update (fun j => set_vis j false) id T))
    with (t_map (fun i => G_clear (t_id p) id (F_hide id i)) T)
    by (rewrite !t_update_map, t_map_comp; reflexivity).
  apply wf_focus_map. { intro i. rewrite G_clear_id. apply F_hide_id. }
  intros i ch Hs k Hk.
  assert (Hk0 : w_fchild i = Some k).
  { unfold G_clear, clear_link in Hk. rewrite F_hide_id, F_hide_fchild in Hk.
    destruct (w_id i =? t_id p); [|rewrite F_hide_fchild in Hk; exact Hk].
    destruct (opt_eqb (w_fchild i) id); [discriminate|rewrite F_hide_fchild in Hk; exact Hk]. }
  destruct (wf_focus_node _ _ _ _ Hwf Hs Hk0) as [c [Hin [Hid Hv]]].
  exists c. split; [exact Hin|]. split; [exact Hid|].
  rewrite G_clear_vis. rewrite F_hide_vis; [exact Hv|].
  change (w_id (t_info c)) with (t_id c). intro Hcid.
  (* then this node is the parent p, whose link to id has just been cleared *)
  assert (Hnp : Node i ch = p).
  { eapply (parent_unique T Hnd _ _ c w); [exact Hs|exact Hp|exact Hin|exact Hw|congruence]. }
  subst p. unfold G_clear, clear_link in Hk. rewrite F_hide_id, F_hide_fchild in Hk.
  unfold t_id in Hk at 1. cbn [t_info] in Hk. rewrite Z.eqb_refl in Hk.
  rewrite Hk0 in Hk. cbn [opt_eqb] in Hk. replace (k =? id) with true in Hk by lia.
  discriminate.
Qed.

Theorem wf_focus_win_hide : forall cfg st id,
  ids_unique (r_tree st) -> wf_focus (r_tree st) -> wf_focus (r_tree (win_hide cfg st id)).
Proof.
  intros cfg st id Hu Hwf. unfold ids_unique in Hu. unfold win_hide.
  destruct (t_chain id (r_tree st)) as [chain|] eqn:Echain; [|exact Hwf].
  destruct (t_chain_facts _ _ _ Echain) as [Hup [Hall [[x [rest [Hx Hxid]]] Hone]]].
  subst chain. cbn zeta.
  destruct rest as [|p rest'].
  - cbn [set_tree r_tree]. pose proof (Hone x eq_refl) as Hxr. subst x. rewrite <- Hxid.
    apply hide_root_wf; assumption.
  - rewrite win_expose_tree.
    assert (Hgoal : wf_focus (t_update (clear_link id) (t_id p)
                       (t_update (fun j => set_vis j false) id (r_tree st)))).
    { eapply hide_tree_wf; [exact Hu|exact Hwf| | |exact Hxid].
      - inversion Hall as [|? ? _ Hall']; subst. inversion Hall'; subst. assumption.
      - cbn [uplinked] in Hup. destruct Hup as [Hin _]. exact Hin. }
    match goal with |- wf_focus (r_tree (if ?b then _ else _)) => destruct b end;
      cbn [request_restore set_flags set_tree r_tree]; exact Hgoal.
Qed.

(* --- win_take_focus --- *)

Lemma t_map_ext : forall F G, (forall i, F i = G i) -> forall t, t_map F t = t_map G t.
Proof.
  intros F G H. induction t as [i ch IH] using wtree_ind'.
  cbn [t_map]. rewrite H. f_equal.
  induction IH as [|c r Hc Hr IHr]; [reflexivity|]. cbn [map]. rewrite Hc, IHr. reflexivity.
Qed.

(* erasures: what wf_focus looks at (id, visibility, link), and the part of that which no
   focus operation ever changes (id, visibility) *)
Definition E_l (i : winfo) : winfo :=
  mkW (w_id i) (mkRect 0 0 0 0) (w_vis i) false false false (w_fchild i) 0 0 0 false 0.
Definition E_v (i : winfo) : winfo :=
  mkW (w_id i) (mkRect 0 0 0 0) (w_vis i) false false false None 0 0 0 false 0.
Definition lshape (t : wtree) : wtree := t_map E_l t.
Definition vshape (t : wtree) : wtree := t_map E_v t.

Lemma lshape_vshape : forall t t', lshape t = lshape t' -> vshape t = vshape t'.
Proof.
  intros t t' H. unfold vshape.
  rewrite (t_map_ext E_v (fun i => E_v (E_l i)) (fun _ => eq_refl) t).
  rewrite (t_map_ext E_v (fun i => E_v (E_l i)) (fun _ => eq_refl) t').
  rewrite <- (t_map_comp E_l E_v t), <- (t_map_comp E_l E_v t').
  unfold lshape in H. rewrite H. reflexivity.
Qed.

Section Erasure.
  Variable E : winfo -> winfo.
  Hypothesis HE : forall i b, E (set_focused i b) = E i.

  Lemma focus_lost_E : forall t, t_map E (fst (focus_lost t)) = t_map E t.
  Proof.
    induction t as [i ch IH] using wtree_ind'. rewrite focus_lost_eq.
    assert (Hgo : forall k, map (t_map E) (fst (fl_go k ch)) = map (t_map E) ch).
    { intro k. induction IH as [|c r Hc Hr IHr]; [reflexivity|].
      cbn [fl_go]. destruct (t_id c =? k).
      - destruct (focus_lost c) as [c' e]. cbn [fst map] in *. rewrite Hc. reflexivity.
      - fold (fl_go k r). destruct (fl_go k r) as [r' e]. cbn [fst map] in *. rewrite IHr. reflexivity. }
    destruct (w_fchild i) as [k|].
    - specialize (Hgo k). destruct (fl_go k ch) as [ch' e]. cbn [fst] in Hgo.
      destruct (w_focused i); cbn [fst t_map]; rewrite ?HE, Hgo; reflexivity.
    - destruct (w_focused i); cbn [fst t_map]; rewrite ?HE; reflexivity.
  Qed.

  Lemma t_at_E : forall g z, (forall s, t_map E (fst (g s)) = t_map E s) ->
    forall t, t_map E (fst (t_at g z t)) = t_map E t.
  Proof.
    intros g z Hg. induction t as [i ch IH] using wtree_ind'. rewrite t_at_eq.
    destruct (w_id i =? z); [apply Hg|].
    assert (Hgo : map (t_map E) (fst (ta_go g z ch)) = map (t_map E) ch).
    { induction IH as [|c r Hc Hr IHr]; [reflexivity|].
      cbn [ta_go]. destruct (t_at g z c) as [c' e1]. fold (ta_go g z r).
      destruct (ta_go g z r) as [r' e2]. cbn [fst map] in *. rewrite Hc, IHr. reflexivity. }
    destruct (ta_go g z ch) as [ch' e]. cbn [fst t_map] in *. rewrite Hgo. reflexivity.
  Qed.

  Lemma t_update_E : forall f z, (forall i, E (f i) = E i) -> forall t, t_map E (t_update f z t) = t_map E t.
  Proof.
    intros f z Hf t. rewrite t_update_map, t_map_comp. apply t_map_ext.
    intro i. destruct (w_id i =? z); [apply Hf|reflexivity].
  Qed.
End Erasure.

Lemma E_l_focused : forall i b, E_l (set_focused i b) = E_l i.
Proof. reflexivity. Qed.
Lemma E_v_focused : forall i b, E_v (set_focused i b) = E_v i.
Proof. reflexivity. Qed.

(* wf_focus only looks at the link shape *)
Lemma wf_focus_lshape_fwd : forall t, wf_focus t -> wf_focus (lshape t).
Proof.
  intros t Hwf. unfold lshape. apply wf_focus_map; [reflexivity|].
  intros i ch Hs k Hk. cbn [E_l w_fchild] in Hk.
  destruct (wf_focus_node _ _ _ _ Hwf Hs Hk) as [c [Hin [Hid Hv]]].
  exists c. split; [exact Hin|]. split; [exact Hid|exact Hv].
Qed.

Lemma wf_focus_lshape_bwd : forall t, wf_focus (lshape t) -> wf_focus t.
Proof.
  induction t as [i ch IH] using wtree_ind'. intro Hwf.
  unfold lshape in Hwf. cbn [t_map] in Hwf. apply wf_focus_inv in Hwf. destruct Hwf as [Hl Hch].
  rewrite Forall_forall in *. constructor.
  - intros k Hk. destruct (Hl k Hk) as [c' [Hin' [Hid' Hv']]].
    apply in_map_iff in Hin'. destruct Hin' as [c [Hc Hin]]. subst c'.
    exists c. split; [exact Hin|]. destruct c as [j cs]. split; [exact Hid'|exact Hv'].
  - rewrite Forall_forall. intros c Hin. apply IH; [exact Hin|].
    apply Hch. apply in_map. exact Hin.
Qed.

Lemma wf_focus_lshape : forall t t', lshape t = lshape t' -> wf_focus t -> wf_focus t'.
Proof.
  intros t t' H Hwf. apply wf_focus_lshape_bwd. rewrite <- H. apply wf_focus_lshape_fwd. exact Hwf.
Qed.

(* vshape keeps ids, and commutes with t_find *)
Lemma t_map_ids : forall F, (forall i, w_id (F i) = w_id i) -> forall t, t_ids (t_map F t) = t_ids t.
Proof.
  intros F HF. induction t as [i ch IH] using wtree_ind'.
  cbn [t_map t_ids]. rewrite HF. f_equal.
  induction IH as [|c r Hc Hr IHr]; [reflexivity|]. cbn [map flat_map]. rewrite Hc, IHr. reflexivity.
Qed.

Lemma vshape_ids : forall t t', vshape t = vshape t' -> t_ids t = t_ids t'.
Proof.
  intros t t' H. rewrite <- (t_map_ids E_v (fun _ => eq_refl) t), <- (t_map_ids E_v (fun _ => eq_refl) t').
  unfold vshape in H. rewrite H. reflexivity.
Qed.

Lemma t_find_map : forall F, (forall i, w_id (F i) = w_id i) ->
  forall y t, t_find y (t_map F t) = option_map (t_map F) (t_find y t).
Proof.
  intros F HF y. induction t as [i ch IH] using wtree_ind'.
  cbn [t_map]. rewrite !t_find_unf. rewrite HF.
  destruct (w_id i =? y); [reflexivity|].
  induction IH as [|c r Hc Hr IHr]; [reflexivity|].
  cbn [map tf_go]. rewrite Hc. destruct (t_find y c); [reflexivity|exact IHr].
Qed.

Lemma vshape_find : forall T T' y s', vshape T = vshape T' -> t_find y T' = Some s' ->
  exists s, t_find y T = Some s /\ vshape s = vshape s'.
Proof.
  intros T T' y s' H Hf.
  pose proof (t_find_map E_v (fun _ => eq_refl) y T) as H1.
  pose proof (t_find_map E_v (fun _ => eq_refl) y T') as H2.
  fold (vshape T) in H1. fold (vshape T') in H2. rewrite H, H2, Hf in H1.
  destruct (t_find y T) as [s|]; [|discriminate]. cbn [option_map] in H1.
  exists s. split; [reflexivity|]. inversion H1 as [H3]. symmetry. exact H3.
Qed.

Lemma vshape_node : forall s s', vshape s = vshape s' ->
  t_id s = t_id s' /\ w_vis (t_info s) = w_vis (t_info s') /\
  map vshape (t_kids s) = map vshape (t_kids s').
Proof.
  intros [i ch] [i' ch'] H. unfold vshape in H. cbn [t_map] in H. inversion H.
  repeat split; assumption.
Qed.

(* has a visible child with the given id *)
Definition hvk (T : wtree) (w c : Z) : Prop :=
  exists wn x, t_find w T = Some wn /\ In x (t_kids wn) /\ t_id x = c /\ w_vis (t_info x) = true.

Lemma hvk_transfer : forall T T' w c, vshape T = vshape T' -> hvk T w c -> hvk T' w c.
Proof.
  intros T T' w c H [wn [x [Hf [Hin [Hid Hv]]]]].
  destruct (vshape_find T' T w wn (eq_sym H) Hf) as [wn' [Hf' Hs]].
  destruct (vshape_node _ _ Hs) as [_ [_ Hkids]].
  assert (Hx : In (vshape x) (map vshape (t_kids wn'))).
  { rewrite Hkids. apply in_map. exact Hin. }
  apply in_map_iff in Hx. destruct Hx as [x' [Hx' Hin']].
  destruct (vshape_node _ _ Hx') as [Hid' [Hv' _]].
  exists wn', x'. split; [exact Hf'|]. split; [exact Hin'|]. split; congruence.
Qed.

(* the condition on the rest of the chain, stable under every focus operation *)
Fixpoint cc (chain : list Z) (child : option Z) (T : wtree) : Prop :=
  match chain with
  | [] => True
  | w :: rest =>
    (forall c, child = Some c -> hvk T w c) /\
    (forall wn, t_find w T = Some wn -> w_vis (t_info wn) = true -> cc rest (Some w) T)
  end.

Lemma cc_transfer : forall chain child T T', vshape T = vshape T' -> cc chain child T -> cc chain child T'.
Proof.
  induction chain as [|w rest IH]; intros child T T' H Hcc; [exact I|].
  cbn [cc] in *. destruct Hcc as [H1 H2]. split.
  - intros c Hc. eapply hvk_transfer; [exact H|apply H1; exact Hc].
  - intros wn' Hf' Hv'. destruct (vshape_find T T' w wn' H Hf') as [wn [Hf Hs]].
    destruct (vshape_node _ _ Hs) as [_ [Hv _]].
    eapply IH; [exact H|]. apply (H2 wn Hf). congruence.
Qed.

Lemma cc_init : forall T, NoDup (t_ids T) -> forall up prev,
  Forall (fun a => subtree a T) up -> uplinked up ->
  match prev, up with
  | Some n, b :: _ => In n (t_kids b) /\ w_vis (t_info n) = true
  | _, _ => True
  end ->
  cc (map t_id up) (option_map t_id prev) T.
Proof.
  intros T Hnd. induction up as [|b r IH]; intros prev Hall Hup Hprev; [exact I|].
  inversion Hall as [|? ? Hb Hall']; subst. cbn [map cc]. split.
  - intros c Hc. destruct prev as [n|]; [|discriminate]. cbn [option_map] in Hc. inversion Hc; subst c.
    destruct Hprev as [Hin Hv]. exists b, n.
    split; [apply t_find_subtree; assumption|]. repeat split; assumption.
  - intros wn Hf Hv. rewrite (t_find_subtree _ _ Hb Hnd) in Hf. inversion Hf; subst wn.
    cbn [uplinked] in Hup. destruct Hup as [Hlink Hup'].
    apply (IH (Some b) Hall' Hup'). destruct r as [|b2 r']; [exact I|]. split; assumption.
Qed.

Lemma fg_wf : forall cfg chain child T T'' evs rs,
  NoDup (t_ids T) -> wf_focus T -> cc chain child T ->
  focus_gained cfg chain child T = (T'', evs, rs) ->
  wf_focus T'' /\ vshape T'' = vshape T.
Proof.
  intros cfg. induction chain as [|w rest IH]; intros child T T'' evs rs Hnd Hwf Hcc Hfg.
  - cbn [focus_gained] in Hfg. inversion Hfg; subst. split; [exact Hwf|reflexivity].
  - cbn [focus_gained] in Hfg.
    destruct (t_find w T) as [wn|] eqn:Efind; [|inversion Hfg; subst; split; [exact Hwf|reflexivity]].
    cbn [cc] in Hcc. destruct Hcc as [Hc1 Hc2]. specialize (Hc2 wn Efind).
    match type of Hfg with (match ?X with _ => _ end) = _ => destruct X as [tree1 ev1] eqn:E1 end.
    assert (H1 : lshape tree1 = lshape T).
    { destruct (w_fchild (t_info wn)) as [fc|].
      - match type of E1 with (if ?c then _ else _) = _ => destruct c end.
        + pose proof (t_at_E E_l focus_lost fc (focus_lost_E E_l E_l_focused) T) as Hta.
          destruct (t_at focus_lost fc T) as [tr e]. cbn [fst] in Hta. inversion E1; subst. exact Hta.
        + inversion E1; subst. reflexivity.
      - inversion E1; subst. reflexivity. }
    match type of Hfg with (match ?X with _ => _ end) = _ => destruct X as [tree1b ev1b] eqn:E1b end.
    assert (H1b : lshape tree1b = lshape T).
    { destruct child as [c|].
      - match type of E1b with (if ?c then _ else _) = _ => destruct c end.
        + inversion E1b; subst. unfold lshape. rewrite t_update_E; [exact H1|intro i; reflexivity].
        + inversion E1b; subst. exact H1.
      - inversion E1b; subst. exact H1. }
    pose proof (wf_focus_lshape T tree1b (eq_sym H1b) Hwf) as Hwf1b.
    pose proof (lshape_vshape _ _ H1b) as Hv1b.
    match type of Hfg with (match ?X with _ => _ end) = _ => destruct X as [[tree2 ev2] rs2] eqn:E2 end.
    assert (H2 : wf_focus tree2 /\ vshape tree2 = vshape T).
    { destruct rest as [|p r].
      - inversion E2; subst. split; assumption.
      - destruct (w_vis (t_info wn)) eqn:Ev.
        + destruct (IH (Some w) tree1b tree2 ev2 rs2) as [Hw2 Hv2].
          * rewrite (vshape_ids _ _ Hv1b). exact Hnd.
          * exact Hwf1b.
          * eapply cc_transfer; [symmetry; exact Hv1b|exact (Hc2 eq_refl)].
          * exact E2.
          * split; [exact Hw2|rewrite Hv2; exact Hv1b].
        + inversion E2; subst. split; assumption. }
    destruct H2 as [Hwf2 Hv2].
    inversion Hfg; subst T'' evs rs. clear Hfg.
    match goal with |- wf_focus (t_update ?F _ _) /\ _ => set (Fn := F) end.
    assert (HFid : forall i, w_id (Fn i) = w_id i) by (intro i; unfold Fn; destruct child; reflexivity).
    assert (HFvis : forall i, w_vis (Fn i) = w_vis i) by (intro i; unfold Fn; destruct child; reflexivity).
    split.
    + replace (t_update Fn w tree2) with (t_map (fun i => if w_id i =? w then Fn i else i) tree2)
        by (rewrite t_update_map; reflexivity).
      apply wf_focus_map.
      { intro i. cbn beta. destruct (w_id i =? w); [apply HFid|reflexivity]. }
      assert (Hvis : forall x, w_vis (if w_id x =? w then Fn x else x) = w_vis x).
      { intro x. destruct (w_id x =? w); [apply HFvis|reflexivity]. }
      intros j cs Hs k Hk. cbn beta in Hk.
      destruct (w_id j =? w) eqn:Ew.
      * assert (Hck : child = Some k) by (unfold Fn in Hk; cbn [set_fchild w_fchild] in Hk; exact Hk).
        pose proof (hvk_transfer T tree2 w k (eq_sym Hv2) (Hc1 k Hck)) as [wn2 [x [Hf2 [Hin [Hid Hv]]]]].
        assert (Hnd2 : NoDup (t_ids tree2)) by (rewrite (vshape_ids _ _ Hv2); exact Hnd).
        pose proof (t_find_subtree _ _ Hs Hnd2) as Hfs.
        replace (t_id (Node j cs)) with w in Hfs by (unfold t_id; cbn [t_info]; lia).
        rewrite Hf2 in Hfs. inversion Hfs; subst wn2. cbn [t_kids] in Hin.
        exists x. split; [exact Hin|]. split; [exact Hid|]. rewrite Hvis. exact Hv.
      * destruct (wf_focus_node _ _ _ _ Hwf2 Hs Hk) as [c [Hin [Hid Hv]]].
        exists c. split; [exact Hin|]. split; [exact Hid|]. rewrite Hvis. exact Hv.
    + rewrite <- Hv2. unfold vshape. apply t_update_E.
      intro i. unfold Fn. destruct child; reflexivity.
Qed.

Theorem wf_focus_win_take_focus : forall cfg st w,
  ids_unique (r_tree st) -> wf_focus (r_tree st) ->
  wf_focus (r_tree (fst (win_take_focus cfg st w))).
Proof.
  intros cfg st w Hu Hwf. unfold ids_unique in Hu. unfold win_take_focus.
  destruct (t_chain w (r_tree st)) as [chain|] eqn:Echain; [|exact Hwf].
  destruct (focus_gained cfg (map t_id chain) None (r_tree st)) as [[tr ev] rs] eqn:Efg.
  cbn [fst].
  destruct (t_chain_facts _ _ _ Echain) as [Hup [Hall _]].
  pose proof (cc_init (r_tree st) Hu chain None Hall Hup I) as Hcc. cbn [option_map] in Hcc.
  destruct (fg_wf cfg _ _ _ _ _ _ Hu Hwf Hcc Efg) as [Hwf' _].
  destruct rs; exact Hwf'.
Qed.

(* --- bonus: the same operations keep the ids unique (so the theorems above chain) --- *)

Lemma t_update_ids : forall f z t, (forall i, w_id (f i) = w_id i) -> t_ids (t_update f z t) = t_ids t.
Proof.
  intros f z t Hf. rewrite t_update_map. apply t_map_ids.
  intro i. destruct (w_id i =? z); [apply Hf|reflexivity].
Qed.

Theorem ids_unique_win_take_focus : forall cfg st w,
  ids_unique (r_tree st) -> wf_focus (r_tree st) ->
  ids_unique (r_tree (fst (win_take_focus cfg st w))).
Proof.
  intros cfg st w Hu Hwf. unfold ids_unique in *. unfold win_take_focus.
  destruct (t_chain w (r_tree st)) as [chain|] eqn:Echain; [|exact Hu].
  destruct (focus_gained cfg (map t_id chain) None (r_tree st)) as [[tr ev] rs] eqn:Efg.
  cbn [fst].
  destruct (t_chain_facts _ _ _ Echain) as [Hup [Hall _]].
  pose proof (cc_init (r_tree st) Hu chain None Hall Hup I) as Hcc. cbn [option_map] in Hcc.
  destruct (fg_wf cfg _ _ _ _ _ _ Hu Hwf Hcc Efg) as [_ Hv].
  assert (Hids : t_ids tr = t_ids (r_tree st)) by (apply vshape_ids; exact Hv).
  destruct rs; cbn [request_restore set_flags set_tree r_tree]; rewrite Hids; exact Hu.
Qed.

Theorem ids_unique_win_show : forall cfg st id,
  ids_unique (r_tree st) -> ids_unique (r_tree (win_show cfg st id)).
Proof.
  intros cfg st id Hu. unfold ids_unique in *. unfold win_show.
  destruct (t_chain id (r_tree st)) as [[|x [|p rest]]|]; try exact Hu; cbn zeta;
    rewrite win_expose_tree;
    repeat match goal with |- context [if ?b then _ else _] => destruct b end;
    cbn [request_restore set_flags set_tree r_tree];
    rewrite ?t_update_ids by (intro; reflexivity); exact Hu.
Qed.

Theorem ids_unique_win_hide : forall cfg st id,
  ids_unique (r_tree st) -> ids_unique (r_tree (win_hide cfg st id)).
Proof.
  intros cfg st id Hu. unfold ids_unique in *. unfold win_hide.
  destruct (t_chain id (r_tree st)) as [[|x [|p rest]]|]; try exact Hu; cbn zeta;
    rewrite ?win_expose_tree;
    repeat match goal with |- context [if ?b then request_restore _ else _] => destruct b end;
    cbn [request_restore set_flags set_tree r_tree];
    rewrite ?t_update_ids; try exact Hu;
    intro j; try reflexivity; destruct (opt_eqb (w_fchild j) id); reflexivity.
Qed.

(* ------------------------------------------------------------------------------------ *)
(* The hypotheses of C15_restore are needed                                              *)

(* a link to a HIDDEN focused child (excluded by wf_focus): _do_restore stops at it and shows
   its cursor, the specification hides the cursor *)
Definition tree_hidden_link : wtree :=
  Node (mkW 0 (mkRect 0 0 10 20) true false false false (Some 1) 0 0 1 true (-1))
    [ Node (mkW 1 (mkRect 1 1 6 10) false false false true None 2 3 1 true (-1)) [] ].

Example C15_restore_needs_wf_focus :
  ids_unique tree_hidden_link /\ w_vis (t_info tree_hidden_link) = true /\
  cursor_of (do_restore tree_hidden_link (term_new 10 20 pol_accept)) = Some (3, 4, 1) /\
  cursor_spec tree_hidden_link = None.
Proof.
  split; [unfold ids_unique; cbn; repeat constructor; cbn; intuition discriminate|].
  repeat split; vm_compute; reflexivity.
Qed.

(* duplicate ids (excluded by ids_unique): [owner] reports an id, and here the cell is owned
   by a child of the focused window that carries the same id *)
Definition tree_dup_ids : wtree :=
  Node (mkW 0 (mkRect 0 0 10 20) true false false false (Some 1) 0 0 1 true (-1))
    [ Node (mkW 1 (mkRect 1 1 6 10) true false false true None 2 3 1 true (-1))
        [ Node (mkW 1 (mkRect 0 0 6 10) true false false false None 0 0 1 true (-1)) [] ] ].

Example C15_restore_needs_ids_unique :
  wf_focus tree_dup_ids /\
  cursor_of (do_restore tree_dup_ids (term_new 10 20 pol_accept)) = None /\
  cursor_spec tree_dup_ids = Some (3, 4, 1).
Proof.
  split.
  - unfold tree_dup_ids. constructor.
    + intros k Hk. cbn in Hk. inversion Hk; subst.
      eexists. split; [left; reflexivity|]. split; reflexivity.
    + constructor; [|constructor]. constructor; [intros k Hk; cbn in Hk; discriminate|].
      constructor; [|constructor]. constructor; [intros k Hk; cbn in Hk; discriminate|constructor].
  - split; vm_compute; reflexivity.
Qed.

(* ------------------------------------------------------------------------------------ *)
(* Child-list edits: win_close (removal) and the restacks of do_hchange (permutations)   *)

Lemma NoDup_app_intro : forall (a b : list Z), NoDup a -> NoDup b ->
  (forall x, In x a -> In x b -> False) -> NoDup (a ++ b).
Proof.
  induction a as [|y a IH]; intros b Ha Hb Hd; [exact Hb|].
  inversion Ha as [|? ? Hny Ha']; subst. cbn [app]. constructor.
  - intro Hin. apply in_app_or in Hin. destruct Hin as [Hin|Hin]; [exact (Hny Hin)|].
    apply (Hd y); [left; reflexivity|exact Hin].
  - apply IH; [exact Ha'|exact Hb|]. intros x Hx. apply Hd. right. exact Hx.
Qed.

Lemma flat_map_sub : forall (g : wtree -> wtree) ch, NoDup (flat_map t_ids ch) ->
  (forall c, In c ch -> NoDup (t_ids (g c)) /\ incl (t_ids (g c)) (t_ids c)) ->
  NoDup (flat_map t_ids (map g ch)) /\ incl (flat_map t_ids (map g ch)) (flat_map t_ids ch).
Proof.
  intros g. induction ch as [|a r IH]; intros Hnd Hg; [split; [constructor|apply incl_refl]|].
  cbn [map flat_map] in *.
  destruct (Hg a (or_introl eq_refl)) as [Hna Hia].
  destruct (IH (NoDup_app_r _ _ Hnd) (fun c Hc => Hg c (or_intror Hc))) as [Hnr Hir].
  split.
  - apply NoDup_app_intro; [exact Hna|exact Hnr|].
    intros x Hx1 Hx2. eapply NoDup_app_disj; [exact Hnd|apply Hia; exact Hx1|apply Hir; exact Hx2].
  - apply incl_app; [apply incl_appl; exact Hia|apply incl_appr; exact Hir].
Qed.

(* an edit of child lists that keeps ids unique and invents none *)
Definition kids_edit_ok (f : list wtree -> list wtree) : Prop :=
  forall l, NoDup (flat_map t_ids l) ->
    NoDup (flat_map t_ids (f l)) /\ incl (flat_map t_ids (f l)) (flat_map t_ids l).

Lemma upd_kids_nodup : forall f pid, kids_edit_ok f ->
  forall t, NoDup (t_ids t) ->
  NoDup (t_ids (t_upd_kids f pid t)) /\ incl (t_ids (t_upd_kids f pid t)) (t_ids t).
Proof.
  intros f pid Hf. induction t as [i ch IH] using wtree_ind'. intro Hnd.
  apply node_nodup in Hnd. destruct Hnd as [Hni Hndch].
  rewrite Forall_forall in IH.
  destruct (flat_map_sub (t_upd_kids f pid) ch Hndch
              (fun c Hc => IH c Hc (kids_nodup_in ch c Hndch Hc))) as [Hn1 Hi1].
  cbn [t_upd_kids]. cbn zeta.
  set (ch' := map (t_upd_kids f pid) ch) in *.
  assert (HK : NoDup (flat_map t_ids (if w_id i =? pid then f ch' else ch')) /\
               incl (flat_map t_ids (if w_id i =? pid then f ch' else ch')) (flat_map t_ids ch)).
  { destruct (w_id i =? pid); [|split; assumption].
    destruct (Hf ch' Hn1) as [Hn2 Hi2]. split; [exact Hn2|].
    eapply incl_tran; [exact Hi2|exact Hi1]. }
  destruct HK as [HKn HKi]. cbn [t_ids]. split.
  - constructor; [|exact HKn]. intro Hin. apply Hni. apply HKi. exact Hin.
  - apply incl_cons; [left; reflexivity|]. apply incl_tl. exact HKi.
Qed.

Lemma kids_remove_ok : forall id, kids_edit_ok (kids_remove id).
Proof.
  intros id l. unfold kids_remove. induction l as [|a r IH]; intro Hnd.
  - split; [constructor|apply incl_refl].
  - cbn [filter flat_map] in *. destruct (IH (NoDup_app_r _ _ Hnd)) as [Hn Hi].
    destruct (negb (t_id a =? id)) eqn:E.
    + cbn [flat_map]. split.
      * apply NoDup_app_intro; [eapply NoDup_app_l; exact Hnd|exact Hn|].
        intros x Hx1 Hx2. eapply NoDup_app_disj; [exact Hnd|exact Hx1|apply Hi; exact Hx2].
      * apply incl_app; [apply incl_appl; apply incl_refl|apply incl_appr; exact Hi].
    + split; [exact Hn|apply incl_appr; exact Hi].
Qed.

Theorem ids_unique_win_close : forall cfg st id,
  ids_unique (r_tree st) -> ids_unique (r_tree (win_close cfg st id)).
Proof.
  intros cfg st id Hu. unfold ids_unique in *. rewrite win_close_tree.
  destruct (t_chain id (r_tree st)) as [[|w [|p rest]]|]; try exact Hu.
  rewrite t_update_ids by apply clear_link_id.
  apply (upd_kids_nodup _ _ (kids_remove_ok id)). exact Hu.
Qed.

(* --- the restacks are permutations of one child list --- *)

Lemma kids_raise_go_perm : forall id l prev, Permutation (kids_raise_go id prev l) (prev :: l).
Proof.
  intros id. induction l as [|x r IH]; intro prev; cbn [kids_raise_go]; [apply Permutation_refl|].
  destruct (t_id x =? id); [apply perm_swap|].
  eapply Permutation_trans; [apply perm_skip; apply IH|apply Permutation_refl].
Qed.

Lemma kids_raise_perm : forall id l, Permutation (kids_raise id l) l.
Proof.
  intros id [|a rest]; cbn [kids_raise]; [apply Permutation_refl|].
  destruct (t_id a =? id); [apply Permutation_refl|apply kids_raise_go_perm].
Qed.

Lemma kids_lower_perm : forall id l, Permutation (kids_lower id l) l.
Proof.
  intros id. induction l as [|a rest IH]; cbn [kids_lower]; [apply Permutation_refl|].
  destruct (t_id a =? id).
  - destruct rest as [|b r]; [apply Permutation_refl|apply perm_swap].
  - apply perm_skip. exact IH.
Qed.

Lemma kids_remove_none : forall id l, (forall c, In c l -> t_id c <> id) -> kids_remove id l = l.
Proof.
  intros id. unfold kids_remove. induction l as [|a r IH]; intro H; [reflexivity|].
  cbn [filter]. pose proof (H a (or_introl eq_refl)) as Ha.
  replace (t_id a =? id) with false by lia. cbn [negb]. f_equal. apply IH.
  intros c Hc. apply H. right. exact Hc.
Qed.

Lemma kids_front_perm : forall id l w, NoDup (flat_map t_ids l) -> kids_find id l = Some w ->
  Permutation (w :: kids_remove id l) l.
Proof.
  intros id. induction l as [|a r IH]; intros w Hnd Hf; [discriminate|].
  unfold kids_find in Hf. cbn [find] in Hf. unfold kids_remove. cbn [filter].
  destruct (t_id a =? id) eqn:E.
  - inversion Hf; subst w. cbn [negb]. fold (kids_remove id r).
    rewrite kids_remove_none; [apply Permutation_refl|].
    intros c Hc Hcid.
    assert (Hac : a = c).
    { eapply (kids_unique (a :: r)); [exact Hnd|left; reflexivity|right; exact Hc|lia]. }
    subst c. cbn [flat_map] in Hnd.
    eapply NoDup_app_disj; [exact Hnd|apply t_ids_head|].
    apply in_flat_map. exists a. split; [exact Hc|apply t_ids_head].
  - cbn [negb]. fold (kids_remove id r). cbn [flat_map] in Hnd.
    eapply Permutation_trans; [apply perm_swap|]. apply perm_skip.
    apply IH; [eapply NoDup_app_r; exact Hnd|exact Hf].
Qed.

Lemma apply_hchange_perm : forall k id l, NoDup (flat_map t_ids l) ->
  Permutation (apply_hchange k id l) l.
Proof.
  intros k id l Hnd. destruct k; cbn [apply_hchange].
  - apply kids_raise_perm.
  - destruct (kids_find id l) as [w|] eqn:Ef; [|apply Permutation_refl].
    apply kids_front_perm; assumption.
  - apply kids_lower_perm.
  - destruct (kids_find id l) as [w|] eqn:Ef; [|apply Permutation_refl].
    eapply Permutation_trans; [apply Permutation_sym; apply Permutation_cons_append|].
    apply kids_front_perm; assumption.
Qed.

Definition kids_perm (f : list wtree -> list wtree) : Prop :=
  forall l, NoDup (flat_map t_ids l) -> Permutation (f l) l.

Lemma kids_perm_ok : forall f, kids_perm f -> kids_edit_ok f.
Proof.
  intros f Hf l Hnd. pose proof (Permutation_flat_map t_ids (Hf l Hnd)) as Hp. split.
  - eapply Permutation_NoDup; [apply Permutation_sym; exact Hp|exact Hnd].
  - intros x Hx. eapply Permutation_in; [exact Hp|exact Hx].
Qed.

Lemma upd_kids_wf : forall f pid, kids_perm f ->
  forall t, NoDup (t_ids t) -> wf_focus t -> wf_focus (t_upd_kids f pid t).
Proof.
  intros f pid Hf. induction t as [i ch IH] using wtree_ind'. intros Hnd Hwf.
  apply node_nodup in Hnd. destruct Hnd as [Hni Hndch].
  apply wf_focus_inv in Hwf. destruct Hwf as [Hl Hch].
  rewrite Forall_forall in IH, Hch.
  destruct (flat_map_sub (t_upd_kids f pid) ch Hndch
              (fun c Hc => upd_kids_nodup f pid (kids_perm_ok f Hf) c (kids_nodup_in ch c Hndch Hc)))
    as [Hn1 _].
  cbn [t_upd_kids]. cbn zeta.
  set (ch' := map (t_upd_kids f pid) ch) in *.
  assert (HK : forall x, In x (if w_id i =? pid then f ch' else ch') <-> In x ch').
  { intro x. destruct (w_id i =? pid); [|reflexivity]. split; intro Hx.
    - eapply Permutation_in; [apply Hf; exact Hn1|exact Hx].
    - eapply Permutation_in; [apply Permutation_sym; apply Hf; exact Hn1|exact Hx]. }
  constructor.
  - intros k Hk. destruct (Hl k Hk) as [c [Hin [Hid Hv]]].
    exists (t_upd_kids f pid c). split; [apply HK; unfold ch'; apply in_map; exact Hin|].
    unfold t_id. rewrite t_upd_kids_info. split; assumption.
  - rewrite Forall_forall. intros x Hx. apply HK in Hx. unfold ch' in Hx.
    apply in_map_iff in Hx. destruct Hx as [c [Hc Hin]]. subst x.
    apply IH; [exact Hin|exact (kids_nodup_in ch c Hndch Hin)|apply Hch; exact Hin].
Qed.

(* --- do_hchange and the queue loop of win_flush --- *)

Lemma do_hchange_tree : forall st k pid wid,
  r_tree (do_hchange st k pid wid) =
  match t_find wid (r_tree st) with
  | None => r_tree st
  | Some _ => t_upd_kids (apply_hchange k wid) pid (r_tree st)
  end.
Proof.
  intros st k pid wid. unfold do_hchange.
  destruct (t_find wid (r_tree st)) as [w|]; [|reflexivity].
  destruct (w_vis (t_info w)); [rewrite win_expose_tree|]; reflexivity.
Qed.

Theorem ids_unique_do_hchange : forall st k pid wid,
  ids_unique (r_tree st) -> ids_unique (r_tree (do_hchange st k pid wid)).
Proof.
  intros st k pid wid Hu. unfold ids_unique in *. rewrite do_hchange_tree.
  destruct (t_find wid (r_tree st)); [|exact Hu].
  apply (upd_kids_nodup _ _ (kids_perm_ok _ (apply_hchange_perm k wid))). exact Hu.
Qed.

Theorem wf_focus_do_hchange : forall st k pid wid,
  ids_unique (r_tree st) -> wf_focus (r_tree st) -> wf_focus (r_tree (do_hchange st k pid wid)).
Proof.
  intros st k pid wid Hu Hwf. unfold ids_unique in *. rewrite do_hchange_tree.
  destruct (t_find wid (r_tree st)); [|exact Hwf].
  apply (upd_kids_wf _ _ (apply_hchange_perm k wid)); assumption.
Qed.

Lemma do_hchange_root_info : forall st k pid wid,
  t_info (r_tree (do_hchange st k pid wid)) = t_info (r_tree st).
Proof.
  intros st k pid wid. rewrite do_hchange_tree.
  destruct (t_find wid (r_tree st)); [apply t_upd_kids_info|reflexivity].
Qed.

Lemma hchange_fold_inv : forall q s,
  ids_unique (r_tree s) -> wf_focus (r_tree s) ->
  let s' := fold_left (fun s e => match e with (k, p, w) => do_hchange s k p w end) q s in
  ids_unique (r_tree s') /\ wf_focus (r_tree s') /\ t_info (r_tree s') = t_info (r_tree s).
Proof.
  induction q as [|[[k p] w] q IH]; intros s Hu Hwf; cbn zeta.
  - cbn [fold_left]. repeat split; assumption.
  - cbn [fold_left].
    destruct (IH (do_hchange s k p w) (ids_unique_do_hchange _ _ _ _ Hu)
                 (wf_focus_do_hchange _ _ _ _ Hu Hwf)) as [Hu' [Hwf' Hi']].
    repeat split; [exact Hu'|exact Hwf'|]. rewrite Hi'. apply do_hchange_root_info.
Qed.

Lemma flush_pre_inv : forall st, ids_unique (r_tree st) -> wf_focus (r_tree st) ->
  ids_unique (r_tree (flush_pre st)) /\ wf_focus (r_tree (flush_pre st)) /\
  t_info (r_tree (flush_pre st)) = t_info (r_tree st).
Proof.
  intros st Hu Hwf. unfold flush_pre.
  apply (hchange_fold_inv _ (set_queue (set_flags st (r_nexp st) (r_nrest st) false) [])); assumption.
Qed.

(* C15_flush with every hypothesis on the state BEFORE the flush, any restack queue *)
Theorem C15_flush_pre : forall cfg hnd st tm st' tm' lg,
  win_flush cfg hnd st tm = (st', tm', lg) ->
  r_later st = true ->
  r_nexp (flush_pre st) || r_nrest (flush_pre st) = true ->
  ids_unique (r_tree st) -> wf_focus (r_tree st) -> w_vis (t_info (r_tree st)) = true ->
  top (w_rect (t_info (r_tree st))) = 0 -> left (w_rect (t_info (r_tree st))) = 0 ->
  cursor_of tm' = cursor_spec (r_tree st') /\
  ids_unique (r_tree st') /\ wf_focus (r_tree st') /\ t_info (r_tree st') = t_info (r_tree st).
Proof.
  intros cfg hnd st tm st' tm' lg Hfl Hlater Hflags Hu Hwf Hv Ht Hl.
  destruct (win_flush_shape _ _ _ _ _ _ _ Hfl Hlater) as [Htree _].
  destruct (flush_pre_inv st Hu Hwf) as [Hu' [Hwf' Hi']].
  rewrite <- Htree in Hu', Hwf', Hi'.
  split; [|repeat split; assumption].
  eapply C15_flush; try eassumption; rewrite Hi'; assumption.
Qed.
