(* LoopProofs.v -- proofs for C17 over LoopDefs (first part: invariants of the model, never
   early, later iteration, destroy notification; the refinement to LoopSpec is in
   LoopRefine.v). *)
From Coq Require Import ZArith List Bool Lia.
From Tickit Require Import LoopDefs LoopSpec LoopAsIs.
Import ListNotations.
Local Open Scope Z_scope.

(* ------------------------------------------------------------------ find_remove *)

Lemma find_remove_some : forall id l w l', find_remove id l = Some (w, l') ->
  w_id w = id /\ In w l /\ (forall x, In x l' -> In x l) /\ length l = S (length l').
Proof.
  induction l as [|h t IH]; intros w l' H; [discriminate|].
  cbn [find_remove] in H. destruct (w_id h =? id) eqn:E.
  - inversion H; subst. apply Z.eqb_eq in E. repeat split; auto using in_eq, in_cons.
  - destruct (find_remove id t) as [[w0 t']|] eqn:Ef; [|discriminate].
    inversion H; subst. destruct (IH w t' eq_refl) as [H1 [H2 [H3 H4]]].
    repeat split; auto using in_cons.
    + intros x [Hx|Hx]; [left; exact Hx|right; auto].
    + cbn. rewrite H4. reflexivity.
Qed.

Lemma find_remove_forall : forall (P : watch -> Prop) id l w l',
  find_remove id l = Some (w, l') -> Forall P l -> P w /\ Forall P l'.
Proof.
  intros P id l w l' H HF. destruct (find_remove_some _ _ _ _ H) as [_ [Hin [Hsub _]]].
  rewrite Forall_forall in HF. split; [auto|]. apply Forall_forall. auto.
Qed.

(* ------------------------------------------------------------------ the invariant *)

Definition log_ok (l : list obs) : Prop :=
  forall e, In (OEv e) l -> e_kind e = KTimer -> Z.testbit (e_flags e) 0 = true -> e_x e <= e_now e.

(* every invocation recorded so far belongs to a watch registered before bound [n] *)
Definition log_below (n : Z) (l : list obs) : Prop := forall e, In (OEv e) l -> e_id e < n.

Definition others (s : st) : list watch := laters s ++ run_laters s ++ ios s ++ sigs s ++ procs s.

Record Inv (s : st) : Prop := mkInv {
  inv_tk : Forall (fun w => w_kind w = KTimer) (timers s);
  inv_rt : Forall (fun w => w_kind w = KTimer /\ w_x w <= now s) (run_timers s);
  inv_ot : Forall (fun w => w_kind w <> KTimer) (others s);
  inv_log : log_ok (log s) }.

Lemma log_ok_emit_nofire : forall s w f, log_ok (log s) -> Z.testbit f 0 = false -> log_ok (log (emit s w f)).
Proof.
  intros s w f H Hf e [He|He] Hk Hb.
  - inversion He; subst. cbn [e_flags] in Hb. congruence.
  - exact (H e He Hk Hb).
Qed.

Lemma Forall_app_iff : forall {A} (P : A -> Prop) l1 l2, Forall P (l1 ++ l2) <-> Forall P l1 /\ Forall P l2.
Proof. intros. apply Forall_app. Qed.

Lemma timer_insert_forall : forall (P : watch -> Prop) l w, Forall P l -> P w -> Forall P (timer_insert l w).
Proof.
  induction l as [|h t IH]; intros w Hl Hw; cbn [timer_insert].
  - constructor; [exact Hw|constructor].
  - inversion Hl; subst. destruct (w_x h <=? w_x w); constructor; auto.
Qed.

Lemma insert_watch_forall : forall (P : watch -> Prop) f l w, Forall P l -> P w -> Forall P (insert_watch f l w).
Proof.
  intros P f l w Hl Hw. unfold insert_watch. destruct f; [constructor; assumption|].
  apply Forall_app. split; [assumption|constructor; [assumption|constructor]].
Qed.

Ltac inv_split H := destruct H as [Htk Hrt Hot Hlog].

Section WithEnv.
Variable bug : bool.
Variable env : Z -> list action.
Variable uenv : Z -> list action.

(* ---- the registering calls *)
Lemma reg_fields : forall s a,
  run_timers (do_reg bug s a) = run_timers s /\ run_laters (do_reg bug s a) = run_laters s /\
  now (do_reg bug s a) = now s /\ iter (do_reg bug s a) = iter s /\ log (do_reg bug s a) = log s.
Proof.
  intros s a. destruct a as [d fl cb|fl cb|k x fl cb|id| |]; cbn [do_reg]; try (repeat split; reflexivity).
  destruct k; repeat split; reflexivity.
Qed.

Lemma regs_fields : forall l s,
  run_timers (do_regs bug s l) = run_timers s /\ run_laters (do_regs bug s l) = run_laters s /\
  now (do_regs bug s l) = now s /\ iter (do_regs bug s l) = iter s /\ log (do_regs bug s l) = log s.
Proof.
  induction l as [|a l IH]; intros s; [repeat split; reflexivity|].
  unfold do_regs in *. cbn [fold_left]. destruct (IH (do_reg bug s a)) as [A1 [A2 [A3 [A4 A5]]]].
  destruct (reg_fields s a) as [B1 [B2 [B3 [B4 B5]]]]. repeat split; congruence.
Qed.

Lemma Inv_reg : forall s a, Inv s -> Inv (do_reg bug s a).
Proof.
  intros s a H. destruct a as [d fl cb|fl cb|k x fl cb|id| |]; cbn [do_reg]; try assumption.
  - inv_split H. constructor; try assumption.
    cbn [timers set_next set_timers]. apply timer_insert_forall; [exact Htk|reflexivity].
  - inv_split H. constructor; try assumption.
    unfold others in *. cbn [laters run_laters ios sigs procs set_next set_laters].
    rewrite !Forall_app_iff in *. destruct Hot as [Hla Hrest]. split; [|exact Hrest].
    apply insert_watch_forall; [exact Hla|cbn; discriminate].
  - destruct k; try assumption; inv_split H; constructor; try assumption;
      unfold others in *; cbn [laters run_laters ios sigs procs set_next set_ios set_sigs set_procs];
      rewrite !Forall_app_iff in *; destruct Hot as [Hla [Hrl [Hio [Hsi Hpr]]]];
      repeat split; try assumption; apply insert_watch_forall; try assumption; cbn; discriminate.
  - inv_split H. constructor; assumption.
Qed.

Lemma Inv_regs : forall l s, Inv s -> Inv (do_regs bug s l).
Proof.
  induction l as [|a l IH]; intros s H; [exact H|].
  unfold do_regs in *. cbn [fold_left]. apply IH. apply Inv_reg. exact H.
Qed.

(* ---- the UNBIND notification *)
Lemma notify_fields : forall s w,
  run_timers (notify_unbind bug uenv s w) = run_timers s /\ run_laters (notify_unbind bug uenv s w) = run_laters s /\
  now (notify_unbind bug uenv s w) = now s /\ iter (notify_unbind bug uenv s w) = iter s.
Proof.
  intros s w. unfold notify_unbind. destruct (w_unbind w); [|repeat split; reflexivity].
  destruct (regs_fields (uenv (w_cb w)) (emit s w EV_UNBIND)) as [A1 [A2 [A3 [A4 _]]]]. repeat split; assumption.
Qed.

Lemma Inv_notify : forall s w, Inv s -> Inv (notify_unbind bug uenv s w).
Proof.
  intros s w H. unfold notify_unbind. destruct (w_unbind w); [|exact H].
  apply Inv_regs. inv_split H. constructor; try assumption.
  apply log_ok_emit_nofire; [exact Hlog|reflexivity].
Qed.

Lemma Inv_cancel : forall s id, Inv s -> Inv (watch_cancel bug uenv s id).
Proof.
  intros s id H. inv_split H. unfold watch_cancel, others in *.
  rewrite !Forall_app_iff in Hot. destruct Hot as [Hla [Hrl [Hio [Hsi Hpr]]]].
  destruct (find_remove id (ios s)) as [[w l]|] eqn:E1.
  { destruct (find_remove_forall _ _ _ _ _ E1 Hio) as [_ Hl]. apply Inv_notify.
    constructor; try assumption. unfold others. cbn [laters run_laters ios sigs procs set_ios]. rewrite !Forall_app_iff. auto. }
  destruct (find_remove id (timers s)) as [[w l]|] eqn:E2.
  { destruct (find_remove_forall _ _ _ _ _ E2 Htk) as [_ Hl]. apply Inv_notify.
    constructor; try assumption. unfold others. cbn [laters run_laters ios sigs procs set_timers]. rewrite !Forall_app_iff. auto. }
  destruct (find_remove id (run_timers s)) as [[w l]|] eqn:E3.
  { destruct (find_remove_forall _ _ _ _ _ E3 Hrt) as [_ Hl]. apply Inv_notify.
    constructor; try assumption. unfold others. cbn [laters run_laters ios sigs procs set_run_timers]. rewrite !Forall_app_iff. auto. }
  destruct (find_remove id (laters s)) as [[w l]|] eqn:E4.
  { destruct (find_remove_forall _ _ _ _ _ E4 Hla) as [_ Hl]. apply Inv_notify.
    constructor; try assumption. unfold others. cbn [laters run_laters ios sigs procs set_laters]. rewrite !Forall_app_iff. auto. }
  destruct (find_remove id (run_laters s)) as [[w l]|] eqn:E5.
  { destruct (find_remove_forall _ _ _ _ _ E5 Hrl) as [_ Hl]. apply Inv_notify.
    constructor; try assumption. unfold others. cbn [laters run_laters ios sigs procs set_run_laters]. rewrite !Forall_app_iff. auto. }
  destruct (find_remove id (sigs s)) as [[w l]|] eqn:E6.
  { destruct (find_remove_forall _ _ _ _ _ E6 Hsi) as [_ Hl]. apply Inv_notify.
    constructor; try assumption. unfold others. cbn [laters run_laters ios sigs procs set_sigs]. rewrite !Forall_app_iff. auto. }
  destruct (find_remove id (procs s)) as [[w l]|] eqn:E7.
  { destruct (find_remove_forall _ _ _ _ _ E7 Hpr) as [_ Hl]. apply Inv_notify.
    constructor; try assumption. unfold others. cbn [laters run_laters ios sigs procs set_procs]. rewrite !Forall_app_iff. auto. }
  constructor; try assumption. unfold others. rewrite !Forall_app_iff. auto.
Qed.

Lemma Inv_action : forall s a, Inv s -> Inv (do_action bug uenv s a).
Proof.
  intros s a H. destruct a as [d fl cb|fl cb|k x fl cb|id| |];
    try (change (Inv (do_reg bug s (ATimer d fl cb))) || change (Inv (do_reg bug s (ALater fl cb))) ||
         change (Inv (do_reg bug s (AWatch k x fl cb))) || change (Inv (do_reg bug s ANop)) || change (Inv (do_reg bug s ADrop)); apply Inv_reg; exact H).
  apply Inv_cancel. exact H.
Qed.

Lemma Inv_actions : forall l s, Inv s -> Inv (do_actions bug uenv s l).
Proof.
  induction l as [|a l IH]; intros s H; [exact H|].
  unfold do_actions in *. cbn [fold_left]. apply IH. apply Inv_action. exact H.
Qed.

(* actions keep the clock and the iteration number *)
Lemma cancel_now : forall s id, now (watch_cancel bug uenv s id) = now s /\ iter (watch_cancel bug uenv s id) = iter s.
Proof.
  intros s id. unfold watch_cancel.
  repeat match goal with
  | |- context [match find_remove ?i ?l with _ => _ end] => destruct (find_remove i l) as [[? ?]|]
  end;
  try (match goal with |- context [notify_unbind bug uenv ?s0 ?w] => destruct (notify_fields s0 w) as [_ [_ [F4 F6]]]; rewrite F4, F6 end);
  split; reflexivity.
Qed.

Lemma action_now : forall s a, now (do_action bug uenv s a) = now s /\ iter (do_action bug uenv s a) = iter s.
Proof.
  intros s a. destruct a as [d fl cb|fl cb|k x fl cb|id| |]; cbn [do_action]; try (split; reflexivity).
  - destruct (reg_fields s (AWatch k x fl cb)) as [_ [_ [A3 [A4 _]]]]. split; assumption.
  - apply cancel_now.
Qed.

Lemma actions_now : forall l s, now (do_actions bug uenv s l) = now s /\ iter (do_actions bug uenv s l) = iter s.
Proof.
  induction l as [|a l IH]; intros s; [split; reflexivity|].
  unfold do_actions in *. cbn [fold_left]. destruct (IH (do_action bug uenv s a)) as [H1 H2].
  destruct (action_now s a) as [H3 H4]. split; congruence.
Qed.

(* the running queues only shrink while actions are performed *)
Lemma cancel_run_len : forall s id,
  (length (run_timers (watch_cancel bug uenv s id)) <= length (run_timers s))%nat /\
  (length (run_laters (watch_cancel bug uenv s id)) <= length (run_laters s))%nat.
Proof.
  intros s id. unfold watch_cancel.
  destruct (find_remove id (ios s)) as [[w l]|];
    [destruct (notify_fields (set_ios s l) w) as [F1 [F2 _]]; rewrite F1, F2; split; cbn; lia|].
  destruct (find_remove id (timers s)) as [[w l]|];
    [destruct (notify_fields (set_timers s l) w) as [F1 [F2 _]]; rewrite F1, F2; split; cbn; lia|].
  destruct (find_remove id (run_timers s)) as [[w l]|] eqn:E3.
  { apply find_remove_some in E3. destruct E3 as [_ [_ [_ E3]]].
    destruct (notify_fields (set_run_timers s l) w) as [F1 [F2 _]]; rewrite F1, F2; split; cbn; lia. }
  destruct (find_remove id (laters s)) as [[w l]|];
    [destruct (notify_fields (set_laters s l) w) as [F1 [F2 _]]; rewrite F1, F2; split; cbn; lia|].
  destruct (find_remove id (run_laters s)) as [[w l]|] eqn:E5.
  { apply find_remove_some in E5. destruct E5 as [_ [_ [_ E5]]].
    destruct (notify_fields (set_run_laters s l) w) as [F1 [F2 _]]; rewrite F1, F2; split; cbn; lia. }
  destruct (find_remove id (sigs s)) as [[w l]|];
    [destruct (notify_fields (set_sigs s l) w) as [F1 [F2 _]]; rewrite F1, F2; split; cbn; lia|].
  destruct (find_remove id (procs s)) as [[w l]|];
    [destruct (notify_fields (set_procs s l) w) as [F1 [F2 _]]; rewrite F1, F2; split; cbn; lia|].
  split; lia.
Qed.

Lemma action_run_len : forall s a,
  (length (run_timers (do_action bug uenv s a)) <= length (run_timers s))%nat /\
  (length (run_laters (do_action bug uenv s a)) <= length (run_laters s))%nat.
Proof.
  intros s a. destruct a as [d fl cb|fl cb|k x fl cb|id| |]; cbn [do_action]; try (split; cbn; lia).
  - destruct (reg_fields s (AWatch k x fl cb)) as [A1 [A2 _]]. rewrite A1, A2. split; lia.
  - apply cancel_run_len.
Qed.

Lemma actions_run_len : forall l s,
  (length (run_timers (do_actions bug uenv s l)) <= length (run_timers s))%nat /\
  (length (run_laters (do_actions bug uenv s l)) <= length (run_laters s))%nat.
Proof.
  induction l as [|a l IH]; intros s; [split; cbn; lia|].
  unfold do_actions in *. cbn [fold_left]. destruct (IH (do_action bug uenv s a)) as [H1 H2].
  destruct (action_run_len s a) as [H3 H4]. split; lia.
Qed.

(* the two loops preserve the invariant and end with their queue empty *)
Lemma Inv_run_timers_loop : forall n s, Inv s -> (length (run_timers s) <= n)%nat ->
  Inv (run_timers_loop bug env uenv n s) /\ run_timers (run_timers_loop bug env uenv n s) = [] /\
  (length (run_laters (run_timers_loop bug env uenv n s)) <= length (run_laters s))%nat /\
  now (run_timers_loop bug env uenv n s) = now s /\ iter (run_timers_loop bug env uenv n s) = iter s.
Proof.
  induction n as [|n IH]; intros s H Hn.
  - cbn [run_timers_loop]. destruct (run_timers s); [auto 6|cbn in Hn; lia].
  - cbn [run_timers_loop]. destruct (run_timers s) as [|w r] eqn:Er; [auto 6|].
    set (s2 := emit (set_run_timers s r) w (EV_FIRE + EV_UNBIND)).
    assert (H2 : Inv s2).
    { inv_split H. try rewrite Er in Hrt. inversion Hrt as [|? ? [Hk Hx] Hr]; subst.
      constructor; try assumption.
      intros e [He|He] Hke Hb; [|exact (Hlog e He Hke Hb)].
      inversion He; subst. cbn. exact Hx. }
    pose proof (Inv_actions (env (w_cb w)) s2 H2) as H3.
    destruct (actions_run_len (env (w_cb w)) s2) as [L1 L2].
    destruct (actions_now (env (w_cb w)) s2) as [N1 N2].
    assert (Hlen : (length (run_timers (do_actions bug uenv s2 (env (w_cb w)))) <= n)%nat).
    { cbn [s2 run_timers emit set_log set_run_timers] in L1. try rewrite Er in Hn. cbn in Hn.
      eapply Nat.le_trans; [exact L1|]. apply le_S_n. exact Hn. }
    destruct (IH _ H3 Hlen) as [I1 [I2 [I3 [I4 I5]]]].
    split; [exact I1|]. split; [exact I2|]. split; [|split].
    + cbn [s2 run_laters emit set_log set_run_timers] in L2. eapply Nat.le_trans; [exact I3|exact L2].
    + rewrite I4, N1. reflexivity.
    + rewrite I5, N2. reflexivity.
Qed.

Lemma Inv_run_laters_loop : forall n s, Inv s -> (length (run_laters s) <= n)%nat ->
  Inv (run_laters_loop bug env uenv n s) /\ run_laters (run_laters_loop bug env uenv n s) = [] /\
  (length (run_timers (run_laters_loop bug env uenv n s)) <= length (run_timers s))%nat /\
  now (run_laters_loop bug env uenv n s) = now s /\ iter (run_laters_loop bug env uenv n s) = iter s.
Proof.
  induction n as [|n IH]; intros s H Hn.
  - cbn [run_laters_loop]. destruct (run_laters s); [auto 6|cbn in Hn; lia].
  - cbn [run_laters_loop]. destruct (run_laters s) as [|w r] eqn:Er; [auto 6|].
    set (s2 := emit (set_run_laters s r) w (EV_FIRE + EV_UNBIND)).
    assert (H2 : Inv s2).
    { inv_split H. unfold others in Hot. try rewrite Er in Hot. rewrite !Forall_app_iff in Hot.
      destruct Hot as [Hla [Hrl Hrest]]. inversion Hrl as [|? ? Hk Hr]; subst.
      constructor; try assumption.
      - unfold others. cbn [s2 laters run_laters ios sigs procs emit set_log set_run_laters].
        rewrite !Forall_app_iff. auto.
      - intros e [He|He] Hke Hb; [|exact (Hlog e He Hke Hb)].
        inversion He; subst. cbn in Hke. contradiction. }
    pose proof (Inv_actions (env (w_cb w)) s2 H2) as H3.
    destruct (actions_run_len (env (w_cb w)) s2) as [L1 L2].
    destruct (actions_now (env (w_cb w)) s2) as [N1 N2].
    assert (Hlen : (length (run_laters (do_actions bug uenv s2 (env (w_cb w)))) <= n)%nat).
    { cbn [s2 run_laters emit set_log set_run_laters] in L2. try rewrite Er in Hn. cbn in Hn.
      eapply Nat.le_trans; [exact L2|]. apply le_S_n. exact Hn. }
    destruct (IH _ H3 Hlen) as [I1 [I2 [I3 [I4 I5]]]].
    split; [exact I1|]. split; [exact I2|]. split; [|split].
    + cbn [s2 run_timers emit set_log set_run_laters] in L1. eapply Nat.le_trans; [exact I3|exact L1].
    + rewrite I4, N1. reflexivity.
    + rewrite I5, N2. reflexivity.
Qed.

Lemma split_due_spec : forall nw l d r, split_due nw l = (d, r) ->
  l = d ++ r /\ Forall (fun w => w_x w <= nw) d.
Proof.
  induction l as [|h t IH]; intros d r H; cbn [split_due] in H.
  - inversion H; subst. split; [reflexivity|constructor].
  - destruct (w_x h <=? nw) eqn:E.
    + destruct (split_due nw t) as [d0 r0] eqn:Es. inversion H; subst.
      destruct (IH d0 r eq_refl) as [H1 H2]. split; [cbn; rewrite H1; reflexivity|].
      constructor; [apply Z.leb_le; exact E|exact H2].
    + inversion H; subst. split; [reflexivity|constructor].
Qed.

(* between operations the running queues are empty *)
Definition Quiet (s : st) : Prop := Inv s /\ run_timers s = [] /\ run_laters s = [].

Lemma Quiet_invoke_timers : forall s, Quiet s -> Quiet (invoke_timers bug env uenv s).
Proof.
  intros s [H [Hrt0 Hrl0]]. unfold invoke_timers.
  set (s1 := set_laters (set_run_laters s (run_laters s ++ laters s)) []).
  assert (H1 : Inv s1 /\ run_timers s1 = []).
  { split; [|exact Hrt0]. inv_split H. constructor; try assumption.
    unfold others in *. cbn [s1 laters run_laters ios sigs procs set_laters set_run_laters].
    rewrite !Forall_app_iff in *. destruct Hot as [Hla [Hrl Hrest]]. auto 6. }
  destruct H1 as [H1 Hrt1].
  set (s2 := match timers s1 with
             | [] => s1
             | _ => let (due, rest) := split_due (now s1) (timers s1) in
                    set_timers (set_run_timers s1 (run_timers s1 ++ due)) rest
             end).
  assert (H2 : Inv s2).
  { unfold s2. destruct (timers s1) as [|h t] eqn:Et; [exact H1|].
    destruct (split_due (now s1) (h :: t)) as [due rest] eqn:Es.
    destruct (split_due_spec _ _ _ _ Es) as [Happ Hdue].
    inv_split H1. rewrite Et, Happ in Htk. rewrite Forall_app_iff in Htk. destruct Htk as [Hd Hr].
    constructor; [exact Hr| |exact Hot|exact Hlog].
    cbn [run_timers set_timers set_run_timers now]. rewrite Hrt1. cbn [app].
    rewrite Forall_forall in *. intros w Hw. split; [apply Hd; exact Hw|apply Hdue; exact Hw]. }
  destruct (Inv_run_timers_loop (length (run_timers s2)) s2 H2 (le_n _)) as [I1 [I2 [I3 [I4 I5]]]].
  set (s3 := run_timers_loop bug env uenv (length (run_timers s2)) s2) in *.
  destruct (Inv_run_laters_loop (length (run_laters s3)) s3 I1 (le_n _)) as [J1 [J2 [J3 [J4 J5]]]].
  split; [exact J1|]. split; [|exact J2].
  rewrite I2 in J3. cbn in J3. destruct (run_timers (run_laters_loop bug env uenv (length (run_laters s3)) s3)); [reflexivity|cbn in J3; lia].
Qed.

Lemma Quiet_tick : forall sleep dt s, Quiet s -> Quiet (tick bug env uenv sleep dt s).
Proof.
  intros sleep dt s [H [Hq1 Hq2]]. unfold tick. apply Quiet_invoke_timers.
  set (s1 := set_iter (set_now s (now s + dt)) (iter s + 1)).
  set (msec := if sleep then next_timer_msec s1 else 0).
  set (s2 := set_log s1 (OPoll msec :: log s1)).
  assert (Q2 : Quiet s2).
  { inv_split H. split; [|split; [exact Hq1|exact Hq2]].
    constructor; [exact Htk| |exact Hot|].
    - cbn [s2 s1 run_timers set_log set_iter set_now]. rewrite Hq1. constructor.
    - intros e [He|He]; [discriminate|]. exact (Hlog e He). }
  destruct (sleep && (0 <? msec)); [|exact Q2].
  destruct Q2 as [H2 [Hrt2 Hrl2]]. inv_split H2.
  split; [|split; [exact Hrt2|exact Hrl2]]. constructor; [exact Htk| |exact Hot|exact Hlog].
  cbn [run_timers set_now]. rewrite Hrt2. constructor.
Qed.

Lemma Quiet_action : forall s a, Quiet s -> Quiet (do_action bug uenv s a).
Proof.
  intros s a [H [Hrt Hrl]]. split; [apply Inv_action; exact H|].
  destruct (action_run_len s a) as [L1 L2]. rewrite Hrt in L1. rewrite Hrl in L2. cbn in L1, L2.
  split; [destruct (run_timers (do_action bug uenv s a)); [reflexivity|cbn in L1; lia]
         |destruct (run_laters (do_action bug uenv s a)); [reflexivity|cbn in L2; lia]].
Qed.

Lemma Quiet_st0 : Quiet st0.
Proof.
  split; [|split; reflexivity]. constructor; try constructor. intros e [].
Qed.

Lemma Quiet_run_ops : forall ops, Quiet (run_ops bug env uenv ops).
Proof.
  intros ops. unfold run_ops.
  assert (G : forall ops s, Quiet s -> Quiet (fold_left (do_op bug env uenv) ops s)).
  { induction ops0 as [|o r IH]; intros s Q; [exact Q|].
    cbn [fold_left]. apply IH. destruct o as [a|dt|]; cbn [do_op];
      [apply Quiet_action|apply Quiet_tick|apply Quiet_tick]; exact Q. }
  apply G. exact Quiet_st0.
Qed.

(* destruction only adds UNBIND|DESTROY events *)
Lemma destroy_list_log : forall l s, exists evs,
  log (destroy_list s l) = evs ++ log s /\
  forall e, In (OEv e) evs -> e_flags e = EV_UNBIND + EV_DESTROY.
Proof.
  induction l as [|w l IH]; intros s.
  - exists []. split; [reflexivity|intros e []].
  - unfold destroy_list in *. cbn [fold_left]. destruct (asked w).
    + destruct (IH (emit s w (EV_UNBIND + EV_DESTROY))) as [evs [H1 H2]].
      exists (evs ++ [OEv (mkE (w_id w) (w_kind w) (EV_UNBIND + EV_DESTROY) (iter s) (now s) (w_x w))]).
      split; [rewrite H1; cbn [log emit set_log]; rewrite <- app_assoc; reflexivity|].
      intros e He. apply in_app_or in He. destruct He as [He|[He|[]]]; [auto|]. inversion He; subst. reflexivity.
    + apply IH.
Qed.

Lemma destroy_log_ok : forall s, log_ok (log s) -> log_ok (log (destroy s)).
Proof.
  intros s H. unfold destroy. cbn [log set_procs set_sigs set_laters set_timers set_ios].
  set (s0 := set_iter s (-1)).
  destruct (destroy_list_log (ios s0) s0) as [e1 [L1 F1]].
  destruct (destroy_list_log (timers s0) (destroy_list s0 (ios s0))) as [e2 [L2 F2]].
  destruct (destroy_list_log (laters s0) (destroy_list (destroy_list s0 (ios s0)) (timers s0))) as [e3 [L3 F3]].
  destruct (destroy_list_log (sigs s0) (destroy_list (destroy_list (destroy_list s0 (ios s0)) (timers s0)) (laters s0))) as [e4 [L4 F4]].
  destruct (destroy_list_log (procs s0) (destroy_list (destroy_list (destroy_list (destroy_list s0 (ios s0)) (timers s0)) (laters s0)) (sigs s0))) as [e5 [L5 F5]].
  rewrite L5, L4, L3, L2, L1. cbn [log s0 set_iter].
  intros e He Hk Hb.
  repeat (apply in_app_or in He; destruct He as [He|He];
          [match goal with F : forall e, In (OEv e) ?l -> _ |- _ =>
             match type of He with In _ l => rewrite (F e He) in Hb; cbn in Hb; discriminate end end|]).
  exact (H e He Hk Hb).
Qed.

(* C17_never_early: no timer callback is invoked (FIRE) before its deadline *)
Theorem never_early : forall ops e,
  In (OEv e) (run bug env uenv ops) -> e_kind e = KTimer -> Z.testbit (e_flags e) 0 = true -> e_x e <= e_now e.
Proof.
  intros ops e He Hk Hb. unfold run in He. apply in_rev in He.
  destruct (Quiet_run_ops ops) as [H _]. inv_split H.
  exact (destroy_log_ok _ Hlog e He Hk Hb).
Qed.

End WithEnv.

(* ------------------------------------------------------------------ what one iteration invokes *)

(* [ext P s s']: the log of s' extends that of s by events that all satisfy P *)
Definition ext (P : event -> Prop) (s s' : st) : Prop :=
  exists nw, log s' = nw ++ log s /\ forall e, In (OEv e) nw -> P e.

Lemma ext_refl : forall P s, ext P s s.
Proof. intros. exists []. split; [reflexivity|intros e []]. Qed.

Lemma ext_trans : forall P s1 s2 s3, ext P s1 s2 -> ext P s2 s3 -> ext P s1 s3.
Proof.
  intros P s1 s2 s3 [n1 [L1 F1]] [n2 [L2 F2]]. exists (n2 ++ n1). split.
  - rewrite L2, L1, app_assoc. reflexivity.
  - intros e He. apply in_app_or in He. destruct He; auto.
Qed.

Lemma ext_same_log : forall P s s', log s' = log s -> ext P s s'.
Proof. intros P s s' H. exists []. split; [exact H|intros e []]. Qed.

Lemma ext_emit : forall (P : event -> Prop) s w f,
  P (mkE (w_id w) (w_kind w) f (iter s) (now s) (w_x w)) -> ext P s (emit s w f).
Proof.
  intros P s w f H. exists [OEv (mkE (w_id w) (w_kind w) f (iter s) (now s) (w_x w))].
  split; [reflexivity|]. intros e [He|[]]. inversion He; subst. exact H.
Qed.

Definition all_lists (s : st) : list watch :=
  timers s ++ run_timers s ++ laters s ++ run_laters s ++ ios s ++ sigs s ++ procs s.

(* every watch carries a registration number below the counter *)
Definition Below (s : st) : Prop := Forall (fun w => w_id w < next_id s) (all_lists s).

Section Iteration.
Variable bug : bool.
Variable env : Z -> list action.
Variable uenv : Z -> list action.

(* an event of a callback's own API calls is never a FIRE: only UNBIND notifications *)
Definition nofire (e : event) : Prop := Z.testbit (e_flags e) 0 = false.

Lemma ext_notify : forall s w, ext nofire s (notify_unbind bug uenv s w).
Proof.
  intros s w. unfold notify_unbind. destruct (w_unbind w); [|apply ext_refl].
  apply (ext_trans _ s (emit s w EV_UNBIND)); [apply ext_emit; reflexivity|].
  apply ext_same_log. destruct (regs_fields bug (uenv (w_cb w)) (emit s w EV_UNBIND)) as [_ [_ [_ [_ L]]]]. exact L.
Qed.

Lemma ext_cancel : forall s id, ext nofire s (watch_cancel bug uenv s id).
Proof.
  intros s id. unfold watch_cancel.
  repeat match goal with
  | |- context [match find_remove ?i ?l with _ => _ end] => destruct (find_remove i l) as [[? ?]|]
  end;
  try apply ext_refl;
  match goal with |- ext _ _ (notify_unbind bug uenv ?s0 ?w) =>
    eapply ext_trans; [|apply (ext_notify s0 w)]; apply ext_same_log; reflexivity end.
Qed.

Lemma ext_action : forall s a, ext nofire s (do_action bug uenv s a).
Proof.
  intros s a. destruct a as [d fl cb|fl cb|k x fl cb|id| |]; cbn [do_action];
    try (apply ext_same_log; reflexivity).
  - apply ext_same_log. destruct (reg_fields bug s (AWatch k x fl cb)) as [_ [_ [_ [_ L]]]]. exact L.
  - apply ext_cancel.
Qed.

Lemma ext_actions : forall l s, ext nofire s (do_actions bug uenv s l).
Proof.
  induction l as [|a l IH]; intros s; [apply ext_refl|].
  unfold do_actions in *. cbn [fold_left]. eapply ext_trans; [apply ext_action|apply IH].
Qed.

Lemma ext_weaken : forall (P Q : event -> Prop) s s', (forall e, P e -> Q e) -> ext P s s' -> ext Q s s'.
Proof. intros P Q s s' H [nw [L F]]. exists nw. split; [exact L|]. intros e He. auto. Qed.

(* the running queues only ever lose elements *)
Lemma cancel_run_sub : forall (P : watch -> Prop) s id,
  Forall P (run_timers s) -> Forall P (run_laters s) ->
  Forall P (run_timers (watch_cancel bug uenv s id)) /\ Forall P (run_laters (watch_cancel bug uenv s id)).
Proof.
  intros P s id Ht Hl. unfold watch_cancel.
  destruct (find_remove id (ios s)) as [[w l]|];
    [destruct (notify_fields bug uenv (set_ios s l) w) as [F1 [F2 _]]; rewrite F1, F2; split; assumption|].
  destruct (find_remove id (timers s)) as [[w l]|];
    [destruct (notify_fields bug uenv (set_timers s l) w) as [F1 [F2 _]]; rewrite F1, F2; split; assumption|].
  destruct (find_remove id (run_timers s)) as [[w l]|] eqn:E3.
  { destruct (find_remove_forall P _ _ _ _ E3 Ht) as [_ Hl'].
    destruct (notify_fields bug uenv (set_run_timers s l) w) as [F1 [F2 _]]; rewrite F1, F2; split; assumption. }
  destruct (find_remove id (laters s)) as [[w l]|];
    [destruct (notify_fields bug uenv (set_laters s l) w) as [F1 [F2 _]]; rewrite F1, F2; split; assumption|].
  destruct (find_remove id (run_laters s)) as [[w l]|] eqn:E5.
  { destruct (find_remove_forall P _ _ _ _ E5 Hl) as [_ Hl'].
    destruct (notify_fields bug uenv (set_run_laters s l) w) as [F1 [F2 _]]; rewrite F1, F2; split; assumption. }
  destruct (find_remove id (sigs s)) as [[w l]|];
    [destruct (notify_fields bug uenv (set_sigs s l) w) as [F1 [F2 _]]; rewrite F1, F2; split; assumption|].
  destruct (find_remove id (procs s)) as [[w l]|];
    [destruct (notify_fields bug uenv (set_procs s l) w) as [F1 [F2 _]]; rewrite F1, F2; split; assumption|].
  split; assumption.
Qed.

Lemma action_run_sub : forall (P : watch -> Prop) s a,
  Forall P (run_timers s) -> Forall P (run_laters s) ->
  Forall P (run_timers (do_action bug uenv s a)) /\ Forall P (run_laters (do_action bug uenv s a)).
Proof.
  intros P s a Ht Hl. destruct a as [d fl cb|fl cb|k x fl cb|id| |]; cbn [do_action]; try (split; assumption).
  - destruct (reg_fields bug s (AWatch k x fl cb)) as [A1 [A2 _]]. rewrite A1, A2. split; assumption.
  - apply cancel_run_sub; assumption.
Qed.

Lemma actions_run_sub : forall (P : watch -> Prop) l s,
  Forall P (run_timers s) -> Forall P (run_laters s) ->
  Forall P (run_timers (do_actions bug uenv s l)) /\ Forall P (run_laters (do_actions bug uenv s l)).
Proof.
  intros P. induction l as [|a l IH]; intros s Ht Hl; [split; assumption|].
  unfold do_actions in *. cbn [fold_left]. destruct (action_run_sub P s a Ht Hl) as [H1 H2]. apply IH; assumption.
Qed.

(* what the iteration may FIRE: only watches numbered below N *)
Definition fire_below (N : Z) (e : event) : Prop := Z.testbit (e_flags e) 0 = true -> e_id e < N.

Lemma nofire_fire_below : forall N e, nofire e -> fire_below N e.
Proof. intros N e H Hb. unfold nofire in H. congruence. Qed.

Lemma ext_run_timers_loop : forall N n s,
  Forall (fun w => w_id w < N) (run_timers s) -> Forall (fun w => w_id w < N) (run_laters s) ->
  ext (fire_below N) s (run_timers_loop bug env uenv n s) /\
  Forall (fun w => w_id w < N) (run_laters (run_timers_loop bug env uenv n s)).
Proof.
  intros N. induction n as [|n IH]; intros s Ht Hl; [split; [apply ext_refl|exact Hl]|].
  cbn [run_timers_loop]. destruct (run_timers s) as [|w r] eqn:Er; [split; [apply ext_refl|exact Hl]|].
  inversion Ht as [|? ? Hw Hr]; subst.
  set (s2 := emit (set_run_timers s r) w (EV_FIRE + EV_UNBIND)).
  assert (E1 : ext (fire_below N) s s2).
  { eapply ext_trans; [apply ext_same_log with (s' := set_run_timers s r); reflexivity|].
    apply ext_emit. intros _. exact Hw. }
  destruct (actions_run_sub (fun w => w_id w < N) (env (w_cb w)) s2 Hr Hl) as [A1 A2].
  destruct (IH _ A1 A2) as [E3 F3].
  split; [|exact F3].
  eapply ext_trans; [exact E1|]. eapply ext_trans; [|exact E3].
  eapply ext_weaken; [apply nofire_fire_below|apply ext_actions].
Qed.

Lemma ext_run_laters_loop : forall N n s,
  Forall (fun w => w_id w < N) (run_timers s) -> Forall (fun w => w_id w < N) (run_laters s) ->
  ext (fire_below N) s (run_laters_loop bug env uenv n s).
Proof.
  intros N. induction n as [|n IH]; intros s Ht Hl; [apply ext_refl|].
  cbn [run_laters_loop]. destruct (run_laters s) as [|w r] eqn:Er; [apply ext_refl|].
  inversion Hl as [|? ? Hw Hr]; subst.
  set (s2 := emit (set_run_laters s r) w (EV_FIRE + EV_UNBIND)).
  assert (E1 : ext (fire_below N) s s2).
  { eapply ext_trans; [apply ext_same_log with (s' := set_run_laters s r); reflexivity|].
    apply ext_emit. intros _. exact Hw. }
  destruct (actions_run_sub (fun w => w_id w < N) (env (w_cb w)) s2 Ht Hr) as [A1 A2].
  eapply ext_trans; [exact E1|]. eapply ext_trans; [|apply IH; assumption].
  eapply ext_weaken; [apply nofire_fire_below|apply ext_actions].
Qed.

(* Below is an invariant *)
Lemma Below_weaken_list : forall n m l, n <= m -> Forall (fun w => w_id w < n) l -> Forall (fun w : watch => w_id w < m) l.
Proof. intros n m l H HF. eapply Forall_impl; [|exact HF]. cbn. intros; lia. Qed.

Lemma Below_reg : forall s a, Below s -> Below (do_reg bug s a) /\ next_id s <= next_id (do_reg bug s a).
Proof.
  intros s a H. destruct a as [d fl cb|fl cb|k x fl cb|id| |]; cbn [do_reg].
  - unfold Below, all_lists in *. cbn [timers run_timers laters run_laters ios sigs procs next_id set_next set_timers].
    rewrite !Forall_app_iff in *. destruct H as [Ht [Hrt [Hl [Hrl [Hi [Hs Hp]]]]]].
    split; [|lia]. repeat split; try (eapply Below_weaken_list; [|eassumption]; lia).
    apply timer_insert_forall; [eapply Below_weaken_list; [|eassumption]; lia|cbn; lia].
  - unfold Below, all_lists in *. cbn [timers run_timers laters run_laters ios sigs procs next_id set_next set_laters].
    rewrite !Forall_app_iff in *. destruct H as [Ht [Hrt [Hl [Hrl [Hi [Hs Hp]]]]]].
    split; [|lia]. repeat split; try (eapply Below_weaken_list; [|eassumption]; lia).
    apply insert_watch_forall; [eapply Below_weaken_list; [|eassumption]; lia|cbn; lia].
  - destruct k; try (split; [exact H|lia]);
      unfold Below, all_lists in *;
      cbn [timers run_timers laters run_laters ios sigs procs next_id set_next set_ios set_sigs set_procs];
      rewrite !Forall_app_iff in *; destruct H as [Ht [Hrt [Hl [Hrl [Hi [Hs Hp]]]]]];
      (split; [|lia]); repeat split; try (eapply Below_weaken_list; [|eassumption]; lia);
      (apply insert_watch_forall; [eapply Below_weaken_list; [|eassumption]; lia|cbn; lia]).
  - split; [exact H|lia].
  - split; [exact H|lia].
  - split; [exact H|cbn; lia].
Qed.

Lemma Below_regs : forall l s, Below s -> Below (do_regs bug s l) /\ next_id s <= next_id (do_regs bug s l).
Proof.
  induction l as [|a l IH]; intros s H; [split; [exact H|cbn; lia]|].
  unfold do_regs in *. cbn [fold_left]. destruct (Below_reg s a H) as [H1 H2].
  destruct (IH _ H1) as [H3 H4]. split; [exact H3|lia].
Qed.

Lemma Below_notify : forall s w, Below s ->
  Below (notify_unbind bug uenv s w) /\ next_id s <= next_id (notify_unbind bug uenv s w).
Proof.
  intros s w H. unfold notify_unbind. destruct (w_unbind w); [|split; [exact H|lia]].
  apply (Below_regs (uenv (w_cb w)) (emit s w EV_UNBIND)). exact H.
Qed.

Lemma Below_cancel : forall s id, Below s ->
  Below (watch_cancel bug uenv s id) /\ next_id s <= next_id (watch_cancel bug uenv s id).
Proof.
  intros s id H. unfold watch_cancel.
  assert (HB := H). unfold Below, all_lists in H.
  rewrite !Forall_app_iff in H. destruct H as [Ht [Hrt [Hl [Hrl [Hi [Hs Hp]]]]]].
  destruct (find_remove id (ios s)) as [[w l]|] eqn:E1.
  { destruct (find_remove_forall _ _ _ _ _ E1 Hi) as [_ Hl']. apply (Below_notify (set_ios s l) w).
    unfold Below, all_lists. cbn. rewrite !Forall_app_iff. auto 10. }
  destruct (find_remove id (timers s)) as [[w l]|] eqn:E2.
  { destruct (find_remove_forall _ _ _ _ _ E2 Ht) as [_ Hl']. apply (Below_notify (set_timers s l) w).
    unfold Below, all_lists. cbn. rewrite !Forall_app_iff. auto 10. }
  destruct (find_remove id (run_timers s)) as [[w l]|] eqn:E3.
  { destruct (find_remove_forall _ _ _ _ _ E3 Hrt) as [_ Hl']. apply (Below_notify (set_run_timers s l) w).
    unfold Below, all_lists. cbn. rewrite !Forall_app_iff. auto 10. }
  destruct (find_remove id (laters s)) as [[w l]|] eqn:E4.
  { destruct (find_remove_forall _ _ _ _ _ E4 Hl) as [_ Hl']. apply (Below_notify (set_laters s l) w).
    unfold Below, all_lists. cbn. rewrite !Forall_app_iff. auto 10. }
  destruct (find_remove id (run_laters s)) as [[w l]|] eqn:E5.
  { destruct (find_remove_forall _ _ _ _ _ E5 Hrl) as [_ Hl']. apply (Below_notify (set_run_laters s l) w).
    unfold Below, all_lists. cbn. rewrite !Forall_app_iff. auto 10. }
  destruct (find_remove id (sigs s)) as [[w l]|] eqn:E6.
  { destruct (find_remove_forall _ _ _ _ _ E6 Hs) as [_ Hl']. apply (Below_notify (set_sigs s l) w).
    unfold Below, all_lists. cbn. rewrite !Forall_app_iff. auto 10. }
  destruct (find_remove id (procs s)) as [[w l]|] eqn:E7.
  { destruct (find_remove_forall _ _ _ _ _ E7 Hp) as [_ Hl']. apply (Below_notify (set_procs s l) w).
    unfold Below, all_lists. cbn. rewrite !Forall_app_iff. auto 10. }
  split; [exact HB|lia].
Qed.

Lemma Below_action : forall s a, Below s -> Below (do_action bug uenv s a) /\ next_id s <= next_id (do_action bug uenv s a).
Proof.
  intros s a H. destruct a as [d fl cb|fl cb|k x fl cb|id| |];
    try (change (Below (do_reg bug s (ATimer d fl cb)) /\ next_id s <= next_id (do_reg bug s (ATimer d fl cb))) ||
         change (Below (do_reg bug s (ALater fl cb)) /\ next_id s <= next_id (do_reg bug s (ALater fl cb))) ||
         change (Below (do_reg bug s (AWatch k x fl cb)) /\ next_id s <= next_id (do_reg bug s (AWatch k x fl cb))) ||
         change (Below (do_reg bug s ANop) /\ next_id s <= next_id (do_reg bug s ANop)) ||
         change (Below (do_reg bug s ADrop) /\ next_id s <= next_id (do_reg bug s ADrop)); apply Below_reg; exact H).
  apply Below_cancel. exact H.
Qed.

Lemma Below_actions : forall l s, Below s -> Below (do_actions bug uenv s l) /\ next_id s <= next_id (do_actions bug uenv s l).
Proof.
  induction l as [|a l IH]; intros s H; [split; [exact H|cbn; lia]|].
  unfold do_actions in *. cbn [fold_left]. destruct (Below_action s a H) as [H1 H2].
  destruct (IH _ H1) as [H3 H4]. split; [exact H3|lia].
Qed.

Lemma Below_run_timers_loop : forall n s, Below s -> Below (run_timers_loop bug env uenv n s).
Proof.
  induction n as [|n IH]; intros s H; [exact H|].
  cbn [run_timers_loop]. destruct (run_timers s) as [|w r] eqn:Er; [exact H|].
  apply IH. apply Below_actions.
  unfold Below, all_lists in *. try rewrite Er in H.
  cbn [timers run_timers laters run_laters ios sigs procs next_id emit set_log set_run_timers].
  rewrite !Forall_app_iff in *. destruct H as [Ht [Hrt [Hl [Hrl [Hi [Hs Hp]]]]]].
  inversion Hrt; subst. auto 10.
Qed.

Lemma Below_run_laters_loop : forall n s, Below s -> Below (run_laters_loop bug env uenv n s).
Proof.
  induction n as [|n IH]; intros s H; [exact H|].
  cbn [run_laters_loop]. destruct (run_laters s) as [|w r] eqn:Er; [exact H|].
  apply IH. apply Below_actions.
  unfold Below, all_lists in *. try rewrite Er in H.
  cbn [timers run_timers laters run_laters ios sigs procs next_id emit set_log set_run_laters].
  rewrite !Forall_app_iff in *. destruct H as [Ht [Hrt [Hl [Hrl [Hi [Hs Hp]]]]]].
  inversion Hrl; subst. auto 10.
Qed.

Lemma invoke_timers_split : forall s, run_timers s = [] -> run_laters s = [] -> Below s ->
  exists s2, invoke_timers bug env uenv s =
             run_laters_loop bug env uenv (length (run_laters (run_timers_loop bug env uenv (length (run_timers s2)) s2)))
                             (run_timers_loop bug env uenv (length (run_timers s2)) s2) /\
             Below s2 /\ next_id s2 = next_id s /\ log s2 = log s.
Proof.
  intros s Hrt Hrl H. unfold invoke_timers.
  set (s1 := set_laters (set_run_laters s (run_laters s ++ laters s)) []).
  assert (H1 : Below s1).
  { unfold Below, all_lists in *. cbn [s1 timers run_timers laters run_laters ios sigs procs next_id set_laters set_run_laters].
    rewrite !Forall_app_iff in *. destruct H as [Ht [Hr [Hl [Hr2 [Hi [Hs Hp]]]]]]. auto 12. }
  eexists. split; [reflexivity|].
  destruct (timers s1) as [|h t] eqn:Et; [auto|].
  destruct (split_due (now s1) (h :: t)) as [due rest] eqn:Es.
  destruct (split_due_spec _ _ _ _ Es) as [Happ _].
  split; [|split; reflexivity].
  unfold Below, all_lists in *. rewrite Et, Happ in H1.
  cbn [timers run_timers laters run_laters ios sigs procs next_id set_timers set_run_timers].
  rewrite !Forall_app_iff in *. destruct H1 as [[Hd Hr] [Hrt1 [Hl [Hrl1 [Hi [Hs Hp]]]]]]. auto 12.
Qed.

Lemma run_timers_loop_empties : forall n s, (length (run_timers s) <= n)%nat ->
  run_timers (run_timers_loop bug env uenv n s) = [].
Proof.
  induction n as [|n IH]; intros s Hn.
  - cbn [run_timers_loop]. destruct (run_timers s); [reflexivity|cbn in Hn; lia].
  - cbn [run_timers_loop]. destruct (run_timers s) as [|w r] eqn:Er; [exact Er|].
    apply IH.
    destruct (actions_run_len bug uenv (env (w_cb w)) (emit (set_run_timers s r) w (EV_FIRE + EV_UNBIND))) as [L1 _].
    cbn [run_timers emit set_log set_run_timers] in L1. cbn in Hn.
    eapply Nat.le_trans; [exact L1|]. apply le_S_n. exact Hn.
Qed.

(* C17 "later iteration": whatever an iteration invokes (FIRE) was registered before the
   iteration began -- so a watch registered from inside a callback, whatever its deadline,
   is not run by the iteration that is in progress *)
Theorem iteration_fires_old : forall sleep dt s, Quiet s -> Below s ->
  exists nw, log (tick bug env uenv sleep dt s) = nw ++ log s /\
             forall e, In (OEv e) nw -> Z.testbit (e_flags e) 0 = true -> e_id e < next_id s.
Proof.
  intros sleep dt s [HI [Hrt Hrl]] HB. unfold tick.
  set (s1 := set_iter (set_now s (now s + dt)) (iter s + 1)).
  set (msec := if sleep then next_timer_msec s1 else 0).
  set (s2 := set_log s1 (OPoll msec :: log s1)).
  set (s3 := if sleep && (0 <? msec) then set_now s2 (now s2 + msec * 1000) else s2).
  assert (H3 : run_timers s3 = [] /\ run_laters s3 = [] /\ Below s3 /\ next_id s3 = next_id s /\ log s3 = OPoll msec :: log s).
  { unfold s3. destruct (sleep && (0 <? msec)); repeat split; assumption. }
  destruct H3 as [R1 [R2 [B3 [N3 L3]]]].
  destruct (invoke_timers_split s3 R1 R2 B3) as [s4 [Einv [B4 [N4 L4]]]].
  rewrite Einv.
  assert (F4 : Forall (fun w => w_id w < next_id s) (run_timers s4) /\ Forall (fun w => w_id w < next_id s) (run_laters s4)).
  { unfold Below, all_lists in B4. rewrite !Forall_app_iff in B4. destruct B4 as [_ [Hr [_ [Hr2 _]]]].
    rewrite N4, N3 in Hr, Hr2. split; assumption. }
  destruct F4 as [F4a F4b].
  destruct (ext_run_timers_loop (next_id s) (length (run_timers s4)) s4 F4a F4b) as [E5 F5].
  set (s5 := run_timers_loop bug env uenv (length (run_timers s4)) s4) in *.
  assert (F5t : Forall (fun w => w_id w < next_id s) (run_timers s5)).
  { unfold s5. rewrite run_timers_loop_empties by apply le_n. constructor. }
  pose proof (ext_run_laters_loop (next_id s) (length (run_laters s5)) s5 F5t F5) as E6.
  destruct (ext_trans _ _ _ _ E5 E6) as [nw [Lnw Fnw]].
  exists (nw ++ [OPoll msec]). split.
  - rewrite Lnw, L4, L3. rewrite <- app_assoc. reflexivity.
  - intros e He Hb. apply in_app_or in He. destruct He as [He|[He|[]]]; [exact (Fnw e He Hb)|discriminate].
Qed.

End Iteration.

Section Reach.
Variable bug : bool.
Variable env : Z -> list action.
Variable uenv : Z -> list action.

Lemma Below_tick : forall sleep dt s, run_timers s = [] -> run_laters s = [] -> Below s -> Below (tick bug env uenv sleep dt s).
Proof.
  intros sleep dt s Hrt Hrl HB. unfold tick.
  set (s1 := set_iter (set_now s (now s + dt)) (iter s + 1)).
  set (msec := if sleep then next_timer_msec s1 else 0).
  set (s2 := set_log s1 (OPoll msec :: log s1)).
  set (s3 := if sleep && (0 <? msec) then set_now s2 (now s2 + msec * 1000) else s2).
  assert (H3 : run_timers s3 = [] /\ run_laters s3 = [] /\ Below s3).
  { unfold s3. destruct (sleep && (0 <? msec)); repeat split; assumption. }
  destruct H3 as [R1 [R2 B3]].
  destruct (invoke_timers_split bug env uenv s3 R1 R2 B3) as [s4 [Einv [B4 _]]].
  rewrite Einv. apply Below_run_laters_loop. apply Below_run_timers_loop. exact B4.
Qed.

Lemma Below_st0 : Below st0.
Proof. unfold Below, all_lists. cbn. constructor. Qed.

Lemma reach : forall ops, Quiet (run_ops bug env uenv ops) /\ Below (run_ops bug env uenv ops).
Proof.
  intros ops. unfold run_ops.
  assert (G : forall ops s, Quiet s /\ Below s -> Quiet (fold_left (do_op bug env uenv) ops s) /\ Below (fold_left (do_op bug env uenv) ops s)).
  { induction ops0 as [|o r IH]; intros s Q; [exact Q|].
    cbn [fold_left]. apply IH. destruct Q as [Q B]. destruct o as [a|dt|]; cbn [do_op].
    - split; [apply Quiet_action; exact Q|apply Below_action; exact B].
    - destruct Q as [HI [Hrt Hrl]]. split; [apply Quiet_tick; split; [exact HI|split; assumption]|apply Below_tick; assumption].
    - destruct Q as [HI [Hrt Hrl]]. split; [apply Quiet_tick; split; [exact HI|split; assumption]|apply Below_tick; assumption]. }
  apply G. split; [apply Quiet_st0|apply Below_st0].
Qed.

(* for every history: what the next iteration invokes was registered before it began *)
Theorem later_iteration : forall ops sleep dt,
  exists nw, log (tick bug env uenv sleep dt (run_ops bug env uenv ops)) = nw ++ log (run_ops bug env uenv ops) /\
             forall e, In (OEv e) nw -> Z.testbit (e_flags e) 0 = true -> e_id e < next_id (run_ops bug env uenv ops).
Proof.
  intros ops sleep dt. destruct (reach ops) as [Q B]. apply iteration_fires_old; assumption.
Qed.

(* destruction: exactly one UNBIND|DESTROY notification, in list order, for each remaining
   watch that asked for UNBIND or DESTROY, and nothing for the others *)
Definition destroy_event (s : st) (w : watch) : obs :=
  OEv (mkE (w_id w) (w_kind w) (EV_UNBIND + EV_DESTROY) (-1) (now s) (w_x w)).

Lemma destroy_list_exact : forall l s,
  log (destroy_list s l) = rev (map (fun w => OEv (mkE (w_id w) (w_kind w) (EV_UNBIND + EV_DESTROY) (iter s) (now s) (w_x w))) (filter asked l)) ++ log s /\
  iter (destroy_list s l) = iter s /\ now (destroy_list s l) = now s.
Proof.
  induction l as [|w l IH]; intros s; [repeat split; reflexivity|].
  unfold destroy_list in *. cbn [fold_left filter]. destruct (asked w).
  - destruct (IH (emit s w (EV_UNBIND + EV_DESTROY))) as [H1 [H2 H3]].
    split; [|split; [exact H2|exact H3]].
    rewrite H1. cbn [map rev iter now emit set_log log]. rewrite <- app_assoc. reflexivity.
  - apply IH.
Qed.

Theorem destroy_notifies : forall s,
  log (destroy s) =
  rev (map (destroy_event s) (filter asked (ios s ++ timers s ++ laters s ++ sigs s ++ procs s))) ++ log s.
Proof.
  intros s. unfold destroy. cbn [log set_procs set_sigs set_laters set_timers set_ios].
  set (s0 := set_iter s (-1)).
  destruct (destroy_list_exact (ios s0) s0) as [L1 [I1 N1]].
  destruct (destroy_list_exact (timers s0) (destroy_list s0 (ios s0))) as [L2 [I2 N2]].
  destruct (destroy_list_exact (laters s0) (destroy_list (destroy_list s0 (ios s0)) (timers s0))) as [L3 [I3 N3]].
  destruct (destroy_list_exact (sigs s0) (destroy_list (destroy_list (destroy_list s0 (ios s0)) (timers s0)) (laters s0))) as [L4 [I4 N4]].
  destruct (destroy_list_exact (procs s0) (destroy_list (destroy_list (destroy_list (destroy_list s0 (ios s0)) (timers s0)) (laters s0)) (sigs s0))) as [L5 _].
  rewrite L5, L4, L3, L2, L1. rewrite I4, I3, I2, I1, N4, N3, N2, N1.
  cbn [s0 iter now log set_iter ios timers laters sigs procs].
  rewrite !filter_app, !map_app, !rev_app_distr. unfold destroy_event. rewrite !app_assoc. reflexivity.
Qed.

End Reach.

(* ------------------------------------------------------------------ the pinned code, refuted *)

Definition F0 : bflags := mkF false false false.
Definition FU : bflags := mkF false true false.
Definition FD : bflags := mkF false false true.

(* #22a: the SECOND due callback registers a timer: the walk starts at the freed first node *)
Definition w22a_env (cb : Z) : list action := if cb =? 1 then [ATimer 5 F0 0] else [].
Definition w22a_ops : list op := [OAct (ATimer 0 F0 0); OAct (ATimer 0 F0 1); ORun 0; ORun 10].
Lemma pinned_use_after_free : a_run true w22a_env 100 w22a_ops = None.
Proof. vm_compute. reflexivity. Qed.

(* #22b: a timer whose deadline is already past, registered from the first due callback, is
   dropped (and leaked): it never runs *)
Definition w22b_env (cb : Z) : list action := if cb =? 1 then [ATimer (-10) F0 0] else [].
Definition w22b_ops : list op := [OAct (ATimer 0 F0 1); ORun 0; ORun 0].
Lemma pinned_drops_timer :
  a_run true w22b_env 100 w22b_ops = Some [OPoll 0; OEv (mkE 0 KTimer 3 1 0 0); OPoll 0] /\
  spec_run w22b_env no_uenv w22b_ops = [OPoll 0; OEv (mkE 0 KTimer 3 1 0 0); OPoll 0; OEv (mkE 1 KTimer 3 2 0 (-10))].
Proof. split; vm_compute; reflexivity. Qed.

(* #22c: a timer due now, registered from a callback, runs in the SAME iteration *)
Definition w22c_env (cb : Z) : list action := if cb =? 1 then [ATimer 0 F0 0] else [].
Lemma pinned_same_iteration :
  a_run true w22c_env 100 w22b_ops = Some [OPoll 0; OEv (mkE 0 KTimer 3 1 0 0); OEv (mkE 1 KTimer 3 1 0 0); OPoll 0] /\
  spec_run w22c_env no_uenv w22b_ops = [OPoll 0; OEv (mkE 0 KTimer 3 1 0 0); OPoll 0; OEv (mkE 1 KTimer 3 2 0 0)].
Proof. split; vm_compute; reflexivity. Qed.

(* #22d: a deferred callback cancelled from a timer callback of the same iteration still runs
   and gets no UNBIND notification *)
Definition w22d_env (cb : Z) : list action := if cb =? 1 then [ACancel 1] else [].
Definition w22d_ops : list op := [OAct (ATimer 0 F0 1); OAct (ALater FU 0); ORun 0; ORun 0].
Lemma pinned_uncancellable_later :
  a_run true w22d_env 100 w22d_ops = Some [OPoll 0; OEv (mkE 0 KTimer 3 1 0 0); OEv (mkE 1 KLater 3 1 0 0); OPoll 0] /\
  spec_run w22d_env no_uenv w22d_ops = [OPoll 0; OEv (mkE 0 KTimer 3 1 0 0); OEv (mkE 1 KLater 2 1 0 0); OPoll 0].
Proof. split; vm_compute; reflexivity. Qed.

(* #23: tickit_watch_io masks with UNBIND|UNBIND: no destroy notification for an IO watch *)
Definition w23_ops : list op := [OAct (AWatch KIo 0 FD 0)].
Lemma pinned_io_no_destroy :
  run true (fun _ => []) no_uenv w23_ops = [] /\
  spec_run (fun _ => []) no_uenv w23_ops = [OEv (mkE 0 KIo 6 (-1) 0 0)] /\
  run false (fun _ => []) no_uenv w23_ops = [OEv (mkE 0 KIo 6 (-1) 0 0)].
Proof. repeat split; vm_compute; reflexivity. Qed.

(* the repaired model on the four scripts agrees with the specification *)
(* a cancel whose UNBIND notification registers a replacement that sorts before the cancelled
   timer: the replacement runs (the seeded re-entrancy bug unlinks it together with the
   cancelled one) *)
Definition wub_uenv (cb : Z) : list action := if cb =? 1 then [ATimer (-500) F0 0] else [].
Definition wub_ops : list op := [OAct (ATimer 2000 FU 1); OAct (ACancel 0); ORun 0].

Lemma fixed_on_witnesses :
  run false (fun _ => []) wub_uenv wub_ops =
    [OEv (mkE 0 KTimer 2 0 0 2000); OPoll 0; OEv (mkE 1 KTimer 3 1 0 (-500))] /\
  run false w22a_env no_uenv w22a_ops = spec_run w22a_env no_uenv w22a_ops /\
  run false w22b_env no_uenv w22b_ops = spec_run w22b_env no_uenv w22b_ops /\
  run false w22c_env no_uenv w22b_ops = spec_run w22c_env no_uenv w22b_ops /\
  run false w22d_env no_uenv w22d_ops = spec_run w22d_env no_uenv w22d_ops.
Proof. repeat split; vm_compute; reflexivity. Qed.

(* ------------------------------------------------------------------ scripts in which nobody drops the instance *)

Definition nodrop (a : action) : Prop := a <> ADrop.
Definition op_nodrop (o : op) : Prop := match o with OAct a => nodrop a | _ => True end.

Section NoDrop.
Variable bug : bool.
Variable env uenv : Z -> list action.
Hypothesis env_nd : forall cb, Forall nodrop (env cb).
Hypothesis uenv_nd : forall cb, Forall nodrop (uenv cb).

Lemma dropped_reg : forall s a, nodrop a -> dropped (do_reg bug s a) = dropped s.
Proof.
  intros s a H. destruct a as [d fl cb|fl cb|k x fl cb|id| |]; try reflexivity; [destruct k; reflexivity|].
  exfalso. apply H. reflexivity.
Qed.
Lemma dropped_regs : forall l s, Forall nodrop l -> dropped (do_regs bug s l) = dropped s.
Proof.
  induction l as [|a r IH]; intros s H; [reflexivity|]. inversion H; subst. unfold do_regs in *. cbn [fold_left].
  rewrite IH by assumption. apply dropped_reg. assumption.
Qed.
Lemma dropped_notify : forall s w, dropped (notify_unbind bug uenv s w) = dropped s.
Proof. intros s w. unfold notify_unbind. destruct (w_unbind w); [|reflexivity]. rewrite dropped_regs by apply uenv_nd. reflexivity. Qed.
Lemma dropped_cancel : forall s id, dropped (watch_cancel bug uenv s id) = dropped s.
Proof.
  intros s id. unfold watch_cancel.
  repeat match goal with
  | |- context [find_remove id ?l] => destruct (find_remove id l) as [[? ?]|]; [rewrite dropped_notify; reflexivity|]
  end. reflexivity.
Qed.
Lemma dropped_action : forall s a, nodrop a -> dropped (do_action bug uenv s a) = dropped s.
Proof.
  intros s a H. destruct a as [d fl cb|fl cb|k x fl cb|id| |]; try (apply (dropped_reg s _ H)).
  apply dropped_cancel.
Qed.
Lemma dropped_actions : forall l s, Forall nodrop l -> dropped (do_actions bug uenv s l) = dropped s.
Proof.
  induction l as [|a r IH]; intros s H; [reflexivity|]. inversion H; subst. unfold do_actions in *. cbn [fold_left].
  rewrite IH by assumption. apply dropped_action. assumption.
Qed.
Lemma dropped_rt_loop : forall n s, dropped (run_timers_loop bug env uenv n s) = dropped s.
Proof.
  induction n as [|n IH]; intros s; [reflexivity|]. cbn [run_timers_loop]. destruct (run_timers s); [reflexivity|].
  rewrite IH, dropped_actions by apply env_nd. reflexivity.
Qed.
Lemma dropped_rl_loop : forall n s, dropped (run_laters_loop bug env uenv n s) = dropped s.
Proof.
  induction n as [|n IH]; intros s; [reflexivity|]. cbn [run_laters_loop]. destruct (run_laters s); [reflexivity|].
  rewrite IH, dropped_actions by apply env_nd. reflexivity.
Qed.
Lemma dropped_tick : forall sleep dt s, dropped (tick bug env uenv sleep dt s) = dropped s.
Proof.
  intros sleep dt s. unfold tick, invoke_timers. rewrite dropped_rl_loop, dropped_rt_loop.
  cbn [timers set_laters set_run_laters].
  set (s3 := if sleep && _ then _ else _).
  assert (E : dropped s3 = dropped s) by (unfold s3; destruct (sleep && _); reflexivity).
  destruct (timers s3) as [|t0 tr]; [exact E|]. destruct (split_due (now (set_laters (set_run_laters s3 (run_laters s3 ++ laters s3)) [])) (t0 :: tr)). exact E.
Qed.

(* then the script runs to its end: runx is run *)
Theorem runx_nodrop : forall ops, Forall op_nodrop ops -> runx bug env uenv ops = run bug env uenv ops.
Proof.
  intros ops Hops. unfold runx, run, run_ops.
  assert (G : forall ops s, Forall op_nodrop ops -> dropped s = false ->
              run_opsx bug env uenv ops s = (fold_left (do_op bug env uenv) ops s, false)).
  { induction ops0 as [|o r IH]; intros s Ho Hd; [reflexivity|]. inversion Ho as [|? ? Ho1 Hor]; subst.
    cbn [run_opsx fold_left].
    assert (E : dropped (do_op bug env uenv s o) = false).
    { destruct o as [a|dt|]; cbn [do_op]; [rewrite dropped_action by exact Ho1|rewrite dropped_tick|rewrite dropped_tick]; exact Hd. }
    rewrite E. apply IH; assumption. }
  rewrite (G ops st0 Hops eq_refl). reflexivity.
Qed.

End NoDrop.
