(* LoopOrder.v -- C17: each watch is invoked (FIRE) at most once in a whole history; the timer
   callbacks of one iteration run in (deadline, registration number) order. *)
From Coq Require Import ZArith List Bool Lia.
From Tickit Require Import LoopDefs LoopSpec LoopProofs LoopRefine.
Import ListNotations.
Local Open Scope Z_scope.

(* ------------------------------------------------------------------ at most once *)

Definition is_fire (id : Z) (o : obs) : bool :=
  match o with OEv e => (e_id e =? id) && Z.testbit (e_flags e) 0 | OPoll _ => false end.
Definition fires (id : Z) (l : list obs) : nat := length (filter (is_fire id) l).

Definition log_below (s : st) : Prop := forall e, In (OEv e) (log s) -> e_id e < next_id s.

(* a watch is either still in a queue or has been invoked, never both, never twice *)
Record Once (s : st) : Prop := mkOnce {
  once_wf : WF s;
  once_log : log_below s;
  once_sum : forall id, (fires id (log s) + cnt_all s id <= 1)%nat }.

Lemma fires_cons_nofire : forall id e l, Z.testbit (e_flags e) 0 = false -> fires id (OEv e :: l) = fires id l.
Proof. intros id e l H. unfold fires. cbn [filter is_fire]. rewrite H, andb_false_r. reflexivity. Qed.

Lemma fires_cons_poll : forall id m l, fires id (OPoll m :: l) = fires id l.
Proof. reflexivity. Qed.

Lemma fires_cons_fire : forall id w it nw l,
  fires id (OEv (mkE (w_id w) (w_kind w) (EV_FIRE + EV_UNBIND) it nw (w_x w)) :: l) = (hit w id + fires id l)%nat.
Proof.
  intros. unfold fires, hit. cbn [filter is_fire e_id e_flags].
  change (Z.testbit (EV_FIRE + EV_UNBIND) 0) with true. rewrite andb_true_r.
  destruct (w_id w =? id); reflexivity.
Qed.

Section Once.
Variable env : Z -> list action.
Variable uenv : Z -> list action.

Lemma Below_in : forall s w, Below s -> In w (all_lists s) -> w_id w < next_id s.
Proof. intros s w H Hin. unfold Below in H. rewrite Forall_forall in H. auto. Qed.

Lemma fires_fresh : forall s id, log_below s -> next_id s <= id -> fires id (log s) = O.
Proof.
  intros s id Hl Hid. unfold fires.
  assert (G : forall l, (forall e, In (OEv e) l -> e_id e < next_id s) -> filter (is_fire id) l = []).
  { induction l as [|o l IH]; intros H; [reflexivity|]. cbn [filter].
    destruct o as [m|e]; cbn [is_fire].
    - apply IH. intros e He. apply H. right. exact He.
    - specialize (H e (in_eq _ _)) as He. destruct (e_id e =? id) eqn:E; [apply Z.eqb_eq in E; lia|].
      cbn [andb]. apply IH. intros e0 He0. apply H. right. exact He0. }
  rewrite G; [reflexivity|exact Hl].
Qed.

Lemma Once_reg : forall s a, Once s -> Once (do_reg false s a).
Proof.
  intros s a H. pose proof (WF_reg s a (once_wf _ H)) as Hwf'.
  destruct a as [d fl cb|fl cb|k x fl cb|id| |]; cbn [do_reg] in *; try exact H.
  - destruct H as [Hwf Hl Hs]. constructor; [exact Hwf'| |].
    + intros e He. cbn [log set_next set_timers next_id] in *. specialize (Hl e He). lia.
    + intros i. specialize (Hs i). unfold cnt_all in *.
      cbn [log timers run_timers laters run_laters ios sigs procs set_next set_timers].
      rewrite cnt_timer_insert. unfold hit. cbn [w_id]. destruct (next_id s =? i) eqn:E; [|lia].
      apply Z.eqb_eq in E. subst i. rewrite (fires_fresh s (next_id s) Hl) in * by lia.
      pose proof (wf_uniq _ Hwf' (next_id s)) as U. unfold cnt_all in U.
      cbn [timers run_timers laters run_laters ios sigs procs set_next set_timers] in U.
      rewrite cnt_timer_insert in U. unfold hit in U. cbn [w_id] in U. rewrite Z.eqb_refl in U. lia.
  - destruct H as [Hwf Hl Hs]. constructor; [exact Hwf'| |].
    + intros e He. cbn [log set_next set_laters next_id] in *. specialize (Hl e He). lia.
    + intros i. specialize (Hs i). unfold cnt_all in *.
      cbn [log timers run_timers laters run_laters ios sigs procs set_next set_laters].
      rewrite cnt_insert_watch. unfold hit. cbn [w_id]. destruct (next_id s =? i) eqn:E; [|lia].
      apply Z.eqb_eq in E. subst i. rewrite (fires_fresh s (next_id s) Hl) in * by lia.
      pose proof (wf_uniq _ Hwf' (next_id s)) as U. unfold cnt_all in U.
      cbn [timers run_timers laters run_laters ios sigs procs set_next set_laters] in U.
      rewrite cnt_insert_watch in U. unfold hit in U. cbn [w_id] in U. rewrite Z.eqb_refl in U. lia.
  - destruct k; try exact H; destruct H as [Hwf Hl Hs]; (constructor; [exact Hwf'| |]);
      try (intros e He; cbn [log set_next set_ios set_sigs set_procs next_id] in *; specialize (Hl e He); lia);
      intros i; specialize (Hs i); unfold cnt_all in *;
      cbn [log timers run_timers laters run_laters ios sigs procs set_next set_ios set_sigs set_procs];
      rewrite cnt_insert_watch; unfold hit; cbn [w_id]; (destruct (next_id s =? i) eqn:E; [|lia]);
      apply Z.eqb_eq in E; subst i; rewrite (fires_fresh s (next_id s) Hl) in * by lia;
      pose proof (wf_uniq _ Hwf' (next_id s)) as U; unfold cnt_all in U;
      cbn [timers run_timers laters run_laters ios sigs procs set_next set_ios set_sigs set_procs] in U;
      rewrite cnt_insert_watch in U; unfold hit in U; cbn [w_id] in U; rewrite Z.eqb_refl in U; lia.
  - destruct H as [Hwf Hl Hs]. constructor; [exact Hwf'|exact Hl|exact Hs].
Qed.

Lemma Once_regs : forall l s, Once s -> Once (do_regs false s l).
Proof.
  induction l as [|a l IH]; intros s H; [exact H|].
  unfold do_regs in *. cbn [fold_left]. apply IH. apply Once_reg. exact H.
Qed.

Lemma Once_notify : forall s w, Once s -> w_id w < next_id s -> Once (notify_unbind false uenv s w).
Proof.
  intros s w [Hwf Hl Hs] Hw. unfold notify_unbind. destruct (w_unbind w); [|constructor; assumption].
  apply Once_regs. constructor; [apply WF_emit; exact Hwf| |].
  - intros e [He|He]; [inversion He; subst; exact Hw|exact (Hl e He)].
  - intros id. cbn [log emit set_log]. rewrite fires_cons_nofire by reflexivity. apply Hs.
Qed.

Ltac once_removed WFL E :=
  match goal with Hwf : WF ?s, Hl : log_below ?s, Hs : forall id, (fires id (log ?s) + cnt_all ?s id <= 1)%nat |- _ =>
    apply Once_notify;
    [ constructor;
      [ eapply WFL; eassumption
      | exact Hl
      | let i := fresh "i" in intros i; specialize (Hs i); unfold cnt_all in *;
        cbn [log timers run_timers laters run_laters ios sigs procs
             set_ios set_timers set_run_timers set_laters set_run_laters set_sigs set_procs];
        pose proof (find_remove_cnt _ _ _ _ E i); lia ]
    | let Hin := fresh "Hin" in
      destruct (find_remove_some _ _ _ _ E) as [_ [Hin _]];
      apply (Below_in s _ (wf_below _ Hwf)); unfold all_lists;
      repeat (apply in_or_app; first [left; exact Hin | right]); exact Hin ]
  end.

Lemma Once_cancel : forall s id, Once s -> Once (watch_cancel false uenv s id).
Proof.
  intros s id [Hwf Hl Hs]. unfold watch_cancel.
  destruct (find_remove id (ios s)) as [[w0 l0]|] eqn:E1; [once_removed WF_rm_ios E1|].
  destruct (find_remove id (timers s)) as [[w0 l0]|] eqn:E2; [once_removed WF_rm_timers E2|].
  destruct (find_remove id (run_timers s)) as [[w0 l0]|] eqn:E3; [once_removed WF_rm_run_timers E3|].
  destruct (find_remove id (laters s)) as [[w0 l0]|] eqn:E4; [once_removed WF_rm_laters E4|].
  destruct (find_remove id (run_laters s)) as [[w0 l0]|] eqn:E5; [once_removed WF_rm_run_laters E5|].
  destruct (find_remove id (sigs s)) as [[w0 l0]|] eqn:E6; [once_removed WF_rm_sigs E6|].
  destruct (find_remove id (procs s)) as [[w0 l0]|] eqn:E7; [once_removed WF_rm_procs E7|].
  constructor; assumption.
Qed.

Lemma Once_action : forall s a, Once s -> Once (do_action false uenv s a).
Proof.
  intros s a H. destruct a as [d fl cb|fl cb|k x fl cb|id| |]; cbn [do_action];
    try (apply Once_reg; exact H).
  apply Once_cancel. exact H.
Qed.

Lemma Once_actions : forall l s, Once s -> Once (do_actions false uenv s l).
Proof.
  induction l as [|a l IH]; intros s H; [exact H|].
  unfold do_actions in *. cbn [fold_left]. apply IH. apply Once_action. exact H.
Qed.

Lemma Once_pop_timer : forall s w r, Once s -> run_timers s = w :: r -> Once (pop_timer env uenv s w r).
Proof.
  intros s w r [Hwf Hl Hs] Er. unfold pop_timer. apply Once_actions.
  pose proof (WF_pop_timer_pre s w r Hwf Er) as Hwf'.
  constructor; [exact Hwf'| |].
  - intros e [He|He]; [|exact (Hl e He)]. inversion He; subst. cbn [e_id next_id emit set_log set_run_timers].
    apply (Below_in s w (wf_below _ Hwf)). unfold all_lists. rewrite Er.
    apply in_or_app. right. apply in_or_app. left. left. reflexivity.
  - intros i. specialize (Hs i). unfold cnt_all in *. rewrite Er, cnt_cons in Hs.
    cbn [log timers run_timers laters run_laters ios sigs procs emit set_log set_run_timers iter now].
    rewrite fires_cons_fire. lia.
Qed.

Lemma Once_pop_later : forall s w r, Once s -> run_laters s = w :: r -> Once (pop_later env uenv s w r).
Proof.
  intros s w r [Hwf Hl Hs] Er. unfold pop_later. apply Once_actions.
  pose proof (WF_pop_later_pre s w r Hwf Er) as Hwf'.
  constructor; [exact Hwf'| |].
  - intros e [He|He]; [|exact (Hl e He)]. inversion He; subst. cbn [e_id next_id emit set_log set_run_laters].
    apply (Below_in s w (wf_below _ Hwf)). unfold all_lists. rewrite Er.
    apply in_or_app. right. apply in_or_app. right. apply in_or_app. right. apply in_or_app. left. left. reflexivity.
  - intros i. specialize (Hs i). unfold cnt_all in *. rewrite Er, cnt_cons in Hs.
    cbn [log timers run_timers laters run_laters ios sigs procs emit set_log set_run_laters iter now].
    rewrite fires_cons_fire. lia.
Qed.

Lemma Once_finish : forall k s, Once s -> (length (run_timers s) + length (run_laters s) <= k)%nat -> Once (finish env uenv s).
Proof.
  induction k as [|k IH]; intros s H Hk.
  - assert (Et : run_timers s = []) by (destruct (run_timers s); [reflexivity|cbn in Hk; lia]).
    assert (Er : run_laters s = []) by (destruct (run_laters s); [reflexivity|rewrite Et in Hk; cbn in Hk; lia]).
    rewrite finish_done by assumption. exact H.
  - destruct (run_timers s) as [|w r] eqn:Et.
    + destruct (run_laters s) as [|w r] eqn:Er.
      * rewrite finish_done by assumption. exact H.
      * rewrite (finish_step_later env uenv s w r Et Er). apply IH; [apply Once_pop_later; assumption|].
        destruct (actions_run_len false uenv (env (w_cb w)) (emit (set_run_laters s r) w (EV_FIRE + EV_UNBIND))) as [L1 L2].
        cbn [run_timers run_laters emit set_log set_run_laters] in L1, L2. fold (pop_later env uenv s w r) in L1, L2.
        rewrite Et in L1. cbn [length] in Hk, L1. lia.
    + rewrite (finish_step_timer env uenv s w r Et). apply IH; [apply Once_pop_timer; assumption|].
      destruct (actions_run_len false uenv (env (w_cb w)) (emit (set_run_timers s r) w (EV_FIRE + EV_UNBIND))) as [L1 L2].
      cbn [run_timers run_laters emit set_log set_run_timers] in L1, L2. fold (pop_timer env uenv s w r) in L1, L2.
      cbn [length] in Hk. lia.
Qed.

Lemma Once_tick : forall sleep dt s, Once s -> run_timers s = [] -> run_laters s = [] -> Once (tick false env uenv sleep dt s).
Proof.
  intros sleep dt s H Et Er. unfold tick.
  set (s1 := set_iter (set_now s (now s + dt)) (iter s + 1)).
  set (msec := if sleep then next_timer_msec s1 else 0).
  set (s2 := set_log s1 (OPoll msec :: log s1)).
  set (s3 := if sleep && (0 <? msec) then set_now s2 (now s2 + msec * 1000) else s2).
  assert (H3 : Once s3 /\ run_timers s3 = [] /\ run_laters s3 = []).
  { destruct H as [[Hu Hb Hs] Hl Hsum]. unfold s3.
    destruct (sleep && (0 <? msec)); (split; [|split; assumption]);
      (constructor; [constructor; assumption| |]);
      try (intros e [He|He]; [discriminate|exact (Hl e He)]);
      intros i; specialize (Hsum i); cbn [log s2 s1 set_log set_iter set_now]; rewrite fires_cons_poll; exact Hsum. }
  destruct H3 as [H3 [Et3 Er3]].
  rewrite (invoke_timers_finish env uenv s3 Et3 Er3 (wf_sorted _ (once_wf _ H3))).
  apply (Once_finish (length (run_timers (detached s3)) + length (run_laters (detached s3)))); [|apply le_n].
  destruct H3 as [Hwf Hl Hsum]. constructor; [apply WF_detached; assumption|exact Hl|].
  intros i. specialize (Hsum i). unfold cnt_all, detached in *.
  cbn [log timers laters ios sigs procs run_timers run_laters]. rewrite Et3, Er3 in Hsum.
  pose proof (cnt_filter_split i (fun w => w_x w <=? now s3) (timers s3)). change (cnt i []) with O in *. lia.
Qed.

Lemma Once_st0 : Once st0.
Proof. constructor; [apply WF_st0|intros e []|intros id; cbn; lia]. Qed.

Lemma Once_run_ops : forall ops, Once (run_ops false env uenv ops).
Proof.
  intros ops. unfold run_ops.
  assert (G : forall ops s, Once s -> Quiet s -> Once (fold_left (do_op false env uenv) ops s)).
  { induction ops0 as [|o r IH]; intros s H Q; [exact H|].
    cbn [fold_left]. destruct Q as [QI [Et Er]]. apply IH.
    - destruct o as [a|dt|]; cbn [do_op]; [apply Once_action; exact H|apply Once_tick; assumption|apply Once_tick; assumption].
    - destruct o as [a|dt|]; cbn [do_op];
        [apply Quiet_action|apply Quiet_tick|apply Quiet_tick]; (split; [exact QI|split; assumption]). }
  apply G; [apply Once_st0|apply Quiet_st0].
Qed.

(* destruction adds no FIRE *)
Lemma fires_destroy : forall s id, fires id (log (destroy s)) = fires id (log s).
Proof.
  intros s id. rewrite (destroy_notifies s). unfold fires. rewrite filter_app.
  assert (G : forall l, filter (is_fire id) (rev (map (destroy_event s) l)) = []).
  { intros l. induction l as [|w l IH]; [reflexivity|]. cbn [map rev]. rewrite filter_app, IH. cbn [app filter is_fire destroy_event e_flags].
    change (Z.testbit (EV_UNBIND + EV_DESTROY) 0) with false. rewrite andb_false_r. reflexivity. }
  rewrite G. reflexivity.
Qed.

(* C17 "exactly once": in a whole history no watch is invoked (FIRE) more than once *)
Theorem at_most_once : forall ops id, (fires id (run false env uenv ops) <= 1)%nat.
Proof.
  intros ops id. unfold run.
  assert (FR : forall (l : list obs), filter (is_fire id) (rev l) = rev (filter (is_fire id) l)).
  { induction l as [|o l IH]; [reflexivity|]. cbn [rev filter]. rewrite filter_app, IH. cbn [filter].
    destruct (is_fire id o); cbn [rev]; [reflexivity|apply app_nil_r]. }
  assert (E : fires id (rev (log (destroy (run_ops false env uenv ops)))) = fires id (log (destroy (run_ops false env uenv ops)))).
  { unfold fires. rewrite FR, rev_length. reflexivity. }
  rewrite E, fires_destroy.
  pose proof (once_sum _ (Once_run_ops ops) id). lia.
Qed.

End Once.

(* ------------------------------------------------------------------ order within one iteration *)

Definition key_lt (a b : watch) : Prop := w_x a < w_x b \/ (w_x a = w_x b /\ w_id a < w_id b).

Inductive ksorted : list watch -> Prop :=
| ks_nil : ksorted []
| ks_cons : forall h t, Forall (key_lt h) t -> ksorted t -> ksorted (h :: t).

Inductive subseq : list watch -> list watch -> Prop :=
| sq_nil : subseq [] []
| sq_skip : forall a l1 l2, subseq l1 l2 -> subseq l1 (a :: l2)
| sq_take : forall a l1 l2, subseq l1 l2 -> subseq (a :: l1) (a :: l2).

Lemma subseq_refl : forall l, subseq l l.
Proof. induction l; constructor; assumption. Qed.

Lemma subseq_in : forall l1 l2, subseq l1 l2 -> forall x, In x l1 -> In x l2.
Proof.
  induction 1 as [|a l1 l2 H IH|a l1 l2 H IH]; intros x Hx; [exact Hx|right; auto|].
  destruct Hx as [Hx|Hx]; [left; exact Hx|right; auto].
Qed.

Lemma subseq_trans : forall l1 l2 l3, subseq l1 l2 -> subseq l2 l3 -> subseq l1 l3.
Proof.
  intros l1 l2 l3 H12 H23. revert l1 H12.
  induction H23 as [|a l2 l3 H IH|a l2 l3 H IH]; intros l1 H12.
  - exact H12.
  - apply sq_skip. apply IH. exact H12.
  - inversion H12; subst; [apply sq_skip; apply IH; assumption|apply sq_take; apply IH; assumption].
Qed.

Lemma subseq_nil_inv : forall l, subseq l [] -> l = [].
Proof. intros l H. inversion H. reflexivity. Qed.

Lemma ksorted_subseq : forall l1 l2, subseq l1 l2 -> ksorted l2 -> ksorted l1.
Proof.
  induction 1 as [|a l1 l2 H IH|a l1 l2 H IH]; intros Hs; [constructor| |].
  - inversion Hs; subst. auto.
  - inversion Hs as [|? ? Hf Ht]; subst. constructor; [|auto].
    apply Forall_forall. intros x Hx. rewrite Forall_forall in Hf. apply Hf. eapply subseq_in; eassumption.
Qed.

Lemma find_remove_subseq : forall id l w l', find_remove id l = Some (w, l') -> subseq l' l.
Proof.
  induction l as [|h t IH]; intros w l' H; [discriminate|]. cbn [find_remove] in H.
  destruct (w_id h =? id).
  - inversion H; subst. apply sq_skip. apply subseq_refl.
  - destruct (find_remove id t) as [[w0 t']|] eqn:E; [|discriminate]. inversion H; subst.
    apply sq_take. eapply IH. reflexivity.
Qed.

Lemma filter_subseq : forall (f : watch -> bool) l, subseq (filter f l) l.
Proof. induction l as [|h t IH]; [constructor|]. cbn [filter]. destruct (f h); constructor; assumption. Qed.

Lemma ksorted_timer_insert : forall l w, ksorted l -> Forall (fun v => w_id v < w_id w) l -> ksorted (timer_insert l w).
Proof.
  induction l as [|h t IH]; intros w Hs Hb; cbn [timer_insert].
  - constructor; constructor.
  - inversion Hs as [|? ? Hf Ht]; subst. inversion Hb as [|? ? Hh Hbt]; subst.
    destruct (w_x h <=? w_x w) eqn:E.
    + apply Z.leb_le in E. constructor; [|apply IH; assumption].
      apply timer_insert_forall; [exact Hf|]. unfold key_lt. lia.
    + apply Z.leb_gt in E. constructor; [|exact Hs].
      constructor; [unfold key_lt; lia|].
      eapply Forall_impl; [|exact Hf]. unfold key_lt. intros; lia.
Qed.

Definition is_tfire (o : obs) : bool :=
  match o with
  | OEv e => (kind_code (e_kind e) =? 0) && Z.testbit (e_flags e) 0
  | OPoll _ => false
  end.
Definition okey (o : obs) : Z * Z := match o with OEv e => (e_x e, e_id e) | OPoll _ => (0, 0) end.
Definition wkey (w : watch) : Z * Z := (w_x w, w_id w).

Section Order.
Variable env : Z -> list action.
Variable uenv : Z -> list action.

Lemma cancel_subseq : forall s id, subseq (run_timers (watch_cancel false uenv s id)) (run_timers s).
Proof.
  intros s id. unfold watch_cancel.
  repeat match goal with
  | |- context [match find_remove ?a ?l with _ => _ end] =>
      let E := fresh "E" in destruct (find_remove a l) as [[w0 l0]|] eqn:E;
      [match goal with |- context [notify_unbind false uenv ?s0 w0] =>
         destruct (notify_fields false uenv s0 w0) as [F1 _]; rewrite F1 end;
       cbn [run_timers set_ios set_timers set_run_timers set_laters set_run_laters set_sigs set_procs];
       first [apply subseq_refl | eapply find_remove_subseq; eassumption]|]
  end.
  apply subseq_refl.
Qed.

Lemma action_run_subseq : forall s a, subseq (run_timers (do_action false uenv s a)) (run_timers s).
Proof.
  intros s a. destruct a as [d fl cb|fl cb|k x fl cb|id| |]; cbn [do_action]; try apply subseq_refl.
  - destruct (reg_fields false s (AWatch k x fl cb)) as [A1 _]. rewrite A1. apply subseq_refl.
  - apply cancel_subseq.
Qed.

Lemma actions_run_subseq : forall l s, subseq (run_timers (do_actions false uenv s l)) (run_timers s).
Proof.
  induction l as [|a l IH]; intros s; [apply subseq_refl|].
  unfold do_actions in *. cbn [fold_left]. eapply subseq_trans; [apply IH|apply action_run_subseq].
Qed.

Lemma KS_reg : forall s a, Below s -> ksorted (timers s) -> ksorted (timers (do_reg false s a)).
Proof.
  intros s a Hb Hs. destruct a as [d fl cb|fl cb|k x fl cb|id| |]; cbn [do_reg]; try exact Hs.
  - cbn [timers set_next set_timers]. apply ksorted_timer_insert; [exact Hs|].
    destruct (Below_parts s Hb) as [B1 _]. exact B1.
  - destruct k; exact Hs.
Qed.

Lemma KS_regs : forall l s, Below s -> ksorted (timers s) -> ksorted (timers (do_regs false s l)).
Proof.
  induction l as [|a l IH]; intros s Hb Hs; [exact Hs|].
  unfold do_regs in *. cbn [fold_left]. apply IH; [exact (proj1 (Below_reg false s a Hb))|apply KS_reg; assumption].
Qed.

Lemma KS_notify : forall s w, Below s -> ksorted (timers s) -> ksorted (timers (notify_unbind false uenv s w)).
Proof.
  intros s w Hb Hs. unfold notify_unbind. destruct (w_unbind w); [|exact Hs].
  apply KS_regs; [exact Hb|exact Hs].
Qed.

Lemma KS_cancel : forall s id, WF s -> ksorted (timers s) -> ksorted (timers (watch_cancel false uenv s id)).
Proof.
  intros s id H Hs. unfold watch_cancel.
  destruct (find_remove id (ios s)) as [[w0 l0]|] eqn:E1;
    [apply KS_notify; [exact (wf_below _ (WF_rm_ios s id w0 l0 H E1))|exact Hs]|].
  destruct (find_remove id (timers s)) as [[w0 l0]|] eqn:E2;
    [apply KS_notify; [exact (wf_below _ (WF_rm_timers s id w0 l0 H E2))|
                       cbn [timers set_timers]; eapply ksorted_subseq; [eapply find_remove_subseq; exact E2|exact Hs]]|].
  destruct (find_remove id (run_timers s)) as [[w0 l0]|] eqn:E3;
    [apply KS_notify; [exact (wf_below _ (WF_rm_run_timers s id w0 l0 H E3))|exact Hs]|].
  destruct (find_remove id (laters s)) as [[w0 l0]|] eqn:E4;
    [apply KS_notify; [exact (wf_below _ (WF_rm_laters s id w0 l0 H E4))|exact Hs]|].
  destruct (find_remove id (run_laters s)) as [[w0 l0]|] eqn:E5;
    [apply KS_notify; [exact (wf_below _ (WF_rm_run_laters s id w0 l0 H E5))|exact Hs]|].
  destruct (find_remove id (sigs s)) as [[w0 l0]|] eqn:E6;
    [apply KS_notify; [exact (wf_below _ (WF_rm_sigs s id w0 l0 H E6))|exact Hs]|].
  destruct (find_remove id (procs s)) as [[w0 l0]|] eqn:E7;
    [apply KS_notify; [exact (wf_below _ (WF_rm_procs s id w0 l0 H E7))|exact Hs]|].
  exact Hs.
Qed.

Lemma KS_action : forall s a, WF s -> ksorted (timers s) -> ksorted (timers (do_action false uenv s a)).
Proof.
  intros s a H Hs. destruct a as [d fl cb|fl cb|k x fl cb|id| |]; cbn [do_action];
    try (apply KS_reg; [exact (wf_below _ H)|exact Hs]).
  apply KS_cancel; assumption.
Qed.

Lemma KS_actions : forall l s, WF s -> ksorted (timers s) -> ksorted (timers (do_actions false uenv s l)).
Proof.
  induction l as [|a l IH]; intros s H Hs; [exact Hs|].
  unfold do_actions in *. cbn [fold_left]. apply IH; [apply WF_action; exact H|apply KS_action; assumption].
Qed.

Lemma nofire_not_tfire : forall nw, (forall e, In (OEv e) nw -> nofire e) -> filter is_tfire nw = [].
Proof.
  induction nw as [|o l IH]; intros H; [reflexivity|]. cbn [filter].
  destruct o as [m|e]; cbn [is_tfire].
  - apply IH. intros e He. apply H. right. exact He.
  - rewrite (H e (in_eq _ _)), andb_false_r. apply IH. intros e0 He0. apply H. right. exact He0.
Qed.

Lemma Inv_pop_timer_pre : forall s w r, Inv s -> run_timers s = w :: r -> Inv (emit (set_run_timers s r) w (EV_FIRE + EV_UNBIND)) /\ w_kind w = KTimer.
Proof.
  intros s w r [Htk Hrt Hot Hlog] Er. rewrite Er in Hrt. inversion Hrt as [|? ? [Hk Hx] Hr]; subst.
  split; [|exact Hk]. constructor; try assumption.
  intros e [He|He] Hke Hb; [|exact (Hlog e He Hke Hb)]. inversion He; subst. cbn. exact Hx.
Qed.

Lemma Inv_pop_later_pre : forall s w r, Inv s -> run_laters s = w :: r -> Inv (emit (set_run_laters s r) w (EV_FIRE + EV_UNBIND)) /\ w_kind w <> KTimer.
Proof.
  intros s w r [Htk Hrt Hot Hlog] Er. unfold others in Hot. rewrite Er in Hot. rewrite !Forall_app in Hot.
  destruct Hot as [Hla [Hrl Hrest]]. inversion Hrl as [|? ? Hk Hr]; subst.
  split; [|exact Hk]. constructor; try assumption.
  - unfold others. cbn [laters run_laters ios sigs procs emit set_log set_run_laters]. rewrite !Forall_app. auto.
  - intros e [He|He] Hke Hb; [|exact (Hlog e He Hke Hb)]. inversion He; subst. cbn in Hke. contradiction.
Qed.

(* the timer callbacks an iteration invokes are, oldest first, a subsequence of the detached
   due queue *)
Lemma finish_fired : forall k s, Inv s -> (length (run_timers s) + length (run_laters s) <= k)%nat ->
  exists fired nw, subseq fired (run_timers s) /\ log (finish env uenv s) = nw ++ log s /\
                   map okey (filter is_tfire nw) = rev (map wkey fired).
Proof.
  induction k as [|k IH]; intros s H Hk.
  - assert (Et : run_timers s = []) by (destruct (run_timers s); [reflexivity|cbn in Hk; lia]).
    assert (Er : run_laters s = []) by (destruct (run_laters s); [reflexivity|rewrite Et in Hk; cbn in Hk; lia]).
    rewrite finish_done by assumption. exists [], []. rewrite Et. repeat split; constructor.
  - destruct (run_timers s) as [|w r] eqn:Et.
    + destruct (run_laters s) as [|w r] eqn:Er.
      * rewrite finish_done by assumption. exists [], []. repeat split; constructor.
      * rewrite (finish_step_later env uenv s w r Et Er).
        destruct (Inv_pop_later_pre s w r H Er) as [H1 Hk1].
        pose proof (Inv_actions false uenv (env (w_cb w)) _ H1) as H2. fold (pop_later env uenv s w r) in H2.
        destruct (actions_run_len false uenv (env (w_cb w)) (emit (set_run_laters s r) w (EV_FIRE + EV_UNBIND))) as [L1 L2].
        cbn [run_timers run_laters emit set_log set_run_laters] in L1, L2. fold (pop_later env uenv s w r) in L1, L2.
        rewrite Et in L1. cbn [length] in Hk, L1.
        destruct (IH (pop_later env uenv s w r) H2) as [fired [nw [S1 [Lg Ky]]]]; [lia|].
        assert (Et2 : run_timers (pop_later env uenv s w r) = []) by (destruct (run_timers (pop_later env uenv s w r)); [reflexivity|cbn in L1; lia]).
        rewrite Et2 in S1. apply subseq_nil_inv in S1. subst fired.
        destruct (ext_actions false uenv (env (w_cb w)) (emit (set_run_laters s r) w (EV_FIRE + EV_UNBIND))) as [na [La Fa]].
        fold (pop_later env uenv s w r) in La.
        exists [], (nw ++ na ++ [OEv (mkE (w_id w) (w_kind w) (EV_FIRE + EV_UNBIND) (iter s) (now s) (w_x w))]).
        split; [constructor|]. split.
        -- rewrite Lg, La. cbn [log emit set_log set_run_laters]. rewrite <- !app_assoc. reflexivity.
        -- rewrite !filter_app, (nofire_not_tfire na Fa). cbn [filter is_tfire e_kind e_flags app].
           assert (Ek : (kind_code (w_kind w) =? 0) = false) by (destruct (w_kind w); try reflexivity; contradiction).
           rewrite Ek. cbn [andb]. rewrite app_nil_r. exact Ky.
    + rewrite (finish_step_timer env uenv s w r Et).
      destruct (Inv_pop_timer_pre s w r H Et) as [H1 Hk1].
      pose proof (Inv_actions false uenv (env (w_cb w)) _ H1) as H2. fold (pop_timer env uenv s w r) in H2.
      destruct (actions_run_len false uenv (env (w_cb w)) (emit (set_run_timers s r) w (EV_FIRE + EV_UNBIND))) as [L1 L2].
      cbn [run_timers run_laters emit set_log set_run_timers] in L1, L2. fold (pop_timer env uenv s w r) in L1, L2.
      cbn [length] in Hk.
      destruct (IH (pop_timer env uenv s w r) H2) as [fired [nw [S1 [Lg Ky]]]]; [lia|].
      pose proof (actions_run_subseq (env (w_cb w)) (emit (set_run_timers s r) w (EV_FIRE + EV_UNBIND))) as S2.
      cbn [run_timers emit set_log set_run_timers] in S2. fold (pop_timer env uenv s w r) in S2.
      destruct (ext_actions false uenv (env (w_cb w)) (emit (set_run_timers s r) w (EV_FIRE + EV_UNBIND))) as [na [La Fa]].
      fold (pop_timer env uenv s w r) in La.
      exists (w :: fired), (nw ++ na ++ [OEv (mkE (w_id w) (w_kind w) (EV_FIRE + EV_UNBIND) (iter s) (now s) (w_x w))]).
      split; [apply sq_take; eapply subseq_trans; eassumption|]. split.
      * rewrite Lg, La. cbn [log emit set_log set_run_timers]. rewrite <- !app_assoc. reflexivity.
      * rewrite !filter_app, (nofire_not_tfire na Fa). cbn [filter is_tfire e_kind e_flags app].
        rewrite Hk1. change (kind_code KTimer =? 0) with true. change (Z.testbit (EV_FIRE + EV_UNBIND) 0) with true.
        cbn [andb]. rewrite map_app, Ky. cbn [map okey e_x e_id rev wkey]. reflexivity.
Qed.

(* ksorted timers is an invariant of whole scripts *)
Lemma KS_finish : forall k s, WF s -> ksorted (timers s) -> (length (run_timers s) + length (run_laters s) <= k)%nat ->
  ksorted (timers (finish env uenv s)).
Proof.
  induction k as [|k IH]; intros s H Hs Hk.
  - assert (Et : run_timers s = []) by (destruct (run_timers s); [reflexivity|cbn in Hk; lia]).
    assert (Er : run_laters s = []) by (destruct (run_laters s); [reflexivity|rewrite Et in Hk; cbn in Hk; lia]).
    rewrite finish_done by assumption. exact Hs.
  - destruct (run_timers s) as [|w r] eqn:Et.
    + destruct (run_laters s) as [|w r] eqn:Er.
      * rewrite finish_done by assumption. exact Hs.
      * rewrite (finish_step_later env uenv s w r Et Er).
        pose proof (WF_pop_later_pre s w r H Er) as H1.
        destruct (sim_actions uenv (env (w_cb w)) _ H1) as [_ A2]. fold (pop_later env uenv s w r) in A2.
        destruct (actions_run_len false uenv (env (w_cb w)) (emit (set_run_laters s r) w (EV_FIRE + EV_UNBIND))) as [L1 L2].
        cbn [run_timers run_laters emit set_log set_run_laters] in L1, L2. fold (pop_later env uenv s w r) in L1, L2.
        rewrite Et in L1. cbn [length] in Hk, L1.
        apply IH; [exact A2| |lia].
        unfold pop_later. apply KS_actions; [exact H1|exact Hs].
    + rewrite (finish_step_timer env uenv s w r Et).
      pose proof (WF_pop_timer_pre s w r H Et) as H1.
      destruct (sim_actions uenv (env (w_cb w)) _ H1) as [_ A2]. fold (pop_timer env uenv s w r) in A2.
      destruct (actions_run_len false uenv (env (w_cb w)) (emit (set_run_timers s r) w (EV_FIRE + EV_UNBIND))) as [L1 L2].
      cbn [run_timers run_laters emit set_log set_run_timers] in L1, L2. fold (pop_timer env uenv s w r) in L1, L2.
      cbn [length] in Hk.
      apply IH; [exact A2| |lia].
      unfold pop_timer. apply KS_actions; [exact H1|exact Hs].
Qed.

Lemma tick_unfold : forall sleep dt s, WF s -> run_timers s = [] -> run_laters s = [] ->
  exists s3 msec, tick false env uenv sleep dt s = finish env uenv (detached s3) /\
    WF s3 /\ run_timers s3 = [] /\ run_laters s3 = [] /\ timers s3 = timers s /\ log s3 = OPoll msec :: log s /\
    (Inv s -> Inv s3).
Proof.
  intros sleep dt s H Et Er. unfold tick.
  set (s1 := set_iter (set_now s (now s + dt)) (iter s + 1)).
  set (msec := if sleep then next_timer_msec s1 else 0).
  set (s2 := set_log s1 (OPoll msec :: log s1)).
  set (s3 := if sleep && (0 <? msec) then set_now s2 (now s2 + msec * 1000) else s2).
  exists s3, msec.
  assert (H3 : WF s3 /\ run_timers s3 = [] /\ run_laters s3 = [] /\ timers s3 = timers s /\ log s3 = OPoll msec :: log s /\ (Inv s -> Inv s3)).
  { destruct H as [Hu Hb Hs]. unfold s3.
    destruct (sleep && (0 <? msec)); (split; [constructor; assumption|]); (split; [exact Et|]); (split; [exact Er|]);
      (split; [reflexivity|]); (split; [reflexivity|]);
      intros [Htk Hrt Hot Hlog]; (constructor; [exact Htk| |exact Hot|]);
      try (cbn [run_timers s2 s1 set_log set_iter set_now]; rewrite Et; constructor);
      intros e [He|He]; try discriminate; exact (Hlog e He). }
  destruct H3 as [H3 [Et3 [Er3 [T3 [L3 I3]]]]].
  split; [|split; [exact H3|split; [exact Et3|split; [exact Er3|split; [exact T3|split; [exact L3|exact I3]]]]]].
  apply (invoke_timers_finish env uenv s3 Et3 Er3 (wf_sorted _ H3)).
Qed.

Lemma KS_run_ops : forall ops, ksorted (timers (run_ops false env uenv ops)).
Proof.
  intros ops. unfold run_ops.
  assert (G : forall ops s, WF s -> Quiet s -> ksorted (timers s) -> ksorted (timers (fold_left (do_op false env uenv) ops s))).
  { induction ops0 as [|o r IH]; intros s H Q Hs; [exact Hs|].
    cbn [fold_left]. destruct Q as [QI [Et Er]].
    destruct (sim_op env uenv s o H Et Er) as [_ A2].
    apply IH; [exact A2| |].
    - destruct o as [a|dt|]; cbn [do_op];
        [apply Quiet_action|apply Quiet_tick|apply Quiet_tick]; (split; [exact QI|split; assumption]).
    - assert (T : forall sleep dt, ksorted (timers (tick false env uenv sleep dt s))).
      { intros sleep dt. destruct (tick_unfold sleep dt s H Et Er) as [s3 [msec [E [H3 [Et3 [Er3 [T3 _]]]]]]].
        rewrite E. apply (KS_finish (length (run_timers (detached s3)) + length (run_laters (detached s3)))); [|  |apply le_n].
        - apply WF_detached; assumption.
        - unfold detached. cbn [timers]. eapply ksorted_subseq; [apply filter_subseq|]. rewrite T3. exact Hs. }
      destruct o as [a|dt|]; cbn [do_op]; [apply KS_action; [exact H|exact Hs]|apply T|apply T]. }
  apply G; [apply WF_st0|apply Quiet_st0|constructor].
Qed.

(* C17_order: the timer callbacks of one iteration run in (deadline, registration number)
   order -- deadline order, equal deadlines in registration order *)
Theorem iteration_order : forall ops sleep dt,
  exists fired nw,
    log (tick false env uenv sleep dt (run_ops false env uenv ops)) = nw ++ log (run_ops false env uenv ops) /\
    map okey (filter is_tfire nw) = rev (map wkey fired) /\ ksorted fired.
Proof.
  intros ops sleep dt.
  destruct (sim_run_ops env uenv ops) as [_ Hwf]. destruct (reach false env uenv ops) as [[HI [Et Er]] _].
  pose proof (KS_run_ops ops) as Hks.
  set (s := run_ops false env uenv ops) in *.
  destruct (tick_unfold sleep dt s Hwf Et Er) as [s3 [msec [E [H3 [Et3 [Er3 [T3 [L3 I3]]]]]]]].
  assert (Id : Inv (detached s3)).
  { destruct (I3 HI) as [Htk Hrt Hot Hlog]. constructor.
    - unfold detached. cbn [timers]. apply Forall_forall. intros v Hv. apply filter_In in Hv.
      rewrite Forall_forall in Htk. apply Htk. tauto.
    - unfold detached. cbn [run_timers now]. apply Forall_forall. intros v Hv. apply filter_In in Hv. destruct Hv as [Hv Hx].
      rewrite Forall_forall in Htk. split; [apply Htk; exact Hv|apply Z.leb_le; exact Hx].
    - unfold others, detached in *. cbn [laters run_laters ios sigs procs]. rewrite Er3 in Hot.
      rewrite !Forall_app in *. destruct Hot as [Hla [_ Hrest]]. split; [constructor|]. split; [exact Hla|exact Hrest].
    - exact Hlog. }
  destruct (finish_fired (length (run_timers (detached s3)) + length (run_laters (detached s3))) (detached s3) Id (le_n _))
    as [fired [nw [S1 [Lg Ky]]]].
  exists fired, (nw ++ [OPoll msec]). split; [|split].
  - rewrite E, Lg. replace (log (detached s3)) with (log s3) by reflexivity. rewrite L3, <- app_assoc. reflexivity.
  - rewrite filter_app. cbn [filter is_tfire]. rewrite app_nil_r. exact Ky.
  - eapply ksorted_subseq; [exact S1|]. unfold detached. cbn [run_timers].
    eapply ksorted_subseq; [apply filter_subseq|]. rewrite T3. exact Hks.
Qed.

End Order.
