(* WinInput.v -- model of input routing in src/window.c: _handle_key, _handle_mouse and the
   drag state machine of on_term_mouse (property C14).

   Handlers may close or destroy windows while the routing recursion is running, so the
   recursion cannot be structural on the tree: it looks windows up by id in the CURRENT state
   and carries fuel.  Closed windows stay around as detached subtrees ([r_orphans]);
   destroyed windows are remembered in [i_freed] and any access to one makes the run faulty
   -- the model's rendering of a use-after-free.

   Lifetimes as the harness arranges them: every window has its creation reference and one
   reference held by the harness; the routing code holds one more per active _handle_key /
   _handle_mouse frame ([i_holds]).  "Destroy" drops the two base references: the window is
   freed at once unless a frame holds it, and then when that frame exits.

   [d_route_unsafe] selects the pinned iteration (a `next` pointer saved before each call)
   instead of the repaired one: a COPY of the child list (plain pointers, no references),
   each entry checked -- by address only -- to be still a child before it is touched.
   [d_drag_stale] selects the pinned drag bookkeeping (the source pointer is kept whatever
   happens to the window) instead of the repaired one (a source that is not in the tree is
   not remembered, and closing a window makes the root forget a source at or below it). *)
From Coq Require Import ZArith List Bool.
From Tickit Require Import RectDefs WinRectSet WinDefs.
Import ListNotations.
Local Open Scope Z_scope.

(* an input event as a handler sees it *)
Inductive iev :=
| IKey (w : Z)
| IMouse (w : Z) (ty btn line col : Z).      (* ty: 1 press 2 drag 3 release 4 wheel 5 start 6 outside 7 drop 8 stop *)

Record istate := mkI {
  i_root : root;
  i_freed : list Z;
  i_holds : list Z;                       (* references held by the routing code (a multiset) *)
  i_pending : list Z;                     (* destroyed by a handler while held *)
  i_armed : list (Z * (Z * Z * Z));       (* window -> (class, action, target): one-shot mutations *)
  i_log : list iev;                       (* deliveries, latest first *)
  i_fault : bool }.

Definition i_set_root (s : istate) (r : root) : istate :=
  mkI r (i_freed s) (i_holds s) (i_pending s) (i_armed s) (i_log s) (i_fault s).
Definition i_faulty (s : istate) : istate :=
  mkI (i_root s) (i_freed s) (i_holds s) (i_pending s) (i_armed s) (i_log s) true.

Definition mem (x : Z) (l : list Z) : bool := existsb (fun y => y =? x) l.

(* ---- the forest: the tree and the detached subtrees ---- *)
Definition forest (st : root) : list wtree := r_tree st :: r_orphans st.

Fixpoint first_some {A B} (f : A -> option B) (l : list A) : option B :=
  match l with
  | [] => None
  | x :: r => match f x with Some y => Some y | None => first_some f r end
  end.

Definition f_find (st : root) (id : Z) : option wtree := first_some (t_find id) (forest st).

(* the node whose child list contains id *)
Fixpoint t_parent_node (id : Z) (t : wtree) : option wtree :=
  match t with
  | Node i ch =>
    if existsb (fun c => t_id c =? id) ch then Some t else
    (fix go (l : list wtree) : option wtree :=
       match l with
       | [] => None
       | c :: r => match t_parent_node id c with Some x => Some x | None => go r end
       end) ch
  end.

(* win->parent *)
Definition f_parent (st : root) (id : Z) : option Z :=
  match first_some (t_parent_node id) (forest st) with
  | Some p => Some (t_id p)
  | None => None
  end.

Fixpoint after (id : Z) (l : list wtree) : option Z :=
  match l with
  | [] => None
  | c :: r => if t_id c =? id then match r with [] => None | n :: _ => Some (t_id n) end else after id r
  end.

(* win->next *)
Definition next_sib (st : root) (id : Z) : option Z :=
  match first_some (t_parent_node id) (forest st) with
  | Some p => after id (t_kids p)
  | None => None
  end.

(* tickit_window_get_abs_geometry: top/left summed along ->parent as far as it goes *)
Definition f_abs_origin (st : root) (id : Z) : option (Z * Z) :=
  match first_some (t_path id) (forest st) with
  | Some p => Some (fold_left (fun acc w => (fst acc + top (w_rect (t_info w)), snd acc + left (w_rect (t_info w)))) p (0, 0))
  | None => None
  end.

(* is_visible of the window and of everything above it, along ->parent as far as it goes *)
Definition f_path_visible (st : root) (id : Z) : bool :=
  match first_some (t_path id) (forest st) with
  | Some p => forallb (fun w => w_vis (t_info w)) p
  | None => true
  end.

(* reading a window: None = the window is freed (or unknown): a use after free *)
Definition look (s : istate) (id : Z) : option wtree :=
  if mem id (i_freed s) then None else f_find (i_root s) id.

(* ---- references and destruction ---- *)
(* tickit_window_destroy of a closed window: its children become detached roots *)
Definition destroy_now (s : istate) (id : Z) : istate :=
  let st := i_root s in
  let orph := flat_map (fun t => if t_id t =? id then t_kids t else [t]) (r_orphans st) in
  mkI (set_orphans st orph) (id :: i_freed s) (i_holds s) (i_pending s) (i_armed s) (i_log s) (i_fault s).

Definition hold (s : istate) (id : Z) : istate :=
  mkI (i_root s) (i_freed s) (id :: i_holds s) (i_pending s) (i_armed s) (i_log s) (i_fault s).

Fixpoint remove_one (x : Z) (l : list Z) : list Z :=
  match l with
  | [] => []
  | y :: r => if y =? x then r else y :: remove_one x r
  end.

(* tickit_window_unref by the routing code *)
Definition release (s : istate) (id : Z) : istate :=
  let hs := remove_one id (i_holds s) in
  if mem id (i_pending s) && negb (mem id hs) then
    destroy_now (mkI (i_root s) (i_freed s) hs (remove_one id (i_pending s)) (i_armed s) (i_log s) (i_fault s)) id
  else mkI (i_root s) (i_freed s) hs (i_pending s) (i_armed s) (i_log s) (i_fault s).

Definition hold_all (s : istate) (l : list Z) : istate := fold_left hold l s.
Definition release_all (s : istate) (l : list Z) : istate := fold_left release l s.

(* ---- a handler runs: log, scripted mutation, claim ---- *)
Definition ev_class (e : iev) : Z := match e with IKey _ => 0 | IMouse _ _ _ _ _ => 1 end.
Definition ev_bit (e : iev) : Z := match e with IKey _ => 0 | IMouse _ ty _ _ _ => ty end.

Fixpoint armed_take (w cls : Z) (l : list (Z * (Z * Z * Z))) : option (Z * Z) * list (Z * (Z * Z * Z)) :=
  match l with
  | [] => (None, [])
  | (w', (c, a, t)) :: r =>
    if (w' =? w) && (c =? cls) then (Some (a, t), r)
    else let '(x, r') := armed_take w cls r in (x, (w', (c, a, t)) :: r')
  end.

Definition run_handler (cfg : defects) (claims : Z -> Z) (s : istate) (w : Z) (e : iev) : istate * bool :=
  let s1 := mkI (i_root s) (i_freed s) (i_holds s) (i_pending s) (i_armed s) (e :: i_log s) (i_fault s) in
  let claim := Z.testbit (claims w) (ev_bit e) in
  let '(mu, armed') := armed_take w (ev_class e) (i_armed s1) in
  let s2 := mkI (i_root s1) (i_freed s1) (i_holds s1) (i_pending s1) armed' (i_log s1) (i_fault s1) in
  match mu with
  | None => (s2, claim)
  | Some (act, tgt) =>
    (* only windows still in the tree (and not the root) are touched *)
    match t_find tgt (r_tree (i_root s2)) with
    | None => (s2, claim)
    | Some _ =>
      if tgt =? t_id (r_tree (i_root s2)) then (s2, claim) else
      let s3 := i_set_root s2 (win_close cfg (i_root s2) tgt) in
      if act =? 2 then
        if mem tgt (i_holds s3)
        then (mkI (i_root s3) (i_freed s3) (i_holds s3) (tgt :: i_pending s3) (i_armed s3) (i_log s3) (i_fault s3), claim)
        else (destroy_now s3 tgt, claim)
      else (s3, claim)
    end
  end.

Definition opt_is (a : option Z) (b : option Z) : bool :=
  match a, b with Some x, Some y => x =? y | _, _ => false end.

Definition kid_ids (s : istate) (w : Z) : list Z :=
  match look s w with Some n => map t_id (t_kids n) | None => [] end.
Definition first_kid (s : istate) (w : Z) : option Z :=
  match kid_ids s w with c :: _ => Some c | [] => None end.
Definition fchild_of (s : istate) (w : Z) : option Z :=
  match look s w with Some n => w_fchild (t_info n) | None => None end.

(* ---- _handle_key ---- *)
Fixpoint handle_key (fuel : nat) (cfg : defects) (claims : Z -> Z) (s : istate) (w : Z) : istate * bool :=
  match fuel with
  | O => (i_faulty s, false)
  | S f =>
    match look s w with
    | None => (i_faulty s, false)
    | Some wn =>
      if negb (w_vis (t_info wn)) then (s, false) else
      let s := hold s w in
      (* a stealing first child *)
      let '(s1, r1, stolen) :=
        match t_kids wn with
        | c :: _ => if w_steal (t_info c) then let '(s', r) := handle_key f cfg claims s (t_id c) in (s', r, Some (t_id c))
                    else (s, false, None)
        | [] => (s, false, None)
        end in
      if r1 then (release s1 w, true) else
      (* the focused child, read now *)
      let '(s2, r2) :=
        match fchild_of s1 w with
        | Some k => if negb (d_key_twice cfg) && opt_is stolen (Some k) then (s1, false)
                    else handle_key f cfg claims s1 k
        | None => (s1, false)
        end in
      if r2 then (release s2 w, true) else
      (* own handlers *)
      let '(s3, r3) := run_handler cfg claims s2 w (IKey w) in
      if r3 then (release s3 w, true) else
      (* the other children *)
      let skip (s : istate) (c : Z) : bool :=
        opt_is (fchild_of s w) (Some c) || (negb (d_key_twice cfg) && opt_is stolen (Some c)) in
      let '(s4, r4) :=
        if d_route_unsafe cfg then
          (* child = win->first_child now; next = child->next before each call *)
          (fix loop (g : nat) (s : istate) (child : option Z) : istate * bool :=
             match g with
             | O => (i_faulty s, false)
             | S g' =>
               match child with
               | None => (s, false)
               | Some c =>
                 match look s c with
                 | None => (i_faulty s, false)          (* child->next of a freed window *)
                 | Some _ =>
                   let nxt := next_sib (i_root s) c in
                   if skip s c then loop g' s nxt
                   else
                     let '(s', r) := handle_key f cfg claims s c in
                     if r then (s', true) else loop g' s' nxt
                 end
               end
             end) f s3 (first_kid s3 w)
        else
          (* a copy of the child list; an entry that is no longer a child is skipped unread *)
          let snap := kid_ids s3 w in
          let '(s', r) :=
            (fix loop (s : istate) (l : list Z) : istate * bool :=
               match l with
               | [] => (s, false)
               | c :: rest =>
                 if negb (opt_is (f_parent (i_root s) c) (Some w)) then loop s rest   (* closed meanwhile *)
                 else if skip s c then loop s rest
                 else
                   let '(s', r) := handle_key f cfg claims s c in
                   if r then (s', true) else loop s' rest
               end) s3 snap in
          (s', r) in
      (release s4 w, r4)
    end
  end.

(* ---- _handle_mouse: returns the window that handled the event (in the repaired code with a
   reference of its own, which the caller releases) ---- *)
Fixpoint handle_mouse (fuel : nat) (cfg : defects) (claims : Z -> Z) (s : istate) (w : Z)
  (ty btn line col : Z) : istate * option Z :=
  match fuel with
  | O => (i_faulty s, None)
  | S f =>
    match look s w with
    | None => (i_faulty s, None)
    | Some wn =>
      if negb (w_vis (t_info wn)) then (s, None) else
      let s := hold s w in
      let try_child (s : istate) (cn : wtree) : option (Z * Z) :=
        let ci := t_info cn in
        let cl := line - top (w_rect ci) in
        let cc := col - left (w_rect ci) in
        if negb (w_steal ci) &&
           ((cl <? 0) || (cl >=? lines (w_rect ci)) || (cc <? 0) || (cc >=? cols (w_rect ci)))
        then None else Some (cl, cc) in
      let '(s1, r1) :=
        if d_route_unsafe cfg then
          (fix loop (g : nat) (s : istate) (child : option Z) : istate * option Z :=
             match g with
             | O => (i_faulty s, None)
             | S g' =>
               match child with
               | None => (s, None)
               | Some c =>
                 match look s c with
                 | None => (i_faulty s, None)
                 | Some cn =>
                   let nxt := next_sib (i_root s) c in
                   match try_child s cn with
                   | None => loop g' s nxt
                   | Some (cl, cc) =>
                     let '(s', r) := handle_mouse f cfg claims s c ty btn cl cc in
                     match r with Some x => (s', Some x) | None => loop g' s' nxt end
                   end
                 end
               end
             end) f s (first_kid s w)
        else
          let snap := kid_ids s w in
          let '(s', r) :=
            (fix loop (s : istate) (l : list Z) : istate * option Z :=
               match l with
               | [] => (s, None)
               | c :: rest =>
                 if negb (opt_is (f_parent (i_root s) c) (Some w)) then loop s rest
                 else
                   match look s c with
                   | None => (i_faulty s, None)
                   | Some cn =>
                     match try_child s cn with
                     | None => loop s rest
                     | Some (cl, cc) =>
                       let '(s', r) := handle_mouse f cfg claims s c ty btn cl cc in
                       match r with Some x => (s', Some x) | None => loop s' rest end
                     end
                   end
               end) s snap in
          (s', r) in
      match r1 with
      | Some x => (release s1 w, Some x)
      | None =>
        let '(s2, r2) := run_handler cfg claims s1 w (IMouse w ty btn line col) in
        (release s2 w, if r2 then Some w else None)
      end
    end
  end.

Definition ifuel : nat := 64.

(* on_term_key *)
Definition term_key (cfg : defects) (claims : Z -> Z) (s : istate) : istate :=
  fst (handle_key ifuel cfg claims s (t_id (r_tree (i_root s)))).

(* on_term_mouse; ty in 1..4 *)
Definition term_mouse (cfg : defects) (claims : Z -> Z) (s : istate) (ty btn line col : Z) : istate :=
  let rootid := t_id (r_tree (i_root s)) in
  let st := i_root s in
  (* to the drag source: its absolute geometry is read first *)
  let to_source (s : istate) (ty' : Z) : istate :=
    match r_dsrc (i_root s) with
    | None => s
    | Some src =>
      match (if mem src (i_freed s) then None else f_abs_origin (i_root s) src) with
      | None => i_faulty s
      | Some o =>
        (* _handle_mouse_at: nothing to a window below a hidden one *)
        if f_path_visible (i_root s) src
        then fst (handle_mouse ifuel cfg claims s src ty' btn (line - fst o) (col - snd o))
        else s
      end
    end in
  let s1 :=
    if ty =? 1 then i_set_root s (set_drag st (r_dragging st) btn line col (r_dsrc st))
    else if (ty =? 2) && negb (r_dragging st) then
      let '(s', src) := handle_mouse ifuel cfg claims s rootid 5 (r_lbtn st) (r_lline st) (r_lcol st) in
      let st' := i_root s' in
      (* the handler may have closed or destroyed the window it ran on: only a window that is
         (by address) still in the tree is remembered *)
      let src' := match src with
                  | Some x => if d_drag_stale cfg then Some x
                              else match t_find x (r_tree st') with Some _ => Some x | None => None end
                  | None => None
                  end in
      i_set_root s' (set_drag st' true (r_lbtn st') (r_lline st') (r_lcol st') src')
    else if (ty =? 3) && r_dragging st then
      let '(s', _) := handle_mouse ifuel cfg claims s rootid 7 btn line col in
      let s'' := to_source s' 8 in
      let st'' := i_root s'' in
      i_set_root s'' (set_drag st'' false (r_lbtn st'') (r_lline st'') (r_lcol st'') (r_dsrc st''))
    else s in
  let '(s2, handled) := handle_mouse ifuel cfg claims s1 rootid ty btn line col in
  if (ty =? 2) &&
     match r_dsrc (i_root s2) with
     | Some src => negb (opt_is handled (Some src))
     | None => false
     end
  then to_source s2 6 else s2.
