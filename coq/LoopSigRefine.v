(* LoopSigRefine.v -- the iteration model of the repaired default event loop (LoopSigDefs.v,
   fixed_cfg: slot table with revents, handler's pending set, errno, cursor walk) REFINES the
   snapshot specification (LoopSigSpec.v): for every script and every ppoll outcome stream
   the two produce the same log, and the model never takes one of its "cannot happen"
   branches (it answers None only when it is given too little fuel).

   Part 1 (this file): abstraction function, state invariant, the actions.
   Hypothesis on the callbacks (act_ok): registered descriptors are real (0 <= fd).  Callbacks may
   cancel and register what they like, watches of the signal being dispatched included: a
   watch registered while the walk of tickit_evloop_invoke_sigwatches is under way is passed
   over by that walk (fixes/C18-sigwatch-walk-snapshot.patch), as the specification demands --
   it was not watching when the signal was delivered. *)
From Coq Require Import ZArith List Bool Lia.
From Tickit Require Import LoopDefs LoopSigDefs LoopSigProofs LoopSigIO LoopSigSpec.
Import ListNotations.
Local Open Scope Z_scope.

(* ------------------------------------------------------------------ lists *)

Inductive subl : list Z -> list Z -> Prop :=
| subl_nil : forall l, subl [] l
| subl_skip : forall a l1 l2, subl l1 l2 -> subl l1 (a :: l2)
| subl_take : forall a l1 l2, subl l1 l2 -> subl (a :: l1) (a :: l2).

Lemma subl_refl : forall l, subl l l.
Proof. induction l; [constructor|apply subl_take; assumption]. Qed.

Lemma subl_in : forall a b x, subl a b -> In x a -> In x b.
Proof.
  intros a b x H. induction H; intros Hin; [destruct Hin|right; auto|].
  destruct Hin as [E|Hin]; [left; exact E|right; auto].
Qed.

Lemma subl_trans : forall a b c, subl a b -> subl b c -> subl a c.
Proof.
  intros a b c H1 H2. revert a H1. induction H2; intros x H1.
  - inversion H1; subst. constructor.
  - constructor. apply IHsubl. exact H1.
  - inversion H1; subst; [constructor|apply subl_skip; apply IHsubl; assumption|apply subl_take; apply IHsubl; assumption].
Qed.

Lemma subl_nodup : forall a b, subl a b -> NoDup b -> NoDup a.
Proof.
  intros a b H. induction H; intros Hnd; [constructor| |].
  - inversion Hnd; subst. auto.
  - inversion Hnd as [|? ? Hn Ht]; subst. constructor; [|auto].
    intros Hin. apply Hn. eapply subl_in; eassumption.
Qed.

Lemma subl_app : forall a b c d, subl a b -> subl c d -> subl (a ++ c) (b ++ d).
Proof.
  intros a b c d H1 H2. induction H1; cbn [app].
  - induction l as [|h t IH]; [exact H2|cbn [app]; constructor; exact IH].
  - apply subl_skip. exact IHsubl.
  - apply subl_take. exact IHsubl.
Qed.

Lemma subl_nil_inv : forall a, subl a [] -> a = [].
Proof. intros a H. inversion H. reflexivity. Qed.

(* the head of the larger list: either it heads the smaller one too, or it does not occur in it *)
Lemma subl_cons_inv : forall a i r, subl a (i :: r) -> NoDup (i :: r) ->
  (exists a', a = i :: a' /\ subl a' r) \/ (~ In i a /\ subl a r).
Proof.
  intros a i r H Hnd. inversion Hnd as [|? ? Hn Ht]; subst. inversion H; subst.
  - right. split; [intros []|constructor].
  - right. split; [|assumption]. intros Hin. apply Hn. eapply subl_in; eassumption.
  - left. eexists. split; [reflexivity|assumption].
Qed.

Lemma memz_in : forall x l, memz x l = true <-> In x l.
Proof.
  intros x l. unfold memz. rewrite existsb_exists. split.
  - intros [y [Hy E]]. apply Z.eqb_eq in E. subst. exact Hy.
  - intros H. exists x. split; [exact H|apply Z.eqb_refl].
Qed.

Lemma list_eq_nth_error : forall {A} (l l' : list A), (forall i, nth_error l i = nth_error l' i) -> l = l'.
Proof.
  induction l as [|h t IH]; intros l' H.
  - destruct l' as [|h' t']; [reflexivity|]. specialize (H O). discriminate.
  - destruct l' as [|h' t']; [specialize (H O); discriminate|].
    pose proof (H O) as H0. cbn in H0. inversion H0; subst. f_equal. apply IH. intros i. exact (H (S i)).
Qed.

(* ------------------------------------------------------------------ find / remove on the three watch lists *)

Lemma subl_remove_sgw : forall id l, subl (map g_id (remove_sgw id l)) (map g_id l).
Proof.
  induction l as [|h t IH]; [constructor|]. cbn [remove_sgw map]. destruct (g_id h =? id).
  - apply subl_skip. apply subl_refl.
  - cbn [map]. apply subl_take. exact IH.
Qed.
Lemma subl_remove_ltr : forall id l, subl (map l_id (remove_ltr id l)) (map l_id l).
Proof.
  induction l as [|h t IH]; [constructor|]. cbn [remove_ltr map]. destruct (l_id h =? id).
  - apply subl_skip. apply subl_refl.
  - cbn [map]. apply subl_take. exact IH.
Qed.

Lemma find_ltr_none : forall id l, ~ In id (map l_id l) -> find_ltr id l = None.
Proof.
  induction l as [|h t IH]; intros H; [reflexivity|]. cbn [find_ltr]. destruct (l_id h =? id) eqn:E.
  - exfalso. apply H. left. apply Z.eqb_eq. exact E.
  - apply IH. intros Hin. apply H. right. exact Hin.
Qed.
Lemma find_ltr_some : forall id l w, find_ltr id l = Some w -> l_id w = id /\ In w l.
Proof.
  induction l as [|h t IH]; intros w H; [discriminate|]. cbn [find_ltr] in H. destruct (l_id h =? id) eqn:E.
  - inversion H; subst. split; [apply Z.eqb_eq; exact E|left; reflexivity].
  - destruct (IH w H) as [A B]. split; [exact A|right; exact B].
Qed.
Lemma find_ltr_app : forall id a b, find_ltr id (a ++ b) = match find_ltr id a with Some w => Some w | None => find_ltr id b end.
Proof.
  induction a as [|h t IH]; intros b; [reflexivity|]. cbn [app find_ltr]. destruct (l_id h =? id); [reflexivity|apply IH].
Qed.
Lemma remove_ltr_none : forall id l, find_ltr id l = None -> remove_ltr id l = l.
Proof.
  induction l as [|h t IH]; intros H; [reflexivity|]. cbn [find_ltr] in H. cbn [remove_ltr].
  destruct (l_id h =? id); [discriminate|]. f_equal. apply IH. exact H.
Qed.
Lemma remove_ltr_app : forall id a b, remove_ltr id (a ++ b) =
  match find_ltr id a with Some _ => remove_ltr id a ++ b | None => a ++ remove_ltr id b end.
Proof.
  induction a as [|h t IH]; intros b; [reflexivity|]. cbn [app find_ltr remove_ltr]. destruct (l_id h =? id); [reflexivity|].
  rewrite IH. destruct (find_ltr id t); reflexivity.
Qed.

Lemma find_sgw_none : forall id l, ~ In id (map g_id l) -> find_sgw id l = None.
Proof.
  induction l as [|h t IH]; intros H; [reflexivity|]. cbn [find_sgw]. destruct (g_id h =? id) eqn:E.
  - exfalso. apply H. left. apply Z.eqb_eq. exact E.
  - apply IH. intros Hin. apply H. right. exact Hin.
Qed.
Lemma find_sgw_some : forall id l w, find_sgw id l = Some w -> g_id w = id /\ In w l.
Proof.
  induction l as [|h t IH]; intros w H; [discriminate|]. cbn [find_sgw] in H. destruct (g_id h =? id) eqn:E.
  - inversion H; subst. split; [apply Z.eqb_eq; exact E|left; reflexivity].
  - destruct (IH w H) as [A B]. split; [exact A|right; exact B].
Qed.
Lemma find_sgw_in_nodup : forall l w, NoDup (map g_id l) -> In w l -> find_sgw (g_id w) l = Some w.
Proof.
  induction l as [|h t IH]; intros w Hnd Hin; [destruct Hin|]. cbn [map] in Hnd. inversion Hnd as [|? ? Hn Ht]; subst.
  cbn [find_sgw]. destruct Hin as [E|Hin].
  - subst. rewrite Z.eqb_refl. reflexivity.
  - destruct (g_id h =? g_id w) eqn:E.
    + exfalso. apply Hn. apply Z.eqb_eq in E. rewrite E. apply in_map. exact Hin.
    + apply IH; assumption.
Qed.

Lemma find_iow_none : forall id l, ~ In id (map i_id l) -> find_iow id l = None.
Proof.
  induction l as [|h t IH]; intros H; [reflexivity|]. cbn [find_iow]. destruct (i_id h =? id) eqn:E.
  - exfalso. apply H. left. apply Z.eqb_eq. exact E.
  - apply IH. intros Hin. apply H. right. exact Hin.
Qed.
Lemma find_iow_some : forall id l w, find_iow id l = Some w -> i_id w = id /\ In w l.
Proof.
  induction l as [|h t IH]; intros w H; [discriminate|]. cbn [find_iow] in H. destruct (i_id h =? id) eqn:E.
  - inversion H; subst. split; [apply Z.eqb_eq; exact E|left; reflexivity].
  - destruct (IH w H) as [A B]. split; [exact A|right; exact B].
Qed.
Lemma find_iow_in_nodup : forall l w, NoDup (map i_id l) -> In w l -> find_iow (i_id w) l = Some w.
Proof.
  induction l as [|h t IH]; intros w Hnd Hin; [destruct Hin|]. cbn [map] in Hnd. inversion Hnd as [|? ? Hn Ht]; subst.
  cbn [find_iow]. destruct Hin as [E|Hin].
  - subst. rewrite Z.eqb_refl. reflexivity.
  - destruct (i_id h =? i_id w) eqn:E.
    + exfalso. apply Hn. apply Z.eqb_eq in E. rewrite E. apply in_map. exact Hin.
    + apply IH; assumption.
Qed.

(* ------------------------------------------------------------------ the abstraction *)

Definition xio_of (sl : list slot) (w : iow) : xio :=
  mkXio (i_id w) (i_fd w) (match nth_error sl (i_slot w) with Some p => p_events p | None => 0 end) (i_unbind w) (i_cb w).
Definition tab_of (sl : list slot) : list (option Z) :=
  map (fun p => if p_fd p =? -1 then None else Some (p_watch p)) sl.

Definition xabs (s : sst) : xst :=
  mkX (map (xio_of (slots s)) (iows s)) (tab_of (slots s)) (sgws s) (drun s ++ dlaters s)
      (kpend s) (ready s) (inwait s) (snext s) (siter s) (slog s) (running s).

Lemma find_xio_map : forall sl id l, find_xio id (map (xio_of sl) l) = option_map (xio_of sl) (find_iow id l).
Proof.
  induction l as [|h t IH]; [reflexivity|]. cbn [map find_xio find_iow]. change (xi_id (xio_of sl h)) with (i_id h).
  destruct (i_id h =? id); [reflexivity|exact IH].
Qed.
Lemma remove_xio_map : forall sl id l, remove_xio id (map (xio_of sl) l) = map (xio_of sl) (remove_iow id l).
Proof.
  induction l as [|h t IH]; [reflexivity|]. cbn [map remove_xio remove_iow]. change (xi_id (xio_of sl h)) with (i_id h).
  destruct (i_id h =? id); [reflexivity|]. cbn [map]. f_equal. exact IH.
Qed.

(* a slot table that differs only in fd / revents / watch fields asks for the same events *)
Lemma xio_of_ext : forall sl sl' l,
  (forall w, In w l -> match nth_error sl' (i_slot w) with Some p => p_events p | None => 0 end =
                       match nth_error sl (i_slot w) with Some p => p_events p | None => 0 end) ->
  map (xio_of sl') l = map (xio_of sl) l.
Proof.
  intros sl sl' l H. apply map_ext_in. intros w Hin. unfold xio_of. rewrite (H w Hin). reflexivity.
Qed.

(* ------------------------------------------------------------------ the invariant *)

Section Refine.
Variable env : Z -> list saction.

Definition act_ok (a : saction) : Prop :=
  match a with
  | SIo fd _ _ _ => 0 <= fd
  | _ => True
  end.
Definition env_ok : Prop := forall cb, Forall act_ok (env cb).

Lemma act_ok_fds : forall a, act_ok a -> fds_ok a.
Proof. intros a H. destruct a; cbn in *; auto. Qed.

Record J (s : sst) : Prop := mkJ {
  J_tw : TW s;
  J_sgnd : NoDup (map g_id (sgws s));
  J_ltnd : NoDup (map l_id (drun s ++ dlaters s));
  J_sglt : forall w, In w (sgws s) -> g_id w < snext s;
  J_ltlt : forall w, In w (drun s ++ dlaters s) -> l_id w < snext s;
  J_io : forall w, In w (iows s) ->
         exists sl, nth_error (slots s) (i_slot w) = Some sl /\ p_fd sl = i_fd w /\ p_watch sl = i_id w /\ 0 <= i_fd w;
  J_nn : 0 <= snext s }.

(* what tickit_watch_cancel does, field by field *)
Definition same_but_log (s s' : sst) : Prop :=
  kpend s' = kpend s /\ pending s' = pending s /\ errno s' = errno s /\ ready s' = ready s /\
  inwait s' = inwait s /\ snext s' = snext s /\ siter s' = siter s /\ running s' = running s.

Inductive cancel_case (s : sst) (id : Z) (s' : sst) : Prop :=
| cc_io : forall w sl, find_iow id (iows s) = Some w -> nth_error (slots s) (i_slot w) = Some sl ->
    iows s' = remove_iow id (iows s) ->
    slots s' = set_nth (slots s) (i_slot w) (mkSlot (-1) (p_events sl) (p_revents sl) (-1)) ->
    sgws s' = sgws s -> dlaters s' = dlaters s -> drun s' = drun s -> cursor s' = cursor s ->
    slog s' = (if i_unbind w then [OEv (mkE id KIo EV_UNBIND (siter s) 0 0)] else []) ++ slog s ->
    cancel_case s id s'
| cc_sig : forall w, find_iow id (iows s) = None -> find_sgw id (sgws s) = Some w -> memz (g_sig w) (kpend s) = false ->
    iows s' = iows s -> slots s' = slots s -> sgws s' = remove_sgw id (sgws s) ->
    dlaters s' = dlaters s -> drun s' = drun s ->
    cursor s' = (match cursor s with Some cu => if cu =? id then sgw_after id (sgws s) else cursor s | None => None end) ->
    slog s' = (if g_unbind w then [OEv (mkE id KSig EV_UNBIND (siter s) 0 (g_sig w))] else []) ++ slog s ->
    cancel_case s id s'
| cc_dl : forall w, find_iow id (iows s) = None -> find_sgw id (sgws s) = None -> find_ltr id (dlaters s) = Some w ->
    iows s' = iows s -> slots s' = slots s -> sgws s' = sgws s ->
    dlaters s' = remove_ltr id (dlaters s) -> drun s' = drun s -> cursor s' = cursor s ->
    slog s' = (if l_unbind w then [OEv (mkE id KLater EV_UNBIND (siter s) 0 0)] else []) ++ slog s ->
    cancel_case s id s'
| cc_dr : forall w, find_iow id (iows s) = None -> find_sgw id (sgws s) = None -> find_ltr id (dlaters s) = None ->
    find_ltr id (drun s) = Some w ->
    iows s' = iows s -> slots s' = slots s -> sgws s' = sgws s ->
    dlaters s' = dlaters s -> drun s' = remove_ltr id (drun s) -> cursor s' = cursor s ->
    slog s' = (if l_unbind w then [OEv (mkE id KLater EV_UNBIND (siter s) 0 0)] else []) ++ slog s ->
    cancel_case s id s'
| cc_none : s' = s ->
    (find_iow id (iows s) = None /\
     ((exists w, find_sgw id (sgws s) = Some w /\ memz (g_sig w) (kpend s) = true) \/
      (find_sgw id (sgws s) = None /\ find_ltr id (dlaters s) = None /\ find_ltr id (drun s) = None))) ->
    cancel_case s id s'.

Lemma scancel_cases : forall s id, J s -> same_but_log s (scancel s id) /\ cancel_case s id (scancel s id).
Proof.
  intros s id HJ. unfold scancel.
  destruct (find_iow id (iows s)) as [w|] eqn:Eio.
  - destruct (find_iow_some _ _ _ Eio) as [Hid Hin]. destruct (J_io s HJ w Hin) as [sl [Hn _]].
    unfold evloop_cancel_io.
    destruct (i_unbind w) eqn:Eu; cbn [slots semit up_slog up_iows]; rewrite Hn.
    + split; [repeat split|]. eapply cc_io; try eassumption; try reflexivity. rewrite Eu. reflexivity.
    + split; [repeat split|]. eapply cc_io; try eassumption; try reflexivity. rewrite Eu. reflexivity.
  - destruct (find_sgw id (sgws s)) as [w|] eqn:Esg.
    + destruct (memz (g_sig w) (kpend s)) eqn:Ek.
      * split; [repeat split|]. apply cc_none; [reflexivity|]. split; [exact Eio|]. left. exists w. split; [exact Esg|exact Ek].
      * cbn [cursor up_sgws]. destruct (cursor s) as [cu|] eqn:Ec.
        -- destruct (cu =? id) eqn:Ecu; destruct (g_unbind w) eqn:Eu; (split; [repeat split|]);
             eapply cc_sig; try eassumption; try reflexivity; cbn; rewrite ?Ec, ?Ecu, ?Eu; reflexivity.
        -- destruct (g_unbind w) eqn:Eu; (split; [repeat split|]);
             eapply cc_sig; try eassumption; try reflexivity; cbn; rewrite ?Ec, ?Eu; reflexivity.
    + destruct (find_ltr id (dlaters s)) as [w|] eqn:Edl.
      * destruct (l_unbind w) eqn:Eu; (split; [repeat split|]);
          eapply cc_dl; try eassumption; try reflexivity; cbn; rewrite ?Eu; reflexivity.
      * destruct (find_ltr id (drun s)) as [w|] eqn:Edr.
        -- destruct (l_unbind w) eqn:Eu; (split; [repeat split|]);
             eapply cc_dr; try eassumption; try reflexivity; cbn; rewrite ?Eu; reflexivity.
        -- split; [repeat split|]. apply cc_none; [reflexivity|]. split; [exact Eio|]. right. repeat split; assumption.
Qed.


(* ------------------------------------------------------------------ the slot table and the specification's table *)

Lemma tab_put_free : forall l k i fd ev rv id, find_free l k = Some i -> fd <> -1 ->
  tab_of (set_nth l (i - k) (mkSlot fd ev rv id)) = tab_put (tab_of l) id.
Proof.
  unfold tab_of. induction l as [|h t IH]; intros k i fd ev rv id H Hfd; [discriminate|].
  cbn [find_free] in H. destruct (p_fd h =? -1) eqn:E.
  - inversion H; subst. rewrite Nat.sub_diag. cbn [set_nth map]. rewrite E. cbn [p_fd p_watch tab_put].
    destruct (fd =? -1) eqn:E2; [apply Z.eqb_eq in E2; contradiction|]. reflexivity.
  - pose proof (find_free_bound _ _ _ H) as B. replace (i - k)%nat with (S (i - S k)) by lia.
    cbn [set_nth map]. rewrite E. cbn [tab_put]. f_equal. apply (IH (S k)); assumption.
Qed.

Lemma tab_put_full : forall l k fd ev rv id, find_free l k = None -> fd <> -1 ->
  tab_of (l ++ [mkSlot fd ev rv id]) = tab_put (tab_of l) id.
Proof.
  unfold tab_of. induction l as [|h t IH]; intros k fd ev rv id H Hfd.
  - cbn. destruct (fd =? -1) eqn:E2; [apply Z.eqb_eq in E2; contradiction|]. reflexivity.
  - cbn [find_free] in H. destruct (p_fd h =? -1) eqn:E; [discriminate|].
    cbn [app map]. rewrite E. cbn [tab_put]. f_equal. apply (IH (S k)); assumption.
Qed.

Lemma tab_del_slot : forall l i sl id a b c, nth_error l i = Some sl -> p_fd sl <> -1 -> p_watch sl = id ->
  (forall j sl', nth_error l j = Some sl' -> p_fd sl' <> -1 -> p_watch sl' = id -> j = i) ->
  tab_of (set_nth l i (mkSlot (-1) a b c)) = tab_del (tab_of l) id.
Proof.
  intros l i sl id a b c Hn Hfd Hw Hu. apply list_eq_nth_error. intros j.
  unfold tab_of, tab_del. rewrite !nth_error_map, nth_error_set_nth.
  destruct (Nat.eqb i j) eqn:Eij.
  - apply Nat.eqb_eq in Eij. subst j.
    assert (Hlt : Nat.ltb i (length l) = true) by (apply Nat.ltb_lt; apply nth_error_Some; rewrite Hn; discriminate).
    rewrite Hlt, Hn. cbn [option_map p_fd]. change (-1 =? -1) with true.
    destruct (p_fd sl =? -1) eqn:E; [apply Z.eqb_eq in E; contradiction|]. rewrite Hw, Z.eqb_refl. reflexivity.
  - destruct (nth_error l j) as [sl'|] eqn:Ej; [|reflexivity]. cbn [option_map].
    destruct (p_fd sl' =? -1) eqn:E; [reflexivity|].
    destruct (p_watch sl' =? id) eqn:E2; [|reflexivity].
    exfalso. apply Z.eqb_neq in E. apply Z.eqb_eq in E2. rewrite (Hu j sl' Ej E E2) in Eij.
    rewrite Nat.eqb_refl in Eij. discriminate.
Qed.

Definition ev_at (sl : list slot) (j : nat) : Z := match nth_error sl j with Some p => p_events p | None => 0 end.

Lemma ev_at_set_same : forall sl i p a b c j, nth_error sl i = Some p ->
  ev_at (set_nth sl i (mkSlot a (p_events p) b c)) j = ev_at sl j.
Proof.
  intros sl i p a b c j Hn. unfold ev_at. rewrite nth_error_set_nth. destruct (Nat.eqb i j) eqn:E; [|reflexivity].
  apply Nat.eqb_eq in E. subst j.
  assert (Hlt : Nat.ltb i (length sl) = true) by (apply Nat.ltb_lt; apply nth_error_Some; rewrite Hn; discriminate).
  rewrite Hlt, Hn. reflexivity.
Qed.

Lemma in_remove_sgw_elem : forall id x l, In x (remove_sgw id l) -> In x l.
Proof.
  induction l as [|h t IH]; intros H; [destruct H|]. cbn [remove_sgw] in H. destruct (g_id h =? id); [right; exact H|].
  destruct H as [E|H]; [left; exact E|right; auto].
Qed.
Lemma in_remove_ltr_elem : forall id x l, In x (remove_ltr id l) -> In x l.
Proof.
  induction l as [|h t IH]; intros H; [destruct H|]. cbn [remove_ltr] in H. destruct (l_id h =? id); [right; exact H|].
  destruct H as [E|H]; [left; exact E|right; auto].
Qed.

Lemma find_ltr_disjoint : forall id a b w, NoDup (map l_id (a ++ b)) -> find_ltr id b = Some w -> find_ltr id a = None.
Proof.
  intros id a b w Hnd Hf. apply find_ltr_none. intros Hin.
  destruct (find_ltr_some _ _ _ Hf) as [Hid Hw]. rewrite map_app in Hnd.
  eapply nodup_app_disjoint; [exact Hnd|exact Hin|]. rewrite <- Hid. apply in_map. exact Hw.
Qed.

Lemma J_same : forall s s', J s -> iows s' = iows s -> slots s' = slots s -> sgws s' = sgws s ->
  drun s' = drun s -> dlaters s' = dlaters s -> snext s <= snext s' -> J s'.
Proof.
  intros s s' HJ Hi Hs Hg Hr Hd Hn. destruct HJ as [a b c d e f g]. apply mkJ.
  - eapply TW_same; eassumption.
  - rewrite Hg. exact b.
  - rewrite Hr, Hd. exact c.
  - rewrite Hg. intros w Hw. specialize (d w Hw). lia.
  - rewrite Hr, Hd. intros w Hw. specialize (e w Hw). lia.
  - rewrite Hi, Hs. exact f.
  - lia.
Qed.

Lemma xabs_same : forall s s', iows s' = iows s -> slots s' = slots s -> sgws s' = sgws s ->
  drun s' = drun s -> dlaters s' = dlaters s -> kpend s' = kpend s -> ready s' = ready s -> inwait s' = inwait s ->
  snext s' = snext s -> siter s' = siter s -> slog s' = slog s -> running s' = running s -> xabs s' = xabs s.
Proof. intros s s' H1 H2 H3 H4 H5 H6 H7 H8 H9 H10 H11 H12. unfold xabs. congruence. Qed.

(* ------------------------------------------------------------------ tickit_watch_cancel *)

Lemma sim_cancel : forall s id, J s -> xabs (scancel s id) = x_cancel (xabs s) id /\ J (scancel s id).
Proof.
  intros s id HJ. destruct (scancel_cases s id HJ) as [[K1 [K2 [K3 [K4 [K5 [K6 [K7 K8]]]]]]] C].
  pose proof (TW_scancel env s id (J_tw s HJ)) as HTW.
  set (s' := scancel s id) in *. clearbody s'.
  destruct C as [w sl Eio Hn Hi Hs Hg Hd Hr Hc Hl | w Eio Esg Ek Hi Hs Hg Hd Hr Hc Hl
                | w Eio Esg Edl Hi Hs Hg Hd Hr Hc Hl | w Eio Esg Edl Edr Hi Hs Hg Hd Hr Hc Hl | E H].
  - (* an IO watch *)
    destruct (find_iow_some _ _ _ Eio) as [Hid Hin].
    destruct (J_io s HJ w Hin) as [sl0 [Hn0 [Hfd [Hw Hge]]]]. rewrite Hn in Hn0. inversion Hn0; subst sl0.
    split.
    + unfold xabs, x_cancel. cbn [x_ios]. rewrite find_xio_map, Eio. cbn [option_map xi_unbind xio_of].
      rewrite Hi, Hs, Hg, Hd, Hr, K1, K4, K5, K6, K7, K8, Hl.
      assert (E1 : map (xio_of (set_nth (slots s) (i_slot w) (mkSlot (-1) (p_events sl) (p_revents sl) (-1)))) (remove_iow id (iows s)) =
                   remove_xio id (map (xio_of (slots s)) (iows s))).
      { rewrite remove_xio_map. apply xio_of_ext. intros w' _. apply (ev_at_set_same (slots s) (i_slot w) sl). exact Hn. }
      assert (E2 : tab_of (set_nth (slots s) (i_slot w) (mkSlot (-1) (p_events sl) (p_revents sl) (-1))) = tab_del (tab_of (slots s)) id).
      { eapply tab_del_slot; [exact Hn| | |].
        - rewrite Hfd. lia.
        - rewrite Hw. exact Hid.
        - intros j sl' Hj Hfd' Hw'. destruct (tw_slot s (J_tw s HJ) j sl' Hj Hfd') as [w' [Hin' [Hid' [_ Hsl']]]].
          assert (w' = w) by (eapply nodup_same_id; [exact (tw_nodup s (J_tw s HJ))|exact Hin'|exact Hin|congruence]).
          subst w'. symmetry. exact Hsl'. }
      rewrite E1, E2. destruct (i_unbind w); reflexivity.
    + apply mkJ; [exact HTW|rewrite Hg; apply (J_sgnd s HJ)|rewrite Hr, Hd; apply (J_ltnd s HJ)| | | |rewrite K6; apply (J_nn s HJ)].
      * rewrite Hg, K6. apply (J_sglt s HJ).
      * rewrite Hr, Hd, K6. apply (J_ltlt s HJ).
      * rewrite Hi, Hs. intros w' Hw'.
        apply (in_remove_iow_iff id (iows s) w' (tw_nodup s (J_tw s HJ))) in Hw'. destruct Hw' as [Hw'in Hne].
        destruct (J_io s HJ w' Hw'in) as [sl' [Hn' [Hfd' [Hwa' Hge']]]].
        exists sl'. split; [|repeat split; assumption].
        rewrite nth_error_set_nth. destruct (Nat.eqb (i_slot w) (i_slot w')) eqn:E; [|exact Hn'].
        apply Nat.eqb_eq in E. rewrite <- E, Hn in Hn'. inversion Hn'; subst sl'. exfalso. apply Hne. congruence.
  - (* a signal watch *)
    split.
    + unfold xabs, x_cancel. cbn [x_ios x_sgs x_kpend]. rewrite find_xio_map, Eio. cbn [option_map]. rewrite Esg, Ek.
      rewrite Hi, Hs, Hg, Hd, Hr, K1, K4, K5, K6, K7, K8, Hl. destruct (g_unbind w); reflexivity.
    + apply mkJ; [exact HTW| |rewrite Hr, Hd; apply (J_ltnd s HJ)| | | |rewrite K6; apply (J_nn s HJ)].
      * rewrite Hg. eapply subl_nodup; [apply subl_remove_sgw|apply (J_sgnd s HJ)].
      * rewrite Hg, K6. intros v Hv. apply (J_sglt s HJ). eapply in_remove_sgw_elem. exact Hv.
      * rewrite Hr, Hd, K6. apply (J_ltlt s HJ).
      * rewrite Hi, Hs. apply (J_io s HJ).
  - (* a deferred callback not yet taken *)
    pose proof (find_ltr_disjoint id (drun s) (dlaters s) w (J_ltnd s HJ) Edl) as Edr.
    split.
    + unfold xabs, x_cancel. cbn [x_ios x_sgs x_kpend x_def]. rewrite find_xio_map, Eio. cbn [option_map]. rewrite Esg.
      rewrite find_ltr_app, Edr, Edl, remove_ltr_app, Edr.
      rewrite Hi, Hs, Hg, Hd, Hr, K1, K4, K5, K6, K7, K8, Hl. destruct (l_unbind w); reflexivity.
    + assert (Hsub : subl (map l_id (drun s ++ remove_ltr id (dlaters s))) (map l_id (drun s ++ dlaters s))).
      { rewrite !map_app. apply subl_app; [apply subl_refl|apply subl_remove_ltr]. }
      apply mkJ; [exact HTW|rewrite Hg; apply (J_sgnd s HJ)| | | | |rewrite K6; apply (J_nn s HJ)].
      * rewrite Hr, Hd. eapply subl_nodup; [exact Hsub|apply (J_ltnd s HJ)].
      * rewrite Hg, K6. apply (J_sglt s HJ).
      * rewrite Hr, Hd, K6. intros v Hv. apply (J_ltlt s HJ). apply in_app_or in Hv. apply in_or_app.
        destruct Hv as [Hv|Hv]; [left; exact Hv|right; eapply in_remove_ltr_elem; exact Hv].
      * rewrite Hi, Hs. apply (J_io s HJ).
  - (* a deferred callback of the batch being run *)
    split.
    + unfold xabs, x_cancel. cbn [x_ios x_sgs x_kpend x_def]. rewrite find_xio_map, Eio. cbn [option_map]. rewrite Esg.
      rewrite find_ltr_app, Edr, remove_ltr_app, Edr.
      rewrite Hi, Hs, Hg, Hd, Hr, K1, K4, K5, K6, K7, K8, Hl. destruct (l_unbind w); reflexivity.
    + assert (Hsub : subl (map l_id (remove_ltr id (drun s) ++ dlaters s)) (map l_id (drun s ++ dlaters s))).
      { rewrite !map_app. apply subl_app; [apply subl_remove_ltr|apply subl_refl]. }
      apply mkJ; [exact HTW|rewrite Hg; apply (J_sgnd s HJ)| | | | |rewrite K6; apply (J_nn s HJ)].
      * rewrite Hr, Hd. eapply subl_nodup; [exact Hsub|apply (J_ltnd s HJ)].
      * rewrite Hg, K6. apply (J_sglt s HJ).
      * rewrite Hr, Hd, K6. intros v Hv. apply (J_ltlt s HJ). apply in_app_or in Hv. apply in_or_app.
        destruct Hv as [Hv|Hv]; [left; eapply in_remove_ltr_elem; exact Hv|right; exact Hv].
      * rewrite Hi, Hs. apply (J_io s HJ).
  - (* nothing to cancel, or a signal watch that must stay *)
    subst s'. split; [|exact HJ]. destruct H as [Eio H]. unfold x_cancel. cbn [x_ios x_sgs x_kpend x_def xabs].
    rewrite find_xio_map, Eio. cbn [option_map].
    destruct H as [[w [Esg Ek]]|[Esg [Edl Edr]]].
    + rewrite Esg, Ek. reflexivity.
    + rewrite Esg, find_ltr_app, Edr, Edl. reflexivity.
Qed.

(* ------------------------------------------------------------------ every action *)

Lemma sim_action : forall s a, J s -> act_ok a ->
  xabs (sdo_action fixed_cfg s a) = x_action (xabs s) a /\ J (sdo_action fixed_cfg s a).
Proof.
  intros s a HJ Hok. destruct a as [ub cb|fd cond ub cb|sig ub cb|id|e|sig| |].
  - (* later *)
    split.
    + unfold xabs. cbn. rewrite app_assoc. reflexivity.
    + apply mkJ; cbn.
      * apply (TW_action env s (SLater ub cb) (J_tw s HJ) I).
      * apply (J_sgnd s HJ).
      * rewrite app_assoc, map_app. cbn [map l_id]. apply NoDup_app_intro_single; [apply (J_ltnd s HJ)|].
        intros Hin. apply in_map_iff in Hin. destruct Hin as [w [E Hw]]. pose proof (J_ltlt s HJ w Hw). lia.
      * intros w Hw. pose proof (J_sglt s HJ w Hw). lia.
      * intros w Hw. rewrite app_assoc in Hw. apply in_app_or in Hw. destruct Hw as [Hw|[Hw|[]]].
        -- pose proof (J_ltlt s HJ w Hw). lia.
        -- subst w. cbn. lia.
      * apply (J_io s HJ).
      * pose proof (J_nn s HJ). lia.
  - (* IO watch *)
    cbn in Hok.
    pose proof (TW_io s fd cond ub cb (J_tw s HJ) Hok) as HTW.
    assert (Hfd : fd <> -1) by lia.
    unfold sdo_action in *. unfold evloop_io in *. cbn [revents_stale fixed_cfg] in *.
    destruct (find_free (slots s) 0) as [i|] eqn:Ef.
    + pose proof (find_free_bound _ _ _ Ef) as Hb. destruct (find_free_fd _ _ _ Ef) as [sl0 [Hn0 [Hfree _]]].
      rewrite Nat.sub_0_r in Hn0.
      assert (Hother : forall w, In w (iows s) -> Nat.eqb i (i_slot w) = false).
      { intros w Hw. destruct (J_io s HJ w Hw) as [sl [Hn [Hf [_ Hge]]]].
        apply Nat.eqb_neq. intros E. subst i. rewrite Hn in Hn0. inversion Hn0; subst sl0. lia. }
      split.
      * unfold xabs. cbn. rewrite map_app. cbn [map].
        f_equal; [f_equal|].
        -- apply xio_of_ext. intros w Hw. rewrite nth_error_set_nth, (Hother w Hw). reflexivity.
        -- unfold xio_of. cbn [i_slot i_id i_fd i_unbind i_cb]. rewrite set_nth_nth_error by lia. reflexivity.
        -- rewrite <- (Nat.sub_0_r i) at 1. apply (tab_put_free (slots s) 0 i fd (events_of_cond cond) 0 (snext s) Ef Hfd).
      * apply mkJ; cbn.
        -- exact HTW.
        -- apply (J_sgnd s HJ).
        -- apply (J_ltnd s HJ).
        -- intros w Hw. pose proof (J_sglt s HJ w Hw). lia.
        -- intros w Hw. pose proof (J_ltlt s HJ w Hw). lia.
        -- intros w Hw. apply in_app_or in Hw. destruct Hw as [Hw|[Hw|[]]].
           ++ destruct (J_io s HJ w Hw) as [sl [Hn R]]. exists sl. split; [|exact R].
              rewrite nth_error_set_nth, (Hother w Hw). exact Hn.
           ++ subst w. cbn. eexists. split; [apply set_nth_nth_error; lia|]. cbn. repeat split; lia.
        -- pose proof (J_nn s HJ). lia.
    + split.
      * unfold xabs. cbn. rewrite map_app. cbn [map].
        f_equal; [f_equal|].
        -- apply xio_of_ext. intros w Hw. destruct (J_io s HJ w Hw) as [sl [Hn _]].
           rewrite nth_error_app1; [reflexivity|]. apply nth_error_Some. rewrite Hn. discriminate.
        -- unfold xio_of. cbn [i_slot i_id i_fd i_unbind i_cb]. rewrite nth_error_app2 by lia. rewrite Nat.sub_diag. reflexivity.
        -- apply (tab_put_full (slots s) 0 fd (events_of_cond cond) 0 (snext s) Ef Hfd).
      * apply mkJ; cbn.
        -- exact HTW.
        -- apply (J_sgnd s HJ).
        -- apply (J_ltnd s HJ).
        -- intros w Hw. pose proof (J_sglt s HJ w Hw). lia.
        -- intros w Hw. pose proof (J_ltlt s HJ w Hw). lia.
        -- intros w Hw. apply in_app_or in Hw. destruct Hw as [Hw|[Hw|[]]].
           ++ destruct (J_io s HJ w Hw) as [sl [Hn R]]. exists sl. split; [|exact R].
              rewrite nth_error_app1; [exact Hn|]. apply nth_error_Some. rewrite Hn. discriminate.
           ++ subst w. cbn. eexists. split; [rewrite nth_error_app2 by lia; rewrite Nat.sub_diag; reflexivity|].
              cbn. repeat split; lia.
        -- pose proof (J_nn s HJ). lia.
  - (* signal watch *)
    split; [reflexivity|]. apply mkJ; cbn.
    + apply (TW_action env s (SSig sig ub cb) (J_tw s HJ) I).
    + rewrite map_app. cbn [map g_id]. apply NoDup_app_intro_single; [apply (J_sgnd s HJ)|].
      intros Hin. apply in_map_iff in Hin. destruct Hin as [w [E Hw]]. pose proof (J_sglt s HJ w Hw). lia.
    + apply (J_ltnd s HJ).
    + intros w Hw. apply in_app_or in Hw. destruct Hw as [Hw|[Hw|[]]].
      * pose proof (J_sglt s HJ w Hw). lia.
      * subst w. cbn. lia.
    + intros w Hw. pose proof (J_ltlt s HJ w Hw). lia.
    + apply (J_io s HJ).
    + pose proof (J_nn s HJ). lia.
  - apply sim_cancel. exact HJ.
  - split; [reflexivity|]. eapply J_same; [exact HJ|reflexivity..|cbn; lia].
  - cbn [sdo_action x_action]. change (x_watched (xabs s) sig) with (is_watched s sig).
    destruct (is_watched s sig); [|split; [reflexivity|exact HJ]].
    split; [reflexivity|]. eapply J_same; [exact HJ|reflexivity..|cbn; lia].
  - split; [reflexivity|exact HJ].
  - split; [reflexivity|]. eapply J_same; [exact HJ|reflexivity..|cbn; lia].
Qed.

Hypothesis Henv : env_ok.

Lemma sim_actions : forall l s, J s -> Forall act_ok l ->
  xabs (sdo_actions fixed_cfg s l) = x_actions (xabs s) l /\ J (sdo_actions fixed_cfg s l).
Proof.
  induction l as [|a r IH]; intros s HJ Hl; [split; [reflexivity|exact HJ]|].
  inversion Hl as [|? ? Ha Hr]; subst. cbn [sdo_actions x_actions fold_left].
  destruct (sim_action s a HJ Ha) as [E HJ2]. rewrite <- E. apply IH; assumption.
Qed.

Lemma env_fds : env_fds_ok env.
Proof. intros cb. eapply Forall_impl; [|apply Henv]. apply act_ok_fds. Qed.


(* ------------------------------------------------------------------ what one action leaves alone *)

Lemma subl_length : forall a b, subl a b -> (length a <= length b)%nat.
Proof. intros a b H. induction H; cbn [length]; lia. Qed.

Lemma sio_fields : forall s fd cond ub cb,
  let s' := sdo_action fixed_cfg s (SIo fd cond ub cb) in
  exists i, iows s' = iows s ++ [mkIo (snext s) fd i ub cb] /\ sgws s' = sgws s /\ drun s' = drun s /\
            dlaters s' = dlaters s /\ cursor s' = cursor s /\ snext s' = snext s + 1 /\
            ((find_free (slots s) 0 = Some i /\
              slots s' = set_nth (slots s) i (mkSlot fd (events_of_cond cond) 0 (snext s))) \/
             (find_free (slots s) 0 = None /\ i = length (slots s) /\
              slots s' = slots s ++ [mkSlot fd (events_of_cond cond) 0 (snext s)])).
Proof.
  intros s fd cond ub cb. cbn [sdo_action]. unfold evloop_io. cbn [revents_stale fixed_cfg].
  destruct (find_free (slots s) 0) as [i|] eqn:Ef.
  - exists i. cbn. repeat split. left. split; reflexivity.
  - exists (length (slots s)). cbn. repeat split. right. repeat split.
Qed.

(* the batch being run only loses members *)
Lemma act_drun : forall s a, J s -> subl (map l_id (drun (sdo_action fixed_cfg s a))) (map l_id (drun s)).
Proof.
  intros s a HJ. destruct a as [ub cb|fd cond ub cb|sig ub cb|id|e|sig| |]; try apply subl_refl.
  - destruct (sio_fields s fd cond ub cb) as [i [_ [_ [E _]]]]. rewrite E. apply subl_refl.
  - cbn [sdo_action]. destruct (scancel_cases s id HJ) as [_ C].
    destruct C as [w sl _ _ _ _ _ _ Hr _ _ | w _ _ _ _ _ _ _ Hr _ _ | w _ _ _ _ _ _ _ Hr _ _ | w _ _ _ _ _ _ _ _ Hr _ _ | E _];
      try (rewrite Hr; apply subl_refl).
    + rewrite Hr. apply subl_remove_ltr.
    + rewrite E. apply subl_refl.
  - cbn [sdo_action]. destruct (is_watched s sig); apply subl_refl.
Qed.

(* an identity already given out that is not among the pending deferred callbacks stays out *)
Lemma act_dl_fresh : forall s a j, J s -> j < snext s -> ~ In j (map l_id (dlaters s)) ->
  j < snext (sdo_action fixed_cfg s a) /\ ~ In j (map l_id (dlaters (sdo_action fixed_cfg s a))).
Proof.
  intros s a j HJ Hlt Hn. destruct a as [ub cb|fd cond ub cb|sig ub cb|id|e|sig| |]; try (split; [cbn; lia|exact Hn]).
  - split; [cbn; lia|]. cbn. rewrite map_app. intros Hin. apply in_app_or in Hin. destruct Hin as [Hin|[Hin|[]]]; [contradiction|].
    cbn in Hin. lia.
  - destruct (sio_fields s fd cond ub cb) as [i [_ [_ [_ [E [_ [E2 _]]]]]]]. rewrite E, E2. split; [lia|exact Hn].
  - cbn [sdo_action]. destruct (scancel_cases s id HJ) as [[_ [_ [_ [_ [_ [K6 _]]]]]] C]. rewrite K6. split; [exact Hlt|].
    destruct C as [w sl _ _ _ _ _ Hd _ _ _ | w _ _ _ _ _ _ Hd _ _ _ | w _ _ _ _ _ _ Hd _ _ _ | w _ _ _ _ _ _ _ Hd _ _ _ | E _];
      try (rewrite Hd; exact Hn).
    + rewrite Hd. intros Hin. apply Hn. eapply subl_in; [apply subl_remove_ltr|exact Hin].
    + rewrite E. exact Hn.
  - cbn [sdo_action]. destruct (is_watched s sig); (split; [cbn; lia|exact Hn]).
Qed.

Section Frame.
(* a property of the IO side of the state that every action preserves *)
Variable Q : sst -> Prop.
Hypothesis HQf : forall s s', iows s' = iows s -> slots s' = slots s -> snext s' = snext s -> Q s -> Q s'.
Hypothesis HQa : forall s a, J s -> act_ok a -> Q s -> Q (sdo_action fixed_cfg s a).

Lemma Q_actions : forall l s, J s -> Forall act_ok l -> Q s -> Q (sdo_actions fixed_cfg s l).
Proof.
  induction l as [|a r IH]; intros s HJ Hl HQ; [exact HQ|]. inversion Hl as [|? ? Ha Hr]; subst.
  cbn [sdo_actions fold_left]. apply IH; [apply sim_action; assumption|exact Hr|apply HQa; assumption].
Qed.

Lemma acts_drun : forall l s, J s -> Forall act_ok l -> subl (map l_id (drun (sdo_actions fixed_cfg s l))) (map l_id (drun s)).
Proof.
  induction l as [|a r IH]; intros s HJ Hl; [apply subl_refl|]. inversion Hl as [|? ? Ha Hr]; subst.
  cbn [sdo_actions fold_left]. eapply subl_trans; [apply IH; [apply sim_action; assumption|exact Hr]|apply act_drun; exact HJ].
Qed.

Lemma acts_dl_fresh : forall l s j, J s -> Forall act_ok l -> j < snext s -> ~ In j (map l_id (dlaters s)) ->
  j < snext (sdo_actions fixed_cfg s l) /\ ~ In j (map l_id (dlaters (sdo_actions fixed_cfg s l))).
Proof.
  induction l as [|a r IH]; intros s j HJ Hl Hlt Hn; [split; assumption|]. inversion Hl as [|? ? Ha Hr]; subst.
  cbn [sdo_actions fold_left]. destruct (act_dl_fresh s a j HJ Hlt Hn) as [A B].
  apply IH; [apply sim_action; assumption|exact Hr|exact A|exact B].
Qed.

(* the deferred callbacks: the batch the loop pops one by one is the specification's snapshot
   of identities, each still pending at its turn *)
Lemma sim_drun_loop : forall L n s, J s -> Q s -> NoDup L -> subl (map l_id (drun s)) L ->
  (forall i, In i L -> i < snext s /\ ~ In i (map l_id (dlaters s))) -> (length (drun s) <= n)%nat ->
  xabs (drun_loop fixed_cfg env n s) = x_run_def env L (xabs s) /\ J (drun_loop fixed_cfg env n s) /\
  Q (drun_loop fixed_cfg env n s) /\ drun (drun_loop fixed_cfg env n s) = [].
Proof.
  induction L as [|i r IH]; intros n s HJ HQ Hnd Hsub Hfr Hn.
  - apply subl_nil_inv in Hsub. destruct (drun s) as [|w dr] eqn:Ed; [|discriminate].
    assert (E : drun_loop fixed_cfg env n s = s) by (destruct n; cbn [drun_loop]; [|rewrite Ed]; reflexivity).
    rewrite E. split; [reflexivity|split; [exact HJ|split; [exact HQ|exact Ed]]].
  - destruct (subl_cons_inv _ _ _ Hsub Hnd) as [[a' [Ea Hs']]|[Hni Hs']].
    + (* i heads the batch *)
      destruct (drun s) as [|w dr] eqn:Ed; [discriminate|]. cbn [map] in Ea. inversion Ea as [[Ew Ea']].
      destruct n as [|n]; [cbn [length] in Hn; lia|]. cbn [drun_loop]. rewrite Ed.
      set (s1 := semit (up_drun s dr) (l_id w) KLater (EV_FIRE + EV_UNBIND) 0).
      inversion Hnd as [|? ? Hir Hndr]; subst.
      assert (HJ1 : J s1).
      { destruct HJ as [a b c d e f g]. apply mkJ; cbn.
        - eapply TW_same; [exact a|reflexivity..|cbn; lia].
        - exact b.
        - rewrite Ed in c. cbn [app map] in c. inversion c; assumption.
        - exact d.
        - intros v Hv. apply e. rewrite Ed. right. exact Hv.
        - exact f.
        - exact g. }
      assert (HQ1 : Q s1) by (eapply HQf; [| | |exact HQ]; reflexivity).
      assert (Hok : Forall act_ok (env (l_cb w))) by apply Henv.
      destruct (sim_actions (env (l_cb w)) s1 HJ1 Hok) as [E2 HJ2].
      set (s2 := sdo_actions fixed_cfg s1 (env (l_cb w))) in *.
      assert (Hx : x_run_def env (l_id w :: r) (xabs s) = x_run_def env r (xabs s2)).
      { cbn [x_run_def].
        assert (Hdef : x_def (xabs s) = w :: dr ++ dlaters s) by (unfold xabs; cbn [x_def]; rewrite Ed; reflexivity).
        rewrite Hdef. cbn [find_ltr remove_ltr]. rewrite Z.eqb_refl. rewrite E2. reflexivity. }
      rewrite Hx. apply IH.
      * exact HJ2.
      * apply Q_actions; assumption.
      * exact Hndr.
      * eapply subl_trans; [apply acts_drun; assumption|]. exact Hs'.
      * intros j Hj. destruct (Hfr j (or_intror Hj)) as [A B]. apply acts_dl_fresh; assumption.
      * pose proof (subl_length _ _ (acts_drun (env (l_cb w)) s1 HJ1 Hok)) as Hl. rewrite !map_length in Hl.
        fold s2 in Hl. cbn [drun s1 semit up_slog up_drun] in Hl. cbn [length] in Hn. lia.
    + (* i is no longer pending *)
      assert (Hx : x_run_def env (i :: r) (xabs s) = x_run_def env r (xabs s)).
      { cbn [x_run_def].
        assert (Hdef : x_def (xabs s) = drun s ++ dlaters s) by reflexivity.
        rewrite Hdef. rewrite find_ltr_none; [reflexivity|].
        rewrite map_app. intros Hin. apply in_app_or in Hin. destruct Hin as [Hin|Hin]; [contradiction|].
        destruct (Hfr i (or_introl eq_refl)) as [_ B]. contradiction. }
      rewrite Hx. inversion Hnd; subst. apply IH; try assumption. intros j Hj. apply Hfr. right. exact Hj.
Qed.

Lemma sim_invoke_laters : forall s, J s -> Q s ->
  xabs (invoke_laters fixed_cfg env s) = x_run_def env (map l_id (drun s ++ dlaters s)) (xabs s) /\
  J (invoke_laters fixed_cfg env s) /\ Q (invoke_laters fixed_cfg env s) /\ drun (invoke_laters fixed_cfg env s) = [].
Proof.
  intros s HJ HQ. unfold invoke_laters.
  set (s1 := up_dlaters (up_drun s (drun s ++ dlaters s)) []).
  assert (Ex : xabs s1 = xabs s) by (unfold xabs; cbn; rewrite app_nil_r; reflexivity).
  assert (HJ1 : J s1).
  { destruct HJ as [a b c d e f g]. apply mkJ; cbn; try assumption.
    - eapply TW_same; [exact a|reflexivity..|cbn; lia].
    - rewrite app_nil_r. exact c.
    - rewrite app_nil_r. exact e. }
  rewrite <- Ex. apply sim_drun_loop.
  - exact HJ1.
  - eapply HQf; [| | |exact HQ]; reflexivity.
  - apply (J_ltnd s HJ).
  - apply subl_refl.
  - intros i Hi. split; [|intros []]. apply in_map_iff in Hi. destruct Hi as [w [E Hw]]. subst i. apply (J_ltlt s HJ). exact Hw.
  - apply Nat.le_refl.
Qed.

End Frame.


(* ------------------------------------------------------------------ IO dispatch *)

(* a slot the dispatch loop acts on, and what it hands to the callback *)
Definition sfires (sl : slot) : bool := negb (p_fd sl =? -1) && negb (p_revents sl =? 0).
Definition snap_of (sl : slot) : option (Z * Z) :=
  if sfires sl then Some (p_watch sl, cond_of_revents (p_revents sl)) else None.
Definition o2l {A} (o : option A) : list A := match o with Some x => [x] | None => [] end.

Lemma snap_of_some : forall sl id c, snap_of sl = Some (id, c) ->
  sfires sl = true /\ p_watch sl = id /\ c = cond_of_revents (p_revents sl).
Proof. intros sl id c H. unfold snap_of in H. destruct (sfires sl); [|discriminate]. inversion H; subst. repeat split. Qed.

Lemma set_nth_length : forall {A} (l : list A) i v, length (set_nth l i v) = length l.
Proof. induction l as [|h t IH]; intros i v; [reflexivity|]. destruct i; cbn [set_nth length]; [reflexivity|]. rewrite IH. reflexivity. Qed.

(* [rest]: the specification's snapshot, one entry per slot from k on, as ppoll left the table;
   the table as it is now agrees with it wherever that still matters *)
Definition DI (k : nat) (rest : list (option (Z * Z))) (s : sst) : Prop :=
  (k + length rest <= length (slots s))%nat /\
  (forall j sl, nth_error (slots s) (k + j) = Some sl -> sfires sl = true -> nth_error rest j = Some (snap_of sl)) /\
  (forall j id c, nth_error rest j = Some (Some (id, c)) -> In id (map i_id (iows s)) ->
     exists sl, nth_error (slots s) (k + j) = Some sl /\ snap_of sl = Some (id, c)) /\
  (forall j id c, nth_error rest j = Some (Some (id, c)) -> id < snext s).

Lemma DI_mono : forall k rest s s', iows s' = iows s -> slots s' = slots s -> snext s <= snext s' -> DI k rest s -> DI k rest s'.
Proof.
  intros k rest s s' Hi Hs Hn [A [B [C D]]]. unfold DI. rewrite Hi, Hs. repeat split; try assumption.
  intros j id c H. specialize (D j id c H). lia.
Qed.

Lemma DI_shift : forall k o rest s, DI k (o :: rest) s -> DI (S k) rest s.
Proof.
  intros k o rest s [A [B [C D]]]. unfold DI. cbn [length] in A. repeat split.
  - lia.
  - intros j sl Hn Hf. replace (S k + j)%nat with (k + S j)%nat in Hn by lia. exact (B (S j) sl Hn Hf).
  - intros j id c Hn Hin. destruct (C (S j) id c Hn Hin) as [sl [H1 H2]]. exists sl.
    replace (S k + j)%nat with (k + S j)%nat by lia. split; assumption.
  - intros j id c Hn. exact (D (S j) id c Hn).
Qed.

Lemma DI_action : forall k rest s a, J s -> act_ok a -> DI k rest s -> DI k rest (sdo_action fixed_cfg s a).
Proof.
  intros k rest s a HJ Hok HD. destruct a as [ub cb|fd cond ub cb|sig ub cb|id|e|sig| |];
    try (eapply DI_mono; [| | |exact HD]; try reflexivity; cbn; lia).
  - (* a new IO watch: its slot holds no conditions *)
    destruct HD as [A [B [C D]]].
    destruct (sio_fields s fd cond ub cb) as [i [Ei [_ [_ [_ [_ [En Hsl]]]]]]].
    set (s' := sdo_action fixed_cfg s (SIo fd cond ub cb)) in *. clearbody s'.
    set (new := mkSlot fd (events_of_cond cond) 0 (snext s)) in *.
    assert (Hnf : sfires new = false) by (unfold sfires, new; cbn; apply andb_false_r).
    assert (Hback : forall p sl, nth_error (slots s') p = Some sl -> sfires sl = true -> nth_error (slots s) p = Some sl).
    { intros p0 sl Hn Hf. destruct Hsl as [[Ef Es]|[Ef [Ei2 Es]]]; rewrite Es in Hn.
      - rewrite nth_error_set_nth in Hn. destruct (Nat.eqb i p0); [|exact Hn].
        destruct (Nat.ltb i (length (slots s))); [|discriminate]. inversion Hn; subst sl. rewrite Hnf in Hf. discriminate.
      - destruct (Nat.lt_ge_cases p0 (length (slots s))) as [Hlt|Hge].
        + rewrite nth_error_app1 in Hn by exact Hlt. exact Hn.
        + rewrite nth_error_app2 in Hn by exact Hge. destruct (p0 - length (slots s))%nat as [|q]; cbn in Hn.
          * inversion Hn; subst sl. rewrite Hnf in Hf. discriminate.
          * destruct q; discriminate. }
    assert (Hfwd : forall p sl, nth_error (slots s) p = Some sl -> sfires sl = true -> nth_error (slots s') p = Some sl).
    { intros p0 sl Hn Hf. destruct Hsl as [[Ef Es]|[Ef [Ei2 Es]]]; rewrite Es.
      - rewrite nth_error_set_nth. destruct (Nat.eqb i p0) eqn:E; [|exact Hn].
        apply Nat.eqb_eq in E. subst p0. destruct (find_free_fd _ _ _ Ef) as [sl0 [Hn0 [Hfree _]]].
        rewrite Nat.sub_0_r, Hn in Hn0. inversion Hn0; subst sl0. unfold sfires in Hf. rewrite Hfree in Hf. discriminate.
      - rewrite nth_error_app1; [exact Hn|]. apply nth_error_Some. rewrite Hn. discriminate. }
    unfold DI. repeat split.
    + destruct Hsl as [[Ef Es]|[Ef [Ei2 Es]]]; rewrite Es; [rewrite set_nth_length|rewrite app_length; cbn [length]]; lia.
    + intros j sl Hn Hf. apply (B j sl); [apply Hback; assumption|exact Hf].
    + intros j id c Hn Hin. pose proof (D j id c Hn) as Hlt. rewrite Ei, map_app in Hin.
      apply in_app_or in Hin. destruct Hin as [Hin|[Hin|[]]]; [|cbn in Hin; lia].
      destruct (C j id c Hn Hin) as [sl [H1 H2]]. exists sl. split; [|exact H2].
      apply Hfwd; [exact H1|]. apply snap_of_some in H2. apply H2.
    + intros j id c Hn. pose proof (D j id c Hn). lia.
  - (* cancel *)
    cbn [sdo_action]. destruct (scancel_cases s id HJ) as [[_ [_ [_ [_ [_ [K6 _]]]]]] Cc].
    destruct Cc as [w sl Eio Hn Hi Hs _ _ _ _ _ | w _ _ _ Hi Hs _ _ _ _ _ | w _ _ _ Hi Hs _ _ _ _ _ | w _ _ _ _ Hi Hs _ _ _ _ _ | E _];
      try (eapply DI_mono; [exact Hi|exact Hs|lia|exact HD]).
    + destruct HD as [A [B [C D]]].
      destruct (find_iow_some _ _ _ Eio) as [Hid Hin].
      destruct (J_io s HJ w Hin) as [sl0 [Hn0 [Hfd [Hw Hge]]]]. rewrite Hn in Hn0. inversion Hn0; subst sl0.
      unfold DI. rewrite Hi, Hs, K6, set_nth_length. repeat split.
      * exact A.
      * intros j sl' Hn' Hf. rewrite nth_error_set_nth in Hn'. destruct (Nat.eqb (i_slot w) (k + j)).
        -- destruct (Nat.ltb (i_slot w) (length (slots s))); [|discriminate]. inversion Hn'; subst sl'. discriminate.
        -- exact (B j sl' Hn' Hf).
      * intros j id' c Hn' Hin'. pose proof (tw_nodup s (J_tw s HJ)) as Hnd.
        assert (Hin0 : In id' (map i_id (iows s))) by (eapply in_remove_iow; exact Hin').
        destruct (C j id' c Hn' Hin0) as [sl' [H1 H2]]. exists sl'. split; [|exact H2].
        rewrite nth_error_set_nth. destruct (Nat.eqb (i_slot w) (k + j)) eqn:E; [|exact H1].
        exfalso. apply Nat.eqb_eq in E. rewrite <- E, Hn in H1. inversion H1; subst sl'.
        apply snap_of_some in H2. destruct H2 as [_ [Hw2 _]].
        assert (Eid : id' = id) by congruence. rewrite Eid in Hin'. apply (remove_iow_notin id (iows s) Hnd). exact Hin'.
      * exact D.
    + rewrite E. exact HD.
  - cbn [sdo_action]. destruct (is_watched s sig); [|exact HD]. eapply DI_mono; [| | |exact HD]; reflexivity.
Qed.

Lemma io_tail : forall m k s, (forall j sl, nth_error (slots s) (k + j) = Some sl -> sfires sl = false) ->
  (length (slots s) <= k + m)%nat -> forall fuel, (m < fuel)%nat -> io_dispatch fixed_cfg env fuel k s = Some s.
Proof.
  induction m as [|m IH]; intros k s Hnf Hlen fuel Hf; (destruct fuel as [|f]; [lia|]); cbn [io_dispatch].
  - assert (E : nth_error (slots s) k = None) by (apply nth_error_None; lia). rewrite E. reflexivity.
  - destruct (nth_error (slots s) k) as [sl|] eqn:En; [|reflexivity].
    assert (Hs : sfires sl = false) by (apply (Hnf O); rewrite Nat.add_0_r; exact En).
    assert (Hrec : io_dispatch fixed_cfg env f (S k) s = Some s).
    { apply IH; [|lia|lia]. intros j sl' Hn'. apply (Hnf (S j)). replace (k + S j)%nat with (S k + j)%nat by lia. exact Hn'. }
    unfold sfires in Hs. destruct (p_fd sl =? -1); [exact Hrec|]. destruct (p_revents sl =? 0); [exact Hrec|]. discriminate.
Qed.

Lemma DI_frame : forall k rest s s', iows s' = iows s -> slots s' = slots s -> snext s' = snext s -> DI k rest s -> DI k rest s'.
Proof. intros k rest s s' H1 H2 H3 H. eapply DI_mono; [exact H1|exact H2|lia|exact H]. Qed.

(* the loop over the poll slots invokes, in slot order, exactly the watches of the snapshot that
   are still live at their turn, with the conditions of the snapshot *)
Lemma sim_io_dispatch : forall rest k s, J s -> DI k rest s ->
  exists s', (xabs s' = x_run_io env (flat_map o2l rest) (xabs s) /\ J s' /\
              subl (map l_id (drun s')) (map l_id (drun s))) /\
  exists f0, forall fuel, (f0 <= fuel)%nat -> io_dispatch fixed_cfg env fuel k s = Some s'.
Proof.
  induction rest as [|o rest IH]; intros k s HJ HD.
  - exists s. split; [split; [reflexivity|split; [exact HJ|apply subl_refl]]|].
    exists (S (length (slots s) - k)). intros fuel Hf.
    apply (io_tail (length (slots s) - k)); [|lia|lia].
    intros j sl Hn. destruct (sfires sl) eqn:Ef; [|reflexivity].
    destruct HD as [_ [B _]]. specialize (B j sl Hn Ef). destruct j; discriminate.
  - pose proof (DI_shift k o rest s HD) as HD1. destruct HD as [A [B [C D]]].
    destruct (nth_error (slots s) k) as [sl|] eqn:En; [|apply nth_error_None in En; cbn [length] in A; lia].
    destruct (sfires sl) eqn:Ef.
    + (* the slot holds conditions for a live watch *)
      assert (Ho : o = snap_of sl).
      { assert (H0 : nth_error (o :: rest) 0 = Some (snap_of sl)) by (apply B; [rewrite Nat.add_0_r; exact En|exact Ef]).
        cbn in H0. inversion H0. reflexivity. }
      unfold sfires in Ef. apply andb_true_iff in Ef. destruct Ef as [Ef1 Ef2].
      apply negb_true_iff in Ef1. apply negb_true_iff in Ef2.
      assert (Hfd : p_fd sl <> -1) by (apply Z.eqb_neq; exact Ef1).
      destruct (tw_slot s (J_tw s HJ) k sl En Hfd) as [w [Hin [Hid _]]].
      assert (Hfind : find_iow (p_watch sl) (iows s) = Some w).
      { rewrite <- Hid. apply find_iow_in_nodup; [apply (tw_nodup s (J_tw s HJ))|exact Hin]. }
      set (s1 := semit s (i_id w) KIo EV_FIRE (cond_of_revents (p_revents sl))).
      assert (HJ1 : J s1) by (eapply J_same; [exact HJ|reflexivity..|cbn; lia]).
      assert (Hok : Forall act_ok (env (i_cb w))) by apply Henv.
      destruct (sim_actions (env (i_cb w)) s1 HJ1 Hok) as [E2 HJ2].
      set (s2 := sdo_actions fixed_cfg s1 (env (i_cb w))) in *.
      assert (HD2 : DI (S k) rest s2).
      { apply (Q_actions (DI (S k) rest)); [intros; apply DI_action; assumption|exact HJ1|exact Hok|].
        eapply DI_frame; [| | |exact HD1]; reflexivity. }
      destruct (IH (S k) s2 HJ2 HD2) as [s' [[R2 [R3 R4]] [f0 Hf0]]].
      exists s'. split; [split; [|split; [exact R3|]]|].
      * rewrite R2, E2. subst o. unfold snap_of, sfires. rewrite Ef1, Ef2. cbn [negb andb o2l flat_map app x_run_io].
        assert (Hx : find_xio (p_watch sl) (x_ios (xabs s)) = Some (xio_of (slots s) w)).
        { unfold xabs. cbn [x_ios]. rewrite find_xio_map, Hfind. reflexivity. }
        rewrite Hx. cbn [xi_cb xio_of]. rewrite <- Hid. reflexivity.
      * eapply subl_trans; [exact R4|]. exact (acts_drun (env (i_cb w)) s1 HJ1 Hok).
      * exists (S f0). intros fuel Hf. destruct fuel as [|f]; [lia|].
        cbn [io_dispatch]. rewrite En, Ef1, Ef2, Hfind. apply Hf0. lia.
    + (* nothing to do at this slot: free, or no conditions; a snapshot entry for it names a watch that is gone *)
      destruct (IH (S k) s HJ HD1) as [s' [[R2 [R3 R4]] [f0 Hf0]]].
      exists s'. split; [split; [|split; [exact R3|exact R4]]|].
      * rewrite R2. destruct o as [[id c]|]; [|reflexivity]. cbn [flat_map o2l app x_run_io].
        assert (Hx : find_xio id (x_ios (xabs s)) = None).
        { unfold xabs. cbn [x_ios]. rewrite find_xio_map, find_iow_none; [reflexivity|].
          intros Hin. destruct (C O id c eq_refl Hin) as [sl' [H1 H2]]. rewrite Nat.add_0_r, En in H1. inversion H1; subst sl'.
          apply snap_of_some in H2. destruct H2 as [H2 _]. rewrite H2 in Ef. discriminate. }
        rewrite Hx. reflexivity.
      * exists (S f0). intros fuel Hf. destruct fuel as [|f]; [lia|].
        cbn [io_dispatch]. rewrite En. unfold sfires in Ef. specialize (Hf0 f ltac:(lia)).
        destruct (p_fd sl =? -1); [exact Hf0|]. destruct (p_revents sl =? 0); [exact Hf0|]. discriminate.
Qed.

(* ------------------------------------------------------------------ the walk over the signal watches *)

Definition hd_id (l : list sgw) : option Z := match l with [] => None | h :: _ => Some (g_id h) end.

Lemma find_sgw_app : forall id a b, find_sgw id (a ++ b) = match find_sgw id a with Some w => Some w | None => find_sgw id b end.
Proof.
  induction a as [|h t IH]; intros b; [reflexivity|]. cbn [app find_sgw]. destruct (g_id h =? id); [reflexivity|apply IH].
Qed.
Lemma remove_sgw_app : forall id a b, remove_sgw id (a ++ b) =
  match find_sgw id a with Some _ => remove_sgw id a ++ b | None => a ++ remove_sgw id b end.
Proof.
  induction a as [|h t IH]; intros b; [reflexivity|]. cbn [app find_sgw remove_sgw]. destruct (g_id h =? id); [reflexivity|].
  rewrite IH. destruct (find_sgw id t); reflexivity.
Qed.
Lemma find_sgw_none_notin : forall id l, find_sgw id l = None -> ~ In id (map g_id l).
Proof.
  induction l as [|h t IH]; intros H; [intros []|]. cbn [find_sgw] in H. destruct (g_id h =? id) eqn:E; [discriminate|].
  intros [Hin|Hin]; [apply Z.eqb_neq in E; contradiction|exact (IH H Hin)].
Qed.

(* tickit_watch_cancel moves next_sigwatch off the watch it frees: the cursor stays the head of
   what remains to be walked *)
Lemma cursor_remove : forall id pre rem w, NoDup (map g_id (pre ++ rem)) -> find_sgw id (pre ++ rem) = Some w ->
  let c' := match hd_id rem with Some cu => if cu =? id then sgw_after id (pre ++ rem) else hd_id rem | None => None end in
  (find_sgw id pre <> None /\ c' = hd_id rem) \/
  (find_sgw id pre = None /\ c' = hd_id (remove_sgw id rem)).
Proof.
  intros id pre rem w Hnd Hf c'. destruct (find_sgw id pre) as [v|] eqn:Ep.
  - left. split; [discriminate|]. unfold c'. destruct rem as [|x rm]; [reflexivity|]. cbn [hd_id].
    destruct (g_id x =? id) eqn:E; [|reflexivity]. exfalso. apply Z.eqb_eq in E.
    destruct (find_sgw_some _ _ _ Ep) as [Hv Hin]. rewrite map_app in Hnd.
    eapply nodup_app_disjoint; [exact Hnd| |].
    + apply in_map. exact Hin.
    + cbn [map]. left. congruence.
  - right. split; [reflexivity|]. unfold c'. destruct rem as [|x rm]; [reflexivity|]. cbn [hd_id remove_sgw].
    destruct (g_id x =? id) eqn:E; [|reflexivity]. apply Z.eqb_eq in E. subst id.
    rewrite sgw_after_mid; [reflexivity|]. apply find_sgw_none_notin. exact Ep.
Qed.

Section Walk.
Variable sig : Z.
Variable L0 : list sgw.     (* the list when the walk began *)
Variable N : Z.             (* the registration counter when the walk began: t->sigwalk_seq's role *)

Definition Pm (i : Z) : bool := match find_sgw i L0 with Some w => g_sig w =? sig | None => false end.

(* r: identities of the original list not yet passed.  The live list is pre ++ rem_o ++ news:
   pre has been passed (or was appended when nothing remained), rem_o are the surviving
   originals in order, news were appended during the walk (numbers >= N: born during it) *)
Record WIr (r : list Z) (s : sst) (this : option Z) (pre rem_o news : list sgw) : Prop := mkWI {
  wi_dec : sgws s = pre ++ rem_o ++ news;
  wi_this : this = hd_id (rem_o ++ news);
  wi_sub : subl (map g_id rem_o) r;
  wi_out : forall i, In i r -> ~ In i (map g_id pre) /\ ~ In i (map g_id news) /\ i < snext s;
  wi_news : forall w, In w news -> N <= g_id w;
  wi_N : N <= snext s;
  wi_orig : forall w, In w rem_o -> In w L0 }.
Definition WI (r : list Z) (s : sst) (this : option Z) : Prop := exists pre rem_o news, WIr r s this pre rem_o news.

Lemma WI_mono : forall r s s', sgws s' = sgws s -> cursor s' = cursor s -> snext s <= snext s' ->
  WI r s (cursor s) -> WI r s' (cursor s').
Proof.
  intros r s s' Hg Hc Hn [pre [ro [nw [A B C D E EN F]]]]. exists pre, ro, nw. apply mkWI; try assumption.
  - rewrite Hg. exact A.
  - rewrite Hc. exact B.
  - intros i Hi. destruct (D i Hi) as [D1 [D2 D3]]. repeat split; try assumption. lia.
  - lia.
Qed.

Lemma WI_action : forall r s a, J s -> act_ok a ->
  WI r s (cursor s) -> WI r (sdo_action fixed_cfg s a) (cursor (sdo_action fixed_cfg s a)).
Proof.
  intros r s a HJ Hok HW. destruct a as [ub cb|fd cond ub cb|sg ub cb|id|e|sg| |];
    try (eapply WI_mono; [| | |exact HW]; try reflexivity; cbn; lia).
  - destruct (sio_fields s fd cond ub cb) as [i [_ [Eg [_ [_ [Ec [En _]]]]]]].
    eapply WI_mono; [exact Eg|exact Ec|lia|exact HW].
  - (* a watch is appended: it is born during the walk *)
    destruct HW as [pre [ro [nw [A B C D E EN F]]]].
    set (n := mkSg (snext s) sg ub cb).
    destruct (ro ++ nw) as [|x rm] eqn:Erem.
    + apply app_eq_nil in Erem. destruct Erem; subst ro nw.
      exists (pre ++ [n]), [], []. apply mkWI; cbn.
      * rewrite A. rewrite !app_nil_r. reflexivity.
      * exact B.
      * exact C.
      * intros i Hi. destruct (D i Hi) as [D1 [D2 D3]]. split; [|split; [intros []|lia]].
        rewrite map_app. intros Hin. apply in_app_or in Hin. destruct Hin as [Hin|[Hin|[]]]; [contradiction|]. cbn in Hin. lia.
      * intros w [].
      * lia.
      * intros w [].
    + rewrite <- Erem in A, B. exists pre, ro, (nw ++ [n]). apply mkWI; cbn.
      * rewrite A. rewrite <- !app_assoc. reflexivity.
      * rewrite B. rewrite app_assoc, Erem. reflexivity.
      * exact C.
      * intros i Hi. destruct (D i Hi) as [D1 [D2 D3]]. split; [exact D1|split; [|lia]].
        rewrite map_app. intros Hin. apply in_app_or in Hin. destruct Hin as [Hin|[Hin|[]]]; [contradiction|]. cbn in Hin. lia.
      * intros w Hw. apply in_app_or in Hw. destruct Hw as [Hw|[Hw|[]]]; [exact (E w Hw)|]. subst w. cbn. exact EN.
      * lia.
      * exact F.
  - (* cancel *)
    cbn [sdo_action]. destruct (scancel_cases s id HJ) as [[_ [_ [_ [_ [_ [K6 _]]]]]] Cc].
    destruct Cc as [w sl _ _ _ _ Hg _ _ Hc _ | w _ Esg _ _ _ Hg _ _ Hc _ | w _ _ _ _ _ Hg _ _ Hc _ | w _ _ _ _ _ _ Hg _ _ Hc _ | E _];
      try (eapply WI_mono; [exact Hg|exact Hc|lia|exact HW]).
    + destruct HW as [pre [ro [nw [A B C D E EN F]]]].
      pose proof (J_sgnd s HJ) as Hnd. rewrite A in Hnd, Esg.
      pose proof (cursor_remove id pre (ro ++ nw) w Hnd Esg) as Hcr. cbv zeta in Hcr.
      assert (Hc2 : cursor (scancel s id) =
                    match hd_id (ro ++ nw) with
                    | Some cu => if cu =? id then sgw_after id (pre ++ ro ++ nw) else hd_id (ro ++ nw)
                    | None => None end) by (rewrite Hc, B, A; reflexivity).
      rewrite <- Hc2 in Hcr. clear Hc2.
      rewrite A in Hg. rewrite remove_sgw_app in Hg.
      destruct Hcr as [[Hp Hcu]|[Hp Hcu]].
      * (* a watch already passed *)
        destruct (find_sgw id pre) as [v|] eqn:Ep; [|contradiction].
        exists (remove_sgw id pre), ro, nw. apply mkWI; [exact Hg|exact Hcu|exact C| |exact E|lia|exact F].
        intros i Hi. destruct (D i Hi) as [D1 [D2 D3]]. split; [|split; [exact D2|lia]].
        intros Hin. apply D1. eapply subl_in; [apply subl_remove_sgw|exact Hin].
      * rewrite Hp in Hg. rewrite remove_sgw_app in Hg, Hcu. destruct (find_sgw id ro) as [v|] eqn:Er.
        -- (* one of the originals still to come *)
           exists pre, (remove_sgw id ro), nw. apply mkWI; [exact Hg|exact Hcu| | |exact E|lia|].
           ++ eapply subl_trans; [apply subl_remove_sgw|exact C].
           ++ intros i Hi. destruct (D i Hi) as [D1 [D2 D3]]. repeat split; try assumption. lia.
           ++ intros v' Hv'. apply F. eapply in_remove_sgw_elem. exact Hv'.
        -- (* one appended during the walk *)
           exists pre, ro, (remove_sgw id nw). apply mkWI; [exact Hg|exact Hcu|exact C| | |lia|exact F].
           ++ intros i Hi. destruct (D i Hi) as [D1 [D2 D3]]. split; [exact D1|split; [|lia]].
              intros Hin. apply D2. eapply subl_in; [apply subl_remove_sgw|exact Hin].
           ++ intros v' Hv'. apply E. eapply in_remove_sgw_elem. exact Hv'.
    + rewrite E. exact HW.
  - cbn [sdo_action]. destruct (is_watched s sg); [|exact HW]. eapply WI_mono; [| | |exact HW]; reflexivity.
Qed.

Lemma WI_actions : forall l r s, J s -> Forall act_ok l ->
  WI r s (cursor s) -> WI r (sdo_actions fixed_cfg s l) (cursor (sdo_actions fixed_cfg s l)).
Proof.
  induction l as [|a t IH]; intros r s HJ Hl HW; [exact HW|].
  inversion Hl as [|? ? Ha Ht]; subst.
  cbn [sdo_actions fold_left]. apply IH; [apply sim_action; assumption|exact Ht|].
  apply WI_action; assumption.
Qed.

(* watches appended during the walk: looked at, passed over (born during it) *)
Lemma walk_news : forall nw pre s, J s -> sgws s = pre ++ nw -> (forall w, In w nw -> N <= g_id w) ->
  exists s', (xabs s' = xabs s /\ J s' /\ drun s' = drun s) /\
  forall fuel, (length nw < fuel)%nat -> sig_walk fixed_cfg env fuel N (hd_id nw) sig s = Some s'.
Proof.
  induction nw as [|x rm IH]; intros pre s HJ Hd Hn.
  - exists s. split; [split; [reflexivity|split; [exact HJ|reflexivity]]|]. intros fuel Hf. destruct fuel; [cbn in Hf; lia|reflexivity].
  - pose proof (J_sgnd s HJ) as Hnd. rewrite Hd in Hnd. destruct (nodup_mid pre x rm Hnd) as [Hnp _].
    assert (Ex : ((g_sig x =? sig) && (g_id x <? N)) = false).
    { apply andb_false_iff. right. apply Z.ltb_ge. apply Hn. left. reflexivity. }
    set (s1 := up_cursor s (hd_id rm)).
    assert (HJ1 : J s1) by (eapply J_same; [exact HJ|reflexivity..|cbn; lia]).
    destruct (IH (pre ++ [x]) s1 HJ1) as [s' [[X [Y Z0]] W]].
    + cbn [sgws s1 up_cursor]. rewrite Hd, <- app_assoc. reflexivity.
    + intros w Hw. apply Hn. right. exact Hw.
    + exists s'. split; [split; [rewrite X; reflexivity|split; [exact Y|rewrite Z0; reflexivity]]|].
      intros fuel Hf. destruct fuel as [|f]; [cbn [length] in Hf; lia|].
      cbn [hd_id sig_walk]. rewrite Hd, (find_sgw_mid pre x rm Hnp), (sgw_after_mid pre x rm Hnp), Ex.
      apply W. cbn [length] in Hf. lia.
Qed.

Hypothesis L0nd : NoDup (map g_id L0).
Hypothesis L0lt : forall w, In w L0 -> g_id w < N.

(* tickit_evloop_invoke_sigwatches: every watch of the signal that was in the list when the walk
   began and is still live when its turn comes is invoked, once, in list order *)
Lemma walk_sim : forall r s this, J s -> WI r s this -> NoDup r ->
  exists s', (xabs s' = x_run_sig env (filter Pm r) sig (xabs s) /\ J s' /\
              subl (map l_id (drun s')) (map l_id (drun s))) /\
  exists f0, forall fuel, (f0 <= fuel)%nat -> sig_walk fixed_cfg env fuel N this sig s = Some s'.
Proof.
  induction r as [|i r IH]; intros s this HJ HW Hnd.
  - destruct HW as [pre [ro [nw [A B C D E EN F]]]].
    apply subl_nil_inv in C. apply map_eq_nil in C. subst ro. cbn [app] in A, B. subst this.
    destruct (walk_news nw pre s HJ A E) as [s' [[X [Y Z0]] W]].
    exists s'. split; [split; [exact X|split; [exact Y|rewrite Z0; apply subl_refl]]|].
    exists (S (length nw)). intros fuel Hf. apply W. lia.
  - destruct HW as [pre [ro [nw [A B C D E EN F]]]]. inversion Hnd as [|? ? Hir Hndr]; subst.
    destruct (subl_cons_inv _ _ _ C Hnd) as [[a' [Ea Hs']]|[Hni Hs']].
    + (* i is the watch the cursor names *)
      destruct ro as [|w ro]; [discriminate|]. cbn [map] in Ea. inversion Ea as [[Ew Ea']]. clear Ea. subst i.
      destruct (D (g_id w) (or_introl eq_refl)) as [Dp [Dn Dl]].
      assert (Hfw : find_sgw (g_id w) (sgws s) = Some w) by (rewrite A; apply find_sgw_mid; exact Dp).
      assert (Haf : sgw_after (g_id w) (sgws s) = hd_id (ro ++ nw)).
      { rewrite A. cbn [app]. rewrite sgw_after_mid by exact Dp. reflexivity. }
      assert (Hbw : (g_id w <? N) = true) by (apply Z.ltb_lt; apply L0lt; apply F; left; reflexivity).
      assert (HPm : Pm (g_id w) = (g_sig w =? sig)).
      { unfold Pm. rewrite (find_sgw_in_nodup L0 w L0nd); [reflexivity|]. apply F. left. reflexivity. }
      set (s1 := up_cursor s (hd_id (ro ++ nw))).
      assert (HJ1 : J s1) by (eapply J_same; [exact HJ|reflexivity..|cbn; lia]).
      assert (HW1 : WI r s1 (cursor s1)).
      { exists (pre ++ [w]), ro, nw. apply mkWI.
        - cbn [sgws s1 up_cursor]. rewrite A. cbn [app]. rewrite <- app_assoc. reflexivity.
        - reflexivity.
        - rewrite Ea'. exact Hs'.
        - intros j Hj. destruct (D j (or_intror Hj)) as [D1 [D2 D3]]. split; [|split; [exact D2|exact D3]].
          rewrite map_app. intros Hin. apply in_app_or in Hin. destruct Hin as [Hin|[Hin|[]]]; [contradiction|].
          cbn in Hin. subst j. contradiction.
        - exact E.
        - exact EN.
        - intros v Hv. apply F. right. exact Hv. }
      cbn [filter]. rewrite HPm.
      destruct (g_sig w =? sig) eqn:Em.
      * (* it watches the signal: invoked *)
        pose proof Em as Emb. apply Z.eqb_eq in Em.
        set (s1e := sig_fire s1 w sig).
        assert (HJ1e : J s1e) by (unfold s1e, sig_fire; destruct (g_id w <? 0); [exact HJ1|eapply J_same; [exact HJ1|reflexivity..|cbn; lia]]).
        assert (HW1e : WI r s1e (cursor s1e)).
        { unfold s1e, sig_fire. destruct (g_id w <? 0); [exact HW1|]. eapply WI_mono; [| | |exact HW1]; try reflexivity; cbn; lia. }
        assert (Hok : Forall act_ok (cb_acts env w)) by (unfold cb_acts; destruct (g_id w <? 0); [repeat constructor|apply Henv]).
        assert (Ex1e : xabs s1e = x_sig_fire (xabs s) w sig) by (unfold s1e, sig_fire, x_sig_fire; destruct (g_id w <? 0); reflexivity).
        destruct (sim_actions (cb_acts env w) s1e HJ1e Hok) as [E2 HJ2].
        pose proof (WI_actions (cb_acts env w) r s1e HJ1e Hok HW1e) as HW2.
        set (s2 := sdo_actions fixed_cfg s1e (cb_acts env w)) in *.
        destruct (IH s2 (cursor s2) HJ2 HW2 Hndr) as [s' [[R2 [R3 R4]] [f0 Hf0]]].
        exists s'. split; [split; [|split; [exact R3|]]|].
        -- rewrite R2, E2, Ex1e. cbn [x_run_sig].
           assert (Hx : find_sgw (g_id w) (x_sgs (xabs s)) = Some w) by exact Hfw.
           rewrite Hx. reflexivity.
        -- eapply subl_trans; [exact R4|]. eapply subl_trans; [exact (acts_drun (cb_acts env w) s1e HJ1e Hok)|].
           unfold s1e, sig_fire. destruct (g_id w <? 0); apply subl_refl.
        -- exists (S f0). intros fuel Hf. destruct fuel as [|f]; [lia|].
           cbn [app hd_id sig_walk]. rewrite Hfw, Haf, Emb, Hbw. apply Hf0. lia.
      * (* it watches another signal: passed over *)
        destruct (IH s1 (cursor s1) HJ1 HW1 Hndr) as [s' [[R2 [R3 R4]] [f0 Hf0]]].
        exists s'. split; [split; [|split; [exact R3|exact R4]]|].
        -- rewrite R2. reflexivity.
        -- exists (S f0). intros fuel Hf. destruct fuel as [|f]; [lia|].
           cbn [app hd_id sig_walk]. rewrite Hfw, Haf, Em. apply Hf0. lia.
    + (* i was cancelled before its turn *)
      assert (Hdead : find_sgw i (sgws s) = None).
      { apply find_sgw_none. rewrite A, !map_app. destruct (D i (or_introl eq_refl)) as [D1 [D2 _]].
        intros Hin. apply in_app_or in Hin. destruct Hin as [Hin|Hin]; [contradiction|].
        apply in_app_or in Hin. destruct Hin as [Hin|Hin]; contradiction. }
      assert (HW' : WI r s (hd_id (ro ++ nw))).
      { exists pre, ro, nw. apply mkWI; [exact A|reflexivity|exact Hs'| |exact E|exact EN|exact F]. intros j Hj. apply D. right. exact Hj. }
      destruct (IH s _ HJ HW' Hndr) as [s' [[R2 [R3 R4]] Hf0]].
      exists s'. split; [split; [|split; assumption]|exact Hf0].
      rewrite R2. cbn [filter]. destruct (Pm i); [|reflexivity]. cbn [x_run_sig].
      assert (Hx : find_sgw i (x_sgs (xabs s)) = None) by exact Hdead. rewrite Hx. reflexivity.
Qed.

End Walk.

Lemma filter_ids_Pm : forall sig l, NoDup (map g_id l) -> forall l', (forall w, In w l' -> In w l) ->
  map g_id (filter (fun w => g_sig w =? sig) l') = filter (Pm sig l) (map g_id l').
Proof.
  intros sig l Hnd. induction l' as [|h t IH]; intros Hin; [reflexivity|]. cbn [filter map].
  assert (E : Pm sig l (g_id h) = (g_sig h =? sig)).
  { unfold Pm. rewrite (find_sgw_in_nodup l h Hnd); [reflexivity|]. apply Hin. left. reflexivity. }
  rewrite E. destruct (g_sig h =? sig); cbn [map]; rewrite IH; try reflexivity; intros w Hw; apply Hin; right; exact Hw.
Qed.

(* dispatch_signals: the recorded signals in ascending order; each walk as above *)
Lemma sim_dispatch_sigs : forall sigs s, J s ->
  exists s', (xabs s' = x_run_sigs env sigs (xabs s) /\ J s' /\ subl (map l_id (drun s')) (map l_id (drun s))) /\
  exists f0, forall fuel, (f0 <= fuel)%nat -> dispatch_sigs fixed_cfg env fuel sigs s = Some s'.
Proof.
  induction sigs as [|sg r IH]; intros s HJ.
  - exists s. split; [split; [reflexivity|split; [exact HJ|apply subl_refl]]|]. exists O. intros fuel _. reflexivity.
  - cbn [dispatch_sigs x_run_sigs].
    assert (Hsg : x_sgs (xabs s) = sgws s) by reflexivity. rewrite Hsg.
    destruct (is_watched s sg) eqn:Ew.
    + assert (HW : WI (sgws s) (snext s) (map g_id (sgws s)) s (hd_id (sgws s))).
      { exists [], (sgws s), []. apply mkWI.
        - cbn [app]. rewrite app_nil_r. reflexivity.
        - rewrite app_nil_r. reflexivity.
        - apply subl_refl.
        - intros i Hi. split; [intros []|split; [intros []|]]. apply in_map_iff in Hi. destruct Hi as [w [E Hw]]. subst i.
          apply (J_sglt s HJ). exact Hw.
        - intros w [].
        - lia.
        - intros w Hw. exact Hw. }
      destruct (walk_sim sg (sgws s) (snext s) (J_sgnd s HJ) (J_sglt s HJ) (map g_id (sgws s)) s (hd_id (sgws s)) HJ HW (J_sgnd s HJ))
        as [s1 [[X [HJ1 Dr]] [f1 Hf1]]].
      rewrite (filter_ids_Pm sg (sgws s) (J_sgnd s HJ) (sgws s) (fun w H => H)).
      destruct (IH s1 HJ1) as [s' [[R2 [R3 R4]] [f2 Hf2]]].
      exists s'. split; [split; [rewrite R2, X; reflexivity|split; [exact R3|eapply subl_trans; eassumption]]|].
      exists (Nat.max f1 f2). intros fuel Hf.
      change (match sgws s with [] => None | h :: _ => Some (g_id h) end) with (hd_id (sgws s)).
      rewrite (Hf1 fuel ltac:(lia)). apply Hf2. lia.
    + unfold is_watched in Ew. rewrite (not_watched_filter _ _ Ew). cbn [map x_run_sig]. apply IH. exact HJ.
Qed.


End Refine.

(* ------------------------------------------------------------------ the pending set, sorted *)

Fixpoint ssorted (l : list Z) : Prop :=
  match l with [] => True | h :: t => (forall x, In x t -> h < x) /\ ssorted t end.

Lemma insert_sorted_in : forall y l x, In x (insert_sorted y l) <-> x = y \/ In x l.
Proof.
  induction l as [|h t IH]; intros x; cbn [insert_sorted].
  - cbn. intuition.
  - destruct (y <=? h); cbn [In]; [intuition|]. rewrite IH. intuition.
Qed.

Lemma insert_ssorted : forall y l, ssorted l -> ~ In y l -> ssorted (insert_sorted y l).
Proof.
  induction l as [|h t IH]; intros Hs Hn; cbn [insert_sorted].
  - cbn. split; [intros x []|exact I].
  - destruct Hs as [Hh Ht]. destruct (y <=? h) eqn:E.
    + apply Z.leb_le in E. split; [|split; assumption]. intros x [Hx|Hx].
      * subst x. assert (y <> h) by (intros Eq; apply Hn; left; symmetry; exact Eq). lia.
      * specialize (Hh x Hx). lia.
    + apply Z.leb_gt in E. split.
      * intros x Hx. apply insert_sorted_in in Hx. destruct Hx as [Hx|Hx]; [subst; exact E|apply Hh; exact Hx].
      * apply IH; [exact Ht|]. intros Hin. apply Hn. right. exact Hin.
Qed.

Lemma sort_z_in : forall l x, In x (sort_z l) <-> In x l.
Proof.
  induction l as [|h t IH]; intros x; [reflexivity|]. unfold sort_z in *. cbn [fold_right In].
  rewrite insert_sorted_in, IH. intuition.
Qed.

Lemma sort_z_ssorted : forall l, NoDup l -> ssorted (sort_z l).
Proof.
  induction l as [|h t IH]; intros Hnd; [exact I|]. inversion Hnd as [|? ? Hh Ht]; subst.
  change (sort_z (h :: t)) with (insert_sorted h (sort_z t)). apply insert_ssorted; [apply IH; exact Ht|].
  intros Hin. apply Hh. apply sort_z_in. exact Hin.
Qed.

Lemma ssorted_unique : forall a b, ssorted a -> ssorted b -> (forall x, In x a <-> In x b) -> a = b.
Proof.
  induction a as [|h t IH]; intros b Ha Hb Hiff.
  - destruct b as [|h' t']; [reflexivity|]. exfalso. apply (Hiff h'). left. reflexivity.
  - destruct b as [|h' t']; [exfalso; apply (Hiff h); left; reflexivity|].
    destruct Ha as [Hh Ht]. destruct Hb as [Hh' Ht'].
    assert (E : h = h').
    { destruct (proj1 (Hiff h) (or_introl eq_refl)) as [E|Hin]; [symmetry; exact E|].
      destruct (proj2 (Hiff h') (or_introl eq_refl)) as [E|Hin']; [exact E|].
      specialize (Hh' h Hin). specialize (Hh h' Hin'). lia. }
    subst h'. f_equal. apply IH; [exact Ht|exact Ht'|]. intros x. split; intros Hx.
    + destruct (proj1 (Hiff x) (or_intror Hx)) as [E|Hin]; [|exact Hin]. specialize (Hh x Hx). lia.
    + destruct (proj2 (Hiff x) (or_intror Hx)) as [E|Hin]; [|exact Hin]. specialize (Hh' x Hx). lia.
Qed.

Lemma addz_in : forall x l y, In y (addz x l) <-> In y l \/ y = x.
Proof.
  intros x l y. unfold addz. destruct (memz x l) eqn:E.
  - apply memz_in in E. split; [intros H; left; exact H|intros [H|H]; [exact H|subst; exact E]].
  - rewrite in_app_iff. cbn. intuition.
Qed.
Lemma addz_nodup : forall x l, NoDup l -> NoDup (addz x l).
Proof.
  intros x l H. unfold addz. destruct (memz x l) eqn:E; [exact H|]. apply NoDup_app_intro_single; [exact H|].
  intros Hin. apply memz_in in Hin. congruence.
Qed.
Lemma fold_addz : forall d acc, NoDup acc ->
  NoDup (fold_left (fun p x => addz x p) d acc) /\ forall y, In y (fold_left (fun p x => addz x p) d acc) <-> In y acc \/ In y d.
Proof.
  induction d as [|h t IH]; intros acc Hnd; cbn [fold_left].
  - split; [exact Hnd|]. intros y. cbn. intuition.
  - destruct (IH (addz h acc) (addz_nodup h acc Hnd)) as [A B]. split; [exact A|]. intros y. rewrite B, addz_in. cbn. intuition.
Qed.
Lemma dedup_in : forall l y, In y (dedup l) <-> In y l.
Proof.
  induction l as [|h t IH]; intros y; [reflexivity|]. cbn [dedup]. destruct (memz h t) eqn:E.
  - rewrite IH. apply memz_in in E. cbn. split; [intros H; right; exact H|intros [H|H]; [subst; exact E|exact H]].
  - cbn. rewrite IH. reflexivity.
Qed.
Lemma dedup_nodup : forall l, NoDup (dedup l).
Proof.
  induction l as [|h t IH]; [constructor|]. cbn [dedup]. destruct (memz h t) eqn:E; [exact IH|].
  constructor; [|exact IH]. intros Hin. apply (proj1 (dedup_in t h)) in Hin. apply (proj2 (memz_in h t)) in Hin. congruence.
Qed.

Lemma pending_sorted : forall d, sort_z (fold_left (fun p x => addz x p) d []) = sort_z (dedup d).
Proof.
  intros d. destruct (fold_addz d [] (NoDup_nil _)) as [A B].
  apply ssorted_unique; [apply sort_z_ssorted; exact A|apply sort_z_ssorted; apply dedup_nodup|].
  intros x. rewrite !sort_z_in, B, dedup_in. cbn. intuition.
Qed.

(* ------------------------------------------------------------------ ppoll and one pass of the loop *)

Lemma poll_events : forall R p, p_events (poll_slot R p) = p_events p.
Proof. intros R p. unfold poll_slot. destruct (p_fd p <? 0); reflexivity. Qed.
Lemma poll_fd : forall R p, p_fd (poll_slot R p) = p_fd p.
Proof. intros R p. unfold poll_slot. destruct (p_fd p <? 0); reflexivity. Qed.
Lemma poll_watch : forall R p, p_watch (poll_slot R p) = p_watch p.
Proof. intros R p. unfold poll_slot. destruct (p_fd p <? 0); reflexivity. Qed.

Lemma poll_fires : forall R h, sfires (poll_slot R h) = negb (p_revents (poll_slot R h) =? 0).
Proof.
  intros R h. unfold sfires. rewrite poll_fd. unfold poll_slot. destruct (p_fd h <? 0) eqn:E; cbn [p_revents].
  - change (0 =? 0) with true. cbn [negb]. apply andb_false_r.
  - apply Z.ltb_ge in E. assert (E1 : (p_fd h =? -1) = false) by (apply Z.eqb_neq; lia). rewrite E1. reflexivity.
Qed.

Lemma count_snap : forall R l,
  length (filter (fun x => negb (p_revents x =? 0)) (map (poll_slot R) l)) =
  length (flat_map o2l (map snap_of (map (poll_slot R) l))).
Proof.
  induction l as [|h t IH]; [reflexivity|]. cbn [map filter flat_map]. rewrite app_length, <- IH.
  unfold snap_of. rewrite poll_fires. destruct (negb (p_revents (poll_slot R h) =? 0)); reflexivity.
Qed.

Lemma flat_map_ext_in : forall {A B} (f g : A -> list B) l, (forall a, In a l -> f a = g a) -> flat_map f l = flat_map g l.
Proof.
  induction l as [|h t IH]; intros H; [reflexivity|]. cbn [flat_map]. rewrite (H h (or_introl eq_refl)), IH; [reflexivity|].
  intros a Ha. apply H. right. exact Ha.
Qed.

Section Tick.
Variable env : Z -> list saction.
Hypothesis Henv : env_ok env.

(* the specification's snapshot is what ppoll writes into the table *)
Lemma snapshot_poll : forall s, J s ->
  io_snapshot (xabs s) = flat_map o2l (map snap_of (map (poll_slot (ready s)) (slots s))).
Proof.
  intros s HJ. unfold io_snapshot. cbn [x_tab xabs x_ios x_ready]. unfold tab_of.
  rewrite !map_map. rewrite !flat_map_concat_map, !map_map. f_equal.
  apply map_ext_in. intros sl Hin. destruct (In_nth_error _ _ Hin) as [idx Hn].
  destruct (p_fd sl =? -1) eqn:Efd.
  - apply Z.eqb_eq in Efd. unfold snap_of, sfires. rewrite poll_fd, Efd. reflexivity.
  - assert (Hfd : p_fd sl <> -1) by (apply Z.eqb_neq; exact Efd).
    destruct (tw_slot s (J_tw s HJ) idx sl Hn Hfd) as [w [Hw [Hid [Hwfd Hsl]]]].
    destruct (J_io s HJ w Hw) as [sl' [Hn' [_ [_ Hge]]]]. rewrite Hsl, Hn in Hn'. inversion Hn'; subst sl'.
    rewrite find_xio_map, <- Hid, (find_iow_in_nodup _ w (tw_nodup s (J_tw s HJ)) Hw). cbn [option_map xi_fd xi_ev xio_of].
    rewrite Hsl, Hn, Hwfd.
    unfold snap_of, sfires. rewrite poll_fd, poll_watch, Efd. unfold poll_slot.
    assert (E0 : (p_fd sl <? 0) = false) by (apply Z.ltb_ge; lia). rewrite E0. cbn [p_revents negb andb].
    rewrite Hid. destruct (Z.land (lookup_ready (ready s) (p_fd sl)) (Z.lor (p_events sl) 56) =? 0); reflexivity.
Qed.

Lemma polled_state : forall s R, J s ->
  let s2 := up_inwait (up_ready (up_slots s (map (poll_slot R) (slots s))) []) [] in
  xabs s2 = mkX (x_ios (xabs s)) (x_tab (xabs s)) (x_sgs (xabs s)) (x_def (xabs s)) (x_kpend (xabs s)) [] []
                (x_next (xabs s)) (x_iter (xabs s)) (x_log (xabs s)) (x_run (xabs s)) /\
  J s2 /\ DI 0 (map snap_of (slots s2)) s2.
Proof.
  intros s R HJ s2.
  assert (HJ2 : J s2).
  { destruct HJ as [a b c d e f g]. apply mkJ; cbn; try assumption.
    - destruct a as [a1 a2 a3]. apply mkTW; cbn; try assumption.
      intros idx sl Hn Hfd. rewrite nth_error_map in Hn. destruct (nth_error (slots s) idx) as [p|] eqn:Ep; [|discriminate].
      cbn in Hn. inversion Hn; subst sl. rewrite poll_fd in Hfd. rewrite poll_watch, poll_fd. exact (a3 idx p Ep Hfd).
    - intros w Hw. destruct (f w Hw) as [sl [Hn R0]]. exists (poll_slot R sl). rewrite nth_error_map, Hn.
      split; [reflexivity|]. rewrite poll_fd, poll_watch. exact R0. }
  split; [|split; [exact HJ2|]].
  - unfold xabs, s2. cbn. f_equal.
    + apply xio_of_ext. intros w _. rewrite nth_error_map. destruct (nth_error (slots s) (i_slot w)); [cbn; apply poll_events|reflexivity].
    + unfold tab_of. rewrite map_map. apply map_ext. intros p. rewrite poll_fd, poll_watch. reflexivity.
  - unfold DI. rewrite map_length. repeat split.
    + lia.
    + intros j sl Hn _. cbn [Nat.add] in Hn. rewrite nth_error_map, Hn. reflexivity.
    + intros j id c Hn _. rewrite nth_error_map in Hn. cbn [Nat.add].
      destruct (nth_error (slots s2) j) as [sl|] eqn:E; [|discriminate]. cbn [option_map] in Hn. injection Hn as Hn.
      exists sl. split; [reflexivity|exact Hn].
    + intros j id c Hn. rewrite nth_error_map in Hn. destruct (nth_error (slots s2) j) as [sl|] eqn:E; [|discriminate].
      cbn [option_map] in Hn. injection Hn as Hs. apply snap_of_some in Hs. destruct Hs as [Hf [Hw _]].
      unfold sfires in Hf. apply andb_true_iff in Hf. destruct Hf as [Hf _]. apply negb_true_iff in Hf. apply Z.eqb_neq in Hf.
      destruct (tw_slot s2 (J_tw s2 HJ2) j sl E Hf) as [w [Hin [Hid _]]].
      pose proof (tw_below s2 (J_tw s2 HJ2)) as Hb. rewrite Forall_forall in Hb. specialize (Hb w Hin). rewrite <- Hw, <- Hid. exact Hb.
Qed.

(* between passes: no batch of deferred callbacks is being run, nothing recorded by the handler *)
Definition Bd (s : sst) : Prop := J s /\ drun s = [] /\ pending s = [].

Lemma subl_nil_map : forall (l : list ltr), subl (map l_id l) [] -> l = [].
Proof. intros l H. apply subl_nil_inv in H. apply map_eq_nil in H. exact H. Qed.

Theorem sim_iteration : forall sleep s, Bd s ->
  exists s', (xabs s' = x_iteration env sleep (xabs s) /\ Bd s') /\
  exists f0, forall fuel, (f0 <= fuel)%nat -> iteration fixed_cfg env fuel sleep s = Some s'.
Proof.
  intros sleep s [HJ [Hdr Hpe]]. unfold iteration. fold (before_poll sleep s). cbn [stop_early fixed_cfg andb].
  set (s1 := before_poll sleep s).
  assert (HJ1 : J s1) by (eapply J_same; [exact HJ|reflexivity..|cbn; lia]).
  assert (Hsnap : io_snapshot (xabs s) = flat_map o2l (map snap_of (map (poll_slot (ready s1)) (slots s1))))
    by exact (snapshot_poll s HJ).
  destruct (polled_state s1 (ready s1) HJ1) as [Ex2 [HJ2 HD2]]. cbv zeta in Ex2, HJ2, HD2.
  unfold ppoll. rewrite count_snap.
  set (polled := map (poll_slot (ready s1)) (slots s1)) in *.
  set (s1' := up_inwait (up_ready (up_slots s1 polled) []) []) in *.
  assert (Hdef : x_def (xabs s) = dlaters s) by (unfold xabs; cbn [x_def]; rewrite Hdr; reflexivity).
  assert (Hmsec : xabs s1' = mkX (x_ios (xabs s)) (x_tab (xabs s)) (x_sgs (xabs s)) (x_def (xabs s)) (x_kpend (xabs s)) [] []
            (x_next (xabs s)) (x_iter (xabs s) + 1)
            (OPoll (if sleep then match x_def (xabs s) with [] => -1 | _ => 0 end else 0) :: x_log (xabs s)) (x_run (xabs s))).
  { rewrite Ex2. unfold s1, before_poll, xabs. cbn. rewrite Hdr. reflexivity. }
  assert (Hdefs : map l_id (x_def (xabs s)) = map l_id (drun s1' ++ dlaters s1')) by reflexivity.
  unfold x_iteration. rewrite Hsnap.
  destruct (flat_map o2l (map snap_of polled)) as [|e0 snap] eqn:Esn.
  - (* no descriptor ready *)
    cbn [length Z.of_nat]. change (0 <? 0) with false. cbv iota.
    change (kpend s1 ++ filter (is_watched s1) (inwait s1)) with (x_kpend (xabs s) ++ filter (x_watched (xabs s)) (x_inwait (xabs s))).
    destruct (x_kpend (xabs s) ++ filter (x_watched (xabs s)) (x_inwait (xabs s))) as [|d0 dl] eqn:Edel.
    + (* time-out *)
      destruct (sim_invoke_laters env Henv (fun _ => True) (fun _ _ _ _ _ _ => I) (fun _ _ _ _ _ => I) s1' HJ2 I) as [E3 [HJ3 [_ Hd3]]].
      exists (invoke_laters fixed_cfg env s1'). split; [split; [|split; [exact HJ3|split; [exact Hd3|]]]|].
      * rewrite E3, Hdefs, Hmsec. reflexivity.
      * rewrite pending_invoke_laters. exact Hpe.
      * exists O. intros fuel _. reflexivity.
    + (* interrupted: the handler records the delivered signals *)
      set (dlv := d0 :: dl) in *.
      set (s2 := up_errno (up_pending (up_kpend s1' []) (fold_left (fun p x => addz x p) dlv (pending s1'))) EINTR).
      assert (HJ2' : J s2) by (eapply J_same; [exact HJ2|reflexivity..|cbn; lia]).
      destruct (sim_invoke_laters env Henv (fun _ => True) (fun _ _ _ _ _ _ => I) (fun _ _ _ _ _ => I) s2 HJ2' I) as [E3 [HJ3 [_ Hd3]]].
      set (s3 := invoke_laters fixed_cfg env s2) in *.
      assert (Hp3 : pending s3 = fold_left (fun p x => addz x p) dlv []).
      { unfold s3. rewrite pending_invoke_laters. cbn. rewrite Hpe. reflexivity. }
      assert (HJ3' : J (up_pending s3 [])) by (eapply J_same; [exact HJ3|reflexivity..|cbn; lia]).
      destruct (sim_dispatch_sigs env Henv (sort_z (pending s3)) (up_pending s3 []) HJ3') as [s' [[R2 [R3 R4]] [f0 Hf0]]].
      exists s'. split; [split; [|split; [exact R3|split]]|].
      * rewrite R2. rewrite Hp3, pending_sorted.
        assert (Ex3 : xabs (up_pending s3 []) = xabs s3) by reflexivity. rewrite Ex3, E3.
        assert (Ex2' : xabs s2 = mkX (x_ios (xabs s)) (x_tab (xabs s)) (x_sgs (xabs s)) (x_def (xabs s)) [] [] []
            (x_next (xabs s)) (x_iter (xabs s) + 1)
            (OPoll (if sleep then match x_def (xabs s) with [] => -1 | _ => 0 end else 0) :: x_log (xabs s)) (x_run (xabs s))).
        { transitivity (mkX (x_ios (xabs s1')) (x_tab (xabs s1')) (x_sgs (xabs s1')) (x_def (xabs s1')) [] [] []
                            (x_next (xabs s1')) (x_iter (xabs s1')) (x_log (xabs s1')) (x_run (xabs s1'))); [reflexivity|]. rewrite Hmsec. reflexivity. }
        rewrite Ex2'. reflexivity.
      * apply subl_nil_map. cbn [drun up_pending] in R4. rewrite Hd3 in R4. exact R4.
      * rewrite (pending_dispatch_sigs _ _ _ _ _ _ (Hf0 f0 (Nat.le_refl _))). reflexivity.
      * exists f0. intros fuel Hf. change (0 <? -1) with false. change (-1 <? 0) with true. cbn [andb errno_late fixed_cfg errno s2 up_errno].
        change (EINTR =? EINTR) with true. cbv iota. unfold dispatch_signals. apply Hf0. exact Hf.
  - (* some descriptor is ready: the IO watches of the snapshot *)
    assert (Hpos : (0 <? Z.of_nat (length (e0 :: snap))) = true) by (apply Z.ltb_lt; cbn [length]; lia).
    rewrite Hpos.
    destruct (sim_invoke_laters env Henv (DI 0 (map snap_of (slots s1')))
                (DI_frame 0 _) (fun s a HJa Hok HD => DI_action 0 _ s a HJa Hok HD) s1' HJ2 HD2) as [E3 [HJ3 [HD3 Hd3]]].
    set (s3 := invoke_laters fixed_cfg env s1') in *.
    destruct (sim_io_dispatch env Henv (map snap_of (slots s1')) 0 s3 HJ3 HD3) as [s' [[R2 [R3 R4]] [f0 Hf0]]].
    exists s'. split; [split; [|split; [exact R3|split]]|].
    + rewrite R2, E3, Hdefs, Hmsec. change (slots s1') with polled. rewrite Esn. reflexivity.
    + apply subl_nil_map. rewrite Hd3 in R4. exact R4.
    + rewrite (pending_io_dispatch _ _ _ _ _ _ (Hf0 f0 (Nat.le_refl _))). unfold s3. rewrite pending_invoke_laters. exact Hpe.
    + exists f0. intros fuel Hf. rewrite Hpos. apply Hf0. exact Hf.
Qed.


Lemma Bd_running : forall s v, Bd s -> Bd (up_running s v).
Proof. intros s v [HJ [A B]]. split; [eapply J_same; [exact HJ|reflexivity..|cbn; lia]|split; assumption]. Qed.

(* tickit_tick *)
Theorem sim_stick : forall sleep s, Bd s ->
  exists s', (xabs s' = x_tick env sleep (xabs s) /\ Bd s') /\
  exists f0, forall fuel, (f0 <= fuel)%nat -> stick fixed_cfg env fuel sleep s = Some s'.
Proof. intros sleep s HB. unfold stick, x_tick. apply (sim_iteration sleep (up_running s true)). apply Bd_running. exact HB. Qed.

(* tickit_run: the passes the model makes are those of the specification, whichever callback
   stops the loop and in which pass *)
Theorem sim_run_passes : forall k s, Bd s ->
  exists s', (xabs s' = x_run_passes env k (xabs s) /\ Bd s') /\
  exists f0, forall fuel, (f0 <= fuel)%nat -> run_passes fixed_cfg env fuel k s = Some s'.
Proof.
  induction k as [|k IH]; intros s HB.
  - exists s. split; [split; [reflexivity|exact HB]|]. exists O. intros fuel _. reflexivity.
  - cbn [run_passes x_run_passes]. change (x_run (xabs s)) with (running s). destruct (negb (running s)).
    + exists s. split; [split; [reflexivity|exact HB]|]. exists O. intros fuel _. reflexivity.
    + set (s1 := if Nat.eqb k 0 then up_running s false else s).
      assert (HB1 : Bd s1) by (unfold s1; destruct (Nat.eqb k 0); [apply Bd_running|]; exact HB).
      assert (E1 : (if Nat.eqb k 0 then x_set_run (xabs s) false else xabs s) = xabs s1)
        by (unfold s1; destruct (Nat.eqb k 0); reflexivity).
      rewrite E1. destruct (sim_iteration true s1 HB1) as [s2 [[X2 HB2] [f1 Hf1]]].
      destruct (IH s2 HB2) as [s' [[X' HB'] [f2 Hf2]]]. exists s'. split; [split; [rewrite X', X2; reflexivity|exact HB']|].
      exists (Nat.max f1 f2). intros fuel Hf. rewrite (Hf1 fuel ltac:(lia)). apply Hf2. lia.
Qed.

(* ------------------------------------------------------------------ scripts *)

Definition op_ok (o : sop) : Prop := match o with SAct a => act_ok a | _ => True end.

Lemma Bd_sst0 : Bd sst0.
Proof.
  split; [|split; reflexivity]. apply mkJ; cbn.
  - apply TW_sst0.
  - constructor.
  - constructor.
  - intros w [].
  - intros w [].
  - intros w [].
  - lia.
Qed.

Lemma sim_ops : forall ops s, Bd s -> Forall op_ok ops ->
  exists s', (xabs s' = fold_left (x_op env) ops (xabs s) /\ Bd s') /\
  exists f0, forall fuel, (f0 <= fuel)%nat -> fold_left (sdo_op fixed_cfg env fuel) ops (Some s) = Some s'.
Proof.
  induction ops as [|o r IH]; intros s HB Hok.
  - exists s. split; [split; [reflexivity|exact HB]|]. exists O. intros fuel _. reflexivity.
  - inversion Hok as [|? ? Ho Hr]; subst. destruct HB as [HJ [Hdr Hpe]]. cbn [fold_left].
    destruct o as [a|sl|fd rv|sg|rk].
    + cbn in Ho. destruct (sim_action env s a HJ Ho) as [E HJ2].
      assert (HB2 : Bd (sdo_action fixed_cfg s a)).
      { split; [exact HJ2|split; [|rewrite pending_sdo_action; exact Hpe]].
        apply subl_nil_map. pose proof (act_drun s a HJ) as Hsub. rewrite Hdr in Hsub. exact Hsub. }
      destruct (IH _ HB2 Hr) as [s' [[X Y] [f0 Hf0]]]. exists s'. split; [split; [|exact Y]|].
      * rewrite X. cbn [x_op]. rewrite E. reflexivity.
      * exists f0. intros fuel Hf. cbn [sdo_op]. apply Hf0. exact Hf.
    + destruct (sim_stick sl s (conj HJ (conj Hdr Hpe))) as [s1 [[E HB1] [f1 Hf1]]].
      destruct (IH s1 HB1 Hr) as [s' [[X Y] [f2 Hf2]]]. exists s'. split; [split; [|exact Y]|].
      * rewrite X. cbn [x_op]. rewrite E. reflexivity.
      * exists (Nat.max f1 f2). intros fuel Hf. cbn [sdo_op]. rewrite (Hf1 fuel ltac:(lia)). apply Hf2. lia.
    + assert (HB2 : Bd (up_ready s ((fd, rv) :: ready s))).
      { split; [eapply J_same; [exact HJ|reflexivity..|cbn; lia]|split; assumption]. }
      destruct (IH _ HB2 Hr) as [s' [[X Y] [f0 Hf0]]]. exists s'. split; [split; [|exact Y]|].
      * rewrite X. reflexivity.
      * exists f0. intros fuel Hf. cbn [sdo_op]. apply Hf0. exact Hf.
    + assert (HB2 : Bd (up_inwait s (inwait s ++ [sg]))).
      { split; [eapply J_same; [exact HJ|reflexivity..|cbn; lia]|split; assumption]. }
      destruct (IH _ HB2 Hr) as [s' [[X Y] [f0 Hf0]]]. exists s'. split; [split; [|exact Y]|].
      * rewrite X. reflexivity.
      * exists f0. intros fuel Hf. cbn [sdo_op]. apply Hf0. exact Hf.
    + (* tickit_run: the SIGINT watch, the passes, its cancellation *)
      set (sa := up_sgws (up_running s true) (remove_sgw INT_ID (sgws s) ++ [int_watch])).
      assert (HBa : Bd sa).
      { split; [|split; assumption]. destruct HJ as [a b c d e f g]. apply mkJ; cbn; try assumption.
        - eapply TW_same; [exact a|reflexivity..|cbn; lia].
        - rewrite map_app. cbn [map g_id int_watch]. apply NoDup_app_intro_single.
          + eapply subl_nodup; [apply subl_remove_sgw|exact b].
          + apply remove_sgw_notin. exact b.
        - intros w Hw. apply in_app_or in Hw. destruct Hw as [Hw|[Hw|[]]].
          + apply d. eapply in_remove_sgw_elem. exact Hw.
          + subst w. cbn. unfold INT_ID. lia. }
      assert (Exa : xabs sa = x_set_sgs (x_set_run (xabs s) true) (remove_sgw INT_ID (x_sgs (xabs s)) ++ [int_watch])) by reflexivity.
      destruct (sim_run_passes rk sa HBa) as [s1 [[E HB1] [f1 Hf1]]].
      set (sb := up_sgws s1 (remove_sgw INT_ID (sgws s1))).
      assert (HBb : Bd sb).
      { destruct HB1 as [HJ1 [A1 B1]]. split; [|split; assumption]. destruct HJ1 as [a b c d e f g]. apply mkJ; cbn; try assumption.
        - eapply TW_same; [exact a|reflexivity..|cbn; lia].
        - eapply subl_nodup; [apply subl_remove_sgw|exact b].
        - intros w Hw. apply d. eapply in_remove_sgw_elem. exact Hw. }
      assert (Exb : xabs sb = x_set_sgs (xabs s1) (remove_sgw INT_ID (x_sgs (xabs s1)))) by reflexivity.
      destruct (IH sb HBb Hr) as [s' [[X Y] [f2 Hf2]]]. exists s'. split; [split; [|exact Y]|].
      * rewrite X. cbn [x_op]. rewrite Exb, E, Exa. reflexivity.
      * exists (Nat.max f1 f2). intros fuel Hf. cbn [sdo_op]. fold sa. rewrite (Hf1 fuel ltac:(lia)). apply Hf2. lia.
Qed.

(* destruction *)
Definition Rlog (s : sst) (x : xst) : Prop := slog s = x_log x /\ siter s = x_iter x.

Lemma destroy_io : forall sl l s x, Rlog s x ->
  Rlog (fold_left (fun s w => if i_unbind w then semit s (i_id w) KIo (EV_UNBIND + EV_DESTROY) 0 else s) l s)
       (fold_left (fun s w => if xi_unbind w then xemit s (xi_id w) KIo (EV_UNBIND + EV_DESTROY) 0 else s) (map (xio_of sl) l) x).
Proof.
  induction l as [|w t IH]; intros s x HR; [exact HR|]. cbn [map fold_left]. apply IH.
  cbn [xi_unbind xi_id xio_of]. destruct (i_unbind w); [|exact HR]. destruct HR as [A B]. split; cbn; [|exact B]. rewrite A, B. reflexivity.
Qed.
Lemma destroy_lt : forall l s x, Rlog s x ->
  Rlog (fold_left (fun s w => if l_unbind w then semit s (l_id w) KLater (EV_UNBIND + EV_DESTROY) 0 else s) l s)
       (fold_left (fun s w => if l_unbind w then xemit s (l_id w) KLater (EV_UNBIND + EV_DESTROY) 0 else s) l x).
Proof.
  induction l as [|w t IH]; intros s x HR; [exact HR|]. cbn [fold_left]. apply IH.
  destruct (l_unbind w); [|exact HR]. destruct HR as [A B]. split; cbn; [|exact B]. rewrite A, B. reflexivity.
Qed.
Lemma destroy_sg : forall l s x, Rlog s x ->
  Rlog (fold_left (fun s w => if g_unbind w then semit s (g_id w) KSig (EV_UNBIND + EV_DESTROY) (g_sig w) else s) l s)
       (fold_left (fun s w => if g_unbind w then xemit s (g_id w) KSig (EV_UNBIND + EV_DESTROY) (g_sig w) else s) l x).
Proof.
  induction l as [|w t IH]; intros s x HR; [exact HR|]. cbn [fold_left]. apply IH.
  destruct (g_unbind w); [|exact HR]. destruct HR as [A B]. split; cbn; [|exact B]. rewrite A, B. reflexivity.
Qed.

Lemma sim_destroy : forall s, drun s = [] -> slog (sdestroy s) = x_log (x_destroy (xabs s)).
Proof.
  intros s Hdr. unfold sdestroy, x_destroy. cbn [x_ios x_def x_sgs xabs iows dlaters sgws up_siter]. rewrite Hdr. cbn [app].
  apply destroy_sg. apply destroy_lt. apply destroy_io. split; reflexivity.
Qed.

(* C18_refines: with enough fuel the model completes every script -- it never takes one of its
   "cannot happen" branches -- and its log is the specification's *)
Theorem refines_xspec : forall ops, Forall op_ok ops ->
  exists f0, forall fuel, (f0 <= fuel)%nat -> srun fixed_cfg env fuel ops = Some (xspec_run env ops).
Proof.
  intros ops Hok. destruct (sim_ops ops sst0 Bd_sst0 Hok) as [s' [[X [HJ [Hdr Hpe]]] [f0 Hf0]]].
  exists f0. intros fuel Hf. unfold srun, srun_ops. rewrite (Hf0 fuel Hf). unfold xspec_run.
  change xst0 with (xabs sst0). rewrite <- X, sim_destroy by exact Hdr. reflexivity.
Qed.

(* the state every script reaches satisfies the invariant *)
Theorem reach_J : forall ops, Forall op_ok ops ->
  exists s, J s /\ drun s = [] /\ pending s = [] /\
  exists f0, forall fuel, (f0 <= fuel)%nat -> srun_ops fixed_cfg env fuel ops = Some s.
Proof.
  intros ops Hok. destruct (sim_ops ops sst0 Bd_sst0 Hok) as [s' [[X [HJ [Hdr Hpe]]] Hf]].
  exists s'. split; [exact HJ|split; [exact Hdr|split; [exact Hpe|exact Hf]]].
Qed.

(* C18_all_watchers_invoked, for callbacks that cancel and register whatever they like (a watch
   of the signal being dispatched excepted): dispatch_signals takes the recorded signals in
   ascending order; for each, the watches of that signal that are in the list at that moment
   are visited in list (registration) order, and each one that is still live when its turn comes
   is invoked exactly once -- x_run_sigs is the executable form of this sentence *)
Theorem dispatch_invokes_live : forall s, J s ->
  exists s', (xabs s' = x_run_sigs env (sort_z (pending s)) (xabs s) /\ pending s' = [] /\ J s') /\
  exists f0, forall fuel, (f0 <= fuel)%nat -> dispatch_signals fixed_cfg env fuel s = Some s'.
Proof.
  intros s HJ. unfold dispatch_signals.
  assert (HJ' : J (up_pending s [])) by (eapply J_same; [exact HJ|reflexivity..|cbn; lia]).
  destruct (sim_dispatch_sigs env Henv (sort_z (pending s)) (up_pending s []) HJ') as [s' [[R2 [R3 R4]] [f0 Hf0]]].
  exists s'. split; [split; [exact R2|split; [|exact R3]]|exists f0; exact Hf0].
  rewrite (pending_dispatch_sigs _ _ _ _ _ _ (Hf0 f0 (Nat.le_refl _))). reflexivity.
Qed.

End Tick.

(* ------------------------------------------------------------------ a witness *)

(* three watchers of signal 10; the callback of the first cancels its own watch and the next
   one and registers a further watch OF SIGNAL 10 (not invoked by the walk under way: it was
   not watching when the signal was delivered) and a deferred callback, which raises the
   signal again; the third asks for UNBIND *)
Definition wr_env (cb : Z) : list saction :=
  if cb =? 1 then [SCancel 0; SCancel 1; SSig 10 false 2; SLater false 3] else
  if cb =? 3 then [SRaise 10] else [].
Definition wr_ops : list sop :=
  [SAct (SSig 10 false 1); SAct (SSig 10 false 2); SAct (SSig 10 true 2); SArrive 10; STick true; STick false; STick false].

Lemma wr_env_ok : env_ok wr_env.
Proof.
  intros cb. unfold wr_env. destruct (cb =? 1); [repeat constructor|]. destruct (cb =? 3); repeat constructor.
Qed.

Lemma wr_ops_ok : Forall op_ok wr_ops.
Proof. repeat constructor. Qed.

Lemma refines_witness :
  srun fixed_cfg wr_env 50 wr_ops = Some (xspec_run wr_env wr_ops) /\
  xspec_run wr_env wr_ops =
    [OPoll (-1); OEv (mkE 0 KSig EV_FIRE 1 0 10); OEv (mkE 2 KSig EV_FIRE 1 0 10);
     OPoll 0; OEv (mkE 4 KLater (EV_FIRE + EV_UNBIND) 2 0 0);
     OPoll 0; OEv (mkE 2 KSig EV_FIRE 3 0 10); OEv (mkE 3 KSig EV_FIRE 3 0 10);
     OEv (mkE 2 KSig (EV_UNBIND + EV_DESTROY) (-1) 0 10)].
Proof. split; vm_compute; reflexivity. Qed.
